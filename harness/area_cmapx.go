package main

// Area cmapx (property C09, the parts outside format 4): format 12 encode/decode, formats 0
// and 6 decoding, the cmap Table container (Encode/Decode/Get) and GetBest.

import (
	"fmt"
	"reflect"
	"sort"
	"strings"

	"seehuhn.de/go/sfnt"
	"seehuhn.de/go/sfnt/cmap"
	"seehuhn.de/go/sfnt/glyph"
	"seehuhn.de/go/sfnt/mac"
)

func cxPanic(s string) string {
	if strings.HasPrefix(s, "panic:") {
		return "panic"
	}
	return s
}

func cxParseMap32(f Fields) cmap.Format12 {
	m := cmap.Format12{}
	for _, p := range f.List("map", ",") {
		var c, g uint64
		fmt.Sscanf(p, "%d:%d", &c, &g)
		m[uint32(c)] = glyph.ID(g)
	}
	return m
}

func cxMapArg(m cmap.Format12) string {
	keys := make([]uint32, 0, len(m))
	for k := range m {
		keys = append(keys, k)
	}
	sort.Slice(keys, func(i, j int) bool { return keys[i] < keys[j] })
	var b strings.Builder
	for i, k := range keys {
		if i > 0 {
			b.WriteByte(',')
		}
		fmt.Fprintf(&b, "%d:%d", k, m[k])
	}
	return b.String()
}

// cxShowMap prints a decoded map: entry count, then the non-zero pairs or (large maps) a digest.
func cxShowMap(n int, each func(func(c uint64, g uint64))) string {
	if n > 512 {
		var h uint64
		each(func(c, g uint64) { x := c*65537 + g + 1; h += x * x })
		return fmt.Sprintf("ok:n=%d:h=%d", n, h)
	}
	type pr struct{ c, g uint64 }
	var ps []pr
	each(func(c, g uint64) {
		if g != 0 {
			ps = append(ps, pr{c, g})
		}
	})
	sort.Slice(ps, func(i, j int) bool { return ps[i].c < ps[j].c })
	parts := make([]string, len(ps))
	for i, p := range ps {
		parts[i] = fmt.Sprintf("%d:%d", p.c, p.g)
	}
	return fmt.Sprintf("ok:n=%d:%s", n, strings.Join(parts, ","))
}

func cxShow16(m map[uint16]glyph.ID) string {
	keys := make([]int, 0, len(m))
	for k, v := range m {
		if v != 0 {
			keys = append(keys, int(k))
		}
	}
	sort.Ints(keys)
	parts := make([]string, len(keys))
	for i, k := range keys {
		parts[i] = fmt.Sprintf("%d:%d", k, m[uint16(k)])
	}
	return strings.Join(parts, ",")
}

func cxParseKey(s string) cmap.Key {
	var p, e, l int
	fmt.Sscanf(s, "%d.%d.%d", &p, &e, &l)
	return cmap.Key{PlatformID: uint16(p), EncodingID: uint16(e), Language: uint16(l)}
}

func cxParseTab(f Fields) cmap.Table {
	t := cmap.Table{}
	for _, ent := range f.List("tab", ";") {
		i := strings.IndexByte(ent, ':')
		t[cxParseKey(ent[:i])] = mustHexX(ent[i+1:])
	}
	return t
}

func mustHexX(s string) []byte {
	return Fields{"x": s}.Hex("x")
}

func cxKeyLess(a, b cmap.Key) bool {
	if a.PlatformID != b.PlatformID {
		return a.PlatformID < b.PlatformID
	}
	if a.EncodingID != b.EncodingID {
		return a.EncodingID < b.EncodingID
	}
	return a.Language < b.Language
}

func cxShowTab(t cmap.Table) string {
	keys := make([]cmap.Key, 0, len(t))
	for k := range t {
		keys = append(keys, k)
	}
	sort.Slice(keys, func(i, j int) bool { return cxKeyLess(keys[i], keys[j]) })
	parts := make([]string, len(keys))
	for i, k := range keys {
		parts[i] = fmt.Sprintf("%d.%d.%d:%s", k.PlatformID, k.EncodingID, k.Language, hx(t[k]))
	}
	return strings.Join(parts, ";")
}

func cxErrClass(err error) string {
	s := err.Error()
	switch {
	case strings.Contains(s, "malformed table"):
		return "err:malformed"
	case strings.Contains(s, "unknown table version"):
		return "err:version"
	case strings.Contains(s, "no such subtable"):
		return "err:nosuch"
	case strings.Contains(s, "unsupported Mac encoding"):
		return "err:macenc"
	case strings.Contains(s, "unsupported cmap format"):
		return "err:unsupported"
	case strings.Contains(s, "malformed subtable"):
		return "err:malformed-subtable"
	case strings.Contains(s, "format 0: expected"):
		return "err:length"
	case strings.Contains(s, "code2rune not supported"):
		return "err:code2rune"
	case strings.Contains(s, "no suitable subtable"):
		return "err:nosuitable"
	}
	return "err:other:" + strings.ReplaceAll(s, " ", "_")
}

func cxShowSub(st cmap.Subtable, codes []int) string {
	tag := "?"
	switch st.(type) {
	case *cmap.Format0:
		tag = "f0"
	case cmap.Format4:
		tag = "m16"
	case cmap.Format12:
		tag = "f12"
	}
	out := make([]int, len(codes))
	for i, c := range codes {
		out[i] = int(st.Lookup(rune(c)))
	}
	return "ok:" + tag + ":" + ints(out)
}

var cxPreference = [][2]uint16{{3, 10}, {0, 4}, {3, 1}, {0, 3}, {1, 0}}

func init() {
	areas["cmapx"] = areaCmapx
	ops["cmapx.enc12"] = func(f Fields) string {
		return cxPanic(guard(func() string {
			return "ok:" + hx(cxParseMap32(f).Encode(uint16(f.Int("lang"))))
		}))
	}
	// direct predicate: the specification's lookup on the bytes Encode wrote gives the map
	ops["cmapx.spec12"] = func(f Fields) string {
		m := cxParseMap32(f)
		if hx(m.Encode(uint16(f.Int("lang")))) != f["bytes"] {
			return "stale-bytes"
		}
		codes := f.Ints("codes")
		out := make([]int, len(codes))
		for i, c := range codes {
			out[i] = int(m[uint32(c)])
		}
		return ints(out) + ";sd=1"
	}
	ops["cmapx.dec12"] = func(f Fields) string {
		return cxPanic(guard(func() string {
			m, err := cmap.VerifDecode12(f.Hex("bytes"))
			if err != nil {
				return "err"
			}
			return cxShowMap(len(m), func(fn func(c, g uint64)) {
				for c, g := range m {
					fn(uint64(c), uint64(g))
				}
			})
		}))
	}
	// direct predicate: what the library decoder accepts, it decodes as the specification says
	ops["cmapx.decspec12"] = func(f Fields) string {
		return cxPanic(guard(func() string {
			m, err := cmap.VerifDecode12(f.Hex("bytes"))
			if err != nil {
				return "na"
			}
			codes := f.Ints("codes")
			out := make([]int, len(codes))
			for i, c := range codes {
				out[i] = int(cmap.Format12(m).Lookup(rune(uint32(c))))
			}
			return ints(out)
		}))
	}
	ops["cmapx.dec0"] = func(f Fields) string {
		return cxPanic(guard(func() string {
			st, err := cmap.VerifDecode0(f.Hex("bytes"))
			if err != nil {
				return "err"
			}
			return "ok:" + hx(st.Data[:])
		}))
	}
	ops["cmapx.enc0"] = func(f Fields) string {
		return cxPanic(guard(func() string {
			st := &cmap.Format0{}
			copy(st.Data[:], f.Hex("data"))
			return "ok:" + hx(st.Encode(uint16(f.Int("lang"))))
		}))
	}
	ops["cmapx.decspec0"] = func(f Fields) string {
		return cxPanic(guard(func() string {
			st, err := cmap.VerifDecode0(f.Hex("bytes"))
			if err != nil {
				return "na"
			}
			codes := f.Ints("codes")
			out := make([]int, len(codes))
			for i, c := range codes {
				out[i] = int(st.Lookup(rune(c)))
			}
			return ints(out)
		}))
	}
	// direct predicate: Get on a Macintosh (1,0) format 0/4/6 subtable answers in Unicode
	ops["cmapx.macspec"] = func(f Fields) string {
		return cxPanic(guard(func() string {
			t := cmap.Table{{PlatformID: 1, EncodingID: 0}: f.Hex("bytes")}
			st, err := t.Get(cmap.Key{PlatformID: 1, EncodingID: 0})
			if err != nil {
				return "na"
			}
			codes := f.Ints("codes")
			out := make([]int, len(codes))
			for i, c := range codes {
				out[i] = int(st.Lookup(rune(c)))
			}
			return ints(out)
		}))
	}
	// direct predicate: Get on a Macintosh (1,0) format 0 subtable answers in Unicode, like format 6 does
	ops["cmapx.mac0"] = func(f Fields) string {
		return cxPanic(guard(func() string {
			t := cmap.Table{{PlatformID: 1, EncodingID: 0}: f.Hex("bytes")}
			st, err := t.Get(cmap.Key{PlatformID: 1, EncodingID: 0})
			if err != nil {
				return "na"
			}
			codes := f.Ints("codes")
			out := make([]int, len(codes))
			for i, c := range codes {
				out[i] = int(st.Lookup(rune(c)))
			}
			return ints(out)
		}))
	}
	// direct predicate: CodeRange is (smallest, largest) code point, independent of map iteration order:
	// the call is repeated on freshly built maps
	ops["cmapx.coderange"] = func(f Fields) string {
		return cxPanic(guard(func() string {
			seen := map[string]bool{}
			var order []string
			for rep := 0; rep < 24; rep++ {
				var st cmap.Subtable
				switch f["kind"] {
				case "0":
					st = &cmap.Format0{}
				case "4":
					m := cmap.Format4{}
					for k, v := range cxParseMap32(f) {
						m[uint16(k)] = v
					}
					st = m
				case "6":
					m, err := cmap.VerifDecode6(f.Hex("bytes"), false)
					if err != nil {
						return "na"
					}
					st = cmap.Format4(m)
				default:
					st = cxParseMap32(f)
				}
				lo, hi := st.CodeRange()
				s := fmt.Sprintf("%d:%d", lo, hi)
				if !seen[s] {
					seen[s] = true
					order = append(order, s)
				}
			}
			sort.Strings(order)
			return strings.Join(order, "|")
		}))
	}
	// direct predicate: InstallCMap files the subtable under the keys its code range demands, GetBest
	// then returns it; repeated because CodeRange iterates over a Go map
	ops["cmapx.installspec"] = func(f Fields) string {
		return cxPanic(guard(func() string {
			seen := map[string]bool{}
			var order []string
			reps := 24
			if f["kind"] == "4" {
				reps = 4 // Format4.Encode runs a shortest-path search; CodeRange's order dependence is covered by cmapx.coderange
			}
			for rep := 0; rep < reps; rep++ {
				var sub cmap.Subtable
				m32 := cxParseMap32(f)
				if f["kind"] == "4" {
					m := cmap.Format4{}
					for k, v := range m32 {
						m[uint16(k)] = v
					}
					sub = m
				} else {
					sub = m32
				}
				font := &sfnt.Font{}
				font.InstallCMap(sub)
				var keys []cmap.Key
				for k := range font.CMapTable {
					keys = append(keys, k)
				}
				sort.Slice(keys, func(i, j int) bool { return cxKeyLess(keys[i], keys[j]) })
				parts := make([]string, len(keys))
				shared := true
				for i, k := range keys {
					parts[i] = fmt.Sprintf("%d.%d.%d", k.PlatformID, k.EncodingID, k.Language)
					if string(font.CMapTable[k]) != string(font.CMapTable[keys[0]]) {
						shared = false
					}
				}
				best := "same"
				got, err := font.CMapTable.GetBest()
				if err != nil {
					best = cxErrClass(err)
				} else {
					if reflect.TypeOf(got) != reflect.TypeOf(sub) {
						best = "other-type"
					}
					for c := range m32 {
						if got.Lookup(rune(c)) != sub.Lookup(rune(c)) {
							best = "differs"
						}
					}
					for _, c := range []rune{0, 0xFFFF, 0x10000, 0x10FFFF} {
						if got.Lookup(c) != sub.Lookup(c) {
							best = "differs"
						}
					}
				}
				s := fmt.Sprintf("keys=%s;shared=%v;best=%s", strings.Join(parts, ","), shared, best)
				if !seen[s] {
					seen[s] = true
					order = append(order, s)
				}
			}
			sort.Strings(order)
			return strings.Join(order, "|")
		}))
	}
	// the large format 12 family (subtables of 64 KiB and more): n isolated entries described by parameters
	ops["cmapx.big12enc"] = func(f Fields) string {
		return cxPanic(guard(func() string {
			b := cxBigMap(f).Encode(uint16(f.Int("lang")))
			var h uint64
			for i, x := range b {
				h += uint64(i+1) * (uint64(x) + 1)
			}
			return fmt.Sprintf("len=%d;hdr=%s;h=%d", len(b), hx(b[:16]), h)
		}))
	}
	// direct predicate: the header fields of the written subtable are the ones the specification prescribes
	ops["cmapx.big12hdr"] = func(f Fields) string {
		return cxPanic(guard(func() string {
			b := cxBigMap(f).Encode(uint16(f.Int("lang")))
			u32 := func(o int) uint32 { return uint32(b[o])<<24 | uint32(b[o+1])<<16 | uint32(b[o+2])<<8 | uint32(b[o+3]) }
			return fmt.Sprintf("format=%d;reserved=%d;length=%d;language=%d;numGroups=%d",
				int(b[0])<<8|int(b[1]), int(b[2])<<8|int(b[3]), u32(4), u32(8), u32(12))
		}))
	}
	// direct predicate: the subtable survives Table.Encode -> Decode -> Get / GetBest
	ops["cmapx.big12rt"] = func(f Fields) string {
		return cxPanic(guard(func() string {
			enc := cxBigMap(f).Encode(uint16(f.Int("lang")))
			t := cmap.Table{{PlatformID: 3, EncodingID: 10}: enc, {PlatformID: 0, EncodingID: 4}: enc}
			dt, err := cmap.Decode(t.Encode())
			if err != nil {
				return "decode=" + cxErrClass(err)
			}
			codes := f.Ints("codes")
			show := func(st cmap.Subtable, err error) string {
				if err != nil {
					return cxErrClass(err)
				}
				return cxShowSub(st, codes)
			}
			return "get310=" + show(dt.Get(cmap.Key{PlatformID: 3, EncodingID: 10})) +
				";get04=" + show(dt.Get(cmap.Key{PlatformID: 0, EncodingID: 4})) +
				";best=" + show(dt.GetBest())
		}))
	}
	// direct predicate (large BMP maps, format 4): Encode either refuses the map (panics: it does not fit
	// the 64 KiB subtable) or the written subtable, read by an independent OpenType format 4 lookup, gives
	// the map at every code 0..0xFFFF.  The Lean side answers "ok"; nothing large travels through the line.
	ops["cmapx.big4"] = func(f Fields) string {
		cls, _ := cxBig4Class(f)
		if cls == "refused" || cls == "faithful" {
			return "ok"
		}
		return cls
	}
	// direct predicate (hand-laid-out cmap tables of other producers): subtables stored in any physical
	// order, tightly packed or with gaps, shared between records, ending exactly at the end of the table,
	// decode to exactly the bytes each record points to; partially overlapping subtables are refused.
	ops["cmapx.layout"] = func(f Fields) string {
		return cxPanic(guard(func() string {
			t, err := cmap.Decode(cxLayoutBytes(f))
			if err != nil {
				return cxErrClass(err)
			}
			return "ok:" + cxShowTab(t)
		}))
	}
	ops["cmapx.install"] = func(f Fields) string {
		return cxPanic(guard(func() string {
			font := &sfnt.Font{}
			font.InstallCMap(cxParseMap32(f))
			return "ok:" + cxShowTab(font.CMapTable)
		}))
	}
	ops["cmapx.dec6"] = func(f Fields) string {
		return cxPanic(guard(func() string {
			m, err := cmap.VerifDecode6(f.Hex("bytes"), f.Int("mac") == 1)
			if err != nil {
				return "err"
			}
			return "ok:" + cxShow16(m)
		}))
	}
	ops["cmapx.decspec6"] = func(f Fields) string {
		return cxPanic(guard(func() string {
			m, err := cmap.VerifDecode6(f.Hex("bytes"), false)
			if err != nil {
				return "na"
			}
			codes := f.Ints("codes")
			out := make([]int, len(codes))
			for i, c := range codes {
				out[i] = int(cmap.Format4(m).Lookup(rune(c)))
			}
			return ints(out)
		}))
	}
	ops["cmapx.tenc"] = func(f Fields) string {
		return cxPanic(guard(func() string { return "ok:" + hx(cxParseTab(f).Encode()) }))
	}
	ops["cmapx.tdec"] = func(f Fields) string {
		return cxPanic(guard(func() string {
			t, err := cmap.Decode(f.Hex("bytes"))
			if err != nil {
				return cxErrClass(err)
			}
			return "ok:" + cxShowTab(t)
		}))
	}
	// direct predicate: Decode(Encode(t)) = t and shared subtables are stored once
	ops["cmapx.trt"] = func(f Fields) string {
		return cxPanic(guard(func() string {
			enc := cxParseTab(f).Encode()
			t, err := cmap.Decode(enc)
			if err != nil {
				return cxErrClass(err)
			}
			return "ok:" + cxShowTab(t) + fmt.Sprintf("|size=%d", len(enc))
		}))
	}
	ops["cmapx.get"] = func(f Fields) string {
		return cxPanic(guard(func() string {
			st, err := cxParseTab(f).Get(cxParseKey(f["key"]))
			if err != nil {
				return cxErrClass(err)
			}
			return cxShowSub(st, f.Ints("codes"))
		}))
	}
	ops["cmapx.best"] = func(f Fields) string {
		return cxPanic(guard(func() string {
			st, err := cxParseTab(f).GetBest()
			if err != nil {
				return cxErrClass(err)
			}
			return cxShowSub(st, f.Ints("codes"))
		}))
	}
	// direct predicate: GetBest returns the subtable of the first key in the preference order
	// (3,10) > (0,4) > (3,1) > (0,3) > (1,0) that exists and decodes
	ops["cmapx.bestidx"] = func(f Fields) string {
		return cxPanic(guard(func() string {
			t := cxParseTab(f)
			best, err := t.GetBest()
			if err != nil {
				return "none"
			}
			for i, c := range cxPreference {
				st, err := t.Get(cmap.Key{PlatformID: c[0], EncodingID: c[1]})
				if err == nil && reflect.DeepEqual(st, best) {
					return fmt.Sprintf("idx=%d", i)
				}
			}
			return "idx=?"
		}))
	}
}

// ---------------------------------------------------------------- generators

func cxGenMap32(r *Rng, c *Ctx) cmap.Format12 {
	m := cmap.Format12{}
	nruns := r.Range(0, 10)
	big := 0
	if r.Chance(1, 120) {
		big = Pick(r, []int{65535, 65536, 65536, 65537, 70000})
	}
	code := uint64(0)
	switch r.Intn(6) {
	case 0:
		code = uint64(r.Intn(300))
	case 1:
		code = uint64(r.Intn(0x10000))
	case 2:
		code = 0xFFF0 + uint64(r.Intn(40)) // across the BMP boundary
	case 3:
		code = 0x10000 + uint64(r.Intn(0x100000))
	case 4:
		code = 0x10FF00 + uint64(r.Intn(300))
	case 5:
		code = 0xFFFFFF00 + uint64(r.Intn(200))
	}
	gid := r.Intn(3000)
	if big > 0 {
		code = uint64(r.Intn(0x20000))
		for len(m) < big {
			runLen := r.Range(1, 400)
			if r.Chance(1, 3) {
				gid = r.Intn(0x10000)
			}
			for j := 0; j < runLen && len(m) < big; j++ {
				gid = (gid + 1) & 0xFFFF
				m[uint32(code)] = glyph.ID(gid)
				code++
			}
			code += uint64(r.Range(0, 3))
		}
		c.Stat("map12_size", bucket(len(m)))
		return m
	}
	for i := 0; i < nruns && code <= 0xFFFFFFFF; i++ {
		runLen := Pick(r, []int{1, 1, 2, 3, 4, 5, r.Range(1, 60)})
		kind := r.Intn(4)
		if r.Chance(1, 8) {
			gid = 0xFFFF - r.Intn(3) // 0xFFFF -> 0 wrap inside a run
		}
		for j := 0; j < runLen && code <= 0xFFFFFFFF; j++ {
			switch kind {
			case 0, 1:
				gid = (gid + 1) & 0xFFFF
			case 2:
				gid = r.Intn(0x10000)
			}
			if r.Chance(1, 15) {
				m[uint32(code)] = 0
			} else {
				m[uint32(code)] = glyph.ID(gid)
			}
			code++
		}
		c.Stat("run12_len", bucket(runLen))
		gap := Pick(r, []int{0, 0, 1, 2, 3, r.Range(0, 5000), r.Range(0, 1<<20)})
		code += uint64(gap)
		if r.Chance(1, 3) {
			gid = r.Intn(0x10000)
		}
	}
	if r.Chance(1, 12) {
		m[0xFFFFFFFF] = glyph.ID(r.Intn(100))
	}
	if r.Chance(1, 12) {
		m[0xFFFFFFFE] = glyph.ID(r.Intn(100))
	}
	if r.Chance(1, 10) {
		// the explicit wrap probe: gid 0xFFFF at c, gid 0 at c+1
		cc := uint32(r.Intn(0x110000))
		m[cc] = 0xFFFF
		m[cc+1] = 0
		c.Stat("probe", "gid-wrap")
	}
	c.Stat("map12_size", bucket(len(m)))
	return m
}

func cxProbe32(r *Rng, m cmap.Format12) []int {
	set := map[int]bool{0: true, 0xFFFF: true, 0x10000: true, 0x10FFFF: true, 0xFFFFFFFE: true, 0xFFFFFFFF: true}
	n := 0
	for k := range m {
		for d := -1; d <= 1; d++ {
			cc := int(k) + d
			if cc >= 0 && cc <= 0xFFFFFFFF {
				set[cc] = true
			}
		}
		n++
		if n > 400 {
			break
		}
	}
	for i := 0; i < 10; i++ {
		set[r.Intn(0x110000)] = true
	}
	out := make([]int, 0, len(set))
	for cc := range set {
		out = append(out, cc)
	}
	sort.Ints(out)
	return out
}

func cxPut32(b []byte, o int, v uint32) {
	b[o], b[o+1], b[o+2], b[o+3] = byte(v>>24), byte(v>>16), byte(v>>8), byte(v)
}

// cxCraft12 builds a format 12 subtable from explicit groups (possibly invalid).
func cxCraft12(groups [][3]uint32) []byte {
	b := make([]byte, 16+12*len(groups))
	b[1] = 12
	cxPut32(b, 4, uint32(len(b)))
	cxPut32(b, 12, uint32(len(groups)))
	for i, g := range groups {
		cxPut32(b, 16+12*i, g[0])
		cxPut32(b, 20+12*i, g[1])
		cxPut32(b, 24+12*i, g[2])
	}
	return b
}

func cxMutate(r *Rng, data []byte, minKeep int) []byte {
	mu := append([]byte(nil), data...)
	if len(mu) == 0 {
		return mu
	}
	switch r.Intn(5) {
	case 0:
		mu[r.Intn(len(mu))] ^= byte(1 << r.Intn(8))
	case 1:
		mu[r.Intn(len(mu))] = byte(r.U64())
	case 2:
		mu = mu[:r.Intn(len(mu)+1)]
	case 3:
		mu = append(mu, r.Bytes(r.Range(1, 4))...)
	case 4:
		if len(mu) > minKeep {
			p := minKeep + r.Intn(len(mu)-minKeep)
			mu[p] = Pick(r, []byte{0, 0xFF, 0x80, 1})
		}
	}
	return mu
}

func cxCodes8(r *Rng) []int {
	set := map[int]bool{0: true, 32: true, 65: true, 127: true, 128: true, 142: true, 233: true, 255: true, 256: true, 0x2020: true, 0xFFFF: true, 0x10000: true, 0x10FFFF: true}
	for i := 0; i < 12; i++ {
		set[r.Intn(300)] = true
	}
	out := make([]int, 0, len(set))
	for c := range set {
		out = append(out, c)
	}
	sort.Ints(out)
	return out
}

func cxFormat6(r *Rng, first, count int, lang int) []byte {
	b := make([]byte, 10+2*count)
	b[1] = 6
	b[2], b[3] = byte(len(b)>>8), byte(len(b))
	b[4], b[5] = byte(lang>>8), byte(lang)
	b[6], b[7] = byte(first>>8), byte(first)
	b[8], b[9] = byte(count>>8), byte(count)
	for i := 0; i < count; i++ {
		g := r.Intn(0x10000)
		if r.Chance(1, 5) {
			g = 0
		}
		b[10+2*i], b[11+2*i] = byte(g>>8), byte(g)
	}
	return b
}

func cxFormat0(r *Rng, lang int) []byte {
	st := &cmap.Format0{}
	copy(st.Data[:], r.Bytes(256))
	return st.Encode(uint16(lang))
}

// cxFake builds a subtable of an undecoded format with a valid length header.
func cxFake(r *Rng, format, lang int) []byte {
	n := r.Range(12, 40)
	b := r.Bytes(n)
	b[0], b[1] = 0, byte(format)
	switch format {
	case 2:
		b[2], b[3] = byte(n>>8), byte(n)
		b[4], b[5] = byte(lang>>8), byte(lang)
	case 8, 10, 13:
		cxPut32(b, 4, uint32(n))
		b[10], b[11] = byte(lang>>8), byte(lang)
	case 14:
		cxPut32(b, 2, uint32(n))
	}
	return b
}

// cxSubtable returns a subtable with a valid format/length header and its format.
func cxSubtable(r *Rng, c *Ctx, lang int) ([]byte, int) {
	format := Pick(r, []int{0, 4, 4, 6, 6, 12, 12, 2, 8, 10, 13, 14})
	c.Stat("subtable_format", fmt.Sprint(format))
	switch format {
	case 0:
		return cxFormat0(r, lang), 0
	case 4:
		m := cmap.Format4{}
		code := r.Intn(300)
		for i := r.Range(0, 12); i > 0; i-- {
			m[uint16(code)] = glyph.ID(r.Range(1, 900))
			code += r.Range(1, 3)
		}
		return m.Encode(uint16(lang)), 4
	case 6:
		return cxFormat6(r, r.Intn(300), r.Range(0, 12), lang), 6
	case 12:
		m := cmap.Format12{}
		code := Pick(r, []int{r.Intn(300), 0x10000 + r.Intn(1000)})
		for i := r.Range(0, 12); i > 0; i-- {
			m[uint32(code)] = glyph.ID(r.Range(1, 900))
			code += r.Range(1, 3)
		}
		return m.Encode(uint16(lang)), 12
	}
	return cxFake(r, format, lang), format
}

func cxLangOf(sub []byte) int {
	switch int(sub[0])<<8 | int(sub[1]) {
	case 0, 2, 4, 6:
		return int(sub[4])<<8 | int(sub[5])
	case 8, 10, 12, 13:
		return int(sub[10])<<8 | int(sub[11])
	}
	return 0
}

// cxGenTable builds a table in the domain of the round-trip theorem: platform ≤ 4, language 0
// unless platform 1 (then the language stored in the subtable), valid subtable headers.
func cxGenTable(r *Rng, c *Ctx) cmap.Table {
	t := cmap.Table{}
	n := Pick(r, []int{0, 1, 2, 2, 3, 4, 5, r.Range(1, 12)})
	var pool [][]byte
	shared := 0
	for i := 0; i < n; i++ {
		var key cmap.Key
		if r.Chance(2, 3) {
			c := Pick(r, cxPreference[:])
			key = cmap.Key{PlatformID: c[0], EncodingID: c[1]}
		} else {
			key = cmap.Key{PlatformID: uint16(r.Intn(5)), EncodingID: uint16(Pick(r, []int{0, 1, 2, 3, 4, 10, r.Intn(0x10000)}))}
		}
		var sub []byte
		if len(pool) > 0 && r.Chance(1, 3) {
			sub = Pick(r, pool)
			shared++
		} else {
			lang := 0
			if key.PlatformID == 1 || r.Chance(1, 6) {
				lang = Pick(r, []int{0, 0, 1, 2, r.Intn(0x10000)})
			}
			sub, _ = cxSubtable(r, c, lang)
			pool = append(pool, sub)
		}
		if key.PlatformID == 1 {
			key.Language = uint16(cxLangOf(sub))
			if key.Language != 0 {
				c.Stat("table", "mac-language")
			}
		}
		t[key] = sub
	}
	c.Stat("table_keys", bucket(len(t)))
	c.Stat("table_shared", bucket(shared))
	return t
}

func cxTabArg(t cmap.Table) string { return cxShowTab(t) }

// cxBig4Map: `blocks` blocks of `size` consecutive codes with irregular glyph ids (no common delta), each
// followed by `gap` unmapped codes; block number `longat` (if >= 0) has `long` codes instead.
func cxBig4Map(f Fields) cmap.Format4 {
	blocks, size, gap, longat, long, mul := f.Int("blocks"), f.Int("size"), f.Int("gap"), f.Int("longat"), f.Int("long"), f.Int("mul")
	m := cmap.Format4{}
	c := f.Int("base")
	for b := 0; b < blocks && c <= 0xFFFF; b++ {
		n := size
		if b == longat {
			n = long
		}
		for j := 0; j < n && c <= 0xFFFF; j++ {
			m[uint16(c)] = glyph.ID(1 + (c*mul)%60000)
			c++
		}
		c += gap
	}
	return m
}

// cxSpec4 is an independent format 4 lookup written from the OpenType specification: binary search for
// the first segment whose endCode >= c; startCode > c: missing glyph; idRangeOffset = 0: (c + idDelta)
// mod 65536; otherwise the glyph index is read at
// &idRangeOffset[i] + idRangeOffset[i] + 2*(c - startCode[i]), and idDelta is added to it unless it is 0.
func cxSpec4(data []byte, c int) (int, bool) {
	u16 := func(p int) (int, bool) {
		if p < 0 || p+2 > len(data) {
			return 0, false
		}
		return int(data[p])<<8 | int(data[p+1]), true
	}
	sx2, ok := u16(6)
	if !ok || sx2%2 != 0 {
		return 0, false
	}
	n := sx2 / 2
	endP, startP := 14, 14+sx2+2
	deltaP, roP := startP+sx2, startP+2*sx2
	lo, hi := 0, n
	for lo < hi {
		mid := (lo + hi) / 2
		e, ok := u16(endP + 2*mid)
		if !ok {
			return 0, false
		}
		if e >= c {
			hi = mid
		} else {
			lo = mid + 1
		}
	}
	if lo == n {
		return 0, true
	}
	st, ok1 := u16(startP + 2*lo)
	d, ok2 := u16(deltaP + 2*lo)
	ro, ok3 := u16(roP + 2*lo)
	if !ok1 || !ok2 || !ok3 {
		return 0, false
	}
	if st > c {
		return 0, true
	}
	if ro == 0 {
		return (c + d) & 0xFFFF, true
	}
	g, ok := u16(roP + 2*lo + ro + 2*(c-st))
	if !ok {
		return 0, false
	}
	if g == 0 {
		return 0, true
	}
	return (g + d) & 0xFFFF, true
}

// cxBig4Class runs Format4.Encode on the described map: "refused" (the documented panic), "faithful"
// (independent lookup = map at all 65536 codes), or "unfaithful:<code>:<got>:<want>" / "panic:<msg>".
func cxBig4Class(f Fields) (string, int) {
	m := cxBig4Map(f)
	var enc []byte
	res := guard(func() string {
		enc = m.Encode(uint16(f.Int("lang")))
		return "encoded"
	})
	if strings.HasPrefix(res, "panic:") {
		if strings.Contains(res, "too many mappings for a format 4 subtable") {
			return "refused", len(m)
		}
		return strings.ReplaceAll(res, " ", "_"), len(m)
	}
	if len(enc) >= 8 {
		// a reader walks the segment arrays through segCountX2; the search fields must follow from it
		sx2 := int(enc[6])<<8 | int(enc[7])
		if sx2 < 2 || 16+4*sx2 > len(enc) {
			return fmt.Sprintf("unfaithful:segCountX2=%d:len=%d", sx2, len(enc)), len(m)
		}
	}
	for c := 0; c <= 0xFFFF; c++ {
		got, ok := cxSpec4(enc, c)
		want := int(m[uint16(c)])
		if !ok {
			return fmt.Sprintf("unfaithful:%d:read-outside-subtable:%d", c, want), len(m)
		}
		if got != want {
			return fmt.Sprintf("unfaithful:%d:%d:%d", c, got, want), len(m)
		}
	}
	return "faithful", len(m)
}

// cxCaseBig4: BMP maps around and beyond what a 64 KiB format 4 subtable can hold (explicit glyphIdArray
// entries beyond the reach of a 16-bit idRangeOffset).
func cxCaseBig4(c *Ctx, r *Rng, k int) {
	var args string
	switch k % 3 {
	case 0: // 2621 blocks of 20 irregular codes: > 52000 glyphIdArray entries, must be refused
		args = fmt.Sprintf("blocks=2621 size=20 gap=5 longat=-1 long=0 base=0 mul=%d lang=%d", Pick(r, []int{7919, 7907, 104729}), r.Intn(3))
	case 1: // one 1200-long block across the point where 2*(segments+entries) passes 65535
		args = fmt.Sprintf("blocks=2600 size=20 gap=5 longat=%d long=1200 base=0 mul=7919 lang=0", r.Range(1480, 1500))
	case 2: // just inside / just outside the reach of idRangeOffset
		args = fmt.Sprintf("blocks=%d size=20 gap=5 longat=-1 long=0 base=%d mul=7919 lang=0", r.Range(1540, 1580), r.Intn(50))
	}
	fl := parseFields(args)
	cls, n := cxBig4Class(fl)
	c.Stat("big4_outcome", strings.SplitN(cls, ":", 2)[0])
	c.Stat("big4_map_size", bucket(n))
	c.Case(Direct, "cmapx.big4", args, true)
}

// cxLayoutBytes builds a cmap table from a description: recs = key:subIndex in record order, subs = the
// distinct subtables, order = physical order of the subtables, gap = padding bytes between neighbours,
// overlap = the second physical subtable starts that many bytes before the end of the first, tail = padding
// after the last one (0: the last subtable ends exactly at the end of the table).
func cxLayoutBytes(f Fields) []byte {
	recs := f.List("recs", ",")
	var subs [][]byte
	for _, h := range f.List("subs", ";") {
		subs = append(subs, mustHexX(h))
	}
	order := f.Ints("order")
	gap, overlap, tail := f.Int("gap"), f.Int("overlap"), f.Int("tail")
	out := make([]byte, 4+8*len(recs))
	out[2], out[3] = byte(len(recs)>>8), byte(len(recs))
	offs := make([]int, len(subs))
	for pi, si := range order {
		if pi == 1 && overlap > 0 {
			out = out[:len(out)-overlap]
		} else if pi > 0 {
			for g := 0; g < gap; g++ {
				out = append(out, 0xAA)
			}
		}
		offs[si] = len(out)
		out = append(out, subs[si]...)
	}
	for g := 0; g < tail; g++ {
		out = append(out, 0x55)
	}
	for i, rc := range recs {
		j := strings.IndexByte(rc, ':')
		key := cxParseKey(rc[:j])
		var si int
		fmt.Sscan(rc[j+1:], &si)
		out[4+8*i], out[5+8*i] = byte(key.PlatformID>>8), byte(key.PlatformID)
		out[6+8*i], out[7+8*i] = byte(key.EncodingID>>8), byte(key.EncodingID)
		cxPut32(out, 8+8*i, uint32(offs[si]))
	}
	return out
}

var cxPerms = [][]int{{0}, {0, 1}, {1, 0}, {0, 1, 2}, {0, 2, 1}, {1, 0, 2}, {1, 2, 0}, {2, 0, 1}, {2, 1, 0}}

// cxMinimal returns a subtable with the smallest body its header kind allows (10 bytes for formats
// 0/2/4/6 and 14 as far as cmap.Decode is concerned, 12 for 8/10/12/13; format 12 real: 16 bytes).
func cxMinimal(r *Rng) []byte {
	switch r.Intn(6) {
	case 0:
		return []byte{0, 6, 0, 10, 0, 0, 0, byte(r.Intn(200)), 0, 0}
	case 1:
		return []byte{0, byte(Pick(r, []int{0, 2, 4})), 0, 10, 0, 0, byte(r.Intn(256)), 0, 0, 0}
	case 2:
		return []byte{0, 14, 0, 0, 0, 10, 0, 0, 0, 0}
	case 3:
		return []byte{0, byte(Pick(r, []int{8, 10, 13})), 0, 0, 0, 0, 0, 12, 0, 0, 0, 0}
	case 4:
		return cmap.Format12{}.Encode(0)
	}
	return cxFormat6(r, r.Intn(100), r.Range(1, 3), 0)
}

// cxCaseLayout: hand-laid-out tables: every permutation of physical order against record order (up to
// three distinct subtables), tight / gapped / shared / overlapping, minimal bodies, exact fit at the end.
func cxCaseLayout(c *Ctx, r *Rng, k int) {
	perm := cxPerms[k%len(cxPerms)]
	ns := len(perm)
	var subs [][]byte
	for len(subs) < ns {
		var sub []byte
		if r.Chance(1, 2) {
			sub = cxMinimal(r)
		} else {
			sub, _ = cxSubtable(r, c, 0)
		}
		dup := false
		for _, o := range subs {
			if string(o) == string(sub) {
				dup = true
			}
		}
		if !dup && len(sub) < 400 {
			subs = append(subs, sub)
		}
	}
	keys := [][2]int{{0, 3}, {0, 4}, {3, 1}, {3, 10}, {0, 1}, {2, 1}, {4, 7}}
	r2 := keys[:]
	nrec := ns + Pick(r, []int{0, 0, 1, 2}) // extra records share a subtable
	if nrec > len(r2) {
		nrec = len(r2)
	}
	start := r.Intn(len(r2) - nrec + 1)
	var recs []string
	for i := 0; i < nrec; i++ {
		si := i
		if i >= ns {
			si = r.Intn(ns)
		}
		recs = append(recs, fmt.Sprintf("%d.%d.0:%d", r2[start+i][0], r2[start+i][1], si))
	}
	// shuffle which record gets which subtable so that record order and physical order are independent
	for i := len(recs) - 1; i > 0; i-- {
		j := r.Intn(i + 1)
		a, b := strings.Split(recs[i], ":"), strings.Split(recs[j], ":")
		recs[i], recs[j] = a[0]+":"+b[1], b[0]+":"+a[1]
	}
	mode := Pick(r, []string{"tight", "tight", "gapped", "overlap"})
	gap, overlap := 0, 0
	switch mode {
	case "gapped":
		gap = Pick(r, []int{1, 2, 3, 4, 16})
	case "overlap":
		if ns >= 2 {
			first := subs[perm[0]]
			if len(first) > 12 {
				overlap = r.Range(1, len(first)-12)
			} else {
				mode = "tight"
			}
		} else {
			mode = "tight"
		}
	}
	tail := Pick(r, []int{0, 0, 0, 1, 7})
	hexes := make([]string, ns)
	for i, sb := range subs {
		hexes[i] = hx(sb)
	}
	last := subs[perm[ns-1]]
	c.Stat("layout", fmt.Sprintf("subs=%d mode=%s", ns, mode))
	if tail == 0 {
		c.Stat("layout_exact_fit_last_len", fmt.Sprint(min(len(last), 17)))
	}
	args := fmt.Sprintf("recs=%s order=%s gap=%d overlap=%d tail=%d subs=%s", strings.Join(recs, ","), ints(perm), gap, overlap, tail, strings.Join(hexes, ";"))
	c.Case(Direct, "cmapx.layout", args, true)
	c.Case(Verdict, "cmapx.tdec", "bytes="+hx(cxLayoutBytes(parseFields(args))), true)
}

// cxCraft4 builds a format 4 subtable from explicit segment arrays (possibly malformed).
func cxCraft4(segs [][4]int, ga []int) []byte {
	n := len(segs)
	w := []int{4, 0, 0, 2 * n, 0, 0, 0}
	for _, s := range segs {
		w = append(w, s[1])
	}
	w = append(w, 0)
	for _, s := range segs {
		w = append(w, s[0])
	}
	for _, s := range segs {
		w = append(w, s[2])
	}
	for _, s := range segs {
		w = append(w, s[3])
	}
	w = append(w, ga...)
	w[1] = 2 * len(w)
	b := make([]byte, 2*len(w))
	for i, x := range w {
		b[2*i], b[2*i+1] = byte(x>>8), byte(x)
	}
	return b
}

// cxCaseCraft4: malformed-but-plausible format 4 bodies for the decoder: a last segment that uses
// idRangeOffset, starts below 0xFFFF and reaches outside glyphIdArray; truncated glyphIdArray; missing or
// damaged 0xFFFF sentinel (the one leniency the decoder has).
func cxCaseCraft4(c *Ctx, r *Rng) {
	start := r.Intn(500)
	ln := r.Range(1, 12)
	gaLen := ln + Pick(r, []int{-3, -1, 0, 0, 1, 4})
	if gaLen < 0 {
		gaLen = 0
	}
	ga := make([]int, gaLen)
	for i := range ga {
		ga[i] = Pick(r, []int{0, r.Range(1, 60000)})
	}
	var segs [][4]int
	if r.Bool() {
		segs = append(segs, [4]int{start, start + r.Intn(6), r.Intn(65536), 0})
		start = segs[0][1] + r.Range(1, 9)
	}
	sentinel := Pick(r, []string{"none", "none", "good", "bad-offset"})
	nseg := len(segs) + 1
	if sentinel != "none" {
		nseg++
	}
	k := len(segs)
	// d = ro/2 - (nseg-k): the index of the segment's first value in glyphIdArray
	d := Pick(r, []int{0, 0, 1, 2, gaLen - ln + 1, gaLen, -1, 40})
	ro := 2 * (d + nseg - k)
	if ro <= 0 {
		ro = 2 * (nseg - k) // d = 0
		if r.Bool() {
			ro = 2 // d < 0 when another segment follows
		}
	}
	segs = append(segs, [4]int{start, start + ln - 1, Pick(r, []int{0, 0, r.Intn(65536)}), ro})
	switch sentinel {
	case "good":
		segs = append(segs, [4]int{0xFFFF, 0xFFFF, 1, 0})
	case "bad-offset":
		segs = append(segs, [4]int{0xFFFF, 0xFFFF, 1, 0xFFFE})
	}
	sub := cxCraft4(segs, ga)
	if r.Chance(1, 5) && len(sub) > 18 {
		sub = sub[:len(sub)-2*r.Range(1, min(4, (len(sub)-16)/2))] // truncated glyphIdArray
		c.Stat("craft4", "truncated")
	}
	cs := map[int]bool{0: true, 0xFFFF: true}
	for _, sg := range segs {
		for x := sg[0] - 1; x <= sg[1]+1; x++ {
			if x >= 0 && x <= 0xFFFF {
				cs[x] = true
			}
		}
	}
	var cl []int
	for x := range cs {
		cl = append(cl, x)
	}
	sort.Ints(cl)
	res := c.Case(Verdict, "cmap4.decode", "bytes="+hx(sub), true)
	c.Stat("craft4", fmt.Sprintf("sentinel=%s outcome=%s", sentinel, strings.SplitN(res, ":", 2)[0]))
	c.Case(Direct, "cmap4.decspec", fmt.Sprintf("bytes=%s codes=%s", hx(sub), ints(cl)), true)
}

// cxCaseBestFallback: a higher-ranked GetBest candidate is present but cannot be decoded (unimplemented
// format 2/8/10/13/14 or a malformed format 4/6/12 body) next to a lower-ranked one that can.
func cxCaseBestFallback(c *Ctx, r *Rng) {
	t := cmap.Table{}
	good := r.Range(1, 4) // index of the best decodable candidate
	for i := 0; i < good; i++ {
		if i == good-1 || r.Chance(2, 3) {
			var sub []byte
			switch r.Intn(5) {
			case 0, 1:
				sub = cxFake(r, Pick(r, []int{2, 8, 10, 13, 14}), 0)
			case 2:
				sub = []byte{0, 4, 0, 16, 0, 0, 0, 3, 0, 0, 0, 0, 0, 0, 0, 0} // odd segCountX2
			case 3:
				sub = []byte{0, 6, 0, 14, 0, 0, 0, 65, 0, 9, 0, 1, 0, 2} // entryCount beyond the body
			case 4:
				sub = cxCraft12([][3]uint32{{70, 60, 1}}) // end before start
			}
			t[cmap.Key{PlatformID: cxPreference[i][0], EncodingID: cxPreference[i][1]}] = sub
		}
	}
	for i := good; i < len(cxPreference); i++ {
		if i == good || r.Chance(1, 3) {
			var sub []byte
			if cxPreference[i][0] == 1 || r.Bool() {
				sub = cxFormat6(r, 60+i, r.Range(1, 6), 0)
			} else {
				m := cmap.Format4{}
				for j := 0; j < 4; j++ {
					m[uint16(65+2*j+i)] = glyph.ID(100*i + j + 1)
				}
				sub = m.Encode(0)
			}
			t[cmap.Key{PlatformID: cxPreference[i][0], EncodingID: cxPreference[i][1]}] = sub
		}
	}
	targ := cxTabArg(t)
	codes := ints(cxCodes8(r))
	b := c.Case(Verdict, "cmapx.best", fmt.Sprintf("codes=%s tab=%s", codes, targ), true)
	c.Stat("best_fallback", cxClass(b))
	bi := c.Case(Direct, "cmapx.bestidx", "tab="+targ, true)
	c.Stat("best_fallback_choice", bi)
}

func cxBigMap(f Fields) cmap.Format12 {
	n, base, step, g0, mul := f.Int("n"), f.Int("base"), f.Int("step"), f.Int("g0"), f.Int("mul")
	m := make(cmap.Format12, n)
	for i := 0; i < n; i++ {
		m[uint32(base+step*i)] = glyph.ID((g0 + mul*i) % 65536)
	}
	return m
}

// cxCaseBig12: format 12 subtables around and above 64 KiB (16 + 12·groups >= 65536 from 5460 groups on),
// up to the 65536 entries of the property's domain; every entry is its own group (step >= 2).
func cxCaseBig12(c *Ctx, r *Rng, k int) {
	sizes := []int{5460, 65536, 5461, 6000, 5459, 21846, 43691}
	n := sizes[k%len(sizes)]
	step := Pick(r, []int{2, 3, 7, 16})
	base := Pick(r, []int{0, 1, 0x10000, r.Intn(0x100000)})
	if base+step*n > 0x7FFFFFF0 {
		base = 0
	}
	g0, mul := r.Intn(65536), Pick(r, []int{0, 2, 3, 5, 65535, r.Intn(65536)})
	lang := Pick(r, []int{0, 0, 1, r.Intn(0x10000)})
	args := fmt.Sprintf("n=%d base=%d step=%d g0=%d mul=%d lang=%d", n, base, step, g0, mul, lang)
	c.Stat("big12_groups", fmt.Sprint(n))
	c.Case(Verdict, "cmapx.big12enc", args, true)
	c.Case(Direct, "cmapx.big12hdr", args, true)
	var codes []int
	for _, i := range []int{0, 1, n / 2, n - 2, n - 1, r.Intn(n), r.Intn(n), r.Intn(n)} {
		codes = append(codes, base+step*i, base+step*i+1)
	}
	codes = append(codes, 0, 0xFFFF, 0x10000, 0x10FFFF, base+step*n)
	sort.Ints(codes)
	c.Case(Direct, "cmapx.big12rt", fmt.Sprintf("%s codes=%s", args, ints(codes)), true)
}

func areaCmapx(c *Ctx) {
	r := c.Rng
	for i := 0; i < c.N; i++ {
		if i%1000 == 0 {
			cxCaseBig12(c, r, i/1000)
		}
		if i%2000 == 500 {
			cxCaseBig4(c, r, i/2000)
		}
		if i%8 == 3 {
			cxCaseLayout(c, r, i/8)
			cxCaseCraft4(c, r)
		}
		if i%16 == 7 {
			cxCaseBestFallback(c, r)
		}
		switch i % 4 {
		case 0:
			cxCase12(c, r)
		case 1:
			cxCase06(c, r)
		case 2:
			cxCaseTable(c, r)
		case 3:
			cxCaseGet(c, r)
		}
	}
}

func cxCase12(c *Ctx, r *Rng) {
	m := cxGenMap32(r, c)
	marg := cxMapArg(m)
	nontriv := len(m) >= 2
	lang := Pick(r, []int{0, 0, 1, r.Intn(0x10000)})
	out := c.Case(Verdict, "cmapx.enc12", fmt.Sprintf("lang=%d map=%s", lang, marg), nontriv)
	if !strings.HasPrefix(out, "ok:") {
		c.Stat("enc12", out)
		return
	}
	b := out[3:]
	c.Stat("enc12_groups", bucket((len(b)/2-16)/12))
	codes := ints(cxProbe32(r, m))
	c.Case(Direct, "cmapx.spec12", fmt.Sprintf("lang=%d bytes=%s codes=%s map=%s", lang, b, codes, marg), nontriv)
	res := c.Case(Verdict, "cmapx.dec12", "bytes="+b, nontriv)
	_, hasMax := m[0xFFFFFFFF]
	switch {
	case strings.HasPrefix(res, "ok"):
		c.Stat("dec12_of_own_output", "ok")
	case len(m) > 65536:
		c.Stat("dec12_of_own_output", "refused:>65536 entries (outside the property's domain)")
	case hasMax:
		c.Stat("dec12_of_own_output", "refused:key 0xFFFFFFFF")
	default:
		c.Stat("dec12_of_own_output", "refused:OTHER")
	}
	c.Case(Direct, "cmapx.decspec12", fmt.Sprintf("bytes=%s codes=%s", b, codes), nontriv)
	if len(b) < 4000 {
		inst := c.Case(Verdict, "cmapx.install", "map="+marg, nontriv)
		if strings.Contains(inst, "3.10.0") {
			c.Stat("install", "full-unicode keys (0,4),(3,10)")
		} else {
			c.Stat("install", "bmp keys (0,3),(3,1)")
		}
	}
	if len(b) > 20000 {
		return
	}
	data := mustHexX(b)
	for k := 0; k < 3; k++ {
		var mu []byte
		switch r.Intn(4) {
		case 0, 1:
			mu = cxMutate(r, data, 12)
		case 2: // crafted groups around the decoder's limits
			var gs [][3]uint32
			start := uint32(r.Intn(0x11000))
			for j := r.Range(1, 4); j > 0; j-- {
				ln := uint32(Pick(r, []int{0, 1, 5, 65535, 65536, r.Intn(70000)}))
				gid := uint32(Pick(r, []int{0, 1, 0xFFFF, 0x10000, 0x10FFFF, 0x110000, 0xFFFF - int(ln&0xFFFF), 0x10000 - int(ln&0xFFFF), r.Intn(0x10000)}))
				gs = append(gs, [3]uint32{start, start + ln, gid})
				start += ln + uint32(Pick(r, []int{0, 1, 1, 2, 100}))
				if r.Chance(1, 8) {
					start -= uint32(r.Range(1, 3))
				}
			}
			if r.Chance(1, 6) {
				gs[len(gs)-1][1] = Pick(r, []uint32{0xFFFFFFFF, 0xFFFFFFFE})
			}
			if r.Chance(1, 10) {
				gs[0][0], gs[0][1] = gs[0][1], gs[0][0]
			}
			mu = cxCraft12(gs)
			if len(mu) > 12000 {
				continue
			}
		case 3: // numGroups inconsistent with the length
			mu = append([]byte(nil), data...)
			cxPut32(mu, 12, Pick(r, []uint32{0, 1, uint32(len(mu)/12 + 1), 1000001, 0xFFFFFFFF, 0x15555556}))
		}
		mb := hx(mu)
		res := c.Case(Verdict, "cmapx.dec12", "bytes="+mb, true)
		c.Stat("dec12_mutated_outcome", strings.SplitN(res, ":", 2)[0])
		c.Case(Direct, "cmapx.decspec12", fmt.Sprintf("bytes=%s codes=%s", mb, codes), true)
	}
}

func cxCase06(c *Ctx, r *Rng) {
	codes := ints(cxCodes8(r))
	// format 0
	lang := Pick(r, []int{0, 0, 1, r.Intn(0x10000)})
	d := r.Bytes(256)
	out := c.Case(Verdict, "cmapx.enc0", fmt.Sprintf("lang=%d data=%s", lang, hx(d)), true)
	if strings.HasPrefix(out, "ok:") {
		b := mustHexX(out[3:])
		for k := 0; k < 3; k++ {
			mu := b
			if k > 0 {
				mu = cxMutate(r, b, 0)
				if r.Chance(1, 4) {
					mu = mu[:r.Intn(8)]
				}
			}
			res := c.Case(Verdict, "cmapx.dec0", "bytes="+hx(mu), true)
			c.Stat("dec0_outcome", strings.SplitN(res, ":", 2)[0])
			c.Case(Direct, "cmapx.decspec0", fmt.Sprintf("bytes=%s codes=%s", hx(mu), codes), true)
		}
	}
	// the Macintosh platform (1,0): formats 0, 4, 6 answer in Unicode (repair 0c896bc for format 0)
	if strings.HasPrefix(out, "ok:") {
		c.Case(Direct, "cmapx.mac0", fmt.Sprintf("bytes=%s codes=%s", out[3:], ints(cxMacRunes(r))), true)
	}
	cxCaseMac(c, r)
	cxCaseRange(c, r)
	// format 6
	first := Pick(r, []int{0, 32, r.Intn(300), 0xFFF0 + r.Intn(16), r.Intn(0x10000)})
	count := Pick(r, []int{0, 1, 2, 5, r.Range(0, 40), r.Range(0, 300)})
	b6 := cxFormat6(r, first, count, lang)
	for k := 0; k < 4; k++ {
		mu := b6
		switch k {
		case 1: // the tolerated excess 0x0000
			mu = append(append([]byte(nil), b6...), 0, 0)
		case 2: // excess word that is not zero / other trailing garbage
			mu = append(append([]byte(nil), b6...), Pick(r, [][]byte{{0, 1}, {1, 0}, {0}, {0, 0, 0}, {0, 0, 0, 0}})...)
		case 3:
			mu = cxMutate(r, b6, 6)
		}
		cs := map[int]bool{}
		for _, x := range cxCodes8(r) {
			cs[x] = true
		}
		for d := -2; d <= count+2; d += 1 + count/20 {
			if first+d >= 0 {
				cs[first+d] = true
				cs[(first+d)&0xFFFF] = true
			}
		}
		var cl []int
		for x := range cs {
			cl = append(cl, x)
		}
		sort.Ints(cl)
		mac := 0
		if r.Chance(1, 3) {
			mac = 1
		}
		res := c.Case(Verdict, "cmapx.dec6", fmt.Sprintf("mac=%d bytes=%s", mac, hx(mu)), true)
		c.Stat("dec6_outcome", strings.SplitN(res, ":", 2)[0])
		if first+count > 0x10000 {
			c.Stat("dec6_probe", "firstCode+count>65536")
		}
		c.Case(Direct, "cmapx.decspec6", fmt.Sprintf("bytes=%s codes=%s", hx(mu), ints(cl)), true)
	}
}

func cxCaseTable(c *Ctx, r *Rng) {
	t := cxGenTable(r, c)
	targ := cxTabArg(t)
	nontriv := len(t) >= 2
	out := c.Case(Verdict, "cmapx.tenc", "tab="+targ, nontriv)
	c.Case(Direct, "cmapx.trt", "tab="+targ, nontriv)
	if !strings.HasPrefix(out, "ok:") {
		return
	}
	enc := mustHexX(out[3:])
	res := c.Case(Verdict, "cmapx.tdec", "bytes="+out[3:], nontriv)
	c.Stat("tdec_own_output", strings.SplitN(res, ":", 2)[0])
	// tables outside the round-trip domain: Encode is still modelled byte-exactly
	if r.Chance(1, 3) {
		t2 := cmap.Table{}
		for k, v := range t {
			if r.Chance(1, 2) {
				k.Language = uint16(r.Intn(3))
			}
			if r.Chance(1, 4) {
				k.PlatformID = uint16(r.Intn(8))
			}
			if r.Chance(1, 5) {
				v = r.Bytes(r.Intn(12)) // short or empty subtables (nil/empty sharing)
			}
			t2[k] = v
		}
		o2 := c.Case(Verdict, "cmapx.tenc", "tab="+cxTabArg(t2), true)
		if strings.HasPrefix(o2, "ok:") {
			r2 := c.Case(Verdict, "cmapx.tdec", "bytes="+o2[3:], true)
			c.Stat("tdec_outside_domain", strings.SplitN(r2, ":", 3)[0])
		}
	}
	// malformed / mutated tables
	n := int(enc[2])<<8 | int(enc[3])
	for k := 0; k < 4; k++ {
		mu := append([]byte(nil), enc...)
		kind := r.Intn(8)
		switch {
		case kind == 0:
			mu = cxMutate(r, enc, 0)
		case kind == 1 && n > 0: // an offset field
			i := r.Intn(n)
			o := int(mu[8+8*i])<<24 | int(mu[9+8*i])<<16 | int(mu[10+8*i])<<8 | int(mu[11+8*i])
			no := Pick(r, []int{o + 1, o - 1, o + 2, o + 9, len(mu) - 10, len(mu) - 9, len(mu) - 12, len(mu) - 11, 4 + 8*n, 3 + 8*n, 0, len(mu), 0xFFFFFFFF, 0xFFFFFFF8, r.Intn(len(mu) + 4)})
			cxPut32(mu, 8+8*i, uint32(no))
		case kind == 2 && n > 0: // a length field of a subtable
			i := r.Intn(n)
			o := int(mu[8+8*i])<<24 | int(mu[9+8*i])<<16 | int(mu[10+8*i])<<8 | int(mu[11+8*i])
			if o+8 <= len(mu) {
				p := o + 2 + r.Intn(6)
				mu[p] = Pick(r, []byte{0, 1, 9, 10, 11, 12, 0xFF, mu[p] + 1, mu[p] - 1})
			}
		case kind == 3: // numTables
			nn := Pick(r, []int{0, n + 1, n - 1, 0xFFFF, (len(mu) - 4) / 8, (len(mu)-4)/8 + 1})
			mu[2], mu[3] = byte(nn>>8), byte(nn)
		case kind == 4 && n > 0: // platform / format fields
			i := r.Intn(n)
			if r.Bool() {
				mu[5+8*i] = byte(Pick(r, []int{1, 4, 5, 255}))
			} else {
				o := int(mu[8+8*i])<<24 | int(mu[9+8*i])<<16 | int(mu[10+8*i])<<8 | int(mu[11+8*i])
				if o+2 <= len(mu) {
					mu[o+1] = byte(Pick(r, []int{0, 1, 2, 3, 4, 6, 8, 10, 12, 13, 14, 15}))
				}
			}
		case kind == 5:
			mu = mu[:r.Intn(len(mu)+1)]
		case kind == 6:
			mu[0], mu[1] = byte(r.Intn(2)), byte(r.Intn(3))
		case kind == 7: // tiny inputs
			mu = r.Bytes(r.Intn(16))
			if len(mu) >= 2 && r.Bool() {
				mu[0], mu[1] = 0, 0
			}
		default:
			mu = cxMutate(r, enc, 0)
		}
		if len(mu) > 6000 {
			continue
		}
		res := c.Case(Verdict, "cmapx.tdec", "bytes="+hx(mu), true)
		c.Stat("tdec_mutated_outcome", strings.SplitN(res+":", ":", 3)[0]+":"+strings.SplitN(res+":", ":", 3)[1][:min(9, len(strings.SplitN(res+":", ":", 3)[1]))])
		if strings.HasPrefix(res, "ok:") && len(res) > 3 {
			// Get on whatever Decode accepted (never a nil-function call)
			dt, err := cmap.Decode(mu)
			if err == nil {
				for key := range dt {
					g := c.Case(Verdict, "cmapx.get", fmt.Sprintf("key=%d.%d.%d codes=%s tab=%s", key.PlatformID, key.EncodingID, key.Language, ints(cxCodes8(r)), cxShowTab(dt)), true)
					c.Stat("get_on_decoded", cxClass(g))
					break
				}
			}
		}
	}
}

// cxMacRunes: runes to query under the Macintosh key: ASCII, Latin-1 (where raw MacRoman codes and
// Unicode differ), the characters of the upper MacRoman half, and runes MacRoman does not have.
func cxMacRunes(r *Rng) []int {
	set := map[int]bool{0: true, 65: true, 127: true, 128: true, 142: true, 160: true, 196: true, 202: true, 233: true, 255: true,
		256: true, 305: true, 321: true, 402: true, 711: true, 960: true, 8224: true, 8364: true, 63743: true, 64257: true,
		0xFFFF: true, 0x10000: true, 0x10041: true, 0x10FFFF: true}
	for i := 0; i < 10; i++ {
		set[r.Intn(256)] = true
	}
	for i := 0; i < 6; i++ {
		set[int(mac.DecodeOne(byte(128+r.Intn(128))))] = true
	}
	out := make([]int, 0, len(set))
	for x := range set {
		out = append(out, x)
	}
	sort.Ints(out)
	return out
}

// cxCaseMac: format 4 and 6 subtables under the Macintosh key. D stream: codes below 256 only (the
// domain of C09_mac_decoders); V stream: also codes above 255, which Get truncates to their low byte.
func cxCaseMac(c *Ctx, r *Rng) {
	runes := ints(cxMacRunes(r))
	for k := 0; k < 2; k++ {
		high := k == 1 // codes above 255 present
		var sub []byte
		if r.Bool() {
			first := r.Intn(250)
			count := r.Range(0, 256-first)
			if high {
				first = Pick(r, []int{200, 250, 256, 300, 0x140, r.Intn(2000)})
				count = r.Range(1, 300)
			}
			sub = cxFormat6(r, first, count, Pick(r, []int{0, 0, 2}))
			c.Stat("mac_subtable", fmt.Sprintf("format6 high=%v", high))
		} else {
			m := cmap.Format4{}
			code := r.Intn(200)
			lim := 256
			if high {
				lim = 3000
				code = Pick(r, []int{r.Intn(256), 256 + r.Intn(300)})
			}
			for i := r.Range(1, 40); i > 0 && code < lim; i-- {
				m[uint16(code)] = glyph.ID(r.Range(1, 60000))
				code += Pick(r, []int{1, 1, 1, 2, 5, r.Range(1, 60)})
			}
			if high {
				m[uint16(256+r.Intn(1000))] = glyph.ID(r.Range(1, 900))
			}
			sub = m.Encode(uint16(Pick(r, []int{0, 0, 2})))
			c.Stat("mac_subtable", fmt.Sprintf("format4 high=%v", high))
		}
		if !high {
			c.Case(Direct, "cmapx.macspec", fmt.Sprintf("bytes=%s codes=%s", hx(sub), runes), true)
		}
		g := c.Case(Verdict, "cmapx.get", fmt.Sprintf("key=1.0.0 codes=%s tab=1.0.0:%s", runes, hx(sub)), true)
		c.Stat("mac_get", cxClass(g))
	}
}

// cxCaseRange: CodeRange of every subtable type and InstallCMap's choice of keys, on small maps (1, 2,
// 3 entries: the first element visited matters) and on larger ones, with entries at 0, 0xFFFF, 0x10000,
// 0x10FFFF and above U+FFFF.
func cxCaseRange(c *Ctx, r *Rng) {
	special := []int{0, 1, 65, 0xFFFE, 0xFFFF, 0x10000, 0x10001, 0x1F600, 0x10FFFF}
	n := Pick(r, []int{0, 1, 1, 1, 2, 2, 3, 3, 4, r.Range(5, 40)})
	// format 12
	m := map[int]int{}
	for len(m) < n {
		code := Pick(r, []int{Pick(r, special), r.Intn(0x10000), 0x10000 + r.Intn(0x100000), r.Intn(300)})
		m[code] = Pick(r, []int{0, r.Range(1, 60000)})
	}
	arg := func(m map[int]int) string {
		keys := make([]int, 0, len(m))
		for k := range m {
			keys = append(keys, k)
		}
		sort.Ints(keys)
		parts := make([]string, len(keys))
		for i, k := range keys {
			parts[i] = fmt.Sprintf("%d:%d", k, m[k])
		}
		return strings.Join(parts, ",")
	}
	beyond := false
	for k := range m {
		if k > 0xFFFF {
			beyond = true
		}
	}
	c.Stat("coderange_map12", fmt.Sprintf("n=%s beyondBMP=%v", bucket(len(m)), beyond))
	c.Case(Direct, "cmapx.coderange", "kind=12 map="+arg(m), true)
	c.Case(Direct, "cmapx.installspec", "kind=12 map="+arg(m), true)
	// format 4
	m4 := map[int]int{}
	n4 := Pick(r, []int{0, 1, 1, 2, 2, 3, 3, r.Range(4, 40)})
	for len(m4) < n4 {
		m4[Pick(r, []int{0, 0xFFFF, 0xFFFE, 1, r.Intn(0x10000), r.Intn(300)})] = r.Range(1, 60000)
	}
	c.Stat("coderange_map4", "n="+bucket(len(m4)))
	c.Case(Direct, "cmapx.coderange", "kind=4 map="+arg(m4), true)
	if r.Chance(1, 3) {
		c.Case(Direct, "cmapx.installspec", "kind=4 map="+arg(m4), true)
	}
	// format 6 (decodes into the Format4 map type) and format 0
	first := Pick(r, []int{0, 1, 65, 0xFFF0, 0xFFFF, r.Intn(0x10000)})
	count := Pick(r, []int{0, 1, 1, 2, 3, r.Range(0, 30)})
	if first+count > 0x10000 {
		count = 0x10000 - first
	}
	c.Case(Direct, "cmapx.coderange", "kind=6 bytes="+hx(cxFormat6(r, first, count, 0)), true)
	if r.Chance(1, 10) {
		c.Case(Direct, "cmapx.coderange", "kind=0", false)
	}
}

func cxClass(s string) string {
	p := strings.SplitN(s, ":", 3)
	if len(p) >= 2 {
		return p[0] + ":" + p[1]
	}
	return s
}

func cxCaseGet(c *Ctx, r *Rng) {
	t := cmap.Table{}
	n := Pick(r, []int{0, 1, 2, 3, 4, 5})
	for i := 0; i < n; i++ {
		cand := Pick(r, cxPreference[:])
		key := cmap.Key{PlatformID: cand[0], EncodingID: cand[1]}
		if r.Chance(1, 6) {
			key = cmap.Key{PlatformID: uint16(r.Intn(5)), EncodingID: uint16(r.Intn(12)), Language: uint16(r.Intn(2))}
		}
		sub, format := cxSubtable(r, c, Pick(r, []int{0, 0, 3}))
		if r.Chance(1, 6) {
			// a subtable the decoder refuses: the next candidate must be taken
			sub = cxMutate(r, sub, 2)
			if key.PlatformID == 1 || format == 4 {
				sub = append([]byte(nil), sub[:min(len(sub), 11)]...)
				if len(sub) >= 2 {
					sub[0], sub[1] = 0, 12
				}
			}
			c.Stat("get_table", "damaged-subtable")
		}
		t[key] = sub
	}
	if r.Chance(1, 25) {
		// hand-made tables outside Decode's guarantee: unknown format, very short data
		t[cmap.Key{PlatformID: 3, EncodingID: 1}] = Pick(r, [][]byte{{0, 3, 0, 10, 0, 0, 0, 0, 0, 0}, {0}, {}, {0, 0}, {0, 0, 0, 0, 0}, {1, 0, 0, 0, 0, 0, 0, 0, 0, 0}})
		c.Stat("get_table", "outside-decode-guarantee")
	}
	targ := cxTabArg(t)
	codes := ints(cxCodes8(r))
	for key := range t {
		g := c.Case(Verdict, "cmapx.get", fmt.Sprintf("key=%d.%d.%d codes=%s tab=%s", key.PlatformID, key.EncodingID, key.Language, codes, targ), true)
		c.Stat("get_outcome", cxClass(g))
	}
	c.Case(Verdict, "cmapx.get", fmt.Sprintf("key=%d.%d.%d codes=%s tab=%s", r.Intn(4), r.Intn(11), 0, codes, targ), len(t) > 0)
	b := c.Case(Verdict, "cmapx.best", fmt.Sprintf("codes=%s tab=%s", codes, targ), len(t) >= 2)
	c.Stat("best_outcome", cxClass(b))
	bi := c.Case(Direct, "cmapx.bestidx", "tab="+targ, len(t) >= 2)
	c.Stat("best_choice", bi)
}
