package main

// C01 — font-level plumbing of sfnt.Font: Write derives table records from a Font value,
// Read merges table records back.  Streams:
//   V font.meta      F            -> FontMeta(Read(Write(F)))              model: rewrite F (= nf F)
//   V font.derive    F            -> records decoded from the tables of Write(F)   model: codec(derive F)
//   V font.merge     T            -> FontMeta(Read(file assembled from records T)) model: merge(codec T)
//   D font.fixed     F | T        -> "same" iff gen-1 = gen-2, bytes gen-2 = gen-3, Write twice equal
//   V font.fixedpred F | T        -> fields in which gen-1 and gen-2 differ         model: same on the model
// Strings travel as hex of their UTF-8 bytes, float64 values as exact dyadic fractions num:exp.

import (
	"bytes"
	"crypto/sha1"
	"encoding/hex"
	"errors"
	"fmt"
	"math"
	"math/big"
	"sort"
	"strconv"
	"strings"
	"time"

	"golang.org/x/image/font/gofont/goregular"
	"golang.org/x/text/language"

	"seehuhn.de/go/geom/matrix"
	"seehuhn.de/go/postscript/cid"
	"seehuhn.de/go/postscript/funit"
	"seehuhn.de/go/postscript/type1"

	"seehuhn.de/go/sfnt"
	"seehuhn.de/go/sfnt/cff"
	"seehuhn.de/go/sfnt/cmap"
	"seehuhn.de/go/sfnt/glyf"
	"seehuhn.de/go/sfnt/glyph"
	"seehuhn.de/go/sfnt/head"
	"seehuhn.de/go/sfnt/header"
	"seehuhn.de/go/sfnt/hmtx"
	"seehuhn.de/go/sfnt/maxp"
	"seehuhn.de/go/sfnt/name"
	"seehuhn.de/go/sfnt/opentype/classdef"
	"seehuhn.de/go/sfnt/opentype/coverage"
	"seehuhn.de/go/sfnt/opentype/gdef"
	"seehuhn.de/go/sfnt/opentype/gtab"
	"seehuhn.de/go/sfnt/os2"
	"seehuhn.de/go/sfnt/post"
)

// ---------------------------------------------------------------- exact transport of numbers

func f1DyStr(x float64) string {
	if x == 0 {
		return "0:0"
	}
	if math.IsInf(x, 0) || math.IsNaN(x) {
		return "nan:0"
	}
	m, e := math.Frexp(x) // x = m * 2^e
	mant := int64(m * (1 << 53))
	exp := e - 53
	for mant%2 == 0 {
		mant /= 2
		exp++
	}
	if exp >= 0 {
		b := new(big.Int).Lsh(big.NewInt(mant), uint(exp))
		return b.String() + ":0"
	}
	return fmt.Sprintf("%d:%d", mant, -exp)
}

func f1Fix16Str(x float64) string {
	y := x * 65536
	if y == math.Trunc(y) && math.Abs(y) < 1e15 {
		return fmt.Sprintf("%d:16", int64(y))
	}
	return f1DyStr(x)
}

func f1ParseDy(s string) float64 {
	i := strings.IndexByte(s, ':')
	if i < 0 {
		panic("bad dyadic " + s)
	}
	num, ok := new(big.Int).SetString(s[:i], 10)
	if !ok {
		panic("bad dyadic " + s)
	}
	exp, err := strconv.Atoi(s[i+1:])
	if err != nil {
		panic("bad dyadic " + s)
	}
	f := new(big.Float).SetPrec(200).SetInt(num)
	f.SetMantExp(f, -exp)
	x, _ := f.Float64()
	return x
}

func f1HexS(s string) string { return hex.EncodeToString([]byte(s)) }
func f1UnhexS(s string) string {
	b, err := hex.DecodeString(s)
	if err != nil {
		panic("bad hex string")
	}
	return string(b)
}

func f1Tok(parts ...[]byte) string {
	h := sha1.New()
	for _, p := range parts {
		fmt.Fprintf(h, "%d:", len(p))
		h.Write(p)
	}
	return "x" + hex.EncodeToString(h.Sum(nil))[:10]
}

func f1TimeStr(t time.Time) string { return fmt.Sprintf("%d:%d", t.Unix(), t.Nanosecond()) }
func f1ParseTime(s string) time.Time {
	var sec int64
	var ns int
	if _, err := fmt.Sscanf(s, "%d:%d", &sec, &ns); err != nil {
		panic("bad time " + s)
	}
	if sec == -62135596800 && ns == 0 {
		return time.Time{}
	}
	return time.Unix(sec, int64(ns)).UTC()
}

func f1B01(b bool) string {
	if b {
		return "1"
	}
	return "0"
}

// ---------------------------------------------------------------- recipes for the opaque parts

var f1GoRegularGlyphs = func() *glyf.Outlines {
	f, err := sfnt.Read(bytes.NewReader(goregular.TTF))
	if err != nil {
		panic(err)
	}
	return f.Outlines.(*glyf.Outlines)
}()

var f1GoSimple = func() []*glyf.Glyph {
	var out []*glyf.Glyph
	for _, g := range f1GoRegularGlyphs.Glyphs {
		if g == nil {
			continue
		}
		if _, ok := g.Data.(glyf.SimpleGlyph); ok {
			out = append(out, g)
		}
	}
	return out
}()

// f1BigGlyf: n (>= 2) glyphs without contours whose instructions pad the encoded glyf table to
// exactly total bytes (total even, 12*n <= total <= 65000*n): the loca-format boundaries.
const f1BigGlyfSeed = uint64(1) << 40

func f1BigGlyf(n, total int) *glyf.Outlines {
	o := &glyf.Outlines{Maxp: f1GoRegularGlyphs.Maxp, Tables: map[string][]byte{}}
	rest := total
	for i := 0; i < n; i++ {
		size := total / n / 2 * 2
		if i == n-1 {
			size = rest
		}
		rest -= size
		instr := size - 12 // 10 bytes glyph header + 2 bytes instruction length + instructions
		enc := make([]byte, 2+instr)
		enc[0], enc[1] = byte(instr>>8), byte(instr)
		for j := 2; j < len(enc); j++ {
			enc[j] = byte(i + j)
		}
		o.Glyphs = append(o.Glyphs, &glyf.Glyph{Data: glyf.SimpleGlyph{NumContours: 0, Encoded: enc}})
	}
	return o
}

// f1CharsetRuns: CFF outlines of n endchar-only glyphs whose charset is .notdef, one run of exactly
// run consecutive SIDs (custom names g1..) resp. CIDs (1..run), then n-1-run single-entry runs
// (standard names with non-adjacent SIDs resp. CIDs 2000, 2002, ...): encodeCharset picks format 1
// and has to split the long run into ranges of at most 256.
func f1CharsetRuns(kind byte, n, run int) *cff.Outlines {
	o := &cff.Outlines{
		Private:  []*type1.PrivateDict{{BlueValues: []funit.Int16{-10, 0, 700, 710}, BlueScale: 0.039625, BlueShift: 7, BlueFuzz: 1}},
		FDSelect: func(glyph.ID) int { return 0 },
	}
	std := []string{"space", "quotedbl", "dollar", "ampersand", "parenleft", "asterisk", "comma", "period", "zero", "two", "four", "six"}
	for i := 0; i < n; i++ {
		nm := ""
		if kind != 'k' {
			switch {
			case i == 0:
				nm = ".notdef"
			case i <= run:
				nm = fmt.Sprintf("g%d", i)
			default:
				nm = std[(i-run-1)%len(std)]
				if i-run-1 >= len(std) {
					nm = fmt.Sprintf("h%d", 2*i)
				}
			}
		}
		o.Glyphs = append(o.Glyphs, cff.NewGlyph(nm, 0))
	}
	if kind == 'k' {
		o.ROS = &cid.SystemInfo{Registry: "Adobe", Ordering: "Identity", Supplement: 0}
		o.GIDToCID = make([]cid.CID, n)
		for i := range o.GIDToCID {
			if i <= run {
				o.GIDToCID[i] = cid.CID(i)
			} else {
				o.GIDToCID[i] = cid.CID(2000 + 2*(i-run))
			}
		}
		o.FontMatrices = []matrix.Matrix{matrix.Identity}
	} else {
		o.Encoding = make([]glyph.ID, 256)
		for i := 1; i < n && i < 200; i++ {
			o.Encoding[32+i%200] = glyph.ID(i)
		}
	}
	return o
}

// f1BuildOutlines makes glyph data for n glyphs from a seed; kind 'g' glyf, 'c' simple CFF,
// 'k' CID-keyed CFF.  Widths are set separately.
func f1BuildOutlines(kind byte, n int, seed uint64) sfnt.Outlines {
	r := NewRng(seed*7919 + uint64(n))
	switch kind {
	case 'g':
		if seed >= f1BigGlyfSeed { // a glyf table of exactly seed-f1BigGlyfSeed bytes
			return f1BigGlyf(n, int(seed-f1BigGlyfSeed))
		}
		o := &glyf.Outlines{Maxp: f1GoRegularGlyphs.Maxp, Tables: map[string][]byte{}}
		for i := 0; i < n; i++ {
			if (i == 0 && seed%4 != 0) || r.Chance(1, 8) {
				o.Glyphs = append(o.Glyphs, nil)
			} else {
				o.Glyphs = append(o.Glyphs, f1GoSimple[r.Intn(len(f1GoSimple))])
			}
		}
		if seed%3 == 1 {
			for i := 0; i < n; i++ {
				o.Names = append(o.Names, fmt.Sprintf("g%d", i))
			}
			if n > 0 {
				o.Names[0] = ".notdef"
			}
		}
		if seed%2 == 1 {
			o.Tables["cvt "] = []byte{0, 1, 0, 2}
			o.Tables["prep"] = []byte{0xB0, 0x01}
		}
		return o
	default:
		if seed >= f1BigGlyfSeed { // charset with a run of exactly seed-f1BigGlyfSeed consecutive SIDs/CIDs
			return f1CharsetRuns(kind, n, int(seed-f1BigGlyfSeed))
		}
		o := &cff.Outlines{
			Private:  []*type1.PrivateDict{{BlueValues: []funit.Int16{-10, 0, 700, 710}, BlueScale: 0.039625, BlueShift: 7, BlueFuzz: 1}},
			FDSelect: func(glyph.ID) int { return 0 },
		}
		for i := 0; i < n; i++ {
			nm := fmt.Sprintf("g%d", i)
			if i == 0 {
				nm = ".notdef"
			}
			if kind == 'k' {
				nm = ""
			}
			g := cff.NewGlyph(nm, 0)
			if i > 0 && !r.Chance(1, 8) {
				top := float64(r.Range(-50, 900))
				if r.Chance(1, 10) {
					top = float64(r.Range(-3, 3))
				}
				base := top - float64(r.Range(1, 700))
				g.MoveTo(10, base)
				g.LineTo(float64(r.Range(20, 600)), base)
				g.LineTo(float64(r.Range(20, 600)), top)
			}
			o.Glyphs = append(o.Glyphs, g)
		}
		if kind == 'k' {
			o.ROS = &cid.SystemInfo{Registry: "Adobe", Ordering: "Identity", Supplement: 0}
			o.GIDToCID = make([]cid.CID, n)
			for i := range o.GIDToCID {
				o.GIDToCID[i] = cid.CID(i)
			}
			// several font dicts; FD matrices identity / all scaled / different per FD
			nFD := 1 + int(seed/12)%3
			if nFD > n {
				nFD = n
			}
			scales := [][]float64{{1, 1, 1}, {0.001, 0.001, 0.001}, {0.001, 0.0005, 0.002}}[int(seed%3)]
			o.Private, o.FontMatrices = nil, nil
			for k := 0; k < nFD; k++ {
				o.Private = append(o.Private, &type1.PrivateDict{BlueValues: []funit.Int16{-10, 0, funit.Int16(700 + 10*k), funit.Int16(710 + 10*k)},
					BlueScale: 0.039625, BlueShift: 7, BlueFuzz: 1})
				q := scales[k]
				o.FontMatrices = append(o.FontMatrices, matrix.Matrix{q, 0, 0, q, 0, 0})
			}
			o.FDSelect = func(gid glyph.ID) int { return int(gid) % nFD }
		} else {
			o.Encoding = make([]glyph.ID, 256)
			for i := 1; i < n && i < 200; i++ {
				o.Encoding[32+i%200] = glyph.ID(i)
			}
		}
		return o
	}
}

func f1SetWidths(o sfnt.Outlines, w []float64, isNil bool) {
	switch o := o.(type) {
	case *glyf.Outlines:
		if isNil {
			o.Widths = nil
			return
		}
		o.Widths = make([]funit.Int16, len(w))
		for i, x := range w {
			o.Widths[i] = funit.Int16(x)
		}
	case *cff.Outlines:
		for i, g := range o.Glyphs {
			if i < len(w) {
				g.Width = w[i]
			}
		}
	}
}

func f1OutlineToken(o sfnt.Outlines) string {
	var parts [][]byte
	switch o := o.(type) {
	case *glyf.Outlines:
		enc := o.Glyphs.Encode()
		parts = append(parts, []byte("glyf"), enc.GlyfData)
		if o.Names != nil {
			parts = append(parts, []byte("names:"+strings.Join(o.Names, "/")))
		}
		keys := []string{}
		for k := range o.Tables {
			keys = append(keys, k)
		}
		sort.Strings(keys)
		for _, k := range keys {
			parts = append(parts, []byte(k), o.Tables[k])
		}
		if o.Maxp != nil {
			parts = append(parts, []byte(fmt.Sprint(*o.Maxp)))
		}
	case *cff.Outlines:
		parts = append(parts, []byte("cff"))
		for _, g := range o.Glyphs {
			parts = append(parts, []byte(g.Name+fmt.Sprint(g.Cmds, g.HStem, g.VStem)))
		}
		for _, p := range o.Private {
			parts = append(parts, []byte(fmt.Sprint(*p)))
		}
		if o.ROS != nil {
			fds := make([]int, len(o.Glyphs))
			for i := range fds {
				fds[i] = o.FDSelect(glyph.ID(i))
			}
			parts = append(parts, []byte(fmt.Sprint(*o.ROS, o.GIDToCID, o.FontMatrices, fds)))
		}
	}
	return f1Tok(parts...)
}

// f1EmptyGlyf: TrueType outlines whose encoded glyf table has length 0
func f1EmptyGlyf(o sfnt.Outlines) bool {
	if g, ok := o.(*glyf.Outlines); ok {
		return len(g.Glyphs.Encode().GlyfData) == 0
	}
	return false
}

func f1HeightsOf(f *sfnt.Font) []int {
	n := f.NumGlyphs()
	out := make([]int, n)
	for i := 0; i < n; i++ {
		out[i] = int(f.GlyphBBox(glyph.ID(i)).URy)
	}
	return out
}

// cmap recipe: "-" (nil table) or "gH.gx.gf.gi.gfi.gl.gff.gfl.gffi.gffl" (glyph ids, 0 = unmapped;
// trailing fields may be omitted)
func f1BuildCmap(recipe string, n int) cmap.Table {
	if recipe == "-" || recipe == "" {
		return nil
	}
	var extra []string
	if i := strings.IndexByte(recipe, '/'); i >= 0 {
		extra = strings.Split(recipe[i+1:], "/")
		recipe = recipe[:i]
	}
	var g [10]int
	p := strings.Split(recipe, ".")
	for i := 0; i < 10 && i < len(p); i++ {
		g[i], _ = strconv.Atoi(p[i])
	}
	m := cmap.Format4{}
	// H x f i fi l ff fl ffi ffl
	codes := []uint16{'H', 'x', 'f', 'i', 0xFB01, 'l', 0xFB00, 0xFB02, 0xFB03, 0xFB04}
	for i, c := range codes {
		if g[i] != 0 {
			m[c] = glyph.ID(g[i])
		}
	}
	if n > 1 {
		m['A'] = glyph.ID(n - 1)
	}
	sub := m.Encode(0)
	t := cmap.Table{
		{PlatformID: 0, EncodingID: 3}: sub,
		{PlatformID: 3, EncodingID: 1}: sub,
	}
	// "/mK": K Macintosh Roman subtables (platform 1, encoding 0) for languages 0..K-1 with different
	// data; "/u": full-repertoire subtables (0,4) and (3,10) as well
	for _, fl := range extra {
		switch {
		case len(fl) == 2 && fl[0] == 'm':
			for lang := 0; lang < int(fl[1]-'0'); lang++ {
				mm := cmap.Format4{}
				for c, g := range m {
					if c < 128 {
						mm[c] = g
					}
				}
				mm[uint16(0x30+lang)] = glyph.ID(1 + lang%max(n-1, 1))
				t[cmap.Key{PlatformID: 1, EncodingID: 0, Language: uint16(lang)}] = mm.Encode(uint16(lang))
			}
		case len(fl) > 1 && fl[0] == 'K':
			// "K<format>:<lang>:<lang>...": Macintosh subtables (1,0,lang) in the given format (12, 4, 6, 0),
			// all with the same mapping, so that they differ only in the language field
			ps := strings.Split(fl[1:], ":")
			for _, ls := range ps[1:] {
				lang, _ := strconv.Atoi(ls)
				var sub []byte
				switch ps[0] {
				case "12":
					m12 := cmap.Format12{}
					for c, g := range m {
						m12[uint32(c)] = g
					}
					sub = m12.Encode(uint16(lang))
				case "4":
					mm := cmap.Format4{}
					for c, g := range m {
						if c < 128 {
							mm[c] = g
						}
					}
					sub = mm.Encode(uint16(lang))
				case "6":
					sub = []byte{0, 6, 0, 14, byte(lang >> 8), byte(lang), 0, 65, 0, 2, 0, byte(min(n-1, 1)), 0, 0}
				default:
					sub = make([]byte, 262)
					sub[2], sub[3], sub[4], sub[5] = 1, 6, byte(lang>>8), byte(lang)
					sub[6+65] = byte(min(n-1, 200))
				}
				t[cmap.Key{PlatformID: 1, EncodingID: 0, Language: uint16(lang)}] = sub
			}
		case fl == "e6" || fl == "s6" || fl == "s0" || fl == "E6" || fl == "M6":
			// a short legacy subtable in LAST position of the table cmap.Table.Encode lays out:
			// e6 the empty format 6 subtable (10 bytes, the shortest subtable there is), s6 a format 6
			// subtable with two entries, s0 a format 0 subtable, under the key (4,0) which sorts last;
			// E6: the empty format 6 subtable (1,0) is the only subtable; M6: (0,3) and the empty (1,0)
			var leg []byte
			switch fl {
			case "s6":
				leg = []byte{0, 6, 0, 14, 0, 0, 0, 65, 0, 2, 0, byte(min(n-1, 1)), 0, 0}
			case "s0":
				leg = make([]byte, 262)
				leg[1], leg[2], leg[3] = 0, 1, 6
				leg[6+65] = byte(min(n-1, 200))
			default:
				leg = []byte{0, 6, 0, 10, 0, 0, 0, 65, 0, 0}
			}
			switch fl {
			case "E6":
				t = cmap.Table{{PlatformID: 1, EncodingID: 0}: leg}
			case "M6":
				delete(t, cmap.Key{PlatformID: 3, EncodingID: 1})
				t[cmap.Key{PlatformID: 1, EncodingID: 0}] = leg
			default:
				t[cmap.Key{PlatformID: 4, EncodingID: 0}] = leg
			}
		case fl == "u":
			m12 := cmap.Format12{}
			for c, g := range m {
				m12[uint32(c)] = g
			}
			if n > 1 {
				m12[0x1F600] = glyph.ID(n - 1)
			}
			s12 := m12.Encode(0)
			t[cmap.Key{PlatformID: 0, EncodingID: 4}] = s12
			t[cmap.Key{PlatformID: 3, EncodingID: 10}] = s12
		}
	}
	return t
}

func f1CmapToken(t cmap.Table) string {
	if t == nil {
		return "-"
	}
	return f1Tok(t.Encode())
}

// f1GtabToken: presence ("-" = nil), digest of the encoded table and of the script tags, and the
// numbers of scripts / features / lookups, so that "present but empty" and "absent" differ.
func f1GtabToken(info *gtab.Info) string {
	if info == nil {
		return "-"
	}
	var tags []string
	for t := range info.ScriptList {
		tags = append(tags, t.String())
	}
	sort.Strings(tags)
	return fmt.Sprintf("%s/s%df%dl%d", f1Tok(info.Encode(), []byte(strings.Join(tags, ","))),
		len(info.ScriptList), len(info.FeatureList), len(info.LookupList))
}

func f1GdefToken(t *gdef.Table) string {
	if t == nil {
		return "-"
	}
	return fmt.Sprintf("%s/c%da%dm%d", f1Tok(t.Encode()), len(t.GlyphClass), len(t.MarkAttachClass), len(t.MarkGlyphSets))
}

// f1EmptyGtab: present-but-empty layout tables: e0 (nothing at all), e0n (the same with a nil
// instead of an empty script map; the reader returns the empty map, which the token does not
// distinguish), e1 (a script without features), e2 (a feature without lookups), e3 (a lookup no
// feature uses).  Since the gtab fix d444265 (missing lists are written as empty lists instead of
// offset 0) every one of them survives Write→Read with its counts, so all take part in every stream.
func f1EmptyGtab(recipe string, gsub bool) *gtab.Info {
	tag := language.MustParse("und-Latn-x-latn")
	switch recipe {
	case "e0":
		return &gtab.Info{ScriptList: gtab.ScriptListInfo{}}
	case "e0n": // nil script list: the reader returns an empty map instead
		return &gtab.Info{}
	case "e1":
		return &gtab.Info{ScriptList: gtab.ScriptListInfo{tag: {Required: 0xFFFF}}}
	case "e2":
		return &gtab.Info{ScriptList: gtab.ScriptListInfo{tag: {Required: 0xFFFF, Optional: []gtab.FeatureIndex{0}}},
			FeatureList: []*gtab.Feature{{Tag: "liga"}}}
	case "e3":
		if gsub {
			return &gtab.Info{LookupList: []*gtab.LookupTable{{Meta: &gtab.LookupMetaInfo{LookupType: 1},
				Subtables: []gtab.Subtable{&gtab.Gsub1_1{Cov: coverage.Set{1: true}, Delta: 1}}}}}
		}
		return &gtab.Info{LookupList: []*gtab.LookupTable{{Meta: &gtab.LookupMetaInfo{LookupType: 2},
			Subtables: []gtab.Subtable{gtab.Gpos2_1{
				glyph.Pair{Left: 1, Right: 1}: &gtab.PairAdjust{First: &gtab.GposValueRecord{XAdvance: -30}}}}}}}
	}
	return nil
}

// f1CodecStable: layout-table recipes the gtab codec returns unchanged (all of them since d444265)
func f1CodecStable(recipe string) bool { return true }

// f1ScriptList2: several languages of one script, and a second script
func f1ScriptList2() gtab.ScriptListInfo {
	l := gtab.ScriptListInfo{}
	for _, t := range []string{"und-Latn-x-latn", "de-Latn-x-latn-DEU", "tr-Latn-x-latn-TRK", "ro-Latn-x-latn-ROM", "und-Grek-x-grek", "und-Zzzz-x-dflt"} {
		l[language.MustParse(t)] = &gtab.Features{Required: 0xFFFF, Optional: []gtab.FeatureIndex{0, 1}}
	}
	return l
}

func f1BuildGsub(recipe string, n int) *gtab.Info {
	if strings.HasPrefix(recipe, "e") {
		return f1EmptyGtab(recipe, true)
	}
	if recipe == "2" && n >= 8 {
		return &gtab.Info{
			ScriptList:  f1ScriptList2(),
			FeatureList: []*gtab.Feature{{Tag: "smcp", Lookups: []gtab.LookupIndex{0}}, {Tag: "liga", Lookups: []gtab.LookupIndex{1}}},
			LookupList: []*gtab.LookupTable{
				{Meta: &gtab.LookupMetaInfo{LookupType: 1},
					Subtables: []gtab.Subtable{&gtab.Gsub1_1{Cov: coverage.Set{1: true, 2: true, 3: true, 5: true}, Delta: 1}}},
				{Meta: &gtab.LookupMetaInfo{LookupType: 4},
					Subtables: []gtab.Subtable{&gtab.Gsub4_1{Cov: coverage.Table{1: 0, 2: 1, 4: 2},
						Repl: [][]gtab.Ligature{{{In: []glyph.ID{2, 3}, Out: 6}, {In: []glyph.ID{2}, Out: 5}}, {{In: []glyph.ID{1}, Out: 7}}, {{In: []glyph.ID{4}, Out: 3}}}}}},
			},
		}
	}
	if recipe == "" || recipe == "-" || n < 3 {
		return nil
	}
	return &gtab.Info{
		ScriptList: map[language.Tag]*gtab.Features{
			language.MustParse("und-Latn-x-latn"): {Required: 0xFFFF, Optional: []gtab.FeatureIndex{0}},
		},
		FeatureList: []*gtab.Feature{{Tag: "smcp", Lookups: []gtab.LookupIndex{0}}},
		LookupList: []*gtab.LookupTable{{
			Meta:      &gtab.LookupMetaInfo{LookupType: 1},
			Subtables: []gtab.Subtable{&gtab.Gsub1_1{Cov: coverage.Set{1: true}, Delta: 1}},
		}},
	}
}

func f1BuildGpos(recipe string, n int) *gtab.Info {
	if strings.HasPrefix(recipe, "e") {
		return f1EmptyGtab(recipe, false)
	}
	if recipe == "2" && n >= 8 { // kerning pairs sharing their first glyph
		pairs := gtab.Gpos2_1{}
		for l := 1; l <= 4; l++ {
			for rr := 1; rr <= 5; rr++ {
				pairs[glyph.Pair{Left: glyph.ID(l), Right: glyph.ID(rr)}] = &gtab.PairAdjust{First: &gtab.GposValueRecord{XAdvance: funit.Int16(-10*l - rr)}}
			}
		}
		return &gtab.Info{
			ScriptList:  f1ScriptList2(),
			FeatureList: []*gtab.Feature{{Tag: "kern", Lookups: []gtab.LookupIndex{0}}, {Tag: "dist", Lookups: []gtab.LookupIndex{0}}},
			LookupList:  []*gtab.LookupTable{{Meta: &gtab.LookupMetaInfo{LookupType: 2}, Subtables: []gtab.Subtable{pairs}}},
		}
	}
	if recipe == "" || recipe == "-" || n < 3 {
		return nil
	}
	return &gtab.Info{
		ScriptList: map[language.Tag]*gtab.Features{
			language.MustParse("und-Latn-x-latn"): {Required: 0xFFFF, Optional: []gtab.FeatureIndex{0}},
		},
		FeatureList: []*gtab.Feature{{Tag: "kern", Lookups: []gtab.LookupIndex{0}}},
		LookupList: []*gtab.LookupTable{{
			Meta: &gtab.LookupMetaInfo{LookupType: 2},
			Subtables: []gtab.Subtable{gtab.Gpos2_1{
				glyph.Pair{Left: 1, Right: 2}: &gtab.PairAdjust{First: &gtab.GposValueRecord{XAdvance: -30}},
			}},
		}},
	}
}

func f1BuildGdef(recipe string, n int) *gdef.Table {
	if recipe == "e0" {
		return &gdef.Table{}
	}
	if recipe == "2" && n >= 8 { // many glyphs per class, mark attachment classes, two mark glyph sets
		return &gdef.Table{
			GlyphClass:      classdef.Table{1: 1, 2: 1, 3: 3, 4: 3, 5: 2, 7: 1},
			MarkAttachClass: classdef.Table{3: 1, 4: 2},
			MarkGlyphSets:   []coverage.Set{{3: true, 4: true}, {4: true}},
		}
	}
	if recipe == "" || recipe == "-" || n < 3 {
		return nil
	}
	return &gdef.Table{GlyphClass: classdef.Table{1: 1, 2: 3}}
}

func f1KernBytes() []byte {
	// version 0, one format-0 horizontal subtable with one pair (1,2) -> -40
	return []byte{0, 0, 0, 1,
		0, 0, 0, 20, 0, 1,
		0, 1, 0, 6, 0, 0, 0, 0,
		0, 1, 0, 2, 0xFF, 0xD8}
}

// f1MatrixToken: "U" stands for [1/upem 0 0 1/upem 0 0] of a TrueType font (the model cannot
// compute the float 1/upem); CFF matrices are always spelled out.
func f1MatrixToken(m matrix.Matrix, upem uint16, isGlyf bool) string {
	q := 1 / float64(upem)
	t := "U"
	if !isGlyf || m != (matrix.Matrix{q, 0, 0, q, 0, 0}) {
		t = "m"
		for _, x := range m {
			t += fmt.Sprintf("%016x", math.Float64bits(x))
		}
	}
	u := "-"
	if m[0] != 0 {
		u = fmt.Sprint(uint16(math.Round(1 / m[0])))
	}
	return t + "/" + u
}

func f1ParseMatrix(s string, upem uint16) matrix.Matrix {
	if i := strings.IndexByte(s, '/'); i >= 0 {
		s = s[:i]
	}
	if s == "U" {
		q := 1 / float64(upem)
		return matrix.Matrix{q, 0, 0, q, 0, 0}
	}
	var m matrix.Matrix
	for i := 0; i < 6; i++ {
		b, err := strconv.ParseUint(s[1+16*i:17+16*i], 16, 64)
		if err != nil {
			panic("bad matrix token")
		}
		m[i] = math.Float64frombits(b)
	}
	return m
}

// ---------------------------------------------------------------- FontMeta rendering

type f1Kv struct{ k, v string }

func f1Join(l []f1Kv) string {
	p := make([]string, len(l))
	for i, e := range l {
		p[i] = e.k + "=" + e.v
	}
	return strings.Join(p, " ")
}

func f1IntsStr(l []int) string {
	p := make([]string, len(l))
	for i, x := range l {
		p[i] = strconv.Itoa(x)
	}
	return strings.Join(p, ",")
}

func f1WidthsStr(f *sfnt.Font) string {
	var ws []float64
	switch o := f.Outlines.(type) {
	case *glyf.Outlines:
		if o.Widths == nil {
			return "nil"
		}
		for _, w := range o.Widths {
			ws = append(ws, float64(w))
		}
	case *cff.Outlines:
		for _, g := range o.Glyphs {
			ws = append(ws, g.Width)
		}
	}
	p := make([]string, len(ws))
	for i, w := range ws {
		p[i] = f1DyStr(w)
	}
	return strings.Join(p, ",")
}

// f1RenderFont prints every scalar field of f and tokens for the opaque parts.
func f1RenderFont(f *sfnt.Font) []f1Kv {
	kind := "g"
	if o, ok := f.Outlines.(*cff.Outlines); ok {
		kind = "c"
		if o.IsCIDKeyed() {
			kind = "k"
		}
	}
	best, gh, gx, sl := "0", 0, 0, "-"
	if sub, _ := f.CMapTable.GetBest(); sub != nil {
		best = "1"
		gh = int(sub.Lookup('H'))
		gx = int(sub.Lookup('x'))
		sl = f1GtabToken(sfnt.VerifC01StandardLigatures(sub))
	}
	fl := f1B01(f.IsRegular) + f1B01(f.IsBold) + f1B01(f.IsItalic) + f1B01(f.IsOblique) + f1B01(f.IsSerif) + f1B01(f.IsScript)
	return []f1Kv{
		{"fam", f1HexS(f.FamilyName)}, {"wd", fmt.Sprint(uint16(f.Width))}, {"wt", fmt.Sprint(uint16(f.Weight))},
		{"fl", fl}, {"cpr", fmt.Sprint(uint64(f.CodePageRange))}, {"ver", fmt.Sprint(uint32(f.Version))},
		{"ct", f1TimeStr(f.CreationTime)}, {"mt", f1TimeStr(f.ModificationTime)},
		{"dsc", f1HexS(f.Description)}, {"smp", f1HexS(f.SampleText)}, {"cpy", f1HexS(f.Copyright)},
		{"tm", f1HexS(f.Trademark)}, {"lic", f1HexS(f.License)}, {"url", f1HexS(f.LicenseURL)},
		{"perm", fmt.Sprint(int(f.PermUse))}, {"upem", fmt.Sprint(f.UnitsPerEm)},
		{"fm", f1MatrixToken(f.FontMatrix, f.UnitsPerEm, kind == "g")},
		{"asc", fmt.Sprint(int(f.Ascent))}, {"des", fmt.Sprint(int(f.Descent))}, {"gap", fmt.Sprint(int(f.LineGap))},
		{"cap", fmt.Sprint(int(f.CapHeight))}, {"xh", fmt.Sprint(int(f.XHeight))},
		{"ia", f1Fix16Str(f.ItalicAngle)}, {"up", f1DyStr(float64(f.UnderlinePosition))}, {"ut", f1DyStr(float64(f.UnderlineThickness))},
		{"kind", kind}, {"n", fmt.Sprint(f.NumGlyphs())}, {"w", f1WidthsStr(f)}, {"h", f1IntsStr(f1HeightsOf(f))},
		{"gl", f1OutlineToken(f.Outlines)}, {"eg", f1B01(f1EmptyGlyf(f.Outlines))}, {"cm", f1CmapToken(f.CMapTable)}, {"best", best},
		{"gh", fmt.Sprint(gh)}, {"gx", fmt.Sprint(gx)}, {"sl", sl},
		{"gdef", f1GdefToken(f.Gdef)}, {"gsub", f1GtabToken(f.Gsub)}, {"gpos", f1GtabToken(f.Gpos)},
	}
}

// f1FontFromFields rebuilds the Font a case line describes (scalars from the fields, opaque parts
// from the recipe fields rgl/rcm/rgsub/rgpos/rgdef).
func f1FontFromFields(f Fields) *sfnt.Font {
	n := f.Int("n")
	kind := f["kind"][0]
	seed, _ := strconv.ParseUint(f["rgl"], 10, 64)
	o := f1BuildOutlines(kind, n, seed)
	var ws []float64
	isNil := f["w"] == "nil"
	if !isNil {
		for _, s := range f.List("w", ",") {
			ws = append(ws, f1ParseDy(s))
		}
	}
	f1SetWidths(o, ws, isNil)
	fl := f["fl"]
	cpr, _ := strconv.ParseUint(f["cpr"], 10, 64)
	upem := uint16(f.Int("upem"))
	font := &sfnt.Font{
		FamilyName: f1UnhexS(f["fam"]), Width: os2.Width(f.Int("wd")), Weight: os2.Weight(f.Int("wt")),
		IsRegular: fl[0] == '1', IsBold: fl[1] == '1', IsItalic: fl[2] == '1', IsOblique: fl[3] == '1',
		IsSerif: fl[4] == '1', IsScript: fl[5] == '1',
		CodePageRange: os2.CodePageRange(cpr), Version: head.Version(f.Int("ver")),
		CreationTime: f1ParseTime(f["ct"]), ModificationTime: f1ParseTime(f["mt"]),
		Description: f1UnhexS(f["dsc"]), SampleText: f1UnhexS(f["smp"]), Copyright: f1UnhexS(f["cpy"]),
		Trademark: f1UnhexS(f["tm"]), License: f1UnhexS(f["lic"]), LicenseURL: f1UnhexS(f["url"]),
		PermUse: os2.Permissions(f.Int("perm")), UnitsPerEm: upem,
		FontMatrix: f1ParseMatrix(f["fm"], upem),
		Ascent:     funit.Int16(f.Int("asc")), Descent: funit.Int16(f.Int("des")), LineGap: funit.Int16(f.Int("gap")),
		CapHeight: funit.Int16(f.Int("cap")), XHeight: funit.Int16(f.Int("xh")),
		ItalicAngle: f1ParseDy(f["ia"]), UnderlinePosition: funit.Float64(f1ParseDy(f["up"])),
		UnderlineThickness: funit.Float64(f1ParseDy(f["ut"])),
		Outlines:           o,
		CMapTable:          f1BuildCmap(f["rcm"], n),
		Gdef:               f1BuildGdef(f["rgdef"], n), Gsub: f1BuildGsub(f["rgsub"], n), Gpos: f1BuildGpos(f["rgpos"], n),
	}
	return font
}

// f1LineOfFont: the case-line arguments for a font built from recipes.
func f1LineOfFont(font *sfnt.Font, rgl uint64, rcm, rgsub, rgpos, rgdef string) string {
	l := f1RenderFont(font)
	// the input italic angle is an arbitrary float, not a 16.16 value
	for i := range l {
		if l[i].k == "ia" {
			l[i].v = f1DyStr(font.ItalicAngle)
		}
	}
	l = append(l, f1Kv{"rgl", fmt.Sprint(rgl)}, f1Kv{"rcm", rcm}, f1Kv{"rgsub", rgsub}, f1Kv{"rgpos", rgpos}, f1Kv{"rgdef", rgdef})
	return f1Join(l)
}

// f1OracleCheck: the opaque tokens on the line must be the ones the recipes produce.
func f1OracleCheck(f Fields, font *sfnt.Font) string {
	for _, e := range f1RenderFont(font) {
		switch e.k {
		case "h", "gl", "eg", "cm", "best", "gh", "gx", "sl", "gdef", "gsub", "gpos":
			if f[e.k] != e.v {
				return "bad-oracle:" + e.k
			}
		}
	}
	return ""
}

func f1ReadErrClass(err error) string {
	msg := err.Error()
	var miss *header.ErrMissing
	switch {
	case strings.Contains(msg, "hmtx and maxp glyph count mismatch"):
		return "err:hmtx-maxp-mismatch"
	case strings.Contains(msg, "cff glyph count mismatch"):
		return "err:cff-count"
	case strings.Contains(msg, "ttf glyph count mismatch"):
		return "err:ttf-count"
	case strings.Contains(msg, "no TrueType/OpenType glyph data found"):
		return "err:no-glyph-data"
	case errors.As(err, &miss):
		return "err:missing-" + miss.TableName
	}
	return "err:other:" + strings.ReplaceAll(msg, " ", "_")
}

func f1WriteFont(font *sfnt.Font) []byte {
	buf := &bytes.Buffer{}
	if _, err := font.Write(buf); err != nil {
		panic("write error: " + err.Error())
	}
	return buf.Bytes()
}

// ---------------------------------------------------------------- table records (font.derive, font.merge)

func f1Semi(parts ...string) string { return strings.Join(parts, ";") }

func f1HeadRec(h *head.Info) string {
	return f1Semi(fmt.Sprint(uint32(h.FontRevision)), fmt.Sprint(h.UnitsPerEm), f1TimeStr(h.Created), f1TimeStr(h.Modified),
		f1B01(h.IsBold), f1B01(h.IsItalic), fmt.Sprint(h.LowestRecPPEM))
}

func f1Os2Rec(o *os2.Info) string {
	return f1Semi(fmt.Sprint(uint16(o.WeightClass)), fmt.Sprint(uint16(o.WidthClass)),
		f1B01(o.IsBold)+f1B01(o.IsItalic)+f1B01(o.IsRegular)+f1B01(o.IsOblique),
		fmt.Sprint(int(o.Ascent)), fmt.Sprint(int(o.Descent)), fmt.Sprint(int(o.LineGap)),
		fmt.Sprint(int(o.CapHeight)), fmt.Sprint(int(o.XHeight)), fmt.Sprint(int(o.AvgGlyphWidth)),
		fmt.Sprint(int(o.FamilyClass)), fmt.Sprint(uint64(o.CodePageRange)), fmt.Sprint(int(o.PermUse)))
}

func f1NameRec(t *name.Table, withID bool) string {
	id := f1HexS(t.Identifier)
	if !withID {
		id = "now"
	}
	return f1Semi(f1HexS(t.Family), f1HexS(t.Subfamily), f1HexS(t.Description), f1HexS(t.Copyright), f1HexS(t.Trademark),
		f1HexS(t.License), f1HexS(t.LicenseURL), id, f1HexS(t.FullName), f1HexS(t.Version),
		f1HexS(t.PostScriptName), f1HexS(t.SampleText))
}

func f1PostRec(p *post.Info) string {
	return f1Semi(f1Fix16Str(p.ItalicAngle), fmt.Sprint(int(p.UnderlinePosition)), fmt.Sprint(int(p.UnderlineThickness)), f1B01(p.IsFixedPitch))
}

// f1CffRec: with floats=false the three float fields (which pass through the decimal "real" codec
// of the CFF DICT, C13) are left out.
func f1CffRec(c *type1.FontInfo, floats bool) string {
	ia, up, ut := "-", "-", "-"
	if floats {
		ia, up, ut = f1DyStr(c.ItalicAngle), f1DyStr(float64(c.UnderlinePosition)), f1DyStr(float64(c.UnderlineThickness))
	}
	return f1Semi(f1HexS(c.FontName), f1HexS(c.FullName), f1HexS(c.FamilyName), f1HexS(c.Weight), f1HexS(c.Version),
		f1HexS(c.Copyright), f1HexS(c.Notice), ia, f1B01(c.IsFixedPitch), up, ut, f1MatrixToken(c.FontMatrix, 0, false))
}

func f1HmtxRec(h *hmtx.Info, withCaret bool) string {
	ws := make([]int, len(h.Widths))
	for i, w := range h.Widths {
		ws[i] = int(w)
	}
	caret := "-"
	if withCaret {
		caret = fmt.Sprint(int64(math.Round(h.CaretAngle * 180 / math.Pi * 65536)))
	}
	return f1Semi(fmt.Sprint(int(h.Ascent)), fmt.Sprint(int(h.Descent)), fmt.Sprint(int(h.LineGap)), caret, f1IntsStr(ws))
}

// f1DecodeTables decodes the tables of a written file with the repository's own decoders.
func f1DecodeTables(data []byte, withID bool) string {
	r := bytes.NewReader(data)
	dir, err := header.Read(r)
	if err != nil {
		return "err:header"
	}
	get := func(tag string) []byte {
		b, err := dir.ReadTableBytes(r, tag)
		if err != nil {
			return nil
		}
		return b
	}
	var out []f1Kv
	sc := "g"
	if dir.ScalerType == header.ScalerTypeCFF {
		sc = "c"
	}
	out = append(out, f1Kv{"sc", sc})
	if b := get("head"); b != nil {
		h, err := head.Read(bytes.NewReader(b))
		if err != nil {
			return "err:head"
		}
		out = append(out, f1Kv{"head", f1HeadRec(h)})
	} else {
		out = append(out, f1Kv{"head", "-"})
	}
	if b := get("hhea"); b != nil {
		h, err := hmtx.Decode(b, get("hmtx"))
		if err != nil {
			return "err:hmtx"
		}
		out = append(out, f1Kv{"hmtx", f1HmtxRec(h, false)})
	} else {
		out = append(out, f1Kv{"hmtx", "-"})
	}
	if b := get("maxp"); b != nil {
		m, err := maxp.Read(bytes.NewReader(b))
		if err != nil {
			return "err:maxp"
		}
		out = append(out, f1Kv{"maxp", fmt.Sprint(m.NumGlyphs)})
	} else {
		out = append(out, f1Kv{"maxp", "-"})
	}
	if b := get("OS/2"); b != nil {
		o, err := os2.Read(bytes.NewReader(b))
		if err != nil {
			return "err:os2"
		}
		out = append(out, f1Kv{"os2", f1Os2Rec(o)})
	} else {
		out = append(out, f1Kv{"os2", "-"})
	}
	if b := get("name"); b != nil {
		ni, err := name.Decode(b)
		if err != nil {
			return "err:name"
		}
		t := ni.Windows["en-US"]
		if t == nil {
			return "err:name-en-US"
		}
		out = append(out, f1Kv{"name", f1NameRec(t, withID)})
	} else {
		out = append(out, f1Kv{"name", "-"})
	}
	if b := get("post"); b != nil {
		p, err := post.Read(bytes.NewReader(b))
		if err != nil {
			return "err:post"
		}
		out = append(out, f1Kv{"post", f1PostRec(p)})
	} else {
		out = append(out, f1Kv{"post", "-"})
	}
	if b := get("CFF "); b != nil {
		c, err := cff.Read(bytes.NewReader(b))
		if err != nil {
			return "err:cff"
		}
		out = append(out, f1Kv{"cff", f1CffRec(c.FontInfo, false)})
	} else {
		out = append(out, f1Kv{"cff", "-"})
	}
	return f1Join(out)
}

// tableSpec: the pre-encode records of a foreign table set, as they appear on a font.merge line.
// Every record is "-" (table absent) or its ";"-separated fields.  os2v selects how the OS/2
// table is cut down after encoding (4 = as encoded, 3/1/0 = version field patched and the table
// truncated to that version's length, 0s = version 0 without the Microsoft part).
func f1AssembleFile(f Fields) ([]byte, error) {
	n := f.Int("n")
	kind := f["kind"][0]
	seed, _ := strconv.ParseUint(f["rgl"], 10, 64)
	o := f1BuildOutlines(kind, n, seed)
	tabs := map[string][]byte{}
	scaler := uint32(header.ScalerTypeTrueType)
	upem := uint16(1000)
	var locaFormat int16
	switch o := o.(type) {
	case *glyf.Outlines:
		enc := o.Glyphs.Encode()
		tabs["glyf"], tabs["loca"] = enc.GlyfData, enc.LocaData
		locaFormat = enc.LocaFormat
		for k, v := range o.Tables {
			tabs[k] = v
		}
	case *cff.Outlines:
		scaler = header.ScalerTypeCFF
		var ws []float64
		for _, s := range f.List("w", ",") {
			ws = append(ws, f1ParseDy(s))
		}
		f1SetWidths(o, ws, false)
	}
	if v := f["head"]; v != "-" {
		p := strings.Split(v, ";")
		rev, _ := strconv.ParseUint(p[0], 10, 32)
		u, _ := strconv.Atoi(p[1])
		ppem, _ := strconv.Atoi(p[6])
		upem = uint16(u)
		h := &head.Info{FontRevision: head.Version(rev), UnitsPerEm: uint16(u), Created: f1ParseTime(p[2]), Modified: f1ParseTime(p[3]),
			IsBold: p[4] == "1", IsItalic: p[5] == "1", LowestRecPPEM: uint16(ppem), LocaFormat: locaFormat,
			HasYBaseAt0: true, HasXBaseAt0: true}
		tabs["head"] = h.Encode()
	}
	if v := f["hmtx"]; v != "-" {
		p := strings.Split(v, ";")
		a, _ := strconv.Atoi(p[0])
		d, _ := strconv.Atoi(p[1])
		g, _ := strconv.Atoi(p[2])
		h := &hmtx.Info{Ascent: funit.Int16(a), Descent: funit.Int16(d), LineGap: funit.Int16(g), CaretAngle: f1ParseDy(f["caret"])}
		if p[4] != "" {
			for _, s := range strings.Split(p[4], ",") {
				w, _ := strconv.Atoi(s)
				h.Widths = append(h.Widths, funit.Int16(w))
			}
		}
		h.LSB = make([]funit.Int16, len(h.Widths))
		tabs["hhea"], tabs["hmtx"] = h.Encode()
	}
	if v := f["maxp"]; v != "-" {
		m, _ := strconv.Atoi(v)
		mi := &maxp.Info{NumGlyphs: max(m, 1)}
		if g, ok := o.(*glyf.Outlines); ok {
			mi.TTF = g.Maxp
		}
		b := mi.Encode()
		b[4], b[5] = byte(m>>8), byte(m) // numGlyphs (Encode refuses 0)
		tabs["maxp"] = b
	}
	if v := f["os2"]; v != "-" {
		p := strings.Split(v, ";")
		iv := func(i int) int { x, _ := strconv.Atoi(p[i]); return x }
		cpr, _ := strconv.ParseUint(p[10], 10, 64)
		oi := &os2.Info{WeightClass: os2.Weight(iv(0)), WidthClass: os2.Width(iv(1)),
			IsBold: p[2][0] == '1', IsItalic: p[2][1] == '1', IsRegular: p[2][2] == '1', IsOblique: p[2][3] == '1',
			Ascent: funit.Int16(iv(3)), Descent: funit.Int16(iv(4)), LineGap: funit.Int16(iv(5)),
			CapHeight: funit.Int16(iv(6)), XHeight: funit.Int16(iv(7)), AvgGlyphWidth: funit.Int16(iv(8)),
			FamilyClass: int16(iv(9)), CodePageRange: os2.CodePageRange(cpr), PermUse: os2.Permissions(iv(11))}
		b := oi.Encode()
		switch f["os2v"] {
		case "3":
			b[1] = 3
		case "1":
			b[1] = 1
			b = b[:86]
		case "0":
			b[1] = 0
			b = b[:78]
		case "0s":
			b[1] = 0
			b = b[:68]
		}
		tabs["OS/2"] = b
	}
	if v := f["name"]; v != "-" {
		p := strings.Split(v, ";")
		t := &name.Table{Family: f1UnhexS(p[0]), Subfamily: f1UnhexS(p[1]), Description: f1UnhexS(p[2]), Copyright: f1UnhexS(p[3]),
			Trademark: f1UnhexS(p[4]), License: f1UnhexS(p[5]), LicenseURL: f1UnhexS(p[6]), Identifier: f1UnhexS(p[7]),
			FullName: f1UnhexS(p[8]), Version: f1UnhexS(p[9]), PostScriptName: f1UnhexS(p[10]), SampleText: f1UnhexS(p[11])}
		ni := &name.Info{}
		switch f["nameplat"] {
		case "m":
			ni.Mac = name.Tables{"en": t}
		case "wm":
			ni.Mac = name.Tables{"en": t}
			ni.Windows = name.Tables{"en-US": t}
		default:
			ni.Windows = name.Tables{"en-US": t}
		}
		tabs["name"] = ni.Encode(1)
	}
	if v := f["post"]; v != "-" {
		p := strings.Split(v, ";")
		up, _ := strconv.Atoi(p[1])
		ut, _ := strconv.Atoi(p[2])
		pi := &post.Info{ItalicAngle: f1ParseDy(p[0]), UnderlinePosition: funit.Int16(up), UnderlineThickness: funit.Int16(ut), IsFixedPitch: p[3] == "1"}
		if g, ok := o.(*glyf.Outlines); ok {
			pi.Names = g.Names
		}
		tabs["post"] = pi.Encode()
	}
	if co, ok := o.(*cff.Outlines); ok && f["cff"] != "-" {
		p := strings.Split(f["cff"], ";")
		fi := &type1.FontInfo{FontName: f1UnhexS(p[0]), FullName: f1UnhexS(p[1]), FamilyName: f1UnhexS(p[2]), Weight: f1UnhexS(p[3]),
			Version: f1UnhexS(p[4]), Copyright: f1UnhexS(p[5]), Notice: f1UnhexS(p[6]), ItalicAngle: f1ParseDy(p[7]),
			IsFixedPitch: p[8] == "1", UnderlinePosition: funit.Float64(f1ParseDy(p[9])), UnderlineThickness: funit.Float64(f1ParseDy(p[10])),
			FontMatrix: f1ParseMatrix(p[11], upem)}
		_ = upem
		buf := &bytes.Buffer{}
		if err := (&cff.Font{FontInfo: fi, Outlines: co}).Write(buf); err != nil {
			return nil, err
		}
		tabs["CFF "] = buf.Bytes()
	}
	if t := f1BuildCmap(f["rcm"], n); t != nil {
		tabs["cmap"] = t.Encode()
	}
	if t := f1BuildGdef(f["rgdef"], n); t != nil {
		tabs["GDEF"] = t.Encode()
	}
	if t := f1BuildGsub(f["rgsub"], n); t != nil {
		tabs["GSUB"] = t.Encode()
	}
	if t := f1BuildGpos(f["rgpos"], n); t != nil {
		tabs["GPOS"] = t.Encode()
	}
	if f["rkern"] == "1" {
		tabs["kern"] = f1KernBytes()
	}
	buf := &bytes.Buffer{}
	if _, err := header.Write(buf, scaler, tabs); err != nil {
		return nil, err
	}
	return buf.Bytes(), nil
}

// ---------------------------------------------------------------- f1Generations

func f1DiffFields(a, b []f1Kv) []string {
	var out []string
	for i := range a {
		if i >= len(b) || a[i] != b[i] {
			out = append(out, a[i].k)
		}
	}
	return out
}

// f1Generations runs Read→Write→Read→Write→Read from a first-generation file.
func f1Generations(file0 []byte, withBytes bool) string {
	g1, err := sfnt.Read(bytes.NewReader(file0))
	if err != nil {
		return f1ReadErrClass(err)
	}
	b2 := f1WriteFont(g1)
	g2, err := sfnt.Read(bytes.NewReader(b2))
	if err != nil {
		return "differ:reread-" + f1ReadErrClass(err)
	}
	d := f1DiffFields(f1RenderFont(g1), f1RenderFont(g2))
	if withBytes {
		b2again := f1WriteFont(g1)
		if !bytes.Equal(b2, b2again) {
			d = append(d, "write-twice")
		}
		b3 := f1WriteFont(g2)
		if !bytes.Equal(b2, b3) {
			d = append(d, "bytes23")
		}
	}
	if len(d) == 0 {
		return "same"
	}
	return "differ:" + strings.Join(d, ",")
}

func f1File0Of(f Fields) ([]byte, string) {
	if _, ok := f["sc"]; ok {
		data, err := f1AssembleFile(f)
		if err != nil {
			return nil, "err:assemble"
		}
		return data, ""
	}
	font := f1FontFromFields(f)
	if bad := f1OracleCheck(f, font); bad != "" {
		return nil, bad
	}
	return f1WriteFont(font), ""
}

// f1StableClass names the reason why a first-generation font is outside the hypothesis of
// C01_fixed_point_partial ("" = inside).  Evaluated on the real gen-1 font.
func f1StableClass(g1 *sfnt.Font, hasPost, fromKern bool) string {
	sub := g1.Subfamily()
	if !g1.IsBold && strings.Contains(sub, "Bold") && !strings.Contains(sub, "Semi Bold") && !strings.Contains(sub, "Extra Bold") {
		return "bold-word"
	}
	if v, err := head.VersionFromString("Version " + g1.Version.String()); err != nil || v != g1.Version {
		return "version-decimals"
	}
	if !hasPost { // the CFF underline metrics are rounded on read (0dc7ef1); the int16 range remains
		up, ut := float64(g1.UnderlinePosition), float64(g1.UnderlineThickness)
		if math.Abs(up) > 32767 || math.Abs(ut) > 32767 {
			return "underline-range"
		}
	}
	// a TrueType font without hmtx has all-zero widths since feedc74
	if o, ok := g1.Outlines.(*cff.Outlines); ok {
		for _, g := range o.Glyphs {
			if g.Width != math.Trunc(g.Width) || math.Abs(g.Width) > 32767 {
				return "cff-width-fraction"
			}
		}
	}
	_ = fromKern // the kern-derived GPOS table is a fixed point since the DFLT script tag repair
	return ""
}

// ---------------------------------------------------------------- generators

var f1FamPool = []string{"Emoji \U0001F600 Bold", "\U00010000\uFFFF", "Test", "Go Bold", "Lightning", "Semi Bold Sans", "Thin Mono", "", "Ünïcödé ©", "Black Extra Bold", "A-b_c (d)/[e]", "Normal Medium"}
// strings outside the Basic Multilingual Plane (surrogate pairs in the Windows name records), at
// the BMP boundaries, and BMP characters Mac Roman cannot carry
var f1SpecialText = []string{"\U00010000", "\U00010001\U0001F600", "a\U0001F600b", "\U0010FFFF", "\uFFFF", "\uD7FF\uE000",
	"x\uFFFFy\U00010000z", "\u1F00\u03B2\u2318 \u0416", "\U0001F600", "Emoji \U0001F600 Sans \U00010000"}

// f1GenText draws one naming/licensing string; every field of a font draws independently.
func f1GenText(c *Ctx) string {
	r := c.Rng
	switch r.Intn(12) {
	case 0, 1, 2:
		c.Stat("strings", "astral / BMP boundary / non-MacRoman")
		return Pick(r, f1SpecialText)
	case 3:
		c.Stat("strings", "empty")
		return ""
	case 4:
		unit := Pick(r, []string{"ab", "\u00e9", "\u65e5", "\U0001F600", "a\U00010000"})
		k := r.Range(100, 300)
		if c.Tier == "thorough" && r.Chance(1, 12) {
			k = 12000 / len([]rune(unit)) // near the 64 KiB string storage of the name table, one field only
			c.Stat("strings", "very long (12000 code points)")
		} else {
			c.Stat("strings", "long (100..600 code points)")
		}
		return strings.Repeat(unit, k)
	}
	c.Stat("strings", "pool")
	return Pick(r, f1TextPool)
}

var f1TextPool = []string{"", "x", "Copyright © 2024 someone", "Hello, World!", "https://example.com/license", "Привет", "line\nbreak", "日本語 text", "a;b=c d"}
var f1WeightPool = []int{0, 1, 100, 200, 300, 400, 500, 600, 700, 800, 900, 649, 650, 749, 750, 1000, 349, 350, 449, 450, 99, 101, 901, 65535}
var f1MatrixPool = [][6]float64{{0.001, 0, 0, 0.001, 0, 0}, {0.001, 0, 0, 0.001, 0, 0}, {1.0 / 2048, 0, 0, 1.0 / 2048, 0, 0}, {0.0005, 0, 0, 0.0005, 0, 0}, {0.001, 0, 0.000167, 0.001, 0, 0}, {0.002, 0, 0, 0.002, 0, 0}}

func f1GenAngle(r *Rng) float64 {
	switch r.Intn(8) {
	case 0, 1:
		return 0
	case 2:
		return float64(r.Range(-30, 30))
	case 3: // k/65536
		return float64(r.Range(-2000000, 2000000)) / 65536
	case 4: // exact ties of the 16.16 rounding
		return (float64(r.Range(-100000, 100000)) + 0.5) / 65536
	case 5: // tiny non-zero angles that round to 0
		return math.Ldexp(float64(r.Range(-7, 7)), -r.Range(17, 40))
	case 6:
		return float64(r.Range(-179, 179)) + float64(r.Range(0, 999))/1000
	}
	return -12.5
}

func f1GenTime(r *Rng) time.Time {
	switch r.Intn(6) {
	case 0:
		return time.Time{}
	case 1:
		return time.Unix(-2082844800, 0).UTC() // the 1904 epoch itself
	case 2:
		return time.Unix(int64(r.Range(0, 2000000000)), int64(r.Range(0, 999999999))).UTC()
	case 3:
		return time.Unix(-int64(r.Range(0, 2082844800)), 0).UTC()
	}
	return time.Unix(int64(r.Range(1000000000, 1800000000)), 0).UTC()
}

func f1GenI16(r *Rng) int {
	switch r.Intn(6) {
	case 0:
		return 0
	case 1:
		return Pick(r, []int{-32768, 32767, -1, 1})
	}
	return r.Range(-1200, 1200)
}

type f1FontRecipe struct {
	font                           *sfnt.Font
	rgl                            uint64
	rcm, rgsub, rgpos, rgdef       string
}

func f1GenFont(c *Ctx) f1FontRecipe {
	r := c.Rng
	kind := Pick(r, []byte{'g', 'g', 'c', 'c', 'k'})
	n := Pick(r, []int{1, 2, 3, 5, 8, 20, 60})
	if c.Tier == "thorough" && r.Chance(1, 40) {
		n = Pick(r, []int{300, 2000})
	}
	rgl := uint64(r.Intn(1000))
	o := f1BuildOutlines(kind, n, rgl)
	// widths
	ws := make([]float64, n)
	mode := r.Intn(5)
	for i := range ws {
		switch mode {
		case 0: // monospaced
			ws[i] = 600
		case 1: // nearly monospaced (within 0.5)
			ws[i] = 600 + float64(r.Intn(2))*0.25
		case 2:
			ws[i] = float64(r.Range(0, 1200))
		case 3: // fractional and negative
			ws[i] = float64(r.Range(-400, 4000)) / 4
		default:
			ws[i] = float64(Pick(r, []int{0, 0, 500, 1000, 32767, 250}))
		}
	}
	if kind == 'g' {
		for i := range ws {
			ws[i] = math.Trunc(ws[i])
		}
	}
	f1SetWidths(o, ws, false)
	c.Stat("kind", string(kind))
	c.Stat("glyphs", bucket(n))
	c.Stat("widths", []string{"mono", "near-mono", "random", "fraction/negative", "sparse"}[mode])

	rcm := "-"
	if n > 1 && !r.Chance(1, 6) {
		pickGid := func() int {
			if r.Chance(1, 3) {
				return 0
			}
			return r.Range(1, n-1)
		}
		g := []int{pickGid(), pickGid(), 0, 0, 0, 0, 0, 0, 0, 0}
		switch {
		case n > 4 && r.Chance(1, 2): // every standard ligature can be synthesised
			for i := 2; i < 10; i++ {
				g[i] = r.Range(1, n-1)
			}
			c.Stat("cmap ligatures", "f i l + FB00..FB04")
		case n > 4 && r.Chance(1, 2): // some of them
			g[2], g[3], g[4] = r.Range(1, n-1), r.Range(1, n-1), r.Range(1, n-1)
			if r.Bool() {
				g[5], g[7] = r.Range(1, n-1), r.Range(1, n-1)
			}
			c.Stat("cmap ligatures", "f i (l) + fi (fl)")
		case n > 2 && r.Chance(1, 2): // letters but no ligature code point, or the reverse
			if r.Bool() {
				g[2], g[3], g[5] = 1, 2, 1
			} else {
				g[4], g[6] = 1, 2
			}
			c.Stat("cmap ligatures", "letters or ligatures only")
		default:
			c.Stat("cmap ligatures", "none")
		}
		p := make([]string, len(g))
		for i, x := range g {
			p[i] = strconv.Itoa(x)
		}
		rcm = strings.Join(p, ".")
		switch r.Intn(6) {
		case 0:
			rcm += "/m2"
		case 1:
			rcm += "/m3/u"
		case 2:
			rcm += "/u"
		}
		c.Stat("cmap subtables", strings.TrimLeft(rcm[strings.IndexAny(rcm+"/", "/"):], "/")+" ")
	}
	opt := func() string {
		switch r.Intn(9) {
		case 8:
			return "2"
		case 0, 1:
			return "1"
		case 2, 3:
			return "e0"
		case 4:
			return Pick(r, []string{"e0n", "e1", "e2", "e3"})
		}
		return "-"
	}
	rgsub, rgpos, rgdef := opt(), opt(), Pick(r, []string{"-", "-", "1", "e0", "2"})
	c.Stat("GSUB recipe", rgsub)
	c.Stat("GPOS recipe", rgpos)
	c.Stat("GDEF recipe", rgdef)
	upem := uint16(Pick(r, []int{1000, 1000, 2048, 1024, 16, 16384, 65535}))
	var fm matrix.Matrix
	if kind == 'g' {
		q := 1 / float64(upem)
		fm = matrix.Matrix{q, 0, 0, q, 0, 0}
	} else {
		fm = matrix.Matrix(Pick(r, f1MatrixPool))
		if kind == 'k' && r.Bool() { // scale in the per-FD matrices only
			fm = matrix.Identity
		}
		if r.Bool() {
			upem = 1000
		}
	}
	weight := Pick(r, f1WeightPool)
	if r.Chance(1, 6) {
		weight = Pick(r, []int{650, 700, 749})
	}
	if r.Chance(1, 8) {
		weight = r.Range(0, 1100)
	}
	width := Pick(r, []int{0, 5, 5, 1, 2, 3, 4, 6, 7, 8, 9, 10, 77})
	ver := uint32(0)
	switch r.Intn(6) {
	case 0:
		ver = 0
	case 1:
		ver = uint32(r.Range(0, 20)) << 16
	case 2: // exact thousandths
		ver = uint32(math.Round(float64(r.Range(0, 99999)) / 1000 * 65536))
	case 3: // ties of the three-decimal rounding (odd multiples of 4096 are half-way cases)
		ver = uint32(4096 * (2*r.Range(0, 4000) + 1))
	case 4:
		ver = uint32(r.U64())
		if ver >= 0xFFFF8000 {
			ver = 0xFFFF0000
		}
	default:
		ver = uint32(r.Range(0, 1<<22))
	}
	ct, mt := f1GenTime(r), f1GenTime(r)
	if ct.IsZero() && mt.IsZero() {
		c.Stat("timestamps", "none (today's date branch)")
	} else {
		c.Stat("timestamps", "set")
	}
	ul := func() float64 {
		switch r.Intn(4) {
		case 0:
			return float64(r.Range(-300, 300))
		case 1:
			return float64(r.Range(-300, 300)) + 0.5
		case 2:
			return float64(r.Range(-30000, 30000)) / 64
		}
		return -75
	}
	font := &sfnt.Font{
		FamilyName: Pick(r, f1FamPool), Width: os2.Width(width), Weight: os2.Weight(weight),
		IsRegular: r.Chance(1, 3), IsBold: r.Chance(1, 3), IsItalic: r.Chance(1, 3), IsOblique: r.Chance(1, 5),
		IsSerif: r.Chance(1, 3), IsScript: r.Chance(1, 4),
		CodePageRange: os2.CodePageRange(r.U64() & Pick(r, []uint64{0, 1, 0x8000000000000003, ^uint64(0)})),
		Version:       head.Version(ver), CreationTime: ct, ModificationTime: mt,
		Description: f1GenText(c), SampleText: f1GenText(c), Copyright: f1GenText(c),
		Trademark: f1GenText(c), License: f1GenText(c), LicenseURL: f1GenText(c),
		PermUse: os2.Permissions(Pick(r, []int{0, 1, 2, 3, 0, 4, -1})), UnitsPerEm: upem, FontMatrix: fm,
		Ascent: funit.Int16(f1GenI16(r)), Descent: funit.Int16(f1GenI16(r)), LineGap: funit.Int16(f1GenI16(r)),
		CapHeight: funit.Int16(f1GenI16(r)), XHeight: funit.Int16(f1GenI16(r)),
		ItalicAngle: f1GenAngle(r), UnderlinePosition: funit.Float64(ul()), UnderlineThickness: funit.Float64(ul()),
		Outlines:  o,
		CMapTable: f1BuildCmap(rcm, n),
		Gdef:      f1BuildGdef(rgdef, n), Gsub: f1BuildGsub(rgsub, n), Gpos: f1BuildGpos(rgpos, n),
	}
	if r.Chance(1, 5) { // equal strings in several fields: shared string storage in the name table
		t := f1GenText(c)
		if len(t) > 2000 {
			t = t[:0]
		}
		font.Description, font.Copyright, font.Trademark, font.License = t, t, t, t
		if r.Bool() && t != "" {
			font.FamilyName, font.SampleText = t, t
		}
		c.Stat("strings", "same string in 4-6 fields")
	}
	long := 0
	for _, p := range []*string{&font.Description, &font.SampleText, &font.Copyright, &font.Trademark, &font.License, &font.LicenseURL} {
		if len(*p) > 5000 {
			if long++; long > 1 {
				*p = "x" // the name table has 64 KiB of string storage
			}
		}
	}
	c.Stat("weight", fmt.Sprint(weight/50*50))
	c.Stat("flags regular/bold", f1B01(font.IsRegular)+f1B01(font.IsBold))
	c.Stat("family has weight word", f1B01(strings.Contains(font.FamilyName, "Bold") || strings.Contains(font.FamilyName, "Light") || strings.Contains(font.FamilyName, "Thin")))
	return f1FontRecipe{font, rgl, rcm, rgsub, rgpos, rgdef}
}

// f1GenTables draws a foreign table set as font.merge arguments.
func f1GenTables(c *Ctx) string {
	r := c.Rng
	rec := f1GenFont(c)
	f := rec.font
	n := f.NumGlyphs()
	// foreign table sets carry decoder-stable layout tables only
	if !f1CodecStable(rec.rgsub) {
		rec.rgsub, f.Gsub = "e0", f1BuildGsub("e0", n)
	}
	if !f1CodecStable(rec.rgpos) {
		rec.rgpos, f.Gpos = "e0", f1BuildGpos("e0", n)
	}
	kind := "g"
	if o, ok := f.Outlines.(*cff.Outlines); ok {
		kind = "c"
		if o.IsCIDKeyed() {
			kind = "k"
		}
	}
	absent := ""
	drop := func(tag string, p, q int) bool {
		if r.Chance(p, q) {
			absent += tag + " "
			return true
		}
		return false
	}
	var out []f1Kv
	sc := "g"
	if kind != "g" {
		sc = "c"
	}
	out = append(out, f1Kv{"sc", sc})
	// head
	if drop("head", 1, 8) {
		out = append(out, f1Kv{"head", "-"})
	} else {
		h := &head.Info{FontRevision: f.Version, UnitsPerEm: f.UnitsPerEm, Created: f.CreationTime, Modified: f.ModificationTime,
			IsBold: r.Chance(1, 3), IsItalic: r.Chance(1, 3), LowestRecPPEM: uint16(r.Range(0, 20))}
		out = append(out, f1Kv{"head", f1HeadRec(h)})
	}
	// hmtx
	caret := 0.0
	if drop("hhea", 1, 8) {
		out = append(out, f1Kv{"hmtx", "-"})
	} else {
		h := &hmtx.Info{Ascent: funit.Int16(f1GenI16(r)), Descent: funit.Int16(f1GenI16(r)), LineGap: funit.Int16(f1GenI16(r))}
		m := n
		switch r.Intn(10) {
		case 0:
			m = 0
		case 1:
			m = n + r.Range(1, 3)
		case 2:
			if n > 1 {
				m = n - 1
			}
		}
		for i := 0; i < m; i++ {
			h.Widths = append(h.Widths, funit.Int16(Pick(r, []int{600, 600, 600, 0, 500, 250, -20, 32767})))
		}
		if r.Chance(1, 3) {
			caret = float64(r.Range(-30, 30)) / 180 * math.Pi
		}
		h.CaretAngle = caret
		out = append(out, f1Kv{"hmtx", f1HmtxRec(h, false)})
	}
	out = append(out, f1Kv{"caret", f1DyStr(caret)})
	// maxp
	if drop("maxp", 1, 8) {
		out = append(out, f1Kv{"maxp", "-"})
	} else {
		m := n
		if r.Chance(1, 10) {
			m = n + 1
		}
		out = append(out, f1Kv{"maxp", fmt.Sprint(m)})
	}
	// OS/2
	os2v := "4"
	if drop("OS/2", 1, 6) {
		out = append(out, f1Kv{"os2", "-"})
	} else {
		o := &os2.Info{WeightClass: f.Weight, WidthClass: f.Width, IsBold: r.Chance(1, 3), IsItalic: r.Chance(1, 3),
			IsRegular: r.Chance(1, 3), IsOblique: r.Chance(1, 4),
			Ascent: f.Ascent, Descent: f.Descent, LineGap: f.LineGap, CapHeight: f.CapHeight, XHeight: f.XHeight,
			AvgGlyphWidth: funit.Int16(r.Range(0, 1000)),
			FamilyClass:   int16(Pick(r, []int{0, 1 << 8, 2<<8 + 3, 3 << 8, 4 << 8, 5 << 8, 6 << 8, 7 << 8, 8 << 8, 10 << 8, 10<<8 + 255, -256, 12 << 8})),
			CodePageRange: f.CodePageRange, PermUse: os2.Permissions(r.Intn(4))}
		out = append(out, f1Kv{"os2", f1Os2Rec(o)})
		os2v = Pick(r, []string{"4", "4", "4", "3", "1", "0", "0s"})
	}
	out = append(out, f1Kv{"os2v", os2v})
	c.Stat("OS/2 version", os2v)
	// name
	nameplat := Pick(r, []string{"w", "w", "wm", "m"})
	if drop("name", 1, 6) {
		out = append(out, f1Kv{"name", "-"})
	} else {
		sub := Pick(r, []string{"Regular", "Regular", "Bold", "Italic", "Bold Italic", "Semi Bold", "Extra Bold Italic", "Semi Bold Bold", "Oblique", "", "Light", "bold", "BoldItalic", f.Subfamily()})
		ver := Pick(r, []string{"Version 1.000", "Version 1.23456", "1.5", "7", "12", "12.", "Version 001.2 beta", "", "v1.0", "Version 65535.999", "0.0625", "3.14159", "Version " + f.Version.String()})
		fam := f.FamilyName
		if nameplat == "m" {
			fam = "Mac " + Pick(r, []string{"Test", "Bold", ""})
		}
		t := &name.Table{Family: fam, Subfamily: sub, Description: f.Description, Copyright: f.Copyright, Trademark: f.Trademark,
			License: f.License, LicenseURL: f.LicenseURL, Identifier: "id", FullName: "full", Version: ver,
			PostScriptName: "ps", SampleText: f.SampleText}
		if nameplat == "m" { // Mac Roman cannot carry these
			t.Description, t.Copyright, t.Trademark, t.License, t.LicenseURL, t.SampleText = "d", "c", "t", "l", "u", "s"
		}
		out = append(out, f1Kv{"name", f1NameRec(t, true)})
		c.Stat("name subfamily", sub)
		c.Stat("name version", ver)
	}
	out = append(out, f1Kv{"nameplat", nameplat})
	// post
	if drop("post", 1, 5) {
		out = append(out, f1Kv{"post", "-"})
		if g, ok := f.Outlines.(*glyf.Outlines); ok {
			g.Names = nil // glyph names live in the post table
		}
	} else {
		p := &post.Info{ItalicAngle: math.Round(f1GenAngle(r)*65536) / 65536, UnderlinePosition: funit.Int16(f1GenI16(r)), UnderlineThickness: funit.Int16(f1GenI16(r)), IsFixedPitch: r.Bool()}
		out = append(out, f1Kv{"post", f1PostRec(p)})
	}
	// CFF
	if kind == "g" {
		out = append(out, f1Kv{"cff", "-"})
	} else if drop("CFF", 1, 30) {
		out = append(out, f1Kv{"cff", "-"})
	} else {
		fi := f.GetFontInfo()
		fi.Weight = Pick(r, []string{"Bold", "Regular", "Normal", "Thin", "Extra Light", "Semi Bold", "", "450", "+5", "-3", "1001", "1000", "12a", "Black", fi.Weight})
		fi.Version = Pick(r, []string{"", "1.000", "001.007", "2", "Version 3.25", "x", fi.Version})
		fi.FamilyName = Pick(r, []string{"", "CFF Family", fi.FamilyName})
		fi.ItalicAngle = math.Round(f1GenAngle(r)*1000) / 1000
		if fi.ItalicAngle <= -180 || fi.ItalicAngle > 180 {
			fi.ItalicAngle = 0
		}
		if fi.FontName == "" {
			fi.FontName = "F"
		}
		if r.Chance(1, 3) {
			fi.UnderlinePosition, fi.UnderlineThickness = -75.5, 50.25
		}
		// the record on the line is what the CFF codec makes of it (decimal reals, defaults)
		buf := &bytes.Buffer{}
		if err := (&cff.Font{FontInfo: fi, Outlines: f.Outlines.(*cff.Outlines)}).Write(buf); err == nil {
			if c2, err := cff.Read(bytes.NewReader(buf.Bytes())); err == nil {
				fi = c2.FontInfo
			}
		}
		out = append(out, f1Kv{"cff", f1CffRec(fi, true)})
	}
	c.Stat("absent", strings.TrimSpace(absent))
	rkern := "-"
	if r.Chance(1, 6) && n >= 3 {
		rkern = "1"
	}
	// outline summary + oracles are filled in from a probe read below
	out = append(out, f1Kv{"kind", kind}, f1Kv{"n", fmt.Sprint(n)}, f1Kv{"w", f1WidthsStr(f)}, f1Kv{"h", f1IntsStr(f1HeightsOf(f))},
		f1Kv{"gl", f1OutlineToken(f.Outlines)}, f1Kv{"eg", f1B01(f1EmptyGlyf(f.Outlines))}, f1Kv{"cm", f1CmapToken(f.CMapTable)})
	best, gh, gx, sl := "0", 0, 0, "-"
	if sub, _ := f.CMapTable.GetBest(); sub != nil {
		best = "1"
		gh, gx = int(sub.Lookup('H')), int(sub.Lookup('x'))
		sl = f1GtabToken(sfnt.VerifC01StandardLigatures(sub))
	}
	if kind == "g" {
		out[len(out)-5].v = "nil" // the glyf table stores no widths
	}
	out = append(out, f1Kv{"best", best}, f1Kv{"gh", fmt.Sprint(gh)}, f1Kv{"gx", fmt.Sprint(gx)}, f1Kv{"sl", sl},
		f1Kv{"gdef", f1GdefToken(f.Gdef)}, f1Kv{"gsub", f1GtabToken(f.Gsub)}, f1Kv{"gpos", f1GtabToken(f.Gpos)},
		f1Kv{"kern", "-"}, f1Kv{"caret16", "0"},
		f1Kv{"rgl", fmt.Sprint(rec.rgl)}, f1Kv{"rcm", rec.rcm}, f1Kv{"rgsub", rec.rgsub}, f1Kv{"rgpos", rec.rgpos}, f1Kv{"rgdef", rec.rgdef}, f1Kv{"rkern", rkern})
	// oracles that come out of float trigonometry / opaque constructors: probe the real reader
	args := f1Join(out)
	fl := parseFields(args)
	if data, err := f1AssembleFile(fl); err == nil {
		args = strings.Replace(args, "caret16=0", "caret16="+f1Caret16Of(data), 1)
		if rkern == "1" {
			args = strings.Replace(args, "kern=-", "kern="+f1KernTokenOf(data), 1)
		}
	}
	return args
}

// f1CffOracle: the CFF record of the line must be a fixed point of the CFF codec.
func f1CffOracle(f Fields, data []byte) string {
	if f["cff"] == "-" || f["sc"] != "c" {
		return ""
	}
	r := bytes.NewReader(data)
	dir, err := header.Read(r)
	if err != nil {
		return ""
	}
	b, err := dir.ReadTableBytes(r, "CFF ")
	if err != nil {
		return ""
	}
	c, err := cff.Read(bytes.NewReader(b))
	if err != nil {
		return "bad-oracle:cff-unreadable"
	}
	if f1CffRec(c.FontInfo, true) != f["cff"] {
		return "bad-oracle:cff"
	}
	return ""
}

func f1Caret16Of(data []byte) string {
	r := bytes.NewReader(data)
	dir, err := header.Read(r)
	if err != nil {
		return "0"
	}
	hh, err := dir.ReadTableBytes(r, "hhea")
	if err != nil {
		return "0"
	}
	hm, _ := dir.ReadTableBytes(r, "hmtx")
	h, err := hmtx.Decode(hh, hm)
	if err != nil {
		return "0"
	}
	return fmt.Sprint(int64(math.Round(h.CaretAngle * 180 / math.Pi * 65536)))
}

// f1KernTokenOf: token of the GPOS table Read synthesises from the kern table (opaque constructor):
// the file is re-assembled with only the glyph data and the kern table around it.
func f1KernTokenOf(data []byte) string {
	r := bytes.NewReader(data)
	dir, err := header.Read(r)
	if err != nil {
		return "-"
	}
	tabs := map[string][]byte{}
	for _, tag := range []string{"head", "maxp", "glyf", "loca", "CFF ", "kern"} {
		if b, err := dir.ReadTableBytes(r, tag); err == nil {
			tabs[tag] = b
		}
	}
	buf := &bytes.Buffer{}
	if _, err := header.Write(buf, dir.ScalerType, tabs); err != nil {
		return "-"
	}
	f, err := sfnt.Read(bytes.NewReader(buf.Bytes()))
	if err != nil || f.Gpos == nil {
		return "-"
	}
	return f1GtabToken(f.Gpos)
}

// base font of the font.twice cases
const f1TwiceBase = "fam=54657374 wd=5 wt=400 fl=100000 cpr=1 ver=65536 ct=1700000000:0 mt=-62135596800:0 dsc= smp= cpy= tm= lic= url= perm=0 upem=1000 fm=U/1000 asc=800 des=-200 gap=0 cap=700 xh=500 ia=0:0 up=-75:0 ut=50:0 kind=g n=8 w=500:0,500:0,500:0,500:0,600:0,500:0,500:0,500:0 rgl=4 rcm=1.2.0.0.0 rgsub=- rgpos=- rgdef=-"

func init() {
	ops["font.meta"] = func(f Fields) string {
		font := f1FontFromFields(f)
		if bad := f1OracleCheck(f, font); bad != "" {
			return bad
		}
		g1, err := sfnt.Read(bytes.NewReader(f1WriteFont(font)))
		if err != nil {
			return f1ReadErrClass(err)
		}
		return f1Join(f1RenderFont(g1))
	}
	ops["font.derive"] = func(f Fields) string {
		font := f1FontFromFields(f)
		return f1DecodeTables(f1WriteFont(font), !(font.CreationTime.IsZero() && font.ModificationTime.IsZero()))
	}
	ops["font.merge"] = func(f Fields) string {
		data, err := f1AssembleFile(f)
		if err != nil {
			return "err:assemble"
		}
		if f["caret16"] != f1Caret16Of(data) && f["hmtx"] != "-" {
			return "bad-oracle:caret16"
		}
		if bad := f1CffOracle(f, data); bad != "" {
			return bad
		}
		g1, err := sfnt.Read(bytes.NewReader(data))
		if err != nil {
			return f1ReadErrClass(err)
		}
		return f1Join(f1RenderFont(g1))
	}
	ops["font.fixed"] = func(f Fields) string {
		data, bad := f1File0Of(f)
		if bad != "" {
			return bad
		}
		return f1Generations(data, true)
	}
	ops["font.fixedpred"] = func(f Fields) string {
		data, bad := f1File0Of(f)
		if bad != "" {
			return bad
		}
		return f1Generations(data, false)
	}
	// font.twice: the same font written n times gives the same bytes (the script tag of the GSUB
	// table is the parameter: tags without "-x-" extension go through bcp47ToOtf's map scan)
	ops["font.twice"] = func(f Fields) string {
		var fonts []*sfnt.Font
		reps := 3
		switch {
		case f["tag"] != "": // a GSUB table whose script key is the parameter
			font := f1FontFromFields(parseFields(f1TwiceBase))
			font.Gsub = f1BuildGsub("1", 8)
			feat := font.Gsub.ScriptList[language.MustParse("und-Latn-x-latn")]
			font.Gsub.ScriptList = map[language.Tag]*gtab.Features{language.MustParse(f["tag"]): feat}
			fonts, reps = []*sfnt.Font{font}, f.Int("n")
		case f["sc"] != "": // the font Read returns for a foreign table set
			data, err := f1AssembleFile(f)
			if err != nil {
				return "err:assemble"
			}
			g1, err := sfnt.Read(bytes.NewReader(data))
			if err != nil {
				return f1ReadErrClass(err)
			}
			fonts, reps = []*sfnt.Font{g1}, f.Int("reps")
		default: // a constructed font, and what Read makes of it
			font := f1FontFromFields(f)
			if bad := f1OracleCheck(f, font); bad != "" {
				return bad
			}
			fonts, reps = []*sfnt.Font{font}, f.Int("reps")
			if g1, err := sfnt.Read(bytes.NewReader(f1WriteFont(font))); err == nil {
				fonts = append(fonts, g1)
			}
		}
		for gen, font := range fonts {
			first := f1WriteFont(font)
			for i := 1; i < reps; i++ {
				if !bytes.Equal(first, f1WriteFont(font)) {
					return fmt.Sprintf("differ:write-%d-of-generation-%d", i+1, gen)
				}
			}
		}
		return "same"
	}
	// font.cmaprt: Read(Write(F)).CMapTable has exactly the keys (platform, encoding, language) and the
	// subtable bytes of F.CMapTable (the recipes keep the key's language equal to the subtable's
	// language field on the Macintosh platform and 0 elsewhere: the domain of C09_table_roundtrip)
	ops["font.cmaprt"] = func(f Fields) string {
		font := f1FontFromFields(f)
		g1, err := sfnt.Read(bytes.NewReader(f1WriteFont(font)))
		if err != nil {
			return f1ReadErrClass(err)
		}
		if len(g1.CMapTable) != len(font.CMapTable) {
			return fmt.Sprintf("differ:%d-subtables-of-%d", len(g1.CMapTable), len(font.CMapTable))
		}
		for k, v := range font.CMapTable {
			w, ok := g1.CMapTable[k]
			if !ok {
				return fmt.Sprintf("differ:key-%d.%d.%d-lost", k.PlatformID, k.EncodingID, k.Language)
			}
			if !bytes.Equal(v, w) {
				return fmt.Sprintf("differ:data-%d.%d.%d", k.PlatformID, k.EncodingID, k.Language)
			}
		}
		return "same"
	}
	// font.nf: Read(Write(F)) is the explicit normal form of F (Lean prints nf F)
	ops["font.nf"] = ops["font.meta"]
	// font.file: the bytes (*Font).Write produces (model: writeFile composed from the codec models)
	ops["font.file"] = func(f Fields) string {
		font := f1FontFromFields(f)
		if bad := f1OracleCheck(f, font); bad != "" {
			return bad
		}
		extra, ok := f1FileArgs(font)
		if !ok {
			return "outside-file-class"
		}
		for k, v := range parseFields(extra) {
			if f[k] != v {
				return "bad-oracle:" + k
			}
		}
		return "ok:" + hx(f1WriteFont(font))
	}
	areas["font"] = func(c *Ctx) {
		for _, tag := range []string{"und-Latn-x-latn", "und-Zzzz-x-dflt", "en-Latn-x-latn-ENG", "de-Latn-x-latn-DEU", "nl", "bn", "und-Beng", "zh-Hans"} {
			c.Case(Direct, "font.twice", "tag="+tag+" n=20", true)
		}
		// sweep (DESIGN Appendix F): weight thresholds x IsBold x IsRegular x family names with weight words
		sweepW := []int{0, 1, 400, 649, 650, 700, 749, 750, 1000}
		if c.Tier == "thorough" {
			sweepW = f1WeightPool
		}
		for _, w := range sweepW {
			for fl := 0; fl < 4; fl++ {
				for _, fam := range []string{"Test", "Go Bold", "Lightning"} {
					rec := f1GenFont(c)
					rec.font.Weight, rec.font.FamilyName = os2.Weight(w), fam
					rec.font.IsBold, rec.font.IsRegular = fl&1 != 0, fl&2 != 0
					f1EmitFont(c, rec, false)
					c.Stat("sweep", "weight x bold x regular x family")
				}
			}
		}
		// layout-table shapes x ligature synthesis (each of GSUB/GPOS/GDEF nil, empty, non-trivial on
		// proportional and fixed-pitch fonts whose cmap does or does not allow ligature synthesis)
		for _, rgsub := range []string{"-", "e0", "e0n", "e1", "e2", "e3", "1"} {
			for _, rcm := range []string{"1.2.1.2.3.4.5.6.7.3", "1.2.1.2.3", "1.2.1.2.0.3", "1.2", "-"} {
				for _, mono := range []bool{false, true} {
					rec := f1GenFont(c)
					for rec.font.NumGlyphs() < 8 {
						rec = f1GenFont(c)
					}
					n := rec.font.NumGlyphs()
					rec.rgsub, rec.rcm = rgsub, rcm
					rec.font.Gsub, rec.font.CMapTable = f1BuildGsub(rgsub, n), f1BuildCmap(rcm, n)
					ws := make([]float64, n)
					for i := range ws {
						ws[i] = 600
						if !mono && i%2 == 1 {
							ws[i] = 300
						}
					}
					f1SetWidths(rec.font.Outlines, ws, false)
					f1EmitFont(c, rec, true)
					c.Stat("sweep", "GSUB shape x cmap ligatures x pitch")
				}
			}
		}
		// CID-keyed CFF: {top matrix identity, 0.001} x {FD matrices identity, scaled, different} x 1..3 FDs,
		// with colliding-key cmap and layout tables
		for v := 0; v < 18; v++ {
			rec := f1GenFont(c)
			n := 8 + v
			rec.rgl = uint64(v%3 + 12*(v/3%3) + 36*v) // seed%3: FD matrices, seed/12%3: number of FDs
			o := f1BuildOutlines('k', n, rec.rgl)
			ws := make([]float64, n)
			for i := range ws {
				ws[i] = float64(300 + 50*(i%7))
			}
			f1SetWidths(o, ws, false)
			rec.font.Outlines = o
			rec.font.FontMatrix = matrix.Matrix{0.001, 0, 0, 0.001, 0, 0}
			if v/9 == 1 {
				rec.font.FontMatrix = matrix.Identity
			}
			rec.rcm = "1.2.3.4.5.6.7.3.2.1" + []string{"", "/m2", "/m3/u"}[v%3]
			rec.rgsub, rec.rgpos, rec.rgdef = []string{"2", "1", "-"}[v%3], []string{"-", "2", "e1"}[v%3], []string{"2", "-", "1"}[v%3]
			rec.font.CMapTable = f1BuildCmap(rec.rcm, n)
			rec.font.Gsub, rec.font.Gpos, rec.font.Gdef = f1BuildGsub(rec.rgsub, n), f1BuildGpos(rec.rgpos, n), f1BuildGdef(rec.rgdef, n)
			f1EmitFont(c, rec, true)
			c.Stat("sweep", "CID matrices x FDs x colliding keys")
		}
		// cmap tables that end in a short legacy subtable (format 0/6, incl. the 10-byte empty format 6
		// subtable which ends exactly at the end of the table) on all three outline kinds
		for v, ex := range []string{"/e6", "/s6", "/s0", "/E6", "/M6", "/m2/e6", "/u/e6", "/e6", "/E6", "/M6"} {
			rec := f1GenFont(c)
			for rec.font.NumGlyphs() < 3 || rec.font.NumGlyphs() > 40 || (v < 7) != rec.font.IsGlyf() ||
				(rec.font.CreationTime.IsZero() && rec.font.ModificationTime.IsZero()) {
				rec = f1GenFont(c)
			}
			n := rec.font.NumGlyphs()
			rec.rcm = "1.2.1.2.0.1" + ex
			rec.font.CMapTable = f1BuildCmap(rec.rcm, n)
			f1EmitFont(c, rec, true)
			c.Case(Direct, "font.nf", f1LineOfFont(rec.font, rec.rgl, rec.rcm, rec.rgsub, rec.rgpos, rec.rgdef), true)
			c.Stat("sweep", "cmap ends in a short legacy subtable")
		}
		// Macintosh-platform cmap subtables with a language: long format 12 and short formats 4/6/0 under
		// languages 0, 7, 9, 0xFFFF, incl. subtables that differ only in the language field
		for v, ex := range []string{"/K12:7", "/K12:0:7", "/K12:0:7:9:65535", "/K4:7:9", "/K6:9:65535", "/K0:65535:7", "/K12:9/u", "/K12:7:65535", "/K12:0:9"} {
			rec := f1GenFont(c)
			for rec.font.NumGlyphs() < 3 || rec.font.NumGlyphs() > 40 || (v < 7) != rec.font.IsGlyf() ||
				(rec.font.CreationTime.IsZero() && rec.font.ModificationTime.IsZero()) {
				rec = f1GenFont(c)
			}
			n := rec.font.NumGlyphs()
			rec.rcm = "1.2.1.2.0.1" + ex
			rec.font.CMapTable = f1BuildCmap(rec.rcm, n)
			f1EmitFont(c, rec, false)
			line := f1LineOfFont(rec.font, rec.rgl, rec.rcm, rec.rgsub, rec.rgpos, rec.rgdef)
			c.Case(Direct, "font.nf", line, true)
			c.Case(Direct, "font.cmaprt", line, true)
			c.Stat("sweep", "Macintosh cmap subtables with languages")
		}
		// CFF / CID-keyed fonts of 257..600 endchar-only glyphs whose charset has a run of exactly
		// 255, 256, 257, 511, 512, 513 consecutive SIDs / CIDs followed by further runs (charset format 1)
		for v, run := range []int{255, 256, 257, 512, 256, 511, 512, 513} {
			rec := f1GenFont(c)
			kind := byte('c')
			if v >= 4 {
				kind = 'k'
			}
			for rec.font.IsGlyf() || rec.font.IsCFF() != true || (rec.font.CreationTime.IsZero() && rec.font.ModificationTime.IsZero()) {
				rec = f1GenFont(c)
			}
			n := run + 1 + 5 + v
			rec.rgl = f1BigGlyfSeed + uint64(run)
			o := f1BuildOutlines(kind, n, rec.rgl)
			ws := make([]float64, n)
			for i := range ws {
				ws[i] = float64(400 + i%5*50)
			}
			f1SetWidths(o, ws, false)
			rec.font.Outlines = o
			rec.font.FontMatrix = matrix.Matrix{0.001, 0, 0, 0.001, 0, 0}
			rec.rcm, rec.rgsub, rec.rgpos, rec.rgdef = "1.2", "-", "-", "-"
			rec.font.CMapTable, rec.font.Gsub, rec.font.Gpos, rec.font.Gdef = f1BuildCmap(rec.rcm, n), nil, nil, nil
			f1EmitFont(c, rec, false)
			c.Case(Direct, "font.nf", f1LineOfFont(rec.font, rec.rgl, rec.rcm, rec.rgsub, rec.rgpos, rec.rgdef), true)
			c.Stat("sweep", "CFF charset with runs of 255..513")
		}
		// TrueType fonts whose encoded glyf table has exactly the sizes around the loca-format
		// boundaries (short loca: offsets/2 in 16 bits): 0xfffe, 0x10000, 0x1fffe, 0x20000, 0x20002 ...
		for _, total := range []int{0xfffc, 0xfffe, 0x10000, 0x10002, 0x1fffc, 0x1fffe, 0x20000, 0x20002, 0x20004} {
			rec := f1GenFont(c)
			for !rec.font.IsGlyf() || (rec.font.CreationTime.IsZero() && rec.font.ModificationTime.IsZero()) {
				rec = f1GenFont(c)
			}
			n := 4 + total%3
			rec.rgl = f1BigGlyfSeed + uint64(total)
			o := f1BuildOutlines('g', n, rec.rgl)
			ws := make([]float64, n)
			for i := range ws {
				ws[i] = float64(500 + i)
			}
			f1SetWidths(o, ws, false)
			rec.font.Outlines = o
			rec.rcm, rec.rgsub, rec.rgpos, rec.rgdef = "1.2", "-", "-", "-"
			rec.font.CMapTable, rec.font.Gsub, rec.font.Gpos, rec.font.Gdef = f1BuildCmap(rec.rcm, n), nil, nil, nil
			f1EmitFont(c, rec, false)
			c.Case(Direct, "font.nf", f1LineOfFont(rec.font, rec.rgl, rec.rcm, rec.rgsub, rec.rgpos, rec.rgdef), true)
			c.Stat("sweep", "glyf table size at the loca-format boundaries")
		}
		for c.evals < c.N {
			if c.Rng.Chance(1, 6) {
				f1EmitFont(c, f1GenFileFont(c), true)
			} else if c.Rng.Chance(3, 5) {
				f1EmitFont(c, f1GenFont(c), true)
			} else {
				args := f1GenTables(c)
				out := c.Case(Verdict, "font.merge", args, true)
				oc := "ok"
				if strings.HasPrefix(out, "err:") || strings.HasPrefix(out, "bad") || strings.HasPrefix(out, "panic") {
					oc = out
					if len(oc) > 40 {
						oc = oc[:40]
					}
				}
				c.Stat("merge outcome", oc)
				if oc == "ok" {
					f1EmitFixed(c, args)
					c.Case(Direct, "font.twice", args+" reps=3", true)
				}
			}
		}
	}
}

// f1FileArgs: the payload fields of a font.file line (glyph data, maxp maxima, side tables, caret
// slope, cmap subtables, glyph names) for a font in the class the byte-level model covers so far:
// TrueType outlines of simple glyphs, no layout tables, at least one timestamp.
func f1FileArgs(font *sfnt.Font) (string, bool) {
	if co, isCff := font.Outlines.(*cff.Outlines); isCff {
		if !f1CffFileClass {
			return "", false
		}
		return f1FileArgsCff(font, co)
	}
	o, ok := font.Outlines.(*glyf.Outlines)
	if !ok ||
		(font.CreationTime.IsZero() && font.ModificationTime.IsZero()) || o.Maxp == nil || len(o.Glyphs) > 40 {
		return "", false
	}
	var gl []string
	for _, g := range o.Glyphs {
		if g == nil {
			gl = append(gl, "-")
			continue
		}
		sg, ok := g.Data.(glyf.SimpleGlyph)
		if !ok {
			return "", false
		}
		gl = append(gl, fmt.Sprintf("%d.%d.%d.%d.%d.%s", uint16(g.LLx), uint16(g.LLy), uint16(g.URx), uint16(g.URy),
			uint16(sg.NumContours), hx(sg.Encoded)))
	}
	m := o.Maxp
	mx := []int{int(m.MaxPoints), int(m.MaxContours), int(m.MaxCompositePoints), int(m.MaxCompositeContours), int(m.MaxZones),
		int(m.MaxTwilightPoints), int(m.MaxStorage), int(m.MaxFunctionDefs), int(m.MaxInstructionDefs), int(m.MaxStackElements),
		int(m.MaxSizeOfInstructions), int(m.MaxComponentElements), int(m.MaxComponentDepth)}
	var names []string
	for k := range o.Tables {
		names = append(names, k)
	}
	sort.Strings(names)
	var tabs []string
	for _, k := range names {
		tabs = append(tabs, f1HexS(k)+":"+hx(o.Tables[k]))
	}
	// caret slope: float trigonometry inside hmtx.Encode; taken from the hhea table it writes
	hhea, _ := (&hmtx.Info{CaretAngle: font.ItalicAngle / 180 * math.Pi}).Encode()
	rise := int16(uint16(hhea[18])<<8 | uint16(hhea[19]))
	run := int16(uint16(hhea[20])<<8 | uint16(hhea[21]))
	// cmap subtables (sorted by platform, encoding, language) and glyph names
	cmt := "-"
	if font.CMapTable != nil {
		var keys []cmap.Key
		for k := range font.CMapTable {
			keys = append(keys, k)
		}
		sort.Slice(keys, func(i, j int) bool {
			a, b := keys[i], keys[j]
			if a.PlatformID != b.PlatformID {
				return a.PlatformID < b.PlatformID
			}
			if a.EncodingID != b.EncodingID {
				return a.EncodingID < b.EncodingID
			}
			return a.Language < b.Language
		})
		var parts []string
		for _, k := range keys {
			parts = append(parts, fmt.Sprintf("%d.%d.%d:%s", k.PlatformID, k.EncodingID, k.Language, hx(font.CMapTable[k])))
		}
		cmt = strings.Join(parts, ",")
	}
	gn := "-"
	if o.Names != nil {
		var parts []string
		for _, nm := range o.Names {
			parts = append(parts, f1HexS(nm))
		}
		gn = "n" + strings.Join(parts, ",")
	}
	// layout tables: the bytes of their own encoders (their codecs are C08's subject)
	gdefb, gsubb, gposb := "-", "-", "-"
	if font.Gdef != nil {
		gdefb = hx(font.Gdef.Encode())
	}
	if font.Gsub != nil {
		gsubb = hx(font.Gsub.Encode())
	}
	if font.Gpos != nil {
		gposb = hx(font.Gpos.Encode())
	}
	return fmt.Sprintf("gly=%s mx=%s tabs=%s rr=%d:%d cmt=%s gn=%s gdefb=%s gsubb=%s gposb=%s", strings.Join(gl, ","), f1IntsStr(mx),
		strings.Join(tabs, ","), rise, run, cmt, gn, gdefb, gsubb, gposb), true
}

func b01Str(b bool) string {
	if b {
		return "yes"
	}
	return "no"
}

// f1CffFileClass: whether OpenType/CFF fonts take part in the font.file stream (needs the CFF
// flavour of the byte-level model in the driver)
var f1CffFileClass = true

// f1LayoutArgs: cmap subtables and the encoded layout tables of a font.file line
func f1LayoutArgs(font *sfnt.Font) string {
	cmt := "-"
	if font.CMapTable != nil {
		var keys []cmap.Key
		for k := range font.CMapTable {
			keys = append(keys, k)
		}
		sort.Slice(keys, func(i, j int) bool {
			a, b := keys[i], keys[j]
			if a.PlatformID != b.PlatformID {
				return a.PlatformID < b.PlatformID
			}
			if a.EncodingID != b.EncodingID {
				return a.EncodingID < b.EncodingID
			}
			return a.Language < b.Language
		})
		var parts []string
		for _, k := range keys {
			parts = append(parts, fmt.Sprintf("%d.%d.%d:%s", k.PlatformID, k.EncodingID, k.Language, hx(font.CMapTable[k])))
		}
		cmt = strings.Join(parts, ",")
	}
	gdefb, gsubb, gposb := "-", "-", "-"
	if font.Gdef != nil {
		gdefb = hx(font.Gdef.Encode())
	}
	if font.Gsub != nil {
		gsubb = hx(font.Gsub.Encode())
	}
	if font.Gpos != nil {
		gposb = hx(font.Gpos.Encode())
	}
	return fmt.Sprintf("cmt=%s gdefb=%s gsubb=%s gposb=%s", cmt, gdefb, gsubb, gposb)
}

// f1FileArgsCff: payload fields for an OpenType/CFF font: the CFF table as makeCFF builds it
// (its codec is C13's subject), the glyph extents (Glyph.Extent(): float floor/ceil), the caret slope.
func f1FileArgsCff(font *sfnt.Font, o *cff.Outlines) (string, bool) {
	if (font.CreationTime.IsZero() && font.ModificationTime.IsZero()) || len(o.Glyphs) > 70 {
		return "", false
	}
	buf := &bytes.Buffer{}
	if err := font.AsCFF().Write(buf); err != nil {
		return "", false
	}
	var ext []string
	for _, g := range o.Glyphs {
		e := g.Extent()
		ext = append(ext, fmt.Sprintf("%d.%d.%d.%d", e.LLx, e.LLy, e.URx, e.URy))
	}
	hhea, _ := (&hmtx.Info{CaretAngle: font.ItalicAngle / 180 * math.Pi}).Encode()
	rise := int16(uint16(hhea[18])<<8 | uint16(hhea[19]))
	run := int16(uint16(hhea[20])<<8 | uint16(hhea[21]))
	return fmt.Sprintf("cffb=%s ext=%s rr=%d:%d %s", hx(buf.Bytes()), strings.Join(ext, ","), rise, run, f1LayoutArgs(font)), true
}

// f1GenFileFont draws a font of that class.
func f1GenFileFont(c *Ctx) f1FontRecipe {
	rec := f1GenFont(c)
	for !rec.font.IsGlyf() || rec.font.NumGlyphs() > 40 || (rec.font.CreationTime.IsZero() && rec.font.ModificationTime.IsZero()) {
		rec = f1GenFont(c)
	}
	if c.Rng.Chance(1, 4) { // no cmap table at all
		rec.rcm, rec.font.CMapTable = "-", nil
	}
	if c.Rng.Chance(1, 2) { // no layout tables
		rec.rgsub, rec.rgpos, rec.rgdef = "-", "-", "-"
		rec.font.Gsub, rec.font.Gpos, rec.font.Gdef = nil, nil, nil
	}
	return rec
}

// f1EmitFont emits every stream for one constructed font.
func f1EmitFont(c *Ctx, rec f1FontRecipe, withDerive bool) {
	args := f1LineOfFont(rec.font, rec.rgl, rec.rcm, rec.rgsub, rec.rgpos, rec.rgdef)
	if f1CodecStable(rec.rgsub) && f1CodecStable(rec.rgpos) && f1CodecStable(rec.rgdef) {
		out := c.Case(Verdict, "font.meta", args, true)
		if withDerive {
			c.Case(Verdict, "font.derive", args, true)
		}
		if !strings.HasPrefix(out, "err:") && !strings.HasPrefix(out, "bad") && !strings.HasPrefix(out, "panic") {
			// the property's first clause as a direct predicate: Read(Write(F)) = nf F
			c.Case(Direct, "font.nf", args, true)
		}
	}
	if extra, ok := f1FileArgs(rec.font); ok {
		c.Case(Verdict, "font.file", args+" "+extra, true)
		if g, ok := rec.font.Outlines.(*glyf.Outlines); ok {
			c.Stat("font.file class", "TrueType, cmap="+b01Str(rec.font.CMapTable != nil)+" names="+b01Str(g.Names != nil)+" layout="+b01Str(rec.font.Gsub != nil || rec.font.Gpos != nil || rec.font.Gdef != nil))
		} else {
			c.Stat("font.file class", "CFF (table bytes opaque), cmap="+b01Str(rec.font.CMapTable != nil)+" layout="+b01Str(rec.font.Gsub != nil || rec.font.Gpos != nil || rec.font.Gdef != nil))
		}
	}
	f1EmitFixed(c, args)
	reps := 3
	if c.Rng.Chance(1, 40) {
		reps = 200
	}
	if strings.Contains(rec.rcm, "/m") || rec.rgsub == "2" || rec.rgpos == "2" || rec.rgdef == "2" {
		reps = max(reps, 60) // colliding sort-key prefixes: map order must not show in the bytes
		c.Stat("font.twice", "60+ writes (colliding keys)")
	}
	c.Case(Direct, "font.twice", args+fmt.Sprintf(" reps=%d", reps), true)
}

// f1EmitFixed classifies the first-generation font and emits the fixed-point case: a D case when
// the font lies inside the hypothesis of C01_fixed_point_partial (the property must hold), a V
// case on the model's prediction otherwise.
func f1EmitFixed(c *Ctx, args string) {
	f := parseFields(args)
	data, bad := f1File0Of(f)
	if bad != "" {
		return
	}
	g1, err := sfnt.Read(bytes.NewReader(data))
	if err != nil {
		return
	}
	hasPost := true
	fromKern := false
	if _, ok := f["sc"]; ok {
		hasPost = f["post"] != "-"
		fromKern = f["rkern"] == "1" && f["rgpos"] != "1"
	}
	cls := f1StableClass(g1, hasPost, fromKern)
	if cls == "" {
		c.Stat("fixed-point class", "inside hypothesis")
		c.Case(Direct, "font.fixed", args, true)
	} else {
		c.Stat("fixed-point class", "outside: "+cls)
		c.Case(Verdict, "font.fixedpred", args, true)
	}
}
