package main

// Area `total` (property C02): every decoder named in the property is run on untrusted bytes,
// then the library's lazy decoders/accessors are run on whatever was returned.  The outcome
// class is ok | err | panic:<site> | timeout (the time-out comes from Exec in main.go);
// allocation (runtime.MemStats.TotalAlloc delta) and wall time are recorded as buckets.
//
// D lines `total.<decoder> bytes=<hex> …` expect the constant "total" (value or error, and
// allocation within allocA*len+allocB); the handler answers the panic site / "alloc:…" text
// otherwise, so any other answer is a concrete violation of the property on the real code.
// V lines `total.m.<decoder> bytes=<hex>` compare the checked-index Lean models of
// kern.Read, gdef.Read, maxp.Read and header.Read (outcome class + decoded value + model
// cost counters are printed by the model; Go prints class + value, the cost part is
// compared by the model against its own bound, see Drive/Total.lean).

import (
	"bytes"
	"encoding/json"
	"errors"
	"fmt"
	"go/ast"
	goparser "go/parser"
	"io"
	"os"
	"path/filepath"
	"runtime"
	"sort"
	"strconv"
	"strings"
	"time"

	"golang.org/x/image/font/gofont/goregular"

	"seehuhn.de/go/postscript/funit"

	"seehuhn.de/go/sfnt"
	"seehuhn.de/go/sfnt/cff"
	"seehuhn.de/go/sfnt/cmap"
	"seehuhn.de/go/sfnt/glyf"
	"seehuhn.de/go/sfnt/glyph"
	"seehuhn.de/go/sfnt/head"
	"seehuhn.de/go/sfnt/header"
	"seehuhn.de/go/sfnt/hmtx"
	"seehuhn.de/go/sfnt/internal/debug"
	"seehuhn.de/go/sfnt/kern"
	"seehuhn.de/go/sfnt/maxp"
	"seehuhn.de/go/sfnt/name"
	"seehuhn.de/go/sfnt/opentype/classdef"
	"seehuhn.de/go/sfnt/opentype/coverage"
	"seehuhn.de/go/sfnt/opentype/gdef"
	"seehuhn.de/go/sfnt/opentype/gtab"
	"seehuhn.de/go/sfnt/opentype/gtab/builder"
	"seehuhn.de/go/sfnt/os2"
	"seehuhn.de/go/sfnt/parser"
	"seehuhn.de/go/sfnt/post"
)

// allocation-proportionality bound of the D check: alloc <= allocA*len(input) + allocB
const (
	totalAllocA = 4096
	totalAllocB = 16 << 20
)

// time bound of the D check: dur <= totalTimeA*len(input) + totalTimeB.  Valid inputs need
// well below 1 microsecond per byte; the constants leave two orders of magnitude for a loaded
// machine.  (Anything above 10 s is a `timeout` from Exec anyway.)
const (
	totalTimeA = 50 * time.Microsecond
	totalTimeB = 3 * time.Second
)

// ---------------------------------------------------------------- running one decoder

type totalOut struct {
	refused bool   // explicit panic of an encoder in the accessor stage (re-encoding refused)
	class   string // ok | err | panic:<site>
	alloc   uint64
	dur     time.Duration
}

// totalPanicSite names the innermost frame of the library that was executing when the panic
// was raised: "<file relative to the module>:<line>".
func totalPanicSite() string {
	pcs := make([]uintptr, 64)
	n := runtime.Callers(2, pcs)
	frames := runtime.CallersFrames(pcs[:n])
	for {
		fr, more := frames.Next()
		if strings.HasPrefix(fr.Function, "seehuhn.de/go/sfnt/") || strings.HasPrefix(fr.Function, "seehuhn.de/go/sfnt.") {
			if !strings.Contains(fr.Function, "verifharness") {
				fn := fr.Function[strings.LastIndex(fr.Function, ".")+1:]
				switch fn {
				case "encode", "Encode", "Append", "EncodeLen", "encodeLen", "AppendLen", "Write":
					totalPanicInEncoder = true
				}
				file := fr.File
				if i := strings.Index(file, "/repo/"); i >= 0 {
					file = file[i+6:]
				} else if i := strings.Index(file, "go/sfnt/"); i >= 0 {
					file = file[i+8:]
				}
				return fmt.Sprintf("%s:%d", file, fr.Line)
			}
		}
		if !more {
			break
		}
	}
	return "outside-library"
}

func totalPanicClass(r any) string {
	msg := fmt.Sprint(r)
	switch {
	case strings.Contains(msg, "index out of range"):
		return "index"
	case strings.Contains(msg, "slice bounds out of range"):
		return "slice"
	case strings.Contains(msg, "nil pointer"):
		return "nil"
	case strings.Contains(msg, "makeslice") || strings.Contains(msg, "out of memory"):
		return "make"
	case strings.Contains(msg, "interface conversion"):
		return "type-assertion"
	case strings.Contains(msg, "divide"):
		return "divide"
	}
	msg = strings.Map(func(r rune) rune {
		if r == '\n' || r == '\t' || r == ' ' {
			return '_'
		}
		return r
	}, msg)
	if len(msg) > 40 {
		msg = msg[:40]
	}
	return "explicit:" + msg
}

// totalPanicInEncoder: the innermost library frame of the last recovered panic is an encoder
// (encode/Encode/Append/Write…).
var totalPanicInEncoder bool

func totalRun(fn func() error) (res totalOut) {
	var m0, m1 runtime.MemStats
	runtime.ReadMemStats(&m0)
	t0 := time.Now()
	defer func() {
		if r := recover(); r != nil {
			totalPanicInEncoder = false
			res.class = "panic:" + totalPanicSite() + ":" + totalPanicClass(r)
			// Known class (known_findings.jsonl C02-reencode-refused): since the C08 repairs an encoder
			// REFUSES a value it cannot represent (16-bit offsets/counts) with an explicit panic instead
			// of truncating silently.  A decoded table can be such a value (aliased offsets: small on
			// disk, large when written without sharing).  Only explicit panics raised inside an encoder
			// count; index/slice/nil panics anywhere, and explicit panics elsewhere, stay violations.
			if totalPanicInEncoder && strings.Contains(res.class, ":explicit:") {
				res.refused = true
			}
		}
		res.dur = time.Since(t0)
		runtime.ReadMemStats(&m1)
		res.alloc = m1.TotalAlloc - m0.TotalAlloc
	}()
	if err := fn(); err != nil {
		res.class = "err"
	} else {
		res.class = "ok"
	}
	return
}

// ---------------------------------------------------------------- decoders + accessors

func totalProbeRunes(lo, hi rune) []rune {
	rr := []rune{0, 1, 0x20, 0x41, 0x7f, 0x80, 0xff, 0x100, 0xfffe, 0xffff, 0x10000, 0x10ffff, -1, lo - 1, lo, lo + 1, hi - 1, hi, hi + 1}
	if hi >= lo {
		span := int64(hi) - int64(lo)
		step := span/1500 + 1
		for c := int64(lo); c <= int64(hi); c += step {
			rr = append(rr, rune(c))
		}
	}
	return rr
}

func totalUseCmap(tab cmap.Table) {
	if tab == nil {
		return
	}
	keys := make([]cmap.Key, 0, len(tab))
	for k := range tab {
		keys = append(keys, k)
	}
	sort.Slice(keys, func(i, j int) bool {
		a, b := keys[i], keys[j]
		if a.PlatformID != b.PlatformID {
			return a.PlatformID < b.PlatformID
		}
		if a.EncodingID != b.EncodingID {
			return a.EncodingID < b.EncodingID
		}
		return a.Language < b.Language
	})
	use := func(sub cmap.Subtable) {
		lo, hi := sub.CodeRange()
		for _, r := range totalProbeRunes(lo, hi) {
			sub.Lookup(r)
		}
		sub.Encode(0)
	}
	// records may share one subtable (cmap.Decode allows identical ranges): like a sensible caller,
	// decode each distinct subtable once per platform class
	seen := map[string]bool{}
	for _, k := range keys {
		id := fmt.Sprintf("%v:%p:%d", k.PlatformID == 1, tab[k], len(tab[k]))
		if len(tab[k]) == 0 || seen[id] {
			continue
		}
		seen[id] = true
		if sub, err := tab.Get(k); err == nil && sub != nil {
			use(sub)
		}
		if sub, err := tab.GetNoLang(k.PlatformID, k.EncodingID); err == nil && sub != nil {
			sub.Lookup(0x41)
		}
	}
	if sub, err := tab.GetBest(); err == nil && sub != nil {
		use(sub)
	}
	tab.Encode()
}

func totalUseGlyphs(gg glyf.Glyphs) {
	for _, g := range gg {
		if g == nil {
			continue
		}
		if sg, ok := g.Data.(glyf.SimpleGlyph); ok {
			sg.Decode()
		}
		g.Components()
	}
	enc := gg.Encode()
	if enc != nil {
		glyf.Decode(enc)
	}
}

func totalUseCFF(f *cff.Font) {
	if f == nil {
		return
	}
	if f.Outlines != nil {
		n := f.NumGlyphs()
		if f.FontInfo != nil {
			f.Widths()
			f.WidthsPDF()
			f.FontBBoxPDF()
			for gid := 0; gid < n && gid < 70000; gid++ {
				f.GlyphWidthPDF(glyph.ID(gid))
			}
		}
		for _, g := range f.Glyphs {
			if g != nil {
				g.Extent()
			}
		}
		f.BuiltinEncoding()
	}
	f.Write(io.Discard)
}

func totalUseFont(f *sfnt.Font) {
	n := f.NumGlyphs()
	f.Widths()
	f.WidthsPDF()
	f.GlyphBBoxes()
	f.FontBBox()
	f.FontBBoxPDF()
	f.FullName()
	f.Subfamily()
	f.PostScriptName()
	f.IsFixedPitch()
	f.BuiltinEncoding()
	f.IsGlyf()
	f.IsCFF()
	for gid := 0; gid < n; gid++ {
		f.GlyphWidth(glyph.ID(gid))
		f.GlyphWidthPDF(glyph.ID(gid))
		f.GlyphBBox(glyph.ID(gid))
		f.GlyphName(glyph.ID(gid))
	}
	totalUseCmap(f.CMapTable)
	switch o := f.Outlines.(type) {
	case *glyf.Outlines:
		totalUseGlyphs(o.Glyphs)
	case *cff.Outlines:
		for _, g := range o.Glyphs {
			if g != nil {
				g.Extent()
			}
		}
	}
	if f.Gdef != nil {
		f.Gdef.Encode()
	}
	if f.Gsub != nil {
		f.Gsub.Encode()
	}
	if f.Gpos != nil {
		f.Gpos.Encode()
	}
	f.Write(io.Discard)
}

func totalUseGtab(info *gtab.Info) {
	if info == nil {
		return
	}
	info.Encode()
}

var totalDecoders = map[string]func(f Fields) error{
	"sfnt": func(f Fields) error {
		font, err := sfnt.Read(bytes.NewReader(f.Hex("bytes")))
		if err != nil {
			return err
		}
		totalUseFont(font)
		return nil
	},
	"header": func(f Fields) error {
		b := f.Hex("bytes")
		info, err := header.Read(bytes.NewReader(b))
		if err != nil {
			return err
		}
		info.Has("head", "glyf")
		for name := range info.Toc {
			info.Has(name)
			rec := info.Toc[name]
			if int64(rec.Offset)+int64(rec.Length) <= int64(len(b)) {
				_ = b[rec.Offset : rec.Offset+rec.Length]
			}
		}
		return nil
	},
	"cff": func(f Fields) error {
		font, err := cff.Read(bytes.NewReader(f.Hex("bytes")))
		if err != nil {
			return err
		}
		totalUseCFF(font)
		return nil
	},
	"cmap": func(f Fields) error {
		tab, err := cmap.Decode(f.Hex("bytes"))
		if err != nil {
			return err
		}
		totalUseCmap(tab)
		return nil
	},
	"glyf": func(f Fields) error {
		enc := &glyf.Encoded{GlyfData: f.Hex("bytes"), LocaData: f.Hex("loca"), LocaFormat: int16(f.Int("fmt"))}
		gg, err := glyf.Decode(enc)
		if err != nil {
			return err
		}
		totalUseGlyphs(gg)
		return nil
	},
	"gsub": func(f Fields) error {
		info, err := gtab.Read(bytes.NewReader(f.Hex("bytes")), gtab.TypeGsub)
		if err != nil {
			return err
		}
		if f["acc"] == "0" { // decoder alone, without the accessors (re-encoding)
			return nil
		}
		totalUseGtab(info)
		return nil
	},
	"gpos": func(f Fields) error {
		info, err := gtab.Read(bytes.NewReader(f.Hex("bytes")), gtab.TypeGpos)
		if err != nil {
			return err
		}
		if f["acc"] == "0" {
			return nil
		}
		totalUseGtab(info)
		return nil
	},
	"gdef": func(f Fields) error {
		t, err := gdef.Read(bytes.NewReader(f.Hex("bytes")))
		if err != nil {
			return err
		}
		if f["acc"] == "0" {
			return nil
		}
		t.IsMark(0)
		t.IsMark(0xffff)
		t.Encode()
		return nil
	},
	"coverage": func(f Fields) error {
		t, err := coverage.Read(parser.New(bytes.NewReader(f.Hex("bytes"))), 0)
		if err != nil {
			return err
		}
		t.Glyphs()
		t.Contains(0)
		t.ToSet()
		t.EncodeLen()
		t.Encode()
		return nil
	},
	"covset": func(f Fields) error {
		s, err := coverage.ReadSet(parser.New(bytes.NewReader(f.Hex("bytes"))), 0)
		if err != nil {
			return err
		}
		s.Glyphs()
		s.ToTable().Encode()
		return nil
	},
	"classdef": func(f Fields) error {
		t, err := classdef.Read(parser.New(bytes.NewReader(f.Hex("bytes"))), 0)
		if err != nil {
			return err
		}
		t.NumClasses()
		t.Glyphs()
		t.AppendLen()
		t.Append(nil)
		return nil
	},
	"name": func(f Fields) error {
		info, err := name.Decode(f.Hex("bytes"))
		if err != nil {
			return err
		}
		if f["acc"] == "0" {
			return nil
		}
		info.Encode(1)
		info.Encode(10)
		return nil
	},
	"head": func(f Fields) error {
		info, err := head.Read(bytes.NewReader(f.Hex("bytes")))
		if err != nil {
			return err
		}
		info.Encode()
		_ = info.FontRevision.String()
		return nil
	},
	"hmtx": func(f Fields) error {
		info, err := hmtx.Decode(f.Hex("hhea"), f.Hex("bytes"))
		if err != nil {
			return err
		}
		info.Encode()
		return nil
	},
	"maxp": func(f Fields) error {
		info, err := maxp.Read(bytes.NewReader(f.Hex("bytes")))
		if err != nil {
			return err
		}
		info.Encode()
		return nil
	},
	"os2": func(f Fields) error {
		info, err := os2.Read(bytes.NewReader(f.Hex("bytes")))
		if err != nil {
			return err
		}
		info.Encode()
		return nil
	},
	"post": func(f Fields) error {
		info, err := post.Read(bytes.NewReader(f.Hex("bytes")))
		if err != nil {
			return err
		}
		info.Encode()
		return nil
	},
	"cff-charset": func(f Fields) error {
		_, _, err := cff.VerifReadCharset(f.Hex("bytes"), totalGlyphCountField(f))
		return err
	},
	"cff-fdselect": func(f Fields) error {
		fn, err := cff.VerifReadFDSelect(f.Hex("bytes"), totalGlyphCountField(f), 256)
		if err != nil {
			return err
		}
		for gid := 0; gid < totalGlyphCountField(f); gid++ {
			fn(glyph.ID(gid))
		}
		return nil
	},
	"kern": func(f Fields) error {
		info, err := kern.Read(bytes.NewReader(f.Hex("bytes")))
		if err != nil {
			return err
		}
		info.Encode()
		return nil
	},
}

// totalD runs decoder + accessors and evaluates the property predicate of the D stream.
func totalD(dname string, f Fields) string {
	fn := totalDecoders[dname]
	res := totalRun(func() error { return fn(f) })
	totalLast = res
	if res.refused && f["strict"] != "1" {
		// counted as its own outcome class; the case line with strict=1 is the known finding
		totalLast.class = "reencode-refused"
		return "total"
	}
	if res.class != "ok" && res.class != "err" {
		return res.class
	}
	n := totalInputLen(f)
	if res.alloc > uint64(totalAllocA)*uint64(n)+totalAllocB {
		return fmt.Sprintf("alloc:%dMiB-for-%d-bytes", res.alloc>>20, n)
	}
	if res.dur > totalTimeB+time.Duration(n)*totalTimeA {
		return fmt.Sprintf("slow:%ds-for-%d-bytes", int(res.dur/time.Second), n)
	}
	return "total"
}

// totalAdversary builds the input of a `total.adv kind=… …` line.
func totalAdversary(f Fields) (dec string, b []byte) {
	num := func(k string, def int) int {
		if f[k] == "" {
			return def
		}
		return f.Int(k)
	}
	cffSeed := func() []byte {
		for _, s := range totalSeeds() {
			if s.src == "simple-cff:CFF" {
				return s.bytes
			}
		}
		return nil
	}
	switch f["kind"] {
	case "gdef-alias": // §9 #37
		return "gdef", totalGdefAliased(num("sets", 20), 0xffff)
	case "gdef-markglyphsets": // shared full-range coverage tables at non-adjacent entries: decoded once each
		return "gdef", totalGdefMarkGlyphSets(f["pattern"], num("n", 200), num("seed", 1))
	case "gdef-distinct":
		return "gdef", totalGdefDistinct(num("sets", 2), 0xffff)
	case "kern-alias": // §9 #35
		subs, pairs := num("subs", 300), num("pairs", 300)
		return "kern", totalKernAliased(subs, pairs, 4+14*subs+6*pairs)
	case "classdef2-zigzag": // §9 #36
		return "classdef", totalClassdef2Zigzag(num("pairs", 40))
	case "gsub-context-alias": // §9 #27
		return "gsub", totalGsubContextAliased(num("rules", 3), num("glyphs", 4))
	case "cff-private-size": // §9 #40
		return "cff", totalCffRebuild(cffSeed(), nil, nil, num("size", 1<<28))
	case "cmap12-groups": // many groups, each legal; the cap is on the total
		per := num("per", 4096)
		return "cmap", totalCmapWith([][]byte{totalCmap12Groups(num("groups", 16), per, num("stride", per))}, []int{0})
	case "cmap4-segments":
		return "cmap", totalCmapWith([][]byte{totalCmap4Segments(num("segs", 4), f["full"] == "1")}, []int{0})
	case "cmap-shared": // `recs` directory records sharing one full format-4 subtable
		recs := make([]int, num("recs", 4))
		return "cmap", totalCmapWith([][]byte{totalCmap4Segments(1, false)}, recs)
	case "coverage2-ranges":
		return f["dec"], totalCoverage2Ranges(num("ranges", 1), num("per", 65536))
	case "classdef1-count": // format 1 header claiming `count` glyphs, `have` of them present
		b := []byte{0, 1, 0, 0}
		b = append(b, totalBe16b(num("count", 65535))...)
		for i := 0; i < num("have", 0); i++ {
			b = append(b, 0, 1)
		}
		return "classdef", b
	case "name-alias":
		return "name", totalNameAliased(num("recs", 10), num("len", 100))
	case "post2-names":
		return "post", totalPost2Names(num("glyphs", 65535))
	case "cff-name-index":
		return "cff", totalCffNameIndex(num("count", 65535), num("offsize", 4))
	case "gsub-lookups-alias":
		return "gsub", totalGsubLookupsAliased(num("count", 3), num("last", 0xffff))
	case "cmap-straddle": // a subtable header straddling the end of the table: k bytes left for format `fmt`
		k, fm := num("k", 10), num("fmt", 12)
		b := []byte{0, 0, 0, 1, 0, 3, 0, 10, 0, 0, 0, 12}
		tail := make([]byte, k)
		if k >= 2 {
			copy(tail, totalBe16b(fm))
		} else if k == 1 {
			tail[0] = byte(fm >> 8)
		}
		if k >= 4 && fm < 8 {
			copy(tail[2:], totalBe16b(k)) // a plausible 16-bit length
		}
		if k >= 8 && fm >= 8 && fm != 14 {
			copy(tail[4:], totalBe32b(k))
		}
		if k >= 6 && fm == 14 {
			copy(tail[2:], totalBe32b(k))
		}
		return "cmap", append(b, tail...)
	case "kern-straddle": // one subtable header with k bytes left
		b := []byte{0, 0, 0, 1}
		h := []byte{0, 0, 0, 14, 0, 1, 0, 1, 0, 6, 0, 0, 0, 0, 0, 3, 0, 4, 0, 5}
		k := num("k", 6)
		if k > len(h) {
			k = len(h)
		}
		return "kern", append(b, h[:k]...)
	case "name-straddle": // one Windows record whose string ends j bytes beyond the end of storage
		j, l := num("j", 1), num("len", 3)
		b := []byte{0, 0, 0, 1, 0, 18, 0, 3, 0, 1, 0x04, 0x09, 0, 1}
		b = append(b, totalBe16b(l)...)
		b = append(b, 0, 0)
		have := l - j
		if have < 0 {
			have = 0
		}
		for i := 0; i < have; i++ {
			b = append(b, byte(0x41*(i%2)))
		}
		return "name", b
	case "post-straddle": // format 2, one glyph with a custom name whose Pascal string ends j bytes short
		j, l := num("j", 1), num("len", 3)
		b := []byte{0, 2, 0, 0}
		b = append(b, make([]byte, 28)...)
		b = append(b, 0, 1, 1, 2) // one glyph, index 258
		if j <= l {
			b = append(b, byte(l))
			b = append(b, make([]byte, l-j)...)
		}
		return "post", b
	case "cffindex-straddle": // CFF header + Name INDEX (2 items) cut k bytes before its end
		b := []byte{1, 0, 4, 1, 0, 2, 1, 1, 3, 6, 'a', 'b', 'c', 'd', 'e'}
		k := num("k", 1)
		if k > len(b) {
			k = len(b)
		}
		return "cff", b[:len(b)-k]
	case "scriptlist-alias": // builder in area_total_gtablists.go
		return "gsub", totalGtablistsAliased(num("s", 3), num("l", 4), num("f", 5), true)
	case "gsub81-alias":
		return "gsub", totalGsub81Aliased(num("nb", 2), num("nl", 2))
	case "gpos21-alias":
		return "gpos", totalGpos21Aliased(num("k", 4))
	case "gpos51-alias": // GPOS 5.1, markClassCount 0, componentCount 65535, n aliased LigatureAttach offsets
		n := num("n", 2)
		st := []byte{0, 1, 0, 12, 0, 18, 0, 0, 0, 24, 0, 26} // fmt, markCov@12, ligCov@18, mcc 0, markArray@24, ligArray@26
		st = append(st, 0, 1, 0, 1, 0, 5)                    // mark coverage: glyph 5
		st = append(st, 0, 2, 0, 1, 0, 10)                   // ligature coverage: one range 10..10+n-1
		st[len(st)-6], st[len(st)-5] = 0, 2
		lc := []byte{0, 2, 0, 1, 0, 10}
		lc = append(lc, totalBe16b(10+n-1)...)
		lc = append(lc, 0, 0)
		st = st[:18]
		st = append(st, lc...)
		mao := len(st)
		st = append(st, 0, 0) // mark array: no marks
		lao := len(st)
		copy(st[8:], totalBe16b(mao))
		copy(st[10:], totalBe16b(lao))
		st = append(st, totalBe16b(n)...)
		for i := 0; i < n; i++ {
			st = append(st, totalBe16b(2+2*n)...)
		}
		st = append(st, 0xff, 0xff) // componentCount 65535
		return "gpos", totalGtabWrap(5, st)
	case "t2op": // one Type 2 operator with crafted operands inside a minimal CFF
		var params []int
		for _, k := range []string{"a", "b"} {
			if f[k] != "" {
				params = append(params, f.Int(k))
			}
		}
		if totalT2Ops[f["op"]] == nil {
			return "", nil
		}
		return "cff", totalT2OpCase(f["op"], num("n", 0), params, f["sub"] == "1")
	case "gpos22-classes": // GPOS 2.2, both value formats 0 (records take no bytes), class1Count x class2Count
		st := []byte{0, 2, 0, 16, 0, 0, 0, 0, 0, 22, 0, 28}
		st = append(st, totalBe16b(num("c1", 2))...)
		st = append(st, totalBe16b(num("c2", 2))...)
		st = append(st, 0, 1, 0, 1, 0, 5) // coverage: glyph 5
		st = append(st, 0, 1, 0, 0, 0, 0) // class definition 1: format 1, no glyphs
		st = append(st, 0, 1, 0, 0, 0, 0) // class definition 2
		return "gpos", totalGtabWrap(2, st)
	case "cff-charset-predef": // predefined charset id with n glyphs
		return "cff", totalMiniCFFCharset(num("id", 0), num("n", 1))
	case "chain3-alias":
		return "gsub", totalChain3Aliased(num("k", 2))
	case "t2-nested-gsubrs": // §9 #26
		gs, g1 := totalT2Bomb(num("levels", 4), num("calls", 12))
		return "cff", totalCffRebuild(cffSeed(), gs, g1, -1)
	}
	return "", nil
}

// totalShowTabs prints a tag -> value map sorted by tag (tags as hex).
func totalShowTabs(m map[string]string) string {
	keys := make([]string, 0, len(m))
	for k := range m {
		keys = append(keys, k)
	}
	sort.Strings(keys)
	parts := make([]string, len(keys))
	for i, k := range keys {
		parts[i] = hx([]byte(k)) + ":" + m[k]
	}
	return strings.Join(parts, ",")
}

// totalCanonPanic maps any recovered panic text to the class "panic".
func totalCanonPanic(s string) string {
	if strings.HasPrefix(s, "panic:") {
		return "panic"
	}
	return s
}

// totalErrKind: error class of the parser error types.
func totalErrKind(err error) string { return totalErrClass(err) }

// totalModelGens: generators of the V streams of the checked-index models that live in their own
// files (area_total_<group>.go); each registers itself in init() under its group name and is
// called once per run with the context, its own generator and the seed pool.
var totalModelGens = map[string]func(c *Ctx, r *Rng, seeds []totalSeed){}

// totalFactsPath: facts.json written by /verif/extract on this run (before the harness is built).
func totalFactsPath() string {
	if p := os.Getenv("VERIF_FACTS"); p != "" {
		return p
	}
	return "/verif/lean/SfntV/Generated/facts.json"
}

func totalSiteFacts() map[string]map[string]any {
	data, err := os.ReadFile(totalFactsPath())
	if err != nil {
		return nil
	}
	var all map[string]json.RawMessage
	if json.Unmarshal(data, &all) != nil {
		return nil
	}
	out := map[string]map[string]any{}
	for k, v := range all {
		if strings.HasPrefix(k, "sites.") {
			var m map[string]any
			if json.Unmarshal(v, &m) == nil {
				out[strings.TrimPrefix(k, "sites.")] = m
			}
		}
	}
	return out
}

func totalSiteStatus(name string) string {
	m := totalSiteFacts()[name]
	if m == nil {
		return "no-inventory"
	}
	st := fmt.Sprint(m["status"])
	if st != "match" {
		detail := fmt.Sprint(m["added"], m["removed"], m["changed"])
		detail = strings.Map(func(r rune) rune {
			if r == ' ' || r == '\t' || r == '\n' {
				return '_'
			}
			return r
		}, detail)
		if len(detail) > 300 {
			detail = detail[:300]
		}
		return st + ":" + detail
	}
	if u, ok := m["without_model_operation"]; ok {
		return "unmapped:" + strings.ReplaceAll(fmt.Sprint(u), " ", "_")
	}
	return "match"
}

// totalSeedProblems: library panics while the seed pool was built (valid inputs made with the
// library's own encoders); reported by areaTotal as failing D cases, never as a harness crash.
var totalSeedProblems []string

func totalSeedBlock(name string, fn func()) {
	done := make(chan string, 1)
	go func() {
		defer func() {
			if r := recover(); r != nil {
				done <- name + " site=" + totalPanicSite() + ":" + totalPanicClass(r)
				return
			}
			done <- ""
		}()
		fn()
	}()
	select {
	case p := <-done:
		if p != "" {
			totalSeedProblems = append(totalSeedProblems, p)
		}
	case <-time.After(6 * caseTimeout):
		// building valid seeds with the library's own encoders/decoders does not return
		timeouts++
		totalSeedProblems = append(totalSeedProblems, name+" site=hang-while-building-the-seed-pool")
	}
}

// totalSafely runs a piece of GENERATOR code that calls into the library; a panic there becomes a
// failing D case (`total.genpanic`), never a crash of the harness.
func totalSafely(c *Ctx, name string, fn func()) {
	done := make(chan string, 1)
	go func() {
		defer func() {
			if r := recover(); r != nil {
				done <- totalPanicSite() + ":" + totalPanicClass(r)
				return
			}
			done <- ""
		}()
		fn()
	}()
	// A generator produces many cases; it is bounded by a watchdog on PROGRESS, not on its total run time:
	// if no new case was recorded for caseTimeout, the generator hangs inside a library call.
	progress := func() int { return c.evals + c.skipped } // skipped cases (after 3 time-outs) are progress too
	last, lastEvals := time.Now(), progress()
	for {
		select {
		case site := <-done:
			if site != "" {
				c.Stat("generator-panic", name+" "+site)
				c.Case(Direct, "total.genpanic", "gen="+name+" site="+site, true)
			}
			return
		case <-time.After(500 * time.Millisecond):
			if progress() != lastEvals {
				last, lastEvals = time.Now(), progress()
			} else if time.Since(last) > caseTimeout+2*time.Second {
				// the goroutine is abandoned (it may keep spinning): counts like a case time-out
				timeouts++
				c.Stat("generator-hang", name)
				totalGeneratorHung = true
				c.Case(Direct, "total.genpanic", "gen="+name+" site=hang-in-generator-side-library-call", true)
				return
			}
		}
	}
}

// totalGeneratorHung: a generator goroutine was abandoned while possibly still writing cases; the run
// emits nothing further from generator code that shares its state.
var totalGeneratorHung bool

// totalModelBudgetDiv: divisor of the case budget for model groups whose driver side is slow.
var totalModelBudgetDiv = map[string]int{}

// totalBounded runs generator-side library code with recover AND the case time-out; a call that does
// not return is abandoned (counted in `timeouts`) and reported as "hang".
func totalBounded(fn func() string) string {
	if timeouts >= maxTimeouts {
		return "hang" // cases are skipped anyway; do not start further possibly endless calls
	}
	done := make(chan string, 1)
	go func() { done <- guard(fn) }()
	select {
	case out := <-done:
		return out
	case <-time.After(caseTimeout):
		timeouts++
		return "hang"
	}
}

// totalLast holds the measurements of the most recent total.<decoder> execution (the
// generator runs single-threaded and reads it right after c.Case).
var totalLast totalOut

// totalGlyphCountField: field n of the sub-structure readers (16 when absent, e.g. cross-fed inputs).
func totalGlyphCountField(f Fields) int {
	if f["n"] == "" {
		return 16
	}
	return f.Int("n")
}

func totalInputLen(f Fields) int {
	n := (len(f["bytes"]) + len(f["loca"]) + len(f["hhea"])) / 2
	if f["n"] != "" {
		// sub-structure readers: the glyph count is given by the CharStrings INDEX, which needs at
		// least one offset byte per glyph
		n += f.Int("n")
	}
	return n
}

func totalErrClass(err error) string {
	var e1 *parser.NotSupportedError
	var e2 *parser.InvalidFontError
	switch {
	case errors.As(err, &e1):
		return "err:unsupported"
	case errors.As(err, &e2):
		return "err:invalid"
	}
	return "err:io"
}

func init() {
	areas["total"] = areaTotal
	for dname := range totalDecoders {
		dname := dname
		ops["total."+dname] = func(f Fields) string { return totalD(dname, f) }
	}
	// the regenerated site inventory of a modelled function against its committed expectation
	// (lean/SfntV/Tie/<name>.json): a V line, so that a changed/added/removed index, slice, make,
	// assertion or panic site, or a changed guard, breaks the tie of this property
	ops["total.sites"] = func(f Fields) string { return totalSiteStatus(f["name"]) }
	// a library panic inside generator code (seed pool, model generators): always a failure
	ops["total.genpanic"] = func(f Fields) string { return "generator-panicked:" + f["gen"] + ":" + f["site"] }
	// constructed adversaries named by their parameters (the input is rebuilt from the line alone)
	ops["total.adv"] = func(f Fields) string {
		switch f["kind"] {
		case "loca-max": // `entries` loca entries all equal to the (maximal) glyf length: empty glyphs
			n, g := f.Int("entries"), f.Int("glyf")
			var loca []byte
			for i := 0; i < n; i++ {
				loca = append(loca, totalBe32b(g)...)
			}
			loca = append(totalBe32b(0), loca...)
			return totalD("glyf", Fields{"bytes": hx(make([]byte, g)), "loca": hx(loca), "fmt": "1"})
		case "loca-straddle": // last loca entry j bytes beyond the end of glyf (format 0 and 1)
			g, j := 20, f.Int("j")
			glyf := make([]byte, g)
			var loca []byte
			if f["fmt"] == "1" {
				loca = append(totalBe32b(0), totalBe32b(g+j)...)
			} else {
				loca = append(totalBe16b(0), totalBe16b((g+j)/2)...)
			}
			return totalD("glyf", Fields{"bytes": hx(glyf), "loca": hx(loca), "fmt": f["fmt"]})
		case "ext-chain": // extension records naming the extension type again: Read refuses, or Apply must not panic
			return totalLookuplistApply(f["table"], totalExtChain(f["table"], f.Int("levels")), []int{1, 2, 3})
		case "cov-count": // count vs coverage disagreement: never panics (decoder, re-encoding, Apply on covered glyphs)
			sub := totalCovCount(f["table"], f.Int("type"), f.Int("fmt"), f.Int("cov"), f.Int("count"), f["side"])
			if sub == nil {
				return "bad-case"
			}
			b := totalGtabWrap(f.Int("type"), sub)
			if r := totalD(f["table"], Fields{"bytes": hx(b), "acc": f["acc"], "strict": f["strict"]}); r != "total" {
				return r
			}
			return totalLookuplistApply(f["table"], b, []int{101, 1, 102, 2, 1, 2, 3, 103, 3, 4})
		case "hmtx-extreme": // numberOfHMetrics vs table length
			return totalD("hmtx", Fields{"bytes": hx(make([]byte, f.Int("len"))), "hhea": hx(totalHheaFor(f.Int("hmetrics")))})
		case "cff-charset", "cff-fdselect": // sub-structure readers through the C13 hooks; n = glyph count
			return totalD(f["kind"], f)
		}
		dec, b := totalAdversary(f)
		if b == nil || totalDecoders[dec] == nil {
			return "bad-case"
		}
		return totalD(dec, Fields{"bytes": hx(b), "acc": f["acc"], "strict": f["strict"]})
	}

	// ---- verdict ops: canonical decoded values for the checked-index Lean models
	ops["total.m.kern"] = func(f Fields) string {
		return totalCanonPanic(guard(func() string {
			info, err := kern.Read(bytes.NewReader(f.Hex("bytes")))
			if err != nil {
				return totalErrClass(err)
			}
			type ent struct{ l, r, v int }
			ee := make([]ent, 0, len(info))
			for k, v := range info {
				ee = append(ee, ent{int(k.Left), int(k.Right), int(v)})
			}
			sort.Slice(ee, func(i, j int) bool {
				if ee[i].l != ee[j].l {
					return ee[i].l < ee[j].l
				}
				return ee[i].r < ee[j].r
			})
			parts := make([]string, len(ee))
			for i, e := range ee {
				parts[i] = fmt.Sprintf("%d:%d:%d", e.l, e.r, e.v)
			}
			return "ok:" + strings.Join(parts, ",")
		}))
	}
	ops["total.m.maxp"] = func(f Fields) string {
		return totalCanonPanic(guard(func() string {
			info, err := maxp.Read(bytes.NewReader(f.Hex("bytes")))
			if err != nil {
				if err == io.EOF || err == io.ErrUnexpectedEOF {
					return "err:io"
				}
				return "err:invalid"
			}
			s := fmt.Sprintf("ok:%d", info.NumGlyphs)
			if t := info.TTF; t != nil {
				s += fmt.Sprintf(";%d,%d,%d,%d,%d,%d,%d,%d,%d,%d,%d,%d,%d", t.MaxPoints, t.MaxContours,
					t.MaxCompositePoints, t.MaxCompositeContours, t.MaxZones, t.MaxTwilightPoints, t.MaxStorage,
					t.MaxFunctionDefs, t.MaxInstructionDefs, t.MaxStackElements, t.MaxSizeOfInstructions,
					t.MaxComponentElements, t.MaxComponentDepth)
			}
			return s
		}))
	}
	ops["total.m.header"] = func(f Fields) string {
		return totalCanonPanic(guard(func() string {
			info, err := header.Read(bytes.NewReader(f.Hex("bytes")))
			if err != nil {
				return totalErrKind(err)
			}
			out := map[string]string{}
			for k, r := range info.Toc {
				out[k] = fmt.Sprintf("%d:%d", r.Offset, r.Length)
			}
			return fmt.Sprintf("ok:%d;", info.ScalerType) + totalShowTabs(out)
		}))
	}
	// gdef.Read with the sub-readers' results made visible: per class table the number of
	// entries, per mark glyph set the number of glyphs (the Lean model receives the same
	// sub-reads as an abstract function tabulated by the harness: see `sub=`).
	ops["total.m.gdef"] = func(f Fields) string {
		return totalCanonPanic(guard(func() string {
			t, err := gdef.Read(bytes.NewReader(f.Hex("bytes")))
			if err != nil {
				return totalErrClass(err)
			}
			show := func(c classdef.Table) string {
				if c == nil {
					return "-"
				}
				return fmt.Sprint(len(c))
			}
			s := "ok:" + show(t.GlyphClass) + ";" + show(t.MarkAttachClass) + ";"
			if t.MarkGlyphSets == nil {
				s += "-"
			} else {
				parts := make([]string, len(t.MarkGlyphSets))
				for i, set := range t.MarkGlyphSets {
					parts[i] = fmt.Sprint(len(set))
				}
				s += "[" + strings.Join(parts, ",") + "]"
			}
			return s
		}))
	}
}

// totalGdefSubReads tabulates, for the offsets a GDEF header/mark-glyph-set list can reach, the
// outcome of the sub-readers on the same bytes: "c<pos>:<n|e…>" for classdef.Read and
// "s<pos>:<n|e…>" for coverage.ReadSet.  It is passed to the model as the abstract
// parameter (field `sub`), so that the V stream ties gdef.Read's own control flow.
func totalGdefSubReads(b []byte) string {
	rd := func(n int) int {
		if n+1 < len(b) {
			return int(b[n])<<8 | int(b[n+1])
		}
		return -1
	}
	rd32 := func(n int) int64 {
		if n+3 < len(b) {
			return int64(b[n])<<24 | int64(b[n+1])<<16 | int64(b[n+2])<<8 | int64(b[n+3])
		}
		return -1
	}
	var parts []string
	seen := map[string]bool{}
	add := func(kind byte, pos int64) {
		key := fmt.Sprintf("%c%d", kind, pos)
		if seen[key] {
			return
		}
		seen[key] = true
		out := totalBounded(func() string {
			p := parser.New(bytes.NewReader(b))
			if kind == 'c' {
				t, err := classdef.Read(p, pos)
				if err != nil {
					return "e" + strings.TrimPrefix(totalErrClass(err), "err:")
				}
				return fmt.Sprint(len(t))
			}
			t, err := coverage.ReadSet(p, pos)
			if err != nil {
				return "e" + strings.TrimPrefix(totalErrClass(err), "err:")
			}
			return fmt.Sprint(len(t))
		})
		if strings.HasPrefix(out, "panic") {
			out = "p"
		} else if out == "hang" {
			out = "ehang" // the sub-reader does not return: the V line then differs (the Go op times out too)
		}
		parts = append(parts, key+":"+out)
	}
	if o := rd(4); o > 0 {
		add('c', int64(o))
	}
	if o := rd(10); o > 0 {
		add('c', int64(o))
	}
	if o := rd(12); o > 0 && rd(2) >= 2 {
		cnt := rd(o + 2)
		for i := 0; i < cnt && i < 300; i++ {
			off := rd32(o + 4 + 4*i)
			if off < 0 {
				break
			}
			add('s', int64(o)+off)
		}
	}
	return strings.Join(parts, ",")
}

// ---------------------------------------------------------------- seeds

type totalSeed struct {
	dec   string // decoder name
	src   string // where the seed came from (stat bucket)
	bytes []byte
	extra string // further fields of the case line (" loca=… fmt=…", " hhea=…")
}

func totalRepo() string {
	if r := os.Getenv("VERIF_REPO"); r != "" {
		return r
	}
	return "/repo"
}

// totalCorpusValues parses one "go test fuzz v1" file into its values ([]byte / string args as
// bytes, integers as int64).
func totalCorpusValues(path string) (vals []any) {
	data, err := os.ReadFile(path)
	if err != nil {
		return nil
	}
	lines := strings.Split(string(data), "\n")
	if len(lines) == 0 || !strings.HasPrefix(lines[0], "go test fuzz v1") {
		return nil
	}
	for _, l := range lines[1:] {
		l = strings.TrimSpace(l)
		if l == "" {
			continue
		}
		e, err := goparser.ParseExpr(l)
		if err != nil {
			return nil
		}
		call, ok := e.(*ast.CallExpr)
		if !ok || len(call.Args) != 1 {
			return nil
		}
		arg := call.Args[0]
		neg := false
		if u, ok := arg.(*ast.UnaryExpr); ok {
			neg = u.Op.String() == "-"
			arg = u.X
		}
		lit, ok := arg.(*ast.BasicLit)
		if !ok {
			return nil
		}
		switch lit.Kind.String() {
		case "STRING":
			s, err := strconv.Unquote(lit.Value)
			if err != nil {
				return nil
			}
			vals = append(vals, []byte(s))
		case "INT":
			v, _ := strconv.ParseInt(lit.Value, 0, 64)
			if neg {
				v = -v
			}
			vals = append(vals, v)
		default:
			vals = append(vals, int64(0))
		}
	}
	return vals
}

// wrapCmap4 puts a bare format-4 subtable (FuzzFormat4 corpus) into a cmap table.
func totalWrapCmapSub(sub []byte) []byte {
	b := []byte{0, 0, 0, 1, 0, 3, 0, 1, 0, 0, 0, 12}
	return append(b, sub...)
}

func totalCorpusSeeds() []totalSeed {
	var out []totalSeed
	root := totalRepo()
	targets := map[string]string{ // <dir relative to repo>/<Fuzz target> -> decoder
		"/FuzzFont":                           "sfnt",
		"cff/FuzzFont":                        "cff",
		"cmap/FuzzCmapHeader":                 "cmap",
		"cmap/FuzzFormat4":                    "cmap4",
		"cmap/FuzzFormat12":                   "cmap4",
		"glyf/FuzzGlyf":                       "glyf",
		"head/FuzzHead":                       "head",
		"hmtx/FuzzHmtx":                       "hmtx",
		"name/FuzzNames":                      "name",
		"opentype/classdef/FuzzClassDef":      "classdef",
		"opentype/coverage/FuzzCoverageTable": "coverage",
		"opentype/gdef/FuzzGdef":              "gdef",
		"opentype/gtab/FuzzGtab":              "gsub",
		"os2/FuzzOS2":                         "os2",
		"post/FuzzPost":                       "post",
		"kern/FuzzKern":                       "kern",
		"maxp/FuzzMaxp":                       "maxp",
		"header/FuzzTables":                   "header",
	}
	var files []string
	filepath.Walk(root, func(p string, info os.FileInfo, err error) error {
		if err == nil && !info.IsDir() && strings.Contains(p, "/testdata/fuzz/") {
			files = append(files, p)
		}
		return nil
	})
	sort.Strings(files)
	for _, p := range files {
		rel := strings.TrimPrefix(p, root)
		i := strings.Index(rel, "/testdata/fuzz/")
		pkg := strings.TrimPrefix(rel[:i], "/")
		target := strings.Split(rel[i+len("/testdata/fuzz/"):], "/")[0]
		vals := totalCorpusValues(p)
		var bb [][]byte
		var nums []int64
		for _, v := range vals {
			switch v := v.(type) {
			case []byte:
				bb = append(bb, v)
			case int64:
				nums = append(nums, v)
			}
		}
		if len(bb) == 0 {
			continue
		}
		dec := targets[pkg+"/"+target]
		src := "corpus:" + pkg + "/" + target
		switch dec {
		case "glyf":
			if len(bb) >= 2 {
				lf := 0
				if len(nums) > 0 {
					lf = int(int16(nums[0]))
				}
				out = append(out, totalSeed{"glyf", src, bb[0], fmt.Sprintf(" loca=%s fmt=%d", hx(bb[1]), lf)})
			}
		case "hmtx":
			if len(bb) >= 2 {
				out = append(out, totalSeed{"hmtx", src, bb[1], " hhea=" + hx(bb[0])})
			}
		case "cmap4":
			out = append(out, totalSeed{"cmap", src, totalWrapCmapSub(bb[0]), ""})
		case "gsub":
			out = append(out, totalSeed{"gsub", src, bb[0], ""}, totalSeed{"gpos", src, bb[0], ""})
		case "coverage":
			out = append(out, totalSeed{"coverage", src, bb[0], ""}, totalSeed{"covset", src, bb[0], ""})
		case "":
			// a structure below table level: used as raw material for every decoder
			for _, b := range bb {
				out = append(out, totalSeed{"*", src, b, ""})
			}
		default:
			out = append(out, totalSeed{dec, src, bb[0], ""})
		}
	}
	return out
}

func totalMustLookups(font *sfnt.Font, desc string) gtab.LookupList {
	ll, err := builder.Parse(font, desc)
	if err != nil {
		panic("total: builder.Parse: " + err.Error())
	}
	return ll
}

// totalTablesOf splits a font file written by the library into per-table seeds.
func totalTablesOf(file []byte, src string) []totalSeed {
	info, err := header.Read(bytes.NewReader(file))
	if err != nil {
		panic("total: cannot read back a font written by the library: " + err.Error())
	}
	get := func(n string) []byte {
		r, ok := info.Toc[n]
		if !ok {
			return nil
		}
		return file[r.Offset : r.Offset+r.Length]
	}
	var out []totalSeed
	simple := map[string]string{"cmap": "cmap", "head": "head", "maxp": "maxp", "name": "name", "OS/2": "os2",
		"post": "post", "kern": "kern", "GSUB": "gsub", "GPOS": "gpos", "GDEF": "gdef", "CFF ": "cff"}
	names := make([]string, 0, len(info.Toc))
	for n := range info.Toc {
		names = append(names, n)
	}
	sort.Strings(names)
	for _, n := range names {
		if d, ok := simple[n]; ok {
			out = append(out, totalSeed{d, src + ":" + strings.TrimSpace(n), get(n), ""})
		}
	}
	if g := get("glyf"); g != nil {
		lf := 0
		if h := get("head"); len(h) >= 52 {
			lf = int(int16(h[50])<<8 | int16(h[51]))
		}
		out = append(out, totalSeed{"glyf", src + ":glyf", g, fmt.Sprintf(" loca=%s fmt=%d", hx(get("loca")), lf)})
	}
	if h := get("hmtx"); h != nil {
		out = append(out, totalSeed{"hmtx", src + ":hmtx", h, " hhea=" + hx(get("hhea"))})
	}
	return out
}

var totalSeedCache []totalSeed

// totalSeeds builds valid inputs with the repository's own encoders.
func totalSeeds() []totalSeed {
	if totalSeedCache != nil {
		return totalSeedCache
	}
	var out []totalSeed
	addFont := func(f *sfnt.Font, src string) []byte {
		var buf bytes.Buffer
		if _, err := f.Write(&buf); err != nil {
			panic("total: cannot write seed font " + src + ": " + err.Error())
		}
		b := append([]byte(nil), buf.Bytes()...)
		out = append(out, totalSeed{"sfnt", src, b, ""}, totalSeed{"header", src, b, ""})
		out = append(out, totalTablesOf(b, src)...)
		return b
	}

	totalSeedBlock("debug-fonts", func() {
		// 1. the debug font (CFF outlines), with GSUB/GPOS/GDEF built by the lookup builder
		simple := debug.MakeSimpleFont()
		addFont(simple, "simple-cff")
		rich := debug.MakeSimpleFont()
		rich.Gsub = &gtab.Info{
			ScriptList:  gtab.ScriptListInfo{},
			FeatureList: gtab.FeatureListInfo{{Tag: "liga", Lookups: []gtab.LookupIndex{0, 1, 2, 3, 4, 5}}},
			LookupList: totalMustLookups(simple, `
		GSUB1: A->B, M->N
		GSUB1: A->X, B->X, C->X, M->X, N->X
		GSUB2: A -> "AA", B -> "AA", C -> "ABAAC"
		GSUB3: A -> ["AA"], B -> ["AA"], C -> ["ABAAC"]
		GSUB4: -marks A A A -> B, A -> D, A A -> C
		GSUB5: "AAA" -> 1@0 2@1 1@0, "AAB" -> 1@0 1@1 2@0 ||
			class :alpha: = [A-K]
			class :digits: = [L-Z]
			/A B C/ :alpha: :digits: -> 2@1, :alpha: :: :digits: -> 2@2 ||
			[A B C] [A C] [A D] -> 3@0
		GSUB6: A B | C D | E F -> 1@0 2@1, B | C D E | F -> 1@2 ||
			inputclass :ABC: = ["ABC"]
			backtrackclass :DEF: = ["DEF"]
			lookaheadclass :DEF: = ["DEF"]
			/A B C/ :DEF: :: | :ABC: | :: :DEF: -> 1@0 ||
			[A] [A B C] | [A B] [A C] [B C] | [A B C] [A B C] -> 1@0 1@1 1@2
		`),
		}
		rich.Gpos = &gtab.Info{
			ScriptList:  gtab.ScriptListInfo{},
			FeatureList: gtab.FeatureListInfo{{Tag: "kern", Lookups: []gtab.LookupIndex{0, 1, 2, 3, 4}}},
			LookupList: totalMustLookups(simple, `
		GPOS1: [A-C] -> y+10 ||
			D -> dx-1, E -> dx+1, F -> dx-1, G -> dx+1, H -> x+1, I -> y+1
		GPOS2: A V -> dx-100, O O -> dx+100, "AW" -> dx-100
		GPOS2: T E -> y+100 dx-50 & y-100
		GPOS2:
		    /A L V W/
		    first V W, A L;
			second E O, V W;
			_, _, _,
			_, dx-50 & y-10, dx+10,
			_, dx-10 & y+10, dx-30
		GPOS3:
		  A: 1,1 to 2,2; B: 1,0 to 0,1; C: -1,-1 to 100,100 ||
		  M: 1,1 to 2,2; N: 1,1 to 2,2
		GPOS4:
		  mark M: 0@100,100;
		  mark N: 1@200,100;
		  base A: @400,1000 @500,1000;
		  base B: @500,1000 @600,900;
		  base C: @500,1000 @500,-1000;
		`),
		}
		rich.Gdef = &gdef.Table{
			GlyphClass:      classdef.Table{4: 1, 5: 1, 6: 2, 16: 3, 17: 3},
			MarkAttachClass: classdef.Table{16: 1, 17: 2},
			MarkGlyphSets:   []coverage.Set{{16: true}, {16: true, 17: true}, {}},
		}
		addFont(rich, "rich-cff")

	})
	totalSeedBlock("goregular", func() {
		// 2. Go Regular (TrueType outlines), whole and as a small subset
		out = append(out, totalSeed{"sfnt", "goregular", goregular.TTF, ""}, totalSeed{"header", "goregular", goregular.TTF, ""})
		out = append(out, totalTablesOf(goregular.TTF, "goregular")...)
		if gofont, err := sfnt.Read(bytes.NewReader(goregular.TTF)); err == nil {
			func() {
				defer func() { recover() }()
				sub := gofont.Subset([]glyph.ID{0, 1, 2, 3, 36, 37, 38, 68, 69, 70, 130, 131, 200, 201})
				addFont(sub, "goregular-subset")
			}()
			addFont(gofont, "goregular-rewritten")
		}

	})
	totalSeedBlock("encoder-tables", func() {
		// 3. stand-alone tables from the encoders
		k := kern.Info{}
		for i := 0; i < 20; i++ {
			k[glyph.Pair{Left: glyph.ID(3 + i%5), Right: glyph.ID(7 + i)}] = totalFunitInt16(-50 + 7*i)
		}
		out = append(out, totalSeed{"kern", "enc:kern", k.Encode(), ""})
		out = append(out, totalSeed{"kern", "enc:kern-empty", kern.Info{}.Encode(), ""})
		richGdef := &gdef.Table{
			GlyphClass:      classdef.Table{4: 1, 5: 1, 6: 2, 16: 3, 17: 3},
			MarkAttachClass: classdef.Table{16: 1, 17: 2},
			MarkGlyphSets:   []coverage.Set{{16: true}, {16: true, 17: true}, {}},
		}
		out = append(out, totalSeed{"gdef", "enc:gdef", richGdef.Encode(), ""})
		out = append(out, totalSeed{"gdef", "enc:gdef-10", (&gdef.Table{GlyphClass: classdef.Table{1: 1, 2: 3}}).Encode(), ""})
		cov := coverage.Table{3: 0, 4: 1, 5: 2, 9: 3, 20: 4, 21: 5, 22: 6, 23: 7}
		out = append(out, totalSeed{"coverage", "enc:coverage", cov.Encode(), ""}, totalSeed{"covset", "enc:coverage", cov.Encode(), ""})
		cov2 := coverage.Table{}
		for i := 0; i < 40; i++ {
			cov2[glyph.ID(10+i)] = i
		}
		out = append(out, totalSeed{"coverage", "enc:coverage-range", cov2.Encode(), ""}, totalSeed{"covset", "enc:coverage-range", cov2.Encode(), ""})
		out = append(out, totalSeed{"classdef", "enc:classdef-1", classdef.Table{5: 1, 6: 2, 7: 1, 8: 3}.Append(nil), ""})
		out = append(out, totalSeed{"classdef", "enc:classdef-2", classdef.Table{5: 1, 6: 1, 7: 1, 100: 2, 101: 2, 300: 3}.Append(nil), ""})
		out = append(out, totalSeed{"maxp", "enc:maxp-cff", (&maxp.Info{NumGlyphs: 7}).Encode(), ""})
		out = append(out, totalSeed{"maxp", "enc:maxp-ttf", (&maxp.Info{NumGlyphs: 300, TTF: &maxp.TTFInfo{MaxPoints: 9, MaxZones: 2, MaxComponentDepth: 1}}).Encode(), ""})

	})
	totalSeedBlock("cmap-formats", func() {
		// 3b. cmap tables with the subtable formats the fonts above do not contain (0, 6, 12)
		f0 := &cmap.Format0{}
		for i := range f0.Data {
			f0.Data[i] = byte(i / 2)
		}
		f12 := cmap.Format12{}
		for i := 0; i < 40; i++ {
			f12[uint32(0x1F600+i)] = glyph.ID(5 + i)
		}
		f12[0x41] = 3
		f6 := []byte{0, 6, 0, 20, 0, 0, 0, 0x41, 0, 5, 0, 1, 0, 2, 0, 0, 0, 4, 0, 5}
		mk := func(pid, eid int, sub []byte) []byte {
			b := []byte{0, 0, 0, 1}
			b = append(b, totalBe16b(pid)...)
			b = append(b, totalBe16b(eid)...)
			b = append(b, 0, 0, 0, 12)
			return append(b, sub...)
		}
		out = append(out, totalSeed{"cmap", "enc:cmap-format0", mk(1, 0, f0.Encode(0)), ""})
		out = append(out, totalSeed{"cmap", "enc:cmap-format6", mk(3, 1, f6), ""})
		out = append(out, totalSeed{"cmap", "enc:cmap-format6-mac", mk(1, 0, f6), ""})
		out = append(out, totalSeed{"cmap", "enc:cmap-format12", mk(3, 10, f12.Encode(0)), ""})

	})
	totalSeedBlock("corpora", func() {
		// 4. the repository's fuzz corpora
		out = append(out, totalCorpusSeeds()...)
	})
	totalSeedCache = out
	return out
}

// ---------------------------------------------------------------- constructed adversaries (§9)

func totalBe16b(v int) []byte { return []byte{byte(v >> 8), byte(v)} }
func totalBe32b(v int) []byte { return []byte{byte(v >> 24), byte(v >> 16), byte(v >> 8), byte(v)} }

// totalGdefAliased: `sets` mark-glyph-set offsets all pointing at one coverage table 0..last (#37).
func totalGdefAliased(sets, last int) []byte {
	b := []byte{0, 1, 0, 2, 0, 0, 0, 0, 0, 0, 0, 0, 0, 14}
	b = append(b, 0, 1)
	b = append(b, totalBe16b(sets)...)
	off := 4 + 4*sets
	for i := 0; i < sets; i++ {
		b = append(b, totalBe32b(off)...)
	}
	b = append(b, 0, 2, 0, 1) // coverage format 2, one range
	b = append(b, totalBe16b(0)...)
	b = append(b, totalBe16b(last)...)
	b = append(b, 0, 0)
	return b
}

// totalGdefMarkGlyphSets: GDEF 1.2 whose n MarkGlyphSets offsets refer, in the given pattern, to a few
// 10-byte format-2 coverage tables 0..0xFFFF, so that tables are shared by NON-adjacent entries:
// same = A,A,A…; alternating = A,B,A,B…; three-cycle = A,B,C,A,B,C…; random = seeded draw from 4 tables;
// blocks = A…A,B…B,A…A,B…B (runs of adjacent entries, then the same tables again).
func totalGdefMarkGlyphSets(pattern string, n, seed int) []byte {
	b := []byte{0, 1, 0, 2, 0, 0, 0, 0, 0, 0, 0, 0, 0, 14}
	b = append(b, 0, 1)
	b = append(b, totalBe16b(n)...)
	base := 4 + 4*n
	x := uint32(seed)*2654435761 + 12345
	k := 1
	for i := 0; i < n; i++ {
		j := 0
		switch pattern {
		case "alternating":
			j, k = i%2, 2
		case "three-cycle":
			j, k = i%3, 3
		case "random":
			x = x*1664525 + 1013904223
			j, k = int(x>>24)%4, 4
		case "blocks":
			j, k = (i*4/(n+1))%2, 2
		}
		b = append(b, totalBe32b(base+10*j)...)
	}
	for j := 0; j < k; j++ {
		b = append(b, 0, 2, 0, 1, 0, 0, 0xff, 0xff, 0, 0)
	}
	return b
}

// totalKernAliased: `subs` subtable headers `stride` bytes apart, each claiming nPairs pairs (#35).
func totalKernAliased(subs, nPairs, total int) []byte {
	b := []byte{0, 0}
	b = append(b, totalBe16b(subs)...)
	for len(b) < total {
		// every 14 bytes a subtable header: version 0, length 14, format 0, coverage 1 (horizontal),
		b = append(b, 0, 0, 0, 14, 0, 1)
		b = append(b, totalBe16b(nPairs)...)
		b = append(b, 0, 0, 0, 0, 0, 0)
	}
	return b
}

// totalClassdef2Zigzag: format 2 ranges (1..65534),(65535..0) repeated (#36).
func totalClassdef2Zigzag(pairs int) []byte {
	b := []byte{0, 2}
	b = append(b, totalBe16b(2*pairs)...)
	for i := 0; i < pairs; i++ {
		b = append(b, 0, 1, 0xff, 0xfe, 0, 1)
		b = append(b, 0xff, 0xff, 0, 0, 0, 1)
	}
	return b
}

// ---------------------------------------------------------------- structured inputs for the modelled decoders

func totalGenKern(r *Rng) []byte {
	nt := r.Intn(5)
	b := []byte{0, 0}
	if r.Chance(1, 20) {
		b[1] = 1
	}
	declared := nt
	if r.Chance(1, 8) {
		declared = nt + r.Intn(3)
	}
	b = append(b, totalBe16b(declared)...)
	for t := 0; t < nt; t++ {
		np := r.Intn(7)
		length := 14 + 6*np
		switch r.Intn(10) {
		case 0:
			length = r.Intn(20)
		case 1:
			length += r.Range(-8, 8)
		}
		ver := 0
		if r.Chance(1, 12) {
			ver = 1
		}
		format := 0
		if r.Chance(1, 12) {
			format = r.Intn(4)
		}
		flags := Pick(r, []int{1, 1, 1, 3, 9, 11, 0, 5, 0x11, 0x81, 2, 8})
		claimed := np
		if r.Chance(1, 8) {
			claimed = np + r.Range(-2, 3)
			if claimed < 0 {
				claimed = 0
			}
		}
		if r.Chance(1, 40) {
			claimed = 0xffff
		}
		b = append(b, totalBe16b(ver)...)
		b = append(b, totalBe16b(length)...)
		b = append(b, byte(format), byte(flags))
		b = append(b, totalBe16b(claimed)...)
		b = append(b, 0, 0, 0, 0, 0, 0)
		for i := 0; i < np; i++ {
			b = append(b, totalBe16b(r.Intn(3))...)
			b = append(b, totalBe16b(r.Intn(3))...)
			b = append(b, totalBe16b(Pick(r, []int{0, 1, 50, 0x7fff, 0x8000, 0xffff, 0xff00, r.Intn(65536)}))...)
		}
	}
	if r.Chance(1, 6) && len(b) > 0 {
		b = b[:r.Intn(len(b)+1)]
	}
	return b
}

func totalGenClassDef(r *Rng) []byte {
	if r.Bool() {
		n := r.Intn(6)
		b := []byte{0, 1}
		b = append(b, totalBe16b(r.Intn(40))...)
		b = append(b, totalBe16b(n)...)
		for i := 0; i < n; i++ {
			b = append(b, totalBe16b(r.Intn(4))...)
		}
		return b
	}
	n := r.Intn(4)
	b := []byte{0, 2}
	b = append(b, totalBe16b(n)...)
	g := 0
	for i := 0; i < n; i++ {
		g += r.Range(1, 5)
		e := g + r.Intn(4)
		b = append(b, totalBe16b(g)...)
		b = append(b, totalBe16b(e)...)
		b = append(b, totalBe16b(r.Intn(4))...)
		g = e
	}
	return b
}

func totalGenCoverage(r *Rng) []byte {
	if r.Bool() {
		n := r.Intn(6)
		b := []byte{0, 1}
		b = append(b, totalBe16b(n)...)
		g := 0
		for i := 0; i < n; i++ {
			g += r.Range(1, 4)
			b = append(b, totalBe16b(g)...)
		}
		return b
	}
	n := r.Intn(3)
	b := []byte{0, 2}
	b = append(b, totalBe16b(n)...)
	g, k := 0, 0
	for i := 0; i < n; i++ {
		g += r.Range(1, 5)
		e := g + r.Intn(4)
		b = append(b, totalBe16b(g)...)
		b = append(b, totalBe16b(e)...)
		b = append(b, totalBe16b(k)...)
		k += e - g + 1
		g = e
	}
	return b
}

func totalGenGdef(r *Rng) []byte {
	minor := Pick(r, []int{0, 0, 2, 2, 2, 3, 3, 1, 4})
	major := 1
	if r.Chance(1, 25) {
		major = Pick(r, []int{0, 2})
	}
	hdr := 12
	if minor >= 2 {
		hdr = 14
	}
	if minor >= 3 {
		hdr = 18
	}
	b := make([]byte, hdr)
	copy(b, totalBe16b(major))
	copy(b[2:], totalBe16b(minor))
	put := func(at int, v int) { copy(b[at:], totalBe16b(v)) }
	if r.Chance(3, 4) {
		put(4, len(b))
		b = append(b, totalGenClassDef(r)...)
	}
	if r.Chance(1, 2) {
		put(10, len(b))
		b = append(b, totalGenClassDef(r)...)
	}
	if r.Chance(1, 10) {
		put(Pick(r, []int{4, 10}), Pick(r, []int{len(b), len(b) + 5, 0xffff, 1}))
	}
	if minor >= 2 && r.Chance(4, 5) {
		pos := len(b)
		put(12, pos)
		n := r.Intn(5)
		format := 1
		if r.Chance(1, 15) {
			format = 2
		}
		b = append(b, totalBe16b(format)...)
		b = append(b, totalBe16b(n)...)
		offAt := len(b)
		for i := 0; i < n; i++ {
			b = append(b, 0, 0, 0, 0)
		}
		var prev int
		for i := 0; i < n; i++ {
			var off int
			switch {
			case i > 0 && r.Chance(1, 4):
				off = prev // aliasing
			case r.Chance(1, 12):
				off = Pick(r, []int{0, 0x7fffffff, 0xffffffff, len(b) - pos + 3, 2})
			default:
				off = len(b) - pos
				b = append(b, totalGenCoverage(r)...)
			}
			copy(b[offAt+4*i:], totalBe32b(off))
			prev = off
		}
		if r.Chance(1, 10) {
			put(12, Pick(r, []int{len(b), len(b) - 1, 0xffff}))
		}
	}
	if r.Chance(1, 6) {
		b = b[:r.Intn(len(b)+1)]
	}
	return b
}

func totalGenHeaderFile(r *Rng) []byte {
	n := r.Intn(6)
	scaler := Pick(r, []int{0x00010000, 0x4F54544F, 0x74727565, 0x00010000, 0x74746366, 0})
	b := totalBe32b(scaler)
	declared := n
	if r.Chance(1, 10) {
		declared = Pick(r, []int{n + 1, 280, 281, 0xffff, 0})
	}
	b = append(b, totalBe16b(declared)...)
	b = append(b, 0, 0, 0, 0, 0, 0)
	off := 12 + 16*n
	var body []byte
	tags := []string{"head", "cmap", "glyf", "loca", "OS/2", "name", "abcd"}
	for i := 0; i < n; i++ {
		tag := tags[(i+r.Intn(2))%len(tags)]
		if r.Chance(1, 15) {
			tag = string([]byte{byte(r.Intn(256)), 'a', 'b', byte(r.Intn(256))})
		}
		l := r.Intn(9)
		o := off
		switch r.Intn(14) {
		case 0:
			o = r.Intn(14)
		case 1:
			o = off - r.Intn(4)
		case 2:
			o = 0xfffffff0
			l = 0x10
		case 3:
			l = l + 100
		}
		b = append(b, tag...)
		b = append(b, 0, 0, 0, 0)
		b = append(b, totalBe32b(o)...)
		b = append(b, totalBe32b(l)...)
		off += (l + 3) &^ 3
		if l < 64 {
			body = append(body, r.Bytes((l+3)&^3)...)
		}
	}
	b = append(b, body...)
	if r.Chance(1, 5) {
		b = b[:r.Intn(len(b)+1)]
	}
	return b
}

func totalGenMaxp(r *Rng) []byte {
	v := Pick(r, []int{0x00005000, 0x00010000, 0x00010000, 0x00020000, 0x00005001})
	b := totalBe32b(v)
	b = append(b, totalBe16b(Pick(r, []int{0, 1, 7, 0xffff, r.Intn(65536)}))...)
	b = append(b, r.Bytes(Pick(r, []int{0, 0, 26, 26, 25, 27, 10}))...)
	if r.Chance(1, 6) {
		b = b[:r.Intn(len(b)+1)]
	}
	return b
}

// ---------------------------------------------------------------- constructed CFF adversaries (§9 #40, #26)

type totalCffIdx struct {
	start, end int // byte range of the whole INDEX
	items      [][]byte
}

func totalCffReadIndex(b []byte, at int) (totalCffIdx, bool) {
	if at+2 > len(b) {
		return totalCffIdx{}, false
	}
	n := int(b[at])<<8 | int(b[at+1])
	if n == 0 {
		return totalCffIdx{at, at + 2, nil}, true
	}
	if at+3 > len(b) {
		return totalCffIdx{}, false
	}
	os := int(b[at+2])
	if os < 1 || os > 4 || at+3+(n+1)*os > len(b) {
		return totalCffIdx{}, false
	}
	off := func(i int) int {
		v := 0
		for k := 0; k < os; k++ {
			v = v<<8 | int(b[at+3+i*os+k])
		}
		return v
	}
	base := at + 3 + (n+1)*os - 1
	res := totalCffIdx{start: at}
	for i := 0; i < n; i++ {
		lo, hi := base+off(i), base+off(i+1)
		if lo > hi || hi > len(b) {
			return totalCffIdx{}, false
		}
		res.items = append(res.items, b[lo:hi])
	}
	res.end = base + off(n)
	return res, true
}

func totalCffWriteIndex(items [][]byte) []byte {
	if len(items) == 0 {
		return []byte{0, 0}
	}
	b := totalBe16b(len(items))
	b = append(b, 4)
	o := 1
	b = append(b, totalBe32b(o)...)
	for _, it := range items {
		o += len(it)
		b = append(b, totalBe32b(o)...)
	}
	for _, it := range items {
		b = append(b, it...)
	}
	return b
}

type totalDictEnt struct {
	op   int // 12xx as 0x0c00|xx
	args []int
	raw  []byte // operands as found (kept when no integer re-encoding is needed)
}

func totalCffParseDict(d []byte) ([]totalDictEnt, bool) {
	var out []totalDictEnt
	var args []int
	rawStart := 0
	for i := 0; i < len(d); {
		b0 := int(d[i])
		switch {
		case b0 <= 21:
			op := b0
			j := i + 1
			if b0 == 12 {
				if j >= len(d) {
					return nil, false
				}
				op = 0x0c00 | int(d[j])
				j++
			}
			out = append(out, totalDictEnt{op, args, d[rawStart:i]})
			args = nil
			i = j
			rawStart = i
		case b0 == 28:
			if i+3 > len(d) {
				return nil, false
			}
			args = append(args, int(int16(uint16(d[i+1])<<8|uint16(d[i+2]))))
			i += 3
		case b0 == 29:
			if i+5 > len(d) {
				return nil, false
			}
			args = append(args, int(int32(uint32(d[i+1])<<24|uint32(d[i+2])<<16|uint32(d[i+3])<<8|uint32(d[i+4]))))
			i += 5
		case b0 == 30:
			i++
			for i < len(d) && d[i]&0x0f != 0x0f && d[i]>>4 != 0x0f {
				i++
			}
			i++
			args = append(args, 0)
		case b0 >= 32 && b0 <= 246:
			args = append(args, b0-139)
			i++
		case b0 >= 247 && b0 <= 250:
			if i+2 > len(d) {
				return nil, false
			}
			args = append(args, (b0-247)*256+int(d[i+1])+108)
			i += 2
		case b0 >= 251 && b0 <= 254:
			if i+2 > len(d) {
				return nil, false
			}
			args = append(args, -(b0-251)*256-int(d[i+1])-108)
			i += 2
		default:
			return nil, false
		}
	}
	return out, true
}

func totalDictInt5(v int) []byte { return append([]byte{29}, totalBe32b(v)...) }

// totalCffRebuild rewrites a CFF font program written by the library: new global subroutines, a
// replaced first charstring, a changed Private DICT size.  All absolute offsets of the Top DICT
// are re-encoded as 5-byte integers so that the layout can be computed in one pass.
func totalCffRebuild(b []byte, gsubrs [][]byte, glyph1 []byte, privSize int) []byte {
	if len(b) < 4 {
		return nil
	}
	hdr := int(b[2])
	names, ok1 := totalCffReadIndex(b, hdr)
	if !ok1 {
		return nil
	}
	tops, ok2 := totalCffReadIndex(b, names.end)
	if !ok2 || len(tops.items) != 1 {
		return nil
	}
	strs, ok3 := totalCffReadIndex(b, tops.end)
	if !ok3 {
		return nil
	}
	gs, ok4 := totalCffReadIndex(b, strs.end)
	if !ok4 {
		return nil
	}
	ents, ok5 := totalCffParseDict(tops.items[0])
	if !ok5 {
		return nil
	}
	get := func(op int) []int {
		for _, e := range ents {
			if e.op == op {
				return e.args
			}
		}
		return nil
	}
	cs, priv := get(17), get(18)
	if len(cs) != 1 || len(priv) != 2 {
		return nil
	}
	chars, ok6 := totalCffReadIndex(b, cs[0])
	if !ok6 || len(chars.items) < 2 {
		return nil
	}
	if gsubrs == nil {
		gsubrs = gs.items
	}
	newChars := append([][]byte{}, chars.items...)
	if glyph1 != nil {
		newChars[1] = glyph1
	}
	gsBytes := totalCffWriteIndex(gsubrs)
	csBytes := totalCffWriteIndex(newChars)

	// new top dict length (every offset operand 5 bytes)
	encode := func(shift func(int) int) []byte {
		var d []byte
		for _, e := range ents {
			switch e.op {
			case 15, 16, 17:
				v := e.args[0]
				if e.op != 15 && e.op != 16 || v > 2 { // small charset/encoding values are predefined ids
					v = shift(v)
				}
				d = append(d, totalDictInt5(v)...)
			case 18:
				sz := e.args[0]
				if privSize >= 0 {
					sz = privSize
				}
				d = append(d, totalDictInt5(sz)...)
				d = append(d, totalDictInt5(shift(e.args[1]))...)
			default:
				d = append(d, e.raw...)
			}
			if e.op >= 0x0c00 {
				d = append(d, 12, byte(e.op))
			} else {
				d = append(d, byte(e.op))
			}
		}
		return d
	}
	topLen := len(encode(func(v int) int { return v }))
	newTop := totalCffWriteIndex([][]byte{make([]byte, topLen)})
	d1 := len(newTop) - (tops.end - tops.start) // everything after the Top DICT INDEX
	d2 := d1 + len(gsBytes) - (gs.end - gs.start)
	d3 := d2 + len(csBytes) - (chars.end - chars.start)
	shift := func(v int) int {
		switch {
		case v >= chars.end:
			return v + d3
		case v >= gs.end:
			return v + d2
		case v >= tops.end:
			return v + d1
		}
		return v
	}
	var out []byte
	out = append(out, b[:tops.start]...)
	out = append(out, totalCffWriteIndex([][]byte{encode(shift)})...)
	out = append(out, b[tops.end:gs.start]...)
	out = append(out, gsBytes...)
	out = append(out, b[gs.end:chars.start]...)
	out = append(out, csBytes...)
	out = append(out, b[chars.end:]...)
	return out
}

// totalT2Bomb: `levels` global subroutines, each calling the next one `calls` times (§9 #26).
func totalT2Bomb(levels, calls int) (gsubrs [][]byte, glyph []byte) {
	// fewer than 1240 subroutines: bias 107; the operand index-107 is one byte (value+139)
	for k := 0; k < levels; k++ {
		var s []byte
		if k+1 < levels {
			for i := 0; i < calls; i++ {
				s = append(s, byte(k+1-107+139), 29) // (k+1) callgsubr
			}
		}
		s = append(s, 11) // return
		gsubrs = append(gsubrs, s)
	}
	glyph = []byte{byte(0 - 107 + 139), 29, 14} // 0 callgsubr endchar
	return
}

// totalGsubContextAliased: GSUB with one type-5 format-1 subtable whose single rule set has `rules`
// offsets all pointing at ONE rule of `glyphs` input glyphs (§9 #27).
func totalGsubContextAliased(rules, glyphs int) []byte {
	b := []byte{0, 1, 0, 0, 0, 10, 0, 12, 0, 14} // version 1.0; script list @10, feature list @12, lookup list @14
	b = append(b, 0, 0)                          // script list: no scripts
	b = append(b, 0, 0)                          // feature list: no features
	b = append(b, 0, 1, 0, 4)                    // lookup list: one lookup at +4
	b = append(b, 0, 5, 0, 0, 0, 1, 0, 8)        // lookup: type 5, flags 0, one subtable at +8
	covOff := 10 + 2*rules
	ruleOff := 2 + 2*rules + 6 // relative to the rule set (subtable + 8)
	b = append(b, 0, 1)        // format 1
	b = append(b, totalBe16b(covOff)...)
	b = append(b, 0, 1, 0, 8) // one rule set at +8
	b = append(b, totalBe16b(rules)...)
	for i := 0; i < rules; i++ {
		b = append(b, totalBe16b(ruleOff)...)
	}
	b = append(b, 0, 1, 0, 1, 0, 5) // coverage: format 1, one glyph (5)
	b = append(b, totalBe16b(glyphs)...)
	b = append(b, 0, 0) // no nested lookups
	for i := 0; i < glyphs-1; i++ {
		b = append(b, 0, 7)
	}
	return b
}

// totalGenGlyf: a glyf/loca pair with 1-3 hand-assembled simple glyphs whose contour count,
// end points, instruction length, flags and coordinate bytes are individually plausible or
// deliberately inconsistent (zero contours with data, non-monotone end points: DESIGN §9 #6).
func totalGenGlyf(r *Rng) (glyfData, loca []byte) {
	ng := r.Range(1, 3)
	offs := []int{0}
	for g := 0; g < ng; g++ {
		var b []byte
		if r.Chance(1, 8) {
			// empty glyph
		} else {
			nc := Pick(r, []int{1, 1, 2, 3, 0, 0, -1, -2, 0x7fff, 40})
			b = append(b, totalBe16b(nc)...)
			b = append(b, 0, 0, 0, 0, 0, 10, 0, 10) // bounding box
			realNc := nc
			if realNc < 0 || realNc > 6 {
				realNc = r.Intn(3)
			}
			np := 0
			for i := 0; i < realNc; i++ {
				e := np + r.Range(0, 3)
				switch r.Intn(8) {
				case 0:
					e = np - r.Range(1, 3) // non-monotone
				case 1:
					e = Pick(r, []int{0xffff, 0x7fff, 200})
				}
				b = append(b, totalBe16b(e)...)
				if e >= np && e < 64 {
					np = e + 1
				}
			}
			il := Pick(r, []int{0, 0, 0, 2, 0xffff, 1})
			b = append(b, totalBe16b(il)...)
			if il < 16 {
				b = append(b, r.Bytes(il)...)
			}
			for i := 0; i < np+r.Intn(2); i++ {
				b = append(b, Pick(r, []byte{0x01, 0x37, 0x36, 0x09, 0x08, 0x00, 0x1e, 0x21, byte(r.U64())}))
				if r.Chance(1, 6) {
					b = append(b, byte(Pick(r, []int{0, 1, 3, 255})))
				}
			}
			b = append(b, r.Bytes(r.Intn(2*np+3))...)
			if r.Chance(1, 5) && len(b) > 0 {
				b = b[:r.Intn(len(b)+1)]
			}
			if len(b)%2 == 1 {
				b = append(b, 0)
			}
		}
		glyfData = append(glyfData, b...)
		offs = append(offs, len(glyfData))
	}
	for _, o := range offs {
		loca = append(loca, totalBe16b(o/2)...)
	}
	return glyfData, loca
}

// ---------------------------------------------------------------- families: many maximal records, each legal

// totalCmapWith wraps subtables into a cmap table; `recs` directory records point at subtable
// number recs[i] (so that several records may share one subtable).
func totalCmapWith(subs [][]byte, recs []int) []byte {
	b := []byte{0, 0}
	b = append(b, totalBe16b(len(recs))...)
	offs := make([]int, len(subs))
	o := 4 + 8*len(recs)
	for i, s := range subs {
		offs[i] = o
		o += len(s)
	}
	for i, r := range recs {
		pid, eid := 3, 10
		if i > 0 {
			pid, eid = Pick(NewRng(uint64(i)), []int{0, 3}), i // distinct keys
		}
		b = append(b, totalBe16b(pid)...)
		b = append(b, totalBe16b(eid)...)
		b = append(b, totalBe32b(offs[r])...)
	}
	for _, s := range subs {
		b = append(b, s...)
	}
	return b
}

// totalCmap12Groups: format 12 with `groups` groups of `per` consecutive codes each (group i covers
// [i*stride, i*stride+per-1], glyph ids from 0): every group is legal by itself; the decoder's cap
// is on the TOTAL number of mappings (65536).
func totalCmap12Groups(groups, per, stride int) []byte {
	l := 16 + 12*groups
	s := []byte{0, 12, 0, 0}
	s = append(s, totalBe32b(l)...)
	s = append(s, 0, 0, 0, 0)
	s = append(s, totalBe32b(groups)...)
	for i := 0; i < groups; i++ {
		s = append(s, totalBe32b(i*stride)...)
		s = append(s, totalBe32b(i*stride+per-1)...)
		s = append(s, totalBe32b(0)...)
	}
	return s
}

// totalCmap4Segments: format 4 with `segs` segments; full=true: every segment spans 0..0xFFFE
// (overlapping: must be refused), full=false: the segments tile 0..0xFFFE (all legal) — plus the
// final 0xFFFF segment.
func totalCmap4Segments(segs int, full bool) []byte {
	n := segs + 1
	var endc, startc []int
	for i := 0; i < segs; i++ {
		if full {
			startc, endc = append(startc, 0), append(endc, 0xfffe)
		} else {
			w := 0xffff / segs
			lo := i * w
			hi := lo + w - 1
			if i == segs-1 {
				hi = 0xfffe
			}
			startc, endc = append(startc, lo), append(endc, hi)
		}
	}
	startc, endc = append(startc, 0xffff), append(endc, 0xffff)
	l := 16 + 8*n
	s := []byte{0, 4}
	s = append(s, totalBe16b(l)...)
	s = append(s, 0, 0)
	s = append(s, totalBe16b(2*n)...)
	s = append(s, 0, 0, 0, 0, 0, 0)
	for _, e := range endc {
		s = append(s, totalBe16b(e)...)
	}
	s = append(s, 0, 0)
	for _, e := range startc {
		s = append(s, totalBe16b(e)...)
	}
	for range startc {
		s = append(s, 0, 1) // idDelta 1
	}
	for range startc {
		s = append(s, 0, 0) // idRangeOffset 0
	}
	return s
}

// totalCoverage2Ranges: coverage format 2 with `ranges` increasing ranges of `per` glyphs.
func totalCoverage2Ranges(ranges, per int) []byte {
	b := []byte{0, 2}
	b = append(b, totalBe16b(ranges)...)
	for i := 0; i < ranges; i++ {
		b = append(b, totalBe16b(i*per)...)
		b = append(b, totalBe16b(i*per+per-1)...)
		b = append(b, totalBe16b(i*per)...)
	}
	return b
}

// totalNameAliased: `recs` Windows/Unicode/en-US records with nameIDs 0,1,2,… all pointing at the SAME
// `length` bytes of UTF-16 storage.
func totalNameAliased(recs, length int) []byte {
	b := []byte{0, 0}
	b = append(b, totalBe16b(recs)...)
	b = append(b, totalBe16b(6+12*recs)...)
	for i := 0; i < recs; i++ {
		b = append(b, 0, 3, 0, 1, 0x04, 0x09)
		b = append(b, totalBe16b(i)...)
		b = append(b, totalBe16b(length)...)
		b = append(b, 0, 0)
	}
	for i := 0; i < length/2; i++ {
		b = append(b, 0, 'A')
	}
	return b
}

// totalPost2Names: post version 2 with `glyphs` name indices all = 258 (one custom name of 255 bytes).
func totalPost2Names(glyphs int) []byte {
	b := []byte{0, 2, 0, 0}
	b = append(b, make([]byte, 28)...)
	b = append(b, totalBe16b(glyphs)...)
	for i := 0; i < glyphs; i++ {
		b = append(b, totalBe16b(258)...)
	}
	b = append(b, 255)
	for i := 0; i < 255; i++ {
		b = append(b, 'n')
	}
	return b
}

// totalHheaFor: a valid hhea table with the given numberOfHMetrics.
func totalHheaFor(hmetrics int) []byte {
	h := make([]byte, 36)
	h[1] = 1
	copy(h[34:], totalBe16b(hmetrics))
	return h
}

// totalCffNameIndex: CFF header followed by a Name INDEX with `count` empty items and the given offSize.
func totalCffNameIndex(count, offSize int) []byte {
	b := []byte{1, 0, 4, byte(offSize)}
	b = append(b, totalBe16b(count)...)
	b = append(b, byte(offSize))
	for i := 0; i <= count; i++ {
		o := totalBe32b(1)
		b = append(b, o[4-offSize:]...)
	}
	return append(b, make([]byte, 16)...)
}

// totalGsubLookupsAliased: GSUB whose lookup list has `count` offsets all pointing at ONE lookup (type 1,
// one subtable: single substitution, delta 1, coverage = one range 0..last).
func totalGsubLookupsAliased(count, last int) []byte {
	b := []byte{0, 1, 0, 0, 0, 10, 0, 12, 0, 14}
	b = append(b, 0, 0) // script list
	b = append(b, 0, 0) // feature list
	b = append(b, totalBe16b(count)...)
	for i := 0; i < count; i++ {
		b = append(b, totalBe16b(2+2*count)...)
	}
	b = append(b, 0, 1, 0, 0, 0, 1, 0, 8) // lookup: type 1, one subtable at +8
	b = append(b, 0, 1, 0, 6, 0, 1)       // Gsub1_1: coverage at +6, delta 1
	b = append(b, 0, 2, 0, 1, 0, 0)       // coverage format 2, one range
	b = append(b, totalBe16b(last)...)
	b = append(b, 0, 0)
	return b
}

// totalGdefDistinct: `sets` mark-glyph-set offsets pointing at `sets` DISTINCT 10-byte coverage tables
// 0..last (what remains of §9 #37 after the per-offset cache: 14 bytes per 65536-glyph set).
func totalGdefDistinct(sets, last int) []byte {
	b := []byte{0, 1, 0, 2, 0, 0, 0, 0, 0, 0, 0, 0, 0, 14}
	b = append(b, 0, 1)
	b = append(b, totalBe16b(sets)...)
	for i := 0; i < sets; i++ {
		b = append(b, totalBe32b(4+4*sets+10*i)...)
	}
	for i := 0; i < sets; i++ {
		b = append(b, 0, 2, 0, 1, 0, 0)
		b = append(b, totalBe16b(last)...)
		b = append(b, 0, 0)
	}
	return b
}

// totalGtabWrap: a GSUB/GPOS table with empty script and feature lists and ONE lookup of the given type
// holding the given subtable.
func totalGtabWrap(ltype int, sub []byte) []byte {
	b := []byte{0, 1, 0, 0, 0, 10, 0, 12, 0, 14, 0, 0, 0, 0, 0, 1, 0, 4}
	b = append(b, totalBe16b(ltype)...)
	b = append(b, 0, 0, 0, 1, 0, 8)
	return append(b, sub...)
}

// totalGsub81Aliased: GSUB 8.1 whose nb backtrack and nl lookahead coverage offsets all point at ONE
// 10-byte coverage table 0..65535.
func totalGsub81Aliased(nb, nl int) []byte {
	hdr := 2 + 2 + 2 + 2*nb + 2 + 2*nl + 2 + 2
	small := hdr   // input coverage (one glyph)
	big := hdr + 6 // shared coverage
	st := []byte{0, 1}
	st = append(st, totalBe16b(small)...)
	st = append(st, totalBe16b(nb)...)
	for i := 0; i < nb; i++ {
		st = append(st, totalBe16b(big)...)
	}
	st = append(st, totalBe16b(nl)...)
	for i := 0; i < nl; i++ {
		st = append(st, totalBe16b(big)...)
	}
	st = append(st, 0, 1, 0, 7)
	st = append(st, 0, 1, 0, 1, 0, 5)
	st = append(st, 0, 2, 0, 1, 0, 0, 0xff, 0xff, 0, 0)
	return totalGtabWrap(8, st)
}

// totalGpos21Aliased: GPOS 2.1 with k pair-set offsets all pointing at ONE pair set of k records
// (value formats 0), coverage = one range of k glyphs.
func totalGpos21Aliased(k int) []byte {
	setOff := 10 + 2*k
	covOff := setOff + 2 + 2*k
	st := []byte{0, 1}
	st = append(st, totalBe16b(covOff)...)
	st = append(st, 0, 0, 0, 0)
	st = append(st, totalBe16b(k)...)
	for i := 0; i < k; i++ {
		st = append(st, totalBe16b(setOff)...)
	}
	st = append(st, totalBe16b(k)...)
	for i := 0; i < k; i++ {
		st = append(st, totalBe16b(i+1)...)
	}
	st = append(st, 0, 2, 0, 1, 0, 0)
	st = append(st, totalBe16b(k-1)...)
	st = append(st, 0, 0)
	return totalGtabWrap(2, st)
}

// totalChain3Aliased: chained context format 3 with k backtrack coverage offsets all pointing at ONE
// 10-byte coverage table 0..65535.
func totalChain3Aliased(k int) []byte {
	hdr := 2 + 2 + 2*k + 2 + 2 + 2 + 2
	st := []byte{0, 3}
	st = append(st, totalBe16b(k)...)
	for i := 0; i < k; i++ {
		st = append(st, totalBe16b(hdr+6)...)
	}
	st = append(st, 0, 1)
	st = append(st, totalBe16b(hdr)...)
	st = append(st, 0, 0, 0, 0)
	st = append(st, 0, 1, 0, 1, 0, 5)
	st = append(st, 0, 2, 0, 1, 0, 0, 0xff, 0xff, 0, 0)
	return totalGtabWrap(6, st)
}

// ---------------------------------------------------------------- Type 2 charstring operator family

// totalT2Num encodes an operand of a Type 2 charstring.
func totalT2Num(v int) []byte {
	switch {
	case v >= -107 && v <= 107:
		return []byte{byte(v + 139)}
	case v >= 108 && v <= 1131:
		v -= 108
		return []byte{byte(v>>8) + 247, byte(v)}
	case v <= -108 && v >= -1131:
		v = -v - 108
		return []byte{byte(v>>8) + 251, byte(v)}
	case v >= -32768 && v <= 32767:
		return []byte{28, byte(v >> 8), byte(v)}
	}
	// "big": 16.16 fixed, integer part clipped
	if v > 32767 {
		v = 32767
	} else if v < -32768 {
		v = -32768
	}
	return []byte{255, byte(v >> 8), byte(v), 0x80, 0x00}
}

var totalT2Ops = map[string][]byte{
	"hstem": {1}, "vstem": {3}, "vmoveto": {4}, "rlineto": {5}, "hlineto": {6}, "vlineto": {7}, "rrcurveto": {8},
	"callsubr": {10}, "return": {11}, "endchar": {14}, "hstemhm": {18}, "hintmask": {19}, "cntrmask": {20},
	"rmoveto": {21}, "hmoveto": {22}, "vstemhm": {23}, "rcurveline": {24}, "rlinecurve": {25}, "vvcurveto": {26},
	"hhcurveto": {27}, "callgsubr": {29}, "vhcurveto": {30}, "hvcurveto": {31},
	"and": {12, 3}, "or": {12, 4}, "not": {12, 5}, "abs": {12, 9}, "add": {12, 10}, "sub": {12, 11}, "div": {12, 12},
	"neg": {12, 14}, "eq": {12, 15}, "drop": {12, 18}, "put": {12, 20}, "get": {12, 21}, "ifelse": {12, 22},
	"random": {12, 23}, "mul": {12, 24}, "sqrt": {12, 26}, "dup": {12, 27}, "exch": {12, 28}, "index": {12, 29},
	"roll": {12, 30}, "hflex": {12, 34}, "flex": {12, 35}, "hflex1": {12, 36}, "flex1": {12, 37},
	"reserved0": {0}, "reserved2": {2}, "esc-reserved": {12, 0}, "esc-255": {12, 255},
}

// totalT2Critical: operators whose operands are counts, indices or shifts.
var totalT2Critical = []string{"roll", "index", "put", "get", "callsubr", "callgsubr", "ifelse", "dup", "exch", "drop"}

// totalMiniCFF: a minimal CFF font program with ONE glyph whose charstring is `glyph`, the given global
// subroutines, an empty Private DICT and no local subroutines.
func totalMiniCFF(glyph []byte, gsubrs [][]byte) []byte {
	name := totalCffWriteIndex([][]byte{[]byte("A")})
	strs := totalCffWriteIndex(nil)
	gs := totalCffWriteIndex(gsubrs)
	chars := totalCffWriteIndex([][]byte{glyph})
	topLen := 5 + 1 + 5 + 5 + 1 // CharStrings offset op 17; Private size, offset op 18
	top := totalCffWriteIndex([][]byte{make([]byte, topLen)})
	csOff := 4 + len(name) + len(top) + len(strs) + len(gs)
	privOff := csOff + len(chars)
	var d []byte
	d = append(d, totalDictInt5(csOff)...)
	d = append(d, 17)
	d = append(d, totalDictInt5(0)...)
	d = append(d, totalDictInt5(privOff)...)
	d = append(d, 18)
	b := []byte{1, 0, 4, 4}
	b = append(b, name...)
	b = append(b, totalCffWriteIndex([][]byte{d})...)
	b = append(b, strs...)
	b = append(b, gs...)
	b = append(b, chars...)
	return b
}

// totalT2OpCase: `n` filler operands, then the parameters, then the operator, then endchar — in the glyph
// itself (sub=0) or in global subroutine 0 called from the glyph (sub=1).
func totalT2OpCase(op string, n int, params []int, inSub bool) []byte {
	var code []byte
	for i := 0; i < n; i++ {
		code = append(code, totalT2Num(10*(i+1))...)
	}
	for _, p := range params {
		code = append(code, totalT2Num(p)...)
	}
	code = append(code, totalT2Ops[op]...)
	if !inSub {
		code = append(code, 14)
		return totalMiniCFF(code, nil)
	}
	code = append(code, 11) // return
	glyph := append(totalT2Num(0-107), 29, 14)
	return totalMiniCFF(glyph, [][]byte{code})
}

// totalExtChain: a GSUB/GPOS table with one extension lookup whose extension record points — through
// `levels` further extension records that name the extension type again — at a real subtable (GSUB 1.1 /
// GPOS 1.1 covering glyphs 1..3).  levels = 0 is a well-formed extension lookup.
func totalExtChain(table string, levels int) []byte {
	ext, real := 7, []byte{0, 1, 0, 6, 0, 1, 0, 1, 0, 3, 0, 1, 0, 2, 0, 3}
	if table == "gpos" {
		ext, real = 9, []byte{0, 1, 0, 6, 0, 0, 0, 1, 0, 3, 0, 1, 0, 2, 0, 3}
	}
	b := []byte{0, 1, 0, 0, 0, 10, 0, 12, 0, 14, 0, 0, 0, 0, 0, 1, 0, 4}
	b = append(b, totalBe16b(ext)...)
	b = append(b, 0, 0, 0, 1, 0, 8)
	for i := 0; i < levels; i++ {
		b = append(b, 0, 1)
		b = append(b, totalBe16b(ext)...)
		b = append(b, 0, 0, 0, 8)
	}
	b = append(b, 0, 1, 0, 1, 0, 0, 0, 8) // extension record naming the real lookup type 1
	return append(b, real...)
}

// totalMiniCFFCharset: a minimal name-keyed CFF with `n` glyphs (each `endchar`) whose Top DICT names
// the predefined charset `id` (0 ISOAdobe: 229 names, 1 Expert: 166, 2 ExpertSubset: 87).
func totalMiniCFFCharset(id, n int) []byte {
	name := totalCffWriteIndex([][]byte{[]byte("A")})
	strs := totalCffWriteIndex(nil)
	gs := totalCffWriteIndex(nil)
	glyphs := make([][]byte, n)
	for i := range glyphs {
		glyphs[i] = []byte{14}
	}
	chars := totalCffWriteIndex(glyphs)
	topLen := 5 + 1 + 5 + 1 + 5 + 5 + 1
	top := totalCffWriteIndex([][]byte{make([]byte, topLen)})
	csOff := 4 + len(name) + len(top) + len(strs) + len(gs)
	privOff := csOff + len(chars)
	var d []byte
	d = append(d, totalDictInt5(id)...)
	d = append(d, 15)
	d = append(d, totalDictInt5(csOff)...)
	d = append(d, 17)
	d = append(d, totalDictInt5(0)...)
	d = append(d, totalDictInt5(privOff)...)
	d = append(d, 18)
	b := []byte{1, 0, 4, 4}
	b = append(b, name...)
	b = append(b, totalCffWriteIndex([][]byte{d})...)
	b = append(b, strs...)
	b = append(b, gs...)
	b = append(b, chars...)
	return b
}

// totalCovCount: "count vs coverage disagreement": an otherwise valid GSUB/GPOS subtable of lookup type
// typ / format fm whose coverage table lists `cov` glyphs (1..cov; bases/ligatures/mark2 101..) while the
// counted array paired with it has `count` elements, every offset in range (the elements share one
// well-formed target).  side = "mark" | "base" selects the pair of a mark-attachment subtable.
func totalCovCount(table string, typ, fm, cov, count int, side string) []byte {
	w := totalBe16b
	covTab := func(first, n int) []byte {
		b := append([]byte{0, 1}, w(n)...)
		for i := 0; i < n; i++ {
			b = append(b, w(first+i)...)
		}
		return b
	}
	classDef := func(n int) []byte { // glyphs 1..n, classes 0..n-1
		b := append([]byte{0, 1, 0, 1}, w(n)...)
		for i := 0; i < n; i++ {
			b = append(b, w(i)...)
		}
		return b
	}
	rep := func(n, v int) []byte {
		var b []byte
		for i := 0; i < n; i++ {
			b = append(b, w(v)...)
		}
		return b
	}
	cat := func(parts ...[]byte) []byte {
		var b []byte
		for _, p := range parts {
			b = append(b, p...)
		}
		return b
	}
	anchor := []byte{0, 1, 0, 5, 0, 7}
	key := fmt.Sprintf("%s%d.%d", table, typ, fm)
	// simple shape: header(hl bytes incl. count) | offsets/values | shared target | coverage [| classdef]
	simple := func(head func(covOff, extra int) []byte, hl, per int, target []byte, perVal func(h int) []byte, ncd int) []byte {
		h := hl + per*count
		covOff := h + len(target)
		b := head(covOff, covOff+4+2*cov)
		b = append(b, w(count)...)
		for i := 0; i < count; i++ {
			b = append(b, perVal(h)...)
		}
		b = append(b, target...)
		b = append(b, covTab(1, cov)...)
		if ncd > 0 {
			b = append(b, classDef(cov)...)
		}
		return b
	}
	offTo := func(h int) []byte { return w(h) }
	switch key {
	case "gsub1.2":
		return simple(func(c, _ int) []byte { return cat([]byte{0, 2}, w(c)) }, 6, 2, nil, func(int) []byte { return w(40) }, 0)
	case "gsub2.1", "gsub3.1":
		return simple(func(c, _ int) []byte { return cat([]byte{0, 1}, w(c)) }, 6, 2, []byte{0, 1, 0, 40}, offTo, 0)
	case "gsub4.1":
		return simple(func(c, _ int) []byte { return cat([]byte{0, 1}, w(c)) }, 6, 2, []byte{0, 1, 0, 4, 0, 40, 0, 2, 0, 2}, offTo, 0)
	case "gpos1.2":
		return simple(func(c, _ int) []byte { return cat([]byte{0, 2}, w(c), w(4)) }, 8, 2, nil, func(int) []byte { return w(10) }, 0)
	case "gpos2.1":
		return simple(func(c, _ int) []byte { return cat([]byte{0, 1}, w(c), w(4), w(0)) }, 10, 2, []byte{0, 1, 0, 2, 0, 10}, offTo, 0)
	case "gpos3.1":
		return simple(func(c, _ int) []byte { return cat([]byte{0, 1}, w(c)) }, 6, 4, anchor, func(h int) []byte { return cat(w(h), w(h)) }, 0)
	case "gsub5.1", "gpos7.1":
		return simple(func(c, _ int) []byte { return cat([]byte{0, 1}, w(c)) }, 6, 2, []byte{0, 1, 0, 4, 0, 2, 0, 0, 0, 2}, offTo, 0)
	case "gsub5.2", "gpos7.2":
		return simple(func(c, cd int) []byte { return cat([]byte{0, 2}, w(c), w(cd)) }, 8, 2, []byte{0, 1, 0, 4, 0, 2, 0, 0, 0, 1}, offTo, 1)
	case "gsub6.1", "gpos8.1":
		return simple(func(c, _ int) []byte { return cat([]byte{0, 1}, w(c)) }, 6, 2, []byte{0, 1, 0, 4, 0, 0, 0, 2, 0, 2, 0, 0, 0, 0}, offTo, 0)
	case "gsub6.2", "gpos8.2":
		return simple(func(c, cd int) []byte { return cat([]byte{0, 2}, w(c), w(cd), w(cd), w(cd)) }, 12, 2, []byte{0, 1, 0, 4, 0, 0, 0, 2, 0, 1, 0, 0, 0, 0}, offTo, 1)
	case "gpos4.1", "gpos5.1", "gpos6.1":
		const classes = 2
		mc, mn, bc, bn := 2, 2, 2, 2 // coverage sizes / counted sizes of the mark and the base side
		if side == "mark" {
			mc, mn = cov, count
		} else {
			bc, bn = cov, count
		}
		markCov, baseCov := covTab(1, mc), covTab(101, bc)
		markArr := w(mn)
		for i := 0; i < mn; i++ {
			markArr = cat(markArr, w(i%classes), w(2+4*mn))
		}
		markArr = append(markArr, anchor...)
		var baseArr []byte
		if typ == 5 { // LigatureArray → one shared LigatureAttach with one component
			baseArr = cat(w(bn), rep(bn, 2+2*bn), w(1), rep(classes, 2+2*classes), anchor)
		} else {
			baseArr = cat(w(bn), rep(bn*classes, 2+2*bn*classes), anchor)
		}
		o1 := 12
		o2 := o1 + len(markCov)
		o3 := o2 + len(baseCov)
		o4 := o3 + len(markArr)
		if o4+len(baseArr) > 0xFFFF {
			return nil
		}
		return cat([]byte{0, 1}, w(o1), w(o2), w(classes), w(o3), w(o4), markCov, baseCov, markArr, baseArr)
	}
	return nil
}

// totalCovCountTypes: the subtable types that pair a coverage table with a counted array.
var totalCovCountTypes = []string{
	"gsub 1 2", "gsub 2 1", "gsub 3 1", "gsub 4 1", "gsub 5 1", "gsub 5 2", "gsub 6 1", "gsub 6 2",
	"gpos 1 2", "gpos 2 1", "gpos 3 1", "gpos 4 1 mark", "gpos 4 1 base", "gpos 5 1 mark", "gpos 5 1 base",
	"gpos 6 1 mark", "gpos 6 1 base", "gpos 7 1", "gpos 7 2", "gpos 8 1", "gpos 8 2",
}

// ---------------------------------------------------------------- mutations

func totalMutate(r *Rng, b []byte) ([]byte, string) {
	c := append([]byte(nil), b...)
	if len(c) == 0 {
		return r.Bytes(r.Range(1, 16)), "random"
	}
	switch r.Intn(12) {
	case 0: // truncation
		return c[:r.Intn(len(c))], "truncate"
	case 1: // single byte
		i := r.Intn(len(c))
		c[i] = byte(r.U64())
		return c, "byte"
	case 2: // bit flip
		i := r.Intn(len(c))
		c[i] ^= 1 << uint(r.Intn(8))
		return c, "bit"
	case 3: // byte to an extreme
		i := r.Intn(len(c))
		c[i] = Pick(r, []byte{0, 0xff, 0x7f, 0x80, 1})
		return c, "byte-extreme"
	case 4, 5: // count/offset inflation of an aligned 16-bit word (headers live in the first bytes)
		lim := len(c)
		if r.Chance(2, 3) && lim > 64 {
			lim = 64
		}
		if lim >= 2 {
			i := r.Intn(lim/2) * 2
			v := Pick(r, []int{0xffff, 0x7fff, 0x8000, 0xfffe, len(c), len(c) - 1, len(c) + 1, 0, 1, 0x100})
			c[i], c[i+1] = byte(v>>8), byte(v)
		}
		return c, "word16"
	case 6: // 32-bit word
		if len(c) >= 4 {
			i := r.Intn(len(c) - 3)
			v := Pick(r, []int{0xffffffff, 0x7fffffff, 0x80000000, len(c), 0, 0x00010000, 0x7ffffff0})
			copy(c[i:], totalBe32b(v))
		}
		return c, "word32"
	case 7: // offset aliasing: copy one 16-bit word over another
		if len(c) >= 4 {
			i := r.Intn(len(c)/2) * 2
			j := r.Intn(len(c)/2) * 2
			c[j], c[j+1] = c[i], c[i+1]
		}
		return c, "alias16"
	case 8: // several byte mutations
		for k := r.Range(2, 8); k > 0; k-- {
			c[r.Intn(len(c))] = byte(r.U64())
		}
		return c, "bytes"
	case 9: // duplicate or drop a chunk
		i := r.Intn(len(c))
		n := r.Range(1, 16)
		if i+n > len(c) {
			n = len(c) - i
		}
		if r.Bool() {
			c = append(c[:i], c[i+n:]...)
			return c, "drop-chunk"
		}
		d := append([]byte(nil), c[:i+n]...)
		d = append(d, c[i:]...)
		return d, "dup-chunk"
	case 10: // keep a valid prefix, random tail
		i := r.Intn(len(c))
		copy(c[i:], r.Bytes(len(c)-i))
		return c, "random-tail"
	default: // append garbage
		return append(c, r.Bytes(r.Range(1, 64))...), "append"
	}
}

func totalFunitInt16(v int) funit.Int16 { return funit.Int16(v) }

// totalFontTableMutate mutates a whole font inside ONE table chosen uniformly from the directory (so
// that the few bytes of maxp/hhea/head/loca are hit as often as the bulk of glyf): tables stay
// individually plausible but become mutually inconsistent.
func totalFontTableMutate(r *Rng, file []byte) ([]byte, string) {
	info, err := header.Read(bytes.NewReader(file))
	if err != nil || len(info.Toc) == 0 {
		return totalMutate(r, file)
	}
	names := make([]string, 0, len(info.Toc))
	for n := range info.Toc {
		names = append(names, n)
	}
	sort.Strings(names)
	c := append([]byte(nil), file...)
	if r.Chance(1, 6) {
		// hide one table: its directory entry gets an unknown tag (or the tag of another table kind)
		n := Pick(r, names)
		nt := int(c[4])<<8 | int(c[5])
		for i := 0; i < nt && 12+16*i+4 <= len(c); i++ {
			if string(c[12+16*i:12+16*i+4]) == n {
				copy(c[12+16*i:], Pick(r, []string{"zzzz", "Zzzz", "vhea", "kern", "GDEF", "CFF ", "glyf"}))
			}
		}
		return c, "font-hide-table"
	}
	if r.Chance(1, 4) {
		// the count fields that tie tables to each other
		fields := []struct {
			tab string
			off int
		}{{"maxp", 4}, {"hhea", 34}, {"post", 32}, {"head", 50}, {"head", 18}, {"OS/2", 0}, {"cmap", 2}, {"post", 0}, {"post", 2}, {"hhea", 0}, {"maxp", 0}, {"maxp", 2}}
		f := Pick(r, fields)
		if rec, ok := info.Toc[f.tab]; ok && int(rec.Length) >= f.off+2 && int(rec.Offset+rec.Length) <= len(c) {
			at := int(rec.Offset) + f.off
			v := int(c[at])<<8 | int(c[at+1])
			v = Pick(r, []int{v + 1, v - 1, v - 2, v + 2, v / 2, 2 * v, 0, 1, 2, 3, 0xffff})
			c[at], c[at+1] = byte(v>>8), byte(v)
			return c, "font-count-field"
		}
	}
	for k := r.Range(1, 2); k > 0; k-- {
		n := Pick(r, names)
		rec := info.Toc[n]
		if rec.Length == 0 || int(rec.Offset+rec.Length) > len(c) {
			continue
		}
		tab := c[rec.Offset : rec.Offset+rec.Length]
		lim := len(tab)
		if lim > 64 && r.Chance(2, 3) {
			lim = 64
		}
		i := r.Intn(lim)
		switch r.Intn(4) {
		case 0:
			tab[i] = byte(r.U64())
		case 1:
			tab[i] ^= 1 << uint(r.Intn(8))
		case 2:
			if i+1 < len(tab) {
				i &^= 1
				v := Pick(r, []int{0xffff, 0x7fff, 0x8000, 0, 1, 2, int(tab[i])<<8 | int(tab[i+1]) + 1, int(tab[i])<<8 | int(tab[i+1]) - 1})
				tab[i], tab[i+1] = byte(v>>8), byte(v)
			}
		default:
			tab[i] = Pick(r, []byte{0, 0xff, 0x7f, 0x80, 1})
		}
	}
	return c, "font-table"
}

// totalMirrorToD re-uses the structured inputs of the model generators (verdict lines `tm<group>.<op>
// bytes=…`) for the direct predicate: the same bytes are handed to the whole decoder + accessors as
// `total.<decoder>` D lines, so that a panic of the real code on a structured input is reported with
// a concrete input (a V mismatch alone only says that the tie broke).
func totalMirrorToD(c *Ctx, r *Rng, emit func(dec, how, src string, b []byte, extra string) string) {
	type target struct {
		dec  string
		wrap func(f Fields) ([]byte, string, bool)
	}
	plain := func(f Fields) ([]byte, string, bool) {
		if f["bytes"] == "" || f["bytes"] == "-" || (f["pos"] != "" && f["pos"] != "0") {
			return nil, "", false
		}
		return f.Hex("bytes"), "", true
	}
	sub := func(pid, eid int) func(f Fields) ([]byte, string, bool) {
		return func(f Fields) ([]byte, string, bool) {
			if f["bytes"] == "" || len(f["bytes"]) < 20 {
				return nil, "", false
			}
			b := []byte{0, 0, 0, 1}
			b = append(b, totalBe16b(pid)...)
			b = append(b, totalBe16b(eid)...)
			b = append(b, 0, 0, 0, 12)
			return append(b, f.Hex("bytes")...), "", true
		}
	}
	targets := map[string]target{
		"tmnamecff.name":   {"name", plain},
		"tmmetrics.post":   {"post", plain},
		"tmmetrics.head":   {"head", plain},
		"tmmetrics.os2":    {"os2", plain},
		"tmcmapdir.decode": {"cmap", plain},
		"tmotl.coverage":   {"coverage", plain},
		"tmotl.covset":     {"covset", plain},
		"tmotl.classdef":   {"classdef", plain},
		"tmcmap4.decode":   {"cmap", sub(3, 1)},
		"tmcmap12.decode":  {"cmap", sub(3, 10)},
		"tmcmapdir.f0":     {"cmap", sub(1, 0)},
		"tmcmapdir.f6":     {"cmap", sub(3, 1)},
		"tmgsubsub.read":   {"gsub", totalWrapSubtable(0)},
		"tmseqctx.read":    {"gsub", totalWrapSubtable(5)},
		"tmchainctx.read":  {"gsub", totalWrapSubtable(6)},
		"tmgpossub.read":   {"gpos", totalWrapSubtable(0)},
		"tmmetrics.hmtx": {"hmtx", func(f Fields) ([]byte, string, bool) {
			if f["bytes"] == "-" {
				return nil, "", false
			}
			return f.Hex("bytes"), " hhea=" + f["hhea"], true
		}},
		"tmglyfdec.decode": {"glyf", func(f Fields) ([]byte, string, bool) {
			return f.Hex("bytes"), " loca=" + f["loca"] + " fmt=" + f["fmt"], true
		}},
	}
	lines := make([]string, 0, len(c.seen))
	for l := range c.seen {
		if strings.HasPrefix(l, "tm") {
			lines = append(lines, l)
		}
	}
	sort.Strings(lines)
	perOp := map[string][]string{}
	for _, l := range lines {
		op := l
		if i := strings.IndexByte(l, ' '); i >= 0 {
			op = l[:i]
		}
		if _, ok := targets[op]; ok {
			perOp[op] = append(perOp[op], l)
		}
	}
	opNames := make([]string, 0, len(perOp))
	for op := range perOp {
		opNames = append(opNames, op)
	}
	sort.Strings(opNames)
	limit := c.N/10 + 50
	for _, op := range opNames {
		ll := perOp[op]
		step := 1
		if len(ll) > limit {
			step = len(ll)/limit + 1
		}
		for i := r.Intn(step); i < len(ll); i += step {
			l := ll[i]
			rest := ""
			if j := strings.IndexByte(l, ' '); j >= 0 {
				rest = l[j+1:]
			}
			var b []byte
			var extra string
			var ok bool
			func() {
				defer func() { recover() }() // a malformed hex field of a foreign generator is skipped
				b, extra, ok = targets[op].wrap(parseFields(rest))
			}()
			if ok && len(b) <= 20000 {
				emit(targets[op].dec, "structured:"+op, "model-generator", b, extra)
			}
		}
	}
}

// ---------------------------------------------------------------- whole files re-assembled from tables

// totalSplitFont: the tables of an sfnt file (own directory parser: no library code).
func totalSplitFont(file []byte) (scaler uint32, tabs map[string][]byte, ok bool) {
	if len(file) < 12 {
		return 0, nil, false
	}
	scaler = uint32(file[0])<<24 | uint32(file[1])<<16 | uint32(file[2])<<8 | uint32(file[3])
	n := int(file[4])<<8 | int(file[5])
	if len(file) < 12+16*n {
		return 0, nil, false
	}
	tabs = map[string][]byte{}
	for i := 0; i < n; i++ {
		e := file[12+16*i : 28+16*i]
		off := int(e[8])<<24 | int(e[9])<<16 | int(e[10])<<8 | int(e[11])
		l := int(e[12])<<24 | int(e[13])<<16 | int(e[14])<<8 | int(e[15])
		if off < 0 || l < 0 || off+l > len(file) {
			return 0, nil, false
		}
		tabs[string(e[:4])] = append([]byte(nil), file[off:off+l]...)
	}
	return scaler, tabs, true
}

// totalJoinFont assembles an sfnt file (sorted directory, 4-byte alignment; checksums are not
// verified by the reader and left zero).
func totalJoinFont(scaler uint32, tabs map[string][]byte) []byte {
	names := make([]string, 0, len(tabs))
	for n := range tabs {
		names = append(names, n)
	}
	sort.Strings(names)
	b := totalBe32b(int(scaler))
	b = append(b, totalBe16b(len(names))...)
	b = append(b, 0, 0, 0, 0, 0, 0)
	off := 12 + 16*len(names)
	for _, n := range names {
		b = append(b, n...)
		b = append(b, 0, 0, 0, 0)
		b = append(b, totalBe32b(off)...)
		b = append(b, totalBe32b(len(tabs[n]))...)
		off += (len(tabs[n]) + 3) &^ 3
	}
	for _, n := range names {
		b = append(b, tabs[n]...)
		for len(b)%4 != 0 {
			b = append(b, 0)
		}
	}
	return b
}

// totalJoinFontInflated: like totalJoinFont, but table `big` is stored LAST in the file (highest
// offset), its directory record claims `extra` bytes more than exist (reaching beyond the end of the
// file), and the directory is ordered so that `big` is NOT the last record.
func totalJoinFontInflated(scaler uint32, tabs map[string][]byte, big string, extra int) []byte {
	names := make([]string, 0, len(tabs))
	for n := range tabs {
		if n != big {
			names = append(names, n)
		}
	}
	sort.Strings(names)
	dir := append([]string{big}, names...) // big first in the directory
	data := append(append([]string{}, names...), big)
	offs := map[string]int{}
	off := 12 + 16*len(dir)
	for _, n := range data {
		offs[n] = off
		off += (len(tabs[n]) + 3) &^ 3
	}
	b := totalBe32b(int(scaler))
	b = append(b, totalBe16b(len(dir))...)
	b = append(b, 0, 0, 0, 0, 0, 0)
	for _, n := range dir {
		l := len(tabs[n])
		if n == big {
			l += extra
		}
		b = append(b, n...)
		b = append(b, 0, 0, 0, 0)
		b = append(b, totalBe32b(offs[n])...)
		b = append(b, totalBe32b(l)...)
	}
	for _, n := range data {
		b = append(b, tabs[n]...)
		if n != big {
			for len(b)%4 != 0 {
				b = append(b, 0)
			}
		}
	}
	return b
}

type totalFontVariant struct {
	how  string
	file []byte
}

// totalFontVariants: tables removed (each alone and in pairs) and the glyph counts of maxp, hhea,
// hmtx, loca and post made to disagree by ±1, ±2 — alone and together with a removed table.
func totalFontVariants(file []byte) []totalFontVariant {
	scaler, tabs, ok := totalSplitFont(file)
	if !ok {
		return nil
	}
	var out []totalFontVariant
	clone := func(skip ...string) map[string][]byte {
		m := map[string][]byte{}
		for k, v := range tabs {
			m[k] = v
		}
		for _, s := range skip {
			delete(m, s)
		}
		return m
	}
	names := make([]string, 0, len(tabs))
	for n := range tabs {
		names = append(names, n)
	}
	sort.Strings(names)
	for i, a := range names {
		out = append(out, totalFontVariant{"drop:" + strings.TrimSpace(a), totalJoinFont(scaler, clone(a))})
		for _, b := range names[i+1:] {
			out = append(out, totalFontVariant{"drop2", totalJoinFont(scaler, clone(a, b))})
		}
	}
	// directory records reaching beyond the end of the file, the inflated table not being the last
	// record of the directory (header.Read must look at the table with the highest END, not at the
	// last record): decoders that trust the size of their section then allocate out of proportion
	if len(names) >= 2 {
		for _, n := range names {
			for _, extra := range []int{1, 2, 1000, 1 << 16, 1 << 20, 1 << 26} {
				out = append(out, totalFontVariant{"inflate:" + strings.TrimSpace(n), totalJoinFontInflated(scaler, tabs, n, extra)})
			}
		}
	}
	// … combined with a table whose decoder trusts the size of its section: a CFF table whose Private
	// DICT size (checked against p.Size() since b062c5e) is 60 MiB, inside a record inflated by 64 MiB
	if cffTab := tabs["CFF "]; cffTab != nil && len(names) >= 2 {
		if big := totalCffRebuild(cffTab, nil, nil, 60<<20); big != nil {
			m := clone()
			m["CFF "] = big
			out = append(out, totalFontVariant{"inflate:CFF+private-size", totalJoinFontInflated(scaler, m, "CFF ", 1<<26)})
			out = append(out, totalFontVariant{"inflate:CFF+private-size-noinflate", totalJoinFont(scaler, m)})
		}
	}
	word := func(t []byte, at, delta int) []byte {
		c := append([]byte(nil), t...)
		if at+2 <= len(c) {
			v := (int(c[at])<<8 | int(c[at+1])) + delta
			if v < 0 {
				v = 0
			}
			c[at], c[at+1] = byte(v>>8), byte(v)
		}
		return c
	}
	resize := func(t []byte, delta int) []byte { // delta in bytes
		if delta >= 0 {
			return append(append([]byte(nil), t...), make([]byte, delta)...)
		}
		if -delta >= len(t) {
			return nil
		}
		return append([]byte(nil), t[:len(t)+delta]...)
	}
	locaEntry := 2
	if h := tabs["head"]; len(h) >= 52 && (h[50] != 0 || h[51] != 0) {
		locaEntry = 4
	}
	for _, d := range []int{-2, -1, 1, 2} {
		changes := map[string]func(m map[string][]byte){
			"maxp": func(m map[string][]byte) { m["maxp"] = word(m["maxp"], 4, d) },
			"hhea": func(m map[string][]byte) { m["hhea"] = word(m["hhea"], 34, d) },
			"hmtx": func(m map[string][]byte) { m["hmtx"] = resize(m["hmtx"], 2*d) },
			"hmtx4": func(m map[string][]byte) {
				m["hmtx"] = resize(m["hmtx"], 4*d)
				m["hhea"] = word(m["hhea"], 34, d)
			},
			"loca": func(m map[string][]byte) {
				if l := m["loca"]; len(l) >= locaEntry {
					if d > 0 {
						for k := 0; k < d; k++ {
							l = append(append([]byte(nil), l...), l[len(l)-locaEntry:]...)
						}
						m["loca"] = l
					} else {
						m["loca"] = resize(l, locaEntry*d)
					}
				}
			},
			"post": func(m map[string][]byte) { m["post"] = word(m["post"], 32, d) },
		}
		keys := []string{"maxp", "hhea", "hmtx", "hmtx4", "loca", "post"}
		for _, k := range keys {
			if k != "hmtx4" && tabs[k] == nil {
				continue
			}
			for _, drop := range []string{"", "maxp", "hhea", "hmtx", "post", "OS/2", "name", "cmap"} {
				if drop == k || (drop != "" && tabs[drop] == nil) {
					continue
				}
				m := clone()
				changes[k](m)
				if drop != "" {
					delete(m, drop)
				}
				for n, v := range m {
					if v == nil {
						delete(m, n)
					}
				}
				how := fmt.Sprintf("count:%s%+d", k, d)
				if drop != "" {
					how += "+drop:" + strings.TrimSpace(drop)
				}
				out = append(out, totalFontVariant{how, totalJoinFont(scaler, m)})
			}
		}
	}
	return out
}

// totalWrapSubtable: a GSUB/GPOS subtable of a V line (pos=0) wrapped into a whole table with one lookup
// of the line's type (field `type`, or the given fixed type).
func totalWrapSubtable(fixed int) func(f Fields) ([]byte, string, bool) {
	return func(f Fields) ([]byte, string, bool) {
		if f["bytes"] == "" || (f["pos"] != "" && f["pos"] != "0") {
			return nil, "", false
		}
		tp := fixed
		if tp == 0 {
			if f["type"] == "" {
				return nil, "", false
			}
			tp = f.Int("type")
		}
		if tp < 1 || tp > 9 {
			return nil, "", false
		}
		return totalGtabWrap(tp, f.Hex("bytes")), "", true
	}
}

// ---------------------------------------------------------------- generator

func areaTotal(c *Ctx) {
	// rng.go's seeds k and k+1 are one stream shifted by one draw; derive a generator whose state
	// is a non-linear function of the seed so that different seeds give unrelated cases
	r := NewRng(c.Rng.U64() ^ (c.Rng.U64() >> 7))
	seeds := totalSeeds()
	decNames := make([]string, 0, len(totalDecoders))
	for d := range totalDecoders {
		decNames = append(decNames, d)
	}
	sort.Strings(decNames)
	c.Stat("seeds", fmt.Sprint(len(seeds)))
	for _, p := range totalSeedProblems {
		c.Stat("generator-panic", "seed-pool "+p)
		c.Case(Direct, "total.genpanic", "gen=seed-pool-"+strings.ReplaceAll(p, " ", "_"), true)
	}

	extraFor := func(dec string, seedExtra string) string {
		if seedExtra != "" {
			return seedExtra
		}
		switch dec {
		case "glyf":
			return " loca=00000000 fmt=0"
		case "hmtx":
			return " hhea="
		}
		return ""
	}
	emit := func(dec, how, src string, b []byte, extra string) string {
		out := c.Case(Direct, "total."+dec, "bytes="+hx(b)+extraFor(dec, extra), len(b) >= 4)
		cls := out
		if out == "total" {
			cls = totalLast.class
		} else if i := strings.Index(out, ":"); i >= 0 {
			cls = out[:i]
		}
		c.Stat("outcome:"+dec, cls)
		c.Stat("outcome", cls)
		c.Stat("input-size", bucket(len(b)))
		c.Stat("mutation", how)
		c.Stat("outcome-by-mutation", how+" -> "+cls)
		c.Stat("decoder", dec)
		if out != "timeout" && out != "skipped" {
			c.Stat("alloc-bytes", bucket(int(totalLast.alloc)))
			n := len(b) + 1
			c.Stat("alloc-per-input-byte", bucket(int(totalLast.alloc)/n))
			c.Stat("time-ms", bucket(int(totalLast.dur/time.Millisecond)))
		}
		if out != "total" && out != "skipped" {
			c.Stat("finding-class", dec+" "+out)
		}
		if how == "valid" && !strings.HasPrefix(src, "corpus:") {
			c.Stat("valid-seed-outcome", cls)
			if cls != "ok" {
				c.Stat("valid-seed-refused", dec+" "+src)
			}
		}
		return out
	}
	model := func(dec string, b []byte) {
		args := "bytes=" + hx(b)
		if dec == "gdef" {
			args += " sub=" + totalGdefSubReads(b)
		}
		out := c.Case(Verdict, "total.m."+dec, args, len(b) >= 4)
		cls := out
		if i := strings.Index(out, ":"); i >= 0 {
			cls = out[:i]
		}
		c.Stat("model-outcome:"+dec, cls)
	}
	modelled := map[string]bool{"kern": true, "gdef": true, "maxp": true, "header": true}
	both := func(dec, how, src string, b []byte, extra string) {
		emit(dec, how, src, b, extra)
		if modelled[dec] && len(b) <= 20000 {
			model(dec, b)
		}
	}
	big := func(s totalSeed) bool { return len(s.bytes) > 20000 }

	// 1. every seed unmodified (valid inputs: calibrates the allocation constants)
	for _, s := range seeds {
		if s.dec == "*" {
			continue
		}
		both(s.dec, "valid", s.src, s.bytes, s.extra)
		c.Stat("seed-source", s.src)
	}

	// 2. truncation at every offset of small seeds
	for _, s := range seeds {
		if s.dec == "*" || len(s.bytes) > 160 {
			continue
		}
		for n := 0; n < len(s.bytes); n++ {
			both(s.dec, "truncate-every", s.src, s.bytes[:n], s.extra)
		}
	}
	// 2b. the last 1..15 bytes cut off every seed (records that end exactly at the end of the table)
	for _, s := range seeds {
		if s.dec == "*" || len(s.bytes) <= 160 || len(s.bytes) > 20000 {
			continue
		}
		for k := 1; k <= 15 && k < len(s.bytes); k++ {
			both(s.dec, "truncate-tail", s.src, s.bytes[:len(s.bytes)-k], s.extra)
		}
	}
	// hmtx/glyf: truncation of the companion table as well
	for _, s := range seeds {
		if s.dec == "hmtx" && len(s.bytes) < 4000 {
			hh := Fields{"x": strings.TrimPrefix(s.extra, " hhea=")}.Hex("x")
			for n := 0; n < len(hh); n++ {
				emit("hmtx", "truncate-companion", s.src, s.bytes, " hhea="+hx(hh[:n]))
			}
			break
		}
	}

	// 2c. whole files re-assembled from the tables of the seed fonts: tables removed (alone and in
	// pairs), glyph counts of maxp/hhea/hmtx/loca/post disagreeing by ±1, ±2, also with a table removed
	for _, s := range seeds {
		if s.dec != "sfnt" || strings.HasPrefix(s.src, "corpus:") || len(s.bytes) > 16000 {
			continue
		}
		vv := totalFontVariants(s.bytes)
		step := 1
		if c.Tier != "thorough" && len(vv) > 220 {
			step = len(vv)/220 + 1
		}
		for i := 0; i < len(vv); i++ {
			if !strings.HasPrefix(vv[i].how, "inflate:") && (i+r.Intn(1))%step != 0 {
				continue
			}
			how := vv[i].how
			if strings.HasPrefix(how, "count:") {
				if j := strings.IndexAny(how, "+-"); j > 0 {
					c.Stat("font-assembly", how[:j])
				}
				how = "font-count-mismatch"
			} else if strings.HasPrefix(how, "inflate:") {
				c.Stat("font-assembly", how)
				how = "font-table-length-beyond-eof"
			} else {
				c.Stat("font-assembly", how)
				how = "font-tables-removed"
			}
			both("sfnt", how, s.src, vv[i].file, "")
		}
	}

	// 3. constructed adversaries for the cost clause (DESIGN §9 #26 #27 #35 #36 #37 #40).  The
	// scaled-down ones must pass; the full-size ones are expected to fail and are listed in
	// known_findings.jsonl (kern-alias passes since the repair of kern.Read).
	adv := func(args string) {
		out := c.Case(Direct, "total.adv", args, true)
		cls := out
		if out == "total" {
			cls = totalLast.class
		} else if i := strings.Index(out, ":"); i >= 0 {
			cls = out[:i]
		}
		key := args
		if strings.Contains(args, "-straddle") {
			key = strings.Fields(args)[0] + " (k/j/len/fmt varied)"
		}
		c.Stat("adversary", key+" -> "+cls)
		if out != "total" && out != "skipped" {
			c.Stat("finding-class", "adv "+args+" "+out)
		}
	}
	adv("kind=gdef-alias sets=2")
	adv("kind=kern-alias subs=300 pairs=300")
	adv("kind=classdef2-zigzag pairs=40")
	adv("kind=gsub-context-alias rules=3 glyphs=4")
	adv("kind=cff-private-size size=18")
	adv("kind=t2-nested-gsubrs levels=4 calls=12")
	// families "many maximal records, each individually legal" (size/count caps and overlap checks)
	for _, a := range []string{
		"kind=cmap12-groups groups=16 per=4096",             // exactly 65536 mappings: accepted
		"kind=cmap12-groups groups=17 per=4096",             // 69632: over the cap
		"kind=cmap12-groups groups=32 per=65536",            // 32 full groups, 412 bytes
		"kind=cmap12-groups groups=2000 per=33",             // many small groups
		"kind=cmap12-groups groups=64 per=1024 stride=1000", // overlapping groups
		"kind=cmap4-segments segs=1",                        // one segment 0..0xFFFE
		"kind=cmap4-segments segs=4 full=1",                 // the same range four times
		"kind=cmap4-segments segs=2000",                     // 2000 adjacent segments
		"kind=cmap-shared recs=200",                         // one subtable shared by 200 records
		"kind=coverage2-ranges dec=coverage ranges=1 per=65536",
		"kind=coverage2-ranges dec=covset ranges=1 per=65536",
		"kind=coverage2-ranges dec=coverage ranges=8192 per=8",
		"kind=coverage2-ranges dec=covset ranges=8192 per=8",
		"kind=classdef1-count count=65535 have=0",
		"kind=classdef1-count count=65535 have=65535",
		"kind=loca-max entries=20000 glyf=65534",
		"kind=name-alias recs=50 len=2000",
		"kind=post2-names glyphs=65535",
		"kind=hmtx-extreme hmetrics=65535 len=262140",
		"kind=hmtx-extreme hmetrics=1 len=131072",
		"kind=hmtx-extreme hmetrics=65535 len=4",
		"kind=cff-name-index count=65535 offsize=4",
		"kind=cff-name-index count=65535 offsize=1",
		"kind=cff-charset n=65535 bytes=0200010000fffd", // format 2, one range .. nLeft 65533
		"kind=cff-charset n=65535 bytes=0100010000ff",   // format 1 stops short
		"kind=cff-fdselect n=65535 bytes=030001000000ffff",
		"kind=gsub-lookups-alias count=3 last=65535",
		"kind=gsub-lookups-alias count=65535 last=65535", // over the 6000 budget
	} {
		adv(a)
	}
	// decoder alone (acc=0): re-encoding a GDEF whose sets share one 65536-glyph coverage table converts
	// the shared set once per reference (Encode calls ToTable three times per set), which is accessor cost
	// family: every Type 2 charstring operator with operands from {−N−1, −N, −1, 0, 1, N−1, N, N+1, 32767,
	// −32768, big} in the count/index/shift positions (N = number of operands below), in a glyph and in a
	// subroutine, wrapped in a minimal CFF
	{
		opNames := make([]string, 0, len(totalT2Ops))
		for o := range totalT2Ops {
			opNames = append(opNames, o)
		}
		sort.Strings(opNames)
		crit := map[string]bool{}
		for _, o := range totalT2Critical {
			crit[o] = true
		}
		k := 0
		t2 := func(args string) {
			out := c.Case(Direct, "total.adv", "kind=t2op "+args, true)
			cls := out
			if out == "total" {
				cls = totalLast.class
			} else if i := strings.Index(out, ":"); i >= 0 {
				cls = out[:i]
			}
			c.Stat("t2-operator-family", strings.Fields(args)[0]+" -> "+cls)
			if out != "total" && out != "skipped" {
				c.Stat("finding-class", "adv kind=t2op "+args+" "+out)
			}
		}
		adv("kind=t2op op=endchar") // the minimal CFF itself must decode
		for _, o := range opNames {
			ns := []int{0, 2}
			if crit[o] {
				ns = []int{0, 1, 2, 3}
			}
			for _, n := range ns {
				vals := []int{-n - 1, -n, -1, 0, 1, n - 1, n, n + 1, 32767, -32768, 1 << 20}
				t2(fmt.Sprintf("op=%s n=%d sub=%d", o, n, k%2))
				for _, a := range vals {
					k++
					t2(fmt.Sprintf("op=%s n=%d a=%d sub=%d", o, n, a, k%2))
					if !crit[o] {
						continue
					}
					for _, b := range vals {
						if c.Tier != "thorough" && (b == n-1 || b == 1<<20) {
							continue
						}
						k++
						t2(fmt.Sprintf("op=%s n=%d a=%d b=%d sub=%d", o, n, a, b, k%2))
					}
				}
			}
		}
	}

	// families "header straddling the end of the table" (two-stage length checks)
	for k := 0; k <= 15; k++ {
		for _, fm := range []int{0, 2, 4, 6, 8, 10, 12, 13, 14} {
			adv(fmt.Sprintf("kind=cmap-straddle fmt=%d k=%d", fm, k))
		}
		adv(fmt.Sprintf("kind=kern-straddle k=%d", k))
		adv(fmt.Sprintf("kind=cffindex-straddle k=%d", k))
	}
	for _, l := range []int{0, 1, 2, 3, 4, 5, 255} {
		for j := -1; j <= 3; j++ {
			adv(fmt.Sprintf("kind=name-straddle len=%d j=%d", l, j))
			adv(fmt.Sprintf("kind=post-straddle len=%d j=%d", l, j))
		}
	}
	for j := -2; j <= 4; j++ {
		adv(fmt.Sprintf("kind=loca-straddle fmt=0 j=%d", j))
		adv(fmt.Sprintf("kind=loca-straddle fmt=1 j=%d", j))
	}
	adv("kind=scriptlist-alias s=3 l=4 f=5 acc=0")
	adv("kind=gsub81-alias nb=1 nl=1 acc=0")
	adv("kind=gpos21-alias k=20 acc=0")
	adv("kind=chain3-alias k=1 acc=0")
	adv("kind=gpos51-alias n=1 acc=0")
	// GDEF mark glyph sets sharing full-range coverage tables between non-adjacent entries (strict, decoder alone:
	// Table.Encode writes every set separately, so the accessor run costs n x 65536 by construction)
	for _, pat := range []string{"same", "alternating", "three-cycle", "random", "blocks"} {
		for _, n := range []int{60, 200} {
			adv(fmt.Sprintf("kind=gdef-markglyphsets pattern=%s n=%d acc=0 strict=1", pat, n))
		}
	}
	adv(fmt.Sprintf("kind=gdef-markglyphsets pattern=random n=120 seed=%d acc=0 strict=1", 1+r.Intn(1000)))
	// count vs coverage disagreement for every subtable type pairing a coverage table with a counted array
	for _, t := range totalCovCountTypes {
		p := strings.Fields(t)
		side := ""
		if len(p) > 3 {
			side = " side=" + p[3]
		}
		for _, cc := range [][2]int{{3, 3}, {3, 4}, {3, 60}, {3, 2}, {3, 0}, {1, 3}, {40, 41}} {
			adv(fmt.Sprintf("kind=cov-count table=%s type=%s fmt=%s cov=%d count=%d%s", p[0], p[1], p[2], cc[0], cc[1], side))
		}
	}
	// extension lookups whose record names the extension type again (one and two levels), GSUB and GPOS
	for _, tb := range []string{"gsub", "gpos"} {
		for lv := 0; lv <= 2; lv++ {
			adv(fmt.Sprintf("kind=ext-chain table=%s levels=%d", tb, lv))
		}
	}
	// predefined CFF charsets with glyph counts around the table lengths (ISOAdobe 229, Expert 166, ExpertSubset 87)
	for id, l := range []int{229, 166, 87} {
		for _, n := range []int{1, 2, l - 1, l, l + 1, l + 2, 88, 166, 167, 229, 230, 500} {
			adv(fmt.Sprintf("kind=cff-charset-predef id=%d n=%d", id, n))
		}
	}
	adv("kind=cff-charset-predef id=3 n=2")
	// GPOS 2.2 class-count products at and over the 65536-record cap (16-bit wrap of the product)
	for _, cc := range [][2]int{{1, 1}, {2, 3}, {255, 257}, {256, 256}, {512, 128}, {128, 512}, {300, 300}, {65535, 65535}, {65535, 1}, {1, 65535}, {65536 / 4, 4}, {0, 0}, {0, 65535}, {257, 255}, {4096, 16}, {16, 4097}} {
		adv(fmt.Sprintf("kind=gpos22-classes c1=%d c2=%d", cc[0], cc[1]))
	}
	adv("kind=gdef-alias sets=20 acc=0")
	adv("kind=gdef-alias sets=2000 acc=0")
	adv("kind=gdef-distinct sets=2")
	adv("kind=gdef-distinct sets=20 acc=0")
	adv("kind=cff-private-size size=268435456")
	adv("kind=gsub-context-alias rules=12000 glyphs=12000 acc=0") // decoder alone
	if c.Tier == "thorough" {
		adv("kind=kern-alias subs=4000 pairs=12000")
		adv("kind=classdef2-zigzag pairs=400")
	}

	// 3b. structured inputs for the modelled decoders (both streams)
	for i := 0; i < c.N/4; i++ {
		switch i % 4 {
		case 0:
			both("kern", "structured", "gen", totalGenKern(r), "")
		case 1:
			both("gdef", "structured", "gen", totalGenGdef(r), "")
		case 2:
			both("header", "structured", "gen", totalGenHeaderFile(r), "")
		case 3:
			both("maxp", "structured", "gen", totalGenMaxp(r), "")
		}
		if i%2 == 0 {
			g, l := totalGenGlyf(r)
			emit("glyf", "structured", "gen", g, " loca="+hx(l)+" fmt=0")
		}
		if i%8 == 0 {
			emit("classdef", "structured", "gen", totalGenClassDef(r), "")
			emit("coverage", "structured", "gen", totalGenCoverage(r), "")
			emit("covset", "structured", "gen", totalGenCoverage(r), "")
		}
	}

	// 3a'. site inventories of every modelled function
	siteNames := []string{}
	for n := range totalSiteFacts() {
		siteNames = append(siteNames, n)
	}
	sort.Strings(siteNames)
	for _, n := range siteNames {
		c.Stat("site-inventory", c.Case(Verdict, "total.sites", "name="+n, true))
	}
	if len(siteNames) == 0 {
		c.Stat("site-inventory", "facts.json-not-found")
	}

	// 3c. verdict streams of the further checked-index models (harness/area_total_*.go register here)
	names := make([]string, 0, len(totalModelGens))
	for n := range totalModelGens {
		names = append(names, n)
	}
	sort.Strings(names)
	for _, n := range names {
		if timeouts >= maxTimeouts {
			// every further case would be skipped: nothing more can be executed in this run
			c.Stat("generator-hang", "run closed after 3 time-outs")
			return
		}
		if totalGeneratorHung {
			// an abandoned generator goroutine may still touch the context: nothing else is generated
			c.Stat("generator-hang", "run closed early")
			return
		}
		n := n
		sub := NewRng(r.U64())
		// the list-based Lean models of some groups are slow on long inputs: smaller budgets there
		// (quick tier), so that the whole property stays within its time box
		full := c.N
		if k, ok := totalModelBudgetDiv[n]; ok {
			c.N = full / k
		}
		totalSafely(c, "model-generator-"+n, func() { totalModelGens[n](c, sub, seeds) })
		c.N = full
	}
	if totalGeneratorHung || timeouts >= maxTimeouts {
		c.Stat("generator-hang", "run closed early")
		return
	}
	totalMirrorToD(c, NewRng(r.U64()), emit)

	// 4. mutations
	small := []totalSeed{}
	large := []totalSeed{}
	fonts := []totalSeed{}
	for _, s := range seeds {
		if big(s) {
			large = append(large, s)
		} else {
			small = append(small, s)
			if s.dec == "sfnt" && !strings.HasPrefix(s.src, "corpus:") {
				fonts = append(fonts, s)
			}
		}
	}
	for i := 0; i < c.N; i++ {
		var s totalSeed
		switch {
		case len(large) > 0 && r.Chance(1, 60):
			s = Pick(r, large)
		case len(fonts) > 0 && r.Chance(1, 8):
			s = Pick(r, fonts)
		default:
			s = Pick(r, small)
		}
		dec := s.dec
		if dec == "*" || r.Chance(1, 25) {
			dec = Pick(r, decNames) // cross-feeding: a table of one kind to the decoder of another
			if dec == "sfnt" || dec == "header" {
				if r.Bool() {
					dec = "cff"
				}
			}
		}
		extra := s.extra
		if dec != s.dec {
			extra = ""
		}
		var b []byte
		var how string
		if r.Chance(1, 20) {
			b, how = r.Bytes(r.Range(0, 96)), "random"
			if r.Bool() && len(s.bytes) >= 8 {
				copy(b, s.bytes[:8])
				how = "random-with-header"
			}
		} else if s.dec == "sfnt" && dec == "sfnt" && r.Chance(3, 4) {
			b, how = totalFontTableMutate(r, s.bytes)
		} else {
			b, how = totalMutate(r, s.bytes)
			if r.Chance(1, 4) {
				var h2 string
				b, h2 = totalMutate(r, b)
				how = "2x:" + how + "+" + h2
				if len(how) > 3 {
					how = "double"
				}
			}
		}
		// companion tables are mutated now and then
		if extra != "" && r.Chance(1, 5) {
			switch dec {
			case "glyf":
				f := parseFields(strings.TrimSpace(extra))
				loca, _ := totalMutate(r, f.Hex("loca"))
				extra = fmt.Sprintf(" loca=%s fmt=%s", hx(loca), Pick(r, []string{"0", "1", f["fmt"], "2", "-1"}))
			case "hmtx":
				f := parseFields(strings.TrimSpace(extra))
				hh, _ := totalMutate(r, f.Hex("hhea"))
				extra = " hhea=" + hx(hh)
			}
		}
		both(dec, how, s.src, b, extra)
	}
}
