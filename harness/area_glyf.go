package main

// Area glyf (property C11): glyf/loca encode and decode, SimpleGlyph.Decode, components.
//
// Glyph list syntax (case lines and canonical output): items joined by ",";
// "-" = nil glyph; "s:<numContours>:<bbox, 8 bytes hex>:<Encoded hex>";
// "c:<bbox hex>:<component records hex joined by ;>:<n | i<instructions hex>>".

import (
	"bytes"
	"errors"
	"fmt"
	"io"
	"sort"
	"strings"
	"sync"

	"golang.org/x/image/font/gofont/gobold"
	"golang.org/x/image/font/gofont/gobolditalic"
	"golang.org/x/image/font/gofont/goitalic"
	"golang.org/x/image/font/gofont/gomedium"
	"golang.org/x/image/font/gofont/gomediumitalic"
	"golang.org/x/image/font/gofont/gomono"
	"golang.org/x/image/font/gofont/gomonobold"
	"golang.org/x/image/font/gofont/gomonobolditalic"
	"golang.org/x/image/font/gofont/gomonoitalic"
	"golang.org/x/image/font/gofont/goregular"
	"golang.org/x/image/font/gofont/gosmallcaps"
	"golang.org/x/image/font/gofont/gosmallcapsitalic"
	ximg "golang.org/x/image/font/sfnt"
	"golang.org/x/image/math/fixed"
	"seehuhn.de/go/sfnt/header"

	"seehuhn.de/go/postscript/funit"
	"seehuhn.de/go/sfnt/glyf"
	"seehuhn.de/go/sfnt/glyph"
	"seehuhn.de/go/sfnt/parser"
)

func glyfBBoxHex(g *glyf.Glyph) string {
	w := func(v funit.Int16) []byte { return []byte{byte(uint16(v) >> 8), byte(uint16(v))} }
	var b []byte
	b = append(b, w(g.LLx)...)
	b = append(b, w(g.LLy)...)
	b = append(b, w(g.URx)...)
	b = append(b, w(g.URy)...)
	return hx(b)
}

func glyfShowGlyph(g *glyf.Glyph) string {
	if g == nil {
		return "-"
	}
	switch d := g.Data.(type) {
	case glyf.SimpleGlyph:
		return fmt.Sprintf("s:%d:%s:%s", d.NumContours, glyfBBoxHex(g), hx(d.Encoded))
	case glyf.CompositeGlyph:
		cs := make([]string, len(d.Components))
		for i, c := range d.Components {
			rec := []byte{byte(c.Flags >> 8), byte(c.Flags), byte(c.GlyphIndex >> 8), byte(c.GlyphIndex)}
			cs[i] = hx(append(rec, c.Data...))
		}
		ins := "n"
		if d.Instructions != nil {
			ins = "i" + hx(d.Instructions)
		}
		return fmt.Sprintf("c:%s:%s:%s", glyfBBoxHex(g), strings.Join(cs, ";"), ins)
	}
	return "?"
}

func glyfShowGlyphs(gg glyf.Glyphs) string {
	parts := make([]string, len(gg))
	for i, g := range gg {
		parts[i] = glyfShowGlyph(g)
	}
	return strings.Join(parts, ",")
}

func glyfParseGlyph(s string) *glyf.Glyph {
	if s == "-" {
		return nil
	}
	p := strings.Split(s, ":")
	rd := func(b []byte, k int) funit.Int16 { return funit.Int16(uint16(b[k])<<8 | uint16(b[k+1])) }
	switch {
	case p[0] == "s" && len(p) == 4:
		var nc int
		fmt.Sscan(p[1], &nc)
		bb := mustHex(p[2])
		enc := mustHex(p[3])
		return &glyf.Glyph{
			Rect16: funit.Rect16{LLx: rd(bb, 0), LLy: rd(bb, 2), URx: rd(bb, 4), URy: rd(bb, 6)},
			Data:   glyf.SimpleGlyph{NumContours: int16(nc), Encoded: enc},
		}
	case p[0] == "c" && len(p) == 4:
		bb := mustHex(p[1])
		var comps []glyf.GlyphComponent
		if p[2] != "" {
			for _, cs := range strings.Split(p[2], ";") {
				b := mustHex(cs)
				comps = append(comps, glyf.GlyphComponent{
					Flags:      glyf.ComponentFlag(uint16(b[0])<<8 | uint16(b[1])),
					GlyphIndex: glyph.ID(uint16(b[2])<<8 | uint16(b[3])),
					Data:       b[4:],
				})
			}
		}
		var ins []byte
		if p[3] != "n" {
			ins = mustHex(p[3][1:])
			if ins == nil {
				ins = []byte{}
			}
		}
		return &glyf.Glyph{
			Rect16: funit.Rect16{LLx: rd(bb, 0), LLy: rd(bb, 2), URx: rd(bb, 4), URy: rd(bb, 6)},
			Data:   glyf.CompositeGlyph{Components: comps, Instructions: ins},
		}
	}
	panic("bad glyph item " + s)
}

func glyfParseGlyphs(s string) glyf.Glyphs {
	if s == "" {
		return glyf.Glyphs{}
	}
	parts := strings.Split(s, ",")
	gg := make(glyf.Glyphs, len(parts))
	for i, p := range parts {
		gg[i] = glyfParseGlyph(p)
	}
	return gg
}

func glyfErrKind(err error) string {
	var e1 *parser.NotSupportedError
	var e2 *parser.InvalidFontError
	switch {
	case errors.As(err, &e1):
		return "err:unsupported"
	case errors.As(err, &e2):
		return "err:invalid"
	}
	return "err:other"
}

func glyfSimpleOp(f Fields) string {
	return canonPanic(guard(func() string {
		g := &glyf.SimpleGlyph{NumContours: int16(f.Int("nc")), Encoded: f.Hex("enc")}
		info, err := g.Decode()
		if err != nil {
			return "err"
		}
		cs := make([]string, len(info.Contours))
		for i, c := range info.Contours {
			ps := make([]string, len(c))
			for j, p := range c {
				on := 0
				if p.OnCurve {
					on = 1
				}
				ps[j] = fmt.Sprintf("%d/%d/%d", p.X, p.Y, on)
			}
			cs[i] = strings.Join(ps, ",")
		}
		return "ok:" + hx(info.Instructions) + ";" + strings.Join(cs, "|")
	}))
}

// ---------------------------------------------------------------- x/image oracle

var glyfRealFonts = map[string][]byte{
	"gobold": gobold.TTF, "gobolditalic": gobolditalic.TTF, "goitalic": goitalic.TTF,
	"gomedium": gomedium.TTF, "gomediumitalic": gomediumitalic.TTF, "gomono": gomono.TTF,
	"gomonobold": gomonobold.TTF, "gomonobolditalic": gomonobolditalic.TTF,
	"gomonoitalic": gomonoitalic.TTF, "goregular": goregular.TTF, "gosmallcaps": gosmallcaps.TTF,
	"gosmallcapsitalic": gosmallcapsitalic.TTF,
}

type glyfRealFont struct {
	glyphs glyf.Glyphs // decoded by /repo's glyf.Decode
	xf     *ximg.Font  // parsed by golang.org/x/image/font/sfnt
	upem   int
}

var (
	glyfRealMu    sync.Mutex
	glyfRealCache = map[string]*glyfRealFont{}
)

func glyfLoadReal(name string) *glyfRealFont {
	glyfRealMu.Lock()
	defer glyfRealMu.Unlock()
	if f, ok := glyfRealCache[name]; ok {
		return f
	}
	data, ok := glyfRealFonts[name]
	if !ok {
		panic("unknown font " + name)
	}
	r := bytes.NewReader(data)
	info, err := header.Read(r)
	if err != nil {
		panic(err)
	}
	tab := func(tag string) []byte {
		rec := info.Toc[tag]
		b := make([]byte, rec.Length)
		if _, err := r.ReadAt(b, int64(rec.Offset)); err != nil && err != io.EOF {
			panic(err)
		}
		return b
	}
	head := tab("head")
	gg, err := glyf.Decode(&glyf.Encoded{GlyfData: tab("glyf"), LocaData: tab("loca"),
		LocaFormat: int16(head[50])<<8 | int16(head[51])})
	if err != nil {
		panic(err)
	}
	xf, err := ximg.Parse(data)
	if err != nil {
		panic(err)
	}
	f := &glyfRealFont{glyphs: gg, xf: xf, upem: int(head[18])<<8 | int(head[19])}
	glyfRealCache[name] = f
	return f
}

// glyfXImageOp: segments x/image's LoadGlyph produces for glyph gid of a real font, at
// ppem = unitsPerEm (so the result is in font units, y axis flipped).  The case line also carries
// the simple-glyph bytes /repo's glyf.Decode delivers for that glyph; they are re-derived here so
// that a stale line is recognised.
func glyfXImageOp(f Fields) string {
	return canonPanic(guard(func() string {
		rf := glyfLoadReal(f["font"])
		gid := f.Int("gid")
		if gid < 0 || gid >= len(rf.glyphs) || rf.glyphs[gid] == nil {
			return "stale-case"
		}
		sg, ok := rf.glyphs[gid].Data.(glyf.SimpleGlyph)
		if !ok || int(sg.NumContours) != f.Int("nc") || !bytes.Equal(sg.Encoded, f.Hex("enc")) {
			return "stale-case"
		}
		var buf ximg.Buffer
		segs, err := rf.xf.LoadGlyph(&buf, ximg.GlyphIndex(gid), fixed.Int26_6(rf.upem), nil)
		if err != nil {
			return "err"
		}
		parts := make([]string, len(segs))
		for i, s := range segs {
			a := s.Args
			switch s.Op {
			case ximg.SegmentOpMoveTo:
				parts[i] = fmt.Sprintf("M%d/%d", int(a[0].X), int(a[0].Y))
			case ximg.SegmentOpLineTo:
				parts[i] = fmt.Sprintf("L%d/%d", int(a[0].X), int(a[0].Y))
			case ximg.SegmentOpQuadTo:
				parts[i] = fmt.Sprintf("Q%d/%d/%d/%d", int(a[0].X), int(a[0].Y), int(a[1].X), int(a[1].Y))
			default:
				parts[i] = "?"
			}
		}
		return "ok:" + strings.Join(parts, ",")
	}))
}

// glyfRealFontCases: every budget-th simple glyph of the Go fonts through SimpleGlyph.Decode
// (model), the specification decoder and the x/image oracle.
func glyfRealFontCases(c *Ctx, perFont int) {
	names := make([]string, 0, len(glyfRealFonts))
	for k := range glyfRealFonts {
		names = append(names, k)
	}
	sort.Strings(names)
	for _, name := range names {
		rf := glyfLoadReal(name)
		var simple []int
		for gid, g := range rf.glyphs {
			if g == nil {
				continue
			}
			if _, ok := g.Data.(glyf.SimpleGlyph); ok {
				simple = append(simple, gid)
			}
		}
		for k := 0; k < perFont && len(simple) > 0; k++ {
			j := c.Rng.Intn(len(simple))
			gid := simple[j]
			simple = append(simple[:j], simple[j+1:]...)
			sg := rf.glyphs[gid].Data.(glyf.SimpleGlyph)
			args := fmt.Sprintf("nc=%d enc=%s", sg.NumContours, hx(sg.Encoded))
			c.Case(Verdict, "glyf.simple", args, true)
			c.Case(Direct, "glyf.simplespec", args, true)
			out := c.Case(Direct, "glyf.ximage", fmt.Sprintf("font=%s gid=%d %s", name, gid, args), true)
			c.Stat("ximage_outcome", glyfOutcomeClass(out))
			c.Stat("ximage_font", name)
		}
	}
}

func init() {
	areas["glyf"] = areaGlyf
	ops["glyf.encode"] = func(f Fields) string {
		return canonPanic(guard(func() string {
			enc := glyfParseGlyphs(f["gs"]).Encode()
			return fmt.Sprintf("ok:%d;%s;%s", enc.LocaFormat, hx(enc.LocaData), hx(enc.GlyfData))
		}))
	}
	ops["glyf.decode"] = func(f Fields) string {
		return canonPanic(guard(func() string {
			enc := &glyf.Encoded{GlyfData: f.Hex("glyf"), LocaData: f.Hex("loca"), LocaFormat: int16(f.Int("fmt"))}
			gg, err := glyf.Decode(enc)
			if err != nil {
				return glyfErrKind(err)
			}
			return "ok:" + glyfShowGlyphs(gg)
		}))
	}
	ops["glyf.roundtrip"] = func(f Fields) string {
		return canonPanic(guard(func() string {
			enc := glyfParseGlyphs(f["gs"]).Encode()
			gg, err := glyf.Decode(enc)
			if err != nil {
				return glyfErrKind(err)
			}
			return "ok:" + glyfShowGlyphs(gg)
		}))
	}
	ops["glyf.fixed"] = func(f Fields) string {
		return canonPanic(guard(func() string {
			enc := &glyf.Encoded{GlyfData: f.Hex("glyf"), LocaData: f.Hex("loca"), LocaFormat: int16(f.Int("fmt"))}
			gg, err := glyf.Decode(enc)
			if err != nil {
				return "rejected"
			}
			e2 := gg.Encode()
			gg2, err := glyf.Decode(e2)
			if err != nil {
				return "not-fixed:re-decode fails"
			}
			if glyfShowGlyphs(gg2) != glyfShowGlyphs(gg) {
				return "not-fixed:glyphs differ"
			}
			e3 := gg2.Encode()
			if e3.LocaFormat != e2.LocaFormat || !bytes.Equal(e3.LocaData, e2.LocaData) || !bytes.Equal(e3.GlyfData, e2.GlyfData) {
				return "not-fixed:bytes differ"
			}
			return "fixed"
		}))
	}
	ops["glyf.indep"] = glyfIndepOp
	ops["glyf.decpure"] = glyfDecPureOp
	ops["glyf.encpure"] = glyfEncPureOp
	ops["glyf.simple"] = glyfSimpleOp
	ops["glyf.simplespec"] = glyfSimpleOp
	ops["glyf.ximage"] = glyfXImageOp
	ops["glyf.locafacts"] = func(f Fields) string { return "facts-ok" }
	ops["glyf.comps"] = func(f Fields) string {
		return canonPanic(guard(func() string {
			gg := glyfParseGlyphs(f["gs"])
			parts := make([]string, len(gg))
			for i, g := range gg {
				l := g.Components()
				if l == nil {
					parts[i] = "nil"
					continue
				}
				s := make([]string, len(l))
				for j, x := range l {
					s[j] = fmt.Sprint(int(x))
				}
				parts[i] = "[" + strings.Join(s, ".") + "]"
			}
			return strings.Join(parts, ",")
		}))
	}
	// direct predicate: FixComponents is a pure function of glyph and map (the model's
	// fixComponents, C11_components) — the input glyphs are the same afterwards and a second call
	// on them gives the same result
	// direct predicate (C11_components + C11_roundtrip + C11_loca): the glyphs FixComponents
	// returns, encoded as a set and decoded again, are the rewritten glyphs — instruction blocks
	// (also empty ones) still present — and the loca offsets are even
	ops["glyf.fixenc"] = func(f Fields) string {
		return canonPanic(guard(func() string {
			gg := glyfParseGlyphs(f["gs"])
			m := glyfParseGidMap(f)
			out := make(glyf.Glyphs, len(gg))
			for i, g := range gg {
				out[i] = g.FixComponents(m)
			}
			enc := out.Encode()
			gg2, err := glyf.Decode(enc)
			if err != nil {
				return glyfErrKind(err)
			}
			even := "even"
			if enc.LocaFormat == 1 {
				for i := 3; i < len(enc.LocaData); i += 4 {
					if enc.LocaData[i]&1 != 0 {
						even = "odd"
					}
				}
			}
			return "ok:" + glyfShowGlyphs(gg2) + "|" + even
		}))
	}
	ops["glyf.fixpure"] = func(f Fields) string {
		out := ops["glyf.fix"](f)
		p := strings.Split(out, "|")
		if len(p) != 4 {
			return out
		}
		if i := strings.IndexByte(p[1], ':'); i >= 0 {
			p[1] = p[1][:i]
		}
		if i := strings.IndexByte(p[2], ':'); i >= 0 {
			p[2] = p[2][:i]
		}
		return p[1] + "|" + p[2]
	}
	ops["glyf.fix"] = func(f Fields) string {
		return canonPanic(guard(func() string {
			gg := glyfParseGlyphs(f["gs"])
			m := glyfParseGidMap(f)
			// FixComponents must return new glyphs and leave its input alone: the original list
			// is shown again after the call, its Components() and its encoding are compared with
			// those taken before, and a second call on the original must give the first result.
			before := glyfShowGlyphs(gg)
			enc0 := gg.Encode()
			comps0 := glyfCompsString(gg)
			out := make(glyf.Glyphs, len(gg))
			for i, g := range gg {
				out[i] = g.FixComponents(m)
			}
			res1 := glyfShowGlyphs(out)
			after := glyfShowGlyphs(gg)
			state := "input-unchanged"
			enc1 := gg.Encode()
			switch {
			case after != before:
				state = "input-changed:" + after
			case glyfCompsString(gg) != comps0:
				state = "input-components-changed"
			case enc1.LocaFormat != enc0.LocaFormat || !bytes.Equal(enc1.LocaData, enc0.LocaData) || !bytes.Equal(enc1.GlyfData, enc0.GlyfData):
				state = "input-encoding-changed"
			}
			out2 := make(glyf.Glyphs, len(gg))
			for i, g := range gg {
				out2[i] = g.FixComponents(m)
			}
			again := "again-same"
			if r2 := glyfShowGlyphs(out2); r2 != res1 {
				again = "again-differs:" + r2
			}
			return res1 + "|" + state + "|" + again + "|comps=" + glyfCompsString(out)
		}))
	}
}

// glyfIdentityMap maps every component id that occurs to itself.
func glyfIdentityMap(gg glyf.Glyphs) string {
	var m []string
	for _, g := range gg {
		for _, id := range g.Components() {
			m = append(m, fmt.Sprintf("%d:%d", int(id), int(id)))
		}
	}
	return strings.Join(m, ";")
}

// glyfParseGidMap reads `map=a:b;...` (first entry for a key wins, as in the model's find?).
func glyfParseGidMap(f Fields) map[glyph.ID]glyph.ID {
	m := map[glyph.ID]glyph.ID{}
	for _, e := range f.List("map", ";") {
		var a, b int
		fmt.Sscanf(e, "%d:%d", &a, &b)
		if _, dup := m[glyph.ID(a)]; !dup {
			m[glyph.ID(a)] = glyph.ID(b)
		}
	}
	return m
}

// glyfRawGlyph writes one glyph without padding (the harness's own encoder: generators must not
// call into the library under test).
func glyfRawGlyph(g *glyf.Glyph) []byte {
	if g == nil {
		return nil
	}
	w := func(b []byte, v uint16) []byte { return append(b, byte(v>>8), byte(v)) }
	var b []byte
	switch d := g.Data.(type) {
	case glyf.SimpleGlyph:
		b = w(b, uint16(d.NumContours))
	default:
		b = w(b, 0xFFFF)
	}
	b = w(w(w(w(b, uint16(g.LLx)), uint16(g.LLy)), uint16(g.URx)), uint16(g.URy))
	switch d := g.Data.(type) {
	case glyf.SimpleGlyph:
		b = append(b, d.Encoded...)
	case glyf.CompositeGlyph:
		for _, c := range d.Components {
			b = w(w(b, uint16(c.Flags)), uint16(c.GlyphIndex))
			b = append(b, c.Data...)
		}
		if d.Instructions != nil {
			b = w(b, uint16(len(d.Instructions)))
			b = append(b, d.Instructions...)
		}
	}
	return b
}

// glyfUnpaddedTables lays the glyphs out without zero padding: style 0 = long loca with exact
// (possibly odd) offsets, style 1 = every odd-length glyph followed by one non-zero junk byte
// (short or long loca).  A decoder that keeps sub-slices of the table then holds simple-glyph
// bytes whose spare capacity is the next glyph's header or the junk byte.
func glyfUnpaddedTables(r *Rng, gg glyf.Glyphs, style int) (lf int, loca, data []byte) {
	offs := []int{0}
	for _, g := range gg {
		raw := glyfRawGlyph(g)
		data = append(data, raw...)
		if style == 1 && len(data)%2 != 0 {
			data = append(data, byte(r.Range(1, 255)))
		}
		offs = append(offs, len(data))
	}
	lf = 1
	if style == 1 && len(data) <= 2*0xFFFF && r.Bool() {
		lf = 0
	}
	for _, o := range offs {
		if lf == 0 {
			loca = append(loca, byte(o>>9), byte(o>>1))
		} else {
			loca = append(loca, byte(o>>24), byte(o>>16), byte(o>>8), byte(o))
		}
	}
	return lf, loca, data
}

// glyfPoisoned returns a copy of b that is a window into a larger buffer whose remainder is
// filled with 0xEE, and the whole buffer.
func glyfPoisoned(b []byte) (window, whole []byte) {
	whole = make([]byte, len(b)+6)
	copy(whole, b)
	for i := len(b); i < len(whole); i++ {
		whole[i] = 0xEE
	}
	return whole[:len(b):len(whole)], whole
}

// glyfDecPureOp (direct predicate): Decode then Encode must not write into the caller's
// tables — neither inside them (glyphs hold sub-slices of GlyfData) nor behind them (spare
// capacity) — and a second Decode of the same tables gives the same glyphs.
func glyfDecPureOp(f Fields) string {
	return canonPanic(guard(func() string {
		gw, gwhole := glyfPoisoned(f.Hex("glyf"))
		lw, lwhole := glyfPoisoned(f.Hex("loca"))
		gsnap := append([]byte(nil), gwhole...)
		lsnap := append([]byte(nil), lwhole...)
		enc := &glyf.Encoded{GlyfData: gw, LocaData: lw, LocaFormat: int16(f.Int("fmt"))}
		gg, err := glyf.Decode(enc)
		if err != nil {
			return "rejected"
		}
		first := glyfShowGlyphs(gg)
		_ = gg.Encode()
		for i := range gwhole {
			if gwhole[i] != gsnap[i] {
				return fmt.Sprintf("input-modified:glyf[%d] %02x->%02x (len %d)", i, gsnap[i], gwhole[i], len(gw))
			}
		}
		if !bytes.Equal(lwhole, lsnap) {
			return "input-modified:loca"
		}
		gg2, err := glyf.Decode(enc)
		if err != nil {
			return "second-decode-fails"
		}
		if glyfShowGlyphs(gg2) != first {
			return "second-decode-differs"
		}
		return "pure"
	}))
}

// glyfEncPureOp (direct predicate): Encode of caller-built glyphs whose byte slices are windows
// into larger 0xEE-filled buffers leaves those buffers alone.
func glyfEncPureOp(f Fields) string {
	return canonPanic(guard(func() string {
		gg := glyfParseGlyphs(f["gs"])
		var wholes, snaps [][]byte
		win := func(b []byte) []byte {
			if b == nil {
				return nil
			}
			w, whole := glyfPoisoned(b)
			wholes = append(wholes, whole)
			snaps = append(snaps, append([]byte(nil), whole...))
			return w
		}
		for _, g := range gg {
			if g == nil {
				continue
			}
			switch d := g.Data.(type) {
			case glyf.SimpleGlyph:
				d.Encoded = win(d.Encoded)
				g.Data = d
			case glyf.CompositeGlyph:
				for i := range d.Components {
					d.Components[i].Data = win(d.Components[i].Data)
				}
				d.Instructions = win(d.Instructions)
				g.Data = d
			}
		}
		before := glyfShowGlyphs(gg)
		_ = gg.Encode()
		for i := range wholes {
			if !bytes.Equal(wholes[i], snaps[i]) {
				return fmt.Sprintf("input-modified:buffer %d %s->%s", i, hx(snaps[i]), hx(wholes[i]))
			}
		}
		if glyfShowGlyphs(gg) != before {
			return "input-modified:glyphs"
		}
		return "pure"
	}))
}

// glyfIndepOp (direct predicate): results of successive calls are independent.  Encode A and
// keep the result and the glyphs decoded from it; then encode and decode B (and B again, and A
// again); A's tables must still be the bytes first returned and decode to the same glyphs, and
// the glyphs decoded first must be unchanged.
func glyfIndepOp(f Fields) string {
	return canonPanic(guard(func() string {
		ga, gb := glyfParseGlyphs(f["a"]), glyfParseGlyphs(f["b"])
		ea := ga.Encode()
		snapG := append([]byte(nil), ea.GlyfData...)
		snapL := append([]byte(nil), ea.LocaData...)
		snapF := ea.LocaFormat
		da, errA := glyf.Decode(ea)
		showA := "err"
		if errA == nil {
			showA = glyfShowGlyphs(da)
		}
		// other work in between
		eb := gb.Encode()
		db, errB := glyf.Decode(eb)
		showB := "err"
		if errB == nil {
			showB = glyfShowGlyphs(db)
		}
		eb2 := gb.Encode()
		_ = glyfParseGlyphs(f["a"]).Encode()
		switch {
		case ea.LocaFormat != snapF || !bytes.Equal(ea.LocaData, snapL):
			return "first-result-changed:loca"
		case !bytes.Equal(ea.GlyfData, snapG):
			return "first-result-changed:glyf"
		}
		if errA == nil && glyfShowGlyphs(da) != showA {
			return "first-decoded-glyphs-changed"
		}
		da2, err := glyf.Decode(ea)
		if (err != nil) != (errA != nil) || (err == nil && glyfShowGlyphs(da2) != showA) {
			return "first-result-decodes-differently"
		}
		if errB == nil && glyfShowGlyphs(db) != showB {
			return "second-decoded-glyphs-changed"
		}
		db2, err := glyf.Decode(eb)
		if (err != nil) != (errB != nil) || (err == nil && glyfShowGlyphs(db2) != showB) {
			return "second-result-decodes-differently"
		}
		if eb2.LocaFormat != eb.LocaFormat || !bytes.Equal(eb2.LocaData, eb.LocaData) || !bytes.Equal(eb2.GlyfData, eb.GlyfData) {
			return "repeat-encode-differs"
		}
		return "independent"
	}))
}

// glyfPrevSets remembers a few recent small glyph sets (as case-line text) for pair cases.
var glyfPrevSets []string

// glyfCompsString shows Components() of every glyph: nil, or the glyph indices.
func glyfCompsString(gg glyf.Glyphs) string {
	parts := make([]string, len(gg))
	for i, g := range gg {
		l := g.Components()
		if l == nil {
			parts[i] = "nil"
			continue
		}
		s := make([]string, len(l))
		for j, x := range l {
			s[j] = fmt.Sprint(int(x))
		}
		parts[i] = "[" + strings.Join(s, ".") + "]"
	}
	return strings.Join(parts, ",")
}

// ---------------------------------------------------------------- generators

// glyfGenSimpleEnc builds a valid simple-glyph description (the bytes after the glyph header).
func glyfGenSimpleEnc(c *Ctx, contourSizes []int, instr []byte, allowOverflow bool) []byte {
	r := c.Rng
	var buf []byte
	end := -1
	for _, n := range contourSizes {
		end += n
		buf = append(buf, byte(end>>8), byte(end))
	}
	numPoints := end + 1
	buf = append(buf, byte(len(instr)>>8), byte(len(instr)))
	buf = append(buf, instr...)

	// logical flags and coordinate bytes
	flags := make([]byte, numPoints)
	var xs, ys []byte
	style := r.Intn(4) // 0: fully random per point, 1: long runs of one flag, 2: mostly same, 3: mixed
	changeEvery := 40
	if numPoints >= 256 && r.Chance(1, 2) {
		style, changeEvery = 1, 2000 // runs long enough for repeat count 255
	}
	var cur byte
	lim := 300
	if allowOverflow {
		lim = 32767
	}
	for i := 0; i < numPoints; i++ {
		if i == 0 || style == 0 || (style == 1 && r.Chance(1, changeEvery)) || (style >= 2 && r.Chance(1, 3)) {
			cur = byte(r.Intn(64)) &^ 0x08
			if style == 2 && r.Chance(2, 3) {
				cur = 0x30 | byte(r.Intn(2)) // x same, y same
			}
			if r.Chance(1, 30) {
				cur |= byte(r.Intn(4)) << 6 // reserved bits
			}
		}
		f := cur
		flags[i] = f
		xm, ym := 0, 0
		if f&0x02 != 0 {
			xs = append(xs, byte(r.Intn(256)))
			xm = 1
			if f&0x10 != 0 {
				xm = 2
			}
		} else if f&0x10 == 0 {
			v := r.Range(-lim, lim)
			xs = append(xs, byte(uint16(v)>>8), byte(uint16(v)))
			xm = 3
		}
		if f&0x04 != 0 {
			ys = append(ys, byte(r.Intn(256)))
			ym = 1
			if f&0x20 != 0 {
				ym = 2
			}
		} else if f&0x20 == 0 {
			v := r.Range(-lim, lim)
			ys = append(ys, byte(uint16(v)>>8), byte(uint16(v)))
			ym = 3
		}
		c.Stat("xy_delta_mode", fmt.Sprintf("x%d.y%d", xm, ym)) // 0 same, 1 short-, 2 short+, 3 long
	}
	// run-length encode the flags
	i := 0
	for i < numPoints {
		run := 1
		for i+run < numPoints && flags[i+run] == flags[i] && run < 256 {
			run++
		}
		switch {
		case run >= 2 && r.Chance(4, 5):
			take := run
			if r.Chance(1, 4) {
				take = r.Range(2, run)
			}
			buf = append(buf, flags[i]|0x08, byte(take-1))
			c.Stat("flag_repeat", glyfBucketRepeat(take-1))
			i += take
		case r.Chance(1, 12):
			buf = append(buf, flags[i]|0x08, 0) // repeat flag with count 0
			c.Stat("flag_repeat", "0")
			i++
		default:
			buf = append(buf, flags[i])
			c.Stat("flag_repeat", "none")
			i++
		}
	}
	buf = append(buf, xs...)
	buf = append(buf, ys...)
	return buf
}

// glyfBoundaryEnc builds a simple glyph description with exactly n points (1..65536): up to three
// contours whose last end point is n-1, run-length encoded flags and mostly zero-byte deltas, so
// that even 65536 points take only a few hundred bytes.  It exercises the 16-bit boundaries of the
// point count (last endPtsOfContours entry 0xFFFE / 0xFFFF, 255/256/257, 32767/32768).
func glyfBoundaryEnc(c *Ctx, n int) (int, []byte) {
	r := c.Rng
	nc := r.Range(1, 3)
	if nc > n {
		nc = n
	}
	ends := map[int]bool{n - 1: true}
	for len(ends) < nc {
		ends[r.Intn(n)] = true
	}
	var buf []byte
	for e := 0; e < n; e++ {
		if ends[e] {
			buf = append(buf, byte(e>>8), byte(e))
		}
	}
	buf = append(buf, 0, 0) // no instructions
	var xs, ys []byte
	for i := 0; i < n; {
		l := n - i
		if l > 256 {
			l = 256
		}
		if r.Chance(1, 8) {
			l = r.Range(1, l)
		}
		f := byte(0x30 | r.Intn(2)) // x same, y same: no coordinate bytes
		if l <= 64 && r.Chance(1, 3) {
			f = byte(r.Intn(64)) &^ 0x08
			if f&0x02 == 0 && f&0x10 == 0 { // no long x deltas: keep the values small
				f |= 0x10
			}
			if f&0x04 == 0 && f&0x20 == 0 {
				f |= 0x20
			}
			for k := 0; k < l; k++ {
				if f&0x02 != 0 {
					xs = append(xs, byte(r.Intn(8)))
				}
				if f&0x04 != 0 {
					ys = append(ys, byte(r.Intn(8)))
				}
			}
		}
		if l >= 2 {
			buf = append(buf, f|0x08, byte(l-1))
		} else {
			buf = append(buf, f)
		}
		i += l
	}
	buf = append(buf, xs...)
	buf = append(buf, ys...)
	c.Stat("simple_boundary_numPoints", fmt.Sprint(n))
	return nc, buf
}

// glyfBoundaryCounts are the point counts at the 8/15/16-bit boundaries.
var glyfBoundaryCounts = []int{255, 256, 257, 32767, 32768, 65535, 65536}

func glyfBucketRepeat(n int) string {
	switch {
	case n == 0:
		return "0"
	case n == 1:
		return "1"
	case n == 255:
		return "255"
	case n < 16:
		return "2-15"
	}
	return "16-254"
}

func glyfGenContourSizes(c *Ctx) []int {
	r := c.Rng
	var nc int
	switch r.Intn(10) {
	case 0:
		nc = 0
	case 1, 2:
		nc = 1
	default:
		nc = r.Range(1, 6)
	}
	sizes := make([]int, nc)
	for i := range sizes {
		switch r.Intn(12) {
		case 0:
			sizes[i] = 1
		case 1:
			sizes[i] = Pick(r, []int{256, 257, 300, 600})
		default:
			sizes[i] = r.Range(1, 12)
		}
	}
	return sizes
}

func glyfRandBBox(r *Rng) funit.Rect16 {
	v := func() funit.Int16 {
		switch r.Intn(6) {
		case 0:
			return funit.Int16(Pick(r, []int{0, -1, 32767, -32768, 1}))
		}
		return funit.Int16(r.Range(-2048, 2048))
	}
	return funit.Rect16{LLx: v(), LLy: v(), URx: v(), URy: v()}
}

func glyfGenSimpleGlyph(c *Ctx) *glyf.Glyph {
	r := c.Rng
	sizes := glyfGenContourSizes(c)
	var instr []byte
	if r.Chance(1, 3) {
		instr = r.Bytes(r.Range(1, 20))
	}
	enc := glyfGenSimpleEnc(c, sizes, instr, false)
	c.Stat("simple_contours", bucket(len(sizes)))
	return &glyf.Glyph{Rect16: glyfRandBBox(r), Data: glyf.SimpleGlyph{NumContours: int16(len(sizes)), Encoded: enc}}
}

func glyfGenCompositeGlyph(c *Ctx, numGlyphs int) *glyf.Glyph {
	r := c.Rng
	n := r.Range(1, 5)
	if r.Chance(1, 4) {
		n = 1
	}
	withInstr := r.Chance(1, 3)
	comps := make([]glyf.GlyphComponent, n)
	instrOn := -1
	if withInstr {
		instrOn = r.Intn(n)
		if r.Chance(1, 2) {
			instrOn = n - 1 // the place the specification names
		}
	}
	for i := range comps {
		fl := glyf.ComponentFlag(r.U64()) &^ (glyf.FlagMoreComponents | glyf.FlagWeHaveInstructions |
			glyf.FlagArg1And2AreWords | glyf.FlagWeHaveAScale | glyf.FlagWeHaveAnXAndYScale | glyf.FlagWeHaveATwoByTwo)
		if r.Chance(3, 4) {
			fl &^= 0xE010 // reserved bits mostly clear
		}
		skip := 2
		if r.Bool() {
			fl |= glyf.FlagArg1And2AreWords
			skip = 4
		}
		tr := r.Intn(5)
		switch tr {
		case 1:
			fl |= glyf.FlagWeHaveAScale
			skip += 2
		case 2:
			fl |= glyf.FlagWeHaveAnXAndYScale
			skip += 4
		case 3:
			fl |= glyf.FlagWeHaveATwoByTwo
			skip += 8
		case 4: // several transform bits at once: the first in the if-chain wins
			fl |= glyf.FlagWeHaveAScale | glyf.FlagWeHaveATwoByTwo
			if r.Bool() {
				fl |= glyf.FlagWeHaveAnXAndYScale
			}
			skip += 2
		}
		c.Stat("comp_args", fmt.Sprintf("words=%v,transform=%d", fl&glyf.FlagArg1And2AreWords != 0, tr))
		if i < n-1 {
			fl |= glyf.FlagMoreComponents
		}
		if i == instrOn {
			fl |= glyf.FlagWeHaveInstructions
		}
		comps[i] = glyf.GlyphComponent{Flags: fl, GlyphIndex: glyph.ID(r.Intn(numGlyphs)), Data: r.Bytes(skip)}
	}
	var instr []byte
	if withInstr {
		switch r.Intn(4) {
		case 0:
			instr = []byte{}
		case 1:
			instr = nil // flag set, no instructions: round-trips as nil
		default:
			instr = r.Bytes(r.Range(1, 17))
		}
	}
	c.Stat("comp_count", fmt.Sprint(n))
	if instr != nil {
		c.Stat("comp_instr", "with:"+bucket(len(instr)))
	} else if withInstr {
		c.Stat("comp_instr", "flag-only")
	} else {
		c.Stat("comp_instr", "without")
	}
	return &glyf.Glyph{Rect16: glyfRandBBox(r), Data: glyf.CompositeGlyph{Components: comps, Instructions: instr}}
}

// filler is a zero-contour simple glyph whose encoded size is exactly size (even, 12..65546).
func glyfFillerGlyph(r *Rng, size int) *glyf.Glyph {
	il := size - 12
	enc := append([]byte{byte(il >> 8), byte(il)}, r.Bytes(il)...)
	return &glyf.Glyph{Data: glyf.SimpleGlyph{NumContours: 0, Encoded: enc}}
}

func glyfGlyphEncLen(g *glyf.Glyph) int {
	return (len(glyfRawGlyph(g)) + 1) &^ 1
}

// glyfGenGlyphSet builds a well-formed glyph list; target > 0 asks for that exact glyf size.
func glyfGenGlyphSet(c *Ctx, n int, target int) glyf.Glyphs {
	r := c.Rng
	gg := make(glyf.Glyphs, 0, n)
	total := 0
	for len(gg) < n {
		var g *glyf.Glyph
		switch k := r.Intn(10); {
		case k < 2:
			g = nil
		case k < 7:
			g = glyfGenSimpleGlyph(c)
		default:
			g = glyfGenCompositeGlyph(c, n)
		}
		l := glyfGlyphEncLen(g)
		if target > 0 && total+l > target-12 {
			g, l = nil, 0
		}
		gg = append(gg, g)
		total += l
	}
	for target > 0 && total < target {
		need := target - total
		if need > 60000 {
			need = 60000 - 2*r.Intn(100)
		}
		if need < 12 {
			break
		}
		g := glyfFillerGlyph(r, need)
		gg = append(gg, g)
		total += need
	}
	// shuffle so that fillers are not always last
	for i := len(gg) - 1; i > 0; i-- {
		j := r.Intn(i + 1)
		gg[i], gg[j] = gg[j], gg[i]
	}
	return gg
}

func glyfMutateBytes(r *Rng, b []byte) []byte {
	m := append([]byte(nil), b...)
	switch r.Intn(6) {
	case 0:
		m = m[:r.Intn(len(m)+1)]
	case 1, 2:
		if len(m) > 0 {
			m[r.Intn(len(m))] ^= byte(1 << r.Intn(8))
		}
	case 3:
		if len(m) > 0 {
			m[r.Intn(len(m))] = byte(r.U64())
		}
	case 4:
		m = append(m, r.Bytes(r.Range(1, 3))...)
	case 5:
		if len(m) > 2 {
			i := r.Intn(len(m) - 1)
			m = append(m[:i], m[i+1:]...)
		}
	}
	return m
}

func glyfOutcomeClass(s string) string {
	if i := strings.IndexByte(s, ':'); i >= 0 {
		if s[:i] == "ok" {
			return "ok"
		}
	}
	return s
}

func glyfSetCase(c *Ctx, gg glyf.Glyphs, wf bool) {
	r := c.Rng
	arg := "gs=" + glyfShowGlyphs(gg)
	nontriv := len(gg) >= 2
	out := c.Case(Verdict, "glyf.encode", arg, nontriv)
	c.Stat("glyphs", bucket(len(gg)))
	if !strings.HasPrefix(out, "ok:") {
		c.Stat("encode_outcome", out)
		return
	}
	p := strings.Split(out[3:], ";")
	lf, loca, gl := p[0], p[1], p[2]
	c.Stat("loca_format", lf)
	glen := len(gl) / 2
	c.Stat("glyf_bytes", glyfBucketSize(glen))
	nil_, simple, comp := 0, 0, 0
	for _, g := range gg {
		switch {
		case g == nil:
			nil_++
		default:
			if _, ok := g.Data.(glyf.SimpleGlyph); ok {
				simple++
			} else {
				comp++
			}
		}
	}
	c.Stat("mix", fmt.Sprintf("nil=%v,simple=%v,composite=%v", nil_ > 0, simple > 0, comp > 0))
	if wf {
		c.Stat("domain", "well-formed")
		c.Case(Direct, "glyf.roundtrip", arg, nontriv)
		c.Case(Direct, "glyf.locafacts", fmt.Sprintf("fmt=%s loca=%s glyflen=%d n=%d", lf, loca, glen, len(gg)), nontriv)
	} else {
		c.Stat("domain", "outside")
	}
	res := c.Case(Verdict, "glyf.decode", fmt.Sprintf("fmt=%s loca=%s glyf=%s", lf, loca, gl), nontriv)
	c.Stat("decode_outcome_unmutated", glyfOutcomeClass(res))
	if glen > 20000 {
		return
	}
	// independence of successive results: pairs with earlier sets (smaller, larger) and itself
	cur := arg[3:]
	if len(cur) < 12000 {
		for _, prev := range glyfPrevSets {
			if r.Chance(1, 2) {
				c.Case(Direct, "glyf.indep", "a="+prev+" b="+cur, true)
			} else {
				c.Case(Direct, "glyf.indep", "a="+cur+" b="+prev, true)
			}
		}
		c.Case(Direct, "glyf.indep", "a="+cur+" b="+cur, nontriv)
		glyfPrevSets = append(glyfPrevSets, cur)
		if len(glyfPrevSets) > 2 {
			glyfPrevSets = glyfPrevSets[1:]
		}
	}
	// purity of Encode with respect to the caller's memory (capacity poisoning)
	c.Case(Direct, "glyf.encpure", arg, simple > 0)
	for style := 0; style < 2; style++ {
		ulf, uloca, udata := glyfUnpaddedTables(r, gg, style)
		uargs := fmt.Sprintf("fmt=%d loca=%s glyf=%s", ulf, hx(uloca), hx(udata))
		ures := c.Case(Verdict, "glyf.decode", uargs, nontriv)
		pres := c.Case(Direct, "glyf.decpure", uargs, strings.HasPrefix(ures, "ok:"))
		c.Stat("unpadded_tables", fmt.Sprintf("style=%d fmt=%d %s", style, ulf, glyfOutcomeClass(pres)))
	}
	c.Case(Verdict, "glyf.comps", arg, comp > 0)
	if comp > 0 {
		var m []string
		for i := 0; i < r.Range(0, 6); i++ {
			m = append(m, fmt.Sprintf("%d:%d", r.Intn(len(gg)), r.Intn(65536)))
		}
		// map the component ids that really occur, to values that are themselves keys (a second
		// application of the map would move them again) and never to themselves
		for _, g := range gg {
			for _, id := range g.Components() {
				if r.Chance(2, 3) {
					to := (int(id) + 1 + r.Intn(3)) % 65536
					m = append(m, fmt.Sprintf("%d:%d", int(id), to), fmt.Sprintf("%d:%d", to, (to+7)%65536))
				}
			}
		}
		c.Case(Verdict, "glyf.fix", arg+" map="+strings.Join(m, ";"), true)
		c.Case(Direct, "glyf.fixpure", arg+" map="+strings.Join(m, ";"), true)
		if wf {
			c.Case(Direct, "glyf.fixenc", arg+" map="+strings.Join(m, ";"), true)
			if r.Chance(1, 3) { // identity renumbering
				c.Case(Direct, "glyf.fixenc", arg+" map="+glyfIdentityMap(gg), true)
			}
		}
	}
	// malformed stream: mutate glyf, loca or the format
	gb, lb := mustHex(gl), mustHex(loca)
	for k := 0; k < 3; k++ {
		g2, l2, f2 := gb, lb, lf
		switch r.Intn(8) {
		case 0, 1, 2, 3:
			g2 = glyfMutateBytes(r, gb)
		case 4, 5:
			l2 = glyfMutateBytes(r, lb)
		case 6:
			f2 = Pick(r, []string{"0", "1", "2", "-1", "256"})
		case 7:
			g2, l2 = glyfMutateBytes(r, gb), glyfMutateBytes(r, lb)
		}
		margs := fmt.Sprintf("fmt=%s loca=%s glyf=%s", f2, hx(l2), hx(g2))
		res := c.Case(Verdict, "glyf.decode", margs, true)
		c.Case(Direct, "glyf.fixed", margs, strings.HasPrefix(res, "ok:"))
		c.Stat("decode_outcome_mutated", glyfOutcomeClass(res))
	}
}

func glyfBucketSize(n int) string {
	switch {
	case n == 0:
		return "0"
	case n < 65534:
		return bucket(n)
	case n <= 65535:
		return "65534 (largest short by the code's rule)"
	case n == 65536:
		return "65536"
	case n < 131070:
		return "65537-131069"
	case n == 131070:
		return "131070"
	case n == 131072:
		return "131072"
	}
	return ">131072"
}

func glyfSimpleCase(c *Ctx, nc int, enc []byte, class string) {
	arg := fmt.Sprintf("nc=%d enc=%s", nc, hx(enc))
	out := c.Case(Verdict, "glyf.simple", arg, nc > 0)
	c.Case(Direct, "glyf.simplespec", arg, nc > 0)
	c.Stat("simple_"+class, glyfOutcomeClass(out))
}

// glyfBigSimple is a one-contour simple glyph whose encoding (header included) is exactly size
// bytes (even, >= 2000): points with long x and y deltas, run-length flags, and an instruction
// block that takes up the remainder.  Unlike glyfFillerGlyph it can exceed 65546 bytes.
func glyfBigSimple(r *Rng, size int) *glyf.Glyph {
	n := (size - 1000) / 4
	if n > 65536 {
		n = 65536
	}
	var fl []byte
	for i := 0; i < n; {
		l := n - i
		if l > 256 {
			l = 256
		}
		if l >= 2 {
			fl = append(fl, 0x01|0x08, byte(l-1))
		} else {
			fl = append(fl, 0x01)
		}
		i += l
	}
	il := size - 10 - 2 - 2 - len(fl) - 4*n
	if il > 65535 { // more bytes than 65536 points and the instructions hold
		panic("glyfBigSimple: size too large")
	}
	enc := []byte{byte((n - 1) >> 8), byte(n - 1), byte(il >> 8), byte(il)}
	enc = append(enc, r.Bytes(il)...)
	enc = append(enc, fl...)
	for k := 0; k < 2*n; k++ { // x deltas, then y deltas, each a small signed 16-bit value
		v := r.Range(-3, 3)
		enc = append(enc, byte(uint16(v)>>8), byte(uint16(v)))
	}
	return &glyf.Glyph{Rect16: glyfRandBBox(r), Data: glyf.SimpleGlyph{NumContours: 1, Encoded: enc}}
}

// glyfSmallSetsAtFormatBoundary: glyph sets of 0, 1 and 2 glyphs whose glyf size is just below,
// at and above the short-loca limit of the code (0xFFFF) and of the format (0x1FFFE): loca tables
// of exactly one, two and three entries in both formats.
func glyfSmallSetsAtFormatBoundary(c *Ctx) {
	r := c.Rng
	glyfSetCase(c, glyf.Glyphs{}, false)
	glyfSetCase(c, glyf.Glyphs{nil}, true)
	glyfSetCase(c, glyf.Glyphs{nil, nil}, true)
	sizes := []int{65532, 65534, 65536, 65538, 131068, 131070, 131072, 131074}
	if c.Tier == "thorough" {
		sizes = append(sizes, 65534+2*r.Range(-3, 3), 131070+2*r.Range(-3, 3), 2*r.Range(32768, 70000))
	}
	one := func(size int) *glyf.Glyph {
		if size <= 65546 && r.Bool() {
			return glyfFillerGlyph(r, size)
		}
		return glyfBigSimple(r, size)
	}
	for _, sz := range sizes {
		c.Stat("small_set_boundary", fmt.Sprintf("1 glyph, %d bytes", sz))
		glyfSetCase(c, glyf.Glyphs{one(sz)}, true)
		// two glyphs: a split of the same total; the nil glyph first, last, or none
		a := 2 * r.Range(1000, sz/2-1000)
		c.Stat("small_set_boundary", fmt.Sprintf("2 glyphs, %d bytes", sz))
		switch r.Intn(3) {
		case 0:
			glyfSetCase(c, glyf.Glyphs{one(a), one(sz - a)}, true)
		case 1:
			glyfSetCase(c, glyf.Glyphs{nil, one(sz)}, true)
		case 2:
			glyfSetCase(c, glyf.Glyphs{one(sz), nil}, true)
		}
	}
}

// glyfLocaLengthCases: decodeLoca at every loca length 0..13 in both formats (and an unsupported
// one): all-zero offsets (every glyph empty) and offsets delimiting one small glyph.
func glyfLocaLengthCases(c *Ctx) {
	r := c.Rng
	g := glyfRawGlyph(glyfGenSimpleGlyph(c))
	if len(g)%2 != 0 {
		g = append(g, 0)
	}
	for _, f := range []int{0, 1, 2} {
		for n := 0; n <= 13; n++ {
			zero := make([]byte, n)
			for _, gd := range [][]byte{nil, g} {
				res := c.Case(Verdict, "glyf.decode", fmt.Sprintf("fmt=%d loca=%s glyf=%s", f, hx(zero), hx(gd)), n >= 4)
				c.Stat("loca_length_cases", fmt.Sprintf("fmt=%d:%s", f, glyfOutcomeClass(res)))
			}
			// offsets 0, len(g), len(g), ...: glyph 0 is g, the others are empty
			l := make([]byte, n)
			w := 2
			if f != 0 {
				w = 4
			}
			for k := 1; k*w+w <= n; k++ {
				v := len(g)
				if f == 0 {
					v /= 2
				}
				for b := 0; b < w; b++ {
					l[k*w+w-1-b] = byte(v >> (8 * b))
				}
			}
			if n%w != 0 && n > 0 && r.Bool() {
				l[n-1] = byte(r.U64())
			}
			args := fmt.Sprintf("fmt=%d loca=%s glyf=%s", f, hx(l), hx(g))
			res := c.Case(Verdict, "glyf.decode", args, n >= 4)
			c.Case(Direct, "glyf.fixed", args, strings.HasPrefix(res, "ok:"))
			c.Stat("loca_length_cases", fmt.Sprintf("fmt=%d:%s", f, glyfOutcomeClass(res)))
		}
	}
}

func areaGlyf(c *Ctx) {
	r := c.Rng
	glyfPrevSets = nil
	// --- 0, 1, 2 glyphs around the loca format switch; loca tables of every small length
	glyfSmallSetsAtFormatBoundary(c)
	glyfLocaLengthCases(c)
	// --- glyph sets
	nSets := c.N / 4
	targets := []int{65534, 65536, 131070, 131072}
	for i := 0; i < nSets; i++ {
		n := r.Range(1, 12)
		target := 0
		switch {
		case i == 0:
			n = 1
		case i >= 1 && i <= len(targets):
			target = targets[i-1]
			n = r.Range(1, 6)
		case i%97 == 96:
			n = Pick(r, []int{200, 500, 2000})
		case c.Tier == "thorough" && i%1500 == 777:
			n = 65535
		case c.Tier == "thorough" && i%400 == 123:
			target = Pick(r, targets) + 2*r.Range(-2, 2)
			n = r.Range(1, 40)
		}
		var gg glyf.Glyphs
		if i == 5 || i == 6 || (i > 6 && i%211 == 5) {
			// a glyph with 65536 / 65535 / boundary many points among ordinary ones (removePadding)
			np := Pick(r, glyfBoundaryCounts)
			if i == 5 {
				np = 65536
			} else if i == 6 {
				np = 65535
			}
			gg = glyfGenGlyphSet(c, r.Range(1, 4), 0)
			bnc, benc := glyfBoundaryEnc(c, np)
			gg[r.Intn(len(gg))] = &glyf.Glyph{Rect16: glyfRandBBox(r), Data: glyf.SimpleGlyph{NumContours: int16(bnc), Encoded: benc}}
		} else if n == 65535 {
			gg = make(glyf.Glyphs, n) // mostly empty glyphs, a few real ones
			for k := 0; k < 30; k++ {
				gg[r.Intn(n)] = glyfGenSimpleGlyph(c)
			}
			gg[r.Intn(n)] = glyfGenCompositeGlyph(c, n)
		} else {
			gg = glyfGenGlyphSet(c, n, target)
		}
		glyfSetCase(c, gg, true)
	}
	// --- glyph lists outside WFGlyphs (model must still agree with Encode/Decode)
	for i := 0; i < c.N/16+6; i++ {
		gg := glyfGenGlyphSet(c, r.Range(1, 4), 0)
		k := r.Intn(len(gg))
		switch i % 6 {
		case 0:
			gg = glyf.Glyphs{}
		case 1: // trailing bytes after the simple-glyph description
			g := glyfGenSimpleGlyph(c)
			s := g.Data.(glyf.SimpleGlyph)
			s.Encoded = append(s.Encoded, r.Bytes(r.Range(1, 3))...)
			g.Data = s
			gg[k] = g
		case 2: // negative contour count on a simple glyph, or random bytes
			gg[k] = &glyf.Glyph{Data: glyf.SimpleGlyph{NumContours: int16(-r.Range(1, 3)), Encoded: r.Bytes(r.Range(0, 20))}}
		case 3: // MORE_COMPONENTS wrong
			g := glyfGenCompositeGlyph(c, 5)
			d := g.Data.(glyf.CompositeGlyph)
			j := r.Intn(len(d.Components))
			d.Components[j].Flags ^= glyf.FlagMoreComponents
			gg[k] = g
		case 4: // instructions without the flag / argument bytes of the wrong size / no component
			g := glyfGenCompositeGlyph(c, 5)
			d := g.Data.(glyf.CompositeGlyph)
			switch r.Intn(3) {
			case 0:
				for j := range d.Components {
					d.Components[j].Flags &^= glyf.FlagWeHaveInstructions
				}
				d.Instructions = r.Bytes(r.Range(0, 5))
				if d.Instructions == nil {
					d.Instructions = []byte{}
				}
			case 1:
				j := r.Intn(len(d.Components))
				d.Components[j].Data = r.Bytes(r.Range(0, 12))
			case 2:
				d.Components = nil
			}
			g.Data = d
			gg[k] = g
		case 5:
			gg[k] = &glyf.Glyph{Data: glyf.SimpleGlyph{NumContours: int16(r.Range(0, 3)), Encoded: r.Bytes(r.Range(0, 30))}}
		}
		glyfSetCase(c, gg, false)
	}
	// --- real fonts with golang.org/x/image as a second, independent decoder
	if c.Tier == "thorough" {
		glyfRealFontCases(c, 1<<20) // every simple glyph of the twelve Go fonts
	} else {
		glyfRealFontCases(c, 6)
	}
	// --- SimpleGlyph.Decode at the boundaries of the 16-bit point count (every run, both tiers)
	bcounts := append([]int(nil), glyfBoundaryCounts...)
	extra := 2
	if c.Tier == "thorough" {
		extra = 12
	}
	for k := 0; k < extra; k++ {
		bcounts = append(bcounts, Pick(r, []int{65536, 65535, 65536, 32768, 256, r.Range(65000, 65536), r.Range(1, 700)}))
	}
	for _, np := range bcounts {
		bnc, benc := glyfBoundaryEnc(c, np)
		glyfSimpleCase(c, bnc, benc, "boundary")
		// the same flags and deltas announced with one point more / less: must be refused or
		// decoded consistently by model, code and specification
		m := append([]byte(nil), benc...)
		e := np - 1 + Pick(r, []int{-1, 1})
		if e >= 0 && e <= 0xFFFF {
			m[2*bnc-2], m[2*bnc-1] = byte(e>>8), byte(e)
			glyfSimpleCase(c, bnc, m, "boundary_mutated")
		}
	}
	// --- SimpleGlyph.Decode
	for i := 0; i < c.N; i++ {
		sizes := glyfGenContourSizes(c)
		if i == 0 {
			sizes = nil
		}
		if i == 1 {
			sizes = []int{1}
		}
		var instr []byte
		if r.Chance(1, 4) {
			instr = r.Bytes(r.Range(1, 9))
		}
		overflow := r.Chance(1, 10)
		enc := glyfGenSimpleEnc(c, sizes, instr, overflow)
		if r.Chance(1, 5) {
			enc = append(enc, r.Bytes(r.Range(1, 3))...) // padding
		}
		glyfSimpleCase(c, len(sizes), enc, "valid")
		c.Stat("simple_numContours", bucket(len(sizes)))
		np := 0
		for _, s := range sizes {
			np += s
		}
		c.Stat("simple_numPoints", bucket(np))
		// mutated
		for k := 0; k < 2; k++ {
			nc := len(sizes)
			m := enc
			switch r.Intn(8) {
			case 0:
				nc = r.Range(-2, len(sizes)+2)
			case 1:
				if len(sizes) >= 2 { // non-monotone endPtsOfContours
					m = append([]byte(nil), enc...)
					a, b := r.Intn(len(sizes)), r.Intn(len(sizes))
					m[2*a], m[2*a+1], m[2*b], m[2*b+1] = m[2*b], m[2*b+1], m[2*a], m[2*a+1]
					if r.Bool() {
						m[2*a+1] = byte(r.U64())
					}
				} else {
					m = glyfMutateBytes(r, enc)
				}
			case 2:
				nc = 0
			default:
				m = glyfMutateBytes(r, enc)
			}
			if len(m) > 2000 {
				continue
			}
			glyfSimpleCase(c, nc, m, "mutated")
		}
		if i%10 == 0 {
			glyfSimpleCase(c, r.Range(-1, 3), r.Bytes(r.Range(0, 24)), "random")
		}
	}
}
