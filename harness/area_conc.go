package main

// Area conc (C16): a font that nobody modifies is safe for concurrent use.
//
// Streams (all Direct: the Lean side predicts the outcome from the footprint table and
// C16_results; a mismatch is a violation of the property on the real code):
//
//	conc.pure     op=<name> font=<id> arg=<n>          -> unchanged | changed:[fields]
//	    deep hash of the whole *sfnt.Font graph and of the package-level tables the
//	    operations can reach, before and after running the operation (twice) on the real code
//	conc.parallel font=<id> threads=<N> ops=<a,b,..> seed=<n> -> equal | differs:… | changed:…
//	    N goroutines run rotations of the operation list on ONE shared font; every result must
//	    equal the result of the same call made sequentially before and after, and the font
//	    graph must be unchanged
//	conc.race     (same fields)                        -> clean | race:… | differs:… | changed:…
//	    the same case executed by a copy of this harness built with the race detector
//
// Every handler rebuilds its font from the id alone.

import (
	"bytes"
	"crypto/sha256"
	"fmt"
	"math"
	"os"
	"os/exec"
	"path/filepath"
	"runtime"
	"sort"
	"strings"
	"sync"
	"time"

	"golang.org/x/image/font/gofont/goitalic"
	"golang.org/x/image/font/gofont/gomono"
	"golang.org/x/image/font/gofont/goregular"
	"golang.org/x/text/language"

	"seehuhn.de/go/geom/matrix"
	"seehuhn.de/go/postscript/cid"
	"seehuhn.de/go/postscript/funit"
	"seehuhn.de/go/postscript/type1"

	"seehuhn.de/go/sfnt"
	"seehuhn.de/go/sfnt/cff"
	"seehuhn.de/go/sfnt/cmap"
	"seehuhn.de/go/sfnt/glyf"
	"seehuhn.de/go/sfnt/glyph"
	"seehuhn.de/go/sfnt/header"
	"seehuhn.de/go/sfnt/internal/debug"
	"seehuhn.de/go/sfnt/kern"
	"seehuhn.de/go/sfnt/opentype/anchor"
	"seehuhn.de/go/sfnt/opentype/classdef"
	"seehuhn.de/go/sfnt/opentype/coverage"
	"seehuhn.de/go/sfnt/opentype/gdef"
	"seehuhn.de/go/sfnt/opentype/gtab"
	"seehuhn.de/go/sfnt/opentype/gtab/builder"
	"seehuhn.de/go/sfnt/opentype/gtab/testcases"
	"seehuhn.de/go/sfnt/opentype/markarray"
)

// ---- fonts ------------------------------------------------------------------------------------

const concGsubDesc = `
	GSUB1: A->B, M->N
	GSUB1: A-C -> B-D, M->N, N->O
	GSUB2: A -> "AA", B -> "AA", C -> "ABAAC"
	GSUB3: A -> [ "BCD" ]
	GSUB4: -marks A A A -> B, A -> D, A A -> C
	GSUB5:
		"AAA" -> 1@0 2@1 1@0, "AAB" -> 1@0 1@1 2@0 ||
		class :alpha: = [A-K]
		class :digits: = [L-Z]
		/A B C/ :alpha: :digits: -> 2@1, :alpha: :: :digits: -> 2@2 ||
		[A B C] [A C] [A D] -> 3@0
	GSUB6:
		A B | C D | E F -> 1@0 2@1, B | C D E | F -> 1@2 ||
		inputclass :ABC: = ["ABC"]
		backtrackclass :DEF: = ["DEF"]
		lookaheadclass :DEF: = ["DEF"]
		/A B C/ :DEF: :: | :ABC: | :: :DEF: -> 1@0 ||
		[A] [A B C] | [A B] [A C] [B C] | [A B C] [A B C] -> 1@0 1@1 1@2
`

const concGposDesc = `
	GPOS1: [A-C] -> y+10 ||
		D -> dx-1, E -> dx+1, F -> dx-1, G -> dx+1, H -> x+1, I -> y+1
	GPOS2: A V -> dx-100, O O -> dx+100, "AW" -> dx-100
	GPOS2: T E -> y+100 dx-50 & y-100
	GPOS2:
	    /A L V W/
	    first V W, A L;
		second E O, V W;
		_, _, _,
		_, dx-50 & y-10, dx+10,
		_, dx-10 & y+10, dx-30
	GPOS3:
	  A: 1,1 to 2,2; B: 1,0 to 0,1; C: -1,-1 to 100,100 ||
	  M: 1,1 to 2,2; N: 1,1 to 2,2
	GPOS4:
	  mark M: 0@100,100;
	  mark N: 1@200,100;
	  base A: @400,1000 @500,1000;
	  base B: @500,1000 @600,900;
	  base C: @500,1000 @500,-1000;
`

// concAllGsub / concAllGpos: every lookup type the builder language can express, all three
// formats of the (chained) context lookups with nested actions, an alternate set that is NOT in
// glyph-id order (lookup 3), ligature sets (lookup 4), and a recursion that exhausts the budget
// of 64 nested actions with frames pending (lookups 7-9: "QQQQQQQQ" runs 9 actions, each of
// which runs 9 more).
const concAllGsub = `
	GSUB1: A->B, M->N
	GSUB1: A->X, B->Y, C->A
	GSUB2: A -> "AA", B -> "AB", C -> "ABAAC"
	GSUB3: A -> [ "DCB" ], E -> [ "ZFY" ]
	GSUB4: -marks A A A -> B, A -> D, A A -> C, F I -> K, F L -> L
	GSUB5:
		"AAA" -> 1@0 2@1 1@0, "AAB" -> 1@0 1@1 2@0 ||
		class :alpha: = [A-K]
		class :digits: = [L-Z]
		/A B C/ :alpha: :digits: -> 2@1, :alpha: :: :digits: -> 2@2 ||
		[A B C] [A C] [A D] -> 3@0
	GSUB6:
		A B | C D | E F -> 1@0 2@1, B | C D E | F -> 1@2 ||
		inputclass :ABC: = ["ABC"]
		backtrackclass :DEF: = ["DEF"]
		lookaheadclass :DEF: = ["DEF"]
		/A B C/ :DEF: :: | :ABC: | :: :DEF: -> 1@0 ||
		[A] [A B C] | [A B] [A C] [B C] | [A B C] [A B C] -> 1@0 1@1 1@2
	GSUB5: "QQQQQQQQ" -> 8@0 8@1 8@2 8@3 8@4 8@5 8@6 8@7 8@0
	GSUB5: Q -> 9@0 9@0 9@0 9@0 9@0 9@0 9@0 9@0 9@0
	GSUB1: Z->Y
`

const concAllGpos = concGposDesc + `
	GPOS7: "AV" -> 0@0 1@1, A B C -> 0@1 ||
		class :alpha: = [A-K]
		class :digits: = [L-Z]
		/A B C/ :alpha: :digits: -> 1@1
	GPOS8: A | V W | A -> 1@0, B | C D E | F -> 0@2
	GPOS7: "QQQQQQQQ" -> 8@0 8@1 8@2 8@3 8@4 8@5 8@6 8@7 8@0
	GPOS7: Q -> 0@0 0@0 0@0 0@0 0@0 0@0 0@0 0@0 0@0
	GPOS2: A V -> dx-100, T E -> y+100 dx-50 & y-100, V A -> dx-90 & x+5, O T -> dx-10
`

// concAddAll installs the synthetic layout tables.  extra adds what the builder language (and
// therefore Explain*/Subset) cannot handle: GSUB 8.1, GPOS 5.1 and 6.1, and a GDEF table with
// mark attachment classes and mark glyph sets used by a lookup with UseMarkFilteringSet.
func concAddAll(f *sfnt.Font, level int) {
	extra := level >= 1
	cm, err := f.CMapTable.GetBest()
	if err != nil {
		panic(err)
	}
	g := func(r rune) glyph.ID { return cm.Lookup(r) }
	gs, err := builder.Parse(f, concAllGsub)
	if err != nil {
		panic(err)
	}
	gp, err := builder.Parse(f, concAllGpos)
	if err != nil {
		panic(err)
	}
	if extra {
		gs = append(gs, &gtab.LookupTable{
			Meta: &gtab.LookupMetaInfo{LookupType: 8},
			Subtables: []gtab.Subtable{&gtab.Gsub8_1{
				Input:              coverage.Table{g('G'): 0, g('H'): 1},
				Backtrack:          []coverage.Table{{g('A'): 0, g('B'): 1}},
				Lookahead:          []coverage.Table{{g('I'): 0}, {g('J'): 0, g('K'): 1}},
				SubstituteGlyphIDs: []glyph.ID{g('S'), g('T')},
			}},
		})
		gpos5 := &gtab.LookupTable{
			Meta: &gtab.LookupMetaInfo{LookupType: 5},
			Subtables: []gtab.Subtable{&gtab.Gpos5_1{
				MarkCov:   coverage.Table{g('M'): 0, g('N'): 1},
				LigCov:    coverage.Table{g('K'): 0, g('L'): 1},
				MarkArray: []markarray.Record{{Class: 0, Table: anchor.Table{X: 10, Y: 20}}, {Class: 1, Table: anchor.Table{X: 30, Y: 40}}},
				LigArray: [][][]anchor.Table{
					{{{X: 100, Y: 700}, {X: 110, Y: 710}}, {{X: 300, Y: 700}, {X: 310, Y: 710}}},
					{{{X: 120, Y: 690}, {X: 130, Y: 680}}, {{X: 320, Y: 690}, {X: 330, Y: 680}}, {{X: 520, Y: 690}, {X: 530, Y: 680}}},
				},
			}},
		}
		gp = append(gp,
			&gtab.LookupTable{
				Meta: &gtab.LookupMetaInfo{LookupType: 6, LookupFlags: gtab.UseMarkFilteringSet, MarkFilteringSet: 1},
				Subtables: []gtab.Subtable{&gtab.Gpos6_1{
					Mark1Cov:   coverage.Table{g('N'): 0},
					Mark2Cov:   coverage.Table{g('M'): 0},
					Mark1Array: []markarray.Record{{Class: 1, Table: anchor.Table{X: 5, Y: 6}}},
					Mark2Array: [][]anchor.Table{{{X: 50, Y: 800}, {X: 60, Y: 810}}},
				}},
			})
		f.Gdef = &gdef.Table{
			GlyphClass: classdef.Table{
				g('B'): gdef.GlyphClassBase, g('K'): gdef.GlyphClassLigature, g('L'): gdef.GlyphClassLigature,
				g('M'): gdef.GlyphClassMark, g('N'): gdef.GlyphClassMark,
				// glyphs listed EXPLICITLY as class 0 (only tables built in memory have such
				// entries; the reader never produces them): C here, D in MarkAttachClass
				g('C'): 0,
			},
			MarkAttachClass: classdef.Table{g('M'): 1, g('N'): 2, g('D'): 0},
			MarkGlyphSets:   []coverage.Set{{g('M'): true}, {g('M'): true, g('N'): true}},
		}
		gs[1].Meta.LookupFlags |= gtab.UseMarkFilteringSet
		gs[1].Meta.MarkFilteringSet = 0
		if level >= 3 {
			// for every pointer / slice field of the subtable types: nil in some entries, set in others
			vr := func(xp, yp, xa int) *gtab.GposValueRecord {
				return &gtab.GposValueRecord{XPlacement: funit.Int16(xp), YPlacement: funit.Int16(yp), XAdvance: funit.Int16(xa)}
			}
			gp = append(gp,
				&gtab.LookupTable{Meta: &gtab.LookupMetaInfo{LookupType: 2}, Subtables: []gtab.Subtable{gtab.Gpos2_1{
					{Left: g('A'), Right: g('V')}: {First: vr(0, 0, -100)},
					{Left: g('V'), Right: g('A')}: {First: vr(0, 0, -90), Second: vr(5, 0, 0)},
					{Left: g('T'), Right: g('O')}: {Second: vr(0, 7, 0)},
					{Left: g('A'), Right: g('W')}: {First: vr(0, 0, -80)},
				}}},
				&gtab.LookupTable{Meta: &gtab.LookupMetaInfo{LookupType: 1}, Subtables: []gtab.Subtable{&gtab.Gpos1_2{
					Cov:    coverage.Table{g('D'): 0, g('E'): 1, g('F'): 2},
					Adjust: []*gtab.GposValueRecord{vr(0, 0, 3), nil, vr(0, 2, 0)},
				}}},
				&gtab.LookupTable{Meta: &gtab.LookupMetaInfo{LookupType: 2}, Subtables: []gtab.Subtable{&gtab.Gpos2_2{
					Cov:    coverage.Set{g('A'): true, g('B'): true, g('C'): true},
					Class1: classdef.Table{g('A'): 1, g('B'): 1, g('C'): 0},
					Class2: classdef.Table{g('V'): 1, g('W'): 2, g('X'): 0, g('Y'): 0},
					Adjust: [][]*gtab.PairAdjust{
						{{}, {}, {First: vr(0, 0, -5)}},
						{{}, {First: vr(0, 0, -40)}, {First: vr(0, 0, -30), Second: vr(2, 0, 0)}},
					},
				}}},
				&gtab.LookupTable{Meta: &gtab.LookupMetaInfo{LookupType: 4}, Subtables: []gtab.Subtable{&gtab.Gpos4_1{
					MarkCov:   coverage.Table{g('M'): 0, g('N'): 1},
					BaseCov:   coverage.Table{g('A'): 0, g('B'): 1},
					MarkArray: []markarray.Record{{Class: 0}, {Class: 1, Table: anchor.Table{X: 30, Y: 40}}},
					BaseArray: [][]anchor.Table{{{}, {X: 300, Y: 700}}, {{X: 310, Y: 710}, {}}},
				}}})
			gs = append(gs,
				// class-based contexts whose class tables list glyphs explicitly as class 0
				&gtab.LookupTable{Meta: &gtab.LookupMetaInfo{LookupType: 5}, Subtables: []gtab.Subtable{&gtab.SeqContext2{
					Cov:   coverage.Table{g('J'): 0, g('P'): 1, g('R'): 2},
					Input: classdef.Table{g('J'): 1, g('P'): 2, g('R'): 0, g('S'): 0},
					Rules: [][]*gtab.ClassSeqRule{
						{{Input: []uint16{0}, Actions: []gtab.SeqLookup{{SequenceIndex: 0, LookupListIndex: 9}}}},
						{{Input: []uint16{1, 2}, Actions: []gtab.SeqLookup{{SequenceIndex: 1, LookupListIndex: 0}}}},
						{{Input: []uint16{2}, Actions: nil}},
					},
				}}},
				&gtab.LookupTable{Meta: &gtab.LookupMetaInfo{LookupType: 6}, Subtables: []gtab.Subtable{&gtab.ChainedSeqContext2{
					Cov:       coverage.Table{g('J'): 0, g('P'): 1},
					Backtrack: classdef.Table{g('A'): 1, g('B'): 0},
					Input:     classdef.Table{g('J'): 1, g('P'): 2, g('Q'): 0},
					Lookahead: classdef.Table{g('Z'): 1, g('Y'): 0},
					Rules: [][]*gtab.ChainedClassSeqRule{
						nil,
						{{Backtrack: []uint16{1}, Input: []uint16{2}, Lookahead: []uint16{1}, Actions: []gtab.SeqLookup{{SequenceIndex: 0, LookupListIndex: 0}}}},
						{{Input: []uint16{1}, Actions: []gtab.SeqLookup{{SequenceIndex: 1, LookupListIndex: 9}}}},
					},
				}}},
				&gtab.LookupTable{Meta: &gtab.LookupMetaInfo{LookupType: 2}, Subtables: []gtab.Subtable{&gtab.Gsub2_1{
					Cov:  coverage.Table{g('R'): 0, g('S'): 1, g('U'): 2},
					Repl: [][]glyph.ID{{g('X'), g('Y')}, {g('Z')}, {g('U'), g('U'), g('U')}},
				}}},
				&gtab.LookupTable{Meta: &gtab.LookupMetaInfo{LookupType: 4}, Subtables: []gtab.Subtable{&gtab.Gsub4_1{
					Cov: coverage.Table{g('W'): 0, g('X'): 1},
					Repl: [][]gtab.Ligature{
						{{In: nil, Out: g('V')}},
						{{In: []glyph.ID{g('Y'), g('Z')}, Out: g('A')}, {In: []glyph.ID{}, Out: g('B')}},
					},
				}}},
				&gtab.LookupTable{Meta: &gtab.LookupMetaInfo{LookupType: 5}, Subtables: []gtab.Subtable{&gtab.SeqContext1{
					Cov: coverage.Table{g('J'): 0, g('P'): 1},
					Rules: [][]*gtab.SeqRule{
						{{Input: []glyph.ID{g('J')}, Actions: nil}, {Input: nil, Actions: []gtab.SeqLookup{{SequenceIndex: 0, LookupListIndex: 9}}}},
						{{Input: []glyph.ID{g('P'), g('P')}, Actions: []gtab.SeqLookup{{SequenceIndex: 2, LookupListIndex: 0}, {SequenceIndex: 0, LookupListIndex: 9}}}},
					},
				}}})
		}
		if level == 2 { // Gpos5_1 has no encoder: Write panics "not implemented" on this font
			gp = append(gp, gpos5)
		}
	}
	all := func(n int) []gtab.LookupIndex {
		l := make([]gtab.LookupIndex, n)
		for i := range l {
			l[i] = gtab.LookupIndex(i)
		}
		return l
	}
	top := func(ll gtab.LookupList, skip map[int]bool) []gtab.LookupIndex {
		var l []gtab.LookupIndex
		for i := range ll {
			if !skip[i] {
				l = append(l, gtab.LookupIndex(i))
			}
		}
		return l
	}
	_ = all
	dangle := func(l []gtab.LookupIndex, n int) []gtab.LookupIndex {
		out := []gtab.LookupIndex{gtab.LookupIndex(n + 2)}
		for i, x := range l {
			out = append(out, x)
			if i == len(l)/2 {
				out = append(out, gtab.LookupIndex(n))
			}
		}
		return append(out, 0xFFFE)
	}
	f.Gsub = &gtab.Info{
		ScriptList: map[language.Tag]*gtab.Features{
			language.MustParse("und-Zzzz"): {Required: 0, Optional: []gtab.FeatureIndex{1}},
		},
		FeatureList: []*gtab.Feature{
			// with DANGLING references (index >= len(LookupList)), which the reader, FindLookups,
			// NewContext/Apply and Encode tolerate: first, in the middle and last in a list
			{Tag: "test", Lookups: dangle(top(gs, map[int]bool{8: true, 9: true})[:4], len(gs))},
			{Tag: "liga", Lookups: dangle(top(gs, map[int]bool{8: true, 9: true})[4:], len(gs))},
		},
		LookupList: gs,
	}
	nq := len(strings.Split(concGposDesc, "GPOS")) - 1 // lookups of the base description
	f.Gpos = &gtab.Info{
		ScriptList: map[language.Tag]*gtab.Features{
			language.MustParse("und-Zzzz"): {Required: 0, Optional: []gtab.FeatureIndex{1}},
		},
		FeatureList: []*gtab.Feature{
			{Tag: "kern", Lookups: dangle(top(gp, map[int]bool{nq + 3: true})[:3], len(gp))},
			{Tag: "mark", Lookups: dangle(top(gp, map[int]bool{nq + 3: true})[3:], len(gp))},
		},
		LookupList: gp,
	}
}

var concFixedTime = time.Date(2024, 5, 17, 12, 0, 0, 0, time.UTC)

func concAddGtab(f *sfnt.Font) {
	cm, err := f.CMapTable.GetBest()
	if err != nil {
		panic(err)
	}
	f.Gdef = &gdef.Table{GlyphClass: classdef.Table{
		cm.Lookup('B'): gdef.GlyphClassBase,
		cm.Lookup('K'): gdef.GlyphClassLigature,
		cm.Lookup('L'): gdef.GlyphClassLigature,
		cm.Lookup('M'): gdef.GlyphClassMark,
		cm.Lookup('N'): gdef.GlyphClassMark,
	}}
	gs, err := builder.Parse(f, concGsubDesc)
	if err != nil {
		panic(err)
	}
	gp, err := builder.Parse(f, concGposDesc)
	if err != nil {
		panic(err)
	}
	all := func(n int) []gtab.LookupIndex {
		l := make([]gtab.LookupIndex, n)
		for i := range l {
			l[i] = gtab.LookupIndex(i)
		}
		return l
	}
	f.Gsub = &gtab.Info{
		ScriptList: map[language.Tag]*gtab.Features{
			language.MustParse("und-Zzzz"): {Required: 0, Optional: []gtab.FeatureIndex{1, 2}},
			language.MustParse("de-Latn"):  {Required: 0xFFFF, Optional: []gtab.FeatureIndex{1}},
			language.MustParse("en-Latn"):  {Required: 0, Optional: []gtab.FeatureIndex{2}},
		},
		FeatureList: []*gtab.Feature{
			{Tag: "test", Lookups: all(len(gs))[:2]},
			{Tag: "liga", Lookups: all(len(gs))[2:5]},
			{Tag: "calt", Lookups: all(len(gs))[5:]},
		},
		LookupList: gs,
	}
	f.Gpos = &gtab.Info{
		ScriptList: map[language.Tag]*gtab.Features{
			language.MustParse("und-Zzzz"): {Required: 0, Optional: []gtab.FeatureIndex{1}},
			language.MustParse("fr-Latn"):  {Required: 1},
		},
		FeatureList: []*gtab.Feature{
			{Tag: "kern", Lookups: all(len(gp))[:3]},
			{Tag: "mark", Lookups: all(len(gp))[3:]},
		},
		LookupList: gp,
	}
}

var concFontIDs = []string{"cff", "cffgtab", "cffgsub", "cid", "ttf", "ttfgtab", "ttfitalic", "ttfmono", "ttfhead"}

// concNameFonts: small fonts whose glyph-name lists make MakeGlyphNames (and everything built on
// it) take its repair paths: duplicates are blanked, empty names inferred, slot 0 renamed — all of
// which must happen in the RESULT, never in the shared font.
var concNameFonts = []string{"sttf", "sttfdup", "sttfempty", "sttfnotdef0", "sttfshort", "sttfnonames",
	"cffdup", "cffempty", "cffnotdef0"}

// concRawFonts: TrueType fonts whose raw tables (shared with header.Write) have lengths that are
// not multiples of four and spare capacity over live data or over poisoned bytes.
var concRawFonts = []string{"sttf+img", "sttf+imgj", "sttf+odd", "ttf+img", "ttf+odd", "sttfnest+img"}

// concLayoutFonts: synthetic layout tables covering every subtable type (see concAddAll).
// concNilFonts: in-memory fonts where optional slice/map/pointer fields of sfnt.Font,
// cff.Outlines and glyf.Outlines are nil or empty (sfnt.Read and debug.MakeSimpleFont always set
// them): nil Encoding (stands for the standard encoding), nil FontMatrices/GIDToCID, private
// dictionaries without blue values, nil cmap table, no raw tables / names / maxp.
var concNilFonts = []string{"cffnoenc", "cffemptyenc", "cffnil", "cffnocmap", "sttfnil", "sttfnocmap"}

// concFinalFonts: "sttfunhint" carries the raw hinting tables cvt/fpgm/prep but only the glyphs
// of H and I keep their instructions (the instruction bytes are cut out of the glyph data of all
// others, .notdef included), so most subsets contain no hinted glyph.  "cidread" is a CID-keyed
// CFF font with three FD ranges that went through Write and sfnt.Read, so that its FDSelect is
// the closure built by the reader (format 3).
var concFinalFonts = []string{"sttfunhint", "cidread", "cidfd7", "cffreq", "cffopt"}

// concStripHints removes the TrueType instructions from simple glyphs (all but `keep`).
func concStripHints(o *glyf.Outlines, keep map[glyph.ID]bool) {
	for gid, g := range o.Glyphs {
		if g == nil || keep[glyph.ID(gid)] {
			continue
		}
		d, ok := g.Data.(glyf.SimpleGlyph)
		if !ok {
			continue
		}
		k := 2 * int(d.NumContours)
		if len(d.Encoded) < k+2 {
			continue
		}
		n := int(d.Encoded[k])<<8 | int(d.Encoded[k+1])
		if n == 0 || len(d.Encoded) < k+2+n {
			continue
		}
		enc := append([]byte{}, d.Encoded[:k]...)
		enc = append(enc, 0, 0)
		enc = append(enc, d.Encoded[k+2+n:]...)
		d.Encoded = enc
		o.Glyphs[gid] = &glyf.Glyph{Rect16: g.Rect16, Data: d}
	}
}

var concLayoutFonts = []string{"cffall", "cffallx", "cffall5", "cffalln", "sttfall", "sttfallx", "sttfalln", "cffsub", "sttfsub"}

// concSubGsub / concSubGpos: only the lookup types Subset implements (GSUB 1.1 and 4.1, GPOS
// pair format 2.1 — GPOS 1 subsets cannot be written), so that Subset runs through and rewrites whole ligature rules.
const concSubGsub = `
	GSUB1: A->B, M->N
	GSUB4: F I -> K, F L -> L, F F I -> M, A A A -> B, A A -> C, T T -> U
	GSUB4: -marks O O -> P, O E -> Q
`
const concSubGpos = `
	GPOS2: A V -> dx-100, O O -> dx+100, "AW" -> dx-100
	GPOS2: T E -> y+100 dx-50 & y-100
	GPOS2: A V -> dx-100, T E -> y+100 dx-50 & y-100, V A -> dx-90 & x+5, O T -> dx-10
`

func concAddSub(f *sfnt.Font) {
	gs, err := builder.Parse(f, concSubGsub)
	if err != nil {
		panic(err)
	}
	gp, err := builder.Parse(f, concSubGpos)
	if err != nil {
		panic(err)
	}
	und := language.MustParse("und-Zzzz")
	f.Gsub = &gtab.Info{
		ScriptList:  map[language.Tag]*gtab.Features{und: {Required: 0}},
		FeatureList: []*gtab.Feature{{Tag: "liga", Lookups: []gtab.LookupIndex{0, 1, 2}}},
		LookupList:  gs,
	}
	f.Gpos = &gtab.Info{
		ScriptList:  map[language.Tag]*gtab.Features{und: {Required: 0}},
		FeatureList: []*gtab.Feature{{Tag: "kern", Lookups: []gtab.LookupIndex{0, 1, 2}}},
		LookupList:  gp,
	}
	f.Gdef = nil
}

// concShapeFonts: variants taken from the interesting-input lists of the other properties.
var concShapeFonts = []string{"sttfnest", "sttfkern", "sttf12", "sttfgtab", "cidmulti", "cff12"}

func concReadTTF(data []byte) *sfnt.Font {
	f, err := sfnt.Read(bytes.NewReader(data))
	if err != nil {
		panic(err)
	}
	return f
}

const concSmallRunes = "ABCDEFGHIJKLMNOPQRSTUVWXYZabcdefghijklmnopqrstuvwxyz 0123456789.,-ÄÖÜäöüéèàçñ"

// concSmallTTF cuts goregular down to ~80 glyphs (by hand, not through Subset): the listed
// runes plus the components of their composite glyphs, with a complete list of distinct names.
func concSmallTTF() *sfnt.Font {
	f := concReadTTF(goregular.TTF)
	o := f.Outlines.(*glyf.Outlines)
	cm, err := f.CMapTable.GetBest()
	if err != nil {
		panic(err)
	}
	newGid := map[glyph.ID]glyph.ID{0: 0}
	gids := []glyph.ID{0}
	add := func(g glyph.ID) {
		if _, ok := newGid[g]; !ok {
			newGid[g] = glyph.ID(len(gids))
			gids = append(gids, g)
		}
	}
	sub := cmap.Format4{}
	for _, r := range concSmallRunes {
		g := cm.Lookup(r)
		if g == 0 {
			continue
		}
		add(g)
		sub[uint16(r)] = newGid[g]
	}
	for i := 0; i < len(gids); i++ { // closure over components
		for _, c := range o.Glyphs[gids[i]].Components() {
			add(c)
		}
	}
	no := &glyf.Outlines{Tables: o.Tables, Maxp: o.Maxp}
	for i, g := range gids {
		no.Glyphs = append(no.Glyphs, o.Glyphs[g].FixComponents(newGid))
		no.Widths = append(no.Widths, o.Widths[g])
		name := fmt.Sprintf("g%03d", i)
		if o.Names != nil && o.Names[g] != "" {
			name = o.Names[g]
		}
		no.Names = append(no.Names, name)
	}
	no.Names[0] = ".notdef"
	seen := map[string]bool{}
	for i, n := range no.Names {
		if seen[n] {
			no.Names[i] = fmt.Sprintf("%s.alt%d", n, i)
		}
		seen[no.Names[i]] = true
	}
	f.Outlines = no
	f.InstallCMap(sub)
	f.Gsub, f.Gpos, f.Gdef = nil, nil, nil
	return f
}

// concNest appends composites nested three deep: c1 = A + period, c2 = c1 + comma, c3 = c2 + c1.
func concNest(f *sfnt.Font) {
	o := f.Outlines.(*glyf.Outlines)
	cm, _ := f.CMapTable.GetBest()
	comp := func(parts ...glyph.ID) glyph.ID {
		var cs []glyf.GlyphComponent
		var box funit.Rect16
		for i, p := range parts {
			fl := glyf.FlagArgsAreXYValues | glyf.FlagRoundXYToGrid
			if i+1 < len(parts) {
				fl |= glyf.FlagMoreComponents
			}
			cs = append(cs, glyf.GlyphComponent{Flags: fl, GlyphIndex: p, Data: []byte{byte(10 * i), byte(3 * i)}})
			if g := o.Glyphs[p]; g != nil {
				if i == 0 {
					box = g.Rect16
				} else {
					box.Extend(g.Rect16)
				}
			}
		}
		o.Glyphs = append(o.Glyphs, &glyf.Glyph{Rect16: box, Data: glyf.CompositeGlyph{Components: cs}})
		o.Widths = append(o.Widths, o.Widths[parts[0]])
		if o.Names != nil {
			o.Names = append(o.Names, fmt.Sprintf("nest%d", len(o.Glyphs)))
		}
		return glyph.ID(len(o.Glyphs) - 1)
	}
	c1 := comp(cm.Lookup('A'), cm.Lookup('.'))
	c2 := comp(c1, cm.Lookup(','))
	c3 := comp(c2, c1)
	sub := cmap.Format4{}
	lo, hi := cm.CodeRange()
	for r := lo; r <= hi; r++ {
		if g := cm.Lookup(r); g != 0 {
			sub[uint16(r)] = g
		}
	}
	sub['#'], sub['$'], sub['%'] = c1, c2, c3
	f.InstallCMap(sub)
}

// concWithKern writes the font with an added "kern" table and reads the file back, so that
// sfnt.Read builds the GPOS pair-adjustment lookup from it.
func concWithKern(f *sfnt.Font) *sfnt.Font {
	cm, _ := f.CMapTable.GetBest()
	k := kern.Info{}
	pairs := []string{"AV", "AW", "AT", "To", "Ta", "VA", "WA", "LT", "Ty", "Yo"}
	for i, p := range pairs {
		k[glyph.Pair{Left: cm.Lookup(rune(p[0])), Right: cm.Lookup(rune(p[1]))}] = funit.Int16(-20 - 7*i)
	}
	var buf bytes.Buffer
	if _, err := f.Write(&buf); err != nil {
		panic(err)
	}
	r := bytes.NewReader(buf.Bytes())
	h, err := header.Read(r)
	if err != nil {
		panic(err)
	}
	tabs := map[string][]byte{}
	for name := range h.Toc {
		tabs[name], err = h.ReadTableBytes(r, name)
		if err != nil {
			panic(err)
		}
	}
	tabs["kern"] = k.Encode()
	var out bytes.Buffer
	if _, err := header.Write(&out, h.ScalerType, tabs); err != nil {
		panic(err)
	}
	return concReadTTF(out.Bytes())
}

// concCmap12 installs a format 12 cmap that also maps supplementary-plane code points.
func concCmap12(f *sfnt.Font) {
	cm, _ := f.CMapTable.GetBest()
	sub := cmap.Format12{}
	lo, hi := cm.CodeRange()
	for r := lo; r <= hi; r++ {
		if g := cm.Lookup(r); g != 0 {
			sub[uint32(r)] = g
		}
	}
	for i, r := range "ABCDEFGHIJ" {
		sub[0x1D400+uint32(i)] = cm.Lookup(r) // MATHEMATICAL BOLD CAPITAL A..
	}
	f.InstallCMap(sub)
}

// concMultiFD turns the debug font into a CID-keyed font with three font dictionaries.
func concMultiFD(f *sfnt.Font) {
	o := f.Outlines.(*cff.Outlines)
	p0 := o.Private[0]
	p1, p2 := *p0, *p0
	p1.BlueScale, p1.StdHW = 0.05, 40
	p2.BlueFuzz, p2.StdVW = 2, 90
	o.Private = []*type1.PrivateDict{p0, &p1, &p2}
	o.FontMatrices = []matrix.Matrix{matrix.Identity, {1.1, 0, 0, 1.1, 0, 0}, {1, 0, 0.2, 1, 0, 0}}
	o.FDSelect = func(gid glyph.ID) int { return int(gid) % 3 }
	g2c := make([]cid.CID, len(o.Glyphs))
	for i := range g2c {
		g2c[i] = cid.CID(3*i + 1)
	}
	g2c[0] = 0
	o.MakeCIDKeyed(&cid.SystemInfo{Registry: "Adobe", Ordering: "Japan1", Supplement: 6}, g2c)
}

// concFont builds a fresh font from its id (nothing is shared between two calls except the
// package-level tables of the library and the embedded font files).
func concFont(id string) *sfnt.Font {
	base, variant := id, ""
	for _, suf := range []string{"+img", "+imgj", "+odd"} {
		if strings.HasSuffix(id, suf) {
			base, variant = strings.TrimSuffix(id, suf), suf
		}
	}
	f := concFontRaw(base)
	// spare capacity of every byte slice in the graph (io.ReadAll leaves cap > len, zero-filled)
	// is filled with 0xEE so that a stray zero-padding append into it shows in the hash
	deepPoison(f)
	if variant != "" {
		concRawTables(f, variant)
	}
	return f
}

// concImageTables are raw TrueType tables whose lengths are not multiples of four.
var concImageTables = []struct {
	name string
	data []byte
}{
	{"fpgm", []byte{0xB8, 0x01, 0xFF, 0x85, 0x1D}},
	{"prep", []byte{0xB8, 0x01, 0xFF, 0x85, 0xB0, 0x04, 0x8D}},
	{"cvt ", []byte{0x00, 0x14, 0x00, 0x28, 0x00, 0x3C}},
	{"gasp", []byte{0x00, 0x01, 0x00, 0x01, 0xFF, 0xFF, 0x00, 0x0F, 0x77}},
}

// concRawTables replaces the raw tables of a TrueType font (the byte slices the font shares with
// header.Write on every Write):
//
//	+img   adjacent sub-slices of ONE image, as a loader that keeps the file in one buffer makes
//	       them: table i has spare capacity reaching over tables i+1.. (live data)
//	+imgj  the same, with 0xEE bytes after the last table
//	+odd   the font's own tables, each cut to a length ≢ 0 (mod 4) in a private buffer with
//	       16 bytes of 0xEE spare capacity
func concRawTables(f *sfnt.Font, variant string) {
	o, ok := f.Outlines.(*glyf.Outlines)
	if !ok {
		return
	}
	switch variant {
	case "+img", "+imgj":
		var image []byte
		for _, t := range concImageTables {
			image = append(image, t.data...)
		}
		n := len(image)
		if variant == "+imgj" {
			image = append(image, bytes.Repeat([]byte{0xEE}, 24)...)
		} else {
			image = image[:n:n]
		}
		o.Tables = map[string][]byte{}
		pos := 0
		for _, t := range concImageTables {
			o.Tables[t.name] = image[pos : pos+len(t.data)] // capacity runs to the end of the image
			pos += len(t.data)
		}
	case "+odd":
		tabs := map[string][]byte{}
		for name, data := range o.Tables {
			l := len(data)
			if l%4 == 0 && l > 1 {
				l--
			}
			buf := bytes.Repeat([]byte{0xEE}, l+16)
			copy(buf, data[:l])
			tabs[name] = buf[:l]
		}
		o.Tables = tabs
	}
}

func concFontRaw(id string) *sfnt.Font {
	var f *sfnt.Font
	switch {
	case id == "cff", id == "cffgtab", id == "cffgsub", id == "cid":
		f = debug.MakeSimpleFont()
		f.CreationTime, f.ModificationTime = concFixedTime, concFixedTime
		switch id {
		case "cffgtab":
			concAddGtab(f)
		case "cffgsub": // GSUB/GPOS but no GDEF: Subset is implemented for this shape
			concAddGtab(f)
			f.Gdef = nil
		case "cid":
			o := f.Outlines.(*cff.Outlines)
			g2c := make([]cid.CID, len(o.Glyphs))
			for i := range g2c {
				g2c[i] = cid.CID(2 * i)
			}
			o.MakeCIDKeyed(&cid.SystemInfo{Registry: "Adobe", Ordering: "Identity", Supplement: 0}, g2c)
		}
	case strings.HasPrefix(id, "sttf"):
		f = concSmallTTF()
		o := f.Outlines.(*glyf.Outlines)
		switch id {
		case "sttf":
		case "sttfdup": // two pairs of glyphs share a name
			o.Names[7], o.Names[20] = o.Names[5], o.Names[5]
			o.Names[len(o.Names)-1] = o.Names[2]
		case "sttfempty":
			for i := 3; i < len(o.Names); i += 4 {
				o.Names[i] = ""
			}
		case "sttfnotdef0":
			o.Names[0] = "zero"
		case "sttfshort":
			o.Names = o.Names[: len(o.Names)-3 : len(o.Names)-3]
		case "sttfnonames":
			o.Names = nil
		case "sttfnest":
			concNest(f)
		case "sttfkern":
			f = concWithKern(f)
		case "sttf12":
			concCmap12(f)
		case "sttfgtab":
			concAddGtab(f)
			f.Gdef = nil
		case "sttfsub":
			concAddSub(f)
		case "sttfall":
			concAddAll(f, 0)
		case "sttfallx":
			concAddAll(f, 1)
		case "sttfalln":
			concAddAll(f, 3)
		case "sttfunhint":
			cm, _ := f.CMapTable.GetBest()
			concStripHints(o, map[glyph.ID]bool{cm.Lookup('H'): true, cm.Lookup('I'): true})
		case "sttfnil":
			o.Names, o.Tables, o.Maxp = nil, nil, nil
			f.Gdef, f.Gsub, f.Gpos = nil, nil, nil
		case "sttfnocmap":
			f.CMapTable = nil
			o.Tables = map[string][]byte{}
		default:
			panic("unknown font id " + id)
		}
	case id == "cffdup", id == "cffempty", id == "cffnotdef0", id == "cidmulti", id == "cff12", id == "cffall", id == "cffallx", id == "cffall5", id == "cffalln", id == "cffsub", id == "cffnoenc", id == "cffemptyenc", id == "cffnil", id == "cffnocmap":
		f = debug.MakeSimpleFont()
		f.CreationTime, f.ModificationTime = concFixedTime, concFixedTime
		o := f.Outlines.(*cff.Outlines)
		switch id {
		case "cffdup":
			o.Glyphs[6].Name, o.Glyphs[9].Name = o.Glyphs[4].Name, o.Glyphs[4].Name
			o.Glyphs[len(o.Glyphs)-1].Name = o.Glyphs[5].Name
		case "cffempty":
			for i := 2; i < len(o.Glyphs); i += 3 {
				o.Glyphs[i].Name = ""
			}
		case "cffnotdef0":
			o.Glyphs[0].Name = "zero"
			o.Glyphs[1].Name = ".notdef"
		case "cidmulti":
			concMultiFD(f)
		case "cff12":
			concCmap12(f)
		case "cffsub":
			concAddSub(f)
		case "cffall5":
			concAddAll(f, 2)
		case "cffalln":
			concAddAll(f, 3)
		case "cffnoenc":
			o.Encoding = nil
		case "cffemptyenc":
			o.Encoding = make([]glyph.ID, 0, 256)
		case "cffnil":
			o.Encoding, o.FontMatrices, o.GIDToCID, o.ROS = nil, nil, nil, nil
			o.Private = []*type1.PrivateDict{{}}
			f.Gdef, f.Gsub, f.Gpos = nil, nil, nil
			f.Description, f.SampleText, f.Copyright = "", "", ""
		case "cffnocmap":
			o.Encoding = nil
			f.CMapTable = nil
		case "cffall":
			concAddAll(f, 0)
		case "cffallx":
			concAddAll(f, 1)
		}
	case id == "cidfd7": // CID-keyed, seven private dictionaries, FD = gid mod 7
		f = debug.MakeSimpleFont()
		f.CreationTime, f.ModificationTime = concFixedTime, concFixedTime
		concMultiFD(f)
		o := f.Outlines.(*cff.Outlines)
		p0 := o.Private[0]
		o.Private, o.FontMatrices = nil, nil
		for i := 0; i < 7; i++ {
			p := *p0
			p.StdHW, p.StdVW, p.BlueFuzz = float64(40+i), float64(80+2*i), int32(1+i%3)
			o.Private = append(o.Private, &p)
			o.FontMatrices = append(o.FontMatrices, matrix.Matrix{1 + float64(i)/16, 0, 0, 1, 0, 0})
		}
		o.FDSelect = func(gid glyph.ID) int { return int(gid) % 7 }
	case id == "cffbig":
		// a GSUB lookup list far beyond 64 kB: four multiple-substitution lookups of about 36 kB
		// each, so that the encoder has to replace the subtables of some lookups by extension
		// records (never put into the random pools: applying it would blow texts up)
		f = debug.MakeSimpleFont()
		f.CreationTime, f.ModificationTime = concFixedTime, concFixedTime
		var ll gtab.LookupList
		for k := 0; k < 4; k++ {
			sub := &gtab.Gsub2_1{Cov: coverage.Table{}}
			for i := 0; i < 30; i++ {
				sub.Cov[glyph.ID(2+i)] = i
				seq := make([]glyph.ID, 600)
				for j := range seq {
					seq[j] = glyph.ID(1 + (i+j+k)%30)
				}
				sub.Repl = append(sub.Repl, seq)
			}
			ll = append(ll, &gtab.LookupTable{Meta: &gtab.LookupMetaInfo{LookupType: 2, LookupFlags: gtab.LookupFlags(k & 1 * 8)}, Subtables: []gtab.Subtable{sub}})
		}
		f.Gsub = &gtab.Info{
			ScriptList:  map[language.Tag]*gtab.Features{language.MustParse("und-Zzzz"): {Required: 0}},
			FeatureList: []*gtab.Feature{{Tag: "test", Lookups: []gtab.LookupIndex{0, 1, 2, 3}}},
			LookupList:  ll,
		}
	case id == "cffreq", id == "cffopt":
		// "smcp" (not among the default features) is the REQUIRED feature of cffreq's script record
		// and an optional, non-default feature of cffopt; both also have an optional "liga"
		f = debug.MakeSimpleFont()
		f.CreationTime, f.ModificationTime = concFixedTime, concFixedTime
		gs, err := builder.Parse(f, `
			GSUB1: A->B, C->D, E->F
			GSUB4: F I -> K, F L -> L
		`)
		if err != nil {
			panic(err)
		}
		gp, err := builder.Parse(f, `
			GPOS1: [A-F] -> y+25
			GPOS2: A V -> dx-100, T E -> dx-50
		`)
		if err != nil {
			panic(err)
		}
		feats := &gtab.Features{Required: 0, Optional: []gtab.FeatureIndex{1}}
		pfeats := &gtab.Features{Required: 0, Optional: []gtab.FeatureIndex{1}}
		if id == "cffopt" {
			feats = &gtab.Features{Required: 0xFFFF, Optional: []gtab.FeatureIndex{0, 1}}
			pfeats = &gtab.Features{Required: 0xFFFF, Optional: []gtab.FeatureIndex{0, 1}}
		}
		und := language.MustParse("und-Zzzz")
		f.Gsub = &gtab.Info{
			ScriptList:  map[language.Tag]*gtab.Features{und: feats},
			FeatureList: []*gtab.Feature{{Tag: "smcp", Lookups: []gtab.LookupIndex{0}}, {Tag: "liga", Lookups: []gtab.LookupIndex{1}}},
			LookupList:  gs,
		}
		f.Gpos = &gtab.Info{
			ScriptList:  map[language.Tag]*gtab.Features{und: pfeats},
			FeatureList: []*gtab.Feature{{Tag: "sups", Lookups: []gtab.LookupIndex{0}}, {Tag: "kern", Lookups: []gtab.LookupIndex{1}}},
			LookupList:  gp,
		}
	case id == "cidread":
		f = debug.MakeSimpleFont()
		f.CreationTime, f.ModificationTime = concFixedTime, concFixedTime
		concMultiFD(f)
		o := f.Outlines.(*cff.Outlines)
		n := len(o.Glyphs)
		o.FDSelect = func(gid glyph.ID) int { return 3 * int(gid) / n } // three contiguous ranges
		var buf bytes.Buffer
		if _, err := f.Write(&buf); err != nil {
			panic(err)
		}
		f = concReadTTF(buf.Bytes())
	case id == "ttf":
		f = concReadTTF(goregular.TTF)
	case id == "ttfgtab":
		f = concReadTTF(goregular.TTF)
		concAddGtab(f)
	case id == "ttfhead":
		// raw "head" (and "hhea") bytes stored in the shared font: header.Write patches the head
		// table it is given IN PLACE, so Write must never hand it these shared bytes
		f = concReadTTF(goregular.TTF)
		o := f.Outlines.(*glyf.Outlines)
		if o.Tables == nil {
			o.Tables = map[string][]byte{}
		}
		o.Tables["head"] = bytes.Repeat([]byte{0xAA}, 54)
		o.Tables["hhea"] = bytes.Repeat([]byte{0x55}, 36)
	case id == "ttfitalic":
		f = concReadTTF(goitalic.TTF)
	case id == "ttfmono":
		f = concReadTTF(gomono.TTF)
	case strings.HasPrefix(id, "tc"):
		var i int
		fmt.Sscan(id[2:], &i)
		g, err := testcases.NewFontGen()
		if err != nil {
			panic(err)
		}
		f, err = g.GsubTestFont(i)
		if err != nil {
			panic(err)
		}
		f.CreationTime, f.ModificationTime = concFixedTime, concFixedTime
	default:
		panic("unknown font id " + id)
	}
	return f
}

// concGlobals are the package-level tables the operations can reach that are visible from
// outside the library packages (the others are covered by the write inventory of
// extract/gen_conc.go): default feature sets, the test-case table the tc fonts are built from,
// and the embedded font files.
func concGlobalsHash() uint64 {
	h := deepHash(&gtab.GsubDefaultFeatures)
	h = mix(h, deepHash(&gtab.GposDefaultFeatures))
	h = mix(h, deepHash(&testcases.Gsub))
	h = mix(h, hashBytes(goregular.TTF))
	h = mix(h, hashBytes(goitalic.TTF))
	h = mix(h, hashBytes(gomono.TTF))
	return h
}

// The package-level default feature maps as they are when the process starts.  A case that finds
// them changed reports it AND puts them back, so that the cases after it (and the goroutines of
// its own parallel phase: concurrent writes to a Go map are a fatal error that recover cannot
// catch) start from pristine package state again.
var concPristineGsub, concPristineGpos = concCopyMap(gtab.GsubDefaultFeatures), concCopyMap(gtab.GposDefaultFeatures)

func concCopyMap(m map[string]bool) map[string]bool {
	c := make(map[string]bool, len(m))
	for k, v := range m {
		c[k] = v
	}
	return c
}

func concSameMap(a, b map[string]bool) bool {
	if len(a) != len(b) {
		return false
	}
	for k, v := range a {
		if w, ok := b[k]; !ok || w != v {
			return false
		}
	}
	return true
}

// concRestoreGlobals reports which default feature map differs from its pristine content (with the
// differing tags) and restores both.
func concRestoreGlobals() string {
	var what []string
	for _, x := range []struct {
		name     string
		cur, old map[string]bool
	}{{"GsubDefaultFeatures", gtab.GsubDefaultFeatures, concPristineGsub}, {"GposDefaultFeatures", gtab.GposDefaultFeatures, concPristineGpos}} {
		if concSameMap(x.cur, x.old) {
			continue
		}
		var tags []string
		for k, v := range x.cur {
			if w, ok := x.old[k]; !ok || w != v {
				tags = append(tags, k)
			}
		}
		sort.Strings(tags)
		what = append(what, "gtab."+x.name+"["+strings.Join(tags, ",")+"]")
		for k := range x.cur {
			delete(x.cur, k)
		}
		for k, v := range x.old {
			x.cur[k] = v
		}
	}
	return strings.Join(what, ",")
}

// ---- operations ---------------------------------------------------------------------------------

func concShort(s string) string {
	s = strings.Map(func(r rune) rune {
		if r == '\n' || r == '\t' || r == ' ' {
			return '_'
		}
		return r
	}, s)
	if len(s) <= 96 {
		return s
	}
	sum := sha256.Sum256([]byte(s))
	return fmt.Sprintf("#%x/%d", sum[:8], len(s))
}

// concTrunc makes a result fit for a case-line outcome: no separators, at most 160 characters.
func concTrunc(s string) string {
	s = strings.Map(func(r rune) rune {
		if r == '\n' || r == '\t' || r == ' ' {
			return '_'
		}
		if r == ':' {
			return '='
		}
		return r
	}, s)
	if len(s) > 160 {
		s = s[:160] + "…"
	}
	return s
}

func concSum(b []byte) string {
	sum := sha256.Sum256(b)
	return fmt.Sprintf("%x/%d", sum[:8], len(b))
}

type concRng struct{ s uint64 }

func (r *concRng) next() uint64 {
	r.s += 0x9E3779B97F4A7C15
	z := r.s
	z = (z ^ (z >> 30)) * 0xBF58476D1CE4E5B9
	z = (z ^ (z >> 27)) * 0x94D049BB133111EB
	return z ^ (z >> 31)
}
func (r *concRng) intn(n int) int { return int(r.next() % uint64(n)) }

// concTriggers are texts that make particular lookups of the synthetic tables fire: ligatures,
// unsorted alternates, (chained) contexts of all formats, reverse chaining, mark attachment, and
// the recursion that exhausts the budget of 64 nested actions.
var concTriggers = []string{"JRS", "PJP", "APPZ", "RRS", "CD", "AVA", "VAVTOAW", "DEF", "AVBW", "RSU", "WXYZX", "JJPPP", "AMBN", "QQQQQQQQ", "QQQQQQQQQQQQQQQQQ", "FI", "FL", "AAA", "AAB", "AE", "BCDEF", "ABCDEF", "ABCL",
	"AV", "OO", "TE", "AVWA", "KM", "LN", "KMN", "NM", "AGIJ", "BHIK", "ABC", "BM", "AMAMA", "DEFAGHI"}

// concStale: sequences for one reused layouter — a long text first, then shorter and equally long
// ones, so that every later glyph sits at a buffer index used before; with GDEF marks (M, N: no
// advance is set for them) and glyphs that GPOS places (A-C y+10, H x+1, I y+1, marks on bases).
var concStale = [][]string{
	{"AAC", "CBC"},
	{"ABCHIAMBN", "MNMNM", "CBC", "NM"},
	{"HIHIHIHI", "MMMM", "BMBM", "AVAV"},
	{"KMLNKMN", "NNN", "ABC", "CBA"},
	{"AAAAAAAAAAAA", "MAM", "MAM", "M"},
}

func concText(r *concRng) string {
	const pool = "AAABBCCDEFGHIJKLMNOPQRSTUVWXYZ AVTEOOW"
	n := 1 + r.intn(14)
	b := make([]byte, n)
	for i := range b {
		b[i] = pool[r.intn(len(pool))]
	}
	s := string(b)
	switch r.intn(3) {
	case 0:
		s = concTriggers[r.intn(len(concTriggers))] + " " + s
	case 1:
		s = s + " " + concTriggers[r.intn(len(concTriggers))] + concTriggers[r.intn(len(concTriggers))]
	}
	return s
}

func concSeq(f *sfnt.Font, s string) []glyph.Info {
	cm, err := f.CMapTable.GetBest()
	if err != nil {
		return nil
	}
	seq := make([]glyph.Info, 0, len(s))
	for _, r := range s {
		gid := cm.Lookup(r)
		seq = append(seq, glyph.Info{GID: gid, Text: []rune{r}, Advance: 500})
	}
	return seq
}

func concShowSeq(seq []glyph.Info) string {
	var b strings.Builder
	for _, g := range seq {
		fmt.Fprintf(&b, "%d:%s:%d,%d,%d;", g.GID, string(g.Text), g.XOffset, g.YOffset, g.Advance)
	}
	return b.String()
}

var concLangs = []language.Tag{language.AmericanEnglish, language.German, language.French, language.Und, language.Japanese}

// concOrderFree: fonts for which Subset's glyph order is not a function of its arguments (the
// GSUB closure and the closure over composite components both iterate over Go maps).
func concOrderFree(f *sfnt.Font) bool {
	if f.Gsub != nil {
		return true
	}
	if o, ok := f.Outlines.(*glyf.Outlines); ok {
		for _, g := range o.Glyphs {
			if g != nil {
				if _, ok := g.Data.(glyf.CompositeGlyph); ok {
					return true
				}
			}
		}
	}
	return false
}

// concSubsetCanon describes a subset font independently of the order of its glyphs: the number of
// glyphs and the multiset of glyph payloads (outline, width, name).
func concSubsetCanon(sub *sfnt.Font) string {
	var hs []uint64
	switch o := sub.Outlines.(type) {
	case *cff.Outlines:
		for _, g := range o.Glyphs {
			hs = append(hs, deepHash(g))
		}
	case *glyf.Outlines:
		for i, g := range o.Glyphs {
			h := deepHash(g)
			if g != nil {
				if c, ok := g.Data.(glyf.CompositeGlyph); ok { // component ids depend on the order
					h = mix(deepHash(g.Rect16), uint64(len(c.Components)))
				}
			}
			if i < len(o.Widths) {
				h = mix(h, uint64(o.Widths[i]))
			}
			if i < len(o.Names) {
				h = mix(h, hashString(o.Names[i]))
			}
			hs = append(hs, h)
		}
	}
	sort.Slice(hs, func(i, j int) bool { return hs[i] < hs[j] })
	var x uint64 = 99
	for _, h := range hs {
		x = mix(x, h)
	}
	return fmt.Sprintf("ng=%d,content=%x,gsub=%v,gpos=%v", sub.NumGlyphs(), x, sub.Gsub != nil, sub.Gpos != nil)
}

// concSubsetGlyphs draws the glyph list of the subset op (also used by the generator to pick
// arguments whose list has a wanted shape).
func concSubsetGlyphs(n int, r *concRng) []glyph.ID {
	most := r.intn(2) == 0 // first draw: the generator can force this mode through the argument
	k := 1 + r.intn(12)
	seen := map[int]bool{0: true}
	glyphs := make([]glyph.ID, 1, n+40) // spare capacity: Subset appends to the caller's list
	if most && n > 8 {
		// keep (almost) everything, so that whole rules (all components and the output of a
		// ligature, both glyphs of a pair) survive — but drop a few low glyphs, so that every
		// retained glyph gets a NEW id
		drop := map[int]bool{1 + r.intn(3): true, 1 + r.intn(8): true}
		for g := 1; g < n; g++ {
			if !drop[g] {
				seen[g] = true
				glyphs = append(glyphs, glyph.ID(g))
			}
		}
		k = 0
	}
	for len(glyphs) < k && len(glyphs) < n {
		g := r.intn(n)
		if !seen[g] {
			seen[g] = true
			glyphs = append(glyphs, glyph.ID(g))
		}
	}
	if r.intn(3) == 0 && !seen[n-1] && n > 1 {
		glyphs = append(glyphs, glyph.ID(n-1)) // the last glyph: deepest nested composite, if any
	}
	sort.Slice(glyphs, func(i, j int) bool { return glyphs[i] < glyphs[j] })
	return glyphs
}

type concOp struct {
	name string
	// which fonts it is meaningful for: "" any, "cff", "glyf", "gtab"
	needs string
	run   func(f *sfnt.Font, r *concRng) string
}

var concOps = []concOp{
	{"write", "", func(f *sfnt.Font, r *concRng) string {
		var buf bytes.Buffer
		n, err := f.Write(&buf)
		return fmt.Sprintf("n=%d,err=%v,%s", n, err, concSum(buf.Bytes()))
	}},
	{"writepdf", "", func(f *sfnt.Font, r *concRng) string {
		var buf bytes.Buffer
		if f.IsGlyf() {
			n, err := f.WriteTrueTypePDF(&buf)
			return fmt.Sprintf("tt,n=%d,err=%v,%s", n, err, concSum(buf.Bytes()))
		}
		err := f.WriteOpenTypeCFFPDF(&buf)
		return fmt.Sprintf("cff,err=%v,%s", err, concSum(buf.Bytes()))
	}},
	{"subset", "", func(f *sfnt.Font, r *concRng) string {
		glyphs := concSubsetGlyphs(f.NumGlyphs(), r)
		sub := f.Subset(glyphs)
		// the subset itself, then its written form (writing some subsets panics: reported, not fatal)
		if concOrderFree(f) {
			// Subset appends the glyphs its GSUB / composite closure adds in Go map-iteration order: two calls
			// with the same arguments may number those glyphs differently (C10's order oracle).  The
			// result compared here is therefore the order-insensitive content of the subset.
			return concSubsetCanon(sub)
		}
		res := fmt.Sprintf("ng=%d,h=%x,", sub.NumGlyphs(), deepHash(sub.Gsub)^deepHash(sub.Gpos)^deepHash(sub.CMapTable))
		return res + guard(func() string {
			var buf bytes.Buffer
			wn, err := sub.Write(&buf)
			return fmt.Sprintf("n=%d,err=%v,%s", wn, err, concSum(buf.Bytes()))
		})
	}},
	{"clone", "", func(f *sfnt.Font, r *concRng) string {
		c := f.Clone()
		res := fmt.Sprintf("%v,%v,%v,%v,%v,%s,%d,%d", c != f, c.Outlines == f.Outlines, c.Gsub == f.Gsub, c.Gpos == f.Gpos,
			c.Gdef == f.Gdef, c.FamilyName, c.NumGlyphs(), len(c.CMapTable))
		if c.NumGlyphs() < 100 { // the deep hash of a 650-glyph font costs 0.1 s
			res += fmt.Sprintf(",%x", deepHash(c))
		}
		return res
	}},
	{"fontbbox", "", func(f *sfnt.Font, r *concRng) string { return fmt.Sprint(f.FontBBox()) }},
	{"fontbboxpdf", "", func(f *sfnt.Font, r *concRng) string { return fmt.Sprint(f.FontBBoxPDF()) }},
	{"widths", "", func(f *sfnt.Font, r *concRng) string { return concShort(fmt.Sprint(f.Widths())) }},
	{"widthspdf", "", func(f *sfnt.Font, r *concRng) string { return concShort(fmt.Sprint(f.WidthsPDF())) }},
	{"widthsmappdf", "cff", func(f *sfnt.Font, r *concRng) string {
		m := f.WidthsMapPDF()
		keys := make([]string, 0, len(m))
		for k := range m {
			keys = append(keys, k)
		}
		sort.Strings(keys)
		var b strings.Builder
		for _, k := range keys {
			fmt.Fprintf(&b, "%s=%v;", k, m[k])
		}
		return concShort(b.String())
	}},
	{"glyphbbox", "", func(f *sfnt.Font, r *concRng) string {
		return fmt.Sprint(f.GlyphBBox(glyph.ID(r.intn(f.NumGlyphs()))))
	}},
	{"glyphbboxes", "", func(f *sfnt.Font, r *concRng) string { return concShort(fmt.Sprint(f.GlyphBBoxes())) }},
	{"glyphbboxpdf", "", func(f *sfnt.Font, r *concRng) string {
		return fmt.Sprint(f.Outlines.GlyphBBoxPDF(f.FontMatrix, glyph.ID(r.intn(f.NumGlyphs()))))
	}},
	{"glyphwidth", "", func(f *sfnt.Font, r *concRng) string {
		return fmt.Sprint(f.GlyphWidth(glyph.ID(r.intn(f.NumGlyphs()))))
	}},
	{"glyphwidthpdf", "", func(f *sfnt.Font, r *concRng) string {
		return fmt.Sprint(f.GlyphWidthPDF(glyph.ID(r.intn(f.NumGlyphs()))))
	}},
	{"glyphnames", "", func(f *sfnt.Font, r *concRng) string {
		return concShort(strings.Join(f.MakeGlyphNames(), ","))
	}},
	{"subsetreuse", "", func(f *sfnt.Font, r *concRng) string {
		// a worker makes several subsets of the shared font RE-USING ITS OWN glyph buffer between
		// the calls.  Each subset is written right after it was made (snapshot); after the buffer
		// has been refilled for the next subsets and finally wiped, writing the SAME subset again
		// must give the snapshot: a returned subset does not depend on the caller's buffer.
		// (Only one Subset call per subset: two calls may legitimately number closure glyphs
		// differently, see concSubsetCanon.)
		n := f.NumGlyphs()
		buf := make([]glyph.ID, 0, 64)
		var subs []*sfnt.Font
		var snap []string
		write := func(x *sfnt.Font) string {
			return guard(func() string {
				var b bytes.Buffer
				if x.IsCFF() {
					err := x.AsCFF().Write(&b)
					return fmt.Sprintf("cff,err=%v,%s", err, concSum(b.Bytes()))
				}
				_, err := x.Write(&b)
				return fmt.Sprintf("sfnt,err=%v,%s", err, concSum(b.Bytes()))
			})
		}
		for i := 0; i < 3; i++ {
			buf = append(buf[:0], 0)
			seen := map[int]bool{0: true}
			for len(buf) < 12 && len(buf) < n {
				g := 1 + r.intn(n-1)
				if !seen[g] {
					seen[g] = true
					buf = append(buf, glyph.ID(g))
				}
			}
			sort.Slice(buf, func(a, b int) bool { return buf[a] < buf[b] })
			var sub *sfnt.Font
			if res := guard(func() string { sub = f.Subset(buf); return "" }); res != "" {
				return res // Subset panics on this font ("not implemented"): same outcome every time
			}
			subs = append(subs, sub)
			snap = append(snap, write(sub))
		}
		full := buf[:cap(buf)]
		for i := range full {
			full[i] = 0 // and finally the buffer is wiped
		}
		ng := 0
		for i, x := range subs {
			if got := write(x); got != snap[i] {
				return fmt.Sprintf("notalone:subset=%d,written-after-buffer-reuse=%s,written-at-once=%s", i, got, snap[i])
			}
			ng += x.NumGlyphs()
		}
		if concOrderFree(f) {
			return fmt.Sprintf("ok,subsets=%d,glyphs=%d", len(subs), ng) // bytes depend on the closure order
		}
		return concShort(strings.Join(snap, ";"))
	}},
	{"pdfmetrics", "", func(f *sfnt.Font, r *concRng) string {
		// GlyphWidthPDF and GlyphBBoxPDF of EVERY glyph, many times over, in an order that keeps
		// switching between the FD ranges of a CID-keyed font
		n := f.NumGlyphs()
		iters := 1 + 6000/(n+1)
		h := uint64(17)
		for it := 0; it < iters; it++ {
			for i := 0; i < n; i++ {
				gid := glyph.ID((i*7 + it) % n)
				h = mix(h, math.Float64bits(f.GlyphWidthPDF(gid)))
				bb := f.Outlines.GlyphBBoxPDF(f.FontMatrix, gid)
				h = mix(h, math.Float64bits(bb.LLx)^math.Float64bits(bb.URy))
			}
		}
		return fmt.Sprintf("%x,%v", h, f.FontBBoxPDF())
	}},
	{"glyphname", "", func(f *sfnt.Font, r *concRng) string {
		var b strings.Builder
		for i := 0; i < 4; i++ {
			b.WriteString(f.GlyphName(glyph.ID(r.intn(f.NumGlyphs()))))
			b.WriteByte(',')
		}
		return b.String()
	}},
	{"fontinfo", "", func(f *sfnt.Font, r *concRng) string {
		return concShort(fmt.Sprintf("%+v", *f.GetFontInfo()))
	}},
	{"ascffwrite", "cff", func(f *sfnt.Font, r *concRng) string {
		var buf bytes.Buffer
		err := f.AsCFF().Write(&buf)
		return fmt.Sprintf("err=%v,%s", err, concSum(buf.Bytes()))
	}},
	{"layout", "", func(f *sfnt.Font, r *concRng) string {
		// ONE layouter lays out a SEQUENCE of texts (as callers do: the layouter and its buffer are
		// reused); every result must be what a FRESH layouter returns for that text alone.
		lang := concLangs[r.intn(len(concLangs))]
		l, err := f.NewLayouter(lang, nil, nil)
		if err != nil {
			return "err=" + err.Error()
		}
		var texts []string
		for i := 0; i < 3; i++ {
			texts = append(texts, concText(r))
		}
		// shrinking and equal lengths after a longer text, with marks (M, N) and placements
		texts = append(texts, concStale[r.intn(len(concStale))]...)
		if f.Gsub != nil || f.Gpos != nil { // every trigger text, incl. the budget-exhausting one
			texts = append(texts, concTriggers...)
		}
		var b strings.Builder
		prev := ""
		for _, t := range texts {
			got := concShowSeq(l.Layout(t))
			fresh, err := f.NewLayouter(lang, nil, nil)
			if err != nil {
				return "err=" + err.Error()
			}
			if want := concShowSeq(fresh.Layout(t)); got != want {
				return "notalone:text=" + t + ",after=" + prev + ",reused=" + got + ",fresh=" + want
			}
			b.WriteString(got)
			b.WriteByte('|')
			prev = t
		}
		// a layouter with CALLER-SUPPLIED feature maps: the maps belong to the caller
		myGsub := map[string]bool{"liga": true, "smcp": false, "calt": true}
		myGpos := map[string]bool{"kern": true, "mark": false}
		cG, cP := concCopyMap(myGsub), concCopyMap(myGpos)
		if l3, err := f.NewLayouter(lang, myGsub, myGpos); err == nil {
			b.WriteString(concShowSeq(l3.Layout("AAB FI AVA abc")))
		}
		if !concSameMap(myGsub, cG) || !concSameMap(myGpos, cP) {
			return fmt.Sprintf("notalone:caller-feature-map-written,gsub=%v,gpos=%v", myGsub, myGpos)
		}
		return concShort(b.String())
	}},
	{"gtabapply", "gtab", func(f *sfnt.Font, r *concRng) string {
		info := f.Gsub
		if r.intn(2) == 1 {
			info = f.Gpos
		}
		if info == nil {
			return "no-table"
		}
		lookups := make([]gtab.LookupIndex, len(info.LookupList))
		for i := range lookups {
			lookups[i] = gtab.LookupIndex(i)
		}
		ctx := gtab.NewContext(info.LookupList, f.Gdef, lookups)
		var b strings.Builder
		for i := 0; i < 2; i++ {
			b.WriteString(concShowSeq(ctx.Apply(concSeq(f, concText(r)))))
			b.WriteByte('|')
		}
		for _, t := range concTriggers {
			b.WriteString(concShowSeq(ctx.Apply(concSeq(f, t))))
			b.WriteByte('|')
		}
		// direct use with the FONT-OWNED index lists (each feature's Lookups, as stored in the
		// font — possibly with dangling references), twice: NewContext/Apply must not touch them
		for round := 0; round < 2; round++ {
			for _, feat := range info.FeatureList {
				if feat == nil {
					continue
				}
				c2 := gtab.NewContext(info.LookupList, f.Gdef, feat.Lookups)
				for _, t := range []string{"AAB FI AVA", "QQQQQQQQ", concText(r)} {
					b.WriteString(concShowSeq(c2.Apply(concSeq(f, t))))
					b.WriteByte('|')
				}
			}
		}
		return concShort(b.String())
	}},
	{"findlookups", "gtab", func(f *sfnt.Font, r *concRng) string {
		lang := concLangs[r.intn(len(concLangs))]
		return fmt.Sprint(f.Gsub.FindLookups(lang, gtab.GsubDefaultFeatures), f.Gpos.FindLookups(lang, gtab.GposDefaultFeatures))
	}},
	{"explaingsub", "gtab", func(f *sfnt.Font, r *concRng) string { return concShort(builder.ExplainGsub(f)) }},
	{"explaingpos", "gtab", func(f *sfnt.Font, r *concRng) string {
		return concShort(strings.Join(builder.ExplainGpos(f), "\n"))
	}},
}

// concControl are documented MUTATORS, not operations of the property: they are run through the
// same detectors as a positive control (streams conc.control / conc.racecontrol, diagnostic).
var concControl = []concOp{
	{"ensureglyphnames", "", func(f *sfnt.Font, r *concRng) string {
		f.EnsureGlyphNames()
		return "done"
	}},
}

var concOpByName = func() map[string]*concOp {
	m := map[string]*concOp{}
	for i := range concOps {
		m[concOps[i].name] = &concOps[i]
	}
	for i := range concControl {
		m[concControl[i].name] = &concControl[i]
	}
	return m
}()

func concApplicable(op *concOp, f *sfnt.Font) bool {
	switch op.needs {
	case "cff":
		return f.IsCFF()
	case "glyf":
		return f.IsGlyf()
	case "gtab":
		return f.Gsub != nil
	}
	return true
}

func concRun(name string, f *sfnt.Font, arg uint64) string {
	op := concOpByName[name]
	if op == nil {
		return "unknown-op"
	}
	return guard(func() string { return op.run(f, &concRng{s: arg}) })
}

func concArg(seed uint64, g, k int) uint64 {
	r := concRng{s: seed ^ uint64(g)*0x100000001B3 ^ uint64(k)<<40}
	return r.next()
}

type concState struct {
	id             string
	f              *sfnt.Font
	whole, globals uint64
}

func concSnapshot(id string, f *sfnt.Font) concState {
	return concState{id: id, f: f, whole: deepHash(f), globals: concGlobalsHash()}
}

// diff compares an earlier snapshot with a later one of the same font.  To say WHERE the graph
// changed, the field-wise hashes of the (changed) font are compared with those of a fresh
// instance built from the same id (construction is deterministic).
func (a concState) diff(b concState) string {
	if a.whole == b.whole && a.globals == b.globals {
		return ""
	}
	if a.globals != b.globals {
		if w := concRestoreGlobals(); w != "" {
			return "changed:package-level-state=" + concTrunc(w)
		}
		return "changed:package-level-tables"
	}
	return "changed:" + strings.ReplaceAll(diffParts(deepHashParts(concFont(a.id)), deepHashParts(b.f)), " ", ",")
}

// notes left by the handlers for the generator's statistics (same process)
var concNotes []string

func concPure(fd Fields) string {
	concRestoreGlobals() // safety net: never start from package state an earlier case left changed
	f := concFont(fd["font"])
	var arg uint64
	fmt.Sscan(fd["arg"], &arg)
	before := concSnapshot(fd["font"], f)
	r1 := concRun(fd["op"], f, arg)
	mid := concSnapshot(fd["font"], f)
	r2 := concRun(fd["op"], f, arg)
	after := concSnapshot(fd["font"], f)
	if r1 == "unknown-op" {
		return r1
	}
	for _, r := range []string{r1, r2} {
		if strings.HasPrefix(r, "notalone:") {
			// the call did not return what it returns when run alone (state carried over from an
			// earlier call on a per-goroutine object)
			return "differs:" + concTrunc(r)
		}
	}
	if d := before.diff(mid); d != "" {
		return d
	}
	if d := mid.diff(after); d != "" {
		return d + "(second-call)"
	}
	cls := "ok"
	if strings.HasPrefix(r1, "panic:") {
		cls = "panic"
	} else if strings.Contains(r1, "err=") && !strings.Contains(r1, "err=<nil>") {
		cls = "error"
	}
	concNotes = append(concNotes, "outcome:"+cls)
	if r1 != r2 {
		// not a C16 matter by itself (no concurrency involved), recorded for the statistics
		concNotes = append(concNotes, "sequentially-nondeterministic:"+fd["op"])
	}
	return "unchanged"
}

// concParallel runs the case; it is also what the race-detector build executes.
func concParallel(fd Fields) string {
	concRestoreGlobals()
	f := concFont(fd["font"])
	n := fd.Int("threads")
	names := fd.List("ops", ",")
	var seed uint64
	fmt.Sscan(fd["seed"], &seed)
	if n < 1 || len(names) == 0 {
		return "bad-case"
	}
	for _, nm := range names {
		if concOpByName[nm] == nil {
			return "unknown-op"
		}
	}
	opAt := func(g, k int) string { return names[(k+g)%len(names)] }
	seqRun := func() [][]string {
		out := make([][]string, n)
		for g := 0; g < n; g++ {
			out[g] = make([]string, len(names))
			for k := range names {
				out[g][k] = concRun(opAt(g, k), f, concArg(seed, g, k))
			}
		}
		return out
	}
	before := concSnapshot(fd["font"], f)
	ref := seqRun()
	if d := before.diff(concSnapshot(fd["font"], f)); d != "" {
		return d + "(sequential)"
	}
	for g := range ref {
		for k, r := range ref[g] {
			if strings.HasPrefix(r, "notalone:") {
				return fmt.Sprintf("differs:g=%d,k=%d,op=%s,%s", g, k, opAt(g, k), concTrunc(r))
			}
		}
	}

	par := make([][]string, n)
	start := make(chan struct{})
	var wg sync.WaitGroup
	for g := 0; g < n; g++ {
		par[g] = make([]string, len(names))
		wg.Add(1)
		go func(g int) {
			defer wg.Done()
			<-start
			for k := range names {
				par[g][k] = concRun(opAt(g, k), f, concArg(seed, g, k))
			}
		}(g)
	}
	close(start)
	wg.Wait()
	if d := before.diff(concSnapshot(fd["font"], f)); d != "" {
		return d
	}
	ref2 := seqRun()
	for g := 0; g < n; g++ {
		for k := range names {
			if par[g][k] == ref[g][k] && ref2[g][k] == ref[g][k] {
				continue
			}
			// is the differing value one the call can also return sequentially?
			want := par[g][k]
			if want == ref[g][k] {
				want = ref2[g][k]
			}
			found := false
			for try := 0; try < 300 && !found; try++ {
				found = concRun(opAt(g, k), f, concArg(seed, g, k)) == want && want != ref[g][k]
			}
			if found {
				concNotes = append(concNotes, "sequentially-nondeterministic:"+opAt(g, k))
				continue
			}
			return fmt.Sprintf("differs:g=%d,k=%d,op=%s,seq=%s,par=%s", g, k, opAt(g, k), concShort(ref[g][k]), concShort(par[g][k]))
		}
	}
	return "equal"
}

// ---- header.Write on tables that share one image ------------------------------------------------

var concHdrNames = []string{"cvt ", "fpgm", "prep", "gasp", "glyf", "loca", "hmtx", "hhea", "maxp", "name", "post", "OS/2", "cmap", "kern", "DSIG", "zzzz"}

// concHdrWrite: `conc.hdrwrite seed=<n> tables=<k> head=<0|1> threads=<N>`.  k tables (random
// names, lengths 1..40, mostly not multiples of four) are ADJACENT sub-slices of one image with
// 0xEE bytes behind the last one; table i has spare capacity reaching over all later tables.
// header.Write must not store anything into that memory (the only documented in-place write is
// the checksum field head[8:12], which is masked when a head table is present), and successive /
// concurrent calls must produce identical bytes.
func concHdrWrite(fd Fields) string {
	var seed uint64
	fmt.Sscan(fd["seed"], &seed)
	r := &concRng{s: seed}
	k := fd.Int("tables")
	withHead := fd["head"] == "1"
	threads := fd.Int("threads")
	if k < 1 || k > len(concHdrNames) || threads < 1 {
		return "bad-case"
	}
	names := append([]string{}, concHdrNames...)
	for i := len(names) - 1; i > 0; i-- {
		j := r.intn(i + 1)
		names[i], names[j] = names[j], names[i]
	}
	names = names[:k]
	if withHead {
		names[r.intn(k)] = "head"
	}
	var image []byte
	type ext struct{ lo, hi int }
	where := map[string]ext{}
	for _, nm := range names {
		l := 1 + r.intn(40)
		if nm == "head" {
			l = 54
		}
		lo := len(image)
		for i := 0; i < l; i++ {
			image = append(image, byte(1+r.intn(255)))
		}
		where[nm] = ext{lo, lo + l}
	}
	image = append(image, bytes.Repeat([]byte{0xEE}, 16)...)
	tables := map[string][]byte{}
	for nm, e := range where {
		tables[nm] = image[e.lo:e.hi] // no capacity limit: cap runs to the end of the image
	}
	masked := func() []byte {
		c := bytes.Clone(image)
		if e, ok := where["head"]; ok {
			copy(c[e.lo+8:e.lo+12], []byte{0, 0, 0, 0})
		}
		return c
	}
	before := masked()
	write := func() string {
		var buf bytes.Buffer
		n, err := header.Write(&buf, header.ScalerTypeTrueType, tables)
		return fmt.Sprintf("n=%d,err=%v,%s", n, err, concSum(buf.Bytes()))
	}
	changed := func(when string) string {
		now := masked()
		if bytes.Equal(now, before) {
			return ""
		}
		for i := range now {
			if now[i] != before[i] {
				for nm, e := range where {
					if e.lo <= i && i < e.hi {
						return fmt.Sprintf("changed:table=%s,offset=%d(%s)", strings.TrimSpace(nm), i-e.lo, when)
					}
				}
				return fmt.Sprintf("changed:image-tail,offset=%d(%s)", i, when)
			}
		}
		return "changed"
	}
	r1 := guard(write)
	if c := changed("first-write"); c != "" {
		return c
	}
	r2 := guard(write)
	if c := changed("second-write"); c != "" {
		return c
	}
	if r1 != r2 {
		return "differs:successive,first=" + r1 + ",second=" + r2
	}
	if threads > 1 && !withHead { // with a head table concurrent calls share the documented in-place patch
		out := make([]string, threads)
		var wg sync.WaitGroup
		start := make(chan struct{})
		for g := 0; g < threads; g++ {
			wg.Add(1)
			go func(g int) {
				defer wg.Done()
				<-start
				out[g] = guard(write)
			}(g)
		}
		close(start)
		wg.Wait()
		if c := changed("concurrent"); c != "" {
			return c
		}
		for g := range out {
			if out[g] != r1 {
				return fmt.Sprintf("differs:g=%d", g)
			}
		}
	}
	return "unchanged"
}

// concCrossFont: `conc.crossfont first=<id> second=<id> arg=<n>` — using one font must not change
// what another font does: the layout of `second` (default features) is taken before and after
// laying out `first`, which goes through package-level state only.
func concCrossFont(fd Fields) string {
	concRestoreGlobals()
	var arg uint64
	fmt.Sscan(fd["arg"], &arg)
	second := concFont(fd["second"])
	before := concRun("layout", second, arg)
	first := concFont(fd["first"])
	_ = concRun("layout", first, arg+1)
	_ = concRun("findlookups", first, arg+2)
	after := concRun("layout", second, arg)
	w := concRestoreGlobals()
	if before != after {
		return "differs:layout-of-" + fd["second"] + "-after-using-" + fd["first"] + ",state=" + concTrunc(w)
	}
	if w != "" {
		return "changed:package-level-state=" + concTrunc(w)
	}
	return "equal"
}

// concSelfTest: `conc.selftest font=<id>` — completeness of the snapshot on this font: a planted
// write into every slice (first, last, first spare-capacity element) and every map reachable from
// the font must change the deep hash.
func concSelfTest(fd Fields) string {
	f := concFont(fd["font"])
	sites, skipped, missed := deepHashSelfTest(f)
	concNotes = append(concNotes, "selftest.sites:"+bucket(sites), "selftest.unwritable-sites:"+bucket(skipped))
	if len(missed) > 0 {
		first := missed[0]
		if len(first) > 120 {
			first = first[:120]
		}
		return fmt.Sprintf("incomplete:missed=%d,of=%d,first=%s", len(missed), sites, strings.ReplaceAll(first, " ", "_"))
	}
	if sites < 50 {
		return fmt.Sprintf("incomplete:only-%d-sites", sites)
	}
	return "complete"
}

// ---- race detector --------------------------------------------------------------------------------

var (
	concRaceOnce sync.Once
	concRaceExe  string
	concRaceErr  string
)

func concHarnessDir() string {
	if d := os.Getenv("VERIF_HARNESS_SRC"); d != "" {
		return d
	}
	_, file, _, ok := runtime.Caller(0)
	if ok {
		if _, err := os.Stat(filepath.Join(filepath.Dir(file), "main.go")); err == nil {
			return filepath.Dir(file)
		}
	}
	return "/verif/harness"
}

// concRaceBinary builds (once per process; the go build cache makes later builds cheap) a copy
// of this harness with the race detector.
func concRaceBinary() (string, string) {
	concRaceOnce.Do(func() {
		dir := filepath.Join(os.TempDir(), fmt.Sprintf("verif_conc_race_%d", os.Getuid()))
		if err := os.MkdirAll(dir, 0o755); err != nil {
			concRaceErr = err.Error()
			return
		}
		exe := filepath.Join(dir, fmt.Sprintf("vh_race_%d", os.Getpid()))
		src := concHarnessDir()
		args := []string{"build", "-race", "-tags", "verif", "-o", exe}
		if repo := os.Getenv("VERIF_REPO"); repo != "" && repo != "/repo" {
			mod, err := os.ReadFile(filepath.Join(src, "go.mod"))
			if err == nil {
				m := strings.Replace(string(mod), "replace seehuhn.de/go/sfnt => /repo", "replace seehuhn.de/go/sfnt => "+repo, 1)
				tmp := filepath.Join(dir, fmt.Sprintf("go_%d.mod", os.Getpid()))
				_ = os.WriteFile(tmp, []byte(m), 0o644)
				if sum, err := os.ReadFile(filepath.Join(src, "go.sum")); err == nil {
					_ = os.WriteFile(strings.TrimSuffix(tmp, ".mod")+".sum", sum, 0o644)
				}
				args = append(args, "-modfile", tmp)
			}
		}
		cmd := exec.Command("go", append(args, ".")...)
		cmd.Dir = src
		cmd.Env = append(os.Environ(), "GOFLAGS=-mod=mod", "GOPROXY=off", "GOSUMDB=off", "GOTOOLCHAIN=local", "CGO_ENABLED=1")
		out, err := cmd.CombinedOutput()
		if err != nil {
			msg := strings.TrimSpace(string(out))
			if len(msg) > 300 {
				msg = msg[len(msg)-300:]
			}
			concRaceErr = "go build -race failed: " + strings.Join(strings.Fields(msg), " ")
			return
		}
		concRaceExe = exe
	})
	return concRaceExe, concRaceErr
}

func concRace(fd Fields) string {
	exe, e := concRaceBinary()
	if exe == "" {
		return "unavailable:" + e
	}
	dir, err := os.MkdirTemp("", "verif_conc_racecase_")
	if err != nil {
		return "unavailable:" + err.Error()
	}
	defer os.RemoveAll(dir)
	line := fmt.Sprintf("conc.parallel font=%s threads=%s ops=%s seed=%s", fd["font"], fd["threads"], fd["ops"], fd["seed"])
	if err := os.WriteFile(filepath.Join(dir, "case.lines"), []byte("D\t"+line+"\n"), 0o644); err != nil {
		return "unavailable:" + err.Error()
	}
	cmd := exec.Command(exe, "-lines", filepath.Join(dir, "case.lines"), "-out", filepath.Join(dir, "out"))
	cmd.Env = append(os.Environ(), "GORACE=halt_on_error=0 log_path="+filepath.Join(dir, "race"))
	out, _ := cmd.CombinedOutput()
	res := "no-output"
	if data, err := os.ReadFile(filepath.Join(dir, "out", "cases.tsv")); err == nil {
		cols := strings.Split(strings.TrimRight(string(data), "\n"), "\t")
		if len(cols) == 3 {
			res = cols[2]
		}
	} else {
		s := strings.Join(strings.Fields(string(out)), " ")
		if len(s) > 200 {
			s = s[:200]
		}
		res = "no-output:" + s
	}
	logs, _ := filepath.Glob(filepath.Join(dir, "race.*"))
	if len(logs) > 0 {
		data, _ := os.ReadFile(logs[0])
		return "race:" + concRaceSummary(string(data))
	}
	if res == "equal" {
		return "clean"
	}
	return res
}

// concRaceSummary keeps the two conflicting top frames of the first report.
func concRaceSummary(rep string) string {
	var frames []string
	lines := strings.Split(rep, "\n")
	for i, l := range lines {
		l = strings.TrimSpace(l)
		if (strings.Contains(l, " by goroutine ") || strings.Contains(l, " by main goroutine")) && i+1 < len(lines) {
			what := strings.Fields(l)
			fn := strings.TrimSpace(lines[i+1])
			loc := ""
			if i+2 < len(lines) {
				loc = strings.Fields(strings.TrimSpace(lines[i+2]) + " -")[0]
				loc = strings.TrimPrefix(loc, "/repo/")
			}
			frames = append(frames, what[0]+"@"+fn+"@"+loc)
			if len(frames) == 2 {
				break
			}
		}
	}
	n := strings.Count(rep, "WARNING: DATA RACE")
	return fmt.Sprintf("%d-report(s);%s", n, strings.Join(frames, ";"))
}

// ---- generator ----------------------------------------------------------------------------------

func areaConc(c *Ctx) {
	thorough := c.Tier == "thorough"
	// a loaded machine must not turn a slow case into a spurious "timeout" outcome
	caseTimeout = 60 * time.Second
	// applicable operations per font (computed once on throw-away instances)
	appl := map[string][]string{}
	fonts := append([]string{}, concFontIDs...)
	fonts = append(fonts, concNameFonts...)
	fonts = append(fonts, concShapeFonts...)
	fonts = append(fonts, concRawFonts...)
	fonts = append(fonts, concLayoutFonts...)
	fonts = append(fonts, concNilFonts...)
	fonts = append(fonts, concFinalFonts...)
	for _, i := range []int{0, 7, 19, 33, 48, 61, 77, 90, 104, 118} {
		if i < len(testcases.Gsub) {
			fonts = append(fonts, fmt.Sprintf("tc%d", i))
		}
	}
	for _, id := range fonts {
		f := concFont(id)
		for i := range concOps {
			if concApplicable(&concOps[i], f) {
				appl[id] = append(appl[id], concOps[i].name)
			}
		}
	}
	allNames := make([]string, len(concOps))
	for i := range concOps {
		allNames[i] = concOps[i].name
	}
	pickFont := func() string {
		switch x := c.Rng.Intn(10); {
		case x < 4:
			return Pick(c.Rng, concFontIDs)
		case x < 6:
			return Pick(c.Rng, concNameFonts)
		case x < 6:
			return Pick(c.Rng, concShapeFonts)
		case x < 7:
			return Pick(c.Rng, concRawFonts)
		case x < 9:
			if c.Rng.Chance(1, 4) {
				return Pick(c.Rng, concNilFonts)
			}
			return Pick(c.Rng, concLayoutFonts)
		}
		return Pick(c.Rng, fonts)
	}
	pickOp := func(id string) string {
		if c.Rng.Chance(1, 12) {
			return Pick(c.Rng, allNames) // also operations that panic / do nothing on this kind of font
		}
		return Pick(c.Rng, appl[id])
	}
	drain := func() {
		for _, n := range concNotes {
			i := strings.IndexByte(n, ':')
			c.Stat(n[:i], n[i+1:])
		}
		concNotes = concNotes[:0]
	}
	fontKind := func(id string) string {
		if strings.HasPrefix(id, "tc") {
			return "tc(cff+gsub+gdef)"
		}
		return id
	}

	// 1. purity: thorough — every operation on every base font; then (both tiers) the operations
	// in rotation on random fonts, mostly ones they are meaningful for
	nPure := c.N / 2
	pure := func(op, id string) {
		out := c.Case(Direct, "conc.pure", fmt.Sprintf("op=%s font=%s arg=%d", op, id, c.Rng.U64()>>1), true)
		c.Stat("pure.op", op)
		c.Stat("pure.font", fontKind(id))
		c.Stat("pure.result", strings.SplitN(out, ":", 2)[0])
		drain()
	}
	i := 0
	// every run: the name-dependent operations on every font with an irregular name list, and the
	// structure-dependent ones on every shape variant (small fonts, cheap)
	for _, id := range concNameFonts {
		for _, op := range []string{"glyphnames", "glyphname", "write", "subset"} {
			pure(op, id)
			i++
		}
	}
	for _, id := range concShapeFonts {
		for _, op := range []string{"subset", "write", "layout", "glyphnames"} {
			pure(op, id)
			i++
		}
	}
	for _, id := range concRawFonts {
		for _, op := range []string{"write", "writepdf", "subset"} {
			pure(op, id)
			i++
		}
	}
	for _, id := range concLayoutFonts {
		for _, op := range []string{"write", "explaingsub", "explaingpos", "layout", "gtabapply", "subset", "writepdf", "findlookups"} {
			pure(op, id)
			i++
		}
		// Subset keeping (almost) all glyphs under new ids: whole ligature and pair rules survive
		arg := c.Rng.U64() >> 1
		for (&concRng{s: arg}).intn(2) != 0 {
			arg = c.Rng.U64() >> 1
		}
		c.Stat("pure.result", strings.SplitN(c.Case(Direct, "conc.pure", fmt.Sprintf("op=subset font=%s arg=%d", id, arg), true), ":", 2)[0])
		c.Stat("pure.op", "subset(most)")
		drain()
		i++
	}
	for _, id := range concNilFonts {
		for _, op := range []string{"write", "writepdf", "ascffwrite", "subset", "glyphnames", "layout", "fontinfo"} {
			if op == "ascffwrite" && !strings.HasPrefix(id, "cff") {
				continue
			}
			pure(op, id)
			i++
		}
	}
	// Subset of few, UNHINTED glyphs of a font that carries hinting tables: arguments are drawn
	// until the op's glyph list avoids the two glyphs that kept their instructions
	unhFont := concFont("sttfunhint")
	unhCmap, _ := unhFont.CMapTable.GetBest()
	unhinted := func(arg uint64) bool {
		for _, g := range concSubsetGlyphs(unhFont.NumGlyphs(), &concRng{s: arg}) {
			if g == unhCmap.Lookup('H') || g == unhCmap.Lookup('I') {
				return false
			}
		}
		return true
	}
	for k := 0; k < 4; k++ {
		arg := c.Rng.U64() >> 1
		for !unhinted(arg) {
			arg = c.Rng.U64() >> 1
		}
		c.Stat("pure.result", strings.SplitN(c.Case(Direct, "conc.pure", fmt.Sprintf("op=subset font=sttfunhint arg=%d", arg), true), ":", 2)[0])
		c.Stat("pure.op", "subset(few)")
		drain()
		i++
	}
	for _, op := range []string{"write", "writepdf", "pdfmetrics", "subset", "ascffwrite", "widths"} {
		pure(op, "cidread")
		i++
	}
	for _, id := range []string{"cidfd7", "cidmulti", "cidread", "cid", "cffsub", "sttf"} {
		pure("subsetreuse", id)
		i++
	}
	pure("subsetreuse", "cidfd7")
	pure("write", "cidfd7")
	pure("write", "cffbig") // lookup list > 64 kB: extension records
	pure("clone", "cffbig")
	i += 4
	for _, id := range []string{"cffreq", "cffopt"} {
		for _, op := range []string{"layout", "findlookups", "write", "explaingsub"} {
			pure(op, id)
			i++
		}
	}
	for _, pr := range [][2]string{{"cffreq", "cffopt"}, {"cffopt", "cffreq"}, {"cffall", "cffopt"}, {"cffgtab", "cffopt"}, {"cffreq", "sttfall"}} {
		c.Stat("crossfont.result", strings.SplitN(c.Case(Direct, "conc.crossfont", fmt.Sprintf("first=%s second=%s arg=%d", pr[0], pr[1], c.Rng.U64()>>1), true), ":", 2)[0])
	}
	// completeness of the snapshot itself (a planted write in every slice/map must change the hash)
	self := []string{"cffalln", "cffall5", "cffsub", "cid"}
	if thorough {
		self = append(self, "sttfsub", "sttfalln", "cidmulti", "cffgtab", "cffallx")
	}
	for _, id := range self {
		c.Stat("selftest.result", strings.SplitN(c.Case(Verdict, "conc.selftest", "font="+id, true), ":", 2)[0])
		drain()
	}
	if thorough {
		for _, id := range concFontIDs {
			for _, op := range allNames {
				pure(op, id)
				i++
			}
		}
	}
	for ; i < nPure; i++ {
		op := allNames[i%len(allNames)]
		id := pickFont()
		for try := 0; try < 6 && !c.Rng.Chance(1, 12); try++ {
			ok := false
			for _, a := range appl[id] {
				ok = ok || a == op
			}
			if ok {
				break
			}
			id = pickFont()
		}
		pure(op, id)
	}

	// positive control of the detector: a documented mutator must be seen
	c.Stat("control", c.Case(Diagnostic, "conc.control", "op=ensureglyphnames font=cid arg=1", false))
	drain()

	// 2. parallel: 2..16 goroutines, 1..8 (thorough: ..30) operations each, one shared font
	mkPar := func(small bool) (string, int, int) {
		id := pickFont()
		threads := c.Rng.Range(2, 16)
		maxOps := 6
		if thorough && c.Rng.Chance(1, 4) {
			maxOps = 30
		}
		if strings.HasPrefix(id, "ttf") && !thorough {
			maxOps = 3 // the TrueType fonts have ~650 glyphs: keep the quick tier quick
		}
		if small { // race-detector build: 5-15 times slower
			threads = c.Rng.Range(2, 8)
			maxOps = 4
			if strings.HasPrefix(id, "ttf") {
				threads = c.Rng.Range(2, 4)
				maxOps = 2
			}
		}
		k := c.Rng.Range(1, maxOps)
		// keep a case well inside the per-case time limit: goroutines x operations x font weight
		// (a TrueType operation costs about 8 times a debug-font one; 1000 units is about 3 s)
		weight := 1
		if strings.HasPrefix(id, "ttf") {
			weight = 8
		}
		for threads*k*weight > 900 && k > 1 {
			k--
		}
		names := make([]string, k)
		for j := range names {
			names[j] = pickOp(id)
		}
		if c.Rng.Chance(1, 6) { // everybody runs the same single writer-like operation
			names = []string{Pick(c.Rng, []string{"write", "writepdf", "subset", "ascffwrite", "layout", "glyphnames"})}
			if !concApplicable(concOpByName[names[0]], concFont(id)) {
				names[0] = "write"
			}
		}
		return fmt.Sprintf("font=%s threads=%d ops=%s seed=%d", id, threads, strings.Join(names, ","), c.Rng.U64()>>1), threads, len(names)
	}
	nRace := 0
	if thorough {
		nRace = c.N / 25
		if nRace < 20 {
			nRace = 20
		}
	}
	// a CID-keyed font READ FROM A FILE (the reader's FDSelect closure), many goroutines asking for
	// glyphs of different FD ranges at the same time
	for _, fa := range [][2]string{{"cidfd7", "subsetreuse,write,subsetreuse"}, {"cidmulti", "subsetreuse,pdfmetrics"}, {"cffbig", "write"}} {
		th := c.Rng.Range(4, 10)
		out := c.Case(Direct, "conc.parallel", fmt.Sprintf("font=%s threads=%d ops=%s seed=%d", fa[0], th, fa[1], c.Rng.U64()>>1), true)
		c.Stat("parallel.threads", bucket(th))
		c.Stat("parallel.font", fa[0])
		c.Stat("parallel.result", strings.SplitN(out, ":", 2)[0])
		drain()
	}
	for _, a := range []string{"pdfmetrics", "pdfmetrics,write,subset,pdfmetrics", "pdfmetrics,ascffwrite,glyphwidthpdf,glyphbboxpdf,pdfmetrics"} {
		th := c.Rng.Range(8, 16)
		out := c.Case(Direct, "conc.parallel", fmt.Sprintf("font=cidread threads=%d ops=%s seed=%d", th, a, c.Rng.U64()>>1), true)
		c.Stat("parallel.threads", bucket(th))
		c.Stat("parallel.font", "cidread")
		c.Stat("parallel.result", strings.SplitN(out, ":", 2)[0])
		drain()
	}
	nHdr := c.N / 12
	for j := 0; j < nHdr; j++ {
		k := c.Rng.Range(2, 10)
		head := 0
		if c.Rng.Chance(1, 3) {
			head = 1
		}
		th := c.Rng.Range(1, 8)
		out := c.Case(Direct, "conc.hdrwrite", fmt.Sprintf("seed=%d tables=%d head=%d threads=%d", c.Rng.U64()>>1, k, head, th), true)
		c.Stat("hdrwrite.tables", bucket(k))
		c.Stat("hdrwrite.head", fmt.Sprint(head))
		c.Stat("hdrwrite.result", strings.SplitN(out, ":", 2)[0])
	}
	nPar := c.N - nPure - nRace - nHdr
	for j := 0; j < nPar; j++ {
		args, threads, k := mkPar(false)
		out := c.Case(Direct, "conc.parallel", args, true)
		c.Stat("parallel.threads", bucket(threads))
		c.Stat("parallel.ops-per-goroutine", bucket(k))
		c.Stat("parallel.font", fontKind(strings.TrimPrefix(strings.Fields(args)[0], "font=")))
		c.Stat("parallel.result", strings.SplitN(out, ":", 2)[0])
		drain()
	}

	// 3. thorough: the same under the race detector (separate binary built with -race)
	if nRace > 0 {
		if exe, e := concRaceBinary(); exe == "" {
			c.Stat("race", "unavailable")
			c.Case(Diagnostic, "conc.raceinfo", "why="+strings.ReplaceAll(strings.ReplaceAll(e, " ", "_"), "\t", "_"), false)
			return
		}
		old := caseTimeout
		caseTimeout = 120 * time.Second
		for j := 0; j < nRace; j++ {
			args, threads, k := mkPar(true)
			out := c.Case(Direct, "conc.race", args, true)
			c.Stat("race.threads", bucket(threads))
			c.Stat("race.ops-per-goroutine", bucket(k))
			c.Stat("race.result", strings.SplitN(out, ":", 2)[0])
		}
		c.Stat("race.control", c.Case(Diagnostic, "conc.racecontrol", "font=cff threads=4 ops=ensureglyphnames seed=1", false))
		caseTimeout = old
		if concRaceExe != "" {
			_ = os.Remove(concRaceExe)
		}
	}
}

func init() {
	areas["conc"] = areaConc
	ops["conc.pure"] = concPure
	ops["conc.parallel"] = concParallel
	ops["conc.hdrwrite"] = concHdrWrite
	ops["conc.selftest"] = concSelfTest
	ops["conc.crossfont"] = concCrossFont
	ops["conc.race"] = concRace
	ops["conc.raceinfo"] = func(f Fields) string { return "info" }
	// positive controls: only the class of the outcome is reported
	ops["conc.control"] = func(f Fields) string { return strings.SplitN(concPure(f), ":", 2)[0] }
	ops["conc.racecontrol"] = func(f Fields) string { return strings.SplitN(concRace(f), ":", 2)[0] }
	_ = glyf.Outlines{}
}
