package main

// Area `shape` (properties C06/C07): Context.Apply of opentype/gtab against the Lean
// engine model.  A case is one field d=<naturals in prefix form>, see
// lean/SfntV/Drive/Shape.lean for the grammar.

import (
	"bytes"
	"fmt"
	"math/big"
	"sort"
	"strconv"
	"strings"

	"golang.org/x/text/language"
	"seehuhn.de/go/postscript/funit"
	"seehuhn.de/go/sfnt"
	"seehuhn.de/go/sfnt/cff"
	"seehuhn.de/go/sfnt/cmap"
	"seehuhn.de/go/sfnt/glyf"
	"seehuhn.de/go/sfnt/glyph"
	"seehuhn.de/go/sfnt/internal/debug"
	"seehuhn.de/go/sfnt/opentype/anchor"
	"seehuhn.de/go/sfnt/opentype/classdef"
	"seehuhn.de/go/sfnt/opentype/coverage"
	"seehuhn.de/go/sfnt/opentype/gdef"
	"seehuhn.de/go/sfnt/opentype/gtab"
	"seehuhn.de/go/sfnt/opentype/markarray"
)

// ---------------------------------------------------------------- case structure

type shpCase struct {
	ll      gtab.LookupList
	gdNil   int // bit0: gdef nil, bit1: GlyphClass nil, bit2: MarkAttachClass nil, bit3: MarkGlyphSets nil
	gd      *gdef.Table
	lookups []gtab.LookupIndex
	hist    [][]glyph.Info
}

// ---------------------------------------------------------------- encoder

type shpEnc struct {
	b  []int
	ok bool
}

func (e *shpEnc) n(x int) { e.b = append(e.b, x) }

func (e *shpEnc) cov(c coverage.Table) {
	keys := make([]int, 0, len(c))
	for g := range c {
		keys = append(keys, int(g))
	}
	sort.Ints(keys)
	e.n(len(keys))
	for _, g := range keys {
		v := c[glyph.ID(g)]
		if v < 0 {
			e.ok = false
			v = 0
		}
		e.n(g)
		e.n(v)
	}
}

func (e *shpEnc) gset(s coverage.Set) {
	keys := make([]int, 0, len(s))
	for g := range s {
		keys = append(keys, int(g))
	}
	sort.Ints(keys)
	e.n(len(keys))
	for _, g := range keys {
		e.n(g)
		if s[glyph.ID(g)] {
			e.n(1)
		} else {
			e.n(0)
		}
	}
}

func (e *shpEnc) cd(c classdef.Table) {
	keys := make([]int, 0, len(c))
	for g := range c {
		keys = append(keys, int(g))
	}
	sort.Ints(keys)
	e.n(len(keys))
	for _, g := range keys {
		e.n(g)
		e.n(int(c[glyph.ID(g)]))
	}
}

func (e *shpEnc) gids(l []glyph.ID) {
	e.n(len(l))
	for _, g := range l {
		e.n(int(g))
	}
}

func (e *shpEnc) u16s(l []uint16) {
	e.n(len(l))
	for _, g := range l {
		e.n(int(g))
	}
}

func (e *shpEnc) actions(a []gtab.SeqLookup) {
	e.n(len(a))
	for _, x := range a {
		e.n(int(x.SequenceIndex))
		e.n(int(x.LookupListIndex))
	}
}

func (e *shpEnc) gsets(l []coverage.Set) {
	e.n(len(l))
	for _, s := range l {
		e.gset(s)
	}
}

func (e *shpEnc) covs(l []coverage.Table) {
	e.n(len(l))
	for _, s := range l {
		e.cov(s)
	}
}

func (e *shpEnc) optvr(v *gtab.GposValueRecord) {
	if v == nil {
		e.n(0)
		return
	}
	e.n(1)
	e.n(int(v.XPlacement) + 32768)
	e.n(int(v.YPlacement) + 32768)
	e.n(int(v.XAdvance) + 32768)
	if v.YAdvance != 0 || v.XPlacementDevOffs != 0 || v.YPlacementDevOffs != 0 || v.XAdvanceDevOffs != 0 || v.YAdvanceDevOffs != 0 {
		e.n(1)
	} else {
		e.n(0)
	}
}

func (e *shpEnc) pairAdj(p *gtab.PairAdjust) {
	if p == nil {
		e.n(0)
		return
	}
	e.n(1)
	e.optvr(p.First)
	e.optvr(p.Second)
}

func (e *shpEnc) anchor(a anchor.Table) {
	e.n(int(a.X) + 32768)
	e.n(int(a.Y) + 32768)
}

func (e *shpEnc) markArrays(cov1, cov2 coverage.Table, marks []markarray.Record, rows [][]anchor.Table) {
	e.cov(cov1)
	e.cov(cov2)
	e.n(len(marks))
	for _, m := range marks {
		e.n(int(m.Class))
		e.anchor(m.Table)
	}
	e.n(len(rows))
	for _, row := range rows {
		e.n(len(row))
		for _, a := range row {
			e.anchor(a)
		}
	}
}

func (e *shpEnc) subtable(s gtab.Subtable) {
	switch s := s.(type) {
	case *gtab.Gsub1_1:
		e.n(11)
		e.gset(s.Cov)
		e.n(int(s.Delta))
	case *gtab.Gsub1_2:
		e.n(12)
		e.cov(s.Cov)
		e.gids(s.SubstituteGlyphIDs)
	case *gtab.Gsub2_1:
		e.n(21)
		e.cov(s.Cov)
		e.n(len(s.Repl))
		for _, r := range s.Repl {
			e.gids(r)
		}
	case *gtab.Gsub3_1:
		e.n(31)
		e.cov(s.Cov)
		e.n(len(s.Alternates))
		for _, r := range s.Alternates {
			e.gids(r)
		}
	case *gtab.Gsub4_1:
		e.n(41)
		e.cov(s.Cov)
		e.n(len(s.Repl))
		for _, set := range s.Repl {
			e.n(len(set))
			for _, l := range set {
				e.gids(l.In)
				e.n(int(l.Out))
			}
		}
	case *gtab.Gsub8_1:
		e.n(81)
		e.cov(s.Input)
		e.covs(s.Backtrack)
		e.covs(s.Lookahead)
		e.gids(s.SubstituteGlyphIDs)
	case *gtab.SeqContext1:
		e.n(51)
		e.cov(s.Cov)
		e.n(len(s.Rules))
		for _, rs := range s.Rules {
			e.n(len(rs))
			for _, r := range rs {
				if r == nil {
					e.ok = false
					return
				}
				e.n(0)
				e.gids(r.Input)
				e.n(0)
				e.actions(r.Actions)
			}
		}
	case *gtab.SeqContext2:
		e.n(52)
		e.cov(s.Cov)
		e.cd(s.Input)
		e.n(len(s.Rules))
		for _, rs := range s.Rules {
			e.n(len(rs))
			for _, r := range rs {
				if r == nil {
					e.ok = false
					return
				}
				e.n(0)
				e.u16s(r.Input)
				e.n(0)
				e.actions(r.Actions)
			}
		}
	case *gtab.SeqContext3:
		e.n(53)
		e.gsets(s.Input)
		e.actions(s.Actions)
	case *gtab.ChainedSeqContext1:
		e.n(61)
		e.cov(s.Cov)
		e.n(len(s.Rules))
		for _, rs := range s.Rules {
			e.n(len(rs))
			for _, r := range rs {
				if r == nil {
					e.ok = false
					return
				}
				e.gids(r.Backtrack)
				e.gids(r.Input)
				e.gids(r.Lookahead)
				e.actions(r.Actions)
			}
		}
	case *gtab.ChainedSeqContext2:
		e.n(62)
		e.cov(s.Cov)
		e.cd(s.Backtrack)
		e.cd(s.Input)
		e.cd(s.Lookahead)
		e.n(len(s.Rules))
		for _, rs := range s.Rules {
			e.n(len(rs))
			for _, r := range rs {
				if r == nil {
					e.ok = false
					return
				}
				e.u16s(r.Backtrack)
				e.u16s(r.Input)
				e.u16s(r.Lookahead)
				e.actions(r.Actions)
			}
		}
	case *gtab.ChainedSeqContext3:
		e.n(63)
		e.gsets(s.Backtrack)
		e.gsets(s.Input)
		e.gsets(s.Lookahead)
		e.actions(s.Actions)
	case *gtab.Gpos1_1:
		e.n(101)
		e.cov(s.Cov)
		e.optvr(s.Adjust)
	case *gtab.Gpos1_2:
		e.n(102)
		e.cov(s.Cov)
		e.n(len(s.Adjust))
		for _, v := range s.Adjust {
			e.optvr(v)
		}
	case gtab.Gpos2_1:
		e.n(103)
		keys := make([]glyph.Pair, 0, len(s))
		for k := range s {
			keys = append(keys, k)
		}
		sort.Slice(keys, func(i, j int) bool {
			if keys[i].Left != keys[j].Left {
				return keys[i].Left < keys[j].Left
			}
			return keys[i].Right < keys[j].Right
		})
		e.n(len(keys))
		for _, k := range keys {
			e.n(int(k.Left))
			e.n(int(k.Right))
			e.pairAdj(s[k])
		}
	case *gtab.Gpos2_2:
		e.n(104)
		e.gset(s.Cov)
		e.cd(s.Class1)
		e.cd(s.Class2)
		e.n(len(s.Adjust))
		for _, row := range s.Adjust {
			e.n(len(row))
			for _, p := range row {
				e.pairAdj(p)
			}
		}
	case *gtab.Gpos3_1:
		e.n(105)
		e.cov(s.Cov)
		e.n(len(s.Records))
		for _, r := range s.Records {
			e.anchor(r.Entry)
			e.anchor(r.Exit)
		}
	case *gtab.Gpos4_1:
		e.n(106)
		e.markArrays(s.MarkCov, s.BaseCov, s.MarkArray, s.BaseArray)
	case *gtab.Gpos6_1:
		e.n(107)
		e.markArrays(s.Mark1Cov, s.Mark2Cov, s.Mark1Array, s.Mark2Array)
	default:
		e.ok = false // a subtable type the engine model does not cover (GPOS 5.1)
	}
}

func (e *shpEnc) seq(s []glyph.Info) {
	e.n(len(s))
	for _, g := range s {
		e.n(int(g.GID))
		e.n(len(g.Text))
		for _, r := range g.Text {
			e.n(int(r))
		}
		e.n(int(g.XOffset) + 32768)
		e.n(int(g.YOffset) + 32768)
		e.n(int(g.Advance) + 32768)
	}
}

// shpEncode serialises a case; ok is false when the case contains something the line
// format cannot carry (nil pointers, subtable types that are not modelled).
func shpEncode(c *shpCase) (string, bool) {
	e := &shpEnc{ok: true}
	e.n(len(c.ll))
	for _, l := range c.ll {
		if l == nil || l.Meta == nil {
			return "", false
		}
		e.n(int(l.Meta.LookupFlags))
		e.n(int(l.Meta.MarkFilteringSet))
		e.n(len(l.Subtables))
		for _, s := range l.Subtables {
			e.subtable(s)
		}
	}
	e.n(c.gdNil)
	var gd gdef.Table
	if c.gd != nil {
		gd = *c.gd
	}
	e.cd(gd.GlyphClass)
	e.cd(gd.MarkAttachClass)
	e.gsets(gd.MarkGlyphSets)
	e.n(len(c.lookups))
	for _, l := range c.lookups {
		e.n(int(l))
	}
	e.n(len(c.hist))
	for _, s := range c.hist {
		e.seq(s)
	}
	if !e.ok {
		return "", false
	}
	var sb strings.Builder
	sb.WriteString("d=")
	for i, x := range e.b {
		if i > 0 {
			sb.WriteByte(',')
		}
		sb.WriteString(strconv.Itoa(x))
	}
	return sb.String(), true
}

// ---------------------------------------------------------------- decoder

type shpDec struct {
	b []int
	i int
}

func (d *shpDec) n() int {
	if d.i >= len(d.b) {
		panic("shape: truncated case")
	}
	x := d.b[d.i]
	d.i++
	return x
}

func (d *shpDec) count() int {
	x := d.n()
	if x > len(d.b) {
		panic("shape: bad count")
	}
	return x
}

func (d *shpDec) cov() coverage.Table {
	n := d.count()
	c := make(coverage.Table, n)
	for i := 0; i < n; i++ {
		g := d.n()
		c[glyph.ID(g)] = d.n()
	}
	return c
}

func (d *shpDec) gset() coverage.Set {
	n := d.count()
	c := make(coverage.Set, n)
	for i := 0; i < n; i++ {
		g := d.n()
		c[glyph.ID(g)] = d.n() != 0
	}
	return c
}

func (d *shpDec) cd() classdef.Table {
	n := d.count()
	c := make(classdef.Table, n)
	for i := 0; i < n; i++ {
		g := d.n()
		c[glyph.ID(g)] = uint16(d.n())
	}
	return c
}

func (d *shpDec) gids() []glyph.ID {
	n := d.count()
	l := make([]glyph.ID, n)
	for i := range l {
		l[i] = glyph.ID(d.n())
	}
	return l
}

func (d *shpDec) u16s() []uint16 {
	n := d.count()
	l := make([]uint16, n)
	for i := range l {
		l[i] = uint16(d.n())
	}
	return l
}

func (d *shpDec) actions() []gtab.SeqLookup {
	n := d.count()
	l := make([]gtab.SeqLookup, n)
	for i := range l {
		l[i].SequenceIndex = uint16(d.n())
		l[i].LookupListIndex = gtab.LookupIndex(d.n())
	}
	return l
}

func (d *shpDec) gsets() []coverage.Set {
	n := d.count()
	l := make([]coverage.Set, n)
	for i := range l {
		l[i] = d.gset()
	}
	return l
}

func (d *shpDec) covs() []coverage.Table {
	n := d.count()
	l := make([]coverage.Table, n)
	for i := range l {
		l[i] = d.cov()
	}
	return l
}

func (d *shpDec) optvr() *gtab.GposValueRecord {
	if d.n() == 0 {
		return nil
	}
	v := &gtab.GposValueRecord{}
	v.XPlacement = funit.Int16(d.n() - 32768)
	v.YPlacement = funit.Int16(d.n() - 32768)
	v.XAdvance = funit.Int16(d.n() - 32768)
	if d.n() != 0 {
		v.YAdvance = 1
	}
	return v
}

func (d *shpDec) pairAdj() *gtab.PairAdjust {
	if d.n() == 0 {
		return nil
	}
	p := &gtab.PairAdjust{}
	p.First = d.optvr()
	p.Second = d.optvr()
	return p
}

func (d *shpDec) anchor() anchor.Table {
	x := d.n() - 32768
	y := d.n() - 32768
	return anchor.Table{X: funit.Int16(x), Y: funit.Int16(y)}
}

func (d *shpDec) markArrays() (cov1, cov2 coverage.Table, marks []markarray.Record, rows [][]anchor.Table) {
	cov1 = d.cov()
	cov2 = d.cov()
	marks = make([]markarray.Record, d.count())
	for i := range marks {
		marks[i].Class = uint16(d.n())
		marks[i].Table = d.anchor()
	}
	rows = make([][]anchor.Table, d.count())
	for i := range rows {
		rows[i] = make([]anchor.Table, d.count())
		for j := range rows[i] {
			rows[i][j] = d.anchor()
		}
	}
	return
}

func (d *shpDec) subtable() gtab.Subtable {
	switch tag := d.n(); tag {
	case 11:
		s := &gtab.Gsub1_1{}
		s.Cov = d.gset()
		s.Delta = glyph.ID(d.n())
		return s
	case 12:
		s := &gtab.Gsub1_2{}
		s.Cov = d.cov()
		s.SubstituteGlyphIDs = d.gids()
		return s
	case 21:
		s := &gtab.Gsub2_1{}
		s.Cov = d.cov()
		n := d.count()
		s.Repl = make([][]glyph.ID, n)
		for i := range s.Repl {
			s.Repl[i] = d.gids()
		}
		return s
	case 31:
		s := &gtab.Gsub3_1{}
		s.Cov = d.cov()
		n := d.count()
		s.Alternates = make([][]glyph.ID, n)
		for i := range s.Alternates {
			s.Alternates[i] = d.gids()
		}
		return s
	case 41:
		s := &gtab.Gsub4_1{}
		s.Cov = d.cov()
		n := d.count()
		s.Repl = make([][]gtab.Ligature, n)
		for i := range s.Repl {
			m := d.count()
			s.Repl[i] = make([]gtab.Ligature, m)
			for j := range s.Repl[i] {
				s.Repl[i][j].In = d.gids()
				s.Repl[i][j].Out = glyph.ID(d.n())
			}
		}
		return s
	case 81:
		s := &gtab.Gsub8_1{}
		s.Input = d.cov()
		s.Backtrack = d.covs()
		s.Lookahead = d.covs()
		s.SubstituteGlyphIDs = d.gids()
		return s
	case 51:
		s := &gtab.SeqContext1{}
		s.Cov = d.cov()
		n := d.count()
		s.Rules = make([][]*gtab.SeqRule, n)
		for i := range s.Rules {
			m := d.count()
			s.Rules[i] = make([]*gtab.SeqRule, m)
			for j := range s.Rules[i] {
				r := &gtab.SeqRule{}
				d.gids()
				r.Input = d.gids()
				d.gids()
				r.Actions = d.actions()
				s.Rules[i][j] = r
			}
		}
		return s
	case 52:
		s := &gtab.SeqContext2{}
		s.Cov = d.cov()
		s.Input = d.cd()
		n := d.count()
		s.Rules = make([][]*gtab.ClassSeqRule, n)
		for i := range s.Rules {
			m := d.count()
			s.Rules[i] = make([]*gtab.ClassSeqRule, m)
			for j := range s.Rules[i] {
				r := &gtab.ClassSeqRule{}
				d.u16s()
				r.Input = d.u16s()
				d.u16s()
				r.Actions = d.actions()
				s.Rules[i][j] = r
			}
		}
		return s
	case 53:
		s := &gtab.SeqContext3{}
		s.Input = d.gsets()
		s.Actions = d.actions()
		return s
	case 61:
		s := &gtab.ChainedSeqContext1{}
		s.Cov = d.cov()
		n := d.count()
		s.Rules = make([][]*gtab.ChainedSeqRule, n)
		for i := range s.Rules {
			m := d.count()
			s.Rules[i] = make([]*gtab.ChainedSeqRule, m)
			for j := range s.Rules[i] {
				r := &gtab.ChainedSeqRule{}
				r.Backtrack = d.gids()
				r.Input = d.gids()
				r.Lookahead = d.gids()
				r.Actions = d.actions()
				s.Rules[i][j] = r
			}
		}
		return s
	case 62:
		s := &gtab.ChainedSeqContext2{}
		s.Cov = d.cov()
		s.Backtrack = d.cd()
		s.Input = d.cd()
		s.Lookahead = d.cd()
		n := d.count()
		s.Rules = make([][]*gtab.ChainedClassSeqRule, n)
		for i := range s.Rules {
			m := d.count()
			s.Rules[i] = make([]*gtab.ChainedClassSeqRule, m)
			for j := range s.Rules[i] {
				r := &gtab.ChainedClassSeqRule{}
				r.Backtrack = d.u16s()
				r.Input = d.u16s()
				r.Lookahead = d.u16s()
				r.Actions = d.actions()
				s.Rules[i][j] = r
			}
		}
		return s
	case 63:
		s := &gtab.ChainedSeqContext3{}
		s.Backtrack = d.gsets()
		s.Input = d.gsets()
		s.Lookahead = d.gsets()
		s.Actions = d.actions()
		return s
	case 101:
		s := &gtab.Gpos1_1{}
		s.Cov = d.cov()
		s.Adjust = d.optvr()
		return s
	case 102:
		s := &gtab.Gpos1_2{}
		s.Cov = d.cov()
		n := d.count()
		s.Adjust = make([]*gtab.GposValueRecord, n)
		for i := range s.Adjust {
			s.Adjust[i] = d.optvr()
		}
		return s
	case 103:
		s := gtab.Gpos2_1{}
		n := d.count()
		for i := 0; i < n; i++ {
			l := d.n()
			r := d.n()
			s[glyph.Pair{Left: glyph.ID(l), Right: glyph.ID(r)}] = d.pairAdj()
		}
		return s
	case 104:
		s := &gtab.Gpos2_2{}
		s.Cov = d.gset()
		s.Class1 = d.cd()
		s.Class2 = d.cd()
		s.Adjust = make([][]*gtab.PairAdjust, d.count())
		for i := range s.Adjust {
			s.Adjust[i] = make([]*gtab.PairAdjust, d.count())
			for j := range s.Adjust[i] {
				s.Adjust[i][j] = d.pairAdj()
			}
		}
		return s
	case 105:
		s := &gtab.Gpos3_1{}
		s.Cov = d.cov()
		s.Records = make([]gtab.EntryExitRecord, d.count())
		for i := range s.Records {
			s.Records[i].Entry = d.anchor()
			s.Records[i].Exit = d.anchor()
		}
		return s
	case 106:
		s := &gtab.Gpos4_1{}
		s.MarkCov, s.BaseCov, s.MarkArray, s.BaseArray = d.markArrays()
		return s
	case 107:
		s := &gtab.Gpos6_1{}
		s.Mark1Cov, s.Mark2Cov, s.Mark1Array, s.Mark2Array = d.markArrays()
		return s
	default:
		panic(fmt.Sprintf("shape: unknown subtable tag %d", tag))
	}
}

func (d *shpDec) seq() []glyph.Info {
	n := d.count()
	s := make([]glyph.Info, n)
	for i := range s {
		s[i].GID = glyph.ID(d.n())
		m := d.count()
		if m > 0 {
			s[i].Text = make([]rune, m)
			for j := range s[i].Text {
				s[i].Text[j] = rune(d.n())
			}
		}
		s[i].XOffset = funit.Int16(d.n() - 32768)
		s[i].YOffset = funit.Int16(d.n() - 32768)
		s[i].Advance = funit.Int16(d.n() - 32768)
	}
	return s
}

func shpDecode(f Fields) *shpCase {
	parts := strings.Split(f["d"], ",")
	d := &shpDec{b: make([]int, len(parts))}
	for i, p := range parts {
		x, err := strconv.Atoi(p)
		if err != nil || x < 0 {
			panic("shape: bad number in case")
		}
		d.b[i] = x
	}
	c := &shpCase{}
	n := d.count()
	c.ll = make(gtab.LookupList, n)
	for i := range c.ll {
		l := &gtab.LookupTable{Meta: &gtab.LookupMetaInfo{}}
		l.Meta.LookupFlags = gtab.LookupFlags(d.n())
		l.Meta.MarkFilteringSet = uint16(d.n())
		m := d.count()
		l.Subtables = make([]gtab.Subtable, m)
		for j := range l.Subtables {
			l.Subtables[j] = d.subtable()
		}
		c.ll[i] = l
	}
	c.gdNil = d.n()
	gd := &gdef.Table{}
	gd.GlyphClass = d.cd()
	gd.MarkAttachClass = d.cd()
	gd.MarkGlyphSets = d.gsets()
	// nil-ness is sent separately; a nil map/slice is only used where the table is empty
	if c.gdNil&2 != 0 && len(gd.GlyphClass) == 0 {
		gd.GlyphClass = nil
	}
	if c.gdNil&4 != 0 && len(gd.MarkAttachClass) == 0 {
		gd.MarkAttachClass = nil
	}
	if c.gdNil&8 != 0 && len(gd.MarkGlyphSets) == 0 {
		gd.MarkGlyphSets = nil
	}
	c.gd = gd
	if c.gdNil&1 != 0 && len(gd.GlyphClass) == 0 && len(gd.MarkAttachClass) == 0 && len(gd.MarkGlyphSets) == 0 {
		c.gd = nil
	}
	for _, x := range d.gids() {
		c.lookups = append(c.lookups, gtab.LookupIndex(x))
	}
	n = d.count()
	c.hist = make([][]glyph.Info, n)
	for i := range c.hist {
		c.hist[i] = d.seq()
	}
	if d.i != len(d.b) {
		panic("shape: trailing data in case")
	}
	return c
}

// ---------------------------------------------------------------- running the real code

func shpCopySeq(s []glyph.Info) []glyph.Info {
	out := make([]glyph.Info, len(s))
	for i, g := range s {
		out[i] = g
		out[i].Text = append([]rune(nil), g.Text...)
	}
	return out
}

// shpSharedSeq copies the sequence the way a caller may legitimately build it from one string:
// all Text slices are cut from ONE rune array and keep the capacity up to its end
// (`runes := []rune(s); Text: runes[i:i+1]`).  An engine that appends to a Text slice of its input
// then writes into the text of the following glyphs and into the caller's array.
func shpSharedSeq(s []glyph.Info) (out []glyph.Info, backing []rune) {
	for _, g := range s {
		backing = append(backing, g.Text...)
	}
	backing = append(backing, 0x2400, 0x2401) // spare capacity behind the last glyph
	out = make([]glyph.Info, len(s))
	off := 0
	for i, g := range s {
		out[i] = g
		out[i].Text = backing[off : off+len(g.Text)]
		off += len(g.Text)
	}
	return out, backing
}

func shpShowSeq(s []glyph.Info) string {
	var sb strings.Builder
	sb.WriteString("ok:")
	for i, g := range s {
		if i > 0 {
			sb.WriteByte(',')
		}
		sb.WriteString(strconv.Itoa(int(g.GID)))
		sb.WriteByte('/')
		for j, r := range g.Text {
			if j > 0 {
				sb.WriteByte('.')
			}
			sb.WriteString(strconv.Itoa(int(r)))
		}
		if g.XOffset != 0 || g.YOffset != 0 || g.Advance != 0 {
			fmt.Fprintf(&sb, "/%d/%d/%d", g.XOffset, g.YOffset, g.Advance)
		}
	}
	return sb.String()
}

func shpSortedText(s []glyph.Info) string {
	var rs []int
	for _, g := range s {
		for _, r := range g.Text {
			rs = append(rs, int(r))
		}
	}
	sort.Ints(rs)
	parts := make([]string, len(rs))
	for i, r := range rs {
		parts[i] = strconv.Itoa(r)
	}
	return strings.Join(parts, ".")
}

// shpApply calls ctx.Apply on a copy of seq whose Text slices share one array; a panic gives ok=false.
func shpApply(ctx *gtab.Context, seq []glyph.Info) (out []glyph.Info, ok bool) {
	return shpApplyMode(ctx, seq, true)
}

// shpApplyMode: shared = Text slices cut from one array with spare capacity; otherwise every
// Text is allocated separately (as sfnt.Layouter does).
func shpApplyMode(ctx *gtab.Context, seq []glyph.Info, shared bool) (out []glyph.Info, ok bool) {
	defer func() {
		if r := recover(); r != nil {
			out, ok = nil, false
		}
	}()
	if shared {
		in, _ := shpSharedSeq(seq)
		return ctx.Apply(in), true
	}
	return ctx.Apply(shpCopySeq(seq)), true
}

// shpHistory runs the history on ONE context and reports every call with show; it stops
// at the first panic.  The inputs are built with shared Text arrays.
func shpHistory(c *shpCase, show func(ctx *gtab.Context, in, out []glyph.Info) string) string {
	return shpHistoryMode(c, true, show)
}

func shpHistoryMode(c *shpCase, shared bool, show func(ctx *gtab.Context, in, out []glyph.Info) string) string {
	ctx := gtab.NewContext(c.ll, c.gd, c.lookups)
	var parts []string
	for _, s := range c.hist {
		out, ok := shpApplyMode(ctx, s, shared)
		if !ok {
			parts = append(parts, "panic")
			break
		}
		parts = append(parts, show(ctx, s, out))
	}
	return strings.Join(parts, "|")
}

// ---------------------------------------------------------------- the hypothesis class (as in Model/ShapeGuard.lean)

func shpCovBelow(c coverage.Table, n int) bool {
	for _, v := range c {
		if v >= n {
			return false
		}
	}
	return true
}

func shpValueOk(v *gtab.GposValueRecord) bool {
	return v == nil || !(v.YAdvance != 0 || v.XPlacementDevOffs != 0 || v.YPlacementDevOffs != 0 || v.XAdvanceDevOffs != 0 || v.YAdvanceDevOffs != 0)
}

func shpPairOk(p *gtab.PairAdjust) bool {
	return p != nil && shpValueOk(p.First) && shpValueOk(p.Second)
}

func shpMergeFree(l *gtab.LookupTable) bool {
	for _, s := range l.Subtables {
		if _, ok := s.(*gtab.Gsub4_1); ok {
			return false
		}
	}
	return true
}

func shpActions(s gtab.Subtable) []gtab.SeqLookup {
	var out []gtab.SeqLookup
	switch s := s.(type) {
	case *gtab.SeqContext1:
		for _, rs := range s.Rules {
			for _, r := range rs {
				out = append(out, r.Actions...)
			}
		}
	case *gtab.SeqContext2:
		for _, rs := range s.Rules {
			for _, r := range rs {
				out = append(out, r.Actions...)
			}
		}
	case *gtab.SeqContext3:
		out = s.Actions
	case *gtab.ChainedSeqContext1:
		for _, rs := range s.Rules {
			for _, r := range rs {
				out = append(out, r.Actions...)
			}
		}
	case *gtab.ChainedSeqContext2:
		for _, rs := range s.Rules {
			for _, r := range rs {
				out = append(out, r.Actions...)
			}
		}
	case *gtab.ChainedSeqContext3:
		out = s.Actions
	}
	return out
}

// shpNestedMergeFree: every nested action runs a lookup that is absent or contains no
// ligature substitution (nestedMergeFreeLL in Model/ShapeGuard.lean).
func shpNestedMergeFree(ll gtab.LookupList) bool {
	for _, l := range ll {
		for _, s := range l.Subtables {
			for _, a := range shpActions(s) {
				if int(a.LookupListIndex) < len(ll) && !shpMergeFree(ll[a.LookupListIndex]) {
					return false
				}
			}
		}
	}
	return true
}

// shpChain3Ok: every chained context format 3 has a non-empty input sequence.
func shpChain3Ok(ll gtab.LookupList) bool {
	for _, l := range ll {
		for _, s := range l.Subtables {
			if c, ok := s.(*gtab.ChainedSeqContext3); ok && len(c.Input) == 0 {
				return false
			}
		}
	}
	return true
}

// shpClass says which no-panic theorem covers the lookup list (as the driver does).
func shpClass(ll gtab.LookupList) string {
	g, s := shpGuardedSimple(ll)
	switch {
	case g && shpChain3Ok(ll):
		return "proved:C07_no_panic"
	case g && (s || shpNestedMergeFree(ll)):
		return "proved:partial"
	case g:
		return "open:guarded-only"
	}
	return "unguarded"
}

func shpGuardedSimple(ll gtab.LookupList) (guarded, simple bool) {
	guarded, simple = true, true
	for _, l := range ll {
		for _, s := range l.Subtables {
			switch s := s.(type) {
			case *gtab.Gsub1_2:
				guarded = guarded && shpCovBelow(s.Cov, len(s.SubstituteGlyphIDs))
			case *gtab.Gsub2_1:
				guarded = guarded && shpCovBelow(s.Cov, len(s.Repl))
			case *gtab.Gsub3_1:
				guarded = guarded && shpCovBelow(s.Cov, len(s.Alternates))
			case *gtab.Gsub4_1:
				guarded = guarded && shpCovBelow(s.Cov, len(s.Repl))
			case *gtab.Gsub8_1:
				guarded = guarded && shpCovBelow(s.Input, len(s.SubstituteGlyphIDs))
			case *gtab.SeqContext1:
				guarded = guarded && shpCovBelow(s.Cov, len(s.Rules))
				simple = false
			case *gtab.SeqContext3:
				guarded = guarded && len(s.Input) > 0
				simple = false
			case *gtab.ChainedSeqContext1:
				guarded = guarded && shpCovBelow(s.Cov, len(s.Rules))
				simple = false
			case *gtab.SeqContext2, *gtab.ChainedSeqContext2, *gtab.ChainedSeqContext3:
				simple = false
			case *gtab.Gpos1_1:
				guarded = guarded && shpValueOk(s.Adjust)
			case *gtab.Gpos1_2:
				guarded = guarded && shpCovBelow(s.Cov, len(s.Adjust))
				for _, v := range s.Adjust {
					guarded = guarded && shpValueOk(v)
				}
			case gtab.Gpos2_1:
				for _, p := range s {
					guarded = guarded && shpPairOk(p)
				}
			case *gtab.Gpos2_2:
				for _, row := range s.Adjust {
					for _, p := range row {
						guarded = guarded && shpPairOk(p)
					}
				}
			case *gtab.Gpos3_1:
				guarded = guarded && shpCovBelow(s.Cov, len(s.Records))
			case *gtab.Gpos4_1:
				guarded = guarded && shpCovBelow(s.MarkCov, len(s.MarkArray)) && shpCovBelow(s.BaseCov, len(s.BaseArray))
			case *gtab.Gpos6_1:
				guarded = guarded && shpCovBelow(s.Mark1Cov, len(s.Mark1Array)) && shpCovBelow(s.Mark2Cov, len(s.Mark2Array))
			}
		}
	}
	return
}

// ---------------------------------------------------------------- ops

func init() {
	areas["shape"] = areaShape

	// V: outcome of every call of a history on one context
	ops["shape.apply"] = func(f Fields) string {
		c := shpDecode(f)
		return shpHistory(c, func(_ *gtab.Context, _, out []glyph.Info) string { return shpShowSeq(out) })
	}
	// G: len(ctx.stack) after every call
	ops["shape.stack"] = func(f Fields) string {
		c := shpDecode(f)
		return shpHistoryMode(c, false, func(ctx *gtab.Context, _, _ []glyph.Info) string { return strconv.Itoa(ctx.VerifStackLen()) })
	}
	// D (text conservation): the sorted runes of every output; the driver prints the sorted
	// runes of the corresponding input
	ops["shape.text"] = func(f Fields) string {
		c := shpDecode(f)
		return shpHistory(c, func(_ *gtab.Context, _, out []glyph.Info) string { return shpSortedText(out) })
	}
	// D (length bound of C07_len_bound): len(out) <= len(in) * (1 + stepGrowth)^len(lookups), where
	// stepGrowth = g + (budget-1)*g and g = longest GSUB 2.1 replacement - 1
	ops["shape.len"] = func(f Fields) string {
		c := shpDecode(f)
		g := 0
		for _, l := range c.ll {
			for _, s := range l.Subtables {
				if m, ok := s.(*gtab.Gsub2_1); ok {
					for _, r := range m.Repl {
						if len(r)-1 > g {
							g = len(r) - 1
						}
					}
				}
			}
		}
		factor := new(big.Int).Exp(big.NewInt(int64(1+g+63*g)), big.NewInt(int64(len(c.lookups))), nil)
		return shpHistoryMode(c, false, func(_ *gtab.Context, in, out []glyph.Info) string {
			bound := new(big.Int).Mul(big.NewInt(int64(len(in))), factor)
			if big.NewInt(int64(len(out))).Cmp(bound) <= 0 {
				return "within"
			}
			return "exceeds"
		})
	}
	// D (the engine does not write into the caller's memory): the rune array from which the Text
	// slices of the input were cut is unchanged after every call; the driver prints "kept"
	ops["shape.input"] = func(f Fields) string {
		c := shpDecode(f)
		ctx := gtab.NewContext(c.ll, c.gd, c.lookups)
		var parts []string
		for _, s := range c.hist {
			in, backing := shpSharedSeq(s)
			before := append([]rune(nil), backing...)
			ok := func() (ok bool) {
				defer func() {
					if recover() != nil {
						ok = false
					}
				}()
				ctx.Apply(in)
				return true
			}()
			if !ok {
				parts = append(parts, "panic")
				break
			}
			if string(before) == string(backing) {
				parts = append(parts, "kept")
			} else {
				parts = append(parts, "modified")
			}
		}
		return strings.Join(parts, "|")
	}
	// D (history independence): every call on the reused context gives what a fresh context gives
	ops["shape.hist"] = func(f Fields) string {
		c := shpDecode(f)
		ctx := gtab.NewContext(c.ll, c.gd, c.lookups)
		for i, s := range c.hist {
			out, ok := shpApply(ctx, s)
			out2, ok2 := shpApply(gtab.NewContext(c.ll, c.gd, c.lookups), s)
			if ok != ok2 || (ok && shpShowSeq(out) != shpShowSeq(out2)) {
				return fmt.Sprintf("differs@%d", i)
			}
			if !ok {
				break
			}
		}
		return "same"
	}
	// D (no panic; termination shows as the harness time-out)
	ops["shape.safe"] = func(f Fields) string {
		c := shpDecode(f)
		if strings.Contains(shpHistory(c, func(*gtab.Context, []glyph.Info, []glyph.Info) string { return "" }), "panic") {
			return "panic"
		}
		return "ok"
	}
	// G: both sides evaluate the hypothesis class of C07_no_panic_partial
	ops["shape.guarded"] = func(f Fields) string {
		c := shpDecode(f)
		return shpClass(c.ll)
	}
}

// ---------------------------------------------------------------- generators

// The alphabet: glyphs 1..6 are bases, 7..8 ligatures, 10..13 marks (as far as the GDEF of
// the case classifies them), 14..20 unclassified; a few cases use the ends of the range.
const (
	shpBase0, shpBaseN = 1, 6
	shpLig0, shpLigN   = 7, 8
	shpMark0, shpMarkN = 10, 13
	shpMaxGid          = 20
)

type shpGen struct {
	r      *Rng
	c      *Ctx
	wild   bool // allow indices the reader would never deliver
	nll    int  // number of lookups being generated
	nsets  int  // number of mark glyph sets in the GDEF table of the case
	reader bool // the lookup list will be encoded and read back
	gpos   bool // the lookup list is a GPOS list: sequences carry advances and offsets
}

func (g *shpGen) gid() glyph.ID {
	r := g.r
	switch {
	case r.Chance(1, 60):
		return glyph.ID(Pick(r, []int{0, 65535, 65534, 256, 40000}))
	case r.Chance(3, 10):
		return glyph.ID(r.Range(shpMark0, shpMarkN))
	case r.Chance(1, 8):
		return glyph.ID(r.Range(shpLig0, shpLigN))
	case r.Chance(1, 8):
		return glyph.ID(r.Range(14, shpMaxGid))
	}
	return glyph.ID(r.Range(shpBase0, shpBaseN))
}

func (g *shpGen) baseGid() glyph.ID { return glyph.ID(g.r.Range(shpBase0, shpBaseN)) }

func (g *shpGen) gidList(lo, hi int) []glyph.ID {
	n := g.r.Range(lo, hi)
	l := make([]glyph.ID, n)
	for i := range l {
		if g.r.Chance(3, 4) {
			l[i] = g.baseGid()
		} else {
			l[i] = g.gid()
		}
	}
	return l
}

// covTable: k distinct glyphs; the coverage index is the rank of the glyph id (as in a font
// file), except that API-built cases sometimes use another order, and in wild mode an index
// may be out of range.
func (g *shpGen) covTable(k int) coverage.Table {
	seen := map[glyph.ID]bool{}
	var keys []glyph.ID
	for tries := 0; len(keys) < k && tries < 40; tries++ {
		var x glyph.ID
		if g.r.Chance(2, 3) {
			x = g.baseGid()
		} else {
			x = g.gid()
		}
		if !seen[x] {
			seen[x] = true
			keys = append(keys, x)
		}
	}
	if g.reader || g.r.Chance(4, 5) {
		sort.Slice(keys, func(i, j int) bool { return keys[i] < keys[j] })
	}
	c := coverage.Table{}
	for i, x := range keys {
		c[x] = i
	}
	if g.wild && len(c) > 0 && g.r.Chance(1, 3) {
		c[keys[g.r.Intn(len(keys))]] = Pick(g.r, []int{len(c), len(c) + 1, 65535})
		g.c.Stat("obligation", "coverage index = len / 65535")
	}
	return c
}

func (g *shpGen) covSet() coverage.Set {
	s := coverage.Set{}
	n := g.r.Range(1, 5)
	for i := 0; i < n; i++ {
		if g.r.Chance(2, 3) {
			s[g.baseGid()] = true
		} else {
			s[g.gid()] = true
		}
	}
	if g.wild && g.r.Chance(1, 5) {
		s[g.gid()] = false // a key that is present with value false (API-built only)
	}
	return s
}

func (g *shpGen) covSets(lo, hi int) []coverage.Set {
	n := g.r.Range(lo, hi)
	l := make([]coverage.Set, n)
	for i := range l {
		l[i] = g.covSet()
	}
	return l
}

func (g *shpGen) classDef() classdef.Table {
	c := classdef.Table{}
	for x := 1; x <= shpMaxGid; x++ {
		if g.r.Chance(1, 2) {
			c[glyph.ID(x)] = uint16(g.r.Range(1, 3))
		}
	}
	if g.r.Chance(1, 10) {
		c[glyph.ID(g.r.Range(1, shpBaseN))] = Pick(g.r, []uint16{4, 5, 65535}) // class index = len, 65535
		g.c.Stat("obligation", "class index = len / 65535")
	}
	return c
}

func (g *shpGen) classList(lo, hi int) []uint16 {
	n := g.r.Range(lo, hi)
	l := make([]uint16, n)
	for i := range l {
		l[i] = uint16(g.r.Range(0, 3))
	}
	return l
}

func (g *shpGen) actions(inputLen int) []gtab.SeqLookup {
	r := g.r
	n := r.Range(0, 3)
	if r.Chance(1, 25) {
		n = Pick(r, []int{62, 63, 64, 65, 70, 130})
		g.c.Stat("obligation", fmt.Sprintf("%d actions in one rule", n))
	}
	l := make([]gtab.SeqLookup, n)
	for i := range l {
		switch {
		case r.Chance(1, 12):
			l[i].SequenceIndex = uint16(Pick(r, []int{inputLen - 1, inputLen, inputLen + 1, 65535}))
			g.c.Stat("obligation", "sequence index = |input|-1, |input|, |input|+1, 65535")
		default:
			l[i].SequenceIndex = uint16(r.Intn(inputLen))
		}
		switch {
		case r.Chance(1, 15):
			l[i].LookupListIndex = gtab.LookupIndex(Pick(r, []int{g.nll, g.nll + 1, 65535}))
			g.c.Stat("obligation", "nested lookup index out of range")
		default:
			l[i].LookupListIndex = gtab.LookupIndex(r.Intn(g.nll))
		}
	}
	return l
}

func (g *shpGen) valueRec() *gtab.GposValueRecord {
	r := g.r
	if r.Chance(1, 6) {
		return nil
	}
	v := &gtab.GposValueRecord{
		XPlacement: funit.Int16(r.Range(-50, 50)),
		YPlacement: funit.Int16(r.Range(-50, 50)),
		XAdvance:   funit.Int16(r.Range(-100, 100)),
	}
	if r.Chance(1, 20) {
		v.XAdvance = funit.Int16(Pick(r, []int{32767, -32768, 30000}))
	}
	if g.wild && r.Chance(1, 6) {
		v.YAdvance = 1 // unimplemented: outside the property's domain, the model predicts the panic
	}
	return v
}

func (g *shpGen) anchor() anchor.Table {
	r := g.r
	if r.Chance(1, 8) {
		return anchor.Table{} // the empty anchor
	}
	a := anchor.Table{X: funit.Int16(r.Range(-300, 300)), Y: funit.Int16(r.Range(-300, 300))}
	if r.Chance(1, 25) {
		a.X = funit.Int16(Pick(r, []int{32767, -32768}))
	}
	return a
}

func (g *shpGen) pairAdj() *gtab.PairAdjust {
	if g.wild && g.r.Chance(1, 8) {
		return nil // a nil *PairAdjust (API-built only)
	}
	p := &gtab.PairAdjust{First: g.valueRec()}
	if g.r.Chance(1, 2) {
		p.Second = g.valueRec()
	}
	return p
}

// markCovTable: a coverage table of mark glyphs
func (g *shpGen) markCovTable(k int) coverage.Table {
	c := coverage.Table{}
	var keys []glyph.ID
	for x := shpMark0; x <= shpMarkN && len(keys) < k; x++ {
		if g.r.Chance(2, 3) || shpMarkN-x < k-len(keys) {
			keys = append(keys, glyph.ID(x))
		}
	}
	for i, x := range keys {
		c[x] = i
	}
	if g.wild && len(c) > 0 && g.r.Chance(1, 4) {
		c[keys[0]] = Pick(g.r, []int{len(c), 65535})
		g.c.Stat("obligation", "coverage index = len / 65535")
	}
	return c
}

// subtable draws one subtable of the given kind.
func (g *shpGen) subtable(kind int) (gtab.Subtable, uint16) {
	r := g.r
	switch kind {
	case 11:
		s := &gtab.Gsub1_1{Cov: g.covSet(), Delta: glyph.ID(Pick(r, []int{1, 2, 3, 65535, 65534, 9, 65526}))}
		return s, 1
	case 12:
		k := r.Range(1, 4)
		s := &gtab.Gsub1_2{Cov: g.covTable(k), SubstituteGlyphIDs: g.gidList(k, k)}
		return s, 1
	case 21:
		k := r.Range(1, 3)
		s := &gtab.Gsub2_1{Cov: g.covTable(k)}
		for i := 0; i < k; i++ {
			lo := 1
			if r.Chance(1, 6) {
				lo = 0 // empty replacement: the reader delivers it (#12)
				g.c.Stat("obligation", "empty replacement possible")
			}
			s.Repl = append(s.Repl, g.gidList(lo, 3))
		}
		return s, 2
	case 31:
		k := r.Range(1, 3)
		s := &gtab.Gsub3_1{Cov: g.covTable(k)}
		for i := 0; i < k; i++ {
			s.Alternates = append(s.Alternates, g.gidList(0, 2))
		}
		return s, 3
	case 41:
		k := r.Range(1, 3)
		s := &gtab.Gsub4_1{Cov: g.covTable(k)}
		for i := 0; i < k; i++ {
			var set []gtab.Ligature
			m := r.Range(1, 3)
			for j := 0; j < m; j++ {
				in := g.gidList(0, 3)
				if j > 0 && r.Chance(1, 2) {
					// prefixes of one another, in both orders
					prev := set[j-1].In
					if r.Bool() && len(prev) > 0 {
						in = append([]glyph.ID(nil), prev[:len(prev)-1]...)
					} else {
						in = append(append([]glyph.ID(nil), prev...), g.baseGid())
					}
					g.c.Stat("obligation", "ligature candidates that are prefixes of one another")
				}
				set = append(set, gtab.Ligature{In: in, Out: g.gid()})
			}
			s.Repl = append(s.Repl, set)
		}
		return s, 4
	case 81:
		k := r.Range(1, 3)
		s := &gtab.Gsub8_1{Input: g.covTable(k), SubstituteGlyphIDs: g.gidList(k, k)}
		for i, n := 0, r.Range(0, 2); i < n; i++ {
			s.Backtrack = append(s.Backtrack, g.covTable(r.Range(1, 3)))
		}
		for i, n := 0, r.Range(0, 2); i < n; i++ {
			s.Lookahead = append(s.Lookahead, g.covTable(r.Range(1, 3)))
		}
		return s, 8
	case 51:
		k := r.Range(1, 3)
		s := &gtab.SeqContext1{Cov: g.covTable(k)}
		for i := 0; i < k; i++ {
			var rules []*gtab.SeqRule
			for j, m := 0, r.Range(0, 2); j < m; j++ {
				in := g.gidList(0, 3)
				rules = append(rules, &gtab.SeqRule{Input: in, Actions: g.actions(len(in) + 1)})
			}
			s.Rules = append(s.Rules, rules)
		}
		return s, 5
	case 52:
		s := &gtab.SeqContext2{Cov: g.covTable(r.Range(1, 4)), Input: g.classDef()}
		for i, k := 0, r.Range(1, 4); i < k; i++ {
			var rules []*gtab.ClassSeqRule
			for j, m := 0, r.Range(0, 2); j < m; j++ {
				in := g.classList(0, 3)
				rules = append(rules, &gtab.ClassSeqRule{Input: in, Actions: g.actions(len(in) + 1)})
			}
			s.Rules = append(s.Rules, rules)
		}
		return s, 5
	case 53:
		lo := 1
		if g.wild && r.Chance(1, 4) {
			lo = 0
		}
		in := g.covSets(lo, 3)
		return &gtab.SeqContext3{Input: in, Actions: g.actions(len(in))}, 5
	case 61:
		k := r.Range(1, 3)
		s := &gtab.ChainedSeqContext1{Cov: g.covTable(k)}
		for i := 0; i < k; i++ {
			var rules []*gtab.ChainedSeqRule
			for j, m := 0, r.Range(0, 2); j < m; j++ {
				in := g.gidList(0, 2)
				rules = append(rules, &gtab.ChainedSeqRule{Backtrack: g.gidList(0, 2), Input: in, Lookahead: g.gidList(0, 2),
					Actions: g.actions(len(in) + 1)})
			}
			s.Rules = append(s.Rules, rules)
		}
		return s, 6
	case 62:
		s := &gtab.ChainedSeqContext2{Cov: g.covTable(r.Range(1, 4)), Backtrack: g.classDef(), Input: g.classDef(), Lookahead: g.classDef()}
		for i, k := 0, r.Range(1, 4); i < k; i++ {
			var rules []*gtab.ChainedClassSeqRule
			for j, m := 0, r.Range(0, 2); j < m; j++ {
				in := g.classList(0, 2)
				rules = append(rules, &gtab.ChainedClassSeqRule{Backtrack: g.classList(0, 2), Input: in, Lookahead: g.classList(0, 2),
					Actions: g.actions(len(in) + 1)})
			}
			s.Rules = append(s.Rules, rules)
		}
		return s, 6
	case 63:
		in := g.covSets(0, 3)
		if len(in) == 0 {
			g.c.Stat("obligation", "chained context 3 with empty input")
		}
		return &gtab.ChainedSeqContext3{Backtrack: g.covSets(0, 2), Input: in, Lookahead: g.covSets(0, 2), Actions: g.actions(len(in) + 1)}, 6
	case 101:
		return &gtab.Gpos1_1{Cov: g.covTable(r.Range(1, 4)), Adjust: g.valueRec()}, 1
	case 102:
		k := r.Range(1, 3)
		s := &gtab.Gpos1_2{Cov: g.covTable(k)}
		for i := 0; i < k; i++ {
			s.Adjust = append(s.Adjust, g.valueRec())
		}
		return s, 1
	case 103:
		s := gtab.Gpos2_1{}
		for i, n := 0, r.Range(1, 6); i < n; i++ {
			s[glyph.Pair{Left: g.baseGid(), Right: g.gid()}] = g.pairAdj()
		}
		return s, 2
	case 104:
		s := &gtab.Gpos2_2{Cov: g.covSet(), Class1: g.classDef(), Class2: g.classDef()}
		n1, n2 := r.Range(1, 4), r.Range(1, 4)
		for i := 0; i < n1; i++ {
			var row []*gtab.PairAdjust
			for j := 0; j < n2; j++ {
				row = append(row, g.pairAdj())
			}
			s.Adjust = append(s.Adjust, row)
		}
		return s, 2
	case 105:
		k := r.Range(1, 4)
		s := &gtab.Gpos3_1{Cov: g.covTable(k)}
		for i := 0; i < k; i++ {
			s.Records = append(s.Records, gtab.EntryExitRecord{Entry: g.anchor(), Exit: g.anchor()})
		}
		return s, 3
	case 106, 107:
		nm, nb := r.Range(1, 3), r.Range(1, 3)
		classes := r.Range(1, 3)
		saveWild := g.wild
		markCov := g.markCovTable(nm)
		baseCov := g.covTable(nb)
		g.wild = saveWild
		var marks []markarray.Record
		for i := 0; i < nm; i++ {
			cls := r.Intn(classes)
			if r.Chance(1, 8) {
				cls = Pick(r, []int{classes, classes + 1, 65535}) // mark class = len, 65535 (#15): the reader delivers it
				g.c.Stat("obligation", "mark class index = len / 65535")
			}
			marks = append(marks, markarray.Record{Class: uint16(cls), Table: g.anchor()})
		}
		var rows [][]anchor.Table
		for i := 0; i < nb; i++ {
			var row []anchor.Table
			for j := 0; j < classes; j++ {
				row = append(row, g.anchor())
			}
			rows = append(rows, row)
		}
		if kind == 106 {
			return &gtab.Gpos4_1{MarkCov: markCov, BaseCov: baseCov, MarkArray: marks, BaseArray: rows}, 4
		}
		return &gtab.Gpos6_1{Mark1Cov: markCov, Mark2Cov: baseCov, Mark1Array: marks, Mark2Array: rows}, 6
	}
	panic("unknown kind")
}

var shpGsubKinds = []int{11, 12, 21, 31, 41, 41, 81, 51, 52, 53, 61, 62, 63}
var shpSimpleKinds = []int{11, 12, 21, 31, 41, 41, 81}
var shpGposKinds = []int{101, 102, 103, 104, 105, 106, 106, 107, 107, 51, 53, 61, 63}

func (g *shpGen) flags(ngdefSets int) (gtab.LookupFlags, uint16) {
	r := g.r
	var fl gtab.LookupFlags
	if r.Chance(2, 5) {
		return 0, 0
	}
	for _, b := range []gtab.LookupFlags{gtab.RightToLeft, gtab.IgnoreBaseGlyphs, gtab.IgnoreLigatures, gtab.IgnoreMarks, gtab.UseMarkFilteringSet} {
		p := 4
		if b == gtab.IgnoreMarks {
			p = 2
		}
		if r.Chance(1, p) {
			fl |= b
		}
	}
	if r.Chance(1, 3) {
		fl |= gtab.LookupFlags(r.Range(1, 3) << 8)
	}
	set := uint16(r.Intn(ngdefSets + 1))
	if r.Chance(1, 8) {
		set = uint16(Pick(r, []int{ngdefSets, ngdefSets + 1, 65535})) // filtering set index = len, 65535 (#13)
		if fl&gtab.UseMarkFilteringSet != 0 {
			g.c.Stat("obligation", "mark filtering set index = len / 65535")
		}
	}
	return fl, set
}

func (g *shpGen) gdef() (*gdef.Table, int) {
	r := g.r
	if r.Chance(1, 10) {
		return nil, 1
	}
	gd := &gdef.Table{GlyphClass: classdef.Table{}, MarkAttachClass: classdef.Table{}}
	bits := 0
	for x := shpBase0; x <= shpBaseN; x++ {
		if r.Chance(2, 3) {
			gd.GlyphClass[glyph.ID(x)] = gdef.GlyphClassBase
		}
	}
	for x := shpLig0; x <= shpLigN; x++ {
		if r.Chance(5, 6) {
			gd.GlyphClass[glyph.ID(x)] = gdef.GlyphClassLigature
		}
	}
	for x := shpMark0; x <= shpMarkN; x++ {
		if r.Chance(9, 10) {
			gd.GlyphClass[glyph.ID(x)] = gdef.GlyphClassMark
		}
		if r.Chance(2, 3) {
			gd.MarkAttachClass[glyph.ID(x)] = uint16(r.Range(1, 3))
		}
	}
	if r.Chance(1, 10) {
		gd.GlyphClass[glyph.ID(r.Range(1, shpMaxGid))] = uint16(Pick(r, []int{4, 5, 65535}))
	}
	if r.Chance(1, 12) {
		gd.GlyphClass = classdef.Table{}
		if r.Bool() {
			gd.GlyphClass = nil
			bits |= 2
		}
	}
	if r.Chance(1, 8) {
		gd.MarkAttachClass = nil
		bits |= 4
	}
	switch r.Intn(6) {
	case 0:
		gd.MarkGlyphSets = nil
		bits |= 8
	case 1:
		gd.MarkGlyphSets = []coverage.Set{}
	default:
		for i, n := 0, r.Range(1, 3); i < n; i++ {
			s := coverage.Set{}
			for x := shpMark0; x <= shpMarkN; x++ {
				if r.Bool() {
					s[glyph.ID(x)] = true
				}
			}
			gd.MarkGlyphSets = append(gd.MarkGlyphSets, s)
		}
	}
	return gd, bits
}

func (g *shpGen) lookupList(kinds []int) gtab.LookupList {
	r := g.r
	g.nll = r.Range(1, 5)
	ll := make(gtab.LookupList, g.nll)
	for i := range ll {
		kind := Pick(r, kinds)
		n := 1
		if r.Chance(1, 3) {
			n = r.Range(2, 3)
		}
		l := &gtab.LookupTable{Meta: &gtab.LookupMetaInfo{}}
		l.Meta.LookupFlags, l.Meta.MarkFilteringSet = g.flags(g.nsets)
		for j := 0; j < n; j++ {
			k := kind
			// subtables of one lookup share the lookup type but may differ in format
			switch {
			case kind == 11 || kind == 12:
				k = Pick(r, []int{11, 12})
			case kind >= 51 && kind <= 53:
				k = Pick(r, []int{51, 52, 53})
			case kind >= 61 && kind <= 63:
				k = Pick(r, []int{61, 62, 63})
			case kind == 101 || kind == 102:
				k = Pick(r, []int{101, 102})
			case kind == 103 || kind == 104:
				k = Pick(r, []int{103, 104})
			}
			st, tp := g.subtable(k)
			if kinds[0] == 101 && k >= 51 && k <= 63 {
				tp += 2 // GPOS numbering of the contextual types
			}
			l.Meta.LookupType = tp
			l.Subtables = append(l.Subtables, st)
			g.c.Stat("subtable kind", strconv.Itoa(k))
		}
		ll[i] = l
	}
	return ll
}

func (g *shpGen) lookupIndices() []gtab.LookupIndex {
	r := g.r
	var l []gtab.LookupIndex
	switch r.Intn(4) {
	case 0: // all, in order
		for i := 0; i < g.nll; i++ {
			l = append(l, gtab.LookupIndex(i))
		}
	case 1: // a permutation / repetition
		for i, n := 0, r.Range(1, g.nll+1); i < n; i++ {
			l = append(l, gtab.LookupIndex(r.Intn(g.nll)))
		}
	default:
		for i := 0; i < g.nll; i++ {
			if r.Chance(2, 3) {
				l = append(l, gtab.LookupIndex(i))
			}
		}
		if len(l) == 0 {
			l = append(l, 0)
		}
	}
	if r.Chance(1, 12) {
		l = append(l, gtab.LookupIndex(Pick(r, []int{g.nll, 65535})))
		g.c.Stat("obligation", "lookup index out of range in Context.lookups")
	}
	return l
}

func (g *shpGen) sequence(maxLen int) []glyph.Info {
	r := g.r
	n := r.Range(0, maxLen)
	if r.Chance(1, 40) {
		n = r.Range(100, 200)
	}
	s := make([]glyph.Info, n)
	next := rune(97)
	for i := range s {
		switch {
		case r.Chance(1, 2):
			s[i].GID = g.baseGid()
		case r.Chance(1, 2):
			s[i].GID = glyph.ID(r.Range(shpMark0, shpMarkN))
		default:
			s[i].GID = g.gid()
		}
		for j, k := 0, Pick(r, []int{1, 1, 1, 1, 0, 2}); j < k; j++ {
			s[i].Text = append(s[i].Text, next)
			next++
		}
		if g.gpos && r.Chance(4, 5) {
			s[i].Advance = funit.Int16(r.Range(0, 1000))
			if r.Chance(1, 30) {
				s[i].Advance = funit.Int16(Pick(r, []int{32767, -32768, 30000}))
			}
			if r.Chance(1, 6) {
				s[i].XOffset = funit.Int16(r.Range(-100, 100))
				s[i].YOffset = funit.Int16(r.Range(-100, 100))
			}
		}
	}
	return s
}

// scenario cases: built to hit one obligation of DESIGN Appendix F exactly.
func (g *shpGen) scenario(which int) *shpCase {
	r := g.r
	const A, B, C, D, M, M2, X, Y = 1, 2, 3, 4, 10, 11, 7, 8
	marks := &gdef.Table{GlyphClass: classdef.Table{M: gdef.GlyphClassMark, M2: gdef.GlyphClassMark, X: gdef.GlyphClassLigature, A: gdef.GlyphClassBase}}
	mk := func(gids ...glyph.ID) []glyph.Info {
		s := make([]glyph.Info, len(gids))
		for i, x := range gids {
			s[i] = glyph.Info{GID: x, Text: []rune{rune(97 + i)}}
		}
		return s
	}
	lk := func(tp uint16, fl gtab.LookupFlags, st ...gtab.Subtable) *gtab.LookupTable {
		return &gtab.LookupTable{Meta: &gtab.LookupMetaInfo{LookupType: tp, LookupFlags: fl}, Subtables: st}
	}
	c := &shpCase{gd: marks, lookups: []gtab.LookupIndex{0}}
	switch which {
	case 0: // second ligature candidate across k skipped glyphs (#11)
		k := r.Intn(4)
		g.c.Stat("obligation", fmt.Sprintf("second candidate across %d skipped glyphs", k))
		seq := []glyph.ID{A}
		for i := 0; i < k; i++ {
			seq = append(seq, glyph.ID(Pick(r, []int{M, M2})))
		}
		seq = append(seq, B)
		for i, n := 0, r.Intn(3); i < n; i++ {
			seq = append(seq, M)
		}
		seq = append(seq, D, A)
		c.ll = gtab.LookupList{lk(4, gtab.IgnoreMarks, &gtab.Gsub4_1{Cov: coverage.Table{A: 0}, Repl: [][]gtab.Ligature{{
			{In: []glyph.ID{B, C}, Out: X}, {In: []glyph.ID{B, D}, Out: Y}, {In: []glyph.ID{B}, Out: X}}}})}
		c.hist = [][]glyph.Info{mk(seq...)}
	case 1: // a merge that includes trailing skipped glyphs of the enclosing match (#33)
		g.c.Stat("obligation", "merge includes trailing skipped glyphs of the enclosing match")
		nm := r.Range(1, 3)
		in := make([]glyph.ID, nm)
		seq := []glyph.ID{A}
		for i := range in {
			in[i] = M
			seq = append(seq, M)
		}
		seq = append(seq, g.baseGid())
		acts := []gtab.SeqLookup{{SequenceIndex: 0, LookupListIndex: 1}, {SequenceIndex: 0, LookupListIndex: 1}}
		c.ll = gtab.LookupList{
			lk(5, gtab.IgnoreMarks, &gtab.SeqContext1{Cov: coverage.Table{A: 0}, Rules: [][]*gtab.SeqRule{{{Actions: acts}}}}),
			lk(4, 0, &gtab.Gsub4_1{Cov: coverage.Table{A: 0}, Repl: [][]gtab.Ligature{{{In: in, Out: A}}}}),
		}
		c.hist = [][]glyph.Info{mk(seq...)}
	case 2: // 62..66 actions, then a second call on the same context (#14)
		n := r.Range(62, 66)
		g.c.Stat("obligation", fmt.Sprintf("%d actions, context reused", n))
		acts := make([]gtab.SeqLookup, n)
		for i := range acts {
			acts[i] = gtab.SeqLookup{SequenceIndex: 0, LookupListIndex: 1}
		}
		c.ll = gtab.LookupList{
			lk(5, 0, &gtab.SeqContext1{Cov: coverage.Table{A: 0, C: 1}, Rules: [][]*gtab.SeqRule{{{Actions: acts}}, {{Actions: acts[:1]}}}}),
			lk(2, 0, &gtab.Gsub2_1{Cov: coverage.Table{A: 0, C: 1}, Repl: [][]glyph.ID{{A, B}, {C, B}}}),
		}
		c.hist = [][]glyph.Info{mk(A), mk(C), mk(C, A)}
	case 3: // sequence index out of range first, then a good action; context reused (#14b)
		g.c.Stat("obligation", "bad sequence index followed by a good action")
		bad := uint16(Pick(r, []int{2, 3, 65535}))
		c.ll = gtab.LookupList{
			lk(5, 0, &gtab.SeqContext1{Cov: coverage.Table{A: 0}, Rules: [][]*gtab.SeqRule{{{Input: []glyph.ID{B}, Actions: []gtab.SeqLookup{
				{SequenceIndex: bad, LookupListIndex: 1}, {SequenceIndex: uint16(r.Intn(2)), LookupListIndex: 1}}}}}}),
			lk(1, 0, &gtab.Gsub1_2{Cov: coverage.Table{A: 0, B: 1}, SubstituteGlyphIDs: []glyph.ID{X, Y}}),
		}
		c.hist = [][]glyph.Info{mk(A, B, A, B), mk(B, A, B)}
	case 4: // nested insertion / deletion before, at, after the recorded positions
		g.c.Stat("obligation", "nested insertion and deletion before/at/after recorded positions")
		var acts []gtab.SeqLookup
		for i, n := 0, r.Range(2, 5); i < n; i++ {
			acts = append(acts, gtab.SeqLookup{SequenceIndex: uint16(r.Intn(4)), LookupListIndex: gtab.LookupIndex(r.Range(1, 2))})
		}
		c.ll = gtab.LookupList{
			lk(5, gtab.LookupFlags(Pick(r, []int{0, 8})), &gtab.SeqContext1{Cov: coverage.Table{A: 0}, Rules: [][]*gtab.SeqRule{{{Input: []glyph.ID{B, C}, Actions: acts}}}}),
			lk(2, 0, &gtab.Gsub2_1{Cov: coverage.Table{A: 0, B: 1, C: 2}, Repl: [][]glyph.ID{{A, A}, {B, D, B}, {C, C}}}),
			lk(4, gtab.LookupFlags(Pick(r, []int{0, 8})), &gtab.Gsub4_1{Cov: coverage.Table{A: 0, B: 1}, Repl: [][]gtab.Ligature{
				{{In: []glyph.ID{B}, Out: A}, {In: []glyph.ID{A}, Out: A}}, {{In: []glyph.ID{C}, Out: B}, {In: []glyph.ID{D}, Out: C}}}}),
		}
		seq := []glyph.ID{A}
		for _, x := range []glyph.ID{B, C} {
			for i, n := 0, r.Intn(3); i < n; i++ {
				seq = append(seq, M)
			}
			seq = append(seq, x)
		}
		for i, n := 0, r.Intn(3); i < n; i++ {
			seq = append(seq, M)
		}
		seq = append(seq, A, B, C)
		c.hist = [][]glyph.Info{mk(seq...)}
	case 5: // a lookup that refers to itself
		g.c.Stat("obligation", "self-referential contextual lookup")
		acts := []gtab.SeqLookup{{SequenceIndex: 0, LookupListIndex: 0}, {SequenceIndex: uint16(r.Intn(2)), LookupListIndex: 1}, {SequenceIndex: 0, LookupListIndex: 0}}
		c.ll = gtab.LookupList{
			lk(5, 0, &gtab.SeqContext3{Input: []coverage.Set{{A: true, B: true}}, Actions: acts}),
			lk(2, 0, &gtab.Gsub2_1{Cov: coverage.Table{A: 0, B: 1}, Repl: [][]glyph.ID{{A, B}, {B, A}}}),
		}
		c.hist = [][]glyph.Info{mk(A, B), mk(B)}
	}
	return c
}

// ---------------------------------------------------------------- family: trailing skipped glyphs
//
// For every contextual format (SeqContext1/2/3, ChainedSeqContext1/2/3): a parent rule "A A"
// (chained: followed by C) under a flag word F1 that skips some marks, with `bt` skipped glyphs
// between the two input glyphs and `tr` skipped glyphs right behind the last one (before the
// lookahead glyph), and a nested lookup under DIFFERENT flags F2 (which keep that mark) applied
// at the last input glyph that consumes or rewrites the trailing skipped glyph:
//
//	kind 0: ligature  A m -> B   (kind 0 with tr = 2 also offers  A m m -> L first)
//	kind 1: child context "A m" -> single substitution of m
//	kind 2: child context "A m" -> multiple substitution of m
//
// The nested lookup can reach the trailing glyph only because the window of the parent match
// (EndPos) extends over the skipped glyphs that follow the last input glyph (testcases 2_08).
// variants: 0: F1 = IgnoreMarks, F2 = 0, m = 10;  1: F1 = attachment type 1, F2 = attachment type
// 2, m = 11;  2: F1 = mark filtering set 0 = {10}, F2 = 0, m = 12.
var shpTrailingFormats = []int{51, 52, 53, 61, 62, 63}

const shpTrailingCount = 6 * 3 * 2 * 3 * 3

func shpTrailingCase(idx int) (*shpCase, string) {
	format := shpTrailingFormats[idx%6]
	idx /= 6
	tr := idx % 3
	idx /= 3
	bt := idx % 2
	idx /= 2
	kind := idx % 3
	idx /= 3
	variant := idx % 3
	const A, B, C, L, M, M2, M3 = 1, 2, 3, 7, 10, 11, 12
	gd := &gdef.Table{
		GlyphClass: classdef.Table{A: gdef.GlyphClassBase, B: gdef.GlyphClassBase, C: gdef.GlyphClassBase, L: gdef.GlyphClassLigature,
			M: gdef.GlyphClassMark, M2: gdef.GlyphClassMark, M3: gdef.GlyphClassMark},
		MarkAttachClass: classdef.Table{M: 1, M2: 2, M3: 1},
		MarkGlyphSets:   []coverage.Set{{M: true}},
	}
	var f1, f2 gtab.LookupFlags
	var m glyph.ID
	switch variant {
	case 0:
		f1, f2, m = gtab.IgnoreMarks, 0, M
	case 1:
		f1, f2, m = gtab.LookupFlags(1<<8), gtab.LookupFlags(2<<8), M2
	default:
		f1, f2, m = gtab.UseMarkFilteringSet, 0, M3
	}
	acts := []gtab.SeqLookup{{SequenceIndex: 1, LookupListIndex: gtab.LookupIndex(1 + kind)}}
	cd := classdef.Table{A: 1, C: 2}
	var parent gtab.Subtable
	tp := uint16(5)
	switch format {
	case 51:
		parent = &gtab.SeqContext1{Cov: coverage.Table{A: 0}, Rules: [][]*gtab.SeqRule{{{Input: []glyph.ID{A}, Actions: acts}}}}
	case 52:
		parent = &gtab.SeqContext2{Cov: coverage.Table{A: 0}, Input: cd, Rules: [][]*gtab.ClassSeqRule{{}, {{Input: []uint16{1}, Actions: acts}}}}
	case 53:
		parent = &gtab.SeqContext3{Input: []coverage.Set{{A: true}, {A: true}}, Actions: acts}
	case 61:
		tp = 6
		parent = &gtab.ChainedSeqContext1{Cov: coverage.Table{A: 0}, Rules: [][]*gtab.ChainedSeqRule{{{Input: []glyph.ID{A}, Lookahead: []glyph.ID{C}, Actions: acts}}}}
	case 62:
		tp = 6
		parent = &gtab.ChainedSeqContext2{Cov: coverage.Table{A: 0}, Backtrack: cd, Input: cd, Lookahead: cd,
			Rules: [][]*gtab.ChainedClassSeqRule{{}, {{Input: []uint16{1}, Lookahead: []uint16{2}, Actions: acts}}}}
	default:
		tp = 6
		parent = &gtab.ChainedSeqContext3{Input: []coverage.Set{{A: true}, {A: true}}, Lookahead: []coverage.Set{{C: true}}, Actions: acts}
	}
	lk := func(tp uint16, fl gtab.LookupFlags, st ...gtab.Subtable) *gtab.LookupTable {
		return &gtab.LookupTable{Meta: &gtab.LookupMetaInfo{LookupType: tp, LookupFlags: fl}, Subtables: st}
	}
	ligs := []gtab.Ligature{{In: []glyph.ID{m}, Out: B}}
	if tr == 2 {
		ligs = []gtab.Ligature{{In: []glyph.ID{m, m}, Out: L}, {In: []glyph.ID{m}, Out: B}}
	}
	child := func(target gtab.LookupIndex) gtab.Subtable {
		return &gtab.SeqContext1{Cov: coverage.Table{A: 0}, Rules: [][]*gtab.SeqRule{{{Input: []glyph.ID{m},
			Actions: []gtab.SeqLookup{{SequenceIndex: 1, LookupListIndex: target}}}}}}
	}
	ll := gtab.LookupList{
		lk(tp, f1, parent),
		lk(4, f2, &gtab.Gsub4_1{Cov: coverage.Table{A: 0}, Repl: [][]gtab.Ligature{ligs}}),
		lk(5, f2, child(4)),
		lk(5, f2, child(5)),
		lk(1, 0, &gtab.Gsub1_2{Cov: coverage.Table{m: 0}, SubstituteGlyphIDs: []glyph.ID{L}}),
		lk(2, 0, &gtab.Gsub2_1{Cov: coverage.Table{m: 0}, Repl: [][]glyph.ID{{m, B, m}}}),
	}
	if variant == 2 {
		ll[0].Meta.MarkFilteringSet = 0
	}
	gids := []glyph.ID{A}
	for i := 0; i < bt; i++ {
		gids = append(gids, m)
	}
	gids = append(gids, A)
	for i := 0; i < tr; i++ {
		gids = append(gids, m)
	}
	gids = append(gids, C, A)
	seq := make([]glyph.Info, len(gids))
	for i, x := range gids {
		seq[i] = glyph.Info{GID: x, Text: []rune{rune(97 + i)}}
	}
	c := &shpCase{ll: ll, gd: gd, lookups: []gtab.LookupIndex{0}, hist: [][]glyph.Info{seq}}
	return c, fmt.Sprintf("format %d, %d trailing, %d between, nested kind %d, flags variant %d", format, tr, bt, kind, variant)
}

func shpLen(c *shpCase) int {
	n := 0
	for _, s := range c.hist {
		n += len(s)
	}
	return n
}

// emit writes all streams for one case.
func (g *shpGen) emit(c *shpCase, origin string) {
	line, ok := shpEncode(c)
	if !ok {
		g.c.Stat("skipped", "not representable ("+origin+")")
		return
	}
	gd, simple := shpGuardedSimple(c.ll)
	nontrivial := len(c.hist) > 0 && shpLen(c) > 0
	out := g.c.Case(Verdict, "shape.apply", line, nontrivial)
	g.c.Case(Direct, "shape.text", line, nontrivial)
	g.c.Case(Direct, "shape.hist", line, nontrivial)
	g.c.Case(Direct, "shape.safe", line, nontrivial)
	g.c.Case(Direct, "shape.len", line, nontrivial)
	g.c.Case(Direct, "shape.input", line, nontrivial)
	g.c.Case(Diagnostic, "shape.stack", line, nontrivial)
	g.c.Case(Diagnostic, "shape.guarded", line, nontrivial)

	g.c.Stat("origin", origin)
	if strings.HasPrefix(origin, "gtab.Read") {
		// every list the reader delivers must be in the hypothesis class of C07_no_panic
		g.c.Stat("class of reader-delivered lists", shpClass(c.ll))
	}
	g.c.Stat("history length", strconv.Itoa(len(c.hist)))
	g.c.Stat("lookups in list", strconv.Itoa(len(c.ll)))
	for _, s := range c.hist {
		g.c.Stat("sequence length", bucket(len(s)))
	}
	switch cls := shpClass(c.ll); {
	case cls == "proved:C07_no_panic" && simple:
		g.c.Stat("hypothesis", "reader-shaped, no contextual subtable (C07_no_panic)")
	case cls == "proved:C07_no_panic" && shpNestedMergeFree(c.ll):
		g.c.Stat("hypothesis", "reader-shaped, contextual, no nested ligature substitution (C07_no_panic)")
	case cls == "proved:C07_no_panic":
		g.c.Stat("hypothesis", "reader-shaped, contextual with a nested ligature substitution (C07_no_panic)")
	case cls == "proved:partial":
		g.c.Stat("hypothesis", "guarded, chained context 3 with empty input (API only), covered by a partial theorem")
	case cls == "open:guarded-only":
		g.c.Stat("hypothesis", "guarded, chained context 3 with empty input (API only) and nested ligature: no theorem, direct stream only")
	default:
		g.c.Stat("hypothesis", "unguarded (outside the domain of no-panic; model decides)")
	}
	_ = gd
	changed := false
	for i, part := range strings.Split(out, "|") {
		switch {
		case part == "panic":
			g.c.Stat("outcome", "panic")
		case part == "timeout" || part == "skipped":
			g.c.Stat("outcome", part)
		default:
			g.c.Stat("outcome", "ok")
			if i < len(c.hist) && part != shpShowSeq(c.hist[i]) {
				changed = true
			}
		}
	}
	if changed {
		g.c.Stat("effect", "some call changed the sequence")
	} else {
		g.c.Stat("effect", "no call changed the sequence")
	}
	for _, l := range c.ll {
		g.c.Stat("lookup flags", fmt.Sprintf("%#04x", int(l.Meta.LookupFlags)&0x1e))
	}
}

// viaReader encodes the lookup list as a GSUB/GPOS table, optionally mutates the bytes, reads
// them back with gtab.Read and returns the decoded lookup list.
func (g *shpGen) viaReader(ll gtab.LookupList, tp gtab.Type, mutate bool) (out gtab.LookupList, status string, data []byte) {
	defer func() {
		if r := recover(); r != nil {
			out, status, data = nil, "encode/read panic", nil
			if shpDebug {
				fmt.Println("viaReader:", r)
			}
		}
	}()
	all := make([]gtab.LookupIndex, len(ll))
	for i := range all {
		all[i] = gtab.LookupIndex(i)
	}
	info := &gtab.Info{
		ScriptList:  map[language.Tag]*gtab.Features{language.MustParse("und-Zzzz"): {Required: 0}},
		FeatureList: []*gtab.Feature{{Tag: "test", Lookups: all}},
		LookupList:  ll,
	}
	data = info.Encode()
	if mutate {
		for i, n := 0, Pick(g.r, []int{1, 1, 2, 3}); i < n && len(data) > 10; i++ {
			p := g.r.Range(10, len(data)-1)
			switch g.r.Intn(3) {
			case 0:
				data[p] = byte(g.r.U64())
			case 1:
				data[p] ^= 1 << uint(g.r.Intn(8))
			default:
				data[p] = byte(Pick(g.r, []int{0, 1, 2, 255}))
			}
		}
	}
	res, err := gtab.Read(bytes.NewReader(data), tp)
	if err != nil {
		return nil, "rejected by the reader", data
	}
	if len(res.LookupList) == 0 {
		return nil, "empty lookup list", data
	}
	return res.LookupList, "read", data
}

var shpDebug = false

func areaShape(c *Ctx) {
	g := &shpGen{r: c.Rng, c: c}
	r := c.Rng
	// the whole family "trailing skipped glyphs consumed by a nested lookup", every run
	for i := 0; i < shpTrailingCount; i++ {
		sc, what := shpTrailingCase(i)
		c.Stat("obligation: trailing skipped glyphs (format)", what[:9])
		g.emit(sc, "trailing skipped family")
	}
	// the families added after the round-3 seeds, every run
	for i := 0; i < shpNestedCtxCount; i++ {
		sc, what := shpNestedCtxCase(i)
		c.Stat("obligation: contextual nested in contextual (parent x child format)", what)
		g.emit(sc, "nested contextual family")
	}
	for i := 0; i < shpMarkSetCount; i++ {
		sc, what := shpMarkSetCase(i)
		c.Stat("obligation: nested lookup with the parent's flags and another filtering set", what[:9])
		g.emit(sc, "mark filtering set family")
	}
	g.extensionFamily()
	for i := 0; i < shpKeepCacheCount; i++ {
		sc, what := shpKeepCacheCase(i)
		c.Stat("obligation: two nested lookups, same flags, different filtering sets, both history orders", what[:9])
		g.emit(sc, "filter cache family")
	}
	g.countMismatchFamily()
	for i := 0; i < shpBetweenCount(); i++ {
		sc, what := shpBetweenCase(i)
		c.Stat("obligation: input positions between the components of a nested ligature", what[:9])
		g.emit(sc, "between-components family")
	}
	g.layoutFamily()
	g.layoutSeqFamily()
	// over-budget rules whose nested insertions produce glyphs that start the same match again
	// (termination: the progress guard and the EndPos of the outermost match), every run, LAST
	// among the fixed families because a non-terminating engine ends the run after three time-outs
	for _, n := range []int{63, 64, 65, 70, 130} {
		for _, self := range []bool{false, true} {
			acts := make([]gtab.SeqLookup, n)
			for i := range acts {
				acts[i] = gtab.SeqLookup{SequenceIndex: 0, LookupListIndex: 1}
			}
			if self {
				// a self-referential rule reaching the budget: lookup 0 runs itself and the insertion
				acts = []gtab.SeqLookup{{SequenceIndex: 0, LookupListIndex: 1}, {SequenceIndex: 1, LookupListIndex: 0}, {SequenceIndex: 0, LookupListIndex: 0}}
			}
			parent, tp := shpMkContext(Pick(g.r, shpTrailingFormats), []glyph.ID{fA}, acts)
			sc := &shpCase{gd: shpFamGdef, lookups: []gtab.LookupIndex{0}, hist: [][]glyph.Info{shpFamSeq(fA), shpFamSeq(fA, fB, fA)},
				ll: gtab.LookupList{shpFamLookup(tp, 0, 0, parent),
					shpFamLookup(2, 0, 0, &gtab.Gsub2_1{Cov: coverage.Table{fA: 0}, Repl: [][]glyph.ID{{fA, fA}}})}}
			c.Stat("obligation: over-budget rule whose insertions restart the match", fmt.Sprintf("%d actions self=%v", n, self))
			g.emit(sc, "over-budget insertion family")
		}
	}
	for c.evals < c.N && timeouts < maxTimeouts {
		g.wild = false
		g.gpos = false
		sc := &shpCase{}
		origin := ""
		gd, gdNil := g.gdef()
		g.nsets = 0
		if gd != nil {
			g.nsets = len(gd.MarkGlyphSets)
		}
		switch x := r.Intn(20); {
		case x < 3:
			sc = g.scenario(r.Intn(6))
			origin = "scenario"
		case x < 6: // through the binary reader, valid or mutated bytes
			kinds := shpGsubKinds
			tp := gtab.Type(gtab.TypeGsub)
			if r.Chance(1, 4) {
				kinds, tp = shpGposKinds, gtab.TypeGpos
				g.gpos = true
			}
			g.reader = true
			ll := g.lookupList(kinds)
			g.reader = false
			mutate := r.Chance(2, 3)
			ll2, status, data := g.viaReader(ll, tp, mutate)
			c.Stat("reader", fmt.Sprintf("%s (mutated=%v)", status, mutate))
			if data != nil && status == "read" {
				// the same table judged from its bytes: whatever the reader delivers must be applicable
				seq := g.sequence(12)
				gids := make([]int, len(seq))
				for i, x := range seq {
					gids[i] = int(x.GID)
				}
				c.Case(Direct, "shape.readsafe", fmt.Sprintf("tp=%d seq=%s file=%s", int(tp), ints(gids), hx(data)), true)
			}
			if ll2 == nil {
				continue
			}
			sc.ll = ll2
			g.nll = len(ll2)
			origin = fmt.Sprintf("gtab.Read (mutated=%v)", mutate)
		default:
			g.wild = r.Chance(1, 6)
			kinds := shpGsubKinds
			if r.Chance(1, 3) {
				kinds = shpSimpleKinds
			} else if r.Chance(1, 4) {
				kinds = shpGposKinds
				g.gpos = true
			}
			sc.ll = g.lookupList(kinds)
			origin = "API-built"
			if g.wild {
				origin = "API-built, indices unconstrained"
			}
		}
		if origin != "scenario" {
			sc.gd, sc.gdNil = gd, gdNil
			sc.lookups = g.lookupIndices()
			maxLen := Pick(r, []int{4, 8, 12, 12, 30})
			for i, n := 0, Pick(r, []int{1, 1, 2, 3, 5}); i < n; i++ {
				sc.hist = append(sc.hist, g.sequence(maxLen))
			}
		} else if r.Chance(1, 2) {
			// scenarios are also run with random sequences appended to the history
			sc.hist = append(sc.hist, g.sequence(8))
		}
		g.emit(sc, origin)
	}
}

// ================================================================ families added after the round-3 seeds
//
// (a) contextual lookups nested in contextual lookups, all six formats as parent x all six as
//     child, actions in decreasing / increasing / mixed sequence-index order, the context
//     occurring twice in one sequence and a second call on the same Context (warm scratch slice);
// (b) lookup lists read from hand-built bytes with extension lookups (GSUB 7 / GPOS 9) for every
//     target type incl. the extension type itself, mixed extension / non-extension subtables;
// (c) nested lookups that share the flags word of the parent but use another mark filtering set.

const (
	fA, fB, fC        = glyph.ID(1), glyph.ID(2), glyph.ID(3)
	fD, fE, fF        = glyph.ID(4), glyph.ID(5), glyph.ID(6)
	fL                = glyph.ID(7)
	fM1, fM2, fM3     = glyph.ID(10), glyph.ID(11), glyph.ID(12)
	fU, fV            = glyph.ID(14), glyph.ID(15)
	shpNestedCtxCount = 6 * 6 * 3 * 2 * 2
	shpMarkSetCount   = 6 * 4 * 3
)

// shpFamClass is the class definition used by the format-2 members of the families.
var shpFamClass = classdef.Table{fA: 1, fB: 2, fC: 3, fM1: 4, fM2: 5, fM3: 6, fU: 7}

func shpFamLookup(tp uint16, fl gtab.LookupFlags, set uint16, st ...gtab.Subtable) *gtab.LookupTable {
	return &gtab.LookupTable{Meta: &gtab.LookupMetaInfo{LookupType: tp, LookupFlags: fl, MarkFilteringSet: set}, Subtables: st}
}

// shpMkContext builds a contextual subtable of the given format (51..63) whose only rule has
// the input sequence `input` (first glyph included) and the given actions.
func shpMkContext(format int, input []glyph.ID, acts []gtab.SeqLookup) (gtab.Subtable, uint16) {
	first, rest := input[0], input[1:]
	classes := make([]uint16, len(rest))
	for i, x := range rest {
		classes[i] = shpFamClass[x]
	}
	sets := make([]coverage.Set, len(input))
	for i, x := range input {
		sets[i] = coverage.Set{x: true}
	}
	switch format {
	case 51:
		return &gtab.SeqContext1{Cov: coverage.Table{first: 0}, Rules: [][]*gtab.SeqRule{{{Input: rest, Actions: acts}}}}, 5
	case 52:
		rules := make([][]*gtab.ClassSeqRule, shpFamClass[first]+1)
		rules[shpFamClass[first]] = []*gtab.ClassSeqRule{{Input: classes, Actions: acts}}
		return &gtab.SeqContext2{Cov: coverage.Table{first: 0}, Input: shpFamClass, Rules: rules}, 5
	case 53:
		return &gtab.SeqContext3{Input: sets, Actions: acts}, 5
	case 61:
		return &gtab.ChainedSeqContext1{Cov: coverage.Table{first: 0}, Rules: [][]*gtab.ChainedSeqRule{{{Input: rest, Actions: acts}}}}, 6
	case 62:
		rules := make([][]*gtab.ChainedClassSeqRule, shpFamClass[first]+1)
		rules[shpFamClass[first]] = []*gtab.ChainedClassSeqRule{{Input: classes, Actions: acts}}
		return &gtab.ChainedSeqContext2{Cov: coverage.Table{first: 0}, Backtrack: shpFamClass, Input: shpFamClass, Lookahead: shpFamClass, Rules: rules}, 6
	}
	return &gtab.ChainedSeqContext3{Input: sets, Actions: acts}, 6
}

// shpMkChild builds the nested contextual lookup of family (a): it covers B and C; with
// `match` its rules match in "...B C..." (B followed by C; C alone), otherwise they get past the
// coverage test and fail on the next glyph.  Its action runs lookup `target` at index 0.
func shpMkChild(format int, match bool, target gtab.LookupIndex) (gtab.Subtable, uint16) {
	acts := []gtab.SeqLookup{{SequenceIndex: 0, LookupListIndex: target}}
	restB, restC := []glyph.ID{fC}, []glyph.ID{}
	if !match {
		restB, restC = []glyph.ID{fA}, []glyph.ID{fB}
	}
	cls := func(l []glyph.ID) []uint16 {
		out := make([]uint16, len(l))
		for i, x := range l {
			out[i] = shpFamClass[x]
		}
		return out
	}
	cov := coverage.Table{fB: 0, fC: 1}
	in3 := []coverage.Set{{fB: true, fC: true}}
	if !match {
		in3 = append(in3, coverage.Set{fU: true})
	}
	switch format {
	case 51:
		return &gtab.SeqContext1{Cov: cov, Rules: [][]*gtab.SeqRule{{{Input: restB, Actions: acts}}, {{Input: restC, Actions: acts}}}}, 5
	case 52:
		return &gtab.SeqContext2{Cov: cov, Input: shpFamClass, Rules: [][]*gtab.ClassSeqRule{nil, nil,
			{{Input: cls(restB), Actions: acts}}, {{Input: cls(restC), Actions: acts}}}}, 5
	case 53:
		return &gtab.SeqContext3{Input: in3, Actions: acts}, 5
	case 61:
		return &gtab.ChainedSeqContext1{Cov: cov, Rules: [][]*gtab.ChainedSeqRule{{{Input: restB, Actions: acts}}, {{Input: restC, Actions: acts}}}}, 6
	case 62:
		return &gtab.ChainedSeqContext2{Cov: cov, Backtrack: shpFamClass, Input: shpFamClass, Lookahead: shpFamClass,
			Rules: [][]*gtab.ChainedClassSeqRule{nil, nil, {{Input: cls(restB), Actions: acts}}, {{Input: cls(restC), Actions: acts}}}}, 6
	}
	return &gtab.ChainedSeqContext3{Input: in3, Actions: acts}, 6
}

func shpFamSeq(gids ...glyph.ID) []glyph.Info {
	s := make([]glyph.Info, len(gids))
	for i, x := range gids {
		s[i] = glyph.Info{GID: x, Text: []rune{rune(97 + i)}}
	}
	return s
}

var shpFamGdef = &gdef.Table{
	GlyphClass: classdef.Table{fA: gdef.GlyphClassBase, fB: gdef.GlyphClassBase, fC: gdef.GlyphClassBase, fL: gdef.GlyphClassLigature,
		fM1: gdef.GlyphClassMark, fM2: gdef.GlyphClassMark, fM3: gdef.GlyphClassMark},
	MarkGlyphSets: []coverage.Set{{fM1: true}, {fM2: true}, {fM1: true, fM3: true}, {fM3: true}},
}

// shpNestedCtxCase: member idx of family (a).
func shpNestedCtxCase(idx int) (*shpCase, string) {
	formats := shpTrailingFormats
	pf := formats[idx%6]
	idx /= 6
	cf := formats[idx%6]
	idx /= 6
	order := idx % 3
	idx /= 3
	match := idx%2 == 0
	idx /= 2
	marks := idx%2 == 1

	var acts []gtab.SeqLookup
	switch order {
	case 0: // decreasing: the contextual child at the LATER index first, then an earlier index
		acts = []gtab.SeqLookup{{SequenceIndex: 1, LookupListIndex: 2}, {SequenceIndex: 0, LookupListIndex: 1}}
	case 1: // increasing
		acts = []gtab.SeqLookup{{SequenceIndex: 0, LookupListIndex: 1}, {SequenceIndex: 1, LookupListIndex: 2}, {SequenceIndex: 2, LookupListIndex: 1}}
	default: // the child at the last index, then two earlier ones in decreasing order
		acts = []gtab.SeqLookup{{SequenceIndex: 2, LookupListIndex: 2}, {SequenceIndex: 1, LookupListIndex: 1}, {SequenceIndex: 0, LookupListIndex: 1}}
	}
	parent, ptp := shpMkContext(pf, []glyph.ID{fA, fB, fC}, acts)
	child, ctp := shpMkChild(cf, match, 3)
	var fl gtab.LookupFlags
	if marks {
		fl = gtab.IgnoreMarks
	}
	ll := gtab.LookupList{
		shpFamLookup(ptp, fl, 0, parent),
		shpFamLookup(1, 0, 0, &gtab.Gsub1_2{Cov: coverage.Table{fA: 0, fB: 1, fC: 2}, SubstituteGlyphIDs: []glyph.ID{fD, fE, fF}}),
		shpFamLookup(ctp, fl, 0, child),
		shpFamLookup(1, 0, 0, &gtab.Gsub1_2{Cov: coverage.Table{fB: 0, fC: 1}, SubstituteGlyphIDs: []glyph.ID{fU, fV}}),
	}
	one := []glyph.ID{fA, fB, fC}
	if marks {
		one = []glyph.ID{fA, fM1, fB, fM2, fC, fM1}
	}
	two := append(append([]glyph.ID{}, one...), one...)
	three := append(append([]glyph.ID{}, two...), one...)
	c := &shpCase{ll: ll, gd: shpFamGdef, lookups: []gtab.LookupIndex{0},
		hist: [][]glyph.Info{shpFamSeq(two...), shpFamSeq(one...), shpFamSeq(three...)}}
	return c, fmt.Sprintf("parent %d child %d", pf, cf)
}

// shpMarkSetCase: member idx of family (c).  Parent and nested lookup have the same flags word
// (UseMarkFilteringSet) and different mark filtering sets.
func shpMarkSetCase(idx int) (*shpCase, string) {
	pf := shpTrailingFormats[idx%6]
	idx /= 6
	pairs := [][2]uint16{{0, 1}, {1, 0}, {2, 1}, {0, 3}}
	pair := pairs[idx%4]
	idx /= 4
	scen := idx % 3
	si, sj := shpFamGdef.MarkGlyphSets[pair[0]], shpFamGdef.MarkGlyphSets[pair[1]]
	var onlyI, onlyJ glyph.ID // a mark in the parent's set only / in the nested lookup's set only
	for _, m := range []glyph.ID{fM1, fM2, fM3} {
		if si[m] && !sj[m] && onlyI == 0 {
			onlyI = m
		}
		if sj[m] && !si[m] && onlyJ == 0 {
			onlyJ = m
		}
	}
	fl := gtab.LookupFlags(gtab.UseMarkFilteringSet)
	var parent gtab.Subtable
	var ptp uint16
	var nested *gtab.LookupTable
	var seq []glyph.ID
	switch scen {
	case 0: // the nested ligature must SKIP a mark which the parent keeps
		parent, ptp = shpMkContext(pf, []glyph.ID{fA, onlyI, fB}, []gtab.SeqLookup{{SequenceIndex: 0, LookupListIndex: 1}})
		nested = shpFamLookup(4, fl, pair[1], &gtab.Gsub4_1{Cov: coverage.Table{fA: 0}, Repl: [][]gtab.Ligature{{{In: []glyph.ID{fB}, Out: fL}}}})
		seq = []glyph.ID{fA, onlyI, fB, fC, fA, onlyI, fB}
	case 1: // the nested ligature must KEEP a mark which the parent skips
		parent, ptp = shpMkContext(pf, []glyph.ID{fA, fB}, []gtab.SeqLookup{{SequenceIndex: 0, LookupListIndex: 1}})
		nested = shpFamLookup(4, fl, pair[1], &gtab.Gsub4_1{Cov: coverage.Table{fA: 0}, Repl: [][]gtab.Ligature{{{In: []glyph.ID{onlyJ, fB}, Out: fL}}}})
		seq = []glyph.ID{fA, onlyJ, fB, fC, fA, fB}
	default: // the nested lookup must not be applied AT a mark it ignores
		parent, ptp = shpMkContext(pf, []glyph.ID{fA, onlyI}, []gtab.SeqLookup{{SequenceIndex: 1, LookupListIndex: 1}})
		nested = shpFamLookup(1, fl, pair[1], &gtab.Gsub1_2{Cov: coverage.Table{fM1: 0, fM2: 1, fM3: 2}, SubstituteGlyphIDs: []glyph.ID{fM2, fM3, fM1}})
		seq = []glyph.ID{fA, onlyI, fB, fA, onlyI}
	}
	ll := gtab.LookupList{shpFamLookup(ptp, fl, pair[0], parent), nested}
	c := &shpCase{ll: ll, gd: shpFamGdef, lookups: []gtab.LookupIndex{0}, hist: [][]glyph.Info{shpFamSeq(seq...)}}
	return c, fmt.Sprintf("parent %d sets %d/%d scenario %d", pf, pair[0], pair[1], scen)
}

// ---------------------------------------------------------------- (b) tables from hand-built bytes

// shpRawSub is one subtable of a hand-built lookup: its bytes and how often it is wrapped in
// an extension record (0 = direct, 1 = extension, 2 = extension pointing to an extension).
type shpRawSub struct {
	data []byte
	ext  int
}

type shpRawLookup struct {
	tp, flags, set uint16
	subs           []shpRawSub
}

func shpPut16(b []byte, x int) []byte { return append(b, byte(x>>8), byte(x)) }
func shpPut32(b []byte, x int) []byte {
	return append(b, byte(x>>24), byte(x>>16), byte(x>>8), byte(x))
}

// shpBuildGtab lays out a GSUB/GPOS table: header, script list, feature list, lookup list with
// the lookup tables, their extension records and direct subtables, then the far subtables.
func shpBuildGtab(extType uint16, lookups []shpRawLookup) []byte {
	all := make([]gtab.LookupIndex, len(lookups))
	for i := range all {
		all[i] = gtab.LookupIndex(i)
	}
	scripts := gtab.VerifEncodeScriptList(map[language.Tag]*gtab.Features{language.MustParse("und-Zzzz"): {Required: 0}})
	features := gtab.VerifEncodeFeatureList([]*gtab.Feature{{Tag: "test", Lookups: all}})

	type fix struct{ at, recPos, target int } // 32-bit offset field at `at`, relative to recPos, of far item `target`
	var ll []byte
	ll = shpPut16(ll, len(lookups))
	offPos := len(ll)
	for range lookups {
		ll = shpPut16(ll, 0)
	}
	var far [][]byte
	var fixes []fix
	for i, l := range lookups {
		tpos := len(ll)
		ll[offPos+2*i], ll[offPos+2*i+1] = byte(tpos>>8), byte(tpos)
		tp := l.tp
		for _, s := range l.subs {
			if s.ext > 0 {
				tp = extType
			}
		}
		ll = shpPut16(ll, int(tp))
		ll = shpPut16(ll, int(l.flags))
		ll = shpPut16(ll, len(l.subs))
		subOff := len(ll)
		for range l.subs {
			ll = shpPut16(ll, 0)
		}
		if l.flags&uint16(gtab.UseMarkFilteringSet) != 0 {
			ll = shpPut16(ll, int(l.set))
		}
		for j, s := range l.subs {
			rel := len(ll) - tpos
			ll[subOff+2*j], ll[subOff+2*j+1] = byte(rel>>8), byte(rel)
			if s.ext == 0 {
				ll = append(ll, s.data...)
				continue
			}
			recPos := len(ll)
			ll = shpPut16(ll, 1)
			ll = shpPut16(ll, int(func() uint16 {
				if s.ext >= 2 {
					return extType
				}
				return l.tp
			}()))
			fixes = append(fixes, fix{at: len(ll), recPos: recPos, target: len(far)})
			ll = shpPut32(ll, 0)
			if s.ext >= 2 {
				// a second extension record in the far area, pointing to the data right behind it
				var rec []byte
				rec = shpPut16(rec, 1)
				rec = shpPut16(rec, int(l.tp))
				rec = shpPut32(rec, 8)
				far = append(far, append(rec, s.data...))
			} else {
				far = append(far, s.data)
			}
		}
	}
	farPos := make([]int, len(far))
	for i, f := range far {
		farPos[i] = len(ll)
		ll = append(ll, f...)
	}
	for _, f := range fixes {
		rel := farPos[f.target] - f.recPos
		ll[f.at], ll[f.at+1], ll[f.at+2], ll[f.at+3] = byte(rel>>24), byte(rel>>16), byte(rel>>8), byte(rel)
	}
	var out []byte
	out = append(out, 0, 1, 0, 0)
	out = shpPut16(out, 10)
	out = shpPut16(out, 10+len(scripts))
	out = shpPut16(out, 10+len(scripts)+len(features))
	out = append(out, scripts...)
	out = append(out, features...)
	return append(out, ll...)
}

// shpHasUnimpl: the list contains positioning data the library declares unimplemented.
func shpHasUnimpl(ll gtab.LookupList) bool {
	bad := func(p *gtab.PairAdjust) bool { return p != nil && (!shpValueOk(p.First) || !shpValueOk(p.Second)) }
	for _, l := range ll {
		if l == nil {
			continue
		}
		for _, s := range l.Subtables {
			switch s := s.(type) {
			case *gtab.Gpos1_1:
				if !shpValueOk(s.Adjust) {
					return true
				}
			case *gtab.Gpos1_2:
				for _, v := range s.Adjust {
					if !shpValueOk(v) {
						return true
					}
				}
			case gtab.Gpos2_1:
				for _, p := range s {
					if bad(p) {
						return true
					}
				}
			case *gtab.Gpos2_2:
				for _, row := range s.Adjust {
					for _, p := range row {
						if bad(p) {
							return true
						}
					}
				}
			}
		}
	}
	return false
}

func init() {
	// D (no panic on what the reader delivers, from the BYTES): gtab.Read of the table; a
	// rejected table is fine; an accepted one must consist of documented subtable types and
	// Context.Apply with all its lookups must not panic on the given glyph sequence (tables with
	// unimplemented positioning data are excluded by the property).  The driver prints "ok".
	ops["shape.readsafe"] = func(f Fields) string {
		info, err := gtab.Read(bytes.NewReader(f.Hex("file")), gtab.Type(f.Int("tp")))
		if err != nil || info == nil {
			return "ok"
		}
		if shpHasUnimpl(info.LookupList) {
			return "ok"
		}
		c := &shpCase{ll: info.LookupList}
		for i := range c.ll {
			c.lookups = append(c.lookups, gtab.LookupIndex(i))
		}
		if _, ok := shpEncode(c); !ok {
			return "undocumented-subtable-type-delivered"
		}
		var seq []glyph.Info
		for i, x := range f.Ints("seq") {
			seq = append(seq, glyph.Info{GID: glyph.ID(x), Text: []rune{rune(97 + i)}})
		}
		ctx := gtab.NewContext(c.ll, nil, c.lookups)
		for k := 0; k < 2; k++ {
			if _, ok := shpApply(ctx, seq); !ok {
				return "panic"
			}
		}
		return "ok"
	}
}

var shpExtGsubKinds = []int{11, 12, 21, 31, 41, 81, 51, 52, 53, 61, 62, 63}
var shpExtGposKinds = []int{101, 102, 103, 104, 105, 106, 107, 51, 52, 53, 61, 62, 63}

// extensionFamily emits family (b): for every target type one lookup list from hand-built bytes.
func (g *shpGen) extensionFamily() {
	r := g.r
	type job struct {
		gpos bool
		kind int
		mode int // 0: all subtables behind extension records, 1: mixed with a direct subtable, 2: extension -> extension, 3: no extension
	}
	var jobs []job
	for _, k := range shpExtGsubKinds {
		for mode := 0; mode < 4; mode++ {
			jobs = append(jobs, job{false, k, mode})
		}
	}
	for _, k := range shpExtGposKinds {
		for mode := 0; mode < 4; mode++ {
			jobs = append(jobs, job{true, k, mode})
		}
	}
	for _, j := range jobs {
		g.wild, g.reader, g.gpos = false, true, j.gpos
		g.nll = 3
		g.nsets = len(shpFamGdef.MarkGlyphSets)
		extType, tp := uint16(7), gtab.Type(gtab.TypeGsub)
		if j.gpos {
			extType, tp = 9, gtab.TypeGpos
		}
		var raw []shpRawLookup
		// lookup 0: the target type behind extension records; lookup 1: the same type, direct;
		// lookup 2: a simple lookup the nested actions can refer to
		for li := 0; li < 3; li++ {
			kind := j.kind
			if li == 2 {
				kind = 12
				if j.gpos {
					kind = 101
				}
			}
			l := shpRawLookup{}
			nsub := 1 + r.Intn(2)
			for s := 0; s < nsub; s++ {
				st, ltp := g.subtable(kind)
				if j.gpos && kind >= 51 && kind <= 63 {
					ltp += 2
				}
				l.tp = ltp
				sub := shpRawSub{data: gtab.VerifSubtableEncode(st)}
				if li == 0 {
					switch j.mode {
					case 0:
						sub.ext = 1
					case 1:
						sub.ext = s % 2
						if nsub == 1 {
							sub.ext = 1
						}
					case 2:
						sub.ext = 2
					}
				}
				l.subs = append(l.subs, sub)
			}
			if li == 0 && j.mode == 1 && nsub == 1 {
				// make it really mixed: add a direct copy of the subtable
				l.subs = append(l.subs, shpRawSub{data: l.subs[0].data})
			}
			fl, set := g.flags(g.nsets)
			l.flags, l.set = uint16(fl), set
			raw = append(raw, l)
		}
		g.reader = false
		data := shpBuildGtab(extType, raw)
		seq := g.sequence(12)
		gids := make([]int, len(seq))
		for i, x := range seq {
			gids[i] = int(x.GID)
		}
		modes := []string{"all behind extension records", "mixed extension / direct", "extension -> extension", "no extension"}
		g.c.Stat("obligation: extension lookups (mode)", modes[j.mode])
		g.c.Stat("obligation: extension lookups (target kind)", fmt.Sprintf("%d gpos=%v", j.kind, j.gpos))
		tpn := 1
		if j.gpos {
			tpn = 2
		}
		out := g.c.Case(Direct, "shape.readsafe", fmt.Sprintf("tp=%d seq=%s file=%s", tpn, ints(gids), hx(data)), true)
		info, err := gtab.Read(bytes.NewReader(data), tp)
		if err != nil {
			g.c.Stat("reader (hand-built bytes)", "rejected: "+modes[j.mode])
			continue
		}
		g.c.Stat("reader (hand-built bytes)", "read: "+modes[j.mode]+" -> "+out)
		sc := &shpCase{ll: info.LookupList, gd: shpFamGdef, hist: [][]glyph.Info{seq, g.sequence(8)}}
		for i := range sc.ll {
			sc.lookups = append(sc.lookups, gtab.LookupIndex(i))
		}
		g.emit(sc, "gtab.Read (hand-built bytes with extension lookups)")
	}
	g.gpos = false
}

// ================================================================ families added after the round-3 seeds, part 2
//
// (d) TWO nested lookups with the same flags word (UseMarkFilteringSet) and different mark
//     filtering sets, triggered by different sequences of one history in both orders (a filter
//     cached per Context under the flags word alone makes the second call depend on the first);
// (e) subtables whose count field disagrees with the size of the coverage table next to it
//     (count < |coverage|, count > |coverage|), read from bytes and applied to sequences that hit
//     the LAST covered glyphs: the reader has to establish `readerShapedLL` (cov.Prune).

const shpKeepCacheCount = 6 * 4 * 2

func shpKeepCacheCase(idx int) (*shpCase, string) {
	pf := shpTrailingFormats[idx%6]
	idx /= 6
	pairs := [][2]uint16{{0, 1}, {1, 0}, {2, 1}, {0, 3}}
	pair := pairs[idx%4]
	idx /= 4
	reverse := idx%2 == 1
	si, sj := shpFamGdef.MarkGlyphSets[pair[0]], shpFamGdef.MarkGlyphSets[pair[1]]
	var onlyI, onlyJ glyph.ID
	for _, m := range []glyph.ID{fM1, fM2, fM3} {
		if si[m] && !sj[m] && onlyI == 0 {
			onlyI = m
		}
		if sj[m] && !si[m] && onlyJ == 0 {
			onlyJ = m
		}
	}
	fl := gtab.LookupFlags(gtab.UseMarkFilteringSet)
	// rule for A: "A onlyJ C" runs lookup 1 (set i skips onlyJ: A+C -> ligature 7)
	// rule for B: "B onlyI C" runs lookup 2 (set j skips onlyI: B+C -> ligature 8)
	ruleA, tp := shpMkContext(pf, []glyph.ID{fA, onlyJ, fC}, []gtab.SeqLookup{{SequenceIndex: 0, LookupListIndex: 1}})
	ruleB, _ := shpMkContext(pf, []glyph.ID{fB, onlyI, fC}, []gtab.SeqLookup{{SequenceIndex: 0, LookupListIndex: 2}})
	ll := gtab.LookupList{
		shpFamLookup(tp, 0, 0, ruleA, ruleB),
		shpFamLookup(4, fl, pair[0], &gtab.Gsub4_1{Cov: coverage.Table{fA: 0}, Repl: [][]gtab.Ligature{{{In: []glyph.ID{fC}, Out: 7}}}}),
		shpFamLookup(4, fl, pair[1], &gtab.Gsub4_1{Cov: coverage.Table{fB: 0}, Repl: [][]gtab.Ligature{{{In: []glyph.ID{fC}, Out: 8}}}}),
	}
	sa := shpFamSeq(fA, onlyJ, fC)
	sb := shpFamSeq(fB, onlyI, fC)
	both := shpFamSeq(fA, onlyJ, fC, fB, onlyI, fC)
	hist := [][]glyph.Info{sa, sb, both}
	if reverse {
		hist = [][]glyph.Info{sb, sa, shpFamSeq(fB, onlyI, fC, fA, onlyJ, fC)}
	}
	c := &shpCase{ll: ll, gd: shpFamGdef, lookups: []gtab.LookupIndex{0}, hist: hist}
	return c, fmt.Sprintf("parent %d sets %d/%d reverse=%v", pf, pair[0], pair[1], reverse)
}

// shpRankCov: coverage table of the glyphs with indices in glyph order (as in a font file).
func shpRankCov(gl []glyph.ID) coverage.Table {
	s := append([]glyph.ID(nil), gl...)
	sort.Slice(s, func(i, j int) bool { return s[i] < s[j] })
	c := coverage.Table{}
	for i, x := range s {
		c[x] = i
	}
	return c
}

// countMismatchFamily emits family (e).
func (g *shpGen) countMismatchFamily() {
	r := g.r
	bases := []glyph.ID{1, 2, 3, 4, 5}
	marks := []glyph.ID{10, 11, 12, 13}
	kinds := []struct {
		kind  int
		which int // for the mark attachment subtables: 0 = first coverage, 1 = second coverage
		gpos  bool
	}{{12, 0, false}, {21, 0, false}, {31, 0, false}, {41, 0, false}, {51, 0, false}, {52, 0, false}, {61, 0, false}, {62, 0, false},
		{102, 0, true}, {103, 0, true}, {105, 0, true}, {106, 0, true}, {106, 1, true}, {107, 0, true}, {107, 1, true}, {51, 0, true}}
	for _, kd := range kinds {
		for _, delta := range []int{-1, 1, 2} {
			for _, k := range []int{1, 2, 3} {
				if k+delta < 1 {
					continue
				}
				// `k` entries in the arrays, `k+delta` glyphs in the coverage table
				covOf := func(pool []glyph.ID, n int) (coverage.Table, []glyph.ID) {
					gl := append([]glyph.ID(nil), pool[:n]...)
					return shpRankCov(gl), gl
				}
				vr := func() *gtab.GposValueRecord { return &gtab.GposValueRecord{XAdvance: funit.Int16(r.Range(1, 90))} }
				anch := func() anchor.Table {
					return anchor.Table{X: funit.Int16(r.Range(1, 300)), Y: funit.Int16(r.Range(1, 300))}
				}
				acts := []gtab.SeqLookup{{SequenceIndex: 0, LookupListIndex: 1}}
				var st gtab.Subtable
				var tp uint16
				var hit []glyph.ID // glyphs the sequences should contain
				var patch func(b []byte) []byte
				switch kd.kind {
				case 12:
					cov, gl := covOf(bases, k+delta)
					st, tp, hit = &gtab.Gsub1_2{Cov: cov, SubstituteGlyphIDs: make([]glyph.ID, k)}, 1, gl
					for i := range st.(*gtab.Gsub1_2).SubstituteGlyphIDs {
						st.(*gtab.Gsub1_2).SubstituteGlyphIDs[i] = glyph.ID(14 + i)
					}
				case 21:
					cov, gl := covOf(bases, k+delta)
					s := &gtab.Gsub2_1{Cov: cov}
					for i := 0; i < k; i++ {
						s.Repl = append(s.Repl, []glyph.ID{glyph.ID(14 + i), 15})
					}
					st, tp, hit = s, 2, gl
				case 31:
					cov, gl := covOf(bases, k+delta)
					s := &gtab.Gsub3_1{Cov: cov}
					for i := 0; i < k; i++ {
						s.Alternates = append(s.Alternates, []glyph.ID{glyph.ID(14 + i)})
					}
					st, tp, hit = s, 3, gl
				case 41:
					cov, gl := covOf(bases, k+delta)
					s := &gtab.Gsub4_1{Cov: cov}
					for i := 0; i < k; i++ {
						s.Repl = append(s.Repl, []gtab.Ligature{{In: []glyph.ID{gl[0]}, Out: 7}, {In: nil, Out: 8}})
					}
					st, tp, hit = s, 4, gl
				case 51:
					cov, gl := covOf(bases, k+delta)
					s := &gtab.SeqContext1{Cov: cov}
					for i := 0; i < k; i++ {
						s.Rules = append(s.Rules, []*gtab.SeqRule{{Input: nil, Actions: acts}})
					}
					st, tp, hit = s, 5, gl
				case 52:
					// the rule sets are indexed by class: classes up to k+delta-1, k rule sets
					cov, gl := covOf(bases, k+delta)
					cd := classdef.Table{}
					for i, x := range gl {
						cd[x] = uint16(i)
					}
					s := &gtab.SeqContext2{Cov: cov, Input: cd}
					for i := 0; i < k; i++ {
						s.Rules = append(s.Rules, []*gtab.ClassSeqRule{{Input: nil, Actions: acts}})
					}
					st, tp, hit = s, 5, gl
				case 61:
					cov, gl := covOf(bases, k+delta)
					s := &gtab.ChainedSeqContext1{Cov: cov}
					for i := 0; i < k; i++ {
						s.Rules = append(s.Rules, []*gtab.ChainedSeqRule{{Actions: acts}})
					}
					st, tp, hit = s, 6, gl
				case 62:
					cov, gl := covOf(bases, k+delta)
					cd := classdef.Table{}
					for i, x := range gl {
						cd[x] = uint16(i)
					}
					s := &gtab.ChainedSeqContext2{Cov: cov, Backtrack: cd, Input: cd, Lookahead: cd}
					for i := 0; i < k; i++ {
						s.Rules = append(s.Rules, []*gtab.ChainedClassSeqRule{{Actions: acts}})
					}
					st, tp, hit = s, 6, gl
				case 102:
					cov, gl := covOf(bases, k+delta)
					s := &gtab.Gpos1_2{Cov: cov}
					for i := 0; i < k; i++ {
						s.Adjust = append(s.Adjust, vr())
					}
					st, tp, hit = s, 1, gl
				case 103:
					// consistent pair table over max(k, k+delta) first glyphs; the pair set count is patched to k
					n := k + delta
					if k > n {
						n = k
					}
					s := gtab.Gpos2_1{}
					for _, x := range bases[:n] {
						s[glyph.Pair{Left: x, Right: 1}] = &gtab.PairAdjust{First: vr()}
					}
					if k != n {
						patch = func(b []byte) []byte { b[8], b[9] = byte(k>>8), byte(k); return b }
					} else {
						kk := k + delta
						patch = func(b []byte) []byte { b[8], b[9] = byte(kk>>8), byte(kk); return b }
					}
					st, tp, hit = s, 2, bases[:n]
				case 105:
					cov, gl := covOf(bases, k+delta)
					s := &gtab.Gpos3_1{Cov: cov}
					for i := 0; i < k; i++ {
						s.Records = append(s.Records, gtab.EntryExitRecord{Entry: anch(), Exit: anch()})
					}
					st, tp, hit = s, 3, gl
				case 106, 107:
					nm, nb := k, k
					if kd.which == 0 {
						nm = k + delta
					} else {
						nb = k + delta
					}
					pool2 := bases
					if kd.kind == 107 {
						pool2 = []glyph.ID{11, 12, 13, 10} // mark-to-mark: both coverages hold marks
					}
					mcov, mgl := covOf(marks, min(nm, 4))
					bcov, bgl := covOf(pool2, min(nb, 4))
					var marr []markarray.Record
					for i := 0; i < k; i++ {
						marr = append(marr, markarray.Record{Class: 0, Table: anch()})
					}
					var rows [][]anchor.Table
					for i := 0; i < k; i++ {
						rows = append(rows, []anchor.Table{anch()})
					}
					if kd.kind == 106 {
						st, tp = &gtab.Gpos4_1{MarkCov: mcov, BaseCov: bcov, MarkArray: marr, BaseArray: rows}, 4
					} else {
						st, tp = &gtab.Gpos6_1{Mark1Cov: mcov, Mark2Cov: bcov, Mark1Array: marr, Mark2Array: rows}, 6
					}
					hit = append(append([]glyph.ID(nil), bgl...), mgl...)
				}
				if kd.gpos && kd.kind >= 51 && kd.kind <= 63 {
					tp += 2
				}
				what := fmt.Sprintf("kind %d/%d gpos=%v: %d entries, %d covered", kd.kind, kd.which, kd.gpos, k, k+delta)
				data, ok := func() (b []byte, ok bool) {
					defer func() {
						if recover() != nil {
							b, ok = nil, false
						}
					}()
					return gtab.VerifSubtableEncode(st), true
				}()
				if !ok {
					g.c.Stat("obligation: count field vs coverage size", "encoder refuses: "+what[:12])
					continue
				}
				if patch != nil {
					data = patch(data)
				}
				// lookup 1: what the nested actions of the contextual members run
				var second gtab.Subtable = &gtab.Gsub1_1{Cov: coverage.Set{1: true, 2: true, 3: true, 4: true, 5: true}, Delta: 13}
				extType, rtp, tpn := uint16(7), gtab.Type(gtab.TypeGsub), 1
				if kd.gpos {
					second = &gtab.Gpos1_1{Cov: coverage.Table{1: 0, 2: 1, 3: 2, 4: 3, 5: 4}, Adjust: vr()}
					extType, rtp, tpn = 9, gtab.TypeGpos, 2
				}
				raw := []shpRawLookup{{tp: tp, subs: []shpRawSub{{data: data}}}, {tp: 1, subs: []shpRawSub{{data: gtab.VerifSubtableEncode(second)}}}}
				if r.Bool() {
					raw[0].subs[0].ext = 1 // the same through an extension record
				}
				table := shpBuildGtab(extType, raw)
				// every ordered pair of the interesting glyphs, the LAST covered ones first
				pool := append([]glyph.ID(nil), hit...)
				for i, j := 0, len(pool)-1; i < j; i, j = i+1, j-1 {
					pool[i], pool[j] = pool[j], pool[i]
				}
				pool = append(pool, 6)
				var gids []int
				var seq []glyph.Info
				for _, y := range pool {
					for _, x := range pool {
						gids = append(gids, int(y), int(x))
					}
				}
				for i, x := range gids {
					seq = append(seq, glyph.Info{GID: glyph.ID(x), Text: []rune{rune(97 + i%26)}, Advance: funit.Int16(10 * (i % 7))})
				}
				out := g.c.Case(Direct, "shape.readsafe", fmt.Sprintf("tp=%d seq=%s file=%s", tpn, ints(gids), hx(table)), true)
				info, err := gtab.Read(bytes.NewReader(table), rtp)
				if err != nil {
					g.c.Stat("obligation: count field vs coverage size", "rejected by the reader: "+what)
					continue
				}
				g.c.Stat("obligation: count field vs coverage size", "read ("+out+"): "+what)
				sc := &shpCase{ll: info.LookupList, gd: shpFamGdef, lookups: []gtab.LookupIndex{0}, hist: [][]glyph.Info{seq}}
				g.emit(sc, "gtab.Read (count field vs coverage size)")
			}
		}
	}
}

// ================================================================ Layouter level (round 8)
//
// sfnt.Layouter.Layout = cmap lookup, GSUB, advance widths from Font.GlyphWidth, GPOS.  The glyph
// IDs that cmap or GSUB deliver need not exist in the font: Layout must not panic, conserve the
// text, and give a glyph beyond the font the advance 0 (GlyphWidth's out-of-range result).
//
//   D shape.layout kind=cff|glyf via=gsub|cmap ng=<NumGlyphs> target=<gid> w=<width of target or 0>
//   Go: builds the font, lays out "BAB" and prints `ok gid=<gid of the middle glyph> adv=<its advance> text=kept`;
//   driver: `ok gid=<target> adv=<w if target < ng else 0> text=kept`.

func shpLayoutFont(kind string) *sfnt.Font {
	font := debug.MakeSimpleFont() // CFF outlines
	if kind == "glyf" {
		cffo := font.Outlines.(*cff.Outlines)
		o := &glyf.Outlines{Glyphs: make(glyf.Glyphs, len(cffo.Glyphs)), Widths: make([]funit.Int16, len(cffo.Glyphs))}
		for i, g := range cffo.Glyphs {
			o.Widths[i] = funit.Int16(g.Width)
		}
		font.Outlines = o
	}
	return font
}

func shpLayoutRun(f Fields) string {
	font := shpLayoutFont(f["kind"])
	target := glyph.ID(f.Int("target"))
	best, err := font.CMapTable.GetBest()
	if err != nil {
		return "err:cmap"
	}
	gidA, gidB := best.Lookup('A'), best.Lookup('B')
	if f["via"] == "cmap" {
		cm := cmap.Format4{'A': target, 'B': gidB}
		font.CMapTable = cmap.Table{{PlatformID: 3, EncodingID: 1}: cm.Encode(0)}
	} else {
		font.Gsub = &gtab.Info{
			ScriptList:  map[language.Tag]*gtab.Features{language.MustParse("und-Zzzz"): {Required: 0}},
			FeatureList: []*gtab.Feature{{Tag: "test", Lookups: []gtab.LookupIndex{0}}},
			LookupList: gtab.LookupList{{Meta: &gtab.LookupMetaInfo{LookupType: 1},
				Subtables: []gtab.Subtable{&gtab.Gsub1_1{Cov: coverage.Set{gidA: true}, Delta: target - gidA}}}},
		}
	}
	layouter, err := font.NewLayouter(language.Und, map[string]bool{"test": true}, nil)
	if err != nil {
		return "err:layouter"
	}
	out := layouter.Layout("BAB")
	var text []rune
	for _, g := range out {
		text = append(text, g.Text...)
	}
	kept := "kept"
	if string(text) != "BAB" {
		kept = "lost"
	}
	if len(out) != 3 {
		return fmt.Sprintf("ok len=%d text=%s", len(out), kept)
	}
	return fmt.Sprintf("ok gid=%d adv=%d text=%s", out[1].GID, out[1].Advance, kept)
}

func init() {
	ops["shape.layout"] = shpLayoutRun
}

// layoutFamily: CFF and glyf fonts x glyph IDs NumGlyphs-1, NumGlyphs, NumGlyphs+1, 0xFFFF (and
// two inside the font) x delivered by a GSUB substitution or by the cmap.
func (g *shpGen) layoutFamily() {
	for _, kind := range []string{"cff", "glyf"} {
		ng, widths := func() (ng int, w []int) {
			defer func() {
				if recover() != nil {
					ng, w = -1, nil
				}
			}()
			font := shpLayoutFont(kind)
			ng = font.NumGlyphs()
			for i := 0; i < ng; i++ {
				switch o := font.Outlines.(type) {
				case *cff.Outlines:
					w = append(w, int(funit.Int16(o.Glyphs[i].Width)))
				case *glyf.Outlines:
					w = append(w, int(o.Widths[i]))
				}
			}
			return ng, w
		}()
		if ng < 4 {
			g.c.Stat("obligation: Layouter with glyph IDs around NumGlyphs", "font maker failed: "+kind)
			continue
		}
		for _, via := range []string{"gsub", "cmap"} {
			for _, target := range []int{1, ng / 2, ng - 1, ng, ng + 1, ng + 2, 0xFFFF} {
				w := 0
				if target < ng {
					w = widths[target]
				}
				g.c.Case(Direct, "shape.layout", fmt.Sprintf("kind=%s via=%s ng=%d target=%d w=%d", kind, via, ng, target, w), true)
				what := "inside the font"
				switch {
				case target == ng-1:
					what = "NumGlyphs-1"
				case target == ng:
					what = "NumGlyphs"
				case target == ng+1 || target == ng+2:
					what = "NumGlyphs+1, +2"
				case target == 0xFFFF:
					what = "0xFFFF"
				}
				g.c.Stat("obligation: Layouter with glyph IDs around NumGlyphs", kind+" via "+via+": "+what)
			}
		}
	}
}

// ---------------------------------------------------------------- Layouter histories (round 9)
//
//   D shape.layoutseq kind=cff|glyf gpos=11|12|4 dx= dy= da= texts=<t1>/<t2>/...
//   Go: ONE Layouter lays out the texts in turn; every result (GID, Text, XOffset, YOffset, Advance of
//   every glyph) must equal what a FRESH Layouter returns for the same text: `same` or `differs@k`;
//   the driver prints `same`.  The GPOS lookups write PLACEMENT offsets (value records with
//   XPlacement/YPlacement, or a mark attachment), which an engine re-using its buffer could leak.

func shpLayoutSeqFont(f Fields) *sfnt.Font {
	font := shpLayoutFont(f["kind"])
	best, err := font.CMapTable.GetBest()
	if err != nil {
		panic(err)
	}
	gidA, gidB, gidM := best.Lookup('A'), best.Lookup('B'), best.Lookup('M')
	dx, dy, da := funit.Int16(f.Int("dx")-1000), funit.Int16(f.Int("dy")-1000), funit.Int16(f.Int("da")-1000)
	var st gtab.Subtable
	tp := uint16(1)
	switch f["gpos"] {
	case "11":
		st = &gtab.Gpos1_1{Cov: coverage.Table{gidA: 0}, Adjust: &gtab.GposValueRecord{XPlacement: dx, YPlacement: dy, XAdvance: da}}
	case "12":
		cov := coverage.Table{gidA: 0, gidB: 1}
		if gidB < gidA {
			cov = coverage.Table{gidB: 0, gidA: 1}
		}
		adj := make([]*gtab.GposValueRecord, 2)
		adj[cov[gidA]] = &gtab.GposValueRecord{XPlacement: dx, YPlacement: dy}
		adj[cov[gidB]] = &gtab.GposValueRecord{XAdvance: da}
		st = &gtab.Gpos1_2{Cov: cov, Adjust: adj}
	default: // mark M attached to the base A
		tp = 4
		font.Gdef = &gdef.Table{GlyphClass: classdef.Table{gidM: gdef.GlyphClassMark, gidA: gdef.GlyphClassBase}}
		st = &gtab.Gpos4_1{MarkCov: coverage.Table{gidM: 0}, BaseCov: coverage.Table{gidA: 0},
			MarkArray: []markarray.Record{{Class: 0, Table: anchor.Table{X: 10, Y: 20}}},
			BaseArray: [][]anchor.Table{{{X: 300 + dx, Y: 400 + dy}}}}
	}
	font.Gpos = &gtab.Info{
		ScriptList:  map[language.Tag]*gtab.Features{language.MustParse("und-Zzzz"): {Required: 0}},
		FeatureList: []*gtab.Feature{{Tag: "kern", Lookups: []gtab.LookupIndex{0}}},
		LookupList:  gtab.LookupList{{Meta: &gtab.LookupMetaInfo{LookupType: tp}, Subtables: []gtab.Subtable{st}}},
	}
	return font
}

func shpShowLayout(seq []glyph.Info) string {
	var sb strings.Builder
	for _, g := range seq {
		fmt.Fprintf(&sb, "%d/%s/%d/%d/%d,", g.GID, string(g.Text), g.XOffset, g.YOffset, g.Advance)
	}
	return sb.String()
}

func init() {
	ops["shape.layoutseq"] = func(f Fields) string {
		mk := func() *sfnt.Layouter {
			l, err := shpLayoutSeqFont(f).NewLayouter(language.Und, nil, map[string]bool{"kern": true})
			if err != nil {
				panic(err)
			}
			return l
		}
		used := mk()
		for k, t := range strings.Split(f["texts"], "/") {
			got := shpShowLayout(used.Layout(t))
			want := shpShowLayout(mk().Layout(t))
			if got != want {
				return fmt.Sprintf("differs@%d", k)
			}
		}
		return "same"
	}
}

func (g *shpGen) layoutSeqFamily() {
	r := g.r
	fixed := [][]string{{"AAA", "B"}, {"AM", "BB"}, {"ABAB", "BABA", "B"}, {"MAMA", "AB", "M", "BBBB"}, {"A", "AAAA", "BB"}}
	for _, kind := range []string{"cff", "glyf"} {
		for _, gp := range []string{"11", "12", "4"} {
			for i := 0; i < 6; i++ {
				var texts []string
				if i < len(fixed) {
					texts = fixed[i]
				} else {
					for k, n := 0, r.Range(2, 4); k < n; k++ {
						t := ""
						for j, m := 0, r.Range(1, 5); j < m; j++ {
							t += Pick(r, []string{"A", "A", "B", "M", "C"})
						}
						texts = append(texts, t)
					}
				}
				dx, dy, da := 1000+Pick(r, []int{50, -40, 7}), 1000+Pick(r, []int{30, -25, 0}), 1000+Pick(r, []int{0, 15, -20})
				g.c.Case(Direct, "shape.layoutseq", fmt.Sprintf("kind=%s gpos=%s dx=%d dy=%d da=%d texts=%s", kind, gp, dx, dy, da, strings.Join(texts, "/")), true)
				g.c.Stat("obligation: histories on one Layouter with GPOS placement offsets", kind+" GPOS "+gp)
			}
		}
	}
}

// ---------------------------------------------------------------- round 10: input positions between ligature components
//
// A contextual rule WITHOUT ignore flags whose input contains marks; its first nested action is a
// ligature lookup WITH IgnoreMarks of 3-4 components, so that stored input positions of the
// enclosing match lie BETWEEN merged components (fixStackMerge must shift them); the second
// action addresses every index of the post-merge match (and one beyond).

var shpBetweenPatterns = [][]glyph.ID{
	{fA, fB, fM1, fC},
	{fA, fB, fC, fM1, fD},
	{fA, fB, fM1, fC, fM2, fD},
	{fA, fM1, fB, fM2, fC},
}

func shpBetweenCount() int {
	n := 0
	for _, p := range shpBetweenPatterns {
		marks := 0
		for _, x := range p {
			if x >= fM1 && x <= fM3 {
				marks++
			}
		}
		n += 6 * (marks + 3)
	}
	return n
}

func shpBetweenCase(idx int) (*shpCase, string) {
	for _, p := range shpBetweenPatterns {
		var comps, marks []glyph.ID
		for _, x := range p {
			if x >= fM1 && x <= fM3 {
				marks = append(marks, x)
			} else {
				comps = append(comps, x)
			}
		}
		per := 6 * (len(marks) + 3)
		if idx >= per {
			idx -= per
			continue
		}
		pf := shpTrailingFormats[idx%6]
		k := idx / 6 // sequence index of the second action: 0 .. #marks+2 (the last two are beyond the match)
		acts := []gtab.SeqLookup{{SequenceIndex: 0, LookupListIndex: 1}, {SequenceIndex: uint16(k), LookupListIndex: 2}}
		parent, tp := shpMkContext(pf, p, acts)
		ll := gtab.LookupList{
			shpFamLookup(tp, 0, 0, parent),
			shpFamLookup(4, gtab.IgnoreMarks, 0, &gtab.Gsub4_1{Cov: coverage.Table{comps[0]: 0}, Repl: [][]gtab.Ligature{{{In: comps[1:], Out: fL}}}}),
			shpFamLookup(1, 0, 0, &gtab.Gsub1_2{Cov: coverage.Table{fL: 0, fM1: 1, fM2: 2}, SubstituteGlyphIDs: []glyph.ID{8, fM3, fM3}}),
		}
		with := append(append([]glyph.ID(nil), p...), fA)
		twice := append(append([]glyph.ID(nil), p...), p...)
		c := &shpCase{ll: ll, gd: shpFamGdef, lookups: []gtab.LookupIndex{0},
			hist: [][]glyph.Info{shpFamSeq(p...), shpFamSeq(with...), shpFamSeq(twice...)}}
		return c, fmt.Sprintf("parent %d, %d components, %d marks, second action at %d", pf, len(comps), len(marks), k)
	}
	panic("index out of range")
}
