package main

// C20 — generated glyph names: (*sfnt.Font).MakeGlyphNames / EnsureGlyphNames,
// (*cff.Outlines).MakeSimple, (*sfnt.Font).PostScriptName.

import (
	"bytes"
	"encoding/hex"
	"fmt"
	"sort"
	"strings"

	"seehuhn.de/go/geom/matrix"
	"seehuhn.de/go/postscript/cid"
	"seehuhn.de/go/postscript/type1"
	"seehuhn.de/go/postscript/type1/names"
	"seehuhn.de/go/sfnt"
	"seehuhn.de/go/sfnt/cff"
	"seehuhn.de/go/sfnt/cmap"
	"seehuhn.de/go/sfnt/glyf"
	"seehuhn.de/go/sfnt/glyph"
	"seehuhn.de/go/sfnt/mac"
	"seehuhn.de/go/sfnt/opentype/coverage"
	"seehuhn.de/go/sfnt/opentype/gtab"
	"seehuhn.de/go/sfnt/os2"
)

const gnRepeat = 60 // calls of MakeGlyphNames per case (map iteration order varies between calls)

func gnHexNames(l []string) string {
	p := make([]string, len(l))
	for i, s := range l {
		p[i] = hex.EncodeToString([]byte(s))
	}
	return strings.Join(p, ",")
}

func gnParseNames(cnt int, s string) []string {
	if cnt == 0 {
		return nil
	}
	p := strings.Split(s, ",")
	out := make([]string, len(p))
	for i, x := range p {
		out[i] = string(mustHex(x))
	}
	return out
}

func gnPairs(s, sep string) [][2]int {
	if s == "" {
		return nil
	}
	var out [][2]int
	for _, p := range strings.Split(s, ",") {
		var a, b int
		q := strings.Split(p, sep)
		fmt.Sscan(q[0], &a)
		fmt.Sscan(q[1], &b)
		out = append(out, [2]int{a, b})
	}
	return out
}

func gnInts(s string) []glyph.ID {
	if s == "" {
		return nil
	}
	var out []glyph.ID
	for _, p := range strings.Split(s, ",") {
		var a int
		fmt.Sscan(p, &a)
		out = append(out, glyph.ID(a))
	}
	return out
}

func gnCovTable(s string) coverage.Table {
	t := coverage.Table{}
	for _, p := range gnPairs(s, "-") {
		t[glyph.ID(p[0])] = p[1]
	}
	return t
}

func gnParseSub(s string) gtab.Subtable {
	f := strings.Split(s, ":")
	switch f[0] {
	case "s1":
		var d int
		fmt.Sscan(f[1], &d)
		cov := coverage.Set{}
		for _, g := range gnInts(f[2]) {
			cov[g] = true
		}
		return &gtab.Gsub1_1{Cov: cov, Delta: glyph.ID(d)}
	case "s2":
		return &gtab.Gsub1_2{Cov: gnCovTable(f[1]), SubstituteGlyphIDs: gnInts(f[2])}
	case "al":
		sets := strings.Split(f[2], "|")
		sets = sets[:len(sets)-1]
		alts := make([][]glyph.ID, len(sets))
		for i, x := range sets {
			alts[i] = gnInts(x)
		}
		return &gtab.Gsub3_1{Cov: gnCovTable(f[1]), Alternates: alts}
	case "lg":
		sets := strings.Split(f[2], "|")
		sets = sets[:len(sets)-1]
		repl := make([][]gtab.Ligature, len(sets))
		for i, x := range sets {
			if x == "" {
				continue
			}
			for _, l := range strings.Split(x, "/") {
				q := strings.Split(l, ">")
				var out int
				fmt.Sscan(q[1], &out)
				repl[i] = append(repl[i], gtab.Ligature{In: gnInts(q[0]), Out: glyph.ID(out)})
			}
		}
		return &gtab.Gsub4_1{Cov: gnCovTable(f[1]), Repl: repl}
	}
	return &gtab.Gsub2_1{Cov: coverage.Table{}, Repl: nil}
}

// gnFont rebuilds the font of a case line.  The second result names a problem of the case line
// itself (cmap encoder/decoder not reproducing the requested mapping, stale FromUnicode table).
func gnFont(f Fields) (*sfnt.Font, string) {
	n := f.Int("n")
	nms := gnParseNames(f.Int("nn"), f["names"])
	font := &sfnt.Font{}
	if f["kind"] == "cff" {
		o := &cff.Outlines{Private: []*type1.PrivateDict{{}}, FDSelect: func(glyph.ID) int { return 0 }}
		for _, nm := range nms {
			o.Glyphs = append(o.Glyphs, &cff.Glyph{Name: nm})
		}
		if f["cid"] == "1" {
			o.ROS = &cid.SystemInfo{Registry: "Adobe", Ordering: "Identity"}
			o.GIDToCID = make([]cid.CID, len(nms))
			for i := range o.GIDToCID {
				o.GIDToCID[i] = cid.CID(i)
			}
		}
		font.Outlines = o
	} else {
		font.Outlines = &glyf.Outlines{Glyphs: make(glyf.Glyphs, n), Names: nms}
	}
	if f["mac"] != "" && f["cmap"] != "-" {
		// the ONLY cmap subtable is the Macintosh one (platform 1, encoding 0); `cmap=` lists
		// MacRoman codes (< 256); the model translates them with the regenerated MacRoman table.
		// No round-trip check here: the decoding of this subtable is part of what is compared.
		var data []byte
		codes := gnPairs(f["cmap"], ":")
		switch f["mac"] {
		case "0":
			m := &cmap.Format0{}
			for _, p := range codes {
				m.Data[p[0]] = byte(p[1])
			}
			data = m.Encode(0)
		case "4":
			m := cmap.Format4{}
			for _, p := range codes {
				m[uint16(p[0])] = glyph.ID(p[1])
			}
			data = m.Encode(0)
		default: // format 6: trimmed table from the lowest to the highest code
			lo, hi := 256, 0
			byCode := map[int]int{}
			for _, p := range codes {
				byCode[p[0]] = p[1]
				lo, hi = min(lo, p[0]), max(hi, p[0])
			}
			if len(codes) == 0 {
				lo, hi = 0, -1
			}
			cnt := hi - lo + 1
			L := 10 + 2*cnt
			data = []byte{0, 6, byte(L >> 8), byte(L), 0, 0, byte(lo >> 8), byte(lo), byte(cnt >> 8), byte(cnt)}
			for c := lo; c <= hi; c++ {
				data = append(data, byte(byCode[c]>>8), byte(byCode[c]))
			}
		}
		font.CMapTable = cmap.Table{cmap.Key{PlatformID: 1, EncodingID: 0}: data}
		for _, t := range strings.Split(f["fu"], ",") {
			if t == "" {
				continue
			}
			q := strings.Split(t, ":")
			var c int
			fmt.Sscan(q[0], &c)
			if names.FromUnicode(string(rune(c))) != string(mustHex(q[1])) {
				return nil, "case:fu-stale"
			}
		}
	} else if f["cmap"] != "-" {
		want := map[int]int{}
		lo, hi, big := -1, 0, false
		for _, p := range gnPairs(f["cmap"], ":") {
			want[p[0]] = p[1]
			if lo < 0 || p[0] < lo {
				lo = p[0]
			}
			if p[0] > hi {
				hi = p[0]
			}
			if p[0] > 0xFFFF {
				big = true
			}
		}
		if lo < 0 {
			lo = 0
		}
		var data []byte
		key := cmap.Key{PlatformID: 3, EncodingID: 1}
		if big || f["cfmt"] == "12" {
			m := cmap.Format12{}
			for c, g := range want {
				m[uint32(c)] = glyph.ID(g)
			}
			data = m.Encode(0)
			key = cmap.Key{PlatformID: 3, EncodingID: 10}
		} else {
			m := cmap.Format4{}
			for c, g := range want {
				m[uint16(c)] = glyph.ID(g)
			}
			data = m.Encode(0)
		}
		font.CMapTable = cmap.Table{key: data}
		sub, err := font.CMapTable.GetBest()
		if err != nil {
			return nil, "case:cmap-undecodable"
		}
		a, b := sub.CodeRange()
		if int(a) != lo || int(b) != hi {
			return nil, "case:cmap-range"
		}
		for r := a; r <= b; r++ {
			if int(sub.Lookup(r)) != want[int(r)] {
				return nil, "case:cmap-roundtrip"
			}
		}
		for _, t := range strings.Split(f["fu"], ",") {
			if t == "" {
				continue
			}
			q := strings.Split(t, ":")
			var c int
			fmt.Sscan(q[0], &c)
			if names.FromUnicode(string(rune(c))) != string(mustHex(q[1])) {
				return nil, "case:fu-stale"
			}
		}
		for c := range want {
			if !strings.Contains(","+f["fu"], fmt.Sprintf(",%d:", c)) {
				return nil, "case:fu-missing"
			}
		}
	}
	if f["gsub"] != "" || f["gsubnil"] == "0" {
		info := &gtab.Info{}
		lt := &gtab.LookupTable{}
		if f["gsub"] != "" {
			for i, s := range strings.Split(f["gsub"], ";") {
				// spread the subtables over lookups: a new lookup whenever the type changes or i is even
				if i > 0 && i%2 == 0 {
					info.LookupList = append(info.LookupList, lt)
					lt = &gtab.LookupTable{}
				}
				lt.Subtables = append(lt.Subtables, gnParseSub(s))
			}
		}
		info.LookupList = append(info.LookupList, lt)
		font.Gsub = info
	}
	return font, ""
}

func gnInstalled(font *sfnt.Font) []string {
	out := make([]string, font.NumGlyphs())
	for i := range out {
		out[i] = font.GlyphName(glyph.ID(i))
	}
	return out
}

func gnCffNames(o *cff.Outlines) []string {
	out := make([]string, len(o.Glyphs))
	for i, g := range o.Glyphs {
		out[i] = g.Name
	}
	return out
}

// gnCffBuild rebuilds outlines and glyph text of a cffmake/cffstable case line.
func gnCffBuild(f Fields) (*cff.Outlines, map[glyph.ID]string, string) {
	nms := gnParseNames(f.Int("nn"), f["names"])
	o := &cff.Outlines{Private: []*type1.PrivateDict{{}}, FDSelect: func(glyph.ID) int { return 0 }}
	for _, nm := range nms {
		o.Glyphs = append(o.Glyphs, &cff.Glyph{Name: nm})
	}
	if f["cid"] == "1" {
		o.ROS = &cid.SystemInfo{Registry: "Adobe", Ordering: "Identity"}
		o.GIDToCID = make([]cid.CID, len(nms))
	}
	var text map[glyph.ID]string
	if f["textnil"] != "1" {
		text = map[glyph.ID]string{}
	}
	base := map[int]string{}
	for _, t := range strings.Split(f["text"], ",") {
		if t == "" {
			continue
		}
		q := strings.Split(t, ":")
		var g int
		fmt.Sscan(q[0], &g)
		base[g] = string(mustHex(q[1]))
	}
	for _, t := range strings.Split(f["rawtext"], ",") {
		if t == "" {
			continue
		}
		q := strings.Split(t, ":")
		var g int
		fmt.Sscan(q[0], &g)
		s := string(mustHex(q[1]))
		text[glyph.ID(g)] = s
		if names.FromUnicode(s) != base[g] {
			return nil, nil, "case:text-stale"
		}
	}
	if !names.IsValid(".notdef") || names.IsValid("") {
		// hypothesis of C20_makesimple_kept, and the convention for the empty name
		return nil, nil, "case:isvalid-assumption"
	}
	for _, x := range gnParseNames(len(f["invalid"]), f["invalid"]) {
		if names.IsValid(x) {
			return nil, nil, "case:invalid-stale"
		}
	}
	return o, text, ""
}

func init() {
	areas["gnames"] = areaGNames
	ops["gnames.make"] = func(f Fields) string {
		font, bad := gnFont(f)
		if bad != "" {
			return bad
		}
		set := map[string]bool{}
		for i := 0; i < gnRepeat; i++ {
			set[canonPanic(guard(func() string { return gnHexNames(font.MakeGlyphNames()) }))] = true
		}
		var l []string
		for k := range set {
			l = append(l, k)
		}
		sort.Strings(l)
		return strings.Join(l, "|")
	}
	ops["gnames.ensure"] = func(f Fields) string {
		font, bad := gnFont(f)
		if bad != "" {
			return bad
		}
		return canonPanic(guard(func() string {
			font.EnsureGlyphNames()
			a := gnInstalled(font)
			b := font.MakeGlyphNames()
			return gnHexNames(a) + ";" + gnHexNames(b)
		}))
	}
	ops["gnames.cffmake"] = func(f Fields) string {
		o, text, bad := gnCffBuild(f)
		if bad != "" {
			return bad
		}
		return canonPanic(guard(func() string {
			o.MakeSimple(text)
			return gnHexNames(gnCffNames(o))
		}))
	}
	// direct check on the real MakeSimple: every name is a valid glyph name (names.IsValid), names
	// are pairwise distinct, glyph 0 is .notdef, and converting again (with no text, and with the
	// same text) leaves every name as it is
	ops["gnames.cffstable"] = func(f Fields) string {
		o, text, bad := gnCffBuild(f)
		if bad != "" {
			return bad
		}
		return canonPanic(guard(func() string {
			o.MakeSimple(text)
			first := gnCffNames(o)
			seen := map[string]int{}
			for i, nm := range first {
				if !names.IsValid(nm) {
					return fmt.Sprintf("invalid-name:glyph=%d:len=%d:%x", i, len(nm), nm)
				}
				if j, dup := seen[nm]; dup {
					return fmt.Sprintf("duplicate:glyphs=%d,%d:%x", j, i, nm)
				}
				seen[nm] = i
			}
			if first[0] != ".notdef" {
				return fmt.Sprintf("glyph0:%x", first[0])
			}
			o.MakeSimple(nil)
			for i, nm := range gnCffNames(o) {
				if nm != first[i] {
					return fmt.Sprintf("unstable(nil):glyph=%d:%x:%x", i, first[i], nm)
				}
			}
			o.MakeSimple(text)
			for i, nm := range gnCffNames(o) {
				if nm != first[i] {
					return fmt.Sprintf("unstable(text):glyph=%d:%x:%x", i, first[i], nm)
				}
			}
			return "ok"
		}))
	}
	ops["gnames.psname"] = func(f Fields) string {
		font := &sfnt.Font{FamilyName: string(mustHex(f["family"])), Width: os2.Width(f.Int("width")),
			Weight: os2.Weight(f.Int("weight")), IsBold: f["bold"] == "1", IsItalic: f["italic"] == "1",
			IsOblique: f["oblique"] == "1"}
		return canonPanic(guard(func() string {
			if font.Subfamily() != string(mustHex(f["sub"])) {
				return "case:sub-stale"
			}
			return hex.EncodeToString([]byte(font.PostScriptName()))
		}))
	}
	ops["gnames.pschars"] = func(f Fields) string {
		font := gnPsFont(f)
		return canonPanic(guard(func() string {
			name := font.PostScriptName()
			for i := 0; i < len(name); i++ {
				ch := name[i]
				if ch < 33 || ch > 126 || strings.IndexByte("[](){}<>/%", ch) >= 0 {
					return fmt.Sprintf("bad-char:%02x@%d:%s", ch, i, hex.EncodeToString([]byte(name)))
				}
			}
			return "ok"
		}))
	}
	// direct check on the real code: EnsureGlyphNames installs exactly the names MakeGlyphNames
	// returns, they are non-empty, pairwise distinct, glyph 0 is .notdef, and (simple CFF outlines)
	// the written CFF font reads back with the same names
	ops["gnames.readback"] = func(f Fields) string {
		font, bad := gnFont(f)
		if bad != "" {
			return bad
		}
		return canonPanic(guard(func() string {
			want := font.MakeGlyphNames()
			font.EnsureGlyphNames()
			got := gnInstalled(font)
			seen := map[string]int{}
			for i, nm := range got {
				if nm == "" {
					return fmt.Sprintf("empty-name:glyph=%d", i)
				}
				if i < len(want) && nm != want[i] {
					return fmt.Sprintf("installed-differs:glyph=%d:%x:%x", i, nm, want[i])
				}
				if j, dup := seen[nm]; dup {
					return fmt.Sprintf("duplicate:glyphs=%d,%d:%x", j, i, nm)
				}
				seen[nm] = i
			}
			if len(got) != len(want) {
				return "length-differs"
			}
			if got[0] != ".notdef" {
				return fmt.Sprintf("glyph0:%x", got[0])
			}
			o, ok := font.Outlines.(*cff.Outlines)
			if !ok || o.ROS != nil {
				return "ok"
			}
			for _, g := range o.Glyphs {
				if len(g.Name) > 60 {
					return "ok" // beyond what this check is about
				}
			}
			o.Encoding = cff.StandardEncoding(o.Glyphs)
			cf := &cff.Font{FontInfo: &type1.FontInfo{FontName: "Test", FontMatrix: matrix.Matrix{0.001, 0, 0, 0.001, 0, 0}}, Outlines: o}
			var buf bytes.Buffer
			if err := cf.Write(&buf); err != nil {
				return "ok" // not writable for a reason unrelated to names is outside this check
			}
			back, err := cff.Read(bytes.NewReader(buf.Bytes()))
			if err != nil {
				return "reread-error"
			}
			if len(back.Glyphs) != len(got) {
				return "reread-count"
			}
			for i, g := range back.Glyphs {
				if g.Name != got[i] {
					return fmt.Sprintf("reread-differs:glyph=%d:%x:%x", i, g.Name, got[i])
				}
			}
			return "ok"
		}))
	}
	// direct check on the real code: asking again returns the same names — 30 calls of
	// MakeGlyphNames on the same font, and EnsureGlyphNames on 10 freshly built copies
	ops["gnames.stable"] = func(f Fields) string {
		font, bad := gnFont(f)
		if bad != "" {
			return bad
		}
		return canonPanic(guard(func() string {
			first := gnHexNames(font.MakeGlyphNames())
			for k := 1; k < 30; k++ {
				if again := gnHexNames(font.MakeGlyphNames()); again != first {
					return fmt.Sprintf("differs:call=%d:%s:%s", k, first, again)
				}
			}
			for k := 0; k < 10; k++ {
				fresh, _ := gnFont(f)
				fresh.EnsureGlyphNames()
				if inst := gnHexNames(gnInstalled(fresh)); inst != first {
					return fmt.Sprintf("installed-differs:copy=%d:%s:%s", k, first, inst)
				}
			}
			return "ok"
		}))
	}
	// direct check on the real code: MakeGlyphNames is a pure query whose result is independent of
	// the font — the font's own names are the same before and after the call, and scribbling over
	// the returned list changes neither GlyphName nor a second MakeGlyphNames
	ops["gnames.pure"] = func(f Fields) string {
		font, bad := gnFont(f)
		if bad != "" {
			return bad
		}
		return canonPanic(guard(func() string {
			snapshot := func() string {
				switch o := font.Outlines.(type) {
				case *glyf.Outlines:
					if o.Names == nil {
						return "nil"
					}
					return fmt.Sprintf("%d:", len(o.Names)) + gnHexNames(append([]string(nil), o.Names...))
				case *cff.Outlines:
					return gnHexNames(gnCffNames(o))
				}
				return "?"
			}
			before := snapshot()
			first := font.MakeGlyphNames()
			want := gnHexNames(first)
			if after := snapshot(); after != before {
				return fmt.Sprintf("font-changed-by-query:%s:%s", before, after)
			}
			// (GlyphName indexes a short Names list of a glyf font out of range: the read-out is
			// guarded and only compared with itself)
			read := func() string { return canonPanic(guard(func() string { return gnHexNames(gnInstalled(font)) })) }
			perGlyph := read()
			for i := range first {
				first[i] = fmt.Sprintf("scribble%d", i)
			}
			if after := snapshot(); after != before {
				return fmt.Sprintf("font-shares-memory-with-result:%s:%s", before, after)
			}
			if again := read(); again != perGlyph {
				return fmt.Sprintf("GlyphName-changed:%s:%s", perGlyph, again)
			}
			if again := gnHexNames(font.MakeGlyphNames()); again != want {
				return fmt.Sprintf("second-call-differs:%s:%s", want, again)
			}
			return "ok"
		}))
	}
	yes := func(f Fields) string { return "yes" }
	ops["gnames.complete"] = yes
	ops["gnames.unique"] = yes
	ops["gnames.notdef"] = yes
	ops["gnames.kept"] = yes
	ops["gnames.explained"] = yes
	ops["gnames.inferred"] = yes
	ops["gnames.cmapfirst"] = yes
	ops["gnames.cffkept"] = yes
	ops["gnames.safe"] = yes
}

var gnPool = []string{"A", "B", "a", "f", "i", "fi", "f_i", "space", "orn001", "orn002", "orn003", "A.1", "A.2", "a.1",
	".notdef", "", "", "bad name!", "1one", "uni0041", "A.alt1", "Aacute", "ffi", "f_f_i", "é", "x"}

// gnNames draws an existing-names list of length n: missing, duplicate, invalid, colliding names.
func gnNames(r *Rng, n int, c *Ctx) []string {
	out := make([]string, n)
	mode := r.Intn(6)
	c.Stat("names-pattern", []string{"none", "all-unique", "some-missing", "duplicates", "pool-mix", "collide-generated"}[mode])
	for i := range out {
		switch mode {
		case 0:
		case 1:
			out[i] = fmt.Sprintf("g%d", i)
		case 2:
			if r.Chance(1, 2) {
				out[i] = fmt.Sprintf("g%d", i)
			}
		case 3:
			out[i] = fmt.Sprintf("g%d", r.Intn(n/2+1))
		case 4:
			out[i] = Pick(r, gnPool)
		case 5:
			switch r.Intn(5) {
			case 0:
				out[i] = fmt.Sprintf("orn%03d", r.Range(1, 4))
			case 1:
				out[i] = Pick(r, []string{"A", "A.1", "A.2", "A.1.1", "f_i", "f_i.1", "B"})
			case 2:
				out[i] = Pick(r, gnPool)
			}
		}
	}
	if n > 0 && r.Chance(1, 2) {
		out[0] = Pick(r, []string{".notdef", "", "A", "zero"})
	}
	return out
}

func gnGid(r *Rng, n int, oob bool) int {
	if oob && r.Chance(1, 12) {
		return Pick(r, []int{n, n + 1, 65535, n + r.Intn(50)})
	}
	if r.Chance(1, 3) && n > 1 {
		return r.Intn(min(n, 4))
	}
	return r.Intn(n)
}

func gnCovKeys(r *Rng, n int, oob bool) []int {
	k := r.Range(0, min(n, 5))
	seen := map[int]bool{}
	var keys []int
	for len(keys) < k {
		g := gnGid(r, n, oob)
		if !seen[g] {
			seen[g] = true
			keys = append(keys, g)
		}
		if len(seen) >= n {
			break
		}
	}
	return keys
}

func gnSub(r *Rng, n int, oob bool, c *Ctx) string {
	keys := gnCovKeys(r, n, oob)
	// the coverage index follows the sorted keys (as in a real coverage table) most of the time
	sorted := append([]int(nil), keys...)
	sort.Ints(sorted)
	idxOf := map[int]int{}
	for i, k := range sorted {
		idxOf[k] = i
	}
	if r.Chance(1, 6) {
		for _, k := range keys {
			idxOf[k] = r.Intn(len(keys) + 1) // arbitrary, possibly out of range
		}
	}
	cov := func() string {
		p := make([]string, len(keys))
		for i, k := range keys {
			p[i] = fmt.Sprintf("%d-%d", k, idxOf[k])
		}
		return strings.Join(p, ",")
	}
	gl := func(lo, hi int) string {
		m := r.Range(lo, hi)
		p := make([]string, m)
		for i := range p {
			p[i] = fmt.Sprint(gnGid(r, n, oob))
		}
		return strings.Join(p, ",")
	}
	switch t := r.Intn(9); {
	case t < 2:
		c.Stat("subtable", "Gsub1_1")
		d := Pick(r, []int{1, 1, 2, 65535, r.Intn(n + 2), 65536 - r.Intn(n+1) - 1})
		return fmt.Sprintf("s1:%d:%s", d, ints(keys))
	case t < 4:
		c.Stat("subtable", "Gsub1_2")
		return fmt.Sprintf("s2:%s:%s", cov(), gl(len(keys), len(keys)))
	case t < 6:
		c.Stat("subtable", "Gsub3_1")
		s := ""
		for range keys {
			s += gl(0, 3) + "|"
		}
		return fmt.Sprintf("al:%s:%s", cov(), s)
	case t < 8:
		c.Stat("subtable", "Gsub4_1")
		s := ""
		for range keys {
			m := r.Range(0, 3)
			p := make([]string, m)
			for i := range p {
				p[i] = fmt.Sprintf("%s>%d", gl(0, 3), gnGid(r, n, oob))
			}
			s += strings.Join(p, "/") + "|"
		}
		return fmt.Sprintf("lg:%s:%s", cov(), s)
	}
	c.Stat("subtable", "other")
	return "ot"
}

func gnCase(c *Ctx, n int, oob bool) {
	r := c.Rng
	kind := Pick(r, []string{"glyf", "glyf", "cff"})
	var nms []string
	args := ""
	switch {
	case kind == "cff":
		nms = gnNames(r, n, c)
		if r.Chance(1, 4) {
			for i := range nms {
				nms[i] = ""
			}
			args = " cid=1"
			c.Stat("outlines", "cff-cid")
		} else {
			c.Stat("outlines", "cff-simple")
		}
	case r.Chance(1, 5):
		nms = nil
		c.Stat("outlines", "glyf-no-names")
	case r.Chance(1, 5):
		nms = gnNames(r, Pick(r, []int{max(n-1, 0), n + 1, 1, n / 2}), c)
		if len(nms) == n {
			nms = nms[:n-1]
		}
		c.Stat("outlines", "glyf-short-names")
	default:
		nms = gnNames(r, n, c)
		c.Stat("outlines", "glyf-names")
	}
	// cmap
	cm, fu, cfmt := "-", "", ""
	if r.Chance(5, 6) {
		k := r.Range(0, min(2*n, 12))
		base := Pick(r, []int{0x20, 0x41, 0x61, 0xC0, 0x2000, 0xFB00, 0x1F600, 0xE000, 0xD7F0})
		m := map[int]int{}
		for i := 0; i < k; i++ {
			m[base+r.Intn(40)] = gnGid(r, n, oob)
		}
		if r.Chance(1, 4) {
			m[Pick(r, []int{0x41, 0x66, 0x69, 0xFB01})] = gnGid(r, n, oob)
		}
		keys := make([]int, 0, len(m))
		for k := range m {
			if m[k] != 0 { // an entry for glyph 0 is "unmapped": the encoders drop it
				keys = append(keys, k)
			}
		}
		sort.Ints(keys)
		p, q := make([]string, len(keys)), make([]string, len(keys))
		for i, k := range keys {
			p[i] = fmt.Sprintf("%d:%d", k, m[k])
			q[i] = fmt.Sprintf("%d:%s", k, hex.EncodeToString([]byte(names.FromUnicode(string(rune(k))))))
		}
		cm, fu = strings.Join(p, ","), strings.Join(q, ",")
		if r.Chance(1, 4) {
			cfmt = " cfmt=12"
		}
		c.Stat("cmap", "codes:"+bucket(len(keys)))
	} else {
		c.Stat("cmap", "absent")
	}
	// gsub
	ns := Pick(r, []int{0, 0, 1, 1, 2, 3, 4, 6})
	subs := make([]string, ns)
	for i := range subs {
		subs[i] = gnSub(r, n, oob, c)
	}
	gs := strings.Join(subs, ";")
	if ns == 0 && r.Bool() {
		args += " gsubnil=0"
	}
	c.Stat("glyphs", bucket(n))
	c.Stat("gsub-subtables", bucket(ns))
	line := fmt.Sprintf("kind=%s n=%d nn=%d names=%s cmap=%s%s fu=%s gsub=%s%s", kind, n, len(nms), gnHexNames(nms), cm, cfmt, fu, gs, args)
	if kind == "cff" {
		n = len(nms)
	}
	if _, bad := gnFont(parseFields(line)); bad != "" {
		c.Stat("case-rejected", bad)
		return
	}
	nontriv := n >= 2 && (cm != "-" || ns > 0)
	gnEmit(c, kind, n, nms, line, nontriv, r.Chance(1, 2))
}

// gnEmit records the verdict case for MakeGlyphNames and the direct predicates on its real output;
// with ensure also EnsureGlyphNames, the predicates on the installed names and the read-back.
func gnEmit(c *Ctx, kind string, n int, nms []string, line string, nontriv, ensure bool) {
	if parseFields(line)["gsub"] != "" && parseFields(line)["n"] != "0" {
		c.Case(Direct, "gnames.stable", line, nontriv)
	}
	if parseFields(line)["n"] != "0" {
		c.Case(Direct, "gnames.pure", line, nontriv)
	}
	out := c.Case(Verdict, "gnames.make", line, nontriv)
	switch {
	case out == "panic":
		c.Stat("make-outcome", "panic")
	case strings.Contains(out, "|"):
		c.Stat("make-outcome", "several-results")
	default:
		c.Stat("make-outcome", "one-result")
	}
	if out == "panic" || strings.Contains(out, "|") || strings.HasPrefix(out, "case:") {
		return
	}
	// what the function started from
	init := nms
	if kind != "cff" && len(nms) != n {
		init = make([]string, n)
	}
	o := fmt.Sprintf("on=%d out=%s", n, out)
	c.Case(Direct, "gnames.complete", fmt.Sprintf("n=%d ", n)+o, nontriv)
	c.Case(Direct, "gnames.unique", o, nontriv)
	c.Case(Direct, "gnames.notdef", o, nontriv)
	c.Case(Direct, "gnames.kept", fmt.Sprintf("in=%d init=%s ", len(init), gnHexNames(init))+o, nontriv)
	// every name is an existing name, a cmap name, a variant of a source glyph's name, the joined
	// names of exactly one ligature rule's components, or a placeholder
	c.Case(Direct, "gnames.explained", line+" "+o, nontriv)
	// a glyph that a GSUB 1.1/1.2/3.1/4.1 rule derives from glyphs named before the GSUB pass
	// (existing or cmap names) does not end up with a numbered placeholder
	c.Case(Direct, "gnames.inferred", line+" "+o, nontriv)
	// missing names come from the character map before placeholders: a glyph that ends with a
	// numbered placeholder has no cmap entry whose FromUnicode name is still free
	c.Case(Direct, "gnames.cmapfirst", line+" "+o, nontriv)
	if !ensure {
		return
	}
	eo := c.Case(Verdict, "gnames.ensure", line, nontriv)
	if i := strings.IndexByte(eo, ';'); i >= 0 {
		io := fmt.Sprintf("on=%d out=%s", n, eo[:i])
		c.Case(Direct, "gnames.complete", fmt.Sprintf("n=%d ", n)+io, nontriv)
		c.Case(Direct, "gnames.unique", io, nontriv)
		c.Case(Direct, "gnames.notdef", io, nontriv)
	}
	c.Case(Direct, "gnames.readback", line, nontriv)
}

// gnLigFamily: fonts with missing names and a GSUB 4.1 ligature set of several rules where an
// earlier rule is abandoned half-way (some components named, a later one unnamed, unmapped or
// outside the font) and later rules of the same set name their outputs.
func gnLigFamily(c *Ctx) {
	r := c.Rng
	n := r.Range(9, 14)
	kind := Pick(r, []string{"glyf", "cff"})
	nms := make([]string, n)
	if kind == "glyf" && r.Chance(1, 3) {
		nms = nil
	} else if r.Chance(1, 2) {
		nms[0] = ".notdef"
		if r.Bool() {
			nms[1] = "f"
		}
	}
	// glyphs 1..3 (and sometimes 4) are named through the cmap; glyph 5 stays unnamed until the end
	letters := []int{'f', 'i', 'l', 't'}
	named := 3 + r.Intn(2)
	var cp, fu []string
	for i := 0; i < named; i++ {
		cp = append(cp, fmt.Sprintf("%d:%d", letters[i], i+1))
		fu = append(fu, fmt.Sprintf("%d:%s", letters[i], hex.EncodeToString([]byte(names.FromUnicode(string(rune(letters[i])))))))
	}
	// cmap codes must be listed in increasing order of the code
	sort.Slice(cp, func(a, b int) bool { var x, y int; fmt.Sscan(cp[a], &x); fmt.Sscan(cp[b], &y); return x < y })
	for i := range cp {
		var x, g int
		fmt.Sscanf(cp[i], "%d:%d", &x, &g)
		fu[i] = fmt.Sprintf("%d:%s", x, hex.EncodeToString([]byte(names.FromUnicode(string(rune(x))))))
	}
	unnamed := Pick(r, []int{5, 5, 5, n, 65535}) // a glyph without any name source, or one outside the font
	first := r.Range(1, named)
	nextOut := 6
	var rules []string
	nrules := r.Range(2, 4)
	abandonedAt := r.Intn(nrules - 1) // never the last rule
	for k := 0; k < nrules; k++ {
		var in []int
		if k == abandonedAt {
			for j := r.Range(1, 3); j > 0; j-- {
				in = append(in, r.Range(1, named))
			}
			in = append(in, unnamed)
			if r.Chance(1, 3) {
				in = append(in, r.Range(1, named))
			}
			c.Stat("lig-family-abandoned-prefix", bucket(len(in)-1))
		} else {
			for j := r.Range(1, 2); j > 0; j-- {
				in = append(in, r.Range(1, named))
			}
		}
		out := nextOut
		if nextOut < n-1 {
			nextOut++
		}
		rules = append(rules, fmt.Sprintf("%s>%d", ints(in), out))
	}
	gs := fmt.Sprintf("lg:%d-0:%s|", first, strings.Join(rules, "/"))
	if r.Chance(1, 3) {
		gs = "s1:1:1;" + gs
	}
	c.Stat("stream", "ligature-set-with-abandoned-rule")
	line := fmt.Sprintf("kind=%s n=%d nn=%d names=%s cmap=%s fu=%s gsub=%s", kind, n, len(nms), gnHexNames(nms), strings.Join(cp, ","), strings.Join(fu, ","), gs)
	if kind == "cff" && len(nms) != n {
		return
	}
	if _, bad := gnFont(parseFields(line)); bad != "" {
		c.Stat("case-rejected", bad)
		return
	}
	gnEmit(c, kind, n, nms, line, true, r.Chance(1, 3))
}

// gnNegDeltaFamily: GSUB 1.1 subtables whose DeltaGlyphID is negative (stored modulo 65536: the
// variants are stored before their base glyphs) or wraps to glyph 0 / lands on the last glyph,
// as the only naming source of otherwise unnamed glyphs.
func gnNegDeltaFamily(c *Ctx) {
	r := c.Rng
	n := r.Range(6, 16)
	kind := Pick(r, []string{"glyf", "cff"})
	nms := make([]string, n)
	// bases: the upper half of the glyphs, named by the cmap or by existing names
	lo := n / 2
	var cp, fu []string
	byCmap := r.Bool()
	for g := lo; g < n; g++ {
		if byCmap {
			code := 'a' + (g - lo)
			cp = append(cp, fmt.Sprintf("%d:%d", code, g))
			fu = append(fu, fmt.Sprintf("%d:%s", code, hex.EncodeToString([]byte(names.FromUnicode(string(rune(code)))))))
		} else {
			nms[g] = fmt.Sprintf("base%d", g)
		}
	}
	if kind == "glyf" && byCmap && r.Bool() {
		nms = nil
	}
	var subs []string
	k := r.Range(1, lo-1) // targets = base - k: unnamed glyphs of the lower half
	var delta int
	switch r.Intn(5) {
	case 0: // wrap to exactly glyph 0 for the first base
		delta = 65536 - lo
		c.Stat("neg-delta", "first-target-is-glyph-0")
	case 1: // the last glyph as target of a small positive delta, from an unnamed... base n-2
		delta = 1
		c.Stat("neg-delta", "positive-onto-last-glyph")
	default:
		delta = 65536 - k
		c.Stat("neg-delta", "negative")
	}
	var cov []int
	for g := lo; g < n; g++ {
		if r.Chance(3, 4) {
			cov = append(cov, g)
		}
	}
	if len(cov) == 0 {
		cov = []int{lo}
	}
	subs = append(subs, fmt.Sprintf("s1:%d:%s", delta, ints(cov)))
	if r.Chance(1, 3) { // a second subtable with another negative delta
		subs = append(subs, fmt.Sprintf("s1:%d:%s", 65536-r.Range(1, lo), ints(cov)))
	}
	cm := "-"
	if len(cp) > 0 {
		cm = strings.Join(cp, ",")
	}
	c.Stat("stream", "gsub1.1-negative-delta")
	line := fmt.Sprintf("kind=%s n=%d nn=%d names=%s cmap=%s fu=%s gsub=%s", kind, n, len(nms), gnHexNames(nms), cm, strings.Join(fu, ","), strings.Join(subs, ";"))
	if kind == "cff" && len(nms) != n {
		return
	}
	if _, bad := gnFont(parseFields(line)); bad != "" {
		c.Stat("case-rejected", bad)
		return
	}
	gnEmit(c, kind, n, nms, line, true, r.Chance(1, 4))
}

// gnCmapEdgeFamily: the character map is the only naming source, and the glyphs of interest are
// mapped from the FIRST and the LAST code point of the subtable; single-entry cmaps; code points
// 0, 0xFFFF and 0x10FFFF (format 12).
func gnCmapEdgeFamily(c *Ctx) {
	r := c.Rng
	n := r.Range(2, 9)
	kind := Pick(r, []string{"glyf", "glyf", "cff"})
	nms := make([]string, n)
	if kind == "glyf" && r.Bool() {
		nms = nil
	} else if r.Bool() {
		nms[0] = ".notdef"
	}
	cfmt := ""
	var base, span int
	switch r.Intn(7) {
	case 0:
		base, span = 0, r.Range(1, 6)
		c.Stat("cmap-edge", "range-starts-at-code-0")
	case 1:
		span = r.Range(1, 6)
		base = 0xFFFF - span + 1
		cfmt = " cfmt=12"
		c.Stat("cmap-edge", "range-ends-at-0xFFFF(format12)")
	case 2:
		span = r.Range(1, 6)
		base = 0xFFFE - span + 1
		c.Stat("cmap-edge", "range-ends-at-0xFFFE(format4)")
	case 3:
		span = r.Range(1, 6)
		base = 0x10FFFF - span + 1
		c.Stat("cmap-edge", "range-ends-at-0x10FFFF")
	case 4:
		base, span = Pick(r, []int{0x41, 0x61, 0x3B1, 0x1F600, 0, 0x10FFFF, 0xFFFF}), 1
		if base == 0xFFFF {
			cfmt = " cfmt=12"
		}
		c.Stat("cmap-edge", "single-entry")
	default:
		base, span = Pick(r, []int{0x41, 0x61, 0x391, 0x2190, 0x1D400}), r.Range(2, 12)
		c.Stat("cmap-edge", "ordinary-range")
	}
	// first and last code always mapped, each to a glyph that nothing else maps to
	m := map[int]int{}
	perm := make([]int, 0, n)
	for g := 1; g < n; g++ {
		perm = append(perm, g)
	}
	for i := len(perm) - 1; i > 0; i-- {
		j := r.Intn(i + 1)
		perm[i], perm[j] = perm[j], perm[i]
	}
	m[base+span-1] = perm[0]
	if span > 1 && len(perm) > 1 {
		m[base] = perm[1]
	}
	for i := 2; i < len(perm) && i < span; i++ {
		if r.Chance(2, 3) {
			code := base + r.Range(1, span-1)
			if _, ok := m[code]; !ok || (code != base && code != base+span-1) {
				if code != base && code != base+span-1 {
					m[code] = perm[i]
				}
			}
		}
	}
	keys := make([]int, 0, len(m))
	for k := range m {
		keys = append(keys, k)
	}
	sort.Ints(keys)
	p, q := make([]string, len(keys)), make([]string, len(keys))
	for i, k := range keys {
		p[i] = fmt.Sprintf("%d:%d", k, m[k])
		q[i] = fmt.Sprintf("%d:%s", k, hex.EncodeToString([]byte(names.FromUnicode(string(rune(k))))))
	}
	c.Stat("stream", "cmap-first-and-last-code")
	line := fmt.Sprintf("kind=%s n=%d nn=%d names=%s cmap=%s%s fu=%s gsub=", kind, n, len(nms), gnHexNames(nms), strings.Join(p, ","), cfmt, strings.Join(q, ","))
	if kind == "cff" && len(nms) != n {
		return
	}
	if _, bad := gnFont(parseFields(line)); bad != "" {
		c.Stat("case-rejected", bad)
		return
	}
	gnEmit(c, kind, n, nms, line, true, r.Chance(1, 4))
}

// gnOrderFamily: GSUB 1.2 / 3.1 / 4.1 subtables where the ORDER in which the covered glyphs are
// visited decides the outcome: two covered glyphs with the same unnamed target, chains through an
// unnamed intermediate glyph, ligature sets sharing an output.
func gnOrderFamily(c *Ctx) {
	r := c.Rng
	n := r.Range(6, 10)
	kind := Pick(r, []string{"glyf", "cff"})
	nms := make([]string, n)
	nms[0] = ".notdef"
	nms[1], nms[2] = "A", "a"
	if r.Chance(1, 3) {
		nms[3] = "b"
	}
	var subs []string
	for k := r.Range(1, 2); k > 0; k-- {
		t := r.Range(4, n-1)
		switch r.Intn(6) {
		case 0: // two sources, one target
			subs = append(subs, fmt.Sprintf("s2:2-1,1-0:%d,%d", t, t))
			c.Stat("order-family", "gsub1.2-same-target")
		case 1: // chain through an unnamed intermediate, ascending and descending
			u := r.Range(4, n-1)
			for u == t {
				u = r.Range(4, n-1)
			}
			lo, hi := min(t, u), max(t, u)
			if r.Bool() {
				subs = append(subs, fmt.Sprintf("s2:%d-1,1-0:%d,%d", lo, lo, hi)) // 1->lo, lo->hi
			} else {
				subs = append(subs, fmt.Sprintf("s2:%d-1,1-0:%d,%d", hi, hi, lo)) // 1->hi, hi->lo
			}
			c.Stat("order-family", "gsub1.2-chain")
		case 2:
			subs = append(subs, fmt.Sprintf("al:1-0,2-1:%d,%d|%d|", t, r.Range(4, n-1), t))
			c.Stat("order-family", "gsub3.1-same-target")
		case 3:
			subs = append(subs, fmt.Sprintf("lg:1-0,2-1:2>%d|1>%d|", t, t))
			c.Stat("order-family", "gsub4.1-shared-output")
		case 4: // three sources, chain and shared target mixed
			subs = append(subs, fmt.Sprintf("s2:3-2,2-1,1-0:%d,%d,%d", t, t, 3))
			c.Stat("order-family", "gsub1.2-three-sources")
		default: // alternates chain: 1 -> {t}, t -> {u}
			u := r.Range(4, n-1)
			subs = append(subs, fmt.Sprintf("al:%d-1,1-0:%d|%d|", max(t, 2), max(t, 2), u))
			c.Stat("order-family", "gsub3.1-chain")
		}
	}
	c.Stat("stream", "gsub-rule-order-matters")
	line := fmt.Sprintf("kind=%s n=%d nn=%d names=%s cmap=- fu= gsub=%s", kind, n, n, gnHexNames(nms), strings.Join(subs, ";"))
	if _, bad := gnFont(parseFields(line)); bad != "" {
		c.Stat("case-rejected", bad)
		return
	}
	gnEmit(c, kind, n, nms, line, true, r.Chance(1, 4))
}

// gnMacFamily: fonts whose ONLY cmap subtable is the Macintosh one (platform 1, encoding 0) in
// format 0, 4 or 6, with MacRoman codes >= 0x80 as the only naming source of some glyphs.
func gnMacFamily(c *Ctx) {
	r := c.Rng
	n := r.Range(3, 12)
	kind := Pick(r, []string{"glyf", "glyf", "cff"})
	nms := make([]string, n)
	if kind == "glyf" && r.Bool() {
		nms = nil
	}
	format := Pick(r, []string{"0", "4", "6"})
	m := map[int]int{}
	high := []int{0x8A, 0xA5, 0xDE, 0xDF, 0x80, 0xCA, 0xD0, 0xF5, 0xFF, 0xF0, 0xBD}
	for g := 1; g < n; g++ {
		var code int
		switch r.Intn(4) {
		case 0:
			code = r.Range(0x41, 0x7A)
		case 1:
			code = r.Range(0x80, 0xFF)
		default:
			code = Pick(r, high)
		}
		if format == "6" { // keep the trimmed table short
			code = 0x80 + r.Intn(0x30)
		}
		if _, ok := m[code]; !ok && r.Chance(4, 5) {
			m[code] = g
		}
	}
	if len(m) == 0 {
		m[0x8A] = n - 1
	}
	keys := make([]int, 0, len(m))
	hi := false
	for k := range m {
		keys = append(keys, k)
		if k >= 0x80 {
			hi = true
		}
	}
	sort.Ints(keys)
	var p, q []string
	for _, k := range keys {
		p = append(p, fmt.Sprintf("%d:%d", k, m[k]))
		ru := mac.DecodeOne(byte(k))
		q = append(q, fmt.Sprintf("%d:%s", ru, hex.EncodeToString([]byte(names.FromUnicode(string(ru))))))
	}
	c.Stat("mac-cmap-format", format)
	if hi {
		c.Stat("mac-cmap-codes", "some>=0x80")
	} else {
		c.Stat("mac-cmap-codes", "ascii-only")
	}
	c.Stat("stream", "mac-only-cmap")
	line := fmt.Sprintf("kind=%s n=%d nn=%d names=%s cmap=%s mac=%s fu=%s gsub=", kind, n, len(nms), gnHexNames(nms), strings.Join(p, ","), format, strings.Join(q, ","))
	if kind == "cff" && len(nms) != n {
		return
	}
	if _, bad := gnFont(parseFields(line)); bad != "" {
		c.Stat("case-rejected", bad)
		return
	}
	gnEmit(c, kind, n, nms, line, true, r.Chance(1, 4))
}

// gnDupCffFamily: CFF fonts whose existing names contain duplicates and/or whose glyph 0 carries a
// non-empty name other than .notdef; EnsureGlyphNames, per-glyph read-back, Write + Read.
func gnDupCffFamily(c *Ctx) {
	r := c.Rng
	n := r.Range(2, 10)
	nms := make([]string, n)
	pool := []string{"A", "B", "C", "D", "space", "A", "B"}
	for i := range nms {
		switch r.Intn(5) {
		case 0:
		default:
			nms[i] = Pick(r, pool)
		}
	}
	switch r.Intn(3) {
	case 0:
		nms[0] = ".notdef"
		c.Stat("dup-cff-glyph0", ".notdef")
	case 1:
		nms[0] = Pick(r, []string{"space", "A", "zero"})
		c.Stat("dup-cff-glyph0", "other-name")
	default:
		nms[0] = ""
		c.Stat("dup-cff-glyph0", "empty")
	}
	seen, dup := map[string]bool{}, false
	for i, nm := range nms {
		if i > 0 && nm != "" && seen[nm] {
			dup = true
		}
		seen[nm] = true
	}
	if dup {
		c.Stat("dup-cff-duplicates", "yes")
	} else {
		c.Stat("dup-cff-duplicates", "no")
	}
	var cp, fu []string
	for i, code := range []int{'A', 'B', 'C', 'D', 'E', 'F', 'G', 'H', 'I'} {
		if i+1 < n && r.Chance(3, 4) {
			cp = append(cp, fmt.Sprintf("%d:%d", code, i+1))
			fu = append(fu, fmt.Sprintf("%d:%s", code, hex.EncodeToString([]byte(names.FromUnicode(string(rune(code)))))))
		}
	}
	cm := "-"
	if len(cp) > 0 {
		cm = strings.Join(cp, ",")
	}
	c.Stat("stream", "cff-duplicate-or-glyph0-names")
	line := fmt.Sprintf("kind=cff n=%d nn=%d names=%s cmap=%s fu=%s gsub=", n, n, gnHexNames(nms), cm, strings.Join(fu, ","))
	if _, bad := gnFont(parseFields(line)); bad != "" {
		c.Stat("case-rejected", bad)
		return
	}
	gnEmit(c, "cff", n, nms, line, true, true)
}

func gnCffCase(c *Ctx) {
	r := c.Rng
	n := Pick(r, []int{1, 2, 3, 5, 8, 12, 20})
	nms := gnNames(r, n, c)
	cidKeyed := false
	switch r.Intn(3) {
	case 0:
		for i := range nms {
			nms[i] = ""
		}
		cidKeyed = true
		c.Stat("cffmake", "cid-keyed-without-names")
	case 1:
		// CID-keyed outlines (ROS set) whose glyphs nevertheless carry names
		cidKeyed = true
		c.Stat("cffmake", "cid-keyed-with-names")
	default:
		c.Stat("cffmake", "simple")
	}
	var text map[int]string
	if r.Chance(1, 5) {
		c.Stat("cffmake-text", "nil")
	} else {
		c.Stat("cffmake-text", "map")
		text = map[int]string{}
		long := strings.Repeat("A", 10)
		for g := 0; g < n; g++ {
			if !r.Chance(2, 3) {
				continue
			}
			text[g] = Pick(r, []string{"A", "A", "B", "fi", "f", "ﬁ", " ", "é", " ", long, "AB", "x", "😀", "a"})
		}
	}
	gnCffEmit(c, nms, text, cidKeyed)
}

// gnCffLongFamily: glyph texts whose derived names are 25..31 characters long and collide (two
// or three glyphs with the same text, or an existing name equal to the derived name), so that the
// ".altN" candidates cross the 31-character limit of a glyph name.
func gnCffLongFamily(c *Ctx) {
	r := c.Rng
	n := r.Range(3, 9)
	nms := make([]string, n)
	cidKeyed := r.Chance(1, 2)
	letters := r.Range(13, 16) // FromUnicode gives 2*letters-1 characters: 25, 27, 29, 31
	mk := func() string {
		b := make([]byte, letters)
		for i := range b {
			b[i] = byte('A' + r.Intn(26))
		}
		return string(b)
	}
	t1 := mk()
	text := map[int]string{}
	g1 := r.Range(1, n-1)
	text[g1] = t1
	c.Stat("cff-long-name-length", fmt.Sprint(len(names.FromUnicode(t1))))
	switch r.Intn(3) {
	case 0: // the same text on further glyphs
		for k := r.Range(1, 2); k > 0; k-- {
			text[r.Range(1, n-1)] = t1
		}
		c.Stat("cff-long-collision", "same-text")
	case 1: // an existing (kept) name equal to the derived name
		g2 := r.Range(1, n-1)
		if g2 != g1 {
			nms[g2] = names.FromUnicode(t1)
		}
		text[r.Range(1, n-1)] = t1
		c.Stat("cff-long-collision", "existing-name")
	default: // both, and a second long text
		text[r.Range(1, n-1)] = t1
		text[r.Range(1, n-1)] = t1
		text[r.Range(1, n-1)] = mk()
		c.Stat("cff-long-collision", "three-way")
	}
	if r.Chance(1, 3) {
		text[r.Range(1, n-1)] = "A"
	}
	if !cidKeyed && r.Chance(1, 2) {
		nms[0] = ".notdef"
	}
	c.Stat("stream", "cff-long-colliding-text-names")
	gnCffEmit(c, nms, text, cidKeyed)
}

// gnCffCidNamedFamily: MakeSimple on outlines that ARE CID-keyed (ROS != nil) and whose glyphs
// ALREADY carry names of every kind: valid unique, duplicates, invalid, equal to a text-derived
// name, shaped like a placeholder.
func gnCffCidNamedFamily(c *Ctx) {
	r := c.Rng
	n := r.Range(3, 10)
	nms := make([]string, n)
	text := map[int]string{}
	kinds := []string{"valid-unique", "duplicate", "invalid", "equals-derived-name", "placeholder-shaped"}
	for _, kind := range kinds {
		if !r.Chance(3, 5) {
			continue
		}
		g := r.Range(1, n-1)
		c.Stat("cid-named-existing", kind)
		switch kind {
		case "valid-unique":
			nms[g] = fmt.Sprintf("glyph%d", g)
		case "duplicate":
			h := r.Range(1, n-1)
			nms[g], nms[h] = "A", "A"
		case "invalid":
			nms[g] = Pick(r, []string{"1bad name", "bad name!", ".period", "é", strings.Repeat("x", 32)})
		case "equals-derived-name":
			t := Pick(r, []string{"A", "B", "fi", "AB"})
			nms[g] = names.FromUnicode(t)
			text[r.Range(1, n-1)] = t
		case "placeholder-shaped":
			nms[g] = fmt.Sprintf("orn%03d", r.Range(1, 3))
			if r.Bool() {
				nms[r.Range(1, n-1)] = "orn001"
			}
		}
	}
	switch r.Intn(3) {
	case 0:
		nms[0] = ".notdef"
	case 1:
		nms[0] = Pick(r, []string{"A", "space", "orn001"})
	}
	for g := 1; g < n; g++ {
		if r.Chance(1, 3) {
			if _, ok := text[g]; !ok {
				text[g] = Pick(r, []string{"A", "B", "fi", "x", "AB"})
			}
		}
	}
	var tm map[int]string = text
	if r.Chance(1, 6) {
		tm = nil
	}
	c.Stat("stream", "cff-cid-keyed-with-existing-names")
	gnCffEmit(c, nms, tm, true)
}

// gnCffTextVsLaterName: partially named fonts where an unnamed LOW-gid glyph's text derives
// (directly, or as .altN after a collision) the existing valid unique name of a HIGHER-gid glyph.
func gnCffTextVsLaterName(c *Ctx) {
	r := c.Rng
	n := r.Range(4, 10)
	nms := make([]string, n)
	text := map[int]string{}
	t := Pick(r, []string{"A", "B", "fi", "AB", "x"})
	base := names.FromUnicode(t)
	lo := r.Range(1, n-2)
	hi := r.Range(lo+1, n-1)
	text[lo] = t
	switch r.Intn(3) {
	case 0:
		nms[hi] = base
		c.Stat("cff-text-vs-later-name", "later-glyph-has-the-derived-name")
	case 1: // a second low glyph with the same text: its .alt1 is the name of a later glyph
		nms[hi] = base + ".alt1"
		if lo+1 < hi {
			text[lo+1] = t
		} else {
			text[lo] = t
		}
		text[r.Range(1, lo)] = t
		c.Stat("cff-text-vs-later-name", "later-glyph-has-.alt1")
	default:
		nms[hi] = base
		if hi+1 < n {
			nms[hi+1] = base + ".alt1"
		}
		text[r.Range(1, lo)] = t
		c.Stat("cff-text-vs-later-name", "later-glyphs-have-base-and-.alt1")
	}
	for g := 1; g < n; g++ {
		if nms[g] == "" && r.Chance(1, 4) {
			nms[g] = fmt.Sprintf("g%d", g)
		}
	}
	if r.Bool() {
		nms[0] = ".notdef"
	}
	c.Stat("stream", "cff-text-name-vs-later-existing-name")
	gnCffEmit(c, nms, text, r.Chance(1, 3))
}

// gnCffEmit writes the verdict case for MakeSimple and the direct predicates on its real output.
// text == nil stands for a nil glyphText map.
func gnCffEmit(c *Ctx, nms []string, text map[int]string, cidKeyed bool) {
	n := len(nms)
	args := ""
	if cidKeyed {
		args = " cid=1"
	}
	var raw, txt []string
	inv := map[string]bool{}
	chk := func(s string) {
		if !names.IsValid(s) {
			inv[s] = true
		}
	}
	for i, nm := range nms {
		if i == 0 {
			nm = ".notdef"
		}
		chk(nm)
	}
	if text == nil {
		args += " textnil=1"
	} else {
		for g := 0; g < n; g++ {
			s, ok := text[g]
			if !ok {
				continue
			}
			raw = append(raw, fmt.Sprintf("%d:%s", g, hex.EncodeToString([]byte(s))))
			b := names.FromUnicode(s)
			txt = append(txt, fmt.Sprintf("%d:%s", g, hex.EncodeToString([]byte(b))))
			chk(b)
			for t := 1; t <= n+2; t++ {
				chk(fmt.Sprintf("%s.alt%d", b, t))
			}
		}
	}
	var il []string
	for k := range inv {
		if k != "" { // the empty name is invalid by convention on both sides
			il = append(il, k)
		}
	}
	sort.Strings(il)
	line := fmt.Sprintf("nn=%d names=%s text=%s rawtext=%s invalid=%s%s", n, gnHexNames(nms), strings.Join(txt, ","),
		strings.Join(raw, ","), gnHexNames(il), args)
	out := c.Case(Verdict, "gnames.cffmake", line, n >= 2)
	if out == "panic" || strings.HasPrefix(out, "case:") {
		c.Stat("cffmake-outcome", out)
		return
	}
	c.Stat("cffmake-outcome", "names")
	longest := 0
	for _, nm := range strings.Split(out, ",") {
		if len(nm)/2 > longest {
			longest = len(nm) / 2
		}
	}
	switch {
	case longest > 31:
		c.Stat("cffmake-longest-name", ">31")
	case longest >= 25:
		c.Stat("cffmake-longest-name", "25-31")
	default:
		c.Stat("cffmake-longest-name", "<25")
	}
	o := fmt.Sprintf("on=%d out=%s", n, out)
	c.Case(Direct, "gnames.complete", fmt.Sprintf("n=%d ", n)+o, n >= 2)
	c.Case(Direct, "gnames.unique", o, n >= 2)
	c.Case(Direct, "gnames.notdef", o, n >= 2)
	// every name of the simple font is a legal glyph name: at most 31 characters from
	// A-Z a-z 0-9 . _ , not starting with a digit or period (.notdef excepted)
	c.Case(Direct, "gnames.safe", o, n >= 2)
	// every existing valid name that is not .notdef and not a repetition of an earlier glyph's name
	// is still the name of the same glyph
	c.Case(Direct, "gnames.cffkept", fmt.Sprintf("in=%d init=%s invalid=%s ", n, gnHexNames(nms), gnHexNames(il))+o, n >= 2)
	c.Case(Direct, "gnames.cffstable", line, n >= 2)
}

func gnPsCase(c *Ctx) {
	r := c.Rng
	var fam []byte
	switch r.Intn(4) {
	case 0:
		fam = []byte(Pick(r, []string{"Go Regular", "Source Serif 4", "Foo [Bar] (Baz) {x} <y> /z %w", "Ünïcödé Sans", "A\\B^C|D~E", "", "Bold Face", "tab\there"}))
		c.Stat("psname-family", "hand-picked")
	case 1:
		k := r.Range(0, 24)
		for i := 0; i < k; i++ {
			fam = append(fam, byte(r.Range(0, 127)))
		}
		c.Stat("psname-family", "random-ascii")
	case 2:
		fam = r.Bytes(r.Range(0, 24))
		c.Stat("psname-family", "random-bytes")
	case 3:
		for _, x := range []rune{rune(r.Range(32, 126)), rune(r.Range(128, 0x2FFF)), rune(r.Range(32, 126)), rune(r.Range(0x10000, 0x10FFFF)), rune(r.Range(32, 126))} {
			fam = append(fam, []byte(string(x))...)
		}
		c.Stat("psname-family", "mixed-utf8")
	}
	for i, b := range fam {
		if b == '\n' || b == '\t' {
			fam[i] = b // hex transport: no separator problem
		}
	}
	// Width 0..12 (1..9 are the named classes, 5 = Normal, 0 and 10..12 print as "Width(n)"
	// unless 0), Weight 0..1100, every combination of the style flags
	width := r.Range(0, 12)
	if r.Chance(1, 4) {
		width = Pick(r, []int{0, 5, 10, 11, 12})
	}
	weight := Pick(r, []int{0, 1, 100, 149, 150, 250, 333, 400, 400, 449, 450, 500, 600, 700, 800, 900, 1000, 1100, r.Range(0, 1100)})
	if r.Chance(1, 6) {
		// the weight word already occurs in the family name: Subfamily() must not repeat it
		tag := os2.Weight(weight).SimpleString()
		fam = append(append([]byte("My "), tag...), " Face"...)
		c.Stat("psname-family", "contains-weight-word")
	}
	flags := r.Intn(8)
	font := &sfnt.Font{FamilyName: string(fam), Width: os2.Width(width), Weight: os2.Weight(weight),
		IsBold: flags&1 != 0, IsItalic: flags&2 != 0, IsOblique: flags&4 != 0}
	sub := guard(func() string { return font.Subfamily() })
	if strings.HasPrefix(sub, "panic:") {
		c.Stat("psname-subfamily", "panic")
		return
	}
	// branches of Subfamily()
	switch {
	case width == 0:
		c.Stat("subfamily-width", "zero")
	case width == 5:
		c.Stat("subfamily-width", "normal")
	case width >= 1 && width <= 9:
		c.Stat("subfamily-width", "named-class")
	default:
		c.Stat("subfamily-width", "outside-1..9")
	}
	switch {
	case weight != 0 && weight != 400 && strings.Contains(string(fam), os2.Weight(weight).SimpleString()):
		c.Stat("subfamily-weight", "word-already-in-family")
	case weight != 0 && weight != 400:
		c.Stat("subfamily-weight", "word-added")
	case font.IsBold:
		c.Stat("subfamily-weight", "normal-or-zero+IsBold")
	default:
		c.Stat("subfamily-weight", "normal-or-zero")
	}
	switch {
	case font.IsOblique:
		c.Stat("subfamily-slant", "oblique")
	case font.IsItalic:
		c.Stat("subfamily-slant", "italic")
	default:
		c.Stat("subfamily-slant", "upright")
	}
	if sub == "Regular" {
		c.Stat("subfamily-result", "Regular")
	} else {
		c.Stat("subfamily-result", "words")
	}
	b2i := map[bool]int{true: 1}
	style := fmt.Sprintf("width=%d weight=%d bold=%d italic=%d oblique=%d", width, weight, b2i[font.IsBold], b2i[font.IsItalic], b2i[font.IsOblique])
	c.Case(Verdict, "gnames.psname", fmt.Sprintf("family=%s sub=%s ", hex.EncodeToString(fam), hex.EncodeToString([]byte(sub)))+style, len(fam) > 0)
	// direct predicate on the real PostScriptName(): only characters allowed in a PostScript name
	c.Case(Direct, "gnames.pschars", "family="+hex.EncodeToString(fam)+" "+style, len(fam) > 0)
}

// gnPsFont builds the font of a psname/pschars case line.
func gnPsFont(f Fields) *sfnt.Font {
	return &sfnt.Font{FamilyName: string(mustHex(f["family"])), Width: os2.Width(f.Int("width")),
		Weight: os2.Weight(f.Int("weight")), IsBold: f["bold"] == "1", IsItalic: f["italic"] == "1",
		IsOblique: f["oblique"] == "1"}
}

func areaGNames(c *Ctx) {
	r := c.Rng
	// fixed cases: thresholds of DESIGN Appendix F and the defects found at design time
	fixed := []string{
		"kind=glyf n=0 nn=0 names= cmap=- fu= gsub=",
		"kind=glyf n=1 nn=0 names= cmap=- fu= gsub=",
		"kind=glyf n=5 nn=5 names=2e6e6f74646566,61,,, cmap=- fu= gsub=s1:1:3,1,2",
		"kind=glyf n=5 nn=5 names=2e6e6f74646566,66,69,6669, cmap=- fu= gsub=lg:1-0:2>3|",
		"kind=glyf n=5 nn=5 names=2e6e6f74646566,66,69,6669, cmap=- fu= gsub=lg:1-0:2>0|",
		"kind=glyf n=3 nn=0 names= cmap=65:1,66:7 fu=65:41,66:42 gsub=",
		"kind=glyf n=3 nn=3 names=,61, cmap=- fu= gsub=s1:5:1",
		"kind=glyf n=3 nn=3 names=,61, cmap=- fu= gsub=s1:65528:9",
		"kind=glyf n=4 nn=4 names=,6f726e303031,, cmap=- fu= gsub=",
		"kind=cff n=4 nn=4 names=,,, cmap=65:1,66:1,67:2 fu=65:41,66:42,67:43 gsub=s2:1-0,2-1:3,3 cid=1",
	}
	for _, l := range fixed {
		c.Case(Verdict, "gnames.make", l, true)
	}
	// ligature set with a rule abandoned half-way; CFF names with a duplicate / a named glyph 0
	gnEmit(c, "cff", 8, make([]string, 8), "kind=cff n=8 nn=8 names=,,,,,,, cmap=102:1,105:2,108:3 fu=102:66,105:69,108:6c gsub=lg:1-0:1,4>5/2>6/3>7|", true, true)
	// GSUB 1.1 with delta -2 (variants stored before their bases) as the only source of names
	gnEmit(c, "glyf", 6, nil, "kind=glyf n=6 nn=0 names= cmap=97:3,98:4,99:5 fu=97:61,98:62,99:63 gsub=s1:65534:3,4,5", true, false)
	// glyf fonts with a full-length Names list: duplicate, empty names, glyph 0 not called .notdef
	gnEmit(c, "glyf", 4, []string{"zero", "A", "A", ""}, "kind=glyf n=4 nn=4 names=7a65726f,41,41, cmap=- fu= gsub=", true, true)
	gnEmit(c, "glyf", 3, []string{".notdef", "A", "B"}, "kind=glyf n=3 nn=3 names=2e6e6f74646566,41,42 cmap=- fu= gsub=", true, false)
	// rule order: two sources for one target; a chain through an unnamed glyph (GSUB 1.2)
	gnEmit(c, "glyf", 5, []string{".notdef", "A", "a", "", ""}, "kind=glyf n=5 nn=5 names=2e6e6f74646566,41,61,, cmap=- fu= gsub=s2:2-1,1-0:3,3", true, false)
	gnEmit(c, "glyf", 5, []string{".notdef", "a", "", "", ""}, "kind=glyf n=5 nn=5 names=2e6e6f74646566,61,,, cmap=- fu= gsub=s2:2-1,1-0:2,3", true, false)
	// Macintosh-only cmap, format 0: 0x8A adieresis, 0xA5 bullet, 0xDE fi
	gnEmit(c, "glyf", 4, nil, "kind=glyf n=4 nn=0 names= cmap=138:1,165:2,222:3 mac=0 fu=228:616469657265736973,8226:62756c6c6574,64257:665f69 gsub=", true, false)
	// the cmap is the only naming source: a single entry; first and last code of the range
	gnEmit(c, "glyf", 2, nil, "kind=glyf n=2 nn=0 names= cmap=65:1 fu=65:41 gsub=", true, false)
	gnEmit(c, "glyf", 4, nil, "kind=glyf n=4 nn=0 names= cmap=65:2,66:1,67:3 fu=65:41,66:42,67:43 gsub=", true, false)
	// MakeSimple: two glyphs with the same 16-letter text: the derived name has 31 characters
	gnCffEmit(c, make([]string, 4), map[int]string{1: "ABCDEFGHIJKLMNOP", 2: "ABCDEFGHIJKLMNOP", 3: "A"}, true)
	// MakeSimple: glyph 1 unnamed with text "A", glyph 3 already named "A"
	gnCffEmit(c, []string{".notdef", "", "B", "A"}, map[int]string{1: "A"}, false)
	// MakeSimple on CID-keyed outlines whose glyphs already carry names: duplicate, invalid, placeholder-shaped
	gnCffEmit(c, []string{"", "A", "A", "1bad name", "orn001", ""}, map[int]string{5: "A"}, true)
	gnEmit(c, "cff", 4, []string{".notdef", "A", "B", "A"}, "kind=cff n=4 nn=4 names=2e6e6f74646566,41,42,41 cmap=65:1,66:2,67:3 fu=65:41,66:42,67:43 gsub=", true, true)
	gnEmit(c, "cff", 4, []string{"space", "A", "B", "C"}, "kind=cff n=4 nn=4 names=7370616365,41,42,43 cmap=65:1,66:2,67:3 fu=65:41,66:42,67:43 gsub=", true, true)
	for i := 0; i < c.N; i++ {
		switch {
		case i%20 == 1:
			gnCmapEdgeFamily(c)
		case i%20 == 5:
			gnOrderFamily(c)
		case i%20 == 11:
			gnMacFamily(c)
		case i%20 == 3:
			gnNegDeltaFamily(c)
		case i%20 == 13:
			gnCffLongFamily(c)
		case i%20 == 15:
			gnCffCidNamedFamily(c)
		case i%20 == 14:
			gnCffTextVsLaterName(c)
		case i%20 == 7:
			gnLigFamily(c)
		case i%20 == 17:
			gnDupCffFamily(c)
		case i%10 == 8:
			gnCffCase(c)
		case i%10 == 9:
			gnPsCase(c)
		default:
			n := Pick(r, []int{1, 2, 3, 4, 5, 6, 8, 10, 12, 16, 30})
			if r.Chance(1, 40) {
				n = r.Range(100, 300)
			}
			oob := r.Chance(1, 5)
			if oob {
				c.Stat("stream", "with-out-of-range-gids")
			} else {
				c.Stat("stream", "well-formed")
			}
			gnCase(c, n, oob)
		}
	}
}
