package main

// Area `names` (property C14): Mac Roman and UTF-16 codecs, glyph names in the post table,
// the name table.

import (
	"bytes"
	"errors"
	"fmt"
	"sort"
	"strconv"
	"strings"

	"golang.org/x/text/language"
	"seehuhn.de/go/postscript/funit"

	"seehuhn.de/go/sfnt/mac"
	"seehuhn.de/go/sfnt/name"
	"seehuhn.de/go/sfnt/opentype/gtab"
	"seehuhn.de/go/sfnt/parser"
	"seehuhn.de/go/sfnt/post"
)

func nmRunes(s string) string {
	rr := []rune(s)
	l := make([]int, len(rr))
	for i, r := range rr {
		l[i] = int(r)
	}
	return ints(l)
}

func nmString(f Fields, k string) string {
	l := f.Ints(k)
	rr := make([]rune, len(l))
	for i, x := range l {
		rr[i] = rune(x)
	}
	return string(rr)
}

func nmCanon(s string) string {
	if strings.HasPrefix(s, "panic:") {
		return "panic"
	}
	return s
}

// post header: angle as the 32 bits of int32(round(angle*65536)), underline fields as 16 bits
func nmPostInfo(f Fields) *post.Info {
	h := f.Ints("hdr")
	info := &post.Info{
		ItalicAngle:        float64(int32(uint32(h[0]))) / 65536,
		UnderlinePosition:  funit.Int16(int16(uint16(h[1]))),
		UnderlineThickness: funit.Int16(int16(uint16(h[2]))),
		IsFixedPitch:       h[3] != 0,
	}
	k := f.Int("k")
	if k >= 0 {
		info.Names = make([]string, 0, k)
		if k > 0 {
			for _, x := range strings.Split(f["names"], ",") {
				info.Names = append(info.Names, string(mustHexNm(x)))
			}
		}
	}
	return info
}

func mustHexNm(s string) []byte {
	b := make([]byte, len(s)/2)
	for i := range b {
		var x byte
		fmt.Sscanf(s[2*i:2*i+2], "%02x", &x)
		b[i] = x
	}
	return b
}

func nmShowNames(names []string) string {
	if names == nil {
		return "-1;"
	}
	parts := make([]string, len(names))
	for i, n := range names {
		parts[i] = hx([]byte(n))
	}
	return fmt.Sprintf("%d;", len(names)) + strings.Join(parts, ",")
}

func nmNamesArgs(names []string) string {
	if names == nil {
		return "k=-1"
	}
	if len(names) == 0 {
		return "k=0"
	}
	parts := make([]string, len(names))
	for i, n := range names {
		parts[i] = hx([]byte(n))
	}
	return fmt.Sprintf("k=%d names=%s", len(names), strings.Join(parts, ","))
}

func init() {
	areas["names"] = areaNames
	ops["names.macdec"] = func(f Fields) string {
		return nmCanon(guard(func() string { return nmRunes(mac.Decode(f.Hex("b"))) }))
	}
	// direct predicates on the single-byte decoder (finite table: run exhaustively on every check)
	ops["names.maconeb"] = func(f Fields) string {
		return nmCanon(guard(func() string {
			b := byte(f.Int("b"))
			r := mac.DecodeOne(b)
			return fmt.Sprintf("%d;%s;%s", int(r), nmRunes(mac.Decode([]byte{b})), hx(mac.Encode(string(r))))
		}))
	}
	ops["names.maconer"] = func(f Fields) string {
		return nmCanon(guard(func() string {
			enc := mac.Encode(string(rune(f.Int("r"))))
			if len(enc) != 1 {
				return fmt.Sprintf("encoded-to-%d-bytes", len(enc))
			}
			return fmt.Sprintf("%d;%d", enc[0], int(mac.DecodeOne(enc[0])))
		}))
	}
	// real Encode -> real Read of an explicit glyph-name list
	ops["names.postrtl"] = func(f Fields) string {
		return nmCanon(guard(func() string {
			info, err := post.Read(bytes.NewReader(nmPostInfo(f).Encode()))
			if err != nil {
				return "err"
			}
			return nmShowNames(info.Names)
		}))
	}
	// one record per language id of the platform's table (hand-built table, not through Encode), each
	// with its own string "id<ID>" under name id 1: which strings are still there after the real Decode?
	ops["names.allids"] = func(f Fields) string {
		return nmCanon(guard(func() string {
			plat := f.Int("plat")
			m := name.VerifAppleBCP()
			if plat == 3 {
				m = name.VerifMsBCP()
			}
			ids := nmSortedLangs(m)
			var recs, storage []byte
			for _, id := range ids {
				str := []byte(fmt.Sprintf("id%d", id))
				enc := 0
				if plat == 3 {
					enc = 1
					var u []byte
					for _, ch := range str {
						u = append(u, 0, ch)
					}
					str = u
				}
				off := len(storage)
				storage = append(storage, str...)
				for _, w := range []int{plat, enc, id, 1, len(str), off} {
					recs = append(recs, byte(w>>8), byte(w))
				}
			}
			so := 6 + len(recs)
			data := append([]byte{0, 0, byte(len(ids) >> 8), byte(len(ids)), byte(so >> 8), byte(so)}, recs...)
			data = append(data, storage...)
			info, err := name.Decode(data)
			if err != nil {
				return "err"
			}
			tt := info.Mac
			if plat == 3 {
				tt = info.Windows
			}
			var got []int
			for _, t := range tt {
				if t == nil {
					continue
				}
				var id int
				if _, err := fmt.Sscanf(t.VerifGet(1), "id%d", &id); err != nil {
					return "bad-string:" + hx([]byte(t.VerifGet(1)))
				}
				got = append(got, id)
			}
			sort.Ints(got)
			return fmt.Sprintf("%d;%s", len(got), ints(got))
		}))
	}
	ops["names.macenc"] = func(f Fields) string {
		return nmCanon(guard(func() string { return hx(mac.Encode(nmString(f, "r"))) }))
	}
	ops["names.u16enc"] = func(f Fields) string {
		return nmCanon(guard(func() string { return hx(name.VerifUtf16Encode(nmString(f, "r"))) }))
	}
	ops["names.u16dec"] = func(f Fields) string {
		return nmCanon(guard(func() string { return nmRunes(name.VerifUtf16Decode(f.Hex("b"))) }))
	}
	ops["names.postenc"] = func(f Fields) string {
		return nmCanon(guard(func() string { return hx(nmPostInfo(f).Encode()) }))
	}
	ops["names.postread"] = func(f Fields) string {
		return nmCanon(guard(func() string {
			info, err := post.Read(bytes.NewReader(f.Hex("b")))
			if err != nil {
				var e1 *parser.NotSupportedError
				if errors.As(err, &e1) {
					return "unsupported"
				}
				return "err"
			}
			a := uint32(int32(info.ItalicAngle * 65536))
			fx := 0
			if info.IsFixedPitch {
				fx = 1
			}
			return fmt.Sprintf("ok:%d,%d,%d,%d;", a, uint16(info.UnderlinePosition), uint16(info.UnderlineThickness), fx) +
				nmShowNames(info.Names)
		}))
	}
	// direct predicate: the independent Lean reader applied to bytes written by the real encoder
	ops["names.postspec"] = func(f Fields) string { return f["want"] }
	ops["names.postrt"] = func(f Fields) string {
		return nmCanon(guard(func() string {
			names := nmGenNames(f.Int("n"), f.Int("c"))
			info, err := post.Read(bytes.NewReader((&post.Info{Names: names}).Encode()))
			if err != nil {
				return "err"
			}
			return fmt.Sprintf("%d;%d", len(info.Names), nmFnv(nmShowNames(info.Names)))
		}))
	}
	ops["names.enc"] = func(f Fields) string {
		return nmCanon(guard(func() string { return hx(nmParseInfo(f["info"]).Encode(uint16(f.Int("eid")))) }))
	}
	ops["names.encsum"] = func(f Fields) string {
		return nmCanon(guard(func() string { return nmSummarize(nmParseInfo(f["info"]).Encode(uint16(f.Int("eid")))) }))
	}
	ops["names.dec"] = func(f Fields) string {
		return nmCanon(guard(func() string {
			info, err := name.Decode(f.Hex("b"))
			if err != nil {
				return "err"
			}
			return "ok:" + nmShowInfo(info)
		}))
	}
	ops["names.namespec"] = func(f Fields) string { return f["want"] }
	ops["names.choose"] = func(f Fields) string {
		return nmCanon(guard(func() string {
			tt := name.Tables{}
			for _, e := range f.List("tt", ",") {
				i := strings.IndexByte(e, ':')
				n, _ := strconv.Atoi(e[i+1:])
				t := &name.Table{}
				for k := 0; k < n; k++ {
					t.VerifSet(name.ID(k+(k+10)/25), "x") // ids 0,1,…, skipping the reserved id 15
				}
				tt[string(mustHexNm(e[:i]))] = t
			}
			var prefs []language.Tag
			for _, p := range f.List("prefs", ",") {
				prefs = append(prefs, language.MustParse(string(mustHexNm(p))))
			}
			t, _ := tt.Choose(prefs...)
			if t == nil {
				return "nil"
			}
			for k, v := range tt {
				if v == t {
					return hx([]byte(k))
				}
			}
			return "foreign-table"
		}))
	}
	ops["names.slspec"] = func(f Fields) string { return f["want"] }
	// independence of the language systems read from one table (LangSys offsets may be shared): add
	// feature 99 to the first language system (sorted order) of the ScriptListInfo, then list them all
	ops["names.slshare"] = func(f Fields) string {
		return nmCanon(guard(func() string {
			info, err := gtab.Read(bytes.NewReader(f.Hex("b")), gtab.TypeGsub)
			if err != nil {
				return "read-err"
			}
			type ent struct {
				s  string
				ff *gtab.Features
			}
			list := func() ([]ent, string) {
				var out []ent
				for tag, ff := range info.ScriptList {
					sc, l, e := gtab.VerifBCP47ToOtf(tag)
					if e != nil || ff == nil {
						return nil, "back-err"
					}
					out = append(out, ent{nmLangSys(sc, l, ff), ff})
				}
				sort.Slice(out, func(i, j int) bool { return out[i].s < out[j].s })
				return out, ""
			}
			es, msg := list()
			if msg != "" {
				return msg
			}
			if len(es) > 0 {
				es[0].ff.Optional = append(es[0].ff.Optional, 99)
			}
			es, msg = list()
			if msg != "" {
				return msg
			}
			parts := make([]string, len(es))
			for i, e := range es {
				parts[i] = e.s
			}
			return strings.Join(parts, ",")
		}))
	}
	ops["names.generator-panic"] = func(f Fields) string { return "generator-panic:" + f["section"] }
	ops["names.slrt"] = func(f Fields) string {
		return nmCanon(guard(func() string {
			data, err := nmEncodeScriptList(f.List("pairs", ","))
			if err != "" {
				return err
			}
			info, e := gtab.Read(bytes.NewReader(data), gtab.TypeGsub)
			if e != nil {
				return "read-err"
			}
			var out []string
			for tag, ff := range info.ScriptList {
				s, l, e := gtab.VerifBCP47ToOtf(tag)
				if e != nil {
					return "back-err"
				}
				out = append(out, nmLangSys(s, l, ff))
			}
			sort.Strings(out)
			return strings.Join(out, ",")
		}))
	}
	ops["names.tagnoext"] = func(f Fields) string {
		return nmCanon(guard(func() string {
			tag, err := language.Parse(string(f.Hex("t")))
			if err != nil {
				return "unparsable"
			}
			if _, ok := tag.Extension('x'); ok {
				return "has-ext"
			}
			s, l, err := gtab.VerifBCP47ToOtf(tag)
			if err != nil {
				return "err"
			}
			return hx([]byte(s)) + "|" + hx([]byte(l))
		}))
	}
	ops["names.tagnf"] = func(f Fields) string {
		return nmCanon(guard(func() string {
			tag, err := language.Parse(nmPlainTag(string(f.Hex("s")), string(f.Hex("l"))))
			if err != nil {
				return "unparsable"
			}
			s, l, err := gtab.VerifBCP47ToOtf(tag)
			if err != nil {
				return "err"
			}
			return hx([]byte(s)) + "|" + hx([]byte(l))
		}))
	}
	ops["names.tagkeep"] = func(f Fields) string {
		return nmCanon(guard(func() string {
			tag, err := language.Parse(string(f.Hex("t")))
			if err != nil {
				return "unparsable"
			}
			s, l, err := gtab.VerifBCP47ToOtf(tag)
			if err != nil {
				return "err"
			}
			tag2, err := gtab.VerifOtfToBCP47(s, l)
			if err != nil {
				return "back-err"
			}
			rl, _, _ := tag2.Raw()
			sc, _ := tag2.Script()
			return hx([]byte(rl.String())) + "|" + hx([]byte(sc.String()))
		}))
	}
	ops["names.tagext"] = func(f Fields) string {
		return nmCanon(guard(func() string {
			tag, err := gtab.VerifOtfToBCP47(string(f.Hex("s")), string(f.Hex("l")))
			if err != nil {
				return "err"
			}
			ext, ok := tag.Extension('x')
			if !ok {
				return "no-ext"
			}
			return hx([]byte(ext.String()))
		}))
	}
	ops["names.tagback"] = func(f Fields) string {
		return nmCanon(guard(func() string {
			tag, err := language.Parse("und-" + string(f.Hex("e")))
			if err != nil {
				return "unparsable"
			}
			s, l, err := gtab.VerifBCP47ToOtf(tag)
			if err != nil {
				return "err"
			}
			return hx([]byte(s)) + "|" + hx([]byte(l))
		}))
	}
	ops["names.tagrt"] = func(f Fields) string {
		return nmCanon(guard(func() string {
			tag, err := gtab.VerifOtfToBCP47(string(f.Hex("s")), string(f.Hex("l")))
			if err != nil {
				return "err"
			}
			s, l, err := gtab.VerifBCP47ToOtf(tag)
			if err != nil {
				return "err"
			}
			return hx([]byte(s)) + "|" + hx([]byte(l))
		}))
	}
	ops["names.namert"] = func(f Fields) string {
		return nmCanon(guard(func() string {
			info, err := name.Decode(nmParseInfo(f["info"]).Encode(uint16(f.Int("eid"))))
			if err != nil {
				return "err"
			}
			c := nmShowInfo(info)
			return fmt.Sprintf("%d;%d", len(c), nmFnv(c))
		}))
	}
}

// ---- name table transport --------------------------------------------------------------

type nmEntry struct {
	plat int
	tag  string
	id   int
	val  string
}

func nmShowRunes(s string) string {
	rr := []rune(s)
	var tok []string
	for i := 0; i < len(rr); {
		j := i
		for j < len(rr) && rr[j] == rr[i] {
			j++
		}
		if j-i >= 4 {
			tok = append(tok, fmt.Sprintf("%d*%d", rr[i], j-i))
		} else {
			for k := i; k < j; k++ {
				tok = append(tok, strconv.Itoa(int(rr[i])))
			}
		}
		i = j
	}
	return strings.Join(tok, ".")
}

func nmParseRunes(s string) string {
	if s == "" {
		return ""
	}
	var rr []rune
	for _, t := range strings.Split(s, ".") {
		if i := strings.IndexByte(t, '*'); i >= 0 {
			x, _ := strconv.Atoi(t[:i])
			n, _ := strconv.Atoi(t[i+1:])
			for k := 0; k < n; k++ {
				rr = append(rr, rune(x))
			}
		} else {
			x, _ := strconv.Atoi(t)
			rr = append(rr, rune(x))
		}
	}
	return string(rr)
}

func nmEntriesArg(es []nmEntry) string {
	parts := make([]string, len(es))
	for i, e := range es {
		parts[i] = fmt.Sprintf("%d|%s|%d|%s", e.plat, e.tag, e.id, nmShowRunes(e.val))
	}
	return strings.Join(parts, ",")
}

func nmBuildInfo(es []nmEntry) *name.Info {
	info := &name.Info{Mac: name.Tables{}, Windows: name.Tables{}}
	for _, e := range es {
		tt := info.Mac
		if e.plat == 3 {
			tt = info.Windows
		}
		t := tt[e.tag]
		if t == nil {
			t = &name.Table{}
			tt[e.tag] = t
		}
		t.VerifSet(name.ID(e.id), e.val)
	}
	return info
}

func nmParseInfo(s string) *name.Info {
	var es []nmEntry
	if s != "" {
		for _, t := range strings.Split(s, ",") {
			p := strings.Split(t, "|")
			pl, _ := strconv.Atoi(p[0])
			val := nmParseRunes(p[3])
			if i := strings.IndexByte(p[2], '+'); i >= 0 { // `a+n`: ids a … a+n-1, same string
				a, _ := strconv.Atoi(p[2][:i])
				n, _ := strconv.Atoi(p[2][i+1:])
				for k := 0; k < n; k++ {
					es = append(es, nmEntry{pl, p[1], a + k, val})
				}
				continue
			}
			id, _ := strconv.Atoi(p[2])
			es = append(es, nmEntry{pl, p[1], id, val})
		}
	}
	return nmBuildInfo(es)
}

func nmInfoEntries(info *name.Info) []nmEntry {
	var es []nmEntry
	for pl, tt := range map[int]name.Tables{1: info.Mac, 3: info.Windows} {
		for tag, t := range tt {
			if t == nil {
				continue
			}
			for _, id := range t.VerifKeys() {
				es = append(es, nmEntry{pl, tag, int(id), t.VerifGet(id)})
			}
		}
	}
	sort.Slice(es, func(i, j int) bool {
		a, b := es[i], es[j]
		if a.plat != b.plat {
			return a.plat < b.plat
		}
		if a.tag != b.tag {
			return a.tag < b.tag
		}
		return a.id < b.id
	})
	return es
}

func nmShowInfo(info *name.Info) string { return nmEntriesArg(nmInfoEntries(info)) }

func nmFnv(s string) uint64 {
	h := uint64(14695981039346656037)
	for i := 0; i < len(s); i++ {
		h = (h ^ uint64(s[i])) * 1099511628211
	}
	return h
}

// nmSummarize: order-independent summary of an encoded name table (same function in Drive/Names.lean)
func nmSummarize(d []byte) string {
	at := func(i int) int {
		if i < len(d) {
			return int(d[i])
		}
		return 0
	}
	n := at(2)*256 + at(3)
	so := at(4)*256 + at(5)
	var parts []string
	for i := 0; i < n && 6+12*i+12 <= len(d); i++ {
		w := func(k int) int { return at(6+12*i+2*k)*256 + at(6+12*i+2*k+1) }
		a, l := so+w(5), w(4)
		str := "oob"
		if a+l <= len(d) {
			str = hx(d[a : a+l])
		}
		parts = append(parts, fmt.Sprintf("%d.%d.%d.%d.%d:%s", w(0), w(1), w(2), w(3), l, str))
	}
	return fmt.Sprintf("%d;%d;%d;", n, so, len(d)) + strings.Join(parts, ",")
}

var nmStd []string

func nmGenNames(n, c int) []string {
	if nmStd == nil {
		nmStd = nmStdNames()
	}
	names := make([]string, n)
	for i := range names {
		if i < c {
			names[i] = fmt.Sprintf("g%d", i)
		} else {
			names[i] = nmStd[i%258]
		}
	}
	return names
}

// ---- generators ----------------------------------------------------------------------

var nmMacHigh = func() (out []rune) {
	defer func() {
		if recover() != nil || len(out) != 128 {
			out = make([]rune, 128) // the library failed: the cases built from this are still emitted
			for i := range out {
				out[i] = rune(0xC0 + i%64)
			}
		}
	}()
	b := make([]byte, 128)
	for i := range b {
		b[i] = byte(128 + i)
	}
	return []rune(mac.Decode(b))
}()

func nmRandRune(r *Rng, class int) rune {
	switch class {
	case 0: // ASCII
		return rune(r.Range(0, 127))
	case 1: // Mac Roman high half
		return Pick(r, nmMacHigh)
	case 2: // BMP, not surrogate
		for {
			x := rune(r.Range(0x80, 0xFFFF))
			if x < 0xD800 || x > 0xDFFF {
				return x
			}
		}
	case 3: // astral
		return rune(r.Range(0x10000, 0x10FFFF))
	case 4: // boundaries
		return Pick(r, []rune{0, 0x7F, 0x80, 0xFF, 0x100, 0xD7FF, 0xE000, 0xFFFD, 0xFFFE, 0xFFFF, 0x10000, 0x10FFFF, '?'})
	}
	return 'A'
}

// nmRandString draws a valid UTF-8 string; mode 0 = Mac Roman repertoire only, 1 = any scalar values
func nmRandString(r *Rng, mode, maxLen int) string {
	n := r.Range(1, maxLen)
	rr := make([]rune, n)
	for i := range rr {
		if mode == 0 {
			rr[i] = nmRandRune(r, r.Intn(2))
		} else {
			rr[i] = nmRandRune(r, r.Intn(5))
		}
	}
	// guaranteed frequency (1 in 4) of a special code point at the first, middle or last position
	if r.Chance(1, 4) {
		sp := nmSpecials
		if mode == 0 {
			sp = nmMacSpecials
		}
		pos := []int{0, n / 2, n - 1}[r.Intn(3)]
		rr[pos] = Pick(r, sp)
	}
	return string(rr)
}

// code points at which codecs special-case or break: BOM and its mirror, NUL, the ends of the BMP,
// the neighbours of the surrogate block, the ends of the supplementary planes
var nmSpecials = []rune{0xFEFF, 0xFFFE, 0x0000, 0xFFFF, 0xD7FF, 0xE000, 0x10000, 0x10FFFF}

// the same idea inside the Mac Roman repertoire: NUL, DEL, '?', first/last high byte, NBSP, the apple
var nmMacSpecials = []rune{0x0000, 0x007F, '?', 0x00C4, 0x02C7, 0x00A0, 0xF8FF, 0x20AC}

// nmBoundaryStrings: every special alone, and at the first, middle and last position of a short text
func nmBoundaryStrings(sp []rune, filler []rune) []string {
	var out []string
	for _, x := range sp {
		out = append(out, string([]rune{x}))
		out = append(out, string(append([]rune{x}, filler...)))
		mid := append(append(append([]rune(nil), filler[:len(filler)/2]...), x), filler[len(filler)/2:]...)
		out = append(out, string(mid))
		out = append(out, string(append(append([]rune(nil), filler...), x)))
		out = append(out, string([]rune{x, x}))
	}
	return out
}

func nmStdNames() []string {
	// the library's own table, obtained through a format 1 table
	var names []string
	nmTry(func() {
		info, err := post.Read(bytes.NewReader(append([]byte{0, 1, 0, 0}, make([]byte, 28)...)))
		if err == nil {
			names = append([]string(nil), info.Names...)
		}
	})
	if len(names) != 258 {
		// the library failed to produce its table: the cases are emitted anyway (over placeholder
		// names) and fail against the model
		names = make([]string, 258)
		for i := range names {
			names[i] = fmt.Sprintf("std%d", i)
		}
	}
	return names
}

func nmRandGlyphName(r *Rng) string {
	var n int
	switch r.Intn(12) {
	case 0:
		n = 0
	case 1:
		n = 1
	case 2:
		n = 255
	case 3:
		n = 254
	default:
		n = r.Range(1, 24)
	}
	b := make([]byte, n)
	for i := range b {
		if r.Chance(1, 30) {
			b[i] = byte(r.Intn(256))
		} else {
			b[i] = "abcdefghijklmnopqrstuvwxyzABCDEFGHIJKLMNOPQRSTUVWXYZ0123456789._"[r.Intn(64)]
		}
	}
	return string(b)
}

func areaNames(c *Ctx) {
	// A changed library may panic inside a generator-side call.  Every such call is guarded where it
	// is made (the case is emitted anyway and its op handler reports the panic as a failing line);
	// the section guard below is the last line of defence: a generator never takes the harness down.
	for _, sec := range []struct {
		name string
		fn   func(*Ctx)
	}{{"codecs", nmCodecs}, {"post", nmPost}, {"name", nmNameTable}, {"tags", nmTags}, {"choose", nmChoose}} {
		if msg := nmTry(func() { sec.fn(c) }); msg != "" {
			c.Stat("generator_panic", sec.name)
			// a failing verdict line that names the section (the Lean side answers "bad-op")
			c.Case(Verdict, "names.generator-panic", "section="+sec.name, true)
		}
	}
}

// nmMacRepertoireHigh: the 128 non-ASCII runes of Mac OS Roman (the Apple table, written down here so
// that the generator does not depend on the library under test)
var nmMacRepertoireHigh = []int{
	0xC4, 0xC5, 0xC7, 0xC9, 0xD1, 0xD6, 0xDC, 0xE1, 0xE0, 0xE2, 0xE4, 0xE3, 0xE5, 0xE7, 0xE9, 0xE8,
	0xEA, 0xEB, 0xED, 0xEC, 0xEE, 0xEF, 0xF1, 0xF3, 0xF2, 0xF4, 0xF6, 0xF5, 0xFA, 0xF9, 0xFB, 0xFC,
	0x2020, 0xB0, 0xA2, 0xA3, 0xA7, 0x2022, 0xB6, 0xDF, 0xAE, 0xA9, 0x2122, 0xB4, 0xA8, 0x2260, 0xC6, 0xD8,
	0x221E, 0xB1, 0x2264, 0x2265, 0xA5, 0xB5, 0x2202, 0x2211, 0x220F, 0x3C0, 0x222B, 0xAA, 0xBA, 0x3A9, 0xE6, 0xF8,
	0xBF, 0xA1, 0xAC, 0x221A, 0x192, 0x2248, 0x2206, 0xAB, 0xBB, 0x2026, 0xA0, 0xC0, 0xC3, 0xD5, 0x152, 0x153,
	0x2013, 0x2014, 0x201C, 0x201D, 0x2018, 0x2019, 0xF7, 0x25CA, 0xFF, 0x178, 0x2044, 0x20AC, 0x2039, 0x203A, 0xFB01, 0xFB02,
	0x2021, 0xB7, 0x201A, 0x201E, 0x2030, 0xC2, 0xCA, 0xC1, 0xCB, 0xC8, 0xCD, 0xCE, 0xCF, 0xCC, 0xD3, 0xD4,
	0xF8FF, 0xD2, 0xDA, 0xDB, 0xD9, 0x131, 0x2C6, 0x2DC, 0xAF, 0x2D8, 0x2D9, 0x2DA, 0xB8, 0x2DD, 0x2DB, 0x2C7,
}

// nmTry runs f and returns the panic message ("" if none)
func nmTry(f func()) (msg string) {
	defer func() {
		if r := recover(); r != nil {
			msg = fmt.Sprint(r)
			if msg == "" {
				msg = "panic"
			}
		}
	}()
	f()
	return ""
}

// nmChoose: Tables.Choose; the language matcher's answer (an index into the candidate list) is
// obtained from the real x/text matcher over the predicted candidate order and passed to the model
func nmChoose(c *Ctx) {
	r := c.Rng
	var tags []string
	seen := map[string]bool{}
	for _, m := range []map[uint16]string{name.VerifAppleBCP(), name.VerifMsBCP()} {
		for _, t := range m {
			if !seen[t] {
				seen[t] = true
				tags = append(tags, t)
			}
		}
	}
	sort.Strings(tags)
	english := []string{"en", "en-US", "en-GB", "en-AU", "en-029"}
	c.Case(Verdict, "names.choose", "idx=0 prefs= tt=", false)
	for i := 0; i < c.N/5; i++ {
		k := Pick(r, []int{1, 2, 2, 3, 4, 6, 10})
		cnt := map[string]int{}
		for len(cnt) < k {
			t := Pick(r, tags)
			if r.Chance(1, 3) {
				t = Pick(r, english)
			}
			n := r.Range(0, 12)
			if r.Chance(1, 3) {
				n = Pick(r, []int{0, 5, 6, 10, 11}) // ties and near-ties around the +5 / +55 bonuses
			}
			cnt[t] = n
		}
		keys := make([]string, 0, k)
		for t := range cnt {
			keys = append(keys, t)
		}
		pref := func(t string) int {
			p := 10 * cnt[t]
			if t == "en-US" {
				p += 55
			} else if t == "en" || strings.HasPrefix(t, "en-") {
				p += 5
			}
			return p
		}
		sort.Slice(keys, func(i, j int) bool {
			if pref(keys[i]) != pref(keys[j]) {
				return pref(keys[i]) > pref(keys[j])
			}
			return keys[i] < keys[j]
		})
		var prefs []string
		switch r.Intn(4) {
		case 0: // nothing: the matcher answers its default
		case 1:
			prefs = []string{Pick(r, keys)}
		case 2:
			prefs = []string{Pick(r, tags), Pick(r, keys)}
		case 3:
			prefs = []string{Pick(r, []string{"tlh", "en", "de-CH", "zh-TW", "pt-BR", "sr-Latn"})}
		}
		mt := make([]language.Tag, len(keys))
		for j, t := range keys {
			mt[j] = language.MustParse(t)
		}
		pt := make([]language.Tag, len(prefs))
		ph := make([]string, len(prefs))
		for j, p := range prefs {
			pt[j] = language.MustParse(p)
			ph[j] = hx([]byte(p))
		}
		_, idx, _ := language.NewMatcher(mt).Match(pt...)
		sort.Strings(keys) // the case line does not reveal the predicted order
		parts := make([]string, len(keys))
		for j, t := range keys {
			parts[j] = fmt.Sprintf("%s:%d", hx([]byte(t)), cnt[t])
		}
		c.Case(Verdict, "names.choose", fmt.Sprintf("idx=%d prefs=%s tt=%s", idx, strings.Join(ph, ","), strings.Join(parts, ",")), true)
		c.Stat("choose_tables", bucket(k))
		c.Stat("choose_prefs", fmt.Sprint(len(prefs)))
		c.Stat("choose_matcher_index", bucket(idx))
	}
}

func nmLangSys(s, l string, ff *gtab.Features) string {
	opt := make([]string, len(ff.Optional))
	for i, x := range ff.Optional {
		opt[i] = fmt.Sprint(int(x))
	}
	return fmt.Sprintf("%s:%s:%d:%s", hx([]byte(s)), hx([]byte(l)), int(ff.Required), strings.Join(opt, "."))
}

// nmEncodeScriptList builds a GSUB table whose script list has one language system per entry
// `scripthex:langhex:required:opt.opt…` (tags through the real otfToBCP47) and encodes it
func nmEncodeScriptList(pairs []string) ([]byte, string) {
	sl := gtab.ScriptListInfo{}
	maxF := 0
	for _, p := range pairs {
		q := strings.Split(p, ":")
		tag, err := gtab.VerifOtfToBCP47(string(mustHexNm(q[0])), string(mustHexNm(q[1])))
		if err != nil {
			return nil, "tag-err"
		}
		req, _ := strconv.Atoi(q[2])
		ff := &gtab.Features{Required: gtab.FeatureIndex(req)}
		if req != 0xFFFF && req >= maxF {
			maxF = req + 1
		}
		if q[3] != "" {
			for _, o := range strings.Split(q[3], ".") {
				x, _ := strconv.Atoi(o)
				ff.Optional = append(ff.Optional, gtab.FeatureIndex(x))
				if x >= maxF {
					maxF = x + 1
				}
			}
		}
		if _, dup := sl[tag]; dup {
			return nil, "tag-collision"
		}
		sl[tag] = ff
	}
	fl := make(gtab.FeatureListInfo, maxF)
	for i := range fl {
		fl[i] = &gtab.Feature{Tag: "test"}
	}
	// a nil lookup list makes Encode write lookupListOffset 0, and Read then ignores the script list
	info := &gtab.Info{ScriptList: sl, FeatureList: fl, LookupList: gtab.LookupList{}}
	return info.Encode(), ""
}

func nmScriptListCase(c *Ctx, pairs [][2]string, class string) {
	r := c.Rng
	parts := make([]string, len(pairs))
	for i, p := range pairs {
		req := 0xFFFF
		if r.Chance(1, 3) {
			req = r.Range(0, 5)
		}
		var opt []string
		for k := r.Range(0, 3); k > 0; k-- {
			opt = append(opt, fmt.Sprint(r.Range(0, 9)))
		}
		opt = append(opt, fmt.Sprint(10+i%50)) // makes every entry distinguishable
		parts[i] = fmt.Sprintf("%s:%s:%d:%s", hx([]byte(p[0])), hx([]byte(p[1])), req, strings.Join(opt, "."))
	}
	arg := strings.Join(parts, ",")
	c.Case(Direct, "names.slrt", "pairs="+arg, true)
	var data []byte
	err := ""
	if msg := nmTry(func() { data, err = nmEncodeScriptList(parts) }); msg != "" {
		// the real encoder panicked: the independent reader gets nothing to read and the line fails
		data, err = nil, ""
		c.Stat("scriptlist_class", "encoder-panic")
	}
	if err == "" {
		sorted := append([]string(nil), parts...)
		sort.Strings(sorted)
		c.Case(Direct, "names.slspec", "b="+hx(data)+" want="+strings.Join(sorted, ","), true)
	}
	c.Stat("scriptlist_class", class)
	c.Stat("scriptlist_langsys", bucket(len(pairs)))
}

// nmScriptLists: language systems for pairs of the two tag tables through (*gtab.Info).Encode and
// gtab.Read (and through an independent Lean reader of the script list)
// nmHandScriptList lays out a GSUB table by hand.  scripts: tag -> list of (language tag or "" for the
// default language system, index of the LangSys table it points to); langSys: the LangSys tables of that
// script (required feature, feature indices).  Several records may point to one table.
type nmHandRec struct {
	lang string
	sys  int
}
type nmHandSys struct {
	req  int
	opts []int
}
type nmHandScript struct {
	tag  string
	recs []nmHandRec
	sys  []nmHandSys
}

func nmHandScriptList(scripts []nmHandScript) []byte {
	w := func(b []byte, v int) []byte { return append(b, byte(v>>8), byte(v)) }
	var tables [][]byte
	for _, sc := range scripts {
		nl := 0
		for _, rc := range sc.recs {
			if rc.lang != "" {
				nl++
			}
		}
		pos := 4 + 6*nl
		sysOff := make([]int, len(sc.sys))
		var sysBytes []byte
		for i, ls := range sc.sys {
			sysOff[i] = pos + len(sysBytes)
			sysBytes = w(sysBytes, 0)
			sysBytes = w(sysBytes, ls.req)
			sysBytes = w(sysBytes, len(ls.opts))
			for _, o := range ls.opts {
				sysBytes = w(sysBytes, o)
			}
		}
		var t []byte
		dflt := 0
		for _, rc := range sc.recs {
			if rc.lang == "" {
				dflt = sysOff[rc.sys]
			}
		}
		t = w(t, dflt)
		t = w(t, nl)
		for _, rc := range sc.recs {
			if rc.lang != "" {
				t = append(t, rc.lang...)
				t = w(t, sysOff[rc.sys])
			}
		}
		tables = append(tables, append(t, sysBytes...))
	}
	var sl []byte
	sl = w(sl, len(scripts))
	off := 2 + 6*len(scripts)
	for i, sc := range scripts {
		sl = append(sl, sc.tag...)
		sl = w(sl, off)
		off += len(tables[i])
	}
	for _, t := range tables {
		sl = append(sl, t...)
	}
	// feature list with 100 features without lookups, empty lookup list
	const nf = 100
	var fl []byte
	fl = w(fl, nf)
	for i := 0; i < nf; i++ {
		fl = append(fl, "test"...)
		fl = w(fl, 2+6*nf+4*i)
	}
	for i := 0; i < nf; i++ {
		fl = append(fl, 0, 0, 0, 0)
	}
	hdr := []byte{0, 1, 0, 0}
	hdr = w(hdr, 10)
	hdr = w(hdr, 10+len(sl))
	hdr = w(hdr, 10+len(sl)+len(fl))
	out := append(hdr, sl...)
	out = append(out, fl...)
	return append(out, 0, 0)
}

// nmSharedLangSys: tables as real fonts have them — several language systems of a script (default and/or
// languages) pointing at ONE LangSys table; read through gtab.Read, the language systems must be
// independent values
func nmSharedLangSys(c *Ctx) {
	r := c.Rng
	sys := func(n int) []nmHandSys {
		out := make([]nmHandSys, n)
		for i := range out {
			out[i] = nmHandSys{req: 0xFFFF, opts: []int{1 + i, 10 + i}}
			if r.Chance(1, 3) {
				out[i].req = r.Range(0, 5)
			}
		}
		return out
	}
	cases := [][]nmHandScript{
		{{"latn", []nmHandRec{{"", 0}, {"DEU ", 0}}, sys(1)}},                           // default and a language share
		{{"latn", []nmHandRec{{"", 0}, {"DEU ", 1}, {"NLD ", 1}}, sys(2)}},              // two languages share
		{{"latn", []nmHandRec{{"", 0}, {"DEU ", 0}, {"NLD ", 0}, {"TRK ", 0}}, sys(1)}}, // everything shares
		{{"latn", []nmHandRec{{"DEU ", 0}, {"NLD ", 1}, {"TRK ", 0}}, sys(2)}},          // no default, non-adjacent records share
		{{"cyrl", []nmHandRec{{"", 0}, {"RUS ", 0}}, sys(1)}, {"latn", []nmHandRec{{"", 0}, {"DEU ", 1}}, sys(2)}},
		{{"arab", []nmHandRec{{"ARA ", 0}, {"URD ", 0}}, sys(1)}, {"latn", []nmHandRec{{"", 0}}, sys(1)}},
		{{"latn", []nmHandRec{{"", 0}, {"DEU ", 1}, {"NLD ", 2}}, sys(3)}}, // control: nothing shared
	}
	for i := 0; i < 6; i++ { // random sharing patterns
		langs := []string{"", "DEU ", "NLD ", "TRK ", "ROM ", "PLK "}
		n := r.Range(2, len(langs))
		k := r.Range(1, n)
		var recs []nmHandRec
		for j := 0; j < n; j++ {
			recs = append(recs, nmHandRec{langs[j], r.Intn(k)})
		}
		cases = append(cases, []nmHandScript{{"latn", recs, sys(k)}})
	}
	for _, sc := range cases {
		var data []byte
		if nmTry(func() { data = nmHandScriptList(sc) }) != "" {
			continue
		}
		c.Case(Direct, "names.slshare", "b="+hx(data), true)
		c.Stat("scriptlist_class", "hand-laid-shared-langsys")
	}
}

func nmScriptLists(c *Ctx, sk, lk []string) {
	r := c.Rng
	nmSharedLangSys(c)
	if c.Tier == "thorough" {
		for _, s := range sk { // every pair of the two tables: one script with all language systems
			var pairs [][2]string
			for _, l := range lk {
				pairs = append(pairs, [2]string{s, l})
			}
			nmScriptListCase(c, pairs, "one-script-all-languages")
		}
	}
	// default language system present / absent in every arrangement: for 1, 2 and 3 scripts (sorted tag
	// order arab < cyrl < latn) every subset of scripts has a default LangSys; scripts have 0, 1 or 2
	// explicit language systems (languages-only scripts, default-only scripts); then runs of four scripts
	// with the default-less ones first / in the middle / last / two in a row
	trio := []string{"arab", "cyrl", "latn"}
	explicit := map[string][]string{"arab": {"ARA ", "URD "}, "cyrl": {"RUS ", "SRB "}, "latn": {"DEU ", "NLD "}, "grek": {"ELL "}, "hebr": {"IWR "}}
	for n := 1; n <= 3; n++ {
		for mask := 0; mask < 1<<n; mask++ {
			for nl := 0; nl <= 2; nl++ {
				var pairs [][2]string
				for i := 0; i < n; i++ {
					sc := trio[i]
					hasDefault := mask&(1<<i) != 0
					if hasDefault {
						pairs = append(pairs, [2]string{sc, ""})
					}
					k := nl
					if !hasDefault && k == 0 {
						k = 1 // a script needs at least one language system
					}
					for _, l := range explicit[sc][:k] {
						pairs = append(pairs, [2]string{sc, l})
					}
				}
				nmScriptListCase(c, pairs, fmt.Sprintf("default-pattern-%d-scripts", n))
			}
		}
	}
	for _, pat := range []string{"DDDD", "dDDD", "DdDD", "DDDd", "DddD", "ddDD", "DDdd", "dddd", "dDdD", "DdDd"} {
		var pairs [][2]string
		for i, sc := range []string{"arab", "cyrl", "grek", "latn"} {
			if pat[i] == 'D' {
				pairs = append(pairs, [2]string{sc, ""})
				if r.Bool() {
					pairs = append(pairs, [2]string{sc, explicit[sc][0]})
				}
			} else {
				pairs = append(pairs, [2]string{sc, explicit[sc][0]})
			}
		}
		// the map order of the keys is Go's; the case line lists the entries in a shuffled order too
		for j := len(pairs) - 1; j > 0; j-- {
			k := r.Intn(j + 1)
			pairs[j], pairs[k] = pairs[k], pairs[j]
		}
		nmScriptListCase(c, pairs, "default-pattern-"+pat)
	}
	// every script and every language at least once, a few language systems per script
	li := 0
	for _, s := range sk {
		pairs := [][2]string{{s, ""}}
		for k := 0; k < 4; k++ {
			pairs = append(pairs, [2]string{s, lk[1+li%(len(lk)-1)]})
			li++
		}
		nmScriptListCase(c, pairs, "each-script")
	}
	for i := 0; i < c.N/25; i++ { // several scripts in one list, with and without default language system
		seen := map[[2]string]bool{}
		var pairs [][2]string
		for k := r.Range(1, 12); k > 0; k-- {
			p := [2]string{Pick(r, sk[:1+r.Intn(len(sk))]), Pick(r, lk)}
			if r.Chance(1, 3) {
				p[1] = "" // default language system
			}
			if r.Chance(1, 2) && len(pairs) > 0 {
				p[0] = pairs[len(pairs)-1][0]
			}
			if !seen[p] {
				seen[p] = true
				pairs = append(pairs, p)
			}
		}
		nmScriptListCase(c, pairs, "mixed")
	}
}

// nmPlainTag: the BCP 47 tag "lang-Script" (no extension) for a pair of the tables
func nmPlainTag(script, lang string) string {
	bl := "und"
	if lang != "" {
		bl = gtab.VerifLangBcp47()[lang]
	}
	return bl + "-" + gtab.VerifScriptBcp47()[script]
}

// nmPlainCase: a tag without -x- extension through the real bcp47ToOtf; x/text's view of the tag
// (special Chinese tags, raw language, script) is reported to the model
func nmPlainCase(c *Ctx, t string, class string) {
	tag, err := language.Parse(t)
	if err != nil {
		c.Stat("tag_plain", "unparsable")
		return
	}
	kind := 0
	switch tag {
	case language.Chinese:
		kind = 1
	case language.SimplifiedChinese:
		kind = 2
	case language.TraditionalChinese:
		kind = 3
	}
	rl, _, _ := tag.Raw()
	sc, _ := tag.Script()
	c.Case(Verdict, "names.tagnoext", fmt.Sprintf("t=%s k=%d rl=%s sc=%s", hx([]byte(t)), kind, hx([]byte(rl.String())), hx([]byte(sc.String()))), true)
	c.Stat("tag_plain", class)
}

func nmPlainTags(c *Ctx, sk, lk []string) {
	r := c.Rng
	scripts, langs := gtab.VerifScriptBcp47(), gtab.VerifLangBcp47()
	pair := func(s, l string) {
		if l != "" && strings.Contains(langs[l], "-") {
			// value is not a bare language subtag: verdict only
			nmPlainCase(c, langs[l], "dashed-language-value")
			return
		}
		t := nmPlainTag(s, l)
		nmPlainCase(c, t, "table-pair")
		args := "s=" + hx([]byte(s)) + " l=" + hx([]byte(l))
		bl := "und"
		if l != "" {
			bl = langs[l]
		}
		// the predictions below are stated for tags of which x/text reports language and script as
		// written; x/text rewrites one tag of the tables ("pa-Zzzz" is parsed as "pa-Arab"): verdict only
		if tag, err := language.Parse(t); err == nil {
			rl, _, _ := tag.Raw()
			sc, _ := tag.Script()
			if rl.String() != bl || sc.String() != scripts[s] {
				c.Stat("tag_plain", "xtext-rewrites-tag:"+t)
				return
			}
		}
		c.Case(Direct, "names.tagnf", args, true)
		c.Case(Direct, "names.tagkeep", fmt.Sprintf("t=%s rl=%s sc=%s", hx([]byte(t)), hx([]byte(bl)), hx([]byte(scripts[s]))), true)
	}
	if c.Tier == "thorough" {
		for _, s := range sk {
			for _, l := range lk {
				pair(s, l)
			}
		}
	} else {
		for _, s := range sk {
			pair(s, "")
			pair(s, Pick(r, lk))
			pair(s, Pick(r, lk))
		}
		for _, l := range lk {
			pair(Pick(r, sk), l)
		}
	}
	// tags a user may write: regions, variants, implied scripts, the three special Chinese tags
	for _, t := range []string{"zh", "zh-Hans", "zh-Hant", "zh-Hani", "zh-TW", "zh-CN", "zh-Hant-HK", "zh-Hans-SG",
		"und", "und-Latn", "und-Zzzz", "de", "de-CH", "de-Latn-AT", "en-US", "pt-BR", "sr", "sr-Latn", "sr-Cyrl-RS",
		"az-Cyrl-AZ", "el-polyton", "nl", "nl-BE", "bn", "bn-Beng-IN", "hy", "ro-MD", "ga", "iu-Cans", "ja", "ko", "he", "iw",
		"ar-EG", "fa-Arab", "ur", "hi", "ta-Taml", "tlh", "mul"} {
		nmPlainCase(c, t, "user-tag")
	}
}

func nmTags(c *Ctx) {
	r := c.Rng
	scripts, langs := gtab.VerifScriptBcp47(), gtab.VerifLangBcp47()
	var sk, lk []string
	for s := range scripts {
		sk = append(sk, s)
	}
	for l := range langs {
		lk = append(lk, l)
	}
	sort.Strings(sk)
	sort.Strings(lk)
	lk = append([]string{""}, lk...)
	pair := func(s, l string) {
		args := "s=" + hx([]byte(s)) + " l=" + hx([]byte(l))
		ext := c.Case(Verdict, "names.tagext", args, true)
		if ext != "err" && ext != "no-ext" && ext != "panic" {
			c.Case(Verdict, "names.tagback", "e="+ext, true)
		}
		if _, ok := scripts[s]; ok {
			if _, ok2 := langs[l]; ok2 || l == "" {
				c.Case(Direct, "names.tagrt", args, true)
			}
		}
		c.Stat("tag_script_len", fmt.Sprint(len(strings.TrimRight(s, " "))))
		c.Stat("tag_lang_len", fmt.Sprint(len(strings.TrimRight(l, " "))))
	}
	if c.Tier == "thorough" {
		for _, s := range sk { // every pair of the two tables
			for _, l := range lk {
				pair(s, l)
			}
		}
	} else {
		for _, s := range sk { // every script, every language, sampled combinations
			pair(s, "")
			pair(s, Pick(r, lk))
		}
		for _, l := range lk {
			pair(Pick(r, sk), l)
		}
	}
	nmScriptLists(c, sk, lk)
	nmPlainTags(c, sk, lk)
	// tags outside the tables (verdict: both sides refuse)
	for _, s := range []string{"dflt", "zzzz", "lao", "LATN", ""} {
		pair(s, "DEU ")
	}
	pair("latn", "XXXX")
	// extensions of other shapes for the way back
	alnum := "abcdefghijklmnopqrstuvwxyz0123456789"
	for i := 0; i < c.N/10; i++ {
		parts := []string{"x"}
		for k := r.Range(1, 4); k > 0; k-- {
			b := make([]byte, r.Range(1, 5))
			for j := range b {
				b[j] = alnum[r.Intn(len(alnum))]
			}
			parts = append(parts, string(b))
		}
		c.Case(Verdict, "names.tagback", "e="+hx([]byte(strings.Join(parts, "-"))), true)
		c.Stat("tag_ext_parts", fmt.Sprint(len(parts)))
	}
}

func nmSortedLangs(m map[uint16]string) []int {
	var l []int
	for k := range m {
		l = append(l, int(k))
	}
	sort.Ints(l)
	return l
}

func nmMacOK(s string) bool {
	return s != "" && mac.Decode(mac.Encode(s)) == s
}

// nmInDomain: supported tags, non-empty strings, Mac strings representable
func nmInDomain(es []nmEntry) bool {
	macTags, winTags := map[string]bool{}, map[string]bool{}
	for _, t := range name.VerifAppleBCP() {
		macTags[t] = true
	}
	for _, t := range name.VerifMsBCP() {
		winTags[t] = true
	}
	for _, e := range es {
		if e.val == "" {
			return false
		}
		if e.plat == 1 && (!macTags[e.tag] || !nmMacOK(e.val)) {
			return false
		}
		if e.plat == 3 && !winTags[e.tag] {
			return false
		}
	}
	return true
}

// nmFits: the guard of C14_name_roundtrip — record count and string storage inside the 16-bit fields
func nmFits(es []nmEntry, eid int) (numRec, storage int, ok bool) {
	seen := map[string]bool{}
	ok = true
	cnt := func(m map[uint16]string, tag string) int {
		n := 0
		for _, t := range m {
			if t == tag {
				n++
			}
		}
		return n
	}
	for _, e := range es {
		if e.val == "" {
			continue
		}
		var b []byte
		if e.plat == 1 {
			b = mac.Encode(e.val)
			numRec += cnt(name.VerifAppleBCP(), e.tag)
		} else {
			b = name.VerifUtf16Encode(e.val)
			numRec += cnt(name.VerifMsBCP(), e.tag)
		}
		if !seen[string(b)] {
			seen[string(b)] = true
			storage += len(b)
		}
	}
	ok = storage <= 65535 && 6+12*numRec <= 65535
	return
}

// nmSpecWant: the records an independent reader must see for this Info
func nmSpecWant(es []nmEntry, eid int) string {
	type rec struct {
		p, e, l, id int
		v           string
	}
	var rs []rec
	for _, e := range es {
		m := name.VerifAppleBCP()
		enc := 0
		if e.plat == 3 {
			m = name.VerifMsBCP()
			enc = eid
		}
		for l, t := range m {
			if t == e.tag {
				rs = append(rs, rec{e.plat, enc, int(l), e.id, e.val})
			}
		}
	}
	sort.Slice(rs, func(i, j int) bool {
		a, b := rs[i], rs[j]
		if a.p != b.p {
			return a.p < b.p
		}
		if a.l != b.l {
			return a.l < b.l
		}
		return a.id < b.id
	})
	parts := make([]string, len(rs))
	for i, r := range rs {
		parts[i] = fmt.Sprintf("%d|%d|%d|%d|%s", r.p, r.e, r.l, r.id, nmShowRunes(r.v))
	}
	return strings.Join(parts, ",")
}

func nmNameCase(c *Ctx, es []nmEntry, eid int, class string) {
	r := c.Rng
	args := fmt.Sprintf("eid=%d info=%s", eid, nmEntriesArg(es))
	tags := map[int]map[string]bool{1: {}, 3: {}}
	for _, e := range es {
		tags[e.plat][e.tag] = true
	}
	c.Stat("name_class", class)
	c.Stat("name_entries", bucket(len(es)))
	c.Stat("name_mac_tags", bucket(len(tags[1])))
	c.Stat("name_win_tags", bucket(len(tags[3])))
	var numRec, storage int
	fits := true
	nmTry(func() { numRec, storage, fits = nmFits(es, eid) })
	c.Stat("name_records", bucket(numRec))
	c.Stat("name_storage", bucket(storage))
	// byte-exact for every Info: after the repair Encode visits the language ids in increasing
	// order, so the storage layout is a function of the Info (also beyond the capacity guard)
	out := c.Case(Verdict, "names.enc", args, len(es) > 0)
	domOK := true // if the library panics while the domain is evaluated the direct lines are emitted anyway
	nmTry(func() { domOK = nmInDomain(es) })
	domOK = domOK && (eid == 1 || eid == 10)
	if out == "panic" {
		// the encoder refused (16-bit capacity of the format): the model must refuse too (verdict
		// above) and refusal is what the property's predicate expects there (direct)
		c.Stat("name_outcome", "refused")
		if domOK {
			c.Case(Direct, "names.namert", args, true)
		}
		return
	}
	if out == "timeout" {
		return
	}
	c.Stat("name_outcome", "encoded")
	b := mustHexNm(out)
	if len(tags[1]) > 1 || len(tags[3]) > 1 {
		c.Stat("name_enc_byte_exact", "several-tags-per-platform")
		if fits && r.Chance(1, 4) {
			c.Case(Verdict, "names.encsum", args, true)
		}
	} else {
		c.Stat("name_enc_byte_exact", "at-most-one-tag-per-platform")
	}
	if len(b) < 40000 || r.Chance(1, 4) {
		c.Case(Verdict, "names.dec", "b="+hx(b), len(es) > 0)
	}
	inDom := domOK // no capacity condition: beyond it the encoder refuses, which was handled above
	c.Stat("name_in_domain", fmt.Sprint(inDom))
	if inDom {
		c.Case(Direct, "names.namert", args, len(es) > 0)
		if len(b) < 40000 {
			c.Case(Direct, "names.namespec", "b="+hx(b)+" want="+nmSpecWant(es, eid), len(es) > 0)
		}
	}
	if r.Chance(1, 3) && len(b) > 0 && len(b) < 20000 {
		m := append([]byte(nil), b...)
		switch r.Intn(4) {
		case 0:
			m = m[:r.Intn(len(m)+1)]
			c.Stat("name_mutation", "truncated")
		case 1:
			m[r.Intn(len(m))] = byte(r.Intn(256))
			c.Stat("name_mutation", "byte")
		case 2:
			if len(m) > 18 {
				i := 6 + 12*r.Intn((len(m)-6)/12)
				if i+12 <= len(m) {
					m[i+r.Intn(12)] = byte(r.Intn(4))
				}
			}
			c.Stat("name_mutation", "record-field")
		case 3:
			m[1] = byte(r.Intn(3))
			c.Stat("name_mutation", "version")
		}
		c.Case(Verdict, "names.dec", "b="+hx(m), true)
	}
}

func nmRandID(r *Rng) int {
	switch r.Intn(8) {
	case 0:
		return Pick(r, []int{15, 25, 26, 255, 256, 32767, 32768, 65535})
	case 1:
		return r.Range(26, 65535)
	}
	return r.Range(0, 25)
}

func nmNameTable(c *Ctx) {
	r := c.Rng
	apple, ms := name.VerifAppleBCP(), name.VerifMsBCP()
	// every language id of both tables
	for _, l := range nmSortedLangs(apple) {
		nmNameCase(c, []nmEntry{{1, apple[uint16(l)], 1, "Fam" + string(nmRandRune(r, 1))}}, 1, "each-mac-language")
	}
	for _, l := range nmSortedLangs(ms) {
		nmNameCase(c, []nmEntry{{3, ms[uint16(l)], 4, "Full " + string(nmRandRune(r, 2)) + string(nmRandRune(r, 3))}}, 1, "each-windows-language")
	}
	nmNameCase(c, nil, 1, "empty")
	// every language id of each platform in one hand-built table: nothing may be lost on Decode
	c.Case(Direct, "names.allids", "plat=1", true)
	c.Case(Direct, "names.allids", "plat=3", true)
	c.Stat("name_class", "all-language-ids")
	// boundary strings in records (every run): each special code point alone / first / middle / last,
	// on both platforms, also shared between records
	for i, s := range nmBoundaryStrings(nmSpecials, []rune("Ab\u00e9\u4e2d")) {
		es := []nmEntry{{3, "en-US", 1 + i%5, s}, {3, "de-DE", 300, s + "x"}, {3, "en-US", 26, "x" + s}}
		nmNameCase(c, es, []int{1, 1, 10}[i%3], "boundary-windows")
	}
	// a Macintosh string and a Windows string that occupy the SAME storage bytes (Encode shares storage
	// by content): the Mac Roman bytes of the one are the UTF-16BE bytes of the other
	for i := 0; i < 24+c.N/100; i++ {
		var macStr string
		if i == 0 {
			macStr = "Test"
		} else {
			macStr = nmRandString(r, 0, 8)
		}
		mb := mac.Encode(macStr)
		if len(mb)%2 == 1 {
			mb = append(mb, 'x')
		}
		ok := true
		var wr []rune
		for j := 0; j+1 < len(mb); j += 2 {
			u := rune(mb[j])<<8 | rune(mb[j+1])
			if u >= 0xD800 && u <= 0xDFFF {
				ok = false
			}
			wr = append(wr, u)
		}
		if !ok || len(mb) == 0 {
			continue
		}
		macStr = mac.Decode(mb)
		winStr := string(wr)
		idW := 1
		if i%2 == 1 {
			idW = 4 // different name ids
		}
		es := []nmEntry{{1, "en", 1, macStr}, {3, "en-US", idW, winStr}}
		if i%3 == 2 { // both orders of first use, more records sharing the bytes
			es = append(es, nmEntry{3, "de-DE", 1, winStr}, nmEntry{1, "fr", 2, macStr})
		}
		nmNameCase(c, es, []int{1, 10}[i%2], "mac-and-windows-share-storage-bytes")
	}
	for i, s := range nmBoundaryStrings(nmMacSpecials, []rune("Ab\u00e9\u2260")) {
		es := []nmEntry{{1, "en", 1 + i%5, s}, {1, "fr", 2, "x" + s}, {3, "en-US", 1, s}}
		nmNameCase(c, es, 1, "boundary-mac")
	}
	var macTags, winTags []string
	for _, l := range nmSortedLangs(apple) {
		macTags = append(macTags, apple[uint16(l)])
	}
	for _, l := range nmSortedLangs(ms) {
		winTags = append(winTags, ms[uint16(l)])
	}
	n := c.N / 5
	for i := 0; i < n; i++ {
		var es []nmEntry
		pool := []string{}
		for j := r.Range(1, 6); j > 0; j-- {
			pool = append(pool, nmRandString(r, 0, 20))
		}
		str := func(mode int) string {
			if r.Chance(1, 3) {
				return Pick(r, pool) // equal strings in different records: storage sharing
			}
			ml := 30
			if r.Chance(1, 40) {
				ml = 2000
			}
			return nmRandString(r, mode, ml)
		}
		seen := map[string]bool{}
		add := func(pl int, tag string, mode int) {
			for k := r.Range(1, 8); k > 0; k-- {
				id := nmRandID(r)
				key := fmt.Sprint(pl, tag, id)
				if seen[key] {
					continue
				}
				seen[key] = true
				es = append(es, nmEntry{pl, tag, id, str(mode)})
			}
		}
		class := "random"
		nm, nw := Pick(r, []int{0, 1, 1, 2, 3}), Pick(r, []int{0, 1, 1, 2, 4})
		for j := 0; j < nm; j++ {
			add(1, Pick(r, macTags), 0)
		}
		for j := 0; j < nw; j++ {
			add(3, Pick(r, winTags), 1)
		}
		eid := 1
		if r.Chance(1, 8) {
			// outside the domain of the round trip: verdict streams only
			switch r.Intn(4) {
			case 0:
				es = append(es, nmEntry{Pick(r, []int{1, 3}), Pick(r, []string{"xx", "en-XX", "tlh", "zz-Zzzz"}), nmRandID(r), "abc"})
				class = "unsupported-tag"
			case 1:
				es = append(es, nmEntry{1, Pick(r, macTags), 300, nmRandString(r, 1, 10) + "中"})
				class = "mac-unrepresentable"
			case 2:
				es = append(es, nmEntry{Pick(r, []int{1, 3}), "en", 301, ""})
				class = "empty-string"
			case 3:
				eid = Pick(r, []int{0, 10, 10, 65535})
				class = "other-windows-encoding"
			}
		}
		nmNameCase(c, es, eid, class)
	}
	// capacity of the record directory: 5460 records is the last count whose storage offset fits
	c.Case(Direct, "names.namert", "eid=1 info=1|en|1000+5460|120", true)
	c.Case(Direct, "names.namert", "eid=1 info=1|en|1000+5461|120", true) // one record too many: refused
	c.Case(Direct, "names.namert", "eid=1 info=3|en-US|0+5000|120.121,1|en|0+400|122", true)
	c.Stat("name_class", "directory-capacity")
	// the storage holds EXACTLY p bytes of distinct strings when one more distinct string is added:
	// p <= 65535 is faithful, p >= 65536 must be refused (the new string would start beyond offset 0xFFFF)
	for _, p := range []int{65534, 65535, 65536, 65537} {
		nmNameCase(c, []nmEntry{{1, "en", 1, strings.Repeat("a", 32768)}, {1, "en", 2, strings.Repeat("b", p-32768)},
			{1, "en", 3, "xy"}}, 1, fmt.Sprintf("storage-before-last-string-%d", p))
	}
	nmNameCase(c, []nmEntry{{3, "en-US", 1, strings.Repeat("a", 16384)}, {3, "en-US", 2, strings.Repeat("b", 16384)},
		{3, "en-US", 3, "xy"}}, 1, "storage-before-last-string-65536")
	nmNameCase(c, []nmEntry{{3, "en-US", 1, strings.Repeat("a", 16384)}, {3, "en-US", 2, strings.Repeat("b", 16383)},
		{3, "en-US", 3, "xy"}, {1, "en", 1, "m"}}, 10, "storage-before-last-string-65534")
	// storage just below / at / above the 16-bit limit (strings of one repeated character)
	for _, total := range []int{65534, 65535, 65536, 65537, 70000, 105536, 105540, 140000} {
		// three Windows strings (2 bytes per unit) and one Mac string making up `total` bytes
		a, b2 := 20000, 20000
		rest := total - a - b2
		w3 := rest / 2 * 2
		m := rest - w3
		es := []nmEntry{
			{3, "en-US", 1, strings.Repeat("a", a/2)},
			{3, "en-US", 2, strings.Repeat("b", b2/2)},
			{3, "en-US", 300, strings.Repeat("c", w3/2-2)},
			{3, "de-DE", 1, "xy"},
		}
		if m > 0 {
			es = append(es, nmEntry{1, "en", 1, strings.Repeat("m", m)})
		}
		nmNameCase(c, es, 1, fmt.Sprintf("storage-%d", total))
	}
}

func nmCodecs(c *Ctx) {
	r := c.Rng
	// all 256 bytes, one by one and as one string
	all := make([]byte, 256)
	for i := range all {
		all[i] = byte(i)
		c.Case(Verdict, "names.macdec", "b="+hx(all[i:i+1]), i >= 128)
	}
	c.Case(Verdict, "names.macdec", "b="+hx(all), true)
	c.Case(Verdict, "names.macdec", "b=", false)
	c.Stat("macdec", "all-256-bytes")
	// DecodeOne on all 256 bytes: agrees with Decode, and Encode inverts it; every rune of the
	// repertoire (ASCII and the 128 runes of the regenerated table): Encode then DecodeOne gives it back
	for i := 0; i < 256; i++ {
		c.Case(Direct, "names.maconeb", fmt.Sprintf("b=%d", i), i >= 128)
	}
	for i := 0; i < 128; i++ {
		c.Case(Direct, "names.maconer", fmt.Sprintf("r=%d", i), false)
	}
	for _, x := range nmMacRepertoireHigh {
		c.Case(Direct, "names.maconer", fmt.Sprintf("r=%d", x), true)
	}
	c.Stat("macdecodeone", "all-256-bytes-and-whole-repertoire")
	// every rune of the repertoire, and the neighbours of each (mostly unrepresentable)
	for _, x := range nmMacHigh {
		for _, d := range []rune{-1, 0, 1} {
			c.Case(Verdict, "names.macenc", "r="+fmt.Sprint(int(x+d)), true)
		}
	}
	c.Stat("macenc", "repertoire-and-neighbours")
	n := c.N / 5
	for i := 0; i < n; i++ {
		b := r.Bytes(r.Range(0, 40))
		c.Case(Verdict, "names.macdec", "b="+hx(b), len(b) > 0)
		c.Stat("macdec", "random-len-"+bucket(len(b)))
		mode := r.Intn(2)
		s := nmRandString(r, mode, 40)
		c.Case(Verdict, "names.macenc", "r="+nmRunes(s), true)
		c.Stat("macenc", []string{"repertoire", "with-unrepresentable"}[mode])
	}
	// UTF-16: boundary strings first (every run): each special code point alone and at the first,
	// middle and last position
	for _, s := range nmBoundaryStrings(nmSpecials, []rune("Ab\u00e9\u4e2d")) {
		out := c.Case(Verdict, "names.u16enc", "r="+nmRunes(s), true)
		c.Case(Verdict, "names.u16dec", "b="+out, true)
		c.Stat("u16enc_units", "boundary")
		c.Stat("u16dec", "boundary-encoder-output")
	}
	// raw code-unit strings beginning with FE FF / FF FE and other special units
	for _, first := range []int{0xFEFF, 0xFFFE, 0x0000, 0xFFFF, 0xD7FF, 0xE000, 0xD800, 0xDC00} {
		for _, tail := range [][]int{{}, {0x41}, {0x41, 0x42}, {first}, {0xD800, 0xDC00}, {0xDBFF, 0xDFFF, first}} {
			var b []byte
			for _, u := range append([]int{first}, tail...) {
				b = append(b, byte(u>>8), byte(u))
			}
			c.Case(Verdict, "names.u16dec", "b="+hx(b), true)
			c.Case(Verdict, "names.u16dec", "b="+hx(append(b, 0xFE)), true) // odd trailing byte
			c.Stat("u16dec", "boundary-raw-units")
		}
	}
	for _, s := range nmBoundaryStrings(nmMacSpecials, []rune("Ab\u00e9\u2260")) {
		out := c.Case(Verdict, "names.macenc", "r="+nmRunes(s), true)
		c.Case(Verdict, "names.macdec", "b="+out, true)
		c.Stat("macenc", "boundary")
	}
	for i := 0; i < n; i++ {
		ml := 30
		if i%50 == 49 {
			ml = 2000
		}
		s := nmRandString(r, 1, ml)
		out := c.Case(Verdict, "names.u16enc", "r="+nmRunes(s), true)
		c.Stat("u16enc_units", bucket(len(out)/4))
		// decode what the real encoder wrote
		c.Case(Verdict, "names.u16dec", "b="+out, true)
		c.Stat("u16dec", "encoder-output")
		// malformed stream: lone surrogates, odd lengths, random bytes
		var b []byte
		k := r.Range(0, 12)
		for j := 0; j < k; j++ {
			var u int
			switch r.Intn(6) {
			case 0:
				u = r.Range(0xD800, 0xDBFF)
			case 1:
				u = r.Range(0xDC00, 0xDFFF)
			case 2:
				u = Pick(r, []int{0xD7FF, 0xD800, 0xDBFF, 0xDC00, 0xDFFF, 0xE000, 0xFFFF, 0})
			default:
				u = r.Range(0, 0xFFFF)
			}
			b = append(b, byte(u>>8), byte(u))
		}
		if r.Chance(1, 4) {
			b = append(b, byte(r.Intn(256)))
		}
		c.Case(Verdict, "names.u16dec", "b="+hx(b), len(b) > 1)
		c.Stat("u16dec", "malformed-or-random")
	}
}

func nmPostHdr(r *Rng) string {
	a := uint32(0)
	switch r.Intn(4) {
	case 0:
		a = uint32(r.U64())
	case 1:
		a = uint32(int32(-r.Range(0, 20*65536)))
	}
	return fmt.Sprintf("hdr=%d,%d,%d,%d", a, uint16(r.U64()), uint16(r.U64()), r.Intn(2))
}

func nmPostCase(c *Ctx, names []string, class string, inDomain bool) {
	r := c.Rng
	args := nmPostHdr(r) + " " + nmNamesArgs(names)
	out := c.Case(Verdict, "names.postenc", args, len(names) > 0)
	c.Stat("post_class", class)
	c.Stat("post_glyphs", bucket(len(names)))
	if len(out) >= 8 {
		c.Stat("post_format", out[:8])
	}
	if strings.HasPrefix(out, "panic") {
		return
	}
	// the real reader on the real encoder's bytes (verdict: model reader = Go reader)
	c.Case(Verdict, "names.postread", "b="+out, len(names) > 0)
	if inDomain && len(out) < 60000 {
		// direct: the real Read must return the list the real Encode was given
		c.Case(Direct, "names.postrtl", args, len(names) > 0)
	}
	if inDomain {
		// direct: independent Lean reader must see the names that were written
		c.Case(Direct, "names.postspec", "b="+out+" want="+nmShowNames(names), len(names) > 0)
	}
	// mutated / truncated tables for the reader
	if r.Chance(1, 3) {
		b := mustHexNm(out)
		switch r.Intn(3) {
		case 0:
			b = b[:r.Intn(len(b)+1)]
			c.Stat("post_mutation", "truncated")
		case 1:
			if len(b) > 0 {
				b[r.Intn(len(b))] = byte(r.Intn(256))
			}
			c.Stat("post_mutation", "byte")
		case 2:
			if len(b) >= 4 {
				b[1] = byte(r.Range(0, 5))
				b[3] = byte(r.Intn(2))
			}
			c.Stat("post_mutation", "version")
		}
		c.Case(Verdict, "names.postread", "b="+hx(b), true)
	}
}

func nmPost(c *Ctx) {
	r := c.Rng
	std := nmStdNames()
	nmPostCase(c, nil, "nil", true)
	nmPostCase(c, []string{}, "empty", true)
	nmPostCase(c, std, "standard-258", true)
	nmPostCase(c, std[:257], "standard-prefix", true)
	nmPostCase(c, append(append([]string(nil), std...), "extra"), "standard-plus-one", true)
	n := c.N / 5
	for i := 0; i < n; i++ {
		var names []string
		class := ""
		switch r.Intn(6) {
		case 0: // prefix of the standard list
			names = append(names, std[:r.Range(1, 258)]...)
			class = "standard-prefix"
		case 1: // permutation of (part of) the standard list
			names = append(names, std...)
			for j := len(names) - 1; j > 0; j-- {
				k := r.Intn(j + 1)
				names[j], names[k] = names[k], names[j]
			}
			names = names[:r.Range(1, 258)]
			class = "standard-permuted"
		case 2: // custom only
			k := r.Range(1, 40)
			for j := 0; j < k; j++ {
				names = append(names, nmRandGlyphName(r))
			}
			class = "custom"
		default: // mixture with repeats
			k := r.Range(1, 60)
			for j := 0; j < k; j++ {
				switch r.Intn(4) {
				case 0:
					names = append(names, nmRandGlyphName(r))
				case 1:
					if len(names) > 0 {
						names = append(names, names[r.Intn(len(names))])
						break
					}
					fallthrough
				default:
					names = append(names, Pick(r, std))
				}
			}
			class = "mixed"
		}
		nmPostCase(c, names, class, true)
	}
	// repeated non-standard names: adjacent, with another non-standard name introduced in between,
	// three-way, mixed with standard names and with names repeated before/after their first use
	for _, names := range [][]string{
		{".notdef", "alpha.alt", "alpha.alt"},
		{".notdef", "alpha.alt", "beta.alt", "alpha.alt"},
		{"alpha.alt", "beta.alt", "alpha.alt", "beta.alt"},
		{"alpha.alt", "beta.alt", "gamma.alt", "alpha.alt", "beta.alt", "gamma.alt"},
		{"a1", "a2", "a3", "a1", "a1", "a3", "a2"},
		{"space", "x.sc", "A", "y.sc", "x.sc", "B", "y.sc", "space", "z.sc", "x.sc"},
		{"q", "q", "q"},
		{"u1", "u2", "u3", "u4", "u5", "u1", "u5", "u2", "u4", "u3"},
	} {
		nmPostCase(c, names, "repeated-custom", true)
	}
	for i := 0; i < c.N/50; i++ {
		pool := []string{nmRandGlyphName(r), nmRandGlyphName(r), nmRandGlyphName(r), nmRandGlyphName(r)}
		var names []string
		for k := r.Range(3, 14); k > 0; k-- {
			if r.Chance(1, 4) {
				names = append(names, Pick(r, std))
			} else {
				names = append(names, Pick(r, pool))
			}
		}
		nmPostCase(c, names, "repeated-custom-random", true)
	}
	// outside the stated domain: a name of more than 255 bytes (verdict only)
	for i := 0; i < 3; i++ {
		long := strings.Repeat("x", Pick(r, []int{256, 257, 300, 511, 512}))
		nmPostCase(c, []string{"a", long, "b"}, "name>255", false)
	}
	// capacity of format 2, on the real code (compact generator; the Lean side predicts "unchanged")
	for _, nc := range [][2]int{{65535, 0}, {65535, 3000}, {65535, 65278}, {65535, 65279}, {65535, 65535}, {300, 300}, {258, 0}} {
		c.Case(Direct, "names.postrt", fmt.Sprintf("n=%d c=%d", nc[0], nc[1]), true)
		c.Stat("post_class", fmt.Sprintf("capacity-n%d-c%d", nc[0], nc[1]))
	}
	if c.Tier == "thorough" {
		big := make([]string, 65535)
		for i := range big {
			if i < 258 {
				big[i] = std[i]
			} else {
				big[i] = std[i%258]
				if i%20 == 0 {
					big[i] = fmt.Sprintf("g%d", i)
				}
			}
		}
		nmPostCase(c, big, "65535-glyphs", true)
	}
}
