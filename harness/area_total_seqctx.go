package main

// Area `total`, group `seqctx` (property C02): verdict stream of the checked-index Lean models of
// the sequence-context readers of opentype/gtab/nested.go (readSeqContext1/2/3 with readNested).
//
// V lines `tmseqctx.read bytes=<hex> pos=<n>` run gtab.VerifReadGsubSubtable(bytes, pos, 5) (the
// real readGsubSubtable with lookup type 5: the format word at pos selects readSeqContext1/2/3)
// and print the outcome class (err:io | err:invalid | err:unsupported | panic) or "ok:" and the
// decoded subtable in a canonical form:
//   1;cov=<s-e:i runs>;sets=<set>|<set>...           set = n (nil) or [rule,rule...]
//   2;cov=<s-e:i runs>;cd=<s-e:c runs>;sets=...       rule = in.in.in>seq:lookup.seq:lookup
//   3;covs=<s-e runs>|<s-e runs>...;acts=seq:lookup.seq:lookup
// V lines `tmseqctx.nested bytes=<hex> pos=<n> count=<n>` run gtab.VerifReadNested (readNested with
// the parser at pos) and print "ok:" and the records seq:lookup.seq:lookup or the outcome class.
// The generator registers itself in totalModelGens["seqctx"] and is called from areaTotal.

import (
	"bytes"
	"sort"
	"strconv"
	"strings"

	"seehuhn.de/go/sfnt/glyph"
	"seehuhn.de/go/sfnt/opentype/classdef"
	"seehuhn.de/go/sfnt/opentype/coverage"
	"seehuhn.de/go/sfnt/opentype/gtab"
	"seehuhn.de/go/sfnt/parser"
)

// totalSeqctxW encodes big-endian 16-bit words (values are taken modulo 65536).
func totalSeqctxW(ws ...int) []byte {
	b := make([]byte, 0, 2*len(ws))
	for _, w := range ws {
		b = append(b, byte(w>>8), byte(w))
	}
	return b
}

func totalSeqctxCat(parts ...[]byte) []byte {
	var b []byte
	for _, p := range parts {
		b = append(b, p...)
	}
	return b
}

func totalSeqctxShowCoverage(t coverage.Table) string {
	keys := make([]int, 0, len(t))
	for g := range t {
		keys = append(keys, int(g))
	}
	sort.Ints(keys)
	var sb strings.Builder
	for i := 0; i < len(keys); {
		j := i
		for j+1 < len(keys) && keys[j+1] == keys[j]+1 && t[glyph.ID(keys[j+1])] == t[glyph.ID(keys[j])]+1 {
			j++
		}
		if sb.Len() > 0 {
			sb.WriteByte(',')
		}
		sb.WriteString(strconv.Itoa(keys[i]) + "-" + strconv.Itoa(keys[j]) + ":" + strconv.Itoa(t[glyph.ID(keys[i])]))
		i = j + 1
	}
	return sb.String()
}

func totalSeqctxShowSet(s coverage.Set) string {
	keys := make([]int, 0, len(s))
	for g := range s {
		keys = append(keys, int(g))
	}
	sort.Ints(keys)
	var sb strings.Builder
	for i := 0; i < len(keys); {
		j := i
		for j+1 < len(keys) && keys[j+1] == keys[j]+1 {
			j++
		}
		if sb.Len() > 0 {
			sb.WriteByte(',')
		}
		sb.WriteString(strconv.Itoa(keys[i]) + "-" + strconv.Itoa(keys[j]))
		i = j + 1
	}
	return sb.String()
}

func totalSeqctxShowClassDef(t classdef.Table) string {
	arr := new([65536]uint16)
	for g, cl := range t {
		arr[int(g)&0xffff] = cl
	}
	var sb strings.Builder
	for i := 0; i < 65536; {
		if arr[i] == 0 {
			i++
			continue
		}
		j := i
		for j+1 < 65536 && arr[j+1] == arr[i] {
			j++
		}
		if sb.Len() > 0 {
			sb.WriteByte(',')
		}
		sb.WriteString(strconv.Itoa(i) + "-" + strconv.Itoa(j) + ":" + strconv.Itoa(int(arr[i])))
		i = j + 1
	}
	return sb.String()
}

func totalSeqctxShowActions(aa []gtab.SeqLookup) string {
	parts := make([]string, len(aa))
	for i, a := range aa {
		parts[i] = strconv.Itoa(int(a.SequenceIndex)) + ":" + strconv.Itoa(int(a.LookupListIndex))
	}
	return strings.Join(parts, ".")
}

func totalSeqctxShowRule(in []int, aa []gtab.SeqLookup) string {
	parts := make([]string, len(in))
	for i, x := range in {
		parts[i] = strconv.Itoa(x)
	}
	return strings.Join(parts, ".") + ">" + totalSeqctxShowActions(aa)
}

func totalSeqctxShowSub(s gtab.Subtable) string {
	switch t := s.(type) {
	case *gtab.SeqContext1:
		sets := make([]string, len(t.Rules))
		for i, rs := range t.Rules {
			if rs == nil {
				sets[i] = "n"
				continue
			}
			rr := make([]string, len(rs))
			for j, ru := range rs {
				in := make([]int, len(ru.Input))
				for k, g := range ru.Input {
					in[k] = int(g)
				}
				rr[j] = totalSeqctxShowRule(in, ru.Actions)
			}
			sets[i] = "[" + strings.Join(rr, ",") + "]"
		}
		return "1;cov=" + totalSeqctxShowCoverage(t.Cov) + ";sets=" + strings.Join(sets, "|")
	case *gtab.SeqContext2:
		sets := make([]string, len(t.Rules))
		for i, rs := range t.Rules {
			if rs == nil {
				sets[i] = "n"
				continue
			}
			rr := make([]string, len(rs))
			for j, ru := range rs {
				in := make([]int, len(ru.Input))
				for k, g := range ru.Input {
					in[k] = int(g)
				}
				rr[j] = totalSeqctxShowRule(in, ru.Actions)
			}
			sets[i] = "[" + strings.Join(rr, ",") + "]"
		}
		return "2;cov=" + totalSeqctxShowCoverage(t.Cov) + ";cd=" + totalSeqctxShowClassDef(t.Input) +
			";sets=" + strings.Join(sets, "|")
	case *gtab.SeqContext3:
		cc := make([]string, len(t.Input))
		for i, s := range t.Input {
			cc[i] = totalSeqctxShowSet(s)
		}
		return "3;covs=" + strings.Join(cc, "|") + ";acts=" + totalSeqctxShowActions(t.Actions)
	}
	return "other-subtable"
}

func totalSeqctxClass(out string) string {
	if strings.HasPrefix(out, "ok:") {
		return "ok:fmt" + out[3:4]
	}
	return out
}

func init() {
	ops["tmseqctx.read"] = func(f Fields) string {
		return totalCanonPanic(guard(func() string {
			b, pos := f.Hex("bytes"), f.Int("pos")
			if pos < 0 {
				return "bad-case"
			}
			s, err := gtab.VerifReadGsubSubtable(b, int64(pos), 5)
			if err != nil {
				return totalErrClass(err)
			}
			return "ok:" + totalSeqctxShowSub(s)
		}))
	}
	ops["tmseqctx.nested"] = func(f Fields) string {
		return totalCanonPanic(guard(func() string {
			b, pos, count := f.Hex("bytes"), f.Int("pos"), f.Int("count")
			if pos < 0 || count < 0 {
				return "bad-case"
			}
			aa, err := gtab.VerifReadNested(b, int64(pos), count)
			if err != nil {
				return totalErrClass(err)
			}
			return "ok:" + totalSeqctxShowActions(aa)
		}))
	}
	totalModelGens["seqctx"] = func(c *Ctx, r *Rng, seeds []totalSeed) {
		totalSeqctxGen(c, r, seeds)
		totalSeqctxGenNested(c, r)
	}
}

// ---- builders

// totalSeqctxRule: one (Class)SeqRule; gc and lc are the count words as written (they need not
// match in/acts); alias >= 0: the rule has no body of its own, its offset is that of rule `alias`.
type totalSeqctxRule struct {
	gc, lc int
	in     []int
	acts   [][2]int
	alias  int
}

// totalSeqctxSet: one rule set; null: offset 0; alias >= 0: offset of set `alias`; count < 0: the
// true number of rules.
type totalSeqctxSet struct {
	null  bool
	alias int
	count int
	rules []totalSeqctxRule
}

func totalSeqctxRuleBytes(ru totalSeqctxRule) []byte {
	ws := []int{ru.gc, ru.lc}
	ws = append(ws, ru.in...)
	for _, a := range ru.acts {
		ws = append(ws, a[0], a[1])
	}
	return totalSeqctxW(ws...)
}

func totalSeqctxSetBytes(s totalSeqctxSet) []byte {
	n := len(s.rules)
	cnt := n
	if s.count >= 0 {
		cnt = s.count
	}
	offs := make([]int, n)
	var body []byte
	for j, ru := range s.rules {
		if ru.alias >= 0 && ru.alias < j {
			offs[j] = offs[ru.alias]
			continue
		}
		offs[j] = 2 + 2*n + len(body)
		body = append(body, totalSeqctxRuleBytes(ru)...)
	}
	return totalSeqctxCat(totalSeqctxW(cnt), totalSeqctxW(offs...), body)
}

// totalSeqctxBuild12 lays out a format 1 (cd == nil) or format 2 subtable: header, rule sets,
// coverage, class definition.  nsetsWord < 0: the true number of sets.
func totalSeqctxBuild12(format int, cov, cd []byte, sets []totalSeqctxSet, nsetsWord int) []byte {
	n := len(sets)
	hdr := 6 + 2*n
	if format == 2 {
		hdr = 8 + 2*n
	}
	offs := make([]int, n)
	var body []byte
	for i, s := range sets {
		switch {
		case s.null:
			offs[i] = 0
		case s.alias >= 0 && s.alias < i:
			offs[i] = offs[s.alias]
		default:
			offs[i] = hdr + len(body)
			body = append(body, totalSeqctxSetBytes(s)...)
		}
	}
	covOff := hdr + len(body)
	cdOff := covOff + len(cov)
	if nsetsWord < 0 {
		nsetsWord = n
	}
	var h []byte
	if format == 2 {
		h = totalSeqctxW(2, covOff, cdOff, nsetsWord)
	} else {
		h = totalSeqctxW(format, covOff, nsetsWord)
	}
	return totalSeqctxCat(h, totalSeqctxW(offs...), body, cov, cd)
}

// totalSeqctxBuild3 lays out a format 3 subtable; covIdx[i] selects the coverage table of input
// position i (aliasing allowed), gcWord/lcWord < 0: the true counts.
func totalSeqctxBuild3(covs [][]byte, covIdx []int, acts [][2]int, gcWord, lcWord int) []byte {
	n := len(covIdx)
	hdr := 6 + 2*n + 4*len(acts)
	pos := make([]int, len(covs))
	var body []byte
	for i, cv := range covs {
		pos[i] = hdr + len(body)
		body = append(body, cv...)
	}
	if gcWord < 0 {
		gcWord = n
	}
	if lcWord < 0 {
		lcWord = len(acts)
	}
	ws := []int{3, gcWord, lcWord}
	for _, k := range covIdx {
		if k >= 0 && k < len(pos) {
			ws = append(ws, pos[k])
		} else {
			ws = append(ws, hdr+len(body)+2*(-k)) // beyond the data
		}
	}
	for _, a := range acts {
		ws = append(ws, a[0], a[1])
	}
	return totalSeqctxCat(totalSeqctxW(ws...), body)
}

func totalSeqctxCov1(gids ...int) []byte {
	return totalSeqctxW(append([]int{1, len(gids)}, gids...)...)
}

func totalSeqctxCov2(ranges ...[3]int) []byte {
	ws := []int{2, len(ranges)}
	for _, g := range ranges {
		ws = append(ws, g[0], g[1], g[2])
	}
	return totalSeqctxW(ws...)
}

func totalSeqctxCd1(start int, classes ...int) []byte {
	return totalSeqctxW(append([]int{1, start, len(classes)}, classes...)...)
}

func totalSeqctxRandCov(r *Rng, n int) []byte {
	if n > 0 && r.Chance(1, 3) { // format 2, one or two ranges covering n glyphs
		s := r.Range(0, 50)
		if n >= 2 && r.Bool() {
			k := r.Range(1, n-1)
			return totalSeqctxCov2([3]int{s, s + k - 1, 0}, [3]int{s + k + 3, s + n + 2, k})
		}
		return totalSeqctxCov2([3]int{s, s + n - 1, 0})
	}
	g := r.Range(0, 40)
	gids := make([]int, n)
	for i := range gids {
		gids[i] = g
		g += r.Range(1, 4)
	}
	return totalSeqctxCov1(gids...)
}

func totalSeqctxRandActs(r *Rng, n int) [][2]int {
	out := make([][2]int, n)
	for i := range out {
		out[i] = [2]int{r.Range(0, 3), r.Range(0, 9)}
	}
	return out
}

func totalSeqctxRandRule(r *Rng, j int) totalSeqctxRule {
	ru := totalSeqctxRule{alias: -1}
	if j > 0 && r.Chance(1, 5) {
		ru.alias = r.Intn(j)
		return ru
	}
	ru.gc = Pick(r, []int{1, 1, 2, 2, 3, 4, 1, 2})
	ru.lc = Pick(r, []int{0, 1, 1, 2, 3})
	for k := 0; k+1 < ru.gc; k++ {
		ru.in = append(ru.in, r.Range(0, 30))
	}
	ru.acts = totalSeqctxRandActs(r, ru.lc)
	switch r.Intn(16) {
	case 0:
		ru.gc = 0 // invalid glyph count
	case 1:
		ru.gc += r.Range(1, 3) // input runs into the actions / beyond the end
	case 2:
		ru.lc += r.Range(1, 3)
	case 3:
		ru.lc = 0
	}
	return ru
}

func totalSeqctxRandSets(r *Rng, n int) []totalSeqctxSet {
	sets := make([]totalSeqctxSet, n)
	for i := range sets {
		s := totalSeqctxSet{alias: -1, count: -1}
		switch {
		case r.Chance(1, 5):
			s.null = true
		case i > 0 && r.Chance(1, 5):
			s.alias = r.Intn(i)
		default:
			nr := Pick(r, []int{0, 1, 1, 2, 3, 4})
			for j := 0; j < nr; j++ {
				s.rules = append(s.rules, totalSeqctxRandRule(r, j))
			}
			if r.Chance(1, 12) {
				s.count = nr + r.Range(1, 2)
			}
		}
		sets[i] = s
	}
	return sets
}

// totalSeqctxRandValid builds a random, mostly valid subtable of format 1, 2 or 3.
func totalSeqctxRandValid(r *Rng) ([]byte, string) {
	switch r.Intn(3) {
	case 0:
		n := r.Range(0, 5)
		ncov := n
		switch r.Intn(4) {
		case 0:
			ncov = n + r.Range(1, 3) // coverage larger than the rule-set array: pruned
		case 1:
			if n > 0 {
				ncov = r.Range(0, n-1) // smaller: the array is cut
			}
		}
		return totalSeqctxBuild12(1, totalSeqctxRandCov(r, ncov), nil, totalSeqctxRandSets(r, n), -1), "valid-fmt1"
	case 1:
		n := r.Range(0, 5)
		ncl := Pick(r, []int{n, n, n + 2, 1, 2, 0, 3})
		if ncl < 0 {
			ncl = 0
		}
		var cd []byte
		if r.Bool() {
			cl := make([]int, r.Range(0, 8))
			for i := range cl {
				cl[i] = r.Range(0, ncl)
			}
			if len(cl) > 0 && ncl > 0 {
				cl[r.Intn(len(cl))] = ncl - 1 + r.Intn(2)
			}
			cd = totalSeqctxCd1(r.Range(0, 20), cl...)
		} else {
			ws := []int{2, 0}
			g := r.Range(0, 10)
			k := 0
			for ; k < r.Range(0, 4); k++ {
				e := g + r.Range(0, 5)
				ws = append(ws, g, e, r.Range(0, ncl))
				g = e + r.Range(1, 4)
			}
			ws[1] = (len(ws) - 2) / 3
			cd = totalSeqctxW(ws...)
		}
		return totalSeqctxBuild12(2, totalSeqctxRandCov(r, r.Range(0, 6)), cd, totalSeqctxRandSets(r, n), -1), "valid-fmt2"
	}
	nc := r.Range(1, 3)
	covs := make([][]byte, nc)
	for i := range covs {
		covs[i] = totalSeqctxRandCov(r, r.Range(0, 5))
		if r.Chance(1, 4) { // unsorted with duplicates: fine for ReadSet
			covs[i] = totalSeqctxCov1(9, 3, 3, 7)
		}
	}
	n := Pick(r, []int{1, 1, 2, 3, 4})
	idx := make([]int, n)
	for i := range idx {
		idx[i] = r.Intn(nc)
	}
	return totalSeqctxBuild3(covs, idx, totalSeqctxRandActs(r, Pick(r, []int{0, 1, 2, 5})), -1, -1), "valid-fmt3"
}

type totalSeqctxTab struct {
	name string
	b    []byte
}

func totalSeqctxStructured(r *Rng, thorough bool) []totalSeqctxTab {
	var tt []totalSeqctxTab
	add := func(name string, b []byte) { tt = append(tt, totalSeqctxTab{name, b}) }
	ru := func(gc, lc int, in []int, acts ...[2]int) totalSeqctxRule {
		return totalSeqctxRule{gc: gc, lc: lc, in: in, acts: acts, alias: -1}
	}
	al := func(k int) totalSeqctxRule { return totalSeqctxRule{alias: k} }
	set := func(rules ...totalSeqctxRule) totalSeqctxSet {
		return totalSeqctxSet{alias: -1, count: -1, rules: rules}
	}
	null := totalSeqctxSet{null: true, alias: -1, count: -1}
	setAlias := func(k int) totalSeqctxSet { return totalSeqctxSet{alias: k, count: -1} }
	a := func(s, l int) [2]int { return [2]int{s, l} }
	cov3 := totalSeqctxCov1(5, 6, 9)
	r1 := ru(1, 0, nil)
	r2 := ru(2, 1, []int{7}, a(0, 1))
	r3 := ru(3, 2, []int{7, 8}, a(0, 1), a(1, 2))

	for _, f := range []int{1, 2} {
		fs := "f" + strconv.Itoa(f) + "-"
		cd := []byte(nil)
		if f == 2 {
			cd = totalSeqctxCd1(5, 1, 2, 0, 0, 2) // classes 0..2
		}
		b12 := func(cov []byte, sets []totalSeqctxSet, nw int) []byte {
			return totalSeqctxBuild12(f, cov, cd, sets, nw)
		}
		add(fs+"no-sets", b12(cov3, nil, -1))
		add(fs+"no-sets-empty-cov", b12(totalSeqctxCov1(), nil, -1))
		add(fs+"one-null-set", b12(cov3, []totalSeqctxSet{null}, -1))
		add(fs+"all-null", b12(cov3, []totalSeqctxSet{null, null, null}, -1))
		add(fs+"one-set-no-rules", b12(cov3, []totalSeqctxSet{set()}, -1))
		add(fs+"gc1-lc0", b12(cov3, []totalSeqctxSet{set(r1)}, -1))
		add(fs+"gc2-lc1", b12(cov3, []totalSeqctxSet{set(r2)}, -1))
		add(fs+"gc3-lc2", b12(cov3, []totalSeqctxSet{set(r3)}, -1))
		add(fs+"three-sets", b12(cov3, []totalSeqctxSet{set(r1, r2), null, set(r3, r1, r2)}, -1))
		add(fs+"gc0", b12(cov3, []totalSeqctxSet{set(ru(0, 0, nil))}, -1))
		add(fs+"gc0-second-rule", b12(cov3, []totalSeqctxSet{set(r2, ru(0, 1, nil, a(0, 0)))}, -1))
		add(fs+"gc-too-big", b12(cov3, []totalSeqctxSet{set(ru(9, 0, []int{7}))}, -1))
		add(fs+"gc-max", b12(cov3, []totalSeqctxSet{set(ru(0xffff, 0, []int{7}))}, -1))
		add(fs+"lc-too-big", b12(totalSeqctxCov1(5), []totalSeqctxSet{set(ru(1, 9, nil, a(0, 0)))}, -1))
		add(fs+"lc-max", b12(cov3, []totalSeqctxSet{set(ru(1, 0xffff, nil, a(0, 0)))}, -1))
		add(fs+"lc-many", b12(cov3, []totalSeqctxSet{set(ru(2, 6, []int{4}, a(0, 1), a(1, 2), a(0, 3), a(1, 4), a(0, 5), a(1, 6)))}, -1))
		add(fs+"rules-aliased", b12(cov3, []totalSeqctxSet{set(r3, al(0), al(0), al(1))}, -1))
		add(fs+"sets-aliased", b12(cov3, []totalSeqctxSet{set(r2, r1), setAlias(0), setAlias(0)}, -1))
		add(fs+"sets-and-rules-aliased", b12(cov3, []totalSeqctxSet{set(r3, al(0)), setAlias(0), null}, -1))
		add(fs+"rule-count+1", b12(cov3, []totalSeqctxSet{{alias: -1, count: 3, rules: []totalSeqctxRule{r1, r2}}}, -1))
		add(fs+"rule-count-less", b12(cov3, []totalSeqctxSet{{alias: -1, count: 1, rules: []totalSeqctxRule{r1, r2}}}, -1))
		add(fs+"rule-count-max", b12(cov3, []totalSeqctxSet{{alias: -1, count: 0xffff, rules: []totalSeqctxRule{r1}}}, -1))
		add(fs+"set-count+1", b12(cov3, []totalSeqctxSet{set(r1)}, 2))
		add(fs+"set-count-max", b12(cov3, []totalSeqctxSet{set(r1)}, 0xffff))
		add(fs+"set-count-less", b12(cov3, []totalSeqctxSet{set(r1), set(r2)}, 1))
		add(fs+"set-count-0", b12(cov3, []totalSeqctxSet{set(r1), set(r2)}, 0))
		// coverage against the rule-set array
		add(fs+"cov-larger", b12(totalSeqctxCov1(1, 2, 3, 4, 5), []totalSeqctxSet{set(r1), set(r2)}, -1))
		add(fs+"cov-larger-fmt2", b12(totalSeqctxCov2([3]int{10, 19, 0}), []totalSeqctxSet{set(r1), null, set(r2)}, -1))
		add(fs+"cov-smaller", b12(totalSeqctxCov1(4), []totalSeqctxSet{set(r1), set(r2), set(r3)}, -1))
		add(fs+"cov-smaller-bad-tail", b12(totalSeqctxCov1(4), []totalSeqctxSet{set(r1), set(ru(0, 0, nil))}, -1))
		add(fs+"cov-empty", b12(totalSeqctxCov1(), []totalSeqctxSet{set(r1), set(r2)}, -1))
		add(fs+"cov-equal", b12(totalSeqctxCov1(4, 8), []totalSeqctxSet{set(r1), set(r2)}, -1))
		add(fs+"cov-invalid", b12(totalSeqctxCov1(8, 4), []totalSeqctxSet{set(r1), set(r2)}, -1))
		add(fs+"cov-format3", b12(totalSeqctxW(3, 1, 4), []totalSeqctxSet{set(r1)}, -1))
		// a coverage range far larger than the rule-set array.  The Lean list model of cov.EncodeLen
		// (format 2) is quadratic in len(cov): 2000 glyphs in the quick tier, all 65536 in the thorough one
		add(fs+"cov-wide", b12(totalSeqctxCov2([3]int{0, 1999, 0}), []totalSeqctxSet{set(r1), set(r2)}, -1))
		if thorough {
			add(fs+"cov-full", b12(totalSeqctxCov2([3]int{0, 0xffff, 0}), []totalSeqctxSet{set(r1), set(r2)}, -1))
		}
		// offsets pointing into the header / at the coverage / beyond
		{
			b := b12(cov3, []totalSeqctxSet{set(r1), set(r2)}, -1)
			h := 6
			if f == 2 {
				h = 8
			}
			for _, v := range []int{2, 4, h, len(b) - 2, len(b), len(b) + 1, 0xffff, 1} {
				c := append([]byte(nil), b...)
				c[h], c[h+1] = byte(v>>8), byte(v)
				add(fs+"set-offset-"+strconv.Itoa(v), c)
			}
			for _, v := range []int{0, 2, len(b), 0xffff} {
				c := append([]byte(nil), b...)
				c[2], c[3] = byte(v>>8), byte(v)
				add(fs+"cov-offset-"+strconv.Itoa(v), c)
			}
		}
	}
	// format 2: class count against the rule-set array, class definition formats, the size cap
	{
		sets3 := []totalSeqctxSet{set(r1), set(r2), set(r3)}
		add("f2-classes-0", totalSeqctxBuild12(2, cov3, totalSeqctxCd1(5), sets3, -1))
		add("f2-classes-all0", totalSeqctxBuild12(2, cov3, totalSeqctxCd1(5, 0, 0), sets3, -1))
		add("f2-classes-1", totalSeqctxBuild12(2, cov3, totalSeqctxCd1(5, 1), sets3, -1))
		add("f2-classes-2", totalSeqctxBuild12(2, cov3, totalSeqctxCd1(5, 2), sets3, -1))
		add("f2-classes-9", totalSeqctxBuild12(2, cov3, totalSeqctxCd1(5, 9, 1), sets3, -1))
		add("f2-classes-max", totalSeqctxBuild12(2, cov3, totalSeqctxCd1(5, 0xffff), sets3, -1))
		add("f2-cd-fmt2", totalSeqctxBuild12(2, cov3, totalSeqctxW(2, 2, 3, 5, 1, 7, 9, 2), sets3, -1))
		add("f2-cd-fmt2-cut", totalSeqctxBuild12(2, cov3, totalSeqctxW(2, 1, 3, 5, 1), sets3, -1))
		add("f2-cd-invalid", totalSeqctxBuild12(2, cov3, totalSeqctxW(2, 2, 3, 5, 1, 4, 9, 2), sets3, -1))
		add("f2-cd-format3", totalSeqctxBuild12(2, cov3, totalSeqctxW(3, 0), sets3, -1))
		add("f2-cd-missing", totalSeqctxBuild12(2, cov3, nil, sets3, -1))
		add("f2-bad-rule-beyond-classes", totalSeqctxBuild12(2, cov3, totalSeqctxCd1(5, 1), []totalSeqctxSet{set(r1), set(r2), set(ru(0, 0, nil))}, -1))
		// too large: one rule of 200 input words visited through many aliased offsets
		in := make([]int, 200)
		big := ru(201, 0, in)
		for _, k := range []int{100, 155, 156, 157, 158, 159, 160, 170, 300} {
			rules := []totalSeqctxRule{big}
			for j := 1; j < k; j++ {
				rules = append(rules, al(0))
			}
			add("f2-total-"+strconv.Itoa(k), totalSeqctxBuild12(2, totalSeqctxCov1(5), totalSeqctxCd1(5, 1), []totalSeqctxSet{set(rules...)}, -1))
		}
	}
	// format 1 aliasing family of the known finding (rules x glyphs), small sizes
	for _, rg := range [][2]int{{1, 1}, {3, 4}, {10, 10}, {40, 30}} {
		b := totalGsubContextAliased(rg[0], rg[1])
		add("f1-alias-family-"+strconv.Itoa(rg[0])+"x"+strconv.Itoa(rg[1]), b[26:])
	}
	// format 3
	cA, cB := totalSeqctxCov1(5, 6, 9), totalSeqctxCov2([3]int{20, 25, 0})
	add("f3-one", totalSeqctxBuild3([][]byte{cA}, []int{0}, nil, -1, -1))
	add("f3-two-acts", totalSeqctxBuild3([][]byte{cA, cB}, []int{0, 1}, [][2]int{{0, 1}, {1, 2}}, -1, -1))
	add("f3-aliased", totalSeqctxBuild3([][]byte{cA}, []int{0, 0, 0, 0}, [][2]int{{0, 1}}, -1, -1))
	add("f3-gc0", totalSeqctxBuild3([][]byte{cA}, nil, [][2]int{{0, 1}}, 0, -1))
	add("f3-gc0-with-offsets", totalSeqctxBuild3([][]byte{cA}, []int{0}, nil, 0, -1))
	add("f3-gc+1", totalSeqctxBuild3([][]byte{cA}, []int{0}, [][2]int{{0, 1}}, 2, -1))
	add("f3-gc-max", totalSeqctxBuild3([][]byte{cA}, []int{0}, nil, 0xffff, -1))
	add("f3-lc+1", totalSeqctxBuild3([][]byte{cA}, []int{0}, [][2]int{{0, 1}}, -1, 2))
	add("f3-lc-max", totalSeqctxBuild3([][]byte{cA}, []int{0}, [][2]int{{0, 1}}, -1, 0xffff))
	add("f3-lc-many", totalSeqctxBuild3([][]byte{cA}, []int{0}, [][2]int{{0, 1}, {1, 1}, {2, 1}, {3, 1}, {4, 1}}, -1, -1))
	add("f3-cov-beyond", totalSeqctxBuild3([][]byte{cA}, []int{0, -1}, nil, -1, -1))
	add("f3-cov-invalid-second", totalSeqctxBuild3([][]byte{cA, totalSeqctxW(3, 0)}, []int{0, 1}, nil, -1, -1))
	add("f3-cov-unsorted", totalSeqctxBuild3([][]byte{totalSeqctxCov1(9, 3, 3)}, []int{0}, nil, -1, -1))
	add("f3-cov-touching", totalSeqctxBuild3([][]byte{totalSeqctxCov2([3]int{3, 5, 0}, [3]int{5, 8, 3})}, []int{0}, nil, -1, -1))
	add("f3-cov-offset-0", totalSeqctxW(3, 1, 0, 0))
	add("f3-cov-offset-2", totalSeqctxW(3, 1, 0, 2))
	// format words and short inputs
	for _, fw := range []int{0, 4, 0xffff, 0x0100, 0x0301} {
		add("format-"+strconv.Itoa(fw), totalSeqctxCat(totalSeqctxW(fw), totalSeqctxBuild12(1, cov3, nil, []totalSeqctxSet{set(r1)}, -1)[2:]))
	}
	// the former key collisions of gsubReaders[10*5+format] (uint16): 11, 12, 13 hit 6_1 6_2 6_3,
	// 21 hit 7_1, 31 hit 8_1, 65497.. wrapped to 1_1 1_2 2_1 3_1 4_1.  Since the range check of the
	// dispatcher (gsub.go:42) all of them are invalid, like 4..10, 41, 65487 (0xFFCF) and 0xffff.
	for _, fw := range []int{4, 5, 9, 10, 11, 12, 13, 21, 31, 41, 65497, 65498, 65507, 65517, 65527, 65487, 65486} {
		add("format-collision-"+strconv.Itoa(fw), totalSeqctxCat(totalSeqctxW(fw), totalSeqctxBuild12(1, cov3, nil, []totalSeqctxSet{set(r1)}, -1)[2:]))
	}
	// the same format words in front of a body that the formerly selected reader accepts
	add("format-collision-11-chained1-body", totalSeqctxW(11, 6, 0, 1, 0))            // ChainedSeqContext1: no rule sets, empty coverage
	add("format-collision-13-chained3-body", totalSeqctxW(13, 0, 1, 12, 0, 0, 1, 0))  // ChainedSeqContext3: one input coverage
	add("format-collision-21-extension-body", totalSeqctxW(21, 1, 0, 8, 1, 0, 2, 5))  // extension -> Gsub1_1
	add("format-collision-65497-gsub11-body", totalSeqctxW(65497, 6, 1, 1, 1, 5))     // Gsub1_1: coverage {5}, delta 1
	add("format-collision-31-gsub81-body", totalSeqctxW(31, 10, 0, 0, 1, 1, 1, 5, 7)) // Gsub8_1-like
	add("empty", nil)
	add("len1", []byte{0})
	for _, f := range []int{1, 2, 3} {
		add("only-format-"+strconv.Itoa(f), totalSeqctxW(f))
		add("format+1byte-"+strconv.Itoa(f), append(totalSeqctxW(f), 0))
		add("format+word-"+strconv.Itoa(f), totalSeqctxW(f, 6))
		add("format+2words-"+strconv.Itoa(f), totalSeqctxW(f, 1, 0))
	}
	_ = r
	return tt
}

// totalSeqctxWalk finds the context subtables (GSUB type 5 / GPOS type 7, also behind extension
// records) of a GSUB/GPOS table: the absolute positions of their format words.
func totalSeqctxWalk(b []byte, gpos bool) []int {
	u16 := func(p int) (int, bool) {
		if p < 0 || p+2 > len(b) {
			return 0, false
		}
		return int(b[p])<<8 | int(b[p+1]), true
	}
	ctxType, extType := 5, 7
	if gpos {
		ctxType, extType = 7, 9
	}
	var out []int
	ll, ok := u16(8)
	if !ok {
		return nil
	}
	n, ok := u16(ll)
	if !ok {
		return nil
	}
	for i := 0; i < n && i < 200; i++ {
		lo, ok := u16(ll + 2 + 2*i)
		if !ok {
			break
		}
		lk := ll + lo
		tp, ok1 := u16(lk)
		ns, ok2 := u16(lk + 4)
		if !ok1 || !ok2 {
			continue
		}
		for j := 0; j < ns && j < 50; j++ {
			so, ok := u16(lk + 6 + 2*j)
			if !ok {
				break
			}
			sp := lk + so
			switch tp {
			case ctxType:
				out = append(out, sp)
			case extType:
				f, ok1 := u16(sp)
				et, ok2 := u16(sp + 2)
				hi, ok3 := u16(sp + 4)
				lo2, ok4 := u16(sp + 6)
				if ok1 && ok2 && ok3 && ok4 && f == 1 && et == ctxType && hi == 0 {
					out = append(out, sp+lo2)
				}
			}
		}
	}
	return out
}

// totalSeqctxHeavy: a format-2 subtable whose coverage table has more than 3000 glyphs (a mutated
// range end, the full-range table): the Lean list model of cov.EncodeLen is quadratic in len(cov)
// (40 s for 65536 glyphs in the compiled driver), so these lines are left to the thorough tier.
func totalSeqctxHeavy(b []byte, pos int) bool {
	if pos < 0 || pos+4 > len(b) || b[pos] != 0 || b[pos+1] != 2 {
		return false
	}
	covOff := int(b[pos+2])<<8 | int(b[pos+3])
	heavy := false
	guard(func() string {
		cov, err := coverage.Read(parser.New(bytes.NewReader(b)), int64(pos+covOff))
		heavy = err == nil && len(cov) > 3000
		return ""
	})
	return heavy
}

// totalSeqctxGenNested: V lines `tmseqctx.nested bytes=<hex> pos=<n> count=<n>` (readNested through
// gtab.VerifReadNested): counts 0, 1, many; 4*count against the remaining bytes (exact, one byte
// short, one byte long); pos inside, at and after the end; random.  About c.N/6 cases; counts stay
// below 5000 in the quick tier (the full 16-bit range in the thorough one).
func totalSeqctxGenNested(c *Ctx, r *Rng) {
	budget := c.N / 6
	cnt := 0
	seen := map[string]bool{}
	emit := func(gen string, b []byte, pos, count int) {
		key := strconv.Itoa(pos) + " " + strconv.Itoa(count) + " " + string(b)
		if seen[key] || pos < 0 || count < 0 {
			return
		}
		seen[key] = true
		out := c.Case(Verdict, "tmseqctx.nested",
			"bytes="+hx(b)+" pos="+strconv.Itoa(pos)+" count="+strconv.Itoa(count), count > 0)
		cnt++
		cl := out
		if strings.HasPrefix(out, "ok:") {
			switch {
			case count == 0:
				cl = "ok:0"
			case count == 1:
				cl = "ok:1"
			default:
				cl = "ok:many"
			}
		}
		c.Stat("tmseqctx:nested", cl)
		c.Stat("tmseqctx:nested:gen", gen)
	}
	maxCount := 4999
	if c.Tier == "thorough" {
		maxCount = 0xffff
	}
	// boundaries (always): every small count against data of 4*k bytes and 4*k +- 1..3 bytes
	for _, k := range []int{0, 1, 2, 3, 7} {
		for _, d := range []int{-3, -1, 0, 1, 4} {
			n := 4*k + d
			if n < 0 {
				continue
			}
			b := r.Bytes(n)
			for _, count := range []int{0, 1, k, k + 1} {
				emit("boundary", b, 0, count)
			}
		}
	}
	{
		b := r.Bytes(12)
		for _, pos := range []int{0, 1, 4, 8, 9, 11, 12, 13, 1000} { // inside, at and after the end
			for _, count := range []int{0, 1, 2, 3} {
				emit("pos", b, pos, count)
			}
		}
		emit("empty", nil, 0, 0)
		emit("empty", nil, 0, 1)
		emit("empty", nil, 5, 0)
		emit("empty", nil, 5, maxCount)
	}
	// many records: exact, one byte short, one record short, count far beyond the data, the largest count
	for _, k := range []int{50, 300, 1100} {
		b := r.Bytes(4 * k)
		emit("many", b, 0, k)
		emit("many", b[:4*k-1], 0, k)
		emit("many", b, 0, k+1)
		emit("many", b, 4, k-1)
		emit("many", b, 4, k)
		emit("many", b[:40], 0, maxCount)
	}
	// random
	for it := 0; cnt < budget && it < 20*budget+100; it++ {
		n := r.Range(0, 60)
		b := r.Bytes(n)
		pos := 0
		if r.Chance(1, 3) {
			pos = r.Range(0, n+2)
		}
		rest := n - pos
		if rest < 0 {
			rest = 0
		}
		count := rest / 4
		switch r.Intn(6) {
		case 0:
			count++
		case 1:
			if count > 0 {
				count--
			}
		case 2:
			count = r.Range(0, 20)
		case 3:
			count = Pick(r, []int{0, 1, 255, 256, 1024, 1025, maxCount})
		}
		emit("random", b, pos, count)
	}
}

func totalSeqctxGen(c *Ctx, r *Rng, seeds []totalSeed) {
	budget := c.N / 3
	cnt := 0
	limit := 0
	seen := map[string]bool{}
	emit := func(gen string, b []byte, pos int, force bool) bool {
		if !force && cnt >= limit {
			return false
		}
		if c.Tier != "thorough" && totalSeqctxHeavy(b, pos) {
			c.Stat("tmseqctx:read:gen", "skipped-heavy-"+gen)
			return false
		}
		key := strconv.Itoa(pos) + " " + string(b)
		if seen[key] {
			return false
		}
		seen[key] = true
		out := c.Case(Verdict, "tmseqctx.read", "bytes="+hx(b)+" pos="+strconv.Itoa(pos), len(b) >= 6)
		cnt++
		c.Stat("tmseqctx:read", totalSeqctxClass(out))
		c.Stat("tmseqctx:read:gen", gen)
		return true
	}
	withPrefix := func(b []byte) ([]byte, int) {
		pre := r.Bytes(r.Range(1, 9))
		return totalSeqctxCat(pre, b), len(pre)
	}

	// 1. structured subtables (always): at pos 0 and behind a junk prefix
	tabs := totalSeqctxStructured(r, c.Tier == "thorough")
	for _, t := range tabs {
		emit("structured", t.b, 0, true)
		pb, pp := withPrefix(t.b)
		emit("structured-prefix", pb, pp, true)
	}
	for _, p := range []int{1, 2, 3, 6, 1000} { // positions inside, at the end of and beyond the data
		emit("structured-pos", tabs[0].b, p, true)
		emit("structured-pos", tabs[0].b, len(tabs[0].b)-1+p%2, true)
	}
	// the aliasing family of the known finding inside its GSUB table (pos 26), moderate size
	emit("alias-family-gsub", totalGsubContextAliased(60, 50), 26, true)

	base := cnt
	rem := budget - base
	if rem < 0 {
		rem = 0
	}
	const parts = 6 // seeds 1, random valid 2, mutations 1, truncations 1, random 1
	phase := func(k int) { limit = base + rem*k/parts }

	// 2. the context subtables inside the GSUB / GPOS seeds
	type ctxSeed struct {
		b   []byte
		pos int
		src string
	}
	var pool []ctxSeed
	for _, s := range seeds {
		if s.dec != "gsub" && s.dec != "gpos" {
			continue
		}
		for _, sp := range totalSeqctxWalk(s.bytes, s.dec == "gpos") {
			b, pos := s.bytes, sp
			if len(b) > 3000 { // cut a window: offsets are relative to the subtable
				end := sp + 3000
				if end > len(b) {
					end = len(b)
				}
				b, pos = b[sp:end], 0
			}
			pool = append(pool, ctxSeed{b, pos, s.src})
		}
	}
	for i := len(pool) - 1; i > 0; i-- {
		j := r.Intn(i + 1)
		pool[i], pool[j] = pool[j], pool[i]
	}
	phase(1)
	for _, s := range pool {
		if cnt >= limit {
			break
		}
		if emit("seed", s.b, s.pos, false) {
			c.Stat("tmseqctx:seed", s.src)
		}
	}
	c.Stat("tmseqctx:seed-pool", strconv.Itoa(len(pool)))

	// 3. random, mostly valid subtables, a third of them behind a prefix
	phase(3)
	for it := 0; cnt < limit && it < 20*rem+100; it++ {
		b, kind := totalSeqctxRandValid(r)
		pos := 0
		if r.Chance(1, 3) {
			b, pos = withPrefix(b)
		}
		if emit("valid", b, pos, false) {
			c.Stat("tmseqctx:valid", kind)
		}
	}

	// 4. mutations of structured subtables, random valid ones and seeds
	phase(4)
	for it := 0; cnt < limit && it < 20*rem+100; it++ {
		var b []byte
		pos := 0
		switch {
		case len(pool) > 0 && r.Chance(1, 3):
			s := Pick(r, pool)
			b, pos = s.b, s.pos
		case r.Bool():
			b = Pick(r, tabs).b
		default:
			b, _ = totalSeqctxRandValid(r)
		}
		m, what := totalMutate(r, b)
		if emit("mutation", m, pos, false) {
			c.Stat("tmseqctx:mutation", what)
		}
	}

	// 5. truncation at every offset of small structured subtables
	phase(5)
	var small []totalSeqctxTab
	for _, t := range tabs {
		if len(t.b) > 0 && len(t.b) <= 64 {
			small = append(small, t)
		}
	}
	for it := 0; cnt < limit && len(small) > 0 && it < 30*len(small); it++ {
		t := Pick(r, small)
		for n := 0; n < len(t.b); n++ {
			emit("truncate-every", t.b[:n], 0, false)
		}
	}

	// 6. random bytes, the format word (and small count words) forced most of the time
	limit = budget
	if limit < base {
		limit = base
	}
	for it := 0; cnt < limit && it < 20*rem+100; it++ {
		b := r.Bytes(r.Range(0, 64))
		if !r.Chance(1, 6) && len(b) >= 2 {
			b[0], b[1] = 0, byte(r.Range(1, 3))
		} else if r.Chance(1, 3) && len(b) >= 2 { // a former collision format word
			fw := Pick(r, []int{11, 12, 13, 21, 31, 65497, 65498, 65507, 65517, 65527, 10, 0xffcf})
			b[0], b[1] = byte(fw>>8), byte(fw)
		}
		if r.Bool() {
			for k := 2; k+1 < len(b); k += 2 {
				if r.Chance(2, 3) {
					b[k], b[k+1] = 0, byte(r.Range(0, len(b)))
				}
			}
		}
		pos := 0
		if r.Chance(1, 5) {
			pos = r.Range(0, len(b)+2)
		}
		emit("random", b, pos, false)
	}
}
