package main

// C02, group glyfdec: verdict stream for the checked-index Lean model of glyf.Decode
// (decodeLoca, Decode, decodeGlyph, SimpleGlyph.removePadding; decodeGlyphComposite is an
// abstract parameter of the model, tabulated in the field `comp`).

import (
	"fmt"
	"strings"

	"seehuhn.de/go/sfnt/glyf"
)

func totalGlyfdecBbox(g *glyf.Glyph) string {
	return hx([]byte{
		byte(uint16(g.LLx) >> 8), byte(uint16(g.LLx)), byte(uint16(g.LLy) >> 8), byte(uint16(g.LLy)),
		byte(uint16(g.URx) >> 8), byte(uint16(g.URx)), byte(uint16(g.URy) >> 8), byte(uint16(g.URy)),
	})
}

// totalGlyfdecDecode runs the real glyf.Decode and prints the canonical value.
func totalGlyfdecDecode(glyfData, loca []byte, format int) string {
	return totalCanonPanic(guard(func() string {
		enc := &glyf.Encoded{GlyfData: glyfData, LocaData: loca, LocaFormat: int16(format)}
		gg, err := glyf.Decode(enc)
		if err != nil {
			return totalErrClass(err)
		}
		parts := make([]string, len(gg))
		for i, g := range gg {
			switch {
			case g == nil:
				parts[i] = "-"
			default:
				switch d := g.Data.(type) {
				case glyf.SimpleGlyph:
					parts[i] = fmt.Sprintf("%d:%s:%d", d.NumContours, totalGlyfdecBbox(g), len(d.Encoded))
				case glyf.CompositeGlyph:
					parts[i] = "c:" + totalGlyfdecBbox(g)
				default:
					parts[i] = "?"
				}
			}
		}
		return "ok:" + strings.Join(parts, ",")
	}))
}

// totalGlyfdecComp tabulates decodeGlyphComposite for the model: for every pair of consecutive
// loca entries (read leniently in the given format) that delimits a glyph with a negative contour
// count, the outcome of the real decoder on that glyph's bytes alone (wrapped in a one-glyph
// glyf/loca pair), keyed by the hex of the body data[10:].
func totalGlyfdecComp(glyfData, loca []byte, format int) string {
	var offs []int
	switch format {
	case 0:
		for i := 0; i+1 < len(loca); i += 2 {
			offs = append(offs, 2*(int(loca[i])<<8|int(loca[i+1])))
		}
	case 1:
		for i := 0; i+3 < len(loca); i += 4 {
			offs = append(offs, int(loca[i])<<24|int(loca[i+1])<<16|int(loca[i+2])<<8|int(loca[i+3]))
		}
	}
	seen := map[string]bool{}
	var parts []string
	for i := 0; i+1 < len(offs); i++ {
		a, b := offs[i], offs[i+1]
		if a > b || b > len(glyfData) || b-a < 10 || glyfData[a] < 0x80 {
			continue
		}
		data := glyfData[a:b]
		key := hx(data[10:])
		if seen[key] {
			continue
		}
		seen[key] = true
		// the outcome of decodeGlyphComposite does not depend on the header: normalise it
		one := append([]byte{0xff, 0xff, 0, 0, 0, 0, 0, 0, 0, 0}, data[10:]...)
		out := guard(func() string {
			enc := &glyf.Encoded{GlyfData: one, LocaData: append(totalBe32b(0), totalBe32b(len(one))...), LocaFormat: 1}
			_, err := glyf.Decode(enc)
			if err != nil {
				return "e" + strings.TrimPrefix(totalErrClass(err), "err:")
			}
			return "ok"
		})
		if strings.HasPrefix(out, "panic") {
			out = "p"
		}
		parts = append(parts, key+":"+out)
	}
	return strings.Join(parts, ",")
}

// totalGlyfdecSimple assembles one simple glyph; `broken` selects a deliberate inconsistency.
func totalGlyfdecSimple(r *Rng, broken int) []byte {
	nc := Pick(r, []int{0, 1, 1, 2, 3, 5})
	if broken == 5 {
		nc = Pick(r, []int{0x7fff, 40, 1000})
	}
	b := totalBe16b(nc)
	b = append(b, r.Bytes(8)...) // bounding box
	if broken == 5 {
		return append(b, r.Bytes(r.Intn(12))...)
	}
	np := 0
	for i := 0; i < nc; i++ {
		if i == nc-1 && r.Chance(1, 6) {
			np += r.Range(250, 300) // room for a repeat count of 255
		} else {
			np += r.Range(1, 4)
		}
		b = append(b, totalBe16b(np-1)...)
	}
	if broken == 6 && nc > 0 { // last end point inflated / 0xffff
		e := Pick(r, []int{0xffff, 0x7fff, np, np + 1})
		b[len(b)-2], b[len(b)-1] = byte(e>>8), byte(e)
	}
	il := Pick(r, []int{0, 0, 1, 3, 17})
	switch broken {
	case 1: // instruction length beyond the end
		b = append(b, totalBe16b(Pick(r, []int{0xffff, 0x7fff, 200, 4000}))...)
		if r.Bool() {
			return b
		}
	default:
		b = append(b, totalBe16b(il)...)
	}
	b = append(b, r.Bytes(il)...)
	coord := 0
	for i := 0; i < np; {
		fl := byte(r.U64()) & 0x37
		if r.Chance(1, 3) {
			fl = Pick(r, []byte{0x01, 0x37, 0x36, 0x00, 0x1e, 0x21, 0x12, 0x24})
		}
		rep := 1
		left := np - i
		if r.Chance(1, 3) {
			k := Pick(r, []int{0, 1, 2, 255, left - 1})
			if k > left-1 {
				k = left - 1
			}
			if k > 255 {
				k = 255
			}
			if broken == 2 && r.Chance(1, 2) { // repeat overshoots numPoints
				k = Pick(r, []int{left, left + 1, 255})
				if k > 255 {
					k = 255
				}
			}
			fl |= 0x08
			b = append(b, fl, byte(k))
			rep = k + 1
		} else {
			b = append(b, fl)
		}
		x, y := 0, 0
		if fl&0x02 != 0 {
			x = 1
		} else if fl&0x10 == 0 {
			x = 2
		}
		if fl&0x04 != 0 {
			y = 1
		} else if fl&0x20 == 0 {
			y = 2
		}
		coord += (x + y) * rep
		i += rep
	}
	switch broken {
	case 3: // coordinate bytes missing
		if coord > 0 {
			coord -= r.Range(1, coord)
		} else if len(b) > 10 {
			b = b[:len(b)-1]
		}
	case 4: // truncated anywhere
		b = append(b, r.Bytes(coord)...)
		return b[:r.Intn(len(b)+1)]
	}
	return append(b, r.Bytes(coord)...)
}

// totalGlyfdecComposite assembles one composite glyph (numberOfContours = -1 or another negative value).
func totalGlyfdecComposite(r *Rng, broken int) []byte {
	b := totalBe16b(Pick(r, []int{0xffff, 0xffff, 0x8000, 0xfffe}))
	b = append(b, r.Bytes(8)...)
	n := r.Range(1, 3)
	instr := false
	for i := 0; i < n; i++ {
		fl := Pick(r, []int{0x0000, 0x0001, 0x0008, 0x0040, 0x0080, 0x0009, 0x0041, 0x0081, 0x0002})
		if i < n-1 {
			fl |= 0x20
		}
		if r.Chance(1, 4) {
			fl |= 0x100
			instr = true
		}
		if broken == 1 && i == n-1 && r.Bool() {
			fl |= 0x20 // more components announced, none follow
		}
		b = append(b, totalBe16b(fl)...)
		b = append(b, totalBe16b(r.Intn(5))...)
		k := 2
		if fl&1 != 0 {
			k = 4
		}
		switch {
		case fl&0x08 != 0:
			k += 2
		case fl&0x40 != 0:
			k += 4
		case fl&0x80 != 0:
			k += 8
		}
		b = append(b, r.Bytes(k)...)
	}
	if instr {
		il := Pick(r, []int{0, 1, 5})
		b = append(b, totalBe16b(il)...)
		b = append(b, r.Bytes(il)...)
	}
	if broken != 0 && len(b) > 10 {
		b = b[:r.Range(10, len(b))]
	}
	return b
}

// totalGlyfdecGen: a structured glyf/loca pair: 1-4 glyphs (nil, simple, composite, short header),
// zero padding after the glyphs, loca in format 0 or 1, optionally damaged.
func totalGlyfdecGen(r *Rng) (glyfData, loca []byte, format int, kind string) {
	format = r.Intn(2)
	ng := r.Range(1, 4)
	offs := []int{0}
	kind = "valid"
	for g := 0; g < ng; g++ {
		var b []byte
		broken := 0
		if r.Chance(1, 6) {
			broken = r.Range(1, 6)
			kind = "glyph-broken"
		}
		switch r.Intn(10) {
		case 0: // nil glyph
		case 1, 2:
			b = totalGlyfdecComposite(r, broken%2)
		case 3:
			if r.Chance(1, 3) {
				b = r.Bytes(r.Range(1, 10)) // short header / header only
				b[0] &= 0x7f
				kind = "glyph-header"
			} else {
				b = totalGlyfdecSimple(r, 0)
			}
		default:
			b = totalGlyfdecSimple(r, broken)
		}
		if len(b) > 0 {
			b = append(b, make([]byte, r.Intn(4))...) // padding that removePadding must strip
		}
		if format == 0 && len(b)%2 == 1 {
			b = append(b, 0)
		}
		glyfData = append(glyfData, b...)
		offs = append(offs, len(glyfData))
	}
	damage := 0
	if r.Chance(1, 4) {
		damage = r.Range(1, 7)
		kind = "loca-damaged"
	}
	switch damage {
	case 1: // non-monotone
		i := r.Intn(len(offs))
		j := r.Intn(len(offs))
		offs[i], offs[j] = offs[j], offs[i]
	case 2: // beyond the glyf table
		offs[r.Intn(len(offs))] = len(glyfData) + Pick(r, []int{1, 2, 3, 100})
	case 3: // first offset not zero / last offset short
		if r.Bool() {
			offs[0] = Pick(r, []int{2, 4, len(glyfData)})
		} else {
			offs[len(offs)-1] = len(glyfData) / 4 * 2
		}
	}
	for _, o := range offs {
		if format == 0 {
			loca = append(loca, totalBe16b(o/2)...)
		} else {
			loca = append(loca, totalBe32b(o)...)
		}
	}
	switch damage {
	case 4: // odd / short lengths
		loca = loca[:r.Intn(len(loca)+1)]
	case 5:
		loca = append(loca, r.Bytes(r.Range(1, 3))...)
	case 6: // other formats
		format = Pick(r, []int{2, -1, 3, 256, -32768, 32767})
	case 7: // the other format on the same bytes
		format = 1 - format
	}
	return
}

// totalGlyfdecCut shortens a seed to its first glyphs so that the glyf data stays below `max` bytes.
func totalGlyfdecCut(g, l []byte, format, max int) ([]byte, []byte) {
	if len(g) <= max {
		return g, l
	}
	w := 2
	if format == 1 {
		w = 4
	}
	n := 0
	end := 0
	for i := 0; (i+1)*w <= len(l); i++ {
		var o int
		if format == 0 {
			o = 2 * (int(l[2*i])<<8 | int(l[2*i+1]))
		} else {
			o = int(l[4*i])<<24 | int(l[4*i+1])<<16 | int(l[4*i+2])<<8 | int(l[4*i+3])
		}
		if o > max || o > len(g) || o < end {
			break
		}
		end = o
		n = i + 1
	}
	return g[:end], l[:n*w]
}

func totalGlyfdecFields(s string) Fields { return parseFields(strings.TrimSpace(s)) }

func init() {
	ops["tmglyfdec.decode"] = func(f Fields) string {
		return totalGlyfdecDecode(f.Hex("bytes"), f.Hex("loca"), f.Int("fmt"))
	}

	totalModelGens["glyfdec"] = func(c *Ctx, r *Rng, seeds []totalSeed) {
		emit := func(src string, g, l []byte, format int) {
			args := fmt.Sprintf("bytes=%s loca=%s fmt=%d comp=%s", hx(g), hx(l), format, totalGlyfdecComp(g, l, format))
			out := c.Case(Verdict, "tmglyfdec.decode", args, true)
			cls := out
			if i := strings.IndexByte(cls, ':'); i >= 0 && strings.HasPrefix(cls, "ok") {
				cls = "ok"
			}
			c.Stat("tmglyfdec:decode", cls)
			c.Stat("tmglyfdec:source", src)
			c.Stat("tmglyfdec:glyf-size", bucket(len(g)))
			if cls == "ok" {
				n, comp, simple := 0, 0, 0
				for _, p := range strings.Split(strings.TrimPrefix(out, "ok:"), ",") {
					n++
					switch {
					case strings.HasPrefix(p, "c:"):
						comp++
					case p != "-":
						simple++
					}
				}
				c.Stat("tmglyfdec:glyphs", bucket(n))
				if comp > 0 {
					c.Stat("tmglyfdec:ok-with", "composite")
				}
				if simple > 0 {
					c.Stat("tmglyfdec:ok-with", "simple")
				}
			}
		}
		type pair struct {
			g, l []byte
			f    int
		}
		var pool []pair
		for _, s := range seeds {
			if s.dec != "glyf" {
				continue
			}
			f := totalGlyfdecFields(s.extra)
			l, format := f.Hex("loca"), f.Int("fmt")
			g, l := totalGlyfdecCut(s.bytes, l, format, 6000)
			if len(g) > 8000 || len(l) > 4000 {
				continue
			}
			pool = append(pool, pair{g, l, format})
		}
		n := c.N / 3
		if n < 60 {
			n = 60
		}
		// 1. the seeds themselves (at most n/8)
		for i, p := range pool {
			if i >= n/8 {
				break
			}
			emit("seed", p.g, p.l, p.f)
		}
		// 2. truncation of a single valid glyph at every offset (padding kept out)
		for k := 0; k < 2; k++ {
			var one []byte
			if k == 0 {
				one = totalGlyfdecSimple(r, 0)
			} else {
				one = totalGlyfdecComposite(r, 0)
			}
			if len(one) > 80 {
				one = totalGlyfdecSimple(NewRng(uint64(k)+5), 0)
			}
			for cut := 0; cut <= len(one) && cut <= 80; cut++ {
				emit("truncate-all", one[:cut], append(totalBe32b(0), totalBe32b(cut)...), 1)
			}
		}
		// 3. structured, mutated, random
		for i := 0; i < n; i++ {
			switch {
			case i%8 < 4:
				g, l, f, kind := totalGlyfdecGen(r)
				emit("gen-"+kind, g, l, f)
			case i%8 == 4:
				g, l, f, _ := totalGlyfdecGen(r)
				if r.Bool() {
					g, _ = totalMutate(r, g)
					if r.Bool() && len(l) >= 2 { // keep the last offset inside the new table
						if f == 0 {
							copy(l[len(l)-2:], totalBe16b(len(g)/2))
						} else if f == 1 && len(l) >= 4 {
							copy(l[len(l)-4:], totalBe32b(len(g)))
						}
					}
					emit("mutate-gen-glyf", g, l, f)
				} else {
					l, _ = totalMutate(r, l)
					emit("mutate-gen-loca", g, l, f)
				}
			case i%8 == 5 || i%8 == 6:
				if len(pool) == 0 {
					g, l, f, _ := totalGlyfdecGen(r)
					emit("gen", g, l, f)
					break
				}
				p := Pick(r, pool)
				g := append([]byte(nil), p.g...)
				l := append([]byte(nil), p.l...)
				switch r.Intn(4) {
				case 0:
					l, _ = totalMutate(r, l)
					emit("mutate-seed-loca", g, l, p.f)
				case 1: // same length: flip bytes only, so that loca stays valid
					for k := r.Range(1, 4); k > 0 && len(g) > 0; k-- {
						g[r.Intn(len(g))] = byte(r.U64())
					}
					emit("mutate-seed-glyf-bytes", g, l, p.f)
				case 2:
					for k := r.Range(1, 3); k > 0 && len(g) > 0; k-- {
						g[r.Intn(len(g))] = Pick(r, []byte{0, 0xff, 0x80, 0x7f, 0x08, 1})
					}
					emit("mutate-seed-glyf-bytes", g, l, p.f)
				default:
					g, _ = totalMutate(r, g)
					emit("mutate-seed-glyf", g, l, p.f)
				}
			default:
				g := r.Bytes(r.Intn(40))
				var l []byte
				f := r.Intn(2)
				if r.Bool() { // random glyph bytes under a loca that fits
					if f == 0 {
						if len(g)%2 == 1 {
							g = append(g, 0)
						}
						l = append(totalBe16b(0), totalBe16b(len(g)/2)...)
					} else {
						l = append(totalBe32b(0), totalBe32b(len(g))...)
					}
					emit("random-glyph", g, l, f)
				} else {
					l = r.Bytes(r.Intn(14))
					emit("random", g, l, Pick(r, []int{0, 1, 0, 1, 2}))
				}
			}
		}
	}
}
