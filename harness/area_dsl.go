package main

// Area dsl (C19): the lookup description language of opentype/gtab/builder —
// lexer items, Parse outcomes, ExplainGsub text, Parse∘Explain round trips, totality and
// goroutine accounting, all on synthetic fonts described completely by the case line.

import (
	"bytes"
	"encoding/hex"
	"fmt"
	"runtime"
	"runtime/pprof"
	"sort"
	"strconv"
	"strings"
	"time"

	"seehuhn.de/go/postscript/funit"
	"seehuhn.de/go/sfnt"
	"seehuhn.de/go/sfnt/cmap"
	"seehuhn.de/go/sfnt/glyf"
	"seehuhn.de/go/sfnt/glyph"
	"seehuhn.de/go/sfnt/opentype/anchor"
	"seehuhn.de/go/sfnt/opentype/classdef"
	"seehuhn.de/go/sfnt/opentype/coverage"
	"seehuhn.de/go/sfnt/opentype/gtab"
	"seehuhn.de/go/sfnt/opentype/gtab/builder"
	"seehuhn.de/go/sfnt/opentype/markarray"
)

func dslMustHex(s string) []byte {
	b, err := hex.DecodeString(s)
	if err != nil {
		panic("bad hex " + s)
	}
	return b
}

func dslCanonPanic(s string) string {
	if strings.HasPrefix(s, "panic:") {
		return "panic"
	}
	return s
}

// ---------------------------------------------------------------- fonts

type dslFont struct {
	n      int
	names  []string // nil: the font has no glyph names
	cmap   [][2]int // rune, gid
	noCmap bool     // the font has no cmap table at all
}

func (d dslFont) args() string {
	ns := "-"
	if d.names != nil {
		parts := make([]string, len(d.names))
		for i, n := range d.names {
			parts[i] = hx([]byte(n))
		}
		ns = strings.Join(parts, ",")
	}
	cs := make([]string, len(d.cmap))
	for i, p := range d.cmap {
		cs[i] = fmt.Sprintf("%d:%d", p[0], p[1])
	}
	if d.noCmap {
		return fmt.Sprintf("n=%d names=%s cmap=none", d.n, ns)
	}
	return fmt.Sprintf("n=%d names=%s cmap=%s", d.n, ns, strings.Join(cs, ","))
}

func dslFontOf(f Fields) *sfnt.Font {
	n := f.Int("n")
	o := &glyf.Outlines{Glyphs: make(glyf.Glyphs, n)}
	if f["names"] != "-" {
		names := make([]string, n)
		for i, h := range strings.Split(f["names"], ",") {
			if i < n {
				names[i] = string(dslMustHex(h))
			}
		}
		o.Names = names
	}
	if f["cmap"] == "none" {
		return &sfnt.Font{Outlines: o}
	}
	m := cmap.Format12{}
	for _, p := range f.List("cmap", ",") {
		i := strings.IndexByte(p, ':')
		r, _ := strconv.Atoi(p[:i])
		g, _ := strconv.Atoi(p[i+1:])
		if _, dup := m[uint32(r)]; !dup { // the model takes the first entry for a rune
			m[uint32(r)] = glyph.ID(g)
		}
	}
	font := &sfnt.Font{Outlines: o}
	font.CMapTable = cmap.Table{{PlatformID: 3, EncodingID: 10}: m.Encode(0)}
	return font
}

// ---------------------------------------------------------------- canonical lookups

func gidsStr(l []glyph.ID, sep string) string {
	s := make([]string, len(l))
	for i, g := range l {
		s[i] = strconv.Itoa(int(g))
	}
	return strings.Join(s, sep)
}

func covOrder(c coverage.Table) ([]glyph.ID, bool) {
	gl := c.Glyphs()
	for i, g := range gl {
		if c[g] != i {
			return gl, false
		}
	}
	return gl, true
}

func showSub(st gtab.Subtable) string {
	if out, ok := showCtxSub(st); ok {
		return out
	}
	switch l := st.(type) {
	case *gtab.Gsub1_1:
		return "a:" + gidsStr(l.Cov.Glyphs(), ".") + ":" + strconv.Itoa(int(l.Delta))
	case *gtab.Gsub1_2:
		gl, ok := covOrder(l.Cov)
		if !ok || len(gl) != len(l.SubstituteGlyphIDs) {
			return "noncanonical-coverage"
		}
		p := make([]string, len(gl))
		for i, g := range gl {
			p[i] = fmt.Sprintf("%d>%d", g, l.SubstituteGlyphIDs[i])
		}
		return "b:" + strings.Join(p, ",")
	case *gtab.Gsub2_1:
		gl, ok := covOrder(l.Cov)
		if !ok || len(gl) != len(l.Repl) {
			return "noncanonical-coverage"
		}
		p := make([]string, len(gl))
		for i, g := range gl {
			p[i] = fmt.Sprintf("%d>%s", g, gidsStr(l.Repl[i], "."))
		}
		return "c:" + strings.Join(p, ",")
	case *gtab.Gsub3_1:
		gl, ok := covOrder(l.Cov)
		if !ok || len(gl) != len(l.Alternates) {
			return "noncanonical-coverage"
		}
		p := make([]string, len(gl))
		for i, g := range gl {
			p[i] = fmt.Sprintf("%d>%s", g, gidsStr(l.Alternates[i], "."))
		}
		return "d:" + strings.Join(p, ",")
	case *gtab.Gsub4_1:
		gl, ok := covOrder(l.Cov)
		if !ok || len(gl) != len(l.Repl) {
			return "noncanonical-coverage"
		}
		p := make([]string, len(gl))
		for i, g := range gl {
			ligs := make([]string, len(l.Repl[i]))
			for j, lig := range l.Repl[i] {
				ligs[j] = gidsStr(lig.In, ".") + "~" + strconv.Itoa(int(lig.Out))
			}
			p[i] = fmt.Sprintf("%d>%s", g, strings.Join(ligs, "+"))
		}
		return "e:" + strings.Join(p, ",")
	}
	switch l := st.(type) {
	case *gtab.Gpos1_1:
		gl, _ := covOrder(l.Cov)
		return "f:" + gidsStr(gl, ",") + ":" + showVR(l.Adjust)
	case *gtab.Gpos1_2:
		gl, ok := covOrder(l.Cov)
		if !ok || len(gl) != len(l.Adjust) {
			return "noncanonical-coverage"
		}
		p := make([]string, len(gl))
		for i, g := range gl {
			p[i] = fmt.Sprintf("%d>%s", g, showVR(l.Adjust[i]))
		}
		return "g:" + strings.Join(p, ",")
	case gtab.Gpos2_1:
		keys := make([]glyph.Pair, 0, len(l))
		for k := range l {
			keys = append(keys, k)
		}
		sort.Slice(keys, func(i, j int) bool {
			if keys[i].Left != keys[j].Left {
				return keys[i].Left < keys[j].Left
			}
			return keys[i].Right < keys[j].Right
		})
		p := make([]string, len(keys))
		for i, k := range keys {
			p[i] = fmt.Sprintf("%d+%d>%s", k.Left, k.Right, showPA(l[k]))
		}
		return "h:" + strings.Join(p, ",")
	case *gtab.Gpos3_1:
		gl, ok := covOrder(l.Cov)
		if !ok || len(gl) != len(l.Records) {
			return "noncanonical-coverage"
		}
		p := make([]string, len(gl))
		for i, g := range gl {
			rec := l.Records[i]
			p[i] = fmt.Sprintf("%d>%d.%d.%d.%d", g, rec.Entry.X, rec.Entry.Y, rec.Exit.X, rec.Exit.Y)
		}
		return "j:" + strings.Join(p, ",")
	case *gtab.Gpos4_1:
		ml, ok1 := covOrder(l.MarkCov)
		bl, ok2 := covOrder(l.BaseCov)
		if !ok1 || !ok2 || len(ml) != len(l.MarkArray) || len(bl) != len(l.BaseArray) {
			return "noncanonical-coverage"
		}
		mp := make([]string, len(ml))
		for i, g := range ml {
			rec := l.MarkArray[i]
			mp[i] = fmt.Sprintf("%d>%d.%d.%d", g, rec.Class, rec.Table.X, rec.Table.Y)
		}
		bp := make([]string, len(bl))
		for i, g := range bl {
			as := make([]string, len(l.BaseArray[i]))
			for j, a := range l.BaseArray[i] {
				as[j] = fmt.Sprintf("%d.%d", a.X, a.Y)
			}
			bp[i] = fmt.Sprintf("%d>%s", g, strings.Join(as, "+"))
		}
		return "k:" + strings.Join(mp, ",") + ":" + strings.Join(bp, ",")
	case *gtab.Gpos2_2:
		rows := make([]string, len(l.Adjust))
		for i, row := range l.Adjust {
			cells := make([]string, len(row))
			for j, c := range row {
				cells[j] = showPA(c)
			}
			rows[i] = strings.Join(cells, "+")
		}
		return "i:" + gidsStr(l.Cov.Glyphs(), ",") + ":" + showClasses(l.Class1) + ":" + showClasses(l.Class2) + ":" + strings.Join(rows, "!")
	}
	return fmt.Sprintf("other-%T", st)
}

func showVR(v *gtab.GposValueRecord) string {
	if v == nil || (v.XPlacement == 0 && v.YPlacement == 0 && v.XAdvance == 0 && v.YAdvance == 0) {
		return "_"
	}
	return fmt.Sprintf("%d.%d.%d.%d", v.XPlacement, v.YPlacement, v.XAdvance, v.YAdvance)
}

func showPA(p *gtab.PairAdjust) string {
	if p == nil {
		return "nil-pair"
	}
	return showVR(p.First) + "&" + showVR(p.Second)
}

func showClasses(t classdef.Table) string {
	keys := make([]glyph.ID, 0, len(t))
	for g := range t {
		keys = append(keys, g)
	}
	sort.Slice(keys, func(i, j int) bool { return keys[i] < keys[j] })
	p := make([]string, len(keys))
	for i, g := range keys {
		p[i] = fmt.Sprintf("%d-%d", g, t[g])
	}
	return strings.Join(p, ",")
}

func readVR(s string) *gtab.GposValueRecord {
	if s == "_" {
		return nil
	}
	var x, y, dx, dy int
	if _, err := fmt.Sscanf(s, "%d.%d.%d.%d", &x, &y, &dx, &dy); err != nil {
		panic("bad value record " + s)
	}
	return &gtab.GposValueRecord{XPlacement: funit.Int16(x), YPlacement: funit.Int16(y), XAdvance: funit.Int16(dx), YAdvance: funit.Int16(dy)}
}

func readPA(s string) *gtab.PairAdjust {
	i := strings.IndexByte(s, '&')
	return &gtab.PairAdjust{First: readVR(s[:i]), Second: readVR(s[i+1:])}
}

func readClasses(s string) classdef.Table {
	t := classdef.Table{}
	if s == "" {
		return t
	}
	for _, e := range strings.Split(s, ",") {
		var g, c int
		fmt.Sscanf(e, "%d-%d", &g, &c)
		t[glyph.ID(g)] = uint16(c)
	}
	return t
}

func showLookups(ll gtab.LookupList) string {
	out := make([]string, len(ll))
	for i, l := range ll {
		s := fmt.Sprintf("%d,%d", l.Meta.LookupType, l.Meta.LookupFlags)
		for _, st := range l.Subtables {
			s += "/" + showSub(st)
		}
		out[i] = s
	}
	return strings.Join(out, ";")
}

func readGids(s, sep string) []glyph.ID {
	if s == "" {
		return nil
	}
	var out []glyph.ID
	for _, p := range strings.Split(s, sep) {
		n, err := strconv.Atoi(p)
		if err != nil {
			panic("bad gid list " + s)
		}
		out = append(out, glyph.ID(n))
	}
	return out
}

func readPairs(body string) (gl []glyph.ID, rhs []string) {
	if body == "" {
		return
	}
	for _, e := range strings.Split(body, ",") {
		i := strings.IndexByte(e, '>')
		g, _ := strconv.Atoi(e[:i])
		gl = append(gl, glyph.ID(g))
		rhs = append(rhs, e[i+1:])
	}
	return
}

func covOf(gl []glyph.ID) coverage.Table {
	c := coverage.Table{}
	for i, g := range gl {
		c[g] = i
	}
	return c
}

func readSub(s string) gtab.Subtable {
	kind, body := s[:1], s[2:]
	if st := readCtxSub(kind, body); st != nil {
		return st
	}
	switch kind {
	case "a":
		i := strings.IndexByte(body, ':')
		d, _ := strconv.Atoi(body[i+1:])
		set := coverage.Set{}
		for _, g := range readGids(body[:i], ".") {
			set[g] = true
		}
		return &gtab.Gsub1_1{Cov: set, Delta: glyph.ID(d)}
	case "b":
		gl, rhs := readPairs(body)
		sub := make([]glyph.ID, len(gl))
		for i, r := range rhs {
			n, _ := strconv.Atoi(r)
			sub[i] = glyph.ID(n)
		}
		return &gtab.Gsub1_2{Cov: covOf(gl), SubstituteGlyphIDs: sub}
	case "c", "d":
		gl, rhs := readPairs(body)
		repl := make([][]glyph.ID, len(gl))
		for i, r := range rhs {
			repl[i] = readGids(r, ".")
		}
		if kind == "c" {
			return &gtab.Gsub2_1{Cov: covOf(gl), Repl: repl}
		}
		return &gtab.Gsub3_1{Cov: covOf(gl), Alternates: repl}
	case "e":
		gl, rhs := readPairs(body)
		repl := make([][]gtab.Ligature, len(gl))
		for i, r := range rhs {
			if r == "" {
				continue
			}
			for _, lig := range strings.Split(r, "+") {
				j := strings.IndexByte(lig, '~')
				o, _ := strconv.Atoi(lig[j+1:])
				repl[i] = append(repl[i], gtab.Ligature{In: readGids(lig[:j], "."), Out: glyph.ID(o)})
			}
		}
		return &gtab.Gsub4_1{Cov: covOf(gl), Repl: repl}
	case "f":
		i := strings.IndexByte(body, ':')
		return &gtab.Gpos1_1{Cov: covOf(readGids(body[:i], ",")), Adjust: readVR(body[i+1:])}
	case "g":
		gl, rhs := readPairs(body)
		adj := make([]*gtab.GposValueRecord, len(gl))
		for i, r := range rhs {
			adj[i] = readVR(r)
		}
		return &gtab.Gpos1_2{Cov: covOf(gl), Adjust: adj}
	case "j":
		gl, rhs := readPairs(body)
		recs := make([]gtab.EntryExitRecord, len(gl))
		for i, r := range rhs {
			var a, b, c, d int
			fmt.Sscanf(r, "%d.%d.%d.%d", &a, &b, &c, &d)
			recs[i] = gtab.EntryExitRecord{Entry: anchor.Table{X: funit.Int16(a), Y: funit.Int16(b)},
				Exit: anchor.Table{X: funit.Int16(c), Y: funit.Int16(d)}}
		}
		return &gtab.Gpos3_1{Cov: covOf(gl), Records: recs}
	case "k":
		parts := strings.Split(body, ":")
		ml, mr := readPairs(parts[0])
		ma := make([]markarray.Record, len(ml))
		for i, r := range mr {
			var c, x, y int
			fmt.Sscanf(r, "%d.%d.%d", &c, &x, &y)
			ma[i] = markarray.Record{Class: uint16(c), Table: anchor.Table{X: funit.Int16(x), Y: funit.Int16(y)}}
		}
		bl, br := readPairs(parts[1])
		ba := make([][]anchor.Table, len(bl))
		for i, r := range br {
			ba[i] = []anchor.Table{}
			if r == "" {
				continue
			}
			for _, a := range strings.Split(r, "+") {
				var x, y int
				fmt.Sscanf(a, "%d.%d", &x, &y)
				ba[i] = append(ba[i], anchor.Table{X: funit.Int16(x), Y: funit.Int16(y)})
			}
		}
		return &gtab.Gpos4_1{MarkCov: covOf(ml), BaseCov: covOf(bl), MarkArray: ma, BaseArray: ba}
	case "h":
		m := gtab.Gpos2_1{}
		if body != "" {
			for _, e := range strings.Split(body, ",") {
				i := strings.IndexByte(e, '>')
				var l, r int
				fmt.Sscanf(e[:i], "%d+%d", &l, &r)
				m[glyph.Pair{Left: glyph.ID(l), Right: glyph.ID(r)}] = readPA(e[i+1:])
			}
		}
		return m
	case "i":
		parts := strings.Split(body, ":")
		set := coverage.Set{}
		for _, g := range readGids(parts[0], ",") {
			set[g] = true
		}
		var adjust [][]*gtab.PairAdjust
		if parts[3] != "" {
			for _, row := range strings.Split(parts[3], "!") {
				var cells []*gtab.PairAdjust
				for _, c := range strings.Split(row, "+") {
					cells = append(cells, readPA(c))
				}
				adjust = append(adjust, cells)
			}
		}
		return &gtab.Gpos2_2{Cov: set, Class1: readClasses(parts[1]), Class2: readClasses(parts[2]), Adjust: adjust}
	}
	panic("bad subtable " + s)
}

func readLookups(s string) gtab.LookupList {
	var ll gtab.LookupList
	if s == "" {
		return ll
	}
	for _, ls := range strings.Split(s, ";") {
		parts := strings.Split(ls, "/")
		var t, fl int
		fmt.Sscanf(parts[0], "%d,%d", &t, &fl)
		l := &gtab.LookupTable{Meta: &gtab.LookupMetaInfo{LookupType: uint16(t), LookupFlags: gtab.LookupFlags(fl)}}
		for _, p := range parts[1:] {
			l.Subtables = append(l.Subtables, readSub(p))
		}
		ll = append(ll, l)
	}
	return ll
}

// ---------------------------------------------------------------- outcomes

var dslErrClasses = []string{
	"expected identifier", "expected single glyph", "expected at least one glyph", "unknown lookup flag",
	"invalid glyph id", "consecutive hyphens in glyph list", "invalid range", "hyphenated range not terminated",
	"rune", "length mismatch", "duplicate mapping", "no substitutions found", "unexpected character",
	"unterminated string", "unexpected", "expected integer", "invalid integer", "int16 out of range",
	"expected glyph pair", "expected glyph, got", "duplicate class", "font has no cmap",
	"mark glyphs not given in ascending order", "base glyphs not given in ascending order", "missing mark class", "uint16 out of range",
	"duplicate input class", "duplicate backtrack class", "duplicate lookahead class", "overlapping classes", "overlapping input classes",
	"overlapping backtrack classes", "overlapping lookahead classes", "undefined class", "no input classes given", "empty class",
	"expected class name", "invalid lookup index", "invalid lookup position",
}

func dslErrClass(msg string) string {
	if strings.HasPrefix(msg, "expected \"") {
		return "expected-token"
	}
	for _, c := range dslErrClasses {
		if strings.HasPrefix(msg, c) {
			return c
		}
	}
	return "other:" + msg
}

func dslOutcome(ll gtab.LookupList, err error) string {
	if err != nil {
		line, msg, ok := builder.VerifParseError(err)
		if !ok {
			return "err-other:" + strings.ReplaceAll(err.Error(), "\n", " ")
		}
		return fmt.Sprintf("err:%d:%s", line, strings.ReplaceAll(dslErrClass(msg), "\n", " "))
	}
	return "ok:" + showLookups(ll)
}

func dslShowItems(items []builder.VerifItem) string {
	out := make([]string, len(items))
	for i, it := range items {
		if it.Typ == 0 {
			switch {
			case strings.HasPrefix(it.Val, "unexpected character U+"):
				h := it.Val[len("unexpected character U+"):]
				if j := strings.IndexByte(h, ' '); j >= 0 {
					h = h[:j]
				}
				r, _ := strconv.ParseInt(h, 16, 32)
				out[i] = fmt.Sprintf("0:u%d:%d", r, it.Line)
			case it.Val == "unterminated string":
				out[i] = fmt.Sprintf("0:s:%d", it.Line)
			default:
				out[i] = fmt.Sprintf("0:?%s:%d", hx([]byte(it.Val)), it.Line)
			}
			continue
		}
		out[i] = fmt.Sprintf("%d:%s:%d", it.Typ, hx([]byte(it.Val)), it.Line)
	}
	return strings.Join(out, ";")
}

// builderGoroutines counts goroutines (other than the caller) with a frame of the builder
// package on their stack, after giving them time to finish.
func builderGoroutines() int {
	n := -1
	for try := 0; try < 40; try++ {
		var buf bytes.Buffer
		_ = pprof.Lookup("goroutine").WriteTo(&buf, 2)
		n = 0
		for _, g := range strings.Split(buf.String(), "\n\n") {
			if strings.Contains(g, "gtab/builder.") && !strings.Contains(g, "builderGoroutines") {
				n++
			}
		}
		if n == 0 {
			return 0
		}
		runtime.Gosched()
		time.Sleep(time.Duration(try+1) * time.Millisecond)
	}
	return n
}

// dslExplain runs ExplainGsub, or ExplainGpos for `tab=gpos`, on the lookups of the case line.
func dslExplain(font *sfnt.Font, f Fields) string {
	ll := readLookups(f["lookups"])
	defer func() { font.Gsub, font.Gpos = nil, nil }()
	if f["tab"] == "gpos" {
		font.Gpos = &gtab.Info{LookupList: ll}
		return strings.Join(builder.ExplainGpos(font), "\n")
	}
	font.Gsub = &gtab.Info{LookupList: ll}
	return builder.ExplainGsub(font)
}

func init() {
	areas["dsl"] = areaDsl
	ops["dsl.lex"] = func(f Fields) string {
		return dslCanonPanic(guard(func() string { return dslShowItems(builder.VerifLex(string(f.Hex("text")))) }))
	}
	ops["dsl.parse"] = func(f Fields) string {
		return dslCanonPanic(guard(func() string {
			return dslOutcome(builder.Parse(dslFontOf(f), string(f.Hex("text"))))
		}))
	}
	ops["dsl.explain"] = func(f Fields) string {
		return dslCanonPanic(guard(func() string {
			return hx([]byte(dslExplain(dslFontOf(f), f)))
		}))
	}
	rt := func(f Fields) string {
		return dslCanonPanic(guard(func() string {
			font := dslFontOf(f)
			txt := dslExplain(font, f)
			return dslOutcome(builder.Parse(font, txt))
		}))
	}
	ops["dsl.roundtrip"] = rt // D: compared with the lookups themselves
	ops["dsl.modelrt"] = rt   // V: compared with the model's parse∘explain
	ops["dsl.flags"] = func(f Fields) string {
		return dslCanonPanic(guard(func() string {
			font := dslFontOf(Fields{"n": "3", "names": "-", "cmap": ""})
			fl := gtab.LookupFlags(f.Int("f"))
			font.Gsub = &gtab.Info{LookupList: gtab.LookupList{{Meta: &gtab.LookupMetaInfo{LookupType: 1, LookupFlags: fl},
				Subtables: []gtab.Subtable{&gtab.Gsub1_1{Cov: coverage.Set{1: true}, Delta: 1}}}}}
			txt := builder.ExplainGsub(font)
			ll, err := builder.Parse(font, txt)
			if err != nil || len(ll) != 1 {
				return "err:" + strings.TrimSpace(txt)
			}
			return strconv.Itoa(int(ll[0].Meta.LookupFlags))
		}))
	}
	ops["dsl.goroutines"] = func(f Fields) string {
		return dslCanonPanic(guard(func() string {
			old := runtime.GOMAXPROCS(f.Int("procs"))
			defer runtime.GOMAXPROCS(old)
			if b := builderGoroutines(); b != 0 {
				return fmt.Sprintf("dirty-baseline=%d", b)
			}
			font := dslFontOf(f)
			text := string(f.Hex("text"))
			for i := 0; i < 3; i++ {
				_, _ = builder.Parse(font, text)
			}
			return fmt.Sprintf("leak=%d", builderGoroutines())
		}))
	}
	ops["dsl.total"] = func(f Fields) string {
		out := guard(func() string {
			_, err := builder.Parse(dslFontOf(f), string(f.Hex("text")))
			if err == nil {
				return "lookups-or-error-with-line"
			}
			line, _, ok := builder.VerifParseError(err)
			if ok && line >= 1 {
				return "lookups-or-error-with-line"
			}
			return "error-without-line:" + strings.ReplaceAll(err.Error(), "\n", " ")
		})
		if strings.HasPrefix(out, "panic:") {
			return "panic"
		}
		return out
	}
	// the same parse repeated: GSUB1 chooses its format while ranging over a Go map, so a defect
	// there shows only for some iteration orders.  All repetitions must give the same outcome.
	repeat := func(reps int, once func() string) string {
		first := once()
		for i := 1; i < reps; i++ {
			if o := once(); o != first {
				return "unstable:" + first + "|" + o
			}
		}
		return first
	}
	ops["dsl.rtrepeat"] = func(f Fields) string {
		return dslCanonPanic(guard(func() string {
			font := dslFontOf(f)
			txt := dslExplain(font, f)
			return repeat(f.Int("reps"), func() string { return dslOutcome(builder.Parse(font, txt)) })
		}))
	}
	ops["dsl.parserepeat"] = func(f Fields) string {
		return dslCanonPanic(guard(func() string {
			font := dslFontOf(f)
			txt := string(f.Hex("text"))
			return repeat(f.Int("reps"), func() string { return dslOutcome(builder.Parse(font, txt)) })
		}))
	}
	ops["dsl.glyphbound"] = dslGlyphBound
	// comments do not change what a text means: parse the text and the text without its comments
	ops["dsl.comments"] = func(f Fields) string {
		return dslCanonPanic(guard(func() string {
			font := dslFontOf(f)
			a := dslOutcome(builder.Parse(font, string(f.Hex("text"))))
			b := dslOutcome(builder.Parse(font, string(f.Hex("plain"))))
			if a != b {
				return "differs:" + a + "|" + b
			}
			return "same"
		}))
	}
	// an early error followed by many more lookups: the lexer still has a lot to deliver when the
	// parser gives up; no goroutine may stay behind
	ops["dsl.goroutinesrep"] = func(f Fields) string {
		return dslCanonPanic(guard(func() string {
			old := runtime.GOMAXPROCS(f.Int("procs"))
			defer runtime.GOMAXPROCS(old)
			if b := builderGoroutines(); b != 0 {
				return fmt.Sprintf("dirty-baseline=%d", b)
			}
			font := dslFontOf(f)
			text := string(f.Hex("head")) + strings.Repeat(string(f.Hex("unit")), f.Int("rep"))
			reps := 3
			if f.Int("rep") >= 1000 {
				reps = 1
			}
			for i := 0; i < reps; i++ {
				if _, err := builder.Parse(font, text); err == nil {
					return "no-error"
				}
			}
			return fmt.Sprintf("leak=%d", builderGoroutines())
		}))
	}
	dslWorkerEnter()
}

// dslCommentBodies: what may follow a `#` up to the end of the line.
var dslCommentBodies = []string{" swap A", "x", " 12", " a -> b, \"q\" # more", "", " ends in ]", " GSUB1: A -> B", " é", "#", " \"", " -", " trailing space ",
	" |", " 0", ";", " ->"}

// addComments appends comments to lines of the text (always to the last line, without a final
// newline half of the time) and returns the commented text; the text itself is what is left when
// the comments are stripped.  nul: put a NUL byte into one comment.
func addComments(r *Rng, text string, nul bool) string {
	out, _ := addComments2(r, text, nul)
	return out
}

// addComments2 also returns the text with the comments stripped again (same line structure).
func addComments2(r *Rng, text string, nul bool) (string, string) {
	lines := strings.Split(text, "\n")
	for i := range lines {
		last := i == len(lines)-1
		if last || r.Chance(1, 2) {
			body := Pick(r, dslCommentBodies)
			if nul && (last || r.Chance(1, 3)) {
				body = " a\x00b" + body
			}
			lines[i] += Pick(r, []string{" ", "", "\t"}) + "#" + body
		}
	}
	out := strings.Join(lines, "\n")
	plain := text
	if r.Bool() {
		out += "\n"
		plain += "\n"
	}
	return out, plain
}

// quotesBalanced: no line of the text ends inside a string (a `#` there would not start a comment).
func quotesBalanced(text string) bool {
	for _, ln := range strings.Split(text, "\n") {
		in, esc := false, false
		for _, ch := range ln {
			switch {
			case esc:
				esc = false
			case in && ch == '\\':
				esc = true
			case ch == '"':
				in = !in
			case ch == '#' && !in:
				return false // the text has a comment already
			}
		}
		if in {
			return false
		}
	}
	return true
}

// ---------------------------------------------------------------- generators

var dslNamePool = []string{"A", "B", "C", "D", "E", "F", "G", "H", "I", "J", "K", "L", "M", "N", "O", "P", "a", "b",
	"f_i", "f.alt", "uni0041", "x1", "_u", ".null", "Agrave", "GSUB1", "marks", "ligs", "class", "to", "x", "dx", "é", "Ж", "λx", "one1"}

// genFont draws a synthetic font: with or without names, with a small or empty cmap.
func genFont(c *Ctx) dslFont {
	r := c.Rng
	n := Pick(r, []int{2, 3, 5, 8, 12, 20, 40})
	d := dslFont{n: n}
	switch r.Intn(4) {
	case 0:
		c.Stat("font.names", "none")
	case 1:
		c.Stat("font.names", "some")
		d.names = make([]string, n)
		perm := r.Intn(len(dslNamePool))
		for i := range d.names {
			if r.Chance(2, 3) {
				d.names[i] = dslNamePool[(perm+i)%len(dslNamePool)]
			}
		}
	default:
		c.Stat("font.names", "all")
		d.names = make([]string, n)
		perm := r.Intn(len(dslNamePool))
		for i := range d.names {
			d.names[i] = dslNamePool[(perm+i)%len(dslNamePool)]
		}
		d.names[0] = ".notdef"
	}
	runes := []int{'A', 'B', 'C', 'D', 'E', 'F', 'a', 'b', 'c', '1', '2', ' ', '"', '\\', '-', '>', ',', 0xe9, 0x416, 0x3bb,
		0xad, 0x7f, 9, 10, 0x2028, 0x1f600, 0xfffd, 0xa0, 'n', 't', 'r', 'z'}
	k := 0
	switch r.Intn(4) {
	case 0:
		if r.Bool() {
			c.Stat("font.cmap", "no cmap table")
			d.noCmap = true
			return d
		}
		c.Stat("font.cmap", "empty")
	case 1:
		k = r.Range(1, 4)
		c.Stat("font.cmap", "1-4")
	default:
		k = r.Range(5, 24)
		c.Stat("font.cmap", "5-24")
	}
	seen := map[int]bool{}
	for i := 0; i < k; i++ {
		ru := Pick(r, runes)
		if seen[ru] {
			continue
		}
		seen[ru] = true
		d.cmap = append(d.cmap, [2]int{ru, r.Intn(n)})
	}
	sort.Slice(d.cmap, func(i, j int) bool { return d.cmap[i][0] < d.cmap[j][0] })
	return d
}

func genGids(r *Rng, n, lo, hi int) []glyph.ID {
	k := r.Range(lo, hi)
	out := make([]glyph.ID, k)
	for i := range out {
		out[i] = glyph.ID(r.Intn(n))
	}
	return out
}

// genCov draws an ascending list of distinct glyph ids; sometimes a run of consecutive ids
// (the printer abbreviates those to ranges).
func genCov(r *Rng, n int) []glyph.ID {
	var out []glyph.ID
	if r.Chance(1, 3) && n >= 4 {
		start := r.Intn(n - 3)
		ln := r.Range(3, min(n-start, 8))
		for i := 0; i < ln; i++ {
			out = append(out, glyph.ID(start+i))
		}
		return out
	}
	for g := 0; g < n; g++ {
		if r.Chance(1, 3) {
			out = append(out, glyph.ID(g))
		}
	}
	if len(out) == 0 {
		out = []glyph.ID{glyph.ID(r.Intn(n))}
	}
	return out
}

// genLookup draws a lookup of type 1–4 inside the language's domain: one to three subtables
// of that type, non-empty right-hand sides where the parser insists on them.
func genLookup(c *Ctx, n int) *gtab.LookupTable {
	r := c.Rng
	t := r.Range(1, 4)
	flags := gtab.LookupFlags(r.Intn(16))
	l := &gtab.LookupTable{Meta: &gtab.LookupMetaInfo{LookupType: uint16(t), LookupFlags: flags}}
	k := Pick(r, []int{1, 1, 1, 2, 2, 3})
	c.Stat("rt.subtables", fmt.Sprint(k))
	for ; k > 0; k-- {
		l.Subtables = append(l.Subtables, genSubtable(c, n, t))
	}
	return l
}

func genSubtable(c *Ctx, n, t int) gtab.Subtable {
	r := c.Rng
	cov := genCov(r, n)
	switch t {
	case 1:
		if r.Bool() {
			set := coverage.Set{}
			for _, g := range cov {
				set[g] = true
			}
			// keep key+delta inside the font
			maxG := int(cov[len(cov)-1])
			minG := int(cov[0])
			d := r.Range(-minG, n-1-maxG)
			c.Stat("rt.form", "gsub1.1")
			return &gtab.Gsub1_1{Cov: set, Delta: glyph.ID(d)}
		}
		if r.Chance(2, 5) {
			// identity entries among entries that share one offset (possibly "negative", i.e. wrapping
			// modulo 65536), or only identity entries: the parser must keep format 2 / offset 0
			sub := make([]glyph.ID, len(cov))
			ids := r.Range(1, 3)
			if r.Chance(1, 5) {
				ids = len(cov)
			}
			isID := make([]bool, len(cov))
			for k := 0; k < ids; k++ {
				isID[r.Intn(len(cov))] = true
			}
			lo, hi := -1, -1
			for i, g := range cov {
				if !isID[i] {
					if lo < 0 {
						lo = int(g)
					}
					hi = int(g)
				}
			}
			d := 0
			if lo >= 0 {
				for tries := 0; tries < 20 && d == 0; tries++ {
					d = r.Range(-lo, n-1-hi)
				}
			}
			for i, g := range cov {
				sub[i] = g
				if !isID[i] {
					sub[i] = glyph.ID(int(g) + d) // uint16 arithmetic wraps for d < 0
				}
			}
			c.Stat("rt.form", "gsub1.2 identity entries")
			return &gtab.Gsub1_2{Cov: covOf(cov), SubstituteGlyphIDs: sub}
		}
		sub := make([]glyph.ID, len(cov))
		constant := r.Chance(1, 4)
		for i := range sub {
			sub[i] = glyph.ID(r.Intn(n))
			if constant {
				sub[i] = cov[i]
			}
		}
		c.Stat("rt.form", "gsub1.2")
		return &gtab.Gsub1_2{Cov: covOf(cov), SubstituteGlyphIDs: sub}
	case 2:
		repl := make([][]glyph.ID, len(cov))
		for i := range repl {
			repl[i] = genGids(r, n, 1, 4)
		}
		c.Stat("rt.form", "gsub2.1")
		return &gtab.Gsub2_1{Cov: covOf(cov), Repl: repl}
	case 3:
		alt := make([][]glyph.ID, len(cov))
		for i := range alt {
			alt[i] = genGids(r, n, 0, 4)
		}
		c.Stat("rt.form", "gsub3.1")
		return &gtab.Gsub3_1{Cov: covOf(cov), Alternates: alt}
	}
	repl := make([][]gtab.Ligature, len(cov))
	for i := range repl {
		k := r.Range(1, 3)
		for j := 0; j < k; j++ {
			repl[i] = append(repl[i], gtab.Ligature{In: genGids(r, n, 0, 3), Out: glyph.ID(r.Intn(n))})
		}
	}
	c.Stat("rt.form", "gsub4.1")
	return &gtab.Gsub4_1{Cov: covOf(cov), Repl: repl}
}

func genVR(r *Rng) *gtab.GposValueRecord {
	if r.Chance(1, 4) {
		return nil
	}
	pick := func() funit.Int16 { return funit.Int16(Pick(r, []int{0, 0, 1, -1, 5, -20, 500, -32768, 32767})) }
	return &gtab.GposValueRecord{XPlacement: pick(), YPlacement: pick(), XAdvance: pick(), YAdvance: pick()}
}

func genPA(r *Rng) *gtab.PairAdjust {
	p := &gtab.PairAdjust{First: genVR(r)}
	if r.Bool() {
		p.Second = genVR(r)
	}
	return p
}

// genClasses draws a class table with classes 1..k, all non-empty, over glyphs < n.
func genClasses(r *Rng, n, k int) classdef.Table {
	t := classdef.Table{}
	for c := 1; c <= k; c++ {
		for tries := 0; tries < 50; tries++ {
			g := glyph.ID(r.Intn(n))
			if _, used := t[g]; !used {
				t[g] = uint16(c)
				break
			}
		}
	}
	for i := r.Intn(3); i > 0; i-- {
		g := glyph.ID(r.Intn(n))
		if _, used := t[g]; !used {
			t[g] = uint16(r.Range(1, k))
		}
	}
	// make the class numbers contiguous from 1 (a draw may have failed on a tiny font)
	max := 0
	for _, c := range t {
		if int(c) > max {
			max = int(c)
		}
	}
	for c := 1; c <= max; c++ {
		found := false
		for _, v := range t {
			if int(v) == c {
				found = true
			}
		}
		if !found {
			return classdef.Table{glyph.ID(r.Intn(n)): 1}
		}
	}
	return t
}

// genClassesGaps draws a class table over up to five class numbers in which some numbers are not
// used: the notation writes an unused class as an empty list (`first A, , B;`, `second , C;`).
// Gaps occur at the start (class 1 unused), in the middle and several in a row; the highest
// number is always used.
func genClassesGaps(r *Rng, n int) classdef.Table {
	k := r.Range(2, 5)
	t := classdef.Table{}
	used := make([]bool, k+1)
	used[k] = true
	for c := 1; c < k; c++ {
		used[c] = r.Chance(2, 5)
	}
	for c := 1; c <= k; c++ {
		if !used[c] {
			continue
		}
		for cnt := r.Range(1, 2); cnt > 0; cnt-- {
			for tries := 0; tries < 50; tries++ {
				g := glyph.ID(r.Intn(n))
				if _, taken := t[g]; !taken {
					t[g] = uint16(c)
					break
				}
			}
		}
	}
	if len(t) == 0 {
		t[glyph.ID(r.Intn(n))] = uint16(k)
	}
	return t
}

// genGposLookup draws a GPOS lookup of type 1, 2, 3 or 4 inside the language's domain.
func genGposLookup(c *Ctx, n int) *gtab.LookupTable {
	r := c.Rng
	t := Pick(r, []int{1, 1, 2, 2, 2, 3, 4})
	l := &gtab.LookupTable{Meta: &gtab.LookupMetaInfo{LookupType: uint16(t), LookupFlags: gtab.LookupFlags(r.Intn(16))}}
	k := Pick(r, []int{1, 1, 2, 3})
	c.Stat("rt.subtables", fmt.Sprint(k))
	for ; k > 0; k-- {
		cov := genCov(r, n)
		switch {
		case t == 4:
			c.Stat("rt.form", "gpos4.1")
			pick := func() funit.Int16 { return funit.Int16(Pick(r, []int{0, 0, 1, -1, 7, -20, 500, -32768, 32767})) }
			nc := r.Range(1, min(3, len(cov)))
			ma := make([]markarray.Record, len(cov))
			for i := range ma {
				cl := r.Intn(nc)
				if i < nc {
					cl = i
				}
				ma[i] = markarray.Record{Class: uint16(cl), Table: anchor.Table{X: pick(), Y: pick()}}
			}
			var bases []glyph.ID
			if !r.Chance(1, 6) {
				bases = genCov(r, n)
			}
			ba := make([][]anchor.Table, len(bases))
			for i := range ba {
				ba[i] = make([]anchor.Table, nc)
				for j := range ba[i] {
					ba[i][j] = anchor.Table{X: pick(), Y: pick()}
				}
			}
			l.Subtables = append(l.Subtables, &gtab.Gpos4_1{MarkCov: covOf(cov), BaseCov: covOf(bases), MarkArray: ma, BaseArray: ba})
		case t == 3:
			c.Stat("rt.form", "gpos3.1")
			pick := func() funit.Int16 { return funit.Int16(Pick(r, []int{0, 0, 1, -1, 7, -20, 500, -32768, 32767})) }
			recs := make([]gtab.EntryExitRecord, len(cov))
			for i := range recs {
				recs[i] = gtab.EntryExitRecord{Entry: anchor.Table{X: pick(), Y: pick()}, Exit: anchor.Table{X: pick(), Y: pick()}}
			}
			l.Subtables = append(l.Subtables, &gtab.Gpos3_1{Cov: covOf(cov), Records: recs})
		case t == 1 && r.Bool():
			c.Stat("rt.form", "gpos1.1")
			l.Subtables = append(l.Subtables, &gtab.Gpos1_1{Cov: covOf(cov), Adjust: genVR(r)})
		case t == 1:
			c.Stat("rt.form", "gpos1.2")
			adj := make([]*gtab.GposValueRecord, len(cov))
			for i := range adj {
				adj[i] = genVR(r)
			}
			l.Subtables = append(l.Subtables, &gtab.Gpos1_2{Cov: covOf(cov), Adjust: adj})
		case r.Bool():
			c.Stat("rt.form", "gpos2.1")
			m := gtab.Gpos2_1{}
			for j := r.Range(1, 5); j > 0; j-- {
				m[glyph.Pair{Left: glyph.ID(r.Intn(n)), Right: glyph.ID(r.Intn(n))}] = genPA(r)
			}
			l.Subtables = append(l.Subtables, m)
		default:
			c.Stat("rt.form", "gpos2.2")
			c1, c2 := genClasses(r, n, r.Range(1, 2)), genClasses(r, n, r.Range(1, 3))
			if r.Chance(1, 2) {
				c1 = genClassesGaps(r, n)
				c.Stat("rt.gpos2.2 first", "unused class numbers")
			}
			if r.Chance(1, 2) {
				c2 = genClassesGaps(r, n)
				c.Stat("rt.gpos2.2 second", "unused class numbers")
			}
			adj := make([][]*gtab.PairAdjust, c1.NumClasses())
			for i := range adj {
				adj[i] = make([]*gtab.PairAdjust, c2.NumClasses())
				for j := range adj[i] {
					adj[i][j] = genPA(r)
				}
			}
			set := coverage.Set{}
			for _, g := range cov {
				set[g] = true
			}
			l.Subtables = append(l.Subtables, &gtab.Gpos2_2{Cov: set, Class1: c1, Class2: c2, Adjust: adj})
		}
	}
	return l
}

// inDomain says whether the font is one the notation can name every glyph of: non-empty names
// are distinct and are identifiers of the language; cmap targets are glyphs of the font.
func inDomain(d dslFont) bool {
	seen := map[string]bool{}
	for _, nm := range d.names {
		if nm == "" {
			continue
		}
		if seen[nm] {
			return false
		}
		seen[nm] = true
		items := builder.VerifLex(nm)
		if len(items) != 2 || items[0].Typ != 11 || items[0].Val != nm {
			return false
		}
	}
	return true
}

var dslSnippets = []string{
	"GSUB1: A->B, M->N", "GSUB1: A-C -> B-D, M->N, N->O", "GSUB1: -marks A->B", "GSUB1: -marks -ligs -base -rtl\n A -> B",
	"GSUB2: A -> \"AA\", B -> \"AA\", C -> \"ABAAC\"", "GSUB3: A -> [ \"BCD\" ]", "GSUB3: A -> [B C], M -> [B C]",
	"GSUB4: -marks A A A -> B, A -> D, A A -> C", "GSUB4: \"AB\" -> \"X\"", "GSUB1: 1 -> 2, 3 - 5 -> 4 - 6",
	"GSUB1: \"A\\\"B\" -> \"CD\"", "GSUB1: A -> B ||\n\tC -> D, E -> A", "GSUB4: A B -> C || A -> D", "GSUB3: A -> [C B] ||\n B -> []", "GSUB2: A -> B C # comment\nGSUB1: A -> B;", "GSUB1:\n\tA -> B,\n\tC -> D\n",
}

var dslOtherForms = []string{
	"GSUB5:\n\t\"AAA\" -> 1@0 2@1 1@0, \"AAB\" -> 1@0 1@1 2@0 ||\n\tclass :alpha: = [A-K]\n\tclass :digits: = [L-Z]\n\t/A B C/ :alpha: :digits: -> 2@1, :alpha: :: :digits: -> 2@2 ||\n\t[A B C] [A C] [A D] -> 3@0",
	"GSUB6:\n\tA B | C D | E F -> 1@0 2@1, B | C D E | F -> 1@2 ||\n\tinputclass :ABC: = [\"ABC\"]\n\tbacktrackclass :DEF: = [\"DEF\"]\n\tlookaheadclass :DEF: = [\"DEF\"]\n\t/A B C/ :DEF: :: | :ABC: | :: :DEF: -> 1@0 ||\n\t[A] [A B C] | [A B] [A C] [B C] | [A B C] [A B C] -> 1@0 1@1 1@2",
	"GPOS1: -marks [M] -> y+500", "GPOS1: A -> x+1 y-2 dx+3, B -> _ ||\n\t[C D] -> dx-5",
	"GPOS2: A B -> x+1 & dx-2, A C -> _ & y+1",
	"GPOS2:\n\t/A B/\n\tfirst A, B;\n\tsecond C;\n\t_, x+1;\n\tdx+2, _ & y+1;\n\t_, _;",
	"GPOS3:\n\tA: 1,2 to 3,4;\n\tB: -1,-2 to 0,0",
	"GPOS7:[A] [B] -> 0@0", "GPOS8: A | B C | D -> 1@0 || [A] | [B] | [C] -> 0@0",
	"GPOS4:\n\tmark M: 0@1,2;\n\tmark N: 1@3,4;\n\tbase A: @5,6 @7,8;\n\tbase B: @-1,-2 @0,0;",
}

var dslFragments = []string{"GSUB1", "GSUB2", "GSUB3", "GSUB4", ":", " ", "\n", "\t", "->", "-", "--", "|", "||", ",", ";", "[", "]",
	"@", "/", "&", "=", "A", "B", "C", "M", "1", "22", "+3", "-4", "99999", "\"AB\"", "\"A\\\"", "\"abc", "# c\n", "#", "\x00", "$",
	"\xff", "\xc3", "é", "Ж", " ", " ", "\r", "\v", "-marks", "-ligs", "-lig", "-rtl", "-base", "-bogus", "x", "_", ".", "€", "y", "dx", "dy", "x+5", "y-3", "first", "second", "+99999", "-32769", "9223372036854775808",
	"\"\"", "\"z\"", "A-C", "C-A", "A-A", "1-3", "3 - 1", "-A", "A-", "A--B", "\\", "'", "~", "0", "00", "+", "to", "class", "mark", "base"}

func mutate(r *Rng, s string) string {
	b := []byte(s)
	for k := r.Range(1, 3); k > 0; k-- {
		switch r.Intn(5) {
		case 0: // delete a span
			if len(b) > 0 {
				i := r.Intn(len(b))
				j := min(len(b), i+r.Range(1, 4))
				b = append(b[:i:i], b[j:]...)
			}
		case 1: // insert a fragment
			i := r.Intn(len(b) + 1)
			fr := Pick(r, dslFragments)
			b = append(b[:i:i], append([]byte(fr), b[i:]...)...)
		case 2: // replace a byte
			if len(b) > 0 {
				b[r.Intn(len(b))] = Pick(r, []byte{0, '"', '\n', '-', '>', ' ', 0xff, 'A', '1', '|', '\\', '#', '['})
			}
		case 3: // truncate
			if len(b) > 0 {
				b = b[:r.Intn(len(b))]
			}
		case 4: // duplicate a span
			if len(b) > 0 {
				i := r.Intn(len(b))
				j := min(len(b), i+r.Range(1, 6))
				b = append(b[:j:j], append(append([]byte{}, b[i:j]...), b[j:]...)...)
			}
		}
	}
	return string(b)
}

// dslRangeTemplates: every place of the language where a glyph list is read; %s is replaced by
// a glyph range (or, sometimes, a plain glyph).
// dslGsub1Order: GSUB1 texts whose format choice must not depend on the order in which the
// parser's map is visited (identity entries, one shared offset, offsets that wrap).
var dslGsub1Order = []string{
	"GSUB1: A -> A, B -> C", "GSUB1: A -> A, B -> C, C -> D", "GSUB1: A-C -> A-C", "GSUB1: A -> A", "GSUB1: B -> A, C -> B, D -> D",
	"GSUB1: A -> B, C -> C, E -> F, G -> G, I -> J", "GSUB1: A -> A, B -> B ||\n\tC -> A, D -> D", "GSUB1: Z -> A, Y -> Y", "GSUB1: 3 -> 3, 4 -> 6, 5 -> 7",
	"GSUB1: A -> A, B -> C, C -> E", "GSUB1: -marks A - D -> B - E, M -> M",
}

var dslRangeTemplates = []string{
	"GSUB1: %s -> %s", "GSUB1: -marks %s -> %s, %s -> A", "GSUB2: A -> %s", "GSUB2: %s -> B %s", "GSUB3: A -> [%s]", "GSUB3: %s -> [B %s]",
	"GSUB4: %s -> B", "GSUB4: A %s -> %s", "GPOS1: [%s] -> x+1", "GPOS1: %s -> x+1 || [%s] -> dy-2", "GPOS2: %s -> x+1 & _",
	"GPOS2: /%s/ first %s; second %s;\n _, _; _, x+1;", "GPOS2: /%s/ first A, %s; second , %s;\n _, _, _; _, _, _; _, _, x+1;",
	"GPOS3: %s: 1,2 to 3,4", "GPOS3:\n\tA: 1,2 to 3,4;\n\t%s: 0,0 to 0,0", "GPOS4: mark %s: 0@1,2; base %s: @3,4", "GPOS4: mark A: 0@1,2; base %s: @3,4;",
	"GSUB5: %s -> 1@0", "GSUB5: A %s -> 1@0, %s -> ", "GSUB5: class :c: = [%s]\n\t/%s/ :c: :: -> 1@0", "GSUB5: [%s] [%s] -> 0@0 1@1",
	"GSUB6: %s | %s | %s -> 1@0", "GSUB6: | A %s | -> 1@0, %s | B | %s -> ", "GSUB6: [%s] | [%s] | [%s] -> 1@0", "GSUB6: | [%s] | -> 0@0",
	"GSUB6: backtrackclass :b: = [%s]\n\tinputclass :i: = [%s]\n\tlookaheadclass :l: = [%s]\n\t/%s/ :b: | :i: | :l: -> 1@0",
	"GPOS7: %s -> 1@0 || [%s] -> 0@0", "GPOS7: class :c: = [%s] /%s/ :c: -> 2@0", "GPOS8: %s | %s | -> 1@0", "GPOS8: [%s] | [%s] | -> 1@0",
}

// glyphSpell writes glyph g of the font by number, by name, or (glyph 0) as `.notdef`.
func glyphSpell(r *Rng, d dslFont, g int) string {
	if d.names != nil && g < len(d.names) && d.names[g] != "" && r.Chance(2, 3) {
		return d.names[g]
	}
	if g == 0 && r.Chance(1, 4) {
		return ".notdef"
	}
	return strconv.Itoa(g)
}

// genRange writes a glyph range: ascending, descending or of one element; the end points favour
// 0, 1 and n-1; the hyphen with and without spaces (without, `3-1` is lexed as 3 and -1).
func genRange(r *Rng, d dslFont) (string, string) {
	ends := []int{0, 0, 1, 1, d.n - 1, d.n - 1, d.n - 2, d.n / 2, r.Intn(d.n), d.n, d.n, d.n + 1, 65535, 65536}
	a, b := Pick(r, ends), Pick(r, ends)
	if a < 0 {
		a = 0
	}
	if b < 0 {
		b = 0
	}
	if r.Chance(1, 8) {
		b = a
	}
	kind := "ascending"
	switch {
	case a == b:
		kind = "one element"
	case a > b:
		kind = "descending"
		if b == 0 {
			kind = "descending to glyph 0"
		}
	}
	sep := Pick(r, []string{" - ", " - ", " - ", "-", " -", "- ", " - - "})
	s := glyphSpell(r, d, a) + sep + glyphSpell(r, d, b)
	if r.Chance(1, 10) {
		s += " - " + glyphSpell(r, d, Pick(r, ends)%max(d.n, 1))
	}
	return s, kind
}

// genRangeText fills a template with ranges.
func genRangeText(c *Ctx, d dslFont) string {
	r := c.Rng
	t := Pick(r, dslRangeTemplates)
	for strings.Contains(t, "%s") {
		var rep string
		if r.Chance(3, 4) {
			var kind string
			rep, kind = genRange(r, d)
			c.Stat("range.kind", kind)
		} else {
			rep = glyphSpell(r, d, r.Intn(d.n))
			if r.Chance(1, 3) { // a glyph number at or just beyond the end of the font
				rep = strconv.Itoa(Pick(r, []int{d.n - 1, d.n, d.n, d.n + 1, 65535, 65536}))
				c.Stat("range.kind", "single number near the glyph count")
			}
		}
		t = strings.Replace(t, "%s", rep, 1)
	}
	return t
}

func randText(r *Rng) string {
	var sb strings.Builder
	for k := r.Range(0, 14); k > 0; k-- {
		sb.WriteString(Pick(r, dslFragments))
		if r.Chance(1, 3) {
			sb.WriteByte(' ')
		}
	}
	return sb.String()
}

func hasOtherForm(s string) bool {
	return strings.Contains(s, "GSUB5") || strings.Contains(s, "GSUB6") || strings.Contains(s, "GPOS7") || strings.Contains(s, "GPOS8")
}

var dslGposSnippets = []string{
	"GPOS1: -marks [M] -> y+500", "GPOS1: A -> x+1 y-2 dx+3, B -> _ ||\n\t[C D] -> dx-5 dy+2",
	"GPOS2: A B -> x+1 & dx-2, A C -> _ & y+1", "GPOS1: A -> x1 x+99999 y-32768, B -> dx 5",
	"GPOS2:\n\t/A B/\n\tfirst A, B;\n\tsecond C;\n\t_, x+1;\n\tdx+2, _ & y+1;\n\t_, _;",
	"GPOS2: /A-C/ first A, , B; second C D, E;\n _, x+1, y+2; dx+2, _ & y+1, _; _, _, _; x+1,x+2,x+3; || A B -> _",
	"GPOS1: [A-C] -> _ || [D] -> x+99999999999999999999", "GPOS2: A -> x+1",
	"GPOS2: /A B/ first A, , B; second , C, , , D;\n _, x+1, _, _, _, y+2;\n _, _, _, _, _, _;\n _, _, _, _, _, _;\n dx+1, _, _, _, _, _ & x+3;",
	"GPOS2: /E/ first , , E; second E, , V;\n _, _, _, _; _, _, _, _; _, _, _, _; _, x+1, _, y+5;",
	"GPOS2: /A/ first A; second , , ;\n _; x+1;",
	"GPOS3:\n\tA: 1,2 to 3,4;\n\tB: -1,-2 to 0,0", "GPOS3: -rtl A 1,2 to 3,4; A: 5,6 to -7,8 || B: 0,0 to 0,0\nGSUB1: A->B",
	"GPOS3: A B: 1,2 to 3,4", "GPOS3: : 1,2 to 3,4", "GPOS3: A: 1,2 too 3,4", "GPOS3: A: 1 2 to 3,4", "GPOS3: M: 40000,2 to 3,4",
	"GPOS4:\n\tmark M: 0@1,2;\n\tmark N: 1@3,4;\n\tbase A: @5,6 @7,8;\n\tbase B: @-1,-2 @0,0;",
	"GPOS4: mark M: 0@1,2; base A: @5,6\nGSUB1: A->B", "GPOS4: mark N: 0@1,2; mark M: 0@1,2", "GPOS4: mark M: 1@1,2",
	"GPOS4: mark M: 0@1,2; base B: @1,1; base A: @1,1", "GPOS4: mark M: 70000@1,2", "GPOS4: mark M: -1@1,2", "GPOS4: base A:;", "GPOS4:",
	"GPOS4: -marks mark M 0 @ 1 , 2 mark N: 1@1,1\nbase A: @1,2, @3,4 || mark C: 0@0,0 ||\n base D", "GPOS4: mark M: 0@1,2; base A: @1,2 @3,4",
	"GPOS4: mark M: 0@1,2; mark N: 2@0,0", "GPOS4: mark A B: 0@1,2", "GPOS4: mark: 0@1,2", "GPOS4: mark M: 0@1,2; base A: @1 2", "GPOS4: mark M: 0@40000,2",
	"GPOS3: \"AB\": 1,2 to 3,4", "GPOS3: C: 1,2 to 3,4;\n\nGSUB1: A->B", "GPOS3: C: +1,-2 to 3,", "GPOS3:\n\t3: 1,2 to 3,4; ||\n\tA: 1,1 to 1,1",
}

var dslCtxSnippets = []string{
	"GSUB5:\n\t\"AAA\" -> 1@0 2@1 1@0, \"AAB\" -> 1@0 1@1 2@0 ||\n\tclass :alpha: = [A-K]\n\tclass :digits: = [L-Z]\n\t/A B C/ :alpha: :digits: -> 2@1, :alpha: :: :digits: -> 2@2 ||\n\t[A B C] [A C] [A D] -> 3@0",
	"GSUB6:\n\tA B | C D | E F -> 1@0 2@1, B | C D E | F -> 1@2 ||\n\tinputclass :ABC: = [\"ABC\"]\n\tbacktrackclass :DEF: = [\"DEF\"]\n\tlookaheadclass :DEF: = [\"DEF\"]\n\t/A B C/ :DEF: :: | :ABC: | :: :DEF: -> 1@0 ||\n\t[A] [A B C] | [A B] [A C] [B C] | [A B C] [A B C] -> 1@0 1@1 1@2",
	"GPOS7:[A] [B] -> 0@0", "GPOS8: A | B C | D -> 1@0 || [A] | [B] | [C] -> 0@0",
	"GSUB5: A B -> 1@0, A -> , C A -> 2@1 3@0\nGSUB1: A -> B", "GSUB5: -marks class :x: = [A B] class :y: = [C]\n /A C/ :x: :y: -> 1@0, :: -> , :y: :: :x: ->",
	"GSUB5: class :x: = [A] class :x: = [B] /A/ :x: -> 1@0", "GSUB5: class :x: = [A B] class :y: = [B] /A/ :x: -> 1@0", "GSUB5: /A/ :z: -> 1@0",
	"GSUB5: class :x: = [] /A/ :x: ->", "GSUB5: /A/ -> 1@0", "GSUB5: -> 1@0", "GSUB5: A -> 70000@0", "GSUB5: A -> 1@", "GSUB5: A -> 1@70000", "GSUB5: A -> 1 0",
	"GSUB5: [A B] [] [C] -> 1@2 || A -> 1@0", "GSUB5: [A] [B", "GSUB5: /A B/ :x -> 1@0", "GSUB5: /A B/ :1: -> 1@0", "GSUB5: class A", "GSUB5: class :x: [A] /A/ :x: :x: -> 0@1",
	"GSUB6: | A | -> 1@0, B | A C | D E -> ", "GSUB6: | [A] | -> 1@0", "GSUB6: [A] [B] | [C] | [D] -> 1@0 || | A | B -> 2@0", "GSUB6: A | | B -> 1@0", "GSUB6: | [A] [B] -> 1@0",
	"GSUB6: inputclass :i: = [A] backtrackclass :b: = [B] lookaheadclass :l: = [C]\n/A/ :b: :: | :i: :: | :l: -> 1@0, | :: | -> ",
	"GSUB6: inputclass :i: = [A] inputclass :i: = [B] /A/ | :i: | -> 1@0", "GSUB6: backtrackclass :b: = [A B] backtrackclass :c: = [B] /A/ | :: | ->",
	"GSUB6: lookaheadclass :l: = [A] lookaheadclass :l: = [C] /A/ | :: | ->", "GSUB6: /A/ :b: | :: | -> 1@0", "GSUB6: /A/ | :: | :l: -> 1@0", "GSUB6: /A/ | | -> 1@0",
	"GSUB6: inputclass :i: = [A] || /A/ | :i: | -> 1@0 || /A/ | :i: | -> 1@0", "GPOS8: | | -> 1@0", "GPOS7: class :c1: = [A]\n\t/A/ :c1: -> 1@0 ||\n\t class :c1: = [B]\n\t/B/ :c1: :: -> ",
	"GSUB6: |", "GSUB6: | /", "GSUB6: | [", "GSUB5: class", "GSUB5: /", "GPOS7: A B", "GSUB6: A | B", "GSUB6: A | B | C", "GSUB5: [A] -> 1@0 1", "GSUB5: A -> 1@0 || ", "GSUB5: A -> 1@0 ||\n\n B -> 2@0",
}

var simpleFont = dslFont{n: 30, names: append([]string{".notdef", "space", "x"}, strings.Split("A B C D E F G H I J K L M N O P Q R S T U V W X Y Z", " ")...)[:29:29],
	cmap: func() [][2]int {
		var m [][2]int
		for ch := 'A'; ch <= 'Z'; ch++ {
			m = append(m, [2]int{int(ch), int(ch-'A') + 3})
		}
		return m
	}()}

func areaDsl(c *Ctx) {
	r := c.Rng
	simpleFont.n = len(simpleFont.names)

	// --- every flag subset (D): Parse(Explain) keeps the flags
	for f := 0; f < 16; f++ {
		c.Case(Direct, "dsl.flags", fmt.Sprintf("f=%d", f), f != 0)
		c.Stat("flags", fmt.Sprint(f))
	}

	// --- every token kind at the start / at the end / alone; Appendix F corner cases
	kinds := []string{"\n", "&", "->", "@", "|", ":", ",", "=", "-", "abc", "12", "||", ";", "/", "]", "[", "\"s\"", "#c", "\x00", "$", "\"u", "+", "-7", " ", ""}
	for _, a := range kinds {
		for _, b := range kinds {
			out := c.Case(Verdict, "dsl.lex", "text="+hx([]byte(a+b)), true)
			c.Stat("lex.edge", fmt.Sprint(strings.Count(out, ";")+1, " items"))
		}
		c.Case(Verdict, "dsl.lex", "text="+hx([]byte("A "+a+" B\n"+a)), true)
	}

	budget := c.N
	for i := 0; i < budget; i++ {
		switch x := r.Intn(100); {
		case x < 25: // lexer on derived / random / mutated text
			var t string
			switch r.Intn(4) {
			case 0:
				t = Pick(r, append(dslSnippets, dslOtherForms...))
				c.Stat("lex.text", "valid")
			case 1:
				t = mutate(r, Pick(r, append(dslSnippets, dslOtherForms...)))
				c.Stat("lex.text", "mutated")
			case 2:
				t = randText(r)
				c.Stat("lex.text", "fragments")
			default:
				t = string(r.Bytes(r.Range(0, 24)))
				c.Stat("lex.text", "random bytes")
			}
			if r.Chance(1, 5) {
				t = addComments(r, t, r.Chance(1, 4))
				c.Stat("lex.text", "with comments")
			}
			out := c.Case(Verdict, "dsl.lex", "text="+hx([]byte(t)), len(t) > 1)
			switch {
			case strings.Contains(out, "0:u"):
				c.Stat("lex.end", "error unexpected character")
			case strings.Contains(out, "0:s"):
				c.Stat("lex.end", "error unterminated string")
			default:
				c.Stat("lex.end", "EOF")
			}
			c.Stat("lex.items", bucket(strings.Count(out, ";")+1))
		case x < 50: // parser outcome on GSUB1–4 text (V)
			d := simpleFont
			if r.Chance(1, 3) {
				d = genFont(c)
			} else if r.Chance(1, 8) {
				d.cmap, d.noCmap = nil, true
			}
			var t string
			pool := append(append(append([]string{}, dslSnippets...), dslGposSnippets...), dslCtxSnippets...)
			switch r.Intn(4) {
			case 3:
				t = genRangeText(c, d)
				if r.Chance(1, 4) {
					t += "\n" + genRangeText(c, d)
				}
				c.Stat("parse.text", "glyph ranges")
				// D: whatever Parse accepts names glyphs of the font only and can be explained again
				c.Case(Direct, "dsl.glyphbound", d.args()+" text="+hx([]byte(t)), true)
			case 0:
				t = Pick(r, pool)
				if r.Bool() {
					t += "\n" + Pick(r, pool)
				}
				c.Stat("parse.text", "valid")
			case 1:
				t = mutate(r, Pick(r, pool))
				c.Stat("parse.text", "mutated")
			default:
				t = Pick(r, []string{"GSUB1", "GSUB2", "GSUB3", "GSUB4", "GPOS1", "GPOS2", "GPOS3", "GPOS4", "GSUB5", "GSUB6", "GPOS7", "GPOS8"}) + ": " + randText(r)
				c.Stat("parse.text", "fragments")
			}
			if r.Chance(1, 8) {
				t = Pick(r, dslGsub1Order)
				if r.Chance(1, 3) {
					t = mutate(r, t)
				}
				c.Stat("parse.text", "gsub1 identity entries (repeated)")
				c.Case(Verdict, "dsl.parserepeat", d.args()+" reps=24 text="+hx([]byte(t)), true)
			}
			if r.Chance(1, 4) {
				if quotesBalanced(t) && r.Chance(3, 4) {
					// D: the comments stripped again, the parse result is the same
					tc, plain := addComments2(r, t, false)
					c.Stat("parse.text", "with comments (and without)")
					c.Case(Direct, "dsl.comments", d.args()+" text="+hx([]byte(tc))+" plain="+hx([]byte(plain)), true)
					t = tc
				} else {
					t = addComments(r, t, r.Chance(1, 3))
					c.Stat("parse.text", "with comments")
				}
			}
			out := c.Case(Verdict, "dsl.parse", d.args()+" text="+hx([]byte(t)), true)
			if strings.HasPrefix(out, "ok:") {
				c.Stat("parse.outcome", "ok")
			} else {
				parts := strings.SplitN(out, ":", 3)
				c.Stat("parse.outcome", parts[len(parts)-1])
			}
		case x < 72: // Explain text (V), Parse∘Explain = id (D) and its model (V)
			d := genFont(c)
			if !inDomain(d) {
				c.Stat("rt.font", "outside domain (names not identifiers / not distinct)")
				continue
			}
			c.Stat("rt.font", "in domain")
			var ll gtab.LookupList
			tab := "gsub"
			if r.Chance(2, 5) {
				tab = "gpos"
			}
			for k := r.Range(1, 3); k > 0; k-- {
				if d.n >= 6 && r.Chance(2, 5) {
					ll = append(ll, genCtxLookup(c, d.n, tab == "gpos"))
				} else if tab == "gpos" {
					ll = append(ll, genGposLookup(c, d.n))
				} else {
					ll = append(ll, genLookup(c, d.n))
				}
			}
			args := d.args() + " tab=" + tab + " lookups=" + showLookups(ll)
			c.Case(Verdict, "dsl.explain", args, true)
			c.Case(Verdict, "dsl.modelrt", args, true)
			for _, l := range ll {
				if tab == "gsub" && l.Meta.LookupType == 1 { // format choice ranges over a map: repeat
					c.Case(Direct, "dsl.rtrepeat", args+" reps=24", true)
					break
				}
			}
			out := c.Case(Direct, "dsl.roundtrip", args, true)
			if strings.HasPrefix(out, "ok:") {
				c.Stat("rt.outcome", "parsed")
			} else {
				c.Stat("rt.outcome", out)
			}
		case x < 86: // Parse∘Explain on the real code for GSUB 5/6 and GPOS 1–4 (D, seeded)
			if r.Chance(1, 3) { // what a chained rule written in the notation means (D)
				genMeaning(c)
			} else {
				genSeeded(c)
			}
		case x < 93: // totality on all forms, mutated (D)
			d := simpleFont
			t := Pick(r, append(dslSnippets, dslOtherForms...))
			if r.Chance(3, 4) {
				t = mutate(r, t)
			}
			if r.Chance(1, 6) {
				t = randText(r)
			}
			if r.Chance(1, 3) {
				if r.Bool() {
					d = genFont(c)
				}
				t = genRangeText(c, d)
				c.Stat("total.text", "glyph ranges")
			}
			if r.Chance(1, 5) {
				t = addComments(r, t, r.Chance(1, 4))
				c.Stat("total.text", "with comments")
			}
			out := c.Case(Direct, "dsl.total", d.args()+" text="+hx([]byte(t)), true)
			c.Stat("total.outcome", strings.SplitN(out, ":", 2)[0])
		default: // goroutines after erroring parses (D), GOMAXPROCS 1 and 16
			d := simpleFont
			if r.Chance(1, 16) { // an early error, then many more lookups for the lexer to deliver
				head := Pick(r, []string{"GSUB1: A -> \n", "GSUB2: A\n", "GPOS1: A -> q\n", "GSUB1: \"Az\" -> B\n", "GSUB9: A\n", "GSUB1: A -> B\n$\n"})
				unit := Pick(r, []string{"GSUB1: A -> B\n", "GSUB2: A -> \"AB\", B -> C D\n", "GPOS1: [A B] -> x+1 y-2\n", "GSUB4: A B -> C # c\n"})
				rep := Pick(r, []int{100, 100, 100, 1000, 1000, 2000}) // 5000 can pass the worker's 2 s limit on a busy machine (false alarm "runaway" in a parallel thorough sweep)
				procs := Pick(r, []int{1, 2, 16})
				c.Stat("goroutines.text", fmt.Sprintf("early error + %d lookups", rep))
				c.Case(Direct, "dsl.goroutinesrep", fmt.Sprintf("procs=%d %s rep=%d head=%s unit=%s", procs, d.args(), rep, hx([]byte(head)), hx([]byte(unit))), true)
				continue
			}
			var t string
			switch r.Intn(4) {
			case 0: // error in the middle of a quoted string
				s := []byte("ABCDEFGH")
				s[r.Intn(len(s)-1)] = 'z'
				t = "GSUB1: \"" + string(s) + "\" -> B\nGSUB1: A -> B\n" + Pick(r, dslOtherForms)
				c.Stat("goroutines.text", "unmapped rune mid-string")
			case 1:
				t = mutate(r, Pick(r, append(dslSnippets, dslOtherForms...))) + "\n" + Pick(r, dslSnippets)
				c.Stat("goroutines.text", "mutated")
			case 2:
				t = Pick(r, dslSnippets) + "\nGSUB2: A -> \"AB" + Pick(r, []string{"", "\n", "\x00", "$"}) + "\nGSUB1: A -> B"
				c.Stat("goroutines.text", "lexer error after valid lookups")
			default:
				t = Pick(r, append(dslSnippets, dslOtherForms...))
				c.Stat("goroutines.text", "valid")
			}
			procs := Pick(r, []int{1, 1, 2, 4, 16, 16})
			c.Stat("goroutines.procs", fmt.Sprint(procs))
			c.Case(Direct, "dsl.goroutines", fmt.Sprintf("procs=%d %s text=%s", procs, d.args(), hx([]byte(t))), true)
		}
	}
}
