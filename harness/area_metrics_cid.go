package main

// C12 — metric queries of CID-keyed CFF fonts (per-FD matrices composed with the font matrix):
// GlyphBBoxPDF, FontBBoxPDF, GlyphWidthPDF, WidthsPDF, GlyphWidth, WidthsMapPDF on the real code
// against the geometric definitions (Spec/MetricsQueries.lean).  All matrices and coordinates are
// dyadic and fm[3]·fd[3] is a power of two, so the float64 evaluation in Go is exact.

import (
	"fmt"
	"strings"

	"seehuhn.de/go/geom/matrix"
	"seehuhn.de/go/postscript/cid"
	"seehuhn.de/go/postscript/type1"

	"seehuhn.de/go/sfnt"
	"seehuhn.de/go/sfnt/cff"
	"seehuhn.de/go/sfnt/glyph"
)

func init() {
	ops["metrics.dcid"] = func(f Fields) string {
		return canonPanic(guard(func() string {
			var fds []matrix.Matrix
			for _, m := range strings.Split(f["fds"], ";") {
				fds = append(fds, parseMatF(m))
			}
			sel := f.Ints("sel")
			ws := parseRatsF(f["w"])
			gl := strings.Split(f["g"], ";")
			o := &cff.Outlines{
				FDSelect:     func(gid glyph.ID) int { return sel[gid] },
				ROS:          &cid.SystemInfo{Registry: "Adobe", Ordering: "Identity", Supplement: 0},
				FontMatrices: fds,
			}
			for range fds {
				o.Private = append(o.Private, &type1.PrivateDict{BlueScale: 0.039625, BlueShift: 7, BlueFuzz: 1})
			}
			for j := range gl {
				g := cff.NewGlyph("", ws[j])
				if gl[j] != "-" {
					c := strings.Split(gl[j], ":")
					l, b, r, t := parseRatF(c[0]), parseRatF(c[1]), parseRatF(c[2]), parseRatF(c[3])
					g.MoveTo(l, b)
					g.LineTo(r, b)
					g.LineTo(r, t)
					g.LineTo(l, t)
				}
				o.Glyphs = append(o.Glyphs, g)
				o.GIDToCID = append(o.GIDToCID, cid.CID(j))
			}
			font := &sfnt.Font{FamilyName: "Verif", UnitsPerEm: uint16(f.Int("upem")), FontMatrix: parseMatF(f["fm"]),
				Weight: 400, Width: 5, IsRegular: true, Outlines: o}
			n := len(gl)
			gp := make([]string, n)
			gw := make([]float64, n)
			dw := make([]float64, n)
			for i := 0; i < n; i++ {
				r := o.GlyphBBoxPDF(font.FontMatrix, glyph.ID(i))
				gp[i] = fmt.Sprintf("%d:%d:%d:%d", q20(r.LLx), q20(r.LLy), q20(r.URx), q20(r.URy))
				gw[i] = font.GlyphWidthPDF(glyph.ID(i))
				dw[i] = font.GlyphWidth(glyph.ID(i))
			}
			fp := font.FontBBoxPDF()
			mp := "nil"
			if m := font.WidthsMapPDF(); m != nil {
				mp = fmt.Sprintf("map-of-%d", len(m))
			}
			return "gp=" + strings.Join(gp, ";") + fmt.Sprintf("|fp=%d:%d:%d:%d", q20(fp.LLx), q20(fp.LLy), q20(fp.URx), q20(fp.URy)) +
				"|gw=" + q20s(gw) + "|pw=" + q20s(font.WidthsPDF()) + "|dw=" + q20s(dw) + "|map=" + mp
		}))
	}
}

// cidFD: a font dictionary matrix with dyadic entries; fd[3] is ±(a power of two)
func cidFD(r *Rng) string {
	a, b, c, d, e, f := "1", "0", "0", "1", "0", "0"
	switch r.Intn(7) {
	case 0: // identity
	case 1: // translation
		e, f = dyadic(r, 600, 2), dyadic(r, 600, 2)
	case 2: // vertical offset only (the classical "drawn below the baseline" dictionary)
		f = fmt.Sprint(r.Range(-500, 500))
	case 3: // shear
		c = fmt.Sprintf("%d/1024", r.Range(-400, 400))
	case 4: // scale
		a, d = Pick(r, []string{"1/2", "2", "3/4", "5/4"}), Pick(r, []string{"1/2", "2", "1"})
	case 5: // shear + translation + scale
		a, d = Pick(r, []string{"1/2", "1", "3/2"}), Pick(r, []string{"1/2", "1", "2", "-1"})
		b = fmt.Sprintf("%d/1024", r.Range(-300, 300))
		c = fmt.Sprintf("%d/1024", r.Range(-300, 300))
		e, f = dyadic(r, 400, 1), dyadic(r, 400, 1)
	case 6: // flip
		d = "-1"
		f = fmt.Sprint(r.Range(0, 1000))
	}
	return strings.Join([]string{a, b, c, d, e, f}, ",")
}

// areaMetricsCID is called from areaMetrics.
func areaMetricsCID(c *Ctx) {
	r := c.Rng
	for i := 0; i < c.N/8+8; i++ {
		k := Pick(r, []int{9, 10, 11, 12, 8})
		upem := 1 << k
		fm := fmt.Sprintf("1/%d,0,0,1/%d,0,0", upem, upem)
		switch r.Intn(4) {
		case 0: // oblique font matrix
			fm = fmt.Sprintf("1/%d,0,%d/%d,1/%d,0,0", upem, r.Range(-300, 300), upem<<10, upem)
		case 1: // anisotropic
			fm = fmt.Sprintf("1/%d,0,0,1/%d,0,0", upem, upem<<1)
		}
		nfd := r.Range(1, 3)
		fds := make([]string, nfd)
		for j := range fds {
			fds[j] = cidFD(r)
		}
		g := r.Range(1, 8)
		gl := make([]string, g)
		ws := make([]string, g)
		sel := make([]int, g)
		for j := 0; j < g; j++ {
			sel[j] = r.Intn(nfd)
			ws[j] = Pick(r, []string{fmt.Sprint(r.Range(0, 2000)), dyadic(r, 4000, 2), "0"})
			if strings.HasPrefix(ws[j], "-") {
				ws[j] = ws[j][1:]
			}
			if r.Chance(1, 6) {
				gl[j] = "-"
				continue
			}
			l, b := r.Range(-600, 600), r.Range(-600, 600)
			den := Pick(r, []int{1, 1, 2})
			gl[j] = fmt.Sprintf("%d/%d:%d/%d:%d/%d:%d/%d", l, den, b, den, l+r.Range(0, 3000), den, b+r.Range(0, 3000), den)
		}
		c.Stat("cid_fds", fmt.Sprint(nfd))
		c.Stat("cid_upem", fmt.Sprint(upem))
		c.Case(Direct, "metrics.dcid", fmt.Sprintf("upem=%d fm=%s fds=%s sel=%s g=%s w=%s", upem, fm, strings.Join(fds, ";"),
			ints(sel), strings.Join(gl, ";"), strings.Join(ws, ",")), g >= 2)
	}
}
