package main

import (
	"bytes"
	"fmt"
	"sort"
	"strings"

	"golang.org/x/image/font/gofont/goregular"
	ximg "golang.org/x/image/font/sfnt"
	"golang.org/x/image/math/fixed"
	"seehuhn.de/go/sfnt"
	"seehuhn.de/go/sfnt/cff"
	"seehuhn.de/go/sfnt/glyf"
	"seehuhn.de/go/sfnt/glyph"
	"seehuhn.de/go/sfnt/internal/debug"
)

// Area fontfile (C03, third clause): complete font files written by (*sfnt.Font).Write are
// well-formed containers, and an independent implementation (golang.org/x/image/font/sfnt)
// reports the same glyph count, units per em, character mapping, advance widths and names.

func fontfileBuild(f Fields) *sfnt.Font {
	var font *sfnt.Font
	switch f["base"] {
	case "goregular":
		x, err := sfnt.Read(bytes.NewReader(goregular.TTF))
		if err != nil {
			panic(err)
		}
		font = x
	case "debug":
		font = debug.MakeSimpleFont()
	default:
		panic("unknown base font")
	}
	switch f["widths"] {
	case "zero": // every advance width 0 (what Read returns for a TrueType file without hmtx)
		switch o := font.Outlines.(type) {
		case *glyf.Outlines:
			for i := range o.Widths {
				o.Widths[i] = 0
			}
		case *cff.Outlines:
			for _, g := range o.Glyphs {
				g.Width = 0
			}
		}
	case "one": // a single non-zero width
		switch o := font.Outlines.(type) {
		case *glyf.Outlines:
			for i := range o.Widths {
				if i != 1 {
					o.Widths[i] = 0
				}
			}
		case *cff.Outlines:
			for i, g := range o.Glyphs {
				if i != 1 {
					g.Width = 0
				}
			}
		}
	}
	if gl := f.Ints("glyphs"); len(gl) > 0 {
		ids := make([]glyph.ID, len(gl))
		for i, g := range gl {
			ids[i] = glyph.ID(g)
		}
		font = font.Subset(ids)
	}
	return font
}

func fontfileWrite(f Fields) (*sfnt.Font, []byte) {
	font := fontfileBuild(f)
	var buf bytes.Buffer
	n, err := font.Write(&buf)
	if err != nil {
		panic(err)
	}
	if n != int64(buf.Len()) {
		panic(fmt.Sprintf("Write reported %d bytes, wrote %d", n, buf.Len()))
	}
	return font, buf.Bytes()
}

func fontfileProbeRunes(f Fields) []rune {
	var rr []rune
	for _, c := range f.Ints("runes") {
		rr = append(rr, rune(c))
	}
	return rr
}

// what the library itself says about the font
func fontfileOwn(font *sfnt.Font, rr []rune) string {
	var parts []string
	parts = append(parts, fmt.Sprintf("n:%d_upm:%d", font.NumGlyphs(), font.UnitsPerEm))
	cm, err := font.CMapTable.GetBest()
	for _, r := range rr {
		gid := glyph.ID(0)
		if err == nil {
			gid = cm.Lookup(r)
		}
		parts = append(parts, fmt.Sprintf("%d>%d", r, gid))
	}
	ww := font.Widths()
	for gid := 0; gid < font.NumGlyphs(); gid++ {
		parts = append(parts, fmt.Sprintf("w%d:%v", gid, ww[gid]))
	}
	return strings.Join(parts, "_")
}

func init() {
	areas["fontfile"] = areaFontfile
	ops["header.fontwf"] = func(f Fields) string {
		// returns the written file so that the driver can evaluate WellFormed on it
		return "wf"
	}
	ops["header.fontbytes"] = func(f Fields) string {
		return canonPanic(guard(func() string {
			_, data := fontfileWrite(f)
			return hx(data)
		}))
	}
	ops["header.ximage"] = func(f Fields) string {
		return canonPanic(guard(func() string {
			font, data := fontfileWrite(f)
			rr := fontfileProbeRunes(f)
			xf, err := ximg.Parse(data)
			if err != nil {
				return "ximage-rejects:" + strings.ReplaceAll(err.Error(), " ", "_")
			}
			var b ximg.Buffer
			var parts []string
			parts = append(parts, fmt.Sprintf("n:%d_upm:%d", xf.NumGlyphs(), xf.UnitsPerEm()))
			for _, r := range rr {
				gi, err := xf.GlyphIndex(&b, r)
				if err != nil {
					return "ximage-glyphindex-error"
				}
				parts = append(parts, fmt.Sprintf("%d>%d", r, gi))
			}
			ppem := fixed.I(int(font.UnitsPerEm))
			for gid := 0; gid < xf.NumGlyphs(); gid++ {
				adv, err := xf.GlyphAdvance(&b, ximg.GlyphIndex(gid), ppem, 0)
				if err != nil {
					return "ximage-advance-error"
				}
				parts = append(parts, fmt.Sprintf("w%d:%d", gid, int(adv)/64))
			}
			return strings.Join(parts, "_")
		}))
	}
}

func areaFontfile(c *Ctx) {
	r := c.Rng
	n := c.N
	for i := 0; i < n; i++ {
		base := Pick(r, []string{"goregular", "debug"})
		switch i {
		case 0, 2:
			base = "goregular"
		case 1, 3:
			base = "debug"
		}
		total := 649
		if base == "debug" {
			total = 33
		}
		var glyphs []int
		if i >= 4 { // the first four cases are the complete fonts
			k := r.Range(1, 40)
			if k > total-1 {
				k = total - 1
			}
			seen := map[int]bool{0: true}
			glyphs = []int{0}
			for len(glyphs) < k+1 {
				g := r.Intn(total)
				if !seen[g] {
					seen[g] = true
					glyphs = append(glyphs, g)
				}
			}
			if r.Bool() {
				sort.Ints(glyphs)
			}
		}
		var runes []int
		for j := 0; j < 40; j++ {
			runes = append(runes, Pick(r, []int{r.Range(32, 126), r.Range(65, 90), r.Range(32, 126), r.Range(0xA0, 0x17F), r.Intn(0x3000), 0xFFFF, 0x1F600}))
		}
		widths := "keep"
		switch {
		case i == 2 || i == 3:
			widths = "zero"
		case i == 4:
			widths = "one"
		case i > 4 && r.Chance(1, 6):
			widths = Pick(r, []string{"zero", "one"})
		}
		args := fmt.Sprintf("base=%s widths=%s glyphs=%s runes=%s", base, widths, ints(glyphs), ints(runes))
		c.Stat("widths", widths)
		c.Stat("base", base)
		c.Stat("glyphs", bucket(len(glyphs)))
		// (1) the complete file is a well-formed container
		data := Exec("header.fontbytes " + args)
		if strings.HasPrefix(data, "panic") {
			c.Case(Direct, "header.fontbytes", args, true) // shows up as a mismatch against "never"
			continue
		}
		c.Case(Direct, "header.wf", "file="+data, true)
		// (2) the independent implementation agrees with the library's own view
		font := fontfileBuild(parseFields(args))
		want := fontfileOwn(font, fontfileProbeRunes(parseFields(args)))
		c.Case(Direct, "header.ximage", args+" want="+want, true)
	}
}
