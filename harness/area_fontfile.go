package main

import (
	"bytes"
	"fmt"
	"sort"
	"strings"

	"golang.org/x/image/font/gofont/gobolditalic"
	"golang.org/x/image/font/gofont/gomono"
	"golang.org/x/image/font/gofont/goregular"
	"golang.org/x/image/font/gofont/gosmallcaps"
	ximg "golang.org/x/image/font/sfnt"
	"golang.org/x/image/math/fixed"
	"seehuhn.de/go/sfnt"
	"seehuhn.de/go/sfnt/cff"
	"seehuhn.de/go/sfnt/glyf"
	"seehuhn.de/go/sfnt/glyph"
	"seehuhn.de/go/sfnt/internal/debug"
)

// Area fontfile (C03, third clause): complete font files written by (*sfnt.Font).Write are
// well-formed containers, and an independent implementation (golang.org/x/image/font/sfnt)
// reports the same glyph count, units per em, character mapping, advance widths and names.

func fontfileBuild(f Fields) *sfnt.Font {
	var font *sfnt.Font
	switch f["base"] {
	case "goregular", "gomono", "gobolditalic", "gosmallcaps":
		raw := map[string][]byte{"goregular": goregular.TTF, "gomono": gomono.TTF, "gobolditalic": gobolditalic.TTF, "gosmallcaps": gosmallcaps.TTF}[f["base"]]
		x, err := sfnt.Read(bytes.NewReader(raw))
		if err != nil {
			panic(err)
		}
		font = x
	case "debug":
		font = debug.MakeSimpleFont()
	default:
		panic("unknown base font")
	}
	switch f["widths"] {
	case "zero": // every advance width 0 (what Read returns for a TrueType file without hmtx)
		switch o := font.Outlines.(type) {
		case *glyf.Outlines:
			for i := range o.Widths {
				o.Widths[i] = 0
			}
		case *cff.Outlines:
			for _, g := range o.Glyphs {
				g.Width = 0
			}
		}
	case "one": // a single non-zero width
		switch o := font.Outlines.(type) {
		case *glyf.Outlines:
			for i := range o.Widths {
				if i != 1 {
					o.Widths[i] = 0
				}
			}
		case *cff.Outlines:
			for i, g := range o.Glyphs {
				if i != 1 {
					g.Width = 0
				}
			}
		}
	}
	// comp=<k>:<variant>: glyph k of a TrueType font is replaced by a composite glyph made of glyph k-1
	// at offset (0,0); variants: noinstr (no instruction block), empty (WE_HAVE_INSTRUCTIONS with an
	// empty block, what glyf.Decode delivers for instruction length 0), odd (3 instruction bytes)
	if cs := f["comp"]; cs != "" && cs != "-" {
		if o, ok := font.Outlines.(*glyf.Outlines); ok {
			var k int
			var variant string
			if _, err := fmt.Sscanf(strings.Replace(cs, ":", " ", 1), "%d %s", &k, &variant); err != nil {
				panic("bad comp field")
			}
			if k >= 2 && k < len(o.Glyphs) && o.Glyphs[k-1] != nil {
				flags := glyf.FlagArgsAreXYValues
				var instr []byte
				switch variant {
				case "empty":
					flags |= glyf.FlagWeHaveInstructions
					instr = []byte{}
				case "odd":
					flags |= glyf.FlagWeHaveInstructions
					instr = []byte{0x4b, 0x4b, 0x4b}
				}
				o.Glyphs[k] = &glyf.Glyph{
					Rect16: o.Glyphs[k-1].Rect16,
					Data: glyf.CompositeGlyph{
						Components:   []glyf.GlyphComponent{{Flags: flags, GlyphIndex: glyph.ID(k - 1), Data: []byte{0, 0}}},
						Instructions: instr,
					},
				}
			}
		}
	}
	// glyfsize=<N>: the encoded glyf table of a TrueType font is made exactly N bytes long (the
	// thresholds between the short and the long loca format lie at 0xFFFF/0x10000 and the short
	// format cannot address 0x20000): glyphs before the last are blanked until there is room, and the
	// glyph before the last becomes a filler composite whose instruction block takes up the rest
	if gs := f["glyfsize"]; gs != "" && gs != "-" {
		if o, ok := font.Outlines.(*glyf.Outlines); ok && len(o.Glyphs) > 20 {
			target := f.Int("glyfsize")
			n := len(o.Glyphs)
			fill := n - 2
			o.Glyphs[fill] = nil
			size := func() int { return len(o.Glyphs.Encode().GlyfData) }
			for i := fill - 1; i > 10; i-- {
				if room := target - size(); room >= 20 && room%2 == 0 {
					break
				}
				o.Glyphs[i] = nil
			}
			room := target - size()
			if room < 20 || room%2 != 0 {
				panic(fmt.Sprintf("glyfsize: no room (%d)", room))
			}
			o.Glyphs[fill] = &glyf.Glyph{
				Data: glyf.CompositeGlyph{
					Components:   []glyf.GlyphComponent{{Flags: glyf.FlagArgsAreXYValues | glyf.FlagWeHaveInstructions, GlyphIndex: 3, Data: []byte{0, 0}}},
					Instructions: make([]byte, room-18),
				},
			}
			if got := size(); got != target {
				panic(fmt.Sprintf("glyfsize: got %d, want %d", got, target))
			}
		}
	}
	if gl := f.Ints("glyphs"); len(gl) > 0 {
		ids := make([]glyph.ID, len(gl))
		for i, g := range gl {
			ids[i] = glyph.ID(g)
		}
		font = font.Subset(ids)
	}
	return font
}

func fontfileWrite(f Fields) (*sfnt.Font, []byte) {
	font := fontfileBuild(f)
	var buf bytes.Buffer
	n, err := font.Write(&buf)
	if err != nil {
		panic(err)
	}
	if n != int64(buf.Len()) {
		panic(fmt.Sprintf("Write reported %d bytes, wrote %d", n, buf.Len()))
	}
	return font, buf.Bytes()
}

func fontfileProbeRunes(f Fields) []rune {
	var rr []rune
	for _, c := range f.Ints("runes") {
		rr = append(rr, rune(c))
	}
	return rr
}

// what the library itself says about the font
func fontfileOwn(font *sfnt.Font, rr []rune) string {
	var parts []string
	parts = append(parts, fmt.Sprintf("n:%d_upm:%d", font.NumGlyphs(), font.UnitsPerEm))
	cm, err := font.CMapTable.GetBest()
	for _, r := range rr {
		gid := glyph.ID(0)
		if err == nil {
			gid = cm.Lookup(r)
		}
		parts = append(parts, fmt.Sprintf("%d>%d", r, gid))
	}
	ww := font.Widths()
	for gid := 0; gid < font.NumGlyphs(); gid++ {
		parts = append(parts, fmt.Sprintf("w%d:%v", gid, ww[gid]))
	}
	return strings.Join(parts, "_")
}

func init() {
	areas["fontfile"] = areaFontfile
	ops["header.fontwf"] = func(f Fields) string {
		// returns the written file so that the driver can evaluate WellFormed on it
		return "wf"
	}
	ops["header.fontbytes"] = func(f Fields) string {
		return canonPanic(guard(func() string {
			_, data := fontfileWrite(f)
			return hx(data)
		}))
	}
	ops["header.glyfsize"] = func(f Fields) string { // generator-side probe: can this base reach the size?
		return guard(func() string {
			fontfileBuild(f)
			return "ok"
		})
	}
	ops["header.xoutline"] = func(f Fields) string {
		return canonPanic(guard(func() string {
			font, data := fontfileWrite(f)
			res := fontfileOutlines(font, data) // the font as it was before Write
			if strings.HasPrefix(res, "ok:") {
				return "ok"
			}
			return res
		}))
	}
	ops["header.xcounts"] = func(f Fields) string { // diagnostic: how much the two comparisons covered
		return canonPanic(guard(func() string {
			font, data := fontfileWrite(f)
			return fontfileOutlines(font, data) + " " + fontfileNames(font, data)
		}))
	}
	ops["header.xnames"] = func(f Fields) string {
		return canonPanic(guard(func() string {
			font, data := fontfileWrite(f)
			res := fontfileNames(font, data)
			if strings.HasPrefix(res, "ok:") {
				return "ok"
			}
			return res
		}))
	}
	ops["header.ximage"] = func(f Fields) string {
		return canonPanic(guard(func() string {
			font, data := fontfileWrite(f)
			rr := fontfileProbeRunes(f)
			xf, err := ximg.Parse(data)
			if err != nil {
				return "ximage-rejects:" + strings.ReplaceAll(err.Error(), " ", "_")
			}
			var b ximg.Buffer
			var parts []string
			parts = append(parts, fmt.Sprintf("n:%d_upm:%d", xf.NumGlyphs(), xf.UnitsPerEm()))
			for _, r := range rr {
				gi, err := xf.GlyphIndex(&b, r)
				if err != nil {
					return "ximage-glyphindex-error"
				}
				parts = append(parts, fmt.Sprintf("%d>%d", r, gi))
			}
			ppem := fixed.I(int(font.UnitsPerEm))
			for gid := 0; gid < xf.NumGlyphs(); gid++ {
				adv, err := xf.GlyphAdvance(&b, ximg.GlyphIndex(gid), ppem, 0)
				if err != nil {
					return "ximage-advance-error"
				}
				parts = append(parts, fmt.Sprintf("w%d:%d", gid, int(adv)/64))
			}
			return strings.Join(parts, "_")
		}))
	}
}

// fontfileOutlines compares, glyph by glyph, what the independent implementation draws with the
// outline data of the font value that was written.  Order-independent form:
//   - TrueType simple glyphs: the control points of the quadratic segments are exactly the
//     off-curve points; every on-curve point is a segment end point; every other end point is
//     the (rounded) midpoint of two off-curve points.  Composite glyphs: the union over the
//     components is not recomputed here; they are counted and skipped.
//   - CFF glyphs with integral coordinates: the segment list equals the command list
//     (moveto/lineto/curveto; x/image closes open sub-paths with a lineto).
//
// It returns "ok:<simple>/<composite>/<cff>" or the first discrepancy.
func fontfileOutlines(font *sfnt.Font, data []byte) string {
	xf, err := ximg.Parse(data)
	if err != nil {
		return "ximage-rejects"
	}
	var b ximg.Buffer
	ppem := fixed.I(int(font.UnitsPerEm))
	type pt struct{ x, y int }
	nSimple, nComp, nCff := 0, 0, 0
	for gid := 0; gid < font.NumGlyphs(); gid++ {
		segs, err := xf.LoadGlyph(&b, ximg.GlyphIndex(gid), ppem, nil)
		if err != nil {
			return fmt.Sprintf("g%d:ximage-loadglyph:%s", gid, strings.ReplaceAll(err.Error(), " ", "_"))
		}
		conv := func(p fixed.Point26_6) (pt, bool) {
			if p.X%64 != 0 || p.Y%64 != 0 {
				return pt{}, false
			}
			return pt{int(p.X) / 64, -int(p.Y) / 64}, true
		}
		switch o := font.Outlines.(type) {
		case *glyf.Outlines:
			g := o.Glyphs[gid]
			if g == nil {
				if len(segs) != 0 {
					return fmt.Sprintf("g%d:empty-glyph-drawn", gid)
				}
				continue
			}
			sg, ok := g.Data.(glyf.SimpleGlyph)
			if !ok {
				nComp++
				continue
			}
			info, err := sg.Decode()
			if err != nil {
				return fmt.Sprintf("g%d:own-decode-error", gid)
			}
			on, off := map[pt]bool{}, map[pt]bool{}
			var offs []pt
			for _, cc := range info.Contours {
				for _, p := range cc {
					q := pt{int(p.X), int(p.Y)}
					if p.OnCurve {
						on[q] = true
					} else {
						off[q] = true
						offs = append(offs, q)
					}
				}
			}
			isMid := func(q pt) bool {
				for _, a := range offs {
					for _, c := range offs {
						mx, my := a.x+c.x, a.y+c.y
						if (mx/2 == q.x || (mx+1)/2 == q.x || (mx-1)/2 == q.x) && (my/2 == q.y || (my+1)/2 == q.y || (my-1)/2 == q.y) {
							return true
						}
					}
				}
				return false
			}
			ctl, end := map[pt]bool{}, map[pt]bool{}
			for _, sgm := range segs {
				switch sgm.Op {
				case ximg.SegmentOpMoveTo, ximg.SegmentOpLineTo:
					q, ok := conv(sgm.Args[0])
					if !ok {
						return fmt.Sprintf("g%d:fractional", gid)
					}
					end[q] = true
				case ximg.SegmentOpQuadTo:
					q0, ok0 := conv(sgm.Args[0])
					q1, ok1 := conv(sgm.Args[1])
					if !ok0 || !ok1 {
						return fmt.Sprintf("g%d:fractional", gid)
					}
					ctl[q0] = true
					end[q1] = true
				default:
					return fmt.Sprintf("g%d:cubic-in-truetype", gid)
				}
			}
			for q := range off {
				if !ctl[q] {
					return fmt.Sprintf("g%d:off-curve-point-%d,%d-not-drawn", gid, q.x, q.y)
				}
			}
			for q := range ctl {
				if !off[q] {
					return fmt.Sprintf("g%d:control-%d,%d-not-a-point", gid, q.x, q.y)
				}
			}
			for q := range on {
				if !end[q] {
					return fmt.Sprintf("g%d:on-curve-point-%d,%d-not-drawn", gid, q.x, q.y)
				}
			}
			for q := range end {
				if !on[q] && !isMid(q) {
					return fmt.Sprintf("g%d:end-point-%d,%d-not-a-point", gid, q.x, q.y)
				}
			}
			nSimple++
		case *cff.Outlines:
			g := o.Glyphs[gid]
			var want []string
			integral := true
			var start, cur [2]float64
			open := false
			closeSub := func() {
				if open && cur != start {
					want = append(want, fmt.Sprintf("L%v,%v", start[0], start[1]))
				}
			}
			for _, cmd := range g.Cmds {
				for _, a := range cmd.Args {
					if a != float64(int(a)) {
						integral = false
					}
				}
				switch cmd.Op {
				case cff.OpMoveTo:
					closeSub()
					want = append(want, fmt.Sprintf("M%v,%v", cmd.Args[0], cmd.Args[1]))
					start = [2]float64{cmd.Args[0], cmd.Args[1]}
					cur = start
					open = true
				case cff.OpLineTo:
					want = append(want, fmt.Sprintf("L%v,%v", cmd.Args[0], cmd.Args[1]))
					cur = [2]float64{cmd.Args[0], cmd.Args[1]}
				case cff.OpCurveTo:
					want = append(want, fmt.Sprintf("C%v,%v,%v,%v,%v,%v", cmd.Args[0], cmd.Args[1], cmd.Args[2], cmd.Args[3], cmd.Args[4], cmd.Args[5]))
					cur = [2]float64{cmd.Args[4], cmd.Args[5]}
				}
			}
			closeSub()
			if !integral {
				continue
			}
			var got []string
			for _, sgm := range segs {
				f := func(i int) string {
					return fmt.Sprintf("%v,%v", float64(sgm.Args[i].X)/64, -float64(sgm.Args[i].Y)/64)
				}
				switch sgm.Op {
				case ximg.SegmentOpMoveTo:
					got = append(got, "M"+f(0))
				case ximg.SegmentOpLineTo:
					got = append(got, "L"+f(0))
				case ximg.SegmentOpCubeTo:
					got = append(got, "C"+f(0)+","+f(1)+","+f(2))
				default:
					got = append(got, "Q")
				}
			}
			gs, ws := fontfileNoNegZero(strings.Join(got, ";")), fontfileNoNegZero(strings.Join(want, ";"))
			if gs != ws {
				return fmt.Sprintf("g%d:cff-outline-differs:ximage=%s:own=%s", gid, gs, ws)
			}
			nCff++
		}
	}
	return fmt.Sprintf("ok:%d/%d/%d", nSimple, nComp, nCff)
}

// fontfileNoNegZero writes "-0" as "0" (x/image negates y, the library stores float64)
func fontfileNoNegZero(s string) string {
	var out []string
	for _, seg := range strings.Split(s, ";") {
		if seg == "" {
			continue
		}
		nums := strings.Split(seg[1:], ",")
		for i, n := range nums {
			if n == "-0" {
				nums[i] = "0"
			}
		}
		out = append(out, seg[:1]+strings.Join(nums, ","))
	}
	return strings.Join(out, ";")
}

// fontfileNames compares the glyph names the independent implementation reads from the post
// table with the library's (TrueType files; x/image has no glyph names for CFF fonts).
func fontfileNames(font *sfnt.Font, data []byte) string {
	xf, err := ximg.Parse(data)
	if err != nil {
		return "ximage-rejects"
	}
	var b ximg.Buffer
	n := 0
	if font.IsCFF() {
		return "ok:0"
	}
	for gid := 0; gid < font.NumGlyphs(); gid++ {
		own := font.GlyphName(glyph.ID(gid))
		name, err := xf.GlyphName(&b, ximg.GlyphIndex(gid))
		if err != nil {
			if own == "" || font.IsCFF() {
				continue
			}
			return fmt.Sprintf("g%d:ximage-has-no-name-for-%s", gid, hx([]byte(own)))
		}
		if own == "" && !font.IsCFF() {
			continue // post format 3: x/image falls back to nothing, the library has no names
		}
		if name != own {
			return fmt.Sprintf("g%d:name-%s-vs-%s", gid, hx([]byte(name)), hx([]byte(own)))
		}
		n++
	}
	return fmt.Sprintf("ok:%d", n)
}

func areaFontfile(c *Ctx) {
	r := c.Rng
	n := c.N
	for i := 0; i < n; i++ {
		base := Pick(r, []string{"goregular", "debug", "gomono", "gobolditalic", "gosmallcaps", "debug"})
		switch i {
		case 0, 2:
			base = "goregular"
		case 1, 3:
			base = "debug"
		}
		total := fontfileBuild(Fields{"base": base, "widths": "keep"}).NumGlyphs()
		var glyphs []int
		if i >= 4 { // the first four cases are the complete fonts
			k := r.Range(1, 40)
			if k > total-1 {
				k = total - 1
			}
			seen := map[int]bool{0: true}
			glyphs = []int{0}
			for len(glyphs) < k+1 {
				g := r.Intn(total)
				if !seen[g] {
					seen[g] = true
					glyphs = append(glyphs, g)
				}
			}
			if r.Bool() {
				sort.Ints(glyphs)
			}
		}
		var runes []int
		for j := 0; j < 40; j++ {
			runes = append(runes, Pick(r, []int{r.Range(32, 126), r.Range(65, 90), r.Range(32, 126), r.Range(0xA0, 0x17F), r.Intn(0x3000), 0xFFFF, 0x1F600}))
		}
		widths := "keep"
		switch {
		case i == 2 || i == 3:
			widths = "zero"
		case i == 4:
			widths = "one"
		case i > 4 && r.Chance(1, 6):
			widths = Pick(r, []string{"zero", "one"})
		}
		comp := "-"
		if base != "debug" && len(glyphs) == 0 && (i == 2 || (i != 0 && r.Chance(1, 3))) {
			// complete TrueType fonts only: the composite needs its component next to it
			comp = fmt.Sprintf("%d:%s", r.Range(2, total-1), Pick(r, []string{"empty", "empty", "noinstr", "odd"}))
		}
		c.Stat("composite", strings.TrimLeft(comp, "0123456789:"))
		args := fmt.Sprintf("base=%s widths=%s comp=%s glyphs=%s runes=%s", base, widths, comp, ints(glyphs), ints(runes))
		// boundary sizes of the glyf table (complete TrueType fonts only)
		if base != "debug" && len(glyphs) == 0 && comp == "-" && (i == 0 || r.Chance(1, 2)) {
			gsz := Pick(r, []int{0x20000, 0x20000, 0x1FFFE, 0x20002, 0xFFFE, 0x10000, 0x10002})
			if i == 0 {
				gsz = 0x20000
			}
			if Exec(fmt.Sprintf("header.glyfsize %s glyfsize=%d", args, gsz)) == "ok" {
				args += fmt.Sprintf(" glyfsize=%d", gsz)
				c.Stat("glyfsize", fmt.Sprintf("%#x", gsz))
			} else {
				c.Stat("glyfsize", "not-reachable")
			}
		} else {
			c.Stat("glyfsize", "-")
		}
		c.Stat("widths", widths)
		c.Stat("base", base)
		c.Stat("glyphs", bucket(len(glyphs)))
		// (1) the complete file is a well-formed container
		data := Exec("header.fontbytes " + args)
		if strings.HasPrefix(data, "panic") {
			c.Case(Direct, "header.fontbytes", args, true) // shows up as a mismatch against "never"
			continue
		}
		c.Case(Direct, "header.wf", "file="+data, true)
		// (2) the independent implementation agrees with the library's own view
		font := fontfileBuild(parseFields(args))
		want := fontfileOwn(font, fontfileProbeRunes(parseFields(args)))
		c.Case(Direct, "header.ximage", args+" want="+want, true)
		// (3) it draws the same outlines and reads the same glyph names
		c.Case(Direct, "header.xoutline", args, true)
		c.Case(Direct, "header.xnames", args, true)
		var a, b2, c3, d int
		if _, err := fmt.Sscanf(Exec("header.xcounts "+args), "ok:%d/%d/%d ok:%d", &a, &b2, &c3, &d); err == nil {
			c.Stat("xoutline.simple-glyphs", bucket(a))
			c.Stat("xoutline.composite-skipped", bucket(b2))
			c.Stat("xoutline.cff-glyphs", bucket(c3))
			c.Stat("xnames.compared", bucket(d))
		}
	}
}
