package main

// Area "faults" (property C18): every fault point k of a corpus of fonts.
//
//	V faults.write    (n, err) of header.Write / (*sfnt.Font).Write / WriteTrueTypePDF /
//	                  WriteOpenTypeCFFPDF against a destination failing at k  = model
//	V faults.cffwrite error/no error of (*cff.Font).Write against the same destinations = model
//	V faults.hread    outcome class of header.Read on file[:k] and on a source failing at k = model
//	D faults.trunc    sfnt.Read(file[:k]) (seekable, streaming) is an error for k inside table data
//	D faults.reader   sfnt.Read(source failing at k) (ReaderAt, Reader) is an error for such k
//	G faults.tail     what happens for k in the padding after the last table (diagnostic)

import (
	"bytes"
	"errors"
	"fmt"
	"io"
	"sort"
	"strings"
	"sync"

	"golang.org/x/image/font/gofont/gobold"
	"golang.org/x/image/font/gofont/goitalic"
	"golang.org/x/image/font/gofont/gomedium"
	"golang.org/x/image/font/gofont/gomono"
	"golang.org/x/image/font/gofont/gomonobold"
	"golang.org/x/image/font/gofont/goregular"
	"golang.org/x/image/font/gofont/gosmallcaps"

	"seehuhn.de/go/sfnt"
	"seehuhn.de/go/sfnt/glyph"
	"seehuhn.de/go/sfnt/header"
	"seehuhn.de/go/sfnt/internal/debug"
)

var errInjected = errors.New("injected I/O fault")

// ---------------------------------------------------------------- destinations

// faultWriter is the destination of the model: kind short|atomic|late|sloppy, fault point k.
// It checks on the fly that what it takes is the corresponding stretch of ref (when ref != nil).
type faultWriter struct {
	kind string
	k    int
	acc  int
	ref  []byte
	bad  bool
	lens []int // lengths of the Write calls seen
}

func (w *faultWriter) take(p []byte) {
	if w.ref != nil {
		if w.acc+len(p) > len(w.ref) || !bytes.Equal(p, w.ref[w.acc:w.acc+len(p)]) {
			w.bad = true
		}
	}
	w.acc += len(p)
}

func (w *faultWriter) Write(p []byte) (int, error) {
	w.lens = append(w.lens, len(p))
	switch w.kind {
	case "short":
		m := min(len(p), w.k-w.acc)
		w.take(p[:m])
		if m < len(p) {
			return m, errInjected
		}
		return m, nil
	case "atomic":
		if w.acc+len(p) <= w.k {
			w.take(p)
			return len(p), nil
		}
		return 0, errInjected
	case "late":
		w.take(p)
		if w.acc > w.k {
			return len(p), errInjected
		}
		return len(p), nil
	case "sloppy":
		m := min(len(p), w.k-w.acc)
		w.take(p[:m])
		return m, nil
	}
	panic("unknown writer kind " + w.kind)
}

// ---------------------------------------------------------------- sources

type onlyReader struct{ r io.Reader }

func (o onlyReader) Read(p []byte) (int, error) { return o.r.Read(p) }

// faultReaderAt returns a non-EOF error for every access touching an offset >= k.
type faultReaderAt struct {
	data []byte
	k    int
}

func (f *faultReaderAt) ReadAt(p []byte, off int64) (int, error) {
	if off < 0 {
		return 0, errors.New("negative offset")
	}
	if off+int64(len(p)) > int64(f.k) {
		n := 0
		if off < int64(f.k) && off < int64(len(f.data)) {
			n = copy(p, f.data[off:min(f.k, len(f.data))])
		}
		return n, errInjected
	}
	return bytes.NewReader(f.data).ReadAt(p, off)
}
func (f *faultReaderAt) Read(p []byte) (int, error) {
	panic("Read called on a ReaderAt source")
}

// faultStream delivers data[:k] and then fails (non-EOF) if k < len(data).
type faultStream struct {
	data []byte
	k    int
	pos  int
}

func (f *faultStream) Read(p []byte) (int, error) {
	lim := min(f.k, len(f.data))
	if f.pos >= lim {
		if f.k < len(f.data) {
			return 0, errInjected
		}
		return 0, io.EOF
	}
	n := copy(p, f.data[f.pos:lim])
	f.pos += n
	return n, nil
}

// ---------------------------------------------------------------- corpus

var goFonts = map[string][]byte{
	"goregular": goregular.TTF, "gomono": gomono.TTF, "gobold": gobold.TTF, "goitalic": goitalic.TTF,
	"gomedium": gomedium.TTF, "gomonobold": gomonobold.TTF, "gosmallcaps": gosmallcaps.TTF,
}

var (
	fontMu    sync.Mutex
	fontCache = map[string]*sfnt.Font{}
	fileCache = map[string][]byte{}
)

// getFont rebuilds the font named by spec:
//
//	go:<name>                  a Go font read by sfnt.Read (glyf outlines)
//	simple                     internal/debug.MakeSimpleFont (CFF outlines)
//	sub:<n>:<seed>:<base>      base.Subset of n glyphs chosen by seed
func getFont(spec string) *sfnt.Font {
	fontMu.Lock()
	defer fontMu.Unlock()
	return getFontLocked(spec)
}

func getFontLocked(spec string) *sfnt.Font {
	if f, ok := fontCache[spec]; ok {
		return f
	}
	var f *sfnt.Font
	switch {
	case spec == "simple":
		f = debug.MakeSimpleFont()
	case strings.HasPrefix(spec, "go:"):
		data, ok := goFonts[spec[3:]]
		if !ok {
			panic("unknown font " + spec)
		}
		var err error
		f, err = sfnt.Read(bytes.NewReader(data))
		if err != nil {
			panic(err)
		}
	case strings.HasPrefix(spec, "sub:"):
		parts := strings.SplitN(spec, ":", 4)
		var n int
		var seed uint64
		fmt.Sscan(parts[1], &n)
		fmt.Sscan(parts[2], &seed)
		base := getFontLocked(parts[3])
		r := NewRng(seed)
		ng := base.NumGlyphs()
		gids := []glyph.ID{0}
		seen := map[glyph.ID]bool{0: true}
		for len(gids) < n && len(gids) < ng {
			g := glyph.ID(r.Intn(ng))
			if !seen[g] {
				seen[g] = true
				gids = append(gids, g)
			}
		}
		f = base.Subset(gids)
	default:
		panic("unknown font spec " + spec)
	}
	fontCache[spec] = f
	return f
}

// writeAPI calls one of the three sfnt writers; hasN is false for the one that reports no count.
func writeAPI(f *sfnt.Font, api string, w io.Writer) (n int64, err error, hasN bool) {
	switch api {
	case "Write":
		n, err = f.Write(w)
		return n, err, true
	case "TTPDF":
		n, err = f.WriteTrueTypePDF(w)
		return n, err, true
	case "CFFPDF":
		err = f.WriteOpenTypeCFFPDF(w)
		return 0, err, false
	}
	panic("unknown api " + api)
}

// getFile returns the bytes of the file named by fspec: "raw:<name>" (a Go font as shipped) or
// "<font spec>|<api>" (the font written through that API).
func getFile(fspec string) []byte {
	fontMu.Lock()
	defer fontMu.Unlock()
	if d, ok := fileCache[fspec]; ok {
		return d
	}
	var d []byte
	if strings.HasPrefix(fspec, "raw:") {
		var ok bool
		d, ok = goFonts[fspec[4:]]
		if !ok {
			panic("unknown file " + fspec)
		}
	} else {
		i := strings.LastIndexByte(fspec, '|')
		f := getFontLocked(fspec[:i])
		var buf bytes.Buffer
		if _, err, _ := writeAPI(f, fspec[i+1:], &buf); err != nil {
			panic(err)
		}
		d = buf.Bytes()
	}
	fileCache[fspec] = d
	return d
}

type tocEnt struct {
	name     string
	off, len int
}

// layoutOf reads the directory of a complete file: entries by offset, header length, end of the last table.
func layoutOf(data []byte) (ents []tocEnt, scaler uint32, hdrLen, lastEnd int) {
	info, err := header.Read(bytes.NewReader(data))
	if err != nil {
		panic(err)
	}
	for n, r := range info.Toc {
		ents = append(ents, tocEnt{n, int(r.Offset), int(r.Length)})
		lastEnd = max(lastEnd, int(r.Offset)+int(r.Length))
	}
	sort.Slice(ents, func(i, j int) bool {
		if ents[i].off != ents[j].off {
			return ents[i].off < ents[j].off
		}
		return ents[i].name < ents[j].name
	})
	return ents, info.ScalerType, 12 + 16*len(ents), lastEnd
}

func tabLensArg(ents []tocEnt) string {
	parts := make([]string, len(ents))
	for i, e := range ents {
		parts[i] = fmt.Sprintf("%s:%d", hx([]byte(e.name)), e.len)
	}
	sort.Strings(parts)
	return strings.Join(parts, ",")
}

// parseKs decodes ks=a-b (inclusive) or a comma separated list.
func parseKs(f Fields) []int {
	s := f["ks"]
	if i := strings.IndexByte(s, '-'); i >= 0 {
		var a, b int
		fmt.Sscan(s[:i], &a)
		fmt.Sscan(s[i+1:], &b)
		out := make([]int, 0, b-a+1)
		for k := a; k <= b; k++ {
			out = append(out, k)
		}
		return out
	}
	return f.Ints("ks")
}

// parseTabLens decodes tabs=<namehex>:<len or ->,... into a map with zero-filled data.
func parseTabLens(f Fields) map[string][]byte {
	m := map[string][]byte{}
	for _, t := range f.List("tabs", ",") {
		i := strings.IndexByte(t, ':')
		name := string(mustHex(t[:i]))
		if t[i+1:] == "-" {
			m[name] = nil
		} else {
			var l int
			fmt.Sscan(t[i+1:], &l)
			m[name] = make([]byte, l)
		}
	}
	return m
}

func readClass(err error) byte {
	if err == nil {
		return 'o'
	}
	switch errKind(err) {
	case "err:unsupported":
		return 'u'
	case "err:invalid":
		return 'v'
	}
	return 'i'
}

// verdict of one sfnt.Read call: E error, A accepted, P panic
func readVerdict(r io.Reader) (v byte) {
	defer func() {
		if rec := recover(); rec != nil {
			v = 'P'
		}
	}()
	_, err := sfnt.Read(r)
	if err != nil {
		return 'E'
	}
	return 'A'
}

func checkFileFields(f Fields, data []byte) (lastEnd int, bad string) {
	_, _, _, lastEnd = layoutOf(data)
	if f.Int("len") != len(data) || f.Int("lastend") != lastEnd {
		return 0, fmt.Sprintf("bad-fields:len=%d lastend=%d", len(data), lastEnd)
	}
	return lastEnd, ""
}

func init() {
	areas["faults"] = areaFaults

	ops["faults.write"] = func(f Fields) string {
		kind := f["w"]
		ks := parseKs(f)
		out := make([]string, len(ks))
		var call func(w io.Writer) (int64, error, bool)
		var ref []byte
		if spec, ok := f["font"]; ok {
			font := getFont(spec)
			api := f["api"]
			call = func(w io.Writer) (int64, error, bool) { return writeAPI(font, api, w) }
			ref = getFile(spec + "|" + api)
		} else {
			tabs := parseTabLens(f)
			sc := uint32(f.Int("scaler"))
			call = func(w io.Writer) (int64, error, bool) {
				n, err := header.Write(w, sc, tabs)
				return n, err, true
			}
			var buf bytes.Buffer
			if _, err := header.Write(&buf, sc, tabs); err == nil {
				ref = buf.Bytes()
			}
		}
		if kind == "sloppy" {
			ref = nil // a destination that drops bytes silently does not hold a prefix
		}
		for i, k := range ks {
			w := &faultWriter{kind: kind, k: k, ref: ref}
			n, err, hasN := call(w)
			s := "-"
			if hasN {
				s = fmt.Sprint(n)
				if n != int64(w.acc) {
					s += fmt.Sprintf("/%d", w.acc) // count differs from what the destination took
				}
			}
			if err != nil {
				s += "!"
			}
			if w.bad {
				s += "~" // the destination did not receive a prefix of the file
			}
			if err == nil && ref != nil && w.acc != len(ref) {
				s += "#" // success without the whole file
			}
			out[i] = s
		}
		return strings.Join(out, ",")
	}

	ops["faults.cffwrite"] = func(f Fields) string {
		font := getFont(f["font"]).AsCFF()
		rec := &faultWriter{kind: "late", k: 1 << 40}
		if err := font.Write(rec); err != nil {
			return "err:" + err.Error()
		}
		if ints(rec.lens) != f["lens"] {
			return "lens-mismatch:" + ints(rec.lens)
		}
		ks := parseKs(f)
		out := make([]string, len(ks))
		for i, k := range ks {
			w := &faultWriter{kind: f["w"], k: k}
			if err := font.Write(w); err != nil {
				out[i] = "!"
			} else {
				out[i] = "."
			}
		}
		return strings.Join(out, ",")
	}

	ops["faults.hread"] = func(f Fields) string {
		hdr := f.Hex("hdr")
		data := make([]byte, max(f.Int("len"), len(hdr)))
		copy(data, hdr)
		data = data[:f.Int("len")]
		ks := parseKs(f)
		out := make([]byte, len(ks))
		for i, k := range ks {
			out[i] = guard1(func() byte {
				var err error
				if f["mode"] == "trunc" {
					_, err = header.Read(bytes.NewReader(data[:min(k, len(data))]))
				} else {
					_, err = header.Read(&faultReaderAt{data, k})
				}
				return readClass(err)
			})
		}
		return string(out)
	}

	ops["faults.trunc"] = func(f Fields) string {
		data := getFile(f["font"])
		lastEnd, bad := checkFileFields(f, data)
		if bad != "" {
			return bad
		}
		var sb strings.Builder
		for _, k := range parseKs(f) {
			if k >= lastEnd {
				sb.WriteString("--")
				continue
			}
			sb.WriteByte(readVerdict(bytes.NewReader(data[:k])))
			sb.WriteByte(readVerdict(onlyReader{bytes.NewReader(data[:k])}))
		}
		return sb.String()
	}

	ops["faults.reader"] = func(f Fields) string {
		data := getFile(f["font"])
		lastEnd, bad := checkFileFields(f, data)
		if bad != "" {
			return bad
		}
		var sb strings.Builder
		for _, k := range parseKs(f) {
			if k >= lastEnd {
				sb.WriteString("--")
				continue
			}
			sb.WriteByte(readVerdict(&faultReaderAt{data, k}))
			sb.WriteByte(readVerdict(&faultStream{data: data, k: k}))
		}
		return sb.String()
	}

	// diagnostic: the four readers on fault points in the padding after the last table
	ops["faults.tail"] = func(f Fields) string {
		data := getFile(f["font"])
		var sb strings.Builder
		for _, k := range parseKs(f) {
			sb.WriteByte(readVerdict(bytes.NewReader(data[:min(k, len(data))])))
			sb.WriteByte(readVerdict(onlyReader{bytes.NewReader(data[:min(k, len(data))])}))
			sb.WriteByte(readVerdict(&faultReaderAt{data, k}))
			sb.WriteByte(readVerdict(&faultStream{data: data, k: k}))
		}
		return sb.String()
	}
}

func guard1(f func() byte) (b byte) {
	defer func() {
		if r := recover(); r != nil {
			b = 'p'
		}
	}()
	return f()
}

// ---------------------------------------------------------------- generator

const faultBlock = 256

// blocks cuts 0..hi (inclusive) into ks=a-b ranges.
func blocks(lo, hi int) []string {
	var out []string
	for a := lo; a <= hi; a += faultBlock {
		out = append(out, fmt.Sprintf("%d-%d", a, min(a+faultBlock-1, hi)))
	}
	return out
}

// sampleKs: every chunk boundary of the file ±2, plus random points.
func sampleKs(r *Rng, ents []tocEnt, hdrLen, total, extra int) []string {
	set := map[int]bool{}
	add := func(k int) {
		for d := -2; d <= 2; d++ {
			if k+d >= 0 && k+d <= total+2 {
				set[k+d] = true
			}
		}
	}
	add(0)
	add(6)
	add(12)
	add(28)
	add(hdrLen)
	add(total)
	for _, e := range ents {
		add(e.off)
		add(e.off + e.len)
	}
	for i := 0; i < extra; i++ {
		set[r.Intn(total+1)] = true
	}
	ks := make([]int, 0, len(set))
	for k := range set {
		ks = append(ks, k)
	}
	sort.Ints(ks)
	var out []string
	for i := 0; i < len(ks); i += faultBlock {
		out = append(out, ints(ks[i:min(i+faultBlock, len(ks))]))
	}
	return out
}

var honestKinds = []string{"short", "atomic", "late"}

var faultTags = []string{"head", "hhea", "maxp", "OS/2", "hmtx", "cmap", "fpgm", "prep", "cvt ", "loca", "glyf", "kern",
	"name", "post", "gasp", "DSIG", "CFF ", "GSUB", "GPOS", "GDEF"}

// faultTag: a table name, half of the time one with a place in the writer's table order.
func faultTag(r *Rng) string {
	if r.Chance(1, 2) {
		return Pick(r, faultTags)
	}
	b := make([]byte, 4)
	for i := range b {
		b[i] = byte(r.Range(0x20, 0x7e))
	}
	return string(b)
}

func countVerdicts(c *Ctx, group, out string) {
	for _, ch := range out {
		c.Stat(group, string(ch))
	}
}

func countWrites(c *Ctx, group, out string) {
	for _, s := range strings.Split(out, ",") {
		switch {
		case strings.ContainsAny(s, "/~#"):
			c.Stat(group, "ANOMALY")
		case strings.HasSuffix(s, "!"):
			c.Stat(group, "error")
		default:
			c.Stat(group, "success")
		}
	}
}

// fileCases: truncation and source faults of one complete file, for every k in 0..len.
func fileCases(c *Ctx, fspec string, data []byte) {
	ents, _, hdrLen, lastEnd := layoutOf(data)
	total := len(data)
	c.Stat("file_bytes", bucket(total))
	c.Stat("tables_per_file", bucket(len(ents)))
	c.Stat("trailing_padding", fmt.Sprint(total-lastEnd))
	hdr := hx(data[:hdrLen])
	for _, ks := range blocks(0, total) {
		for _, mode := range []string{"trunc", "fault"} {
			out := c.Case(Verdict, "faults.hread", fmt.Sprintf("hdr=%s len=%d mode=%s ks=%s", hdr, total, mode, ks), true)
			countVerdicts(c, "header.Read_"+mode, out)
		}
		args := fmt.Sprintf("font=%s lastend=%d len=%d ks=%s", fspec, lastEnd, total, ks)
		out := c.Case(Direct, "faults.trunc", args, true)
		countVerdicts(c, "sfnt.Read_truncated", out)
		out = c.Case(Direct, "faults.reader", args, true)
		countVerdicts(c, "sfnt.Read_failing_source", out)
	}
	c.Stat("fault_points", "file:"+bucket(total))
	out := c.Case(Diagnostic, "faults.tail", fmt.Sprintf("font=%s len=%d ks=%d-%d", fspec, total, lastEnd, total), true)
	countVerdicts(c, "tail_padding_points", out)
}

// fontCases: the sfnt writers of one font against every destination and every k (or a sample
// of k for large fonts), then the written file as a source.
func fontCases(c *Ctx, spec string, apis []string, everyK bool) {
	r := c.Rng
	font := getFont(spec)
	if font.IsCFF() {
		c.Stat("outlines", "CFF")
	} else {
		c.Stat("outlines", "glyf")
	}
	for _, api := range apis {
		fspec := spec + "|" + api
		data := getFile(fspec)
		ents, scaler, hdrLen, _ := layoutOf(data)
		total := len(data)
		sampled := sampleKs(r, ents, hdrLen, total, 300)
		c.Stat("writer_api", api)
		for _, kind := range append(honestKinds, "sloppy") {
			kss := sampled
			if everyK && kind != "sloppy" {
				kss = blocks(0, total+2)
				c.Stat("fault_points", "sfnt_writer_every_k:"+bucket(total))
			}
			for _, ks := range kss {
				out := c.Case(Verdict, "faults.write", fmt.Sprintf("font=%s api=%s scaler=%d tabs=%s w=%s ks=%s",
					spec, api, scaler, tabLensArg(ents), kind, ks), true)
				countWrites(c, "write_"+kind, out)
			}
		}
		if !everyK {
			// every k at the level of header.Write, with zero-filled tables of the same lengths
			for _, kind := range honestKinds {
				for _, ks := range blocks(0, total+2) {
					out := c.Case(Verdict, "faults.write", fmt.Sprintf("scaler=%d tabs=%s w=%s ks=%s",
						scaler, tabLensArg(ents), kind, ks), true)
					countWrites(c, "write_"+kind, out)
				}
			}
		}
		fileCases(c, fspec, data)
	}
	if font.IsCFF() {
		rec := &faultWriter{kind: "late", k: 1 << 40}
		if err := font.AsCFF().Write(rec); err != nil {
			panic(err)
		}
		for _, kind := range honestKinds {
			for _, ks := range blocks(0, rec.acc+2) {
				out := c.Case(Verdict, "faults.cffwrite", fmt.Sprintf("font=%s lens=%s w=%s ks=%s", spec, ints(rec.lens), kind, ks), true)
				for _, s := range strings.Split(out, ",") {
					c.Stat("cff_sections_"+kind, map[string]string{"!": "error", ".": "success"}[s])
				}
			}
		}
		c.Stat("cff_sections", bucket(len(rec.lens)))
	}
}

// synthCases: a random table set through header.Write: every destination, every k; then the
// written file as a source for header.Read.
func synthCases(c *Ctx, i int) {
	r := c.Rng
	n := Pick(r, []int{1, 2, 3, 4, 5, 8, 15, 16, 17, r.Range(1, 30)})
	tabs := map[string][]byte{}
	if r.Chance(2, 3) {
		tabs["head"] = make([]byte, Pick(r, []int{12, 54, 54, r.Range(12, 80)}))
	}
	for len(tabs) < n {
		t := faultTag(r)
		if t == "head" {
			continue
		}
		l := Pick(r, []int{0, 0, 1, 2, 3, 4, 5, 7, 8, r.Range(0, 64), r.Range(0, 64), r.Range(100, 600)})
		tabs[t] = make([]byte, l)
	}
	switch i % 7 {
	case 3:
		tabs[faultTag(r)] = nil // not written
	case 4:
		tabs["abc"] = make([]byte, 5) // not written: name is not 4 bytes
	case 5:
		if i%14 == 5 {
			tabs["head"] = make([]byte, r.Range(0, 11)) // refused before anything is written
		}
	}
	sc := Pick(r, []uint32{header.ScalerTypeTrueType, header.ScalerTypeCFF, header.ScalerTypeApple})
	keys := make([]string, 0, len(tabs))
	for k := range tabs {
		keys = append(keys, k)
	}
	sort.Strings(keys)
	parts := make([]string, len(keys))
	for j, k := range keys {
		if tabs[k] == nil {
			parts[j] = hx([]byte(k)) + ":-"
		} else {
			parts[j] = fmt.Sprintf("%s:%d", hx([]byte(k)), len(tabs[k]))
		}
		c.Stat("synthetic_len_mod4", fmt.Sprint(len(tabs[k])%4))
	}
	var buf bytes.Buffer
	_, err := header.Write(&buf, sc, tabs)
	total := buf.Len()
	if err != nil {
		c.Stat("synthetic", "refused")
		total = 40
	} else {
		c.Stat("synthetic", "written")
	}
	c.Stat("synthetic_tables", bucket(n))
	for _, kind := range append(honestKinds, "sloppy") {
		for _, ks := range blocks(0, total+2) {
			out := c.Case(Verdict, "faults.write", fmt.Sprintf("scaler=%d tabs=%s w=%s ks=%s", sc, strings.Join(parts, ","), kind, ks), len(tabs) >= 2)
			countWrites(c, "write_"+kind, out)
		}
	}
	if err != nil {
		return
	}
	data := buf.Bytes()
	_, _, hdrLen, _ := layoutOf(data)
	c.Stat("fault_points", "synthetic:"+bucket(total))
	for _, ks := range blocks(0, total) {
		for _, mode := range []string{"trunc", "fault"} {
			out := c.Case(Verdict, "faults.hread", fmt.Sprintf("hdr=%s len=%d mode=%s ks=%s", hx(data[:hdrLen]), total, mode, ks), true)
			countVerdicts(c, "header.Read_"+mode, out)
		}
	}
	// damaged directory (outside the property's domain; ties the model of header.Read)
	for m := 0; m < 5; m++ {
		h := append([]byte{}, data[:hdrLen]...)
		switch (m + r.Intn(2)) % 5 {
		case 4: // at and above the limit on the number of tables
			n := 280 + r.Intn(2)
			h[4], h[5] = byte(n>>8), byte(n)
		case 0:
			h[r.Intn(len(h))] ^= byte(1 << r.Intn(8))
		case 1:
			p := 12 + 16*r.Intn(n) + 8 + r.Intn(8)
			if p < len(h) {
				h[p] = byte(r.U64())
			}
		case 2:
			h[5] = byte(r.Range(0, 40))
		case 3:
			p := 12 + 16*r.Intn(n) + 8
			if p+8 <= len(h) {
				copy(h[p:], []byte{0xff, 0xff, 0xff, 0xf0, 0, 0, 0, byte(r.Range(0x10, 0x40))})
			}
		}
		ks := sampleKs(r, nil, hdrLen, total, 40)
		for _, mode := range []string{"trunc", "fault"} {
			out := c.Case(Verdict, "faults.hread", fmt.Sprintf("hdr=%s len=%d mode=%s ks=%s", hx(h), total, mode, ks[0]), true)
			countVerdicts(c, "header.Read_damaged_"+mode, out)
		}
	}
}

// areaFaults: c.N is the number of corpus fonts (6 quick, 40 thorough).
func areaFaults(c *Ctx) {
	r := c.Rng
	type job func()
	var jobs []job
	seed := func() uint64 { return r.U64() % 1000000 }
	// both outline kinds, all three writers, every k
	jobs = append(jobs,
		func() {
			fontCases(c, fmt.Sprintf("sub:%d:%d:simple", r.Range(2, 6), seed()), []string{"Write", "CFFPDF"}, true)
		},
		func() { fontCases(c, fmt.Sprintf("sub:%d:%d:go:goregular", r.Range(5, 12), seed()), []string{"Write", "TTPDF"}, true) },
		func() { synthCases(c, 0) },
		func() { synthCases(c, 1) },
		func() { fontCases(c, "simple", []string{"Write", "CFFPDF"}, c.Tier == "thorough") },
		func() { synthCases(c, 2) },
	)
	if c.Tier == "thorough" {
		raws := []string{"goregular", "gomono", "gosmallcaps"}
		for _, name := range raws {
			name := name
			jobs = append(jobs, func() {
				c.Stat("outlines", "glyf")
				fileCases(c, "raw:"+name, getFile("raw:"+name))
			})
		}
		// a complete large font through the writers: sampled k for the sfnt level, every k for header.Write
		jobs = append(jobs, func() { fontCases(c, "go:"+Pick(r, []string{"gobold", "goitalic", "gomedium", "gomonobold"}), []string{"Write"}, false) })
	}
	i := 3
	for len(jobs) < c.N {
		i++
		switch i % 4 {
		case 0:
			base := "go:" + Pick(r, []string{"goregular", "gomono", "goitalic", "gosmallcaps"})
			spec := fmt.Sprintf("sub:%d:%d:%s", r.Range(2, 60), seed(), base)
			apis := []string{Pick(r, []string{"Write", "TTPDF"})}
			jobs = append(jobs, func() { fontCases(c, spec, apis, true) })
		case 1:
			spec := fmt.Sprintf("sub:%d:%d:simple", r.Range(1, 30), seed())
			apis := []string{Pick(r, []string{"Write", "CFFPDF"})}
			jobs = append(jobs, func() { fontCases(c, spec, apis, true) })
		default:
			j := i
			jobs = append(jobs, func() { synthCases(c, j) })
		}
	}
	for _, j := range jobs[:min(len(jobs), max(c.N, 1))] {
		j()
	}
}
