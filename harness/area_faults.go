package main

// Area "faults" (property C18): every fault point k of a corpus of fonts.
//
//	V faults.write    (n, err) of header.Write / (*sfnt.Font).Write / WriteTrueTypePDF /
//	                  WriteOpenTypeCFFPDF against a destination failing at k  = model
//	V faults.cffwrite error/no error of (*cff.Font).Write against the same destinations = model
//	V faults.hread    outcome class of header.Read on file[:k] and on a source failing at k = model
//	D faults.trunc    sfnt.Read(file[:k]) (seekable, streaming) is an error for k inside table data
//	D faults.reader   sfnt.Read(source failing at k) (ReaderAt, Reader) is an error for such k
//	G faults.tail     what happens for k in the padding after the last table (diagnostic)
//	D faults.count    for every k, on the real writers (header.Write, the three sfnt writers, cff.Write): the
//	                  count returned = bytes the destination took, err != nil <=> k < total, success => whole file
//	V faults.pops     parser.Parser on a source ending at k (EOF or error): every output of a history = model
//	D faults.pneed    the same histories: an operation needing a byte >= k returns an error (never a short
//	                  success); operations before that return what they return on the complete input
//	D faults.cffread  cff.Read(data[:k]) and cff.Read(source failing at k) are errors for every k < len

import (
	"bytes"
	"errors"
	"fmt"
	"io"
	"sort"
	"strings"
	"sync"

	"golang.org/x/image/font/gofont/gobold"
	"golang.org/x/image/font/gofont/goitalic"
	"golang.org/x/image/font/gofont/gomedium"
	"golang.org/x/image/font/gofont/gomono"
	"golang.org/x/image/font/gofont/gomonobold"
	"golang.org/x/image/font/gofont/goregular"
	"golang.org/x/image/font/gofont/gosmallcaps"

	"seehuhn.de/go/geom/matrix"
	"seehuhn.de/go/postscript/cid"
	"seehuhn.de/go/postscript/funit"
	"seehuhn.de/go/postscript/type1"

	"seehuhn.de/go/sfnt"
	"seehuhn.de/go/sfnt/cff"
	"seehuhn.de/go/sfnt/glyf"
	"seehuhn.de/go/sfnt/glyph"
	"seehuhn.de/go/sfnt/head"
	"seehuhn.de/go/sfnt/header"
	"seehuhn.de/go/sfnt/internal/debug"
	"seehuhn.de/go/sfnt/kern"
	"seehuhn.de/go/sfnt/maxp"
	"seehuhn.de/go/sfnt/opentype/classdef"
	"seehuhn.de/go/sfnt/opentype/gdef"
	"seehuhn.de/go/sfnt/opentype/gtab"
	"seehuhn.de/go/sfnt/os2"
	"seehuhn.de/go/sfnt/parser"
	"seehuhn.de/go/sfnt/post"
)

var errInjected = errors.New("injected I/O fault")

// ---------------------------------------------------------------- destinations

// faultWriter is the destination of the model: kind short|atomic|late|sloppy, fault point k.
// It checks on the fly that what it takes is the corresponding stretch of ref (when ref != nil).
type faultWriter struct {
	kind string
	k    int
	acc  int
	ref  []byte
	bad  bool
	lens []int // lengths of the Write calls seen
}

func (w *faultWriter) take(p []byte) {
	if w.ref != nil {
		if w.acc+len(p) > len(w.ref) || !bytes.Equal(p, w.ref[w.acc:w.acc+len(p)]) {
			w.bad = true
		}
	}
	w.acc += len(p)
}

func (w *faultWriter) Write(p []byte) (int, error) {
	w.lens = append(w.lens, len(p))
	switch w.kind {
	case "short":
		m := min(len(p), w.k-w.acc)
		w.take(p[:m])
		if m < len(p) {
			return m, errInjected
		}
		return m, nil
	case "atomic":
		if w.acc+len(p) <= w.k {
			w.take(p)
			return len(p), nil
		}
		return 0, errInjected
	case "late":
		w.take(p)
		if w.acc > w.k {
			return len(p), errInjected
		}
		return len(p), nil
	case "sloppy":
		m := min(len(p), w.k-w.acc)
		w.take(p[:m])
		return m, nil
	}
	panic("unknown writer kind " + w.kind)
}

// Destination kinds: the same fault injection (kind, budget k) behind the optional interfaces a
// writer may be asked for.  Every method counts towards the budget and fails like Write.
type byteDest struct{ *faultWriter } // io.ByteWriter

func (d byteDest) WriteByte(c byte) error {
	_, err := d.faultWriter.Write([]byte{c})
	return err
}

type stringDest struct{ *faultWriter } // io.StringWriter

func (d stringDest) WriteString(s string) (int, error) { return d.faultWriter.Write([]byte(s)) }

type readFromDest struct{ *faultWriter } // io.ReaderFrom

func (d readFromDest) ReadFrom(r io.Reader) (int64, error) {
	var total int64
	buf := make([]byte, 512)
	for {
		n, err := r.Read(buf)
		if n > 0 {
			m, werr := d.faultWriter.Write(buf[:n])
			total += int64(m)
			if werr != nil {
				return total, werr
			}
		}
		if err == io.EOF {
			return total, nil
		}
		if err != nil {
			return total, err
		}
	}
}

// bufio-like: everything at once (ByteWriter, StringWriter, ReaderFrom, Flush, Available)
type allDest struct {
	byteDest
	stringDest
	readFromDest
}

func (d allDest) Write(p []byte) (int, error) { return d.byteDest.faultWriter.Write(p) }
func (d allDest) Flush() error                { return nil }
func (d allDest) Available() int              { return 4096 }

// destOf wraps w according to dk: "" plain io.Writer, byte, string, readfrom, all
func destOf(dk string, w *faultWriter) io.Writer {
	switch dk {
	case "byte":
		return byteDest{w}
	case "string":
		return stringDest{w}
	case "readfrom":
		return readFromDest{w}
	case "all":
		return allDest{byteDest{w}, stringDest{w}, readFromDest{w}}
	}
	return w
}

var destKinds = []string{"byte", "string", "readfrom", "all"}

// ---------------------------------------------------------------- sources

type onlyReader struct{ r io.Reader }

func (o onlyReader) Read(p []byte) (int, error) { return o.r.Read(p) }

// faultReaderAt returns a non-EOF error for every access touching an offset >= k.
type faultReaderAt struct {
	data []byte
	k    int
}

func (f *faultReaderAt) ReadAt(p []byte, off int64) (int, error) {
	if off < 0 {
		return 0, errors.New("negative offset")
	}
	if off+int64(len(p)) > int64(f.k) {
		n := 0
		if off < int64(f.k) && off < int64(len(f.data)) {
			n = copy(p, f.data[off:min(f.k, len(f.data))])
		}
		return n, errInjected
	}
	return bytes.NewReader(f.data).ReadAt(p, off)
}
func (f *faultReaderAt) Read(p []byte) (int, error) {
	panic("Read called on a ReaderAt source")
}

// Reader kinds.  The library may type-assert its source for optional interfaces (the list of
// assertions in header/, parser/ and read.go is regenerated as a fact); every kind below is
// passed to header.Read / sfnt.Read with the same content semantics: the first k bytes of data
// are readable, then the source is short (io.EOF, a container holding only k bytes) or failing
// (a non-EOF error for every access touching an offset >= k).
type baseAt struct {
	data  []byte
	k     int
	fault bool
}

func (r *baseAt) ReadAt(p []byte, off int64) (int, error) {
	if r.fault {
		return (&faultReaderAt{r.data, r.k}).ReadAt(p, off)
	}
	return bytes.NewReader(r.data[:min(r.k, len(r.data))]).ReadAt(p, off)
}
func (r *baseAt) Read(p []byte) (int, error) { panic("Read called on a ReaderAt source") }

// (b) ReaderAt + Size(): Size reports the declared (complete) length
type sizeAt struct{ *baseAt }

func (r sizeAt) Size() int64 { return int64(len(r.data)) }

// (d) ReaderAt + io.ReadSeeker, no Size
type seekAt struct {
	*baseAt
	pos int64
}

func (r *seekAt) Read(p []byte) (int, error) {
	n, err := r.baseAt.ReadAt(p, r.pos)
	r.pos += int64(n)
	if n > 0 && err == io.EOF {
		err = nil
	}
	return n, err
}
func (r *seekAt) Seek(off int64, whence int) (int64, error) {
	switch whence {
	case io.SeekCurrent:
		off += r.pos
	case io.SeekEnd:
		off += int64(len(r.data))
	}
	if off < 0 {
		return 0, errors.New("negative position")
	}
	r.pos = off
	return off, nil
}

// (e) everything a file offers: ReadAt, Read, Seek, Size, Len, Close, Name, Stat-like, WriteTo absent
type fileLike struct{ *seekAt }

func (r fileLike) Size() int64    { return int64(len(r.data)) }
func (r fileLike) Len() int       { return len(r.data) - int(r.pos) }
func (r fileLike) Close() error   { return nil }
func (r fileLike) Name() string   { return "font.ttf" }
func (r fileLike) Sync() error    { return nil }
func (r fileLike) Fd() uintptr    { return 3 }
func (r fileLike) String() string { return "fileLike" }

type readerAtReader interface {
	io.Reader
	io.ReaderAt
}

// kindsOf: (b) Size, (c) io.SectionReader with the declared length over the k-byte base, (d) Seek, (e) all
func kindsOf(data []byte, k int, fault bool) []readerAtReader {
	b := func() *baseAt { return &baseAt{data, k, fault} }
	return []readerAtReader{
		sizeAt{b()},
		io.NewSectionReader(b(), 0, int64(len(data))),
		&seekAt{baseAt: b()},
		fileLike{&seekAt{baseAt: b()}},
	}
}

// faultStream delivers data[:k] and then, if k < len(data), ends in the way `end` says:
//
//	""      (0, generic error) on the next call
//	"ueof"  (0, io.ErrUnexpectedEOF) on the next call
//	"nerr"  the last chunk together with the generic error: (n > 0, err)
//	"nueof" the last chunk together with io.ErrUnexpectedEOF
//	"eof"   (0, io.EOF): the stream of a file cut at k
//	"neof"  the last chunk together with io.EOF: (n > 0, io.EOF)
//
// A source that has delivered all of data ends with io.EOF.
type faultStream struct {
	data []byte
	k    int
	end  string
	pos  int
}

func (f *faultStream) endErr() error {
	if f.k >= len(f.data) {
		return io.EOF
	}
	switch f.end {
	case "ueof", "nueof":
		return io.ErrUnexpectedEOF
	case "eof", "neof":
		return io.EOF
	}
	return errInjected
}

func (f *faultStream) Read(p []byte) (int, error) {
	lim := min(f.k, len(f.data))
	if f.pos >= lim {
		return 0, f.endErr()
	}
	if len(p) > 700 {
		p = p[:700] // several calls
	}
	n := copy(p, f.data[f.pos:lim])
	f.pos += n
	if f.pos >= lim && strings.HasPrefix(f.end, "n") && f.k < len(f.data) {
		return n, f.endErr()
	}
	return n, nil
}

// ---------------------------------------------------------------- corpus

var goFonts = map[string][]byte{
	"goregular": goregular.TTF, "gomono": gomono.TTF, "gobold": gobold.TTF, "goitalic": goitalic.TTF,
	"gomedium": gomedium.TTF, "gomonobold": gomonobold.TTF, "gosmallcaps": gosmallcaps.TTF,
}

var (
	fontMu    sync.Mutex
	fontCache = map[string]*sfnt.Font{}
	fileCache = map[string][]byte{}
)

// getFont rebuilds the font named by spec:
//
//	go:<name>                  a Go font read by sfnt.Read (glyf outlines)
//	simple                     internal/debug.MakeSimpleFont (CFF outlines)
//	sub:<n>:<seed>:<base>      base.Subset of n glyphs chosen by seed
func getFont(spec string) *sfnt.Font {
	fontMu.Lock()
	defer fontMu.Unlock()
	return getFontLocked(spec)
}

func getFontLocked(spec string) *sfnt.Font {
	if f, ok := fontCache[spec]; ok {
		return f
	}
	var f *sfnt.Font
	switch {
	case spec == "simple":
		f = debug.MakeSimpleFont()
	case strings.HasPrefix(spec, "go:"):
		data, ok := goFonts[spec[3:]]
		if !ok {
			panic("unknown font " + spec)
		}
		var err error
		f, err = sfnt.Read(bytes.NewReader(data))
		if err != nil {
			panic(err)
		}
	case strings.HasPrefix(spec, "cid:"):
		// cid:<n>:<base>: the CFF font base made CID-keyed with n private DICTs (FDSelect gid mod n)
		parts := strings.SplitN(spec, ":", 3)
		var n int
		fmt.Sscan(parts[1], &n)
		base := getFontLocked(parts[2])
		f = base.Clone()
		o := *base.Outlines.(*cff.Outlines)
		o.Encoding = nil
		o.ROS = &cid.SystemInfo{Registry: "Adobe", Ordering: "Identity", Supplement: 0}
		o.GIDToCID = make([]cid.CID, len(o.Glyphs))
		for i := range o.GIDToCID {
			o.GIDToCID[i] = cid.CID(i)
		}
		o.Private = make([]*type1.PrivateDict, n)
		o.FontMatrices = make([]matrix.Matrix, n)
		for i := range o.Private {
			o.Private[i] = base.Outlines.(*cff.Outlines).Private[0]
			o.FontMatrices[i] = matrix.Identity
		}
		o.FDSelect = func(gid glyph.ID) int { return int(gid) % n }
		f.Outlines = &o
	case strings.HasPrefix(spec, "bigcff:"):
		// bigcff:<n>:<base>: the CFF font base with n more glyphs of about 1 KiB of charstring each
		parts := strings.SplitN(spec, ":", 3)
		var n int
		fmt.Sscan(parts[1], &n)
		base := getFontLocked(parts[2])
		f = base.Clone()
		o := *base.Outlines.(*cff.Outlines)
		o.Glyphs = append([]*cff.Glyph{}, o.Glyphs...)
		for i := 0; i < n; i++ {
			g := cff.NewGlyph(fmt.Sprintf("big%d", i), float64(500+i%7))
			g.MoveTo(0, 0)
			for j := 0; j < 450; j++ {
				g.LineTo(float64((j*37+i*11)%900), float64((j*53+i*5)%700))
			}
			o.Glyphs = append(o.Glyphs, g)
		}
		f.Outlines = &o
	case strings.HasPrefix(spec, "big:"):
		// big:<n>:<base>: the glyf font base with an fpgm table of n zero bytes (a table > 1 MiB)
		parts := strings.SplitN(spec, ":", 3)
		var n int
		fmt.Sscan(parts[1], &n)
		base := getFontLocked(parts[2])
		f = base.Clone()
		o := *base.Outlines.(*glyf.Outlines)
		o.Tables = map[string][]byte{}
		for k, v := range base.Outlines.(*glyf.Outlines).Tables {
			o.Tables[k] = v
		}
		o.Tables["fpgm"] = make([]byte, n)
		f.Outlines = &o
	case strings.HasPrefix(spec, "sub:"):
		parts := strings.SplitN(spec, ":", 4)
		var n int
		var seed uint64
		fmt.Sscan(parts[1], &n)
		fmt.Sscan(parts[2], &seed)
		base := getFontLocked(parts[3])
		r := NewRng(seed)
		ng := base.NumGlyphs()
		gids := []glyph.ID{0}
		seen := map[glyph.ID]bool{0: true}
		for len(gids) < n && len(gids) < ng {
			g := glyph.ID(r.Intn(ng))
			if !seen[g] {
				seen[g] = true
				gids = append(gids, g)
			}
		}
		f = base.Subset(gids)
	default:
		panic("unknown font spec " + spec)
	}
	fontCache[spec] = f
	return f
}

// writeAPI calls one of the three sfnt writers; hasN is false for the one that reports no count.
func writeAPI(f *sfnt.Font, api string, w io.Writer) (n int64, err error, hasN bool) {
	switch api {
	case "Write":
		n, err = f.Write(w)
		return n, err, true
	case "TTPDF":
		n, err = f.WriteTrueTypePDF(w)
		return n, err, true
	case "TTPDFnil":
		// the documented way to drop a default table: a nil override (the entry is skipped)
		n, err = f.WriteTrueTypePDF(w, "cmap", []byte(nil), "zz", []byte{1, 2, 3})
		return n, err, true
	case "CFFPDF":
		err = f.WriteOpenTypeCFFPDF(w)
		return 0, err, false
	}
	panic("unknown api " + api)
}

// getFile returns the bytes of the file named by fspec: "raw:<name>" (a Go font as shipped) or
// "<font spec>|<api>" (the font written through that API).
func getFile(fspec string) []byte {
	fontMu.Lock()
	defer fontMu.Unlock()
	if d, ok := fileCache[fspec]; ok {
		return d
	}
	var d []byte
	if strings.HasPrefix(fspec, "apple:") {
		// the same file with the Apple sfnt version tag 'true' (read like TrueType; never written)
		fontMu.Unlock()
		base := getFile(fspec[6:])
		fontMu.Lock()
		d = append([]byte("true"), base[4:]...)
	} else if strings.HasPrefix(fspec, "retab(") {
		// retab(<opt>,<taghex>.<len>,...)<file spec>: the tables of that file written again through
		// header.Write together with zero-filled tables of the given lengths (length 0: an empty
		// table); option x drops GDEF/GSUB/GPOS so that DSIG or an unknown tag is laid out last
		i := strings.IndexByte(fspec, ')')
		fontMu.Unlock()
		base := getFile(fspec[i+1:])
		fontMu.Lock()
		info, err := header.Read(bytes.NewReader(base))
		if err != nil {
			panic(err)
		}
		tabs := map[string][]byte{}
		for name, rec := range info.Toc {
			tabs[name] = append([]byte{}, base[rec.Offset:rec.Offset+rec.Length]...)
		}
		for _, a := range strings.Split(fspec[6:i], ",") {
			if strings.HasPrefix(a, "n") {
				// nNN: small private tables p000, p001, ... until the file has NN tables
				var want int
				fmt.Sscan(a[1:], &want)
				for j := 0; len(tabs) < want; j++ {
					tabs[fmt.Sprintf("p%03d", j)] = make([]byte, 1+j%9)
				}
			} else if a == "x" {
				delete(tabs, "GDEF")
				delete(tabs, "GSUB")
				delete(tabs, "GPOS")
			} else if a != "" {
				tag, l, _ := strings.Cut(a, ".")
				var n int
				fmt.Sscan(l, &n)
				tabs[string(mustHex(tag))] = make([]byte, n)
			}
		}
		var buf bytes.Buffer
		if _, err := header.Write(&buf, info.ScalerType, tabs); err != nil {
			panic(err)
		}
		d = buf.Bytes()
	} else if strings.HasPrefix(fspec, "raw:") {
		var ok bool
		d, ok = goFonts[fspec[4:]]
		if !ok {
			panic("unknown file " + fspec)
		}
	} else {
		i := strings.LastIndexByte(fspec, '|')
		f := getFontLocked(fspec[:i])
		var buf bytes.Buffer
		if _, err, _ := writeAPI(f, fspec[i+1:], &buf); err != nil {
			panic(err)
		}
		d = buf.Bytes()
	}
	fileCache[fspec] = d
	return d
}

type tocEnt struct {
	name     string
	off, len int
}

// layoutOf reads the directory of a complete file: entries by offset, header length, end of the last table.
func layoutOf(data []byte) (ents []tocEnt, scaler uint32, hdrLen, lastEnd int) {
	info, err := header.Read(bytes.NewReader(data))
	if err != nil {
		panic(err)
	}
	for n, r := range info.Toc {
		ents = append(ents, tocEnt{n, int(r.Offset), int(r.Length)})
		if r.Length > 0 {
			// the end of the last table that carries data: an empty table has no data to cut into
			lastEnd = max(lastEnd, int(r.Offset)+int(r.Length))
		}
	}
	sort.Slice(ents, func(i, j int) bool {
		if ents[i].off != ents[j].off {
			return ents[i].off < ents[j].off
		}
		return ents[i].name < ents[j].name
	})
	return ents, info.ScalerType, 12 + 16*len(ents), lastEnd
}

func tabLensArg(ents []tocEnt) string {
	parts := make([]string, len(ents))
	for i, e := range ents {
		parts[i] = fmt.Sprintf("%s:%d", hx([]byte(e.name)), e.len)
	}
	sort.Strings(parts)
	return strings.Join(parts, ",")
}

// parseKs decodes ks=a-b (inclusive) or a comma separated list.
func parseKs(f Fields) []int {
	s := f["ks"]
	if i := strings.IndexByte(s, '-'); i >= 0 {
		var a, b int
		fmt.Sscan(s[:i], &a)
		fmt.Sscan(s[i+1:], &b)
		out := make([]int, 0, b-a+1)
		for k := a; k <= b; k++ {
			out = append(out, k)
		}
		return out
	}
	return f.Ints("ks")
}

// parseTabLens decodes tabs=<namehex>:<len or ->,... into a map with zero-filled data.
func parseTabLens(f Fields) map[string][]byte {
	m := map[string][]byte{}
	for _, t := range f.List("tabs", ",") {
		i := strings.IndexByte(t, ':')
		name := string(mustHex(t[:i]))
		if t[i+1:] == "-" {
			m[name] = nil
		} else {
			var l int
			fmt.Sscan(t[i+1:], &l)
			m[name] = make([]byte, l)
		}
	}
	return m
}

func readClass(err error) byte {
	if err == nil {
		return 'o'
	}
	switch errKind(err) {
	case "err:unsupported":
		return 'u'
	case "err:invalid":
		return 'v'
	}
	return 'i'
}

// verdict of one sfnt.Read call: E error, A accepted, P panic
func readVerdict(r io.Reader) (v byte) {
	defer func() {
		if rec := recover(); rec != nil {
			v = 'P'
		}
	}()
	_, err := sfnt.Read(r)
	if err != nil {
		return 'E'
	}
	return 'A'
}

func checkFileFields(f Fields, data []byte) (lastEnd int, bad string) {
	_, _, _, lastEnd = layoutOf(data)
	if f.Int("len") != len(data) || f.Int("lastend") != lastEnd {
		return 0, fmt.Sprintf("bad-fields:len=%d lastend=%d", len(data), lastEnd)
	}
	return lastEnd, ""
}

func init() {
	areas["faults"] = areaFaults

	ops["faults.write"] = func(f Fields) string {
		kind := f["w"]
		ks := parseKs(f)
		out := make([]string, len(ks))
		var call func(w io.Writer) (int64, error, bool)
		var ref []byte
		if spec, ok := f["font"]; ok {
			font := getFont(spec)
			api := f["api"]
			call = func(w io.Writer) (int64, error, bool) { return writeAPI(font, api, w) }
			ref = getFile(spec + "|" + api)
		} else {
			tabs := parseTabLens(f)
			sc := uint32(f.Int("scaler"))
			call = func(w io.Writer) (int64, error, bool) {
				n, err := header.Write(w, sc, tabs)
				return n, err, true
			}
			var buf bytes.Buffer
			if _, err := header.Write(&buf, sc, tabs); err == nil {
				ref = buf.Bytes()
			}
		}
		if kind == "sloppy" {
			ref = nil // a destination that drops bytes silently does not hold a prefix
		}
		for i, k := range ks {
			w := &faultWriter{kind: kind, k: k, ref: ref}
			n, err, hasN := call(w)
			s := "-"
			if hasN {
				s = fmt.Sprint(n)
				if n != int64(w.acc) {
					s += fmt.Sprintf("/%d", w.acc) // count differs from what the destination took
				}
			}
			if err != nil {
				s += "!"
			}
			if w.bad {
				s += "~" // the destination did not receive a prefix of the file
			}
			if err == nil && ref != nil && w.acc != len(ref) {
				s += "#" // success without the whole file
			}
			out[i] = s
		}
		return strings.Join(out, ",")
	}

	ops["faults.cffwrite"] = func(f Fields) string {
		font := getFont(f["font"]).AsCFF()
		rec := &faultWriter{kind: "late", k: 1 << 40}
		if err := font.Write(rec); err != nil {
			return "err:" + err.Error()
		}
		if ints(rec.lens) != f["lens"] {
			return "lens-mismatch:" + ints(rec.lens)
		}
		ks := parseKs(f)
		out := make([]string, len(ks))
		for i, k := range ks {
			w := &faultWriter{kind: f["w"], k: k}
			out[i] = guard(func() string {
				if err := font.Write(w); err != nil {
					return "!"
				}
				return "."
			})
			if strings.HasPrefix(out[i], "panic") {
				out[i] = "P"
			}
		}
		return strings.Join(out, ",")
	}

	ops["faults.hread"] = func(f Fields) string {
		hdr := f.Hex("hdr")
		data := make([]byte, max(f.Int("len"), len(hdr)))
		copy(data, hdr)
		data = data[:f.Int("len")]
		ks := parseKs(f)
		// per k five reader kinds: bytes.Reader over data[:k] (mode trunc) or the plain failing
		// ReaderAt (mode fault), then the kinds (b) (c) (d) (e)
		var out []byte
		for _, k := range ks {
			var rs []io.ReaderAt
			if f["mode"] == "trunc" {
				rs = append(rs, bytes.NewReader(data[:min(k, len(data))]))
			} else {
				rs = append(rs, &faultReaderAt{data, k})
			}
			for _, r := range kindsOf(data, k, f["mode"] != "trunc") {
				rs = append(rs, r)
			}
			for _, r := range rs {
				r := r
				out = append(out, guard1(func() byte {
					_, err := header.Read(r)
					return readClass(err)
				}))
			}
		}
		return string(out)
	}

	// per k three verdicts: bytes.Reader over data[:k]; a plain Reader ending (0, EOF) at k; a plain
	// Reader returning its last chunk with EOF.  Demanded (E) for k before the end of the last table.
	ops["faults.trunc"] = func(f Fields) string {
		data := getFile(f["font"])
		lastEnd, bad := checkFileFields(f, data)
		if bad != "" {
			return bad
		}
		var sb strings.Builder
		for _, k := range parseKs(f) {
			if k >= lastEnd {
				sb.WriteString("-------")
				continue
			}
			sb.WriteByte(readVerdict(bytes.NewReader(data[:k])))
			sb.WriteByte(readVerdict(&faultStream{data: data, k: k, end: "eof"}))
			sb.WriteByte(readVerdict(&faultStream{data: data, k: k, end: "neof"}))
			for _, r := range kindsOf(data, k, false) {
				sb.WriteByte(readVerdict(r))
			}
		}
		return sb.String()
	}

	// per k five verdicts: a ReaderAt failing for accesses touching offsets >= k, and plain Readers
	// failing after k bytes with a generic error, io.ErrUnexpectedEOF, and each of the two
	// delivered together with the last chunk.  The ReaderAt is demanded to be rejected for k before
	// the end of the last table (later offsets are never accessed); the streams for every k < len:
	// the whole stream is read, so a non-EOF error before its end is a failure at a needed offset.
	ops["faults.reader"] = func(f Fields) string {
		data := getFile(f["font"])
		lastEnd, bad := checkFileFields(f, data)
		if bad != "" {
			return bad
		}
		var sb strings.Builder
		for _, k := range parseKs(f) {
			if k >= len(data) {
				sb.WriteString("---------")
				continue
			}
			if k >= lastEnd {
				sb.WriteByte('-')
			} else {
				sb.WriteByte(readVerdict(&faultReaderAt{data, k}))
			}
			for _, end := range []string{"", "ueof", "nerr", "nueof"} {
				sb.WriteByte(readVerdict(&faultStream{data: data, k: k, end: end}))
			}
			if k >= lastEnd {
				sb.WriteString("----")
			} else {
				for _, r := range kindsOf(data, k, true) {
					sb.WriteByte(readVerdict(r))
				}
			}
		}
		return sb.String()
	}

	// diagnostic: the four readers on fault points in the padding after the last table
	ops["faults.tail"] = func(f Fields) string {
		data := getFile(f["font"])
		var sb strings.Builder
		for _, k := range parseKs(f) {
			sb.WriteByte(readVerdict(bytes.NewReader(data[:min(k, len(data))])))
			sb.WriteByte(readVerdict(onlyReader{bytes.NewReader(data[:min(k, len(data))])}))
			sb.WriteByte(readVerdict(&faultReaderAt{data, k}))
			sb.WriteByte(readVerdict(&faultStream{data: data, k: k}))
		}
		return sb.String()
	}
}

func guard1(f func() byte) (b byte) {
	defer func() {
		if r := recover(); r != nil {
			b = 'p'
		}
	}()
	return f()
}

// ---------------------------------------------------------------- parser-level sources

// srcEnding is a ReadSeekSizer over data that ends at offset k: with io.EOF (kind "eof": the
// file cut at k) or with a non-EOF error (kind "fault", when k < len(data)).  Read delivers
// short reads according to chunks (the oracle of the parser model).  Size reports len(data).
type srcEnding struct {
	data   []byte
	k      int
	kind   string
	pos    int64
	chunks []int
	calls  int
}

func (r *srcEnding) Size() int64 { return int64(len(r.data)) }
func (r *srcEnding) Seek(off int64, whence int) (int64, error) {
	if whence != io.SeekStart || off < 0 {
		return 0, errors.New("bad seek")
	}
	r.pos = off
	return off, nil
}
func (r *srcEnding) Read(p []byte) (int, error) {
	lim := min(r.k, len(r.data))
	if r.pos >= int64(lim) {
		if r.kind == "fault" && r.k < len(r.data) {
			return 0, errInjected
		}
		return 0, io.EOF
	}
	avail := lim - int(r.pos)
	w := len(p)
	if w == 0 {
		return 0, nil
	}
	c := w
	if len(r.chunks) > 0 {
		c = r.chunks[r.calls%len(r.chunks)]
	}
	c = max(1, min(c, w, avail))
	r.calls++
	copy(p, r.data[r.pos:int(r.pos)+c])
	r.pos += int64(c)
	return c, nil
}

// genInput: the deterministic input both sides build from (seed, length); small 16-bit
// values are frequent so that ReadUint16Slice has work to do.
func genInput(seed, n int) []byte {
	b := make([]byte, n)
	for i := range b {
		h := (uint64(i/2+seed) * 2654435761 / 65536) % 65536
		if h%3 == 0 {
			if i%2 == 1 {
				b[i] = byte((h / 3) % 6)
			}
		} else if i%2 == 0 {
			b[i] = byte(h / 256)
		} else {
			b[i] = byte(h % 256)
		}
	}
	return b
}

func digest(b []byte) string {
	s := 0
	for i, x := range b {
		s = (s + (i+1)*int(x)) % 1000003
	}
	return fmt.Sprintf("%d:%d", len(b), s)
}

// runFaultOps executes a history on the real parser over a source ending at k.  With stop,
// the history ends at the first error, printed as ERR (the D stream); otherwise every output
// with its error class is printed (the V stream).
func runFaultOps(data []byte, k int, kind string, chunks []int, ops []string, stop bool) string {
	var outs []string
	res := guard(func() string {
		p := parser.New(&srcEnding{data: data, k: k, kind: kind, chunks: chunks})
		cls := func(err error) string {
			switch err {
			case io.ErrUnexpectedEOF:
				return "eof"
			case errInjected:
				return "fault"
			}
			return "err:" + strings.ReplaceAll(err.Error(), " ", "_")
		}
		for _, op := range ops {
			var o string
			var err error
			var n int
			name := op
			if i := strings.IndexByte(op, ':'); i >= 0 {
				name = op[:i]
				fmt.Sscan(op[i+1:], &n)
			}
			switch name {
			case "seek":
				err = p.SeekPos(int64(n))
				o = "unit"
			case "discard":
				err = p.Discard(n)
				o = "unit"
			case "bytes":
				var b []byte
				b, err = p.ReadBytes(n)
				o = "data:" + digest(b)
			case "read":
				buf := make([]byte, n)
				var got int
				got, err = p.Read(buf)
				if err == nil {
					// a nil error with got < n is printed as it is: a short success
					o = "data:" + digest(buf[:got])
				} else if !stop {
					switch err {
					case io.ErrUnexpectedEOF:
						outs = append(outs, fmt.Sprintf("short:%s@%d", digest(buf[:got]), p.Pos()))
					case errInjected:
						outs = append(outs, fmt.Sprintf("fshort:%s@%d", digest(buf[:got]), p.Pos()))
					default:
						outs = append(outs, fmt.Sprintf("%s@%d", cls(err), p.Pos()))
					}
					continue
				}
			case "u8":
				var v uint8
				v, err = p.ReadUint8()
				o = fmt.Sprintf("num:%d", v)
			case "u16":
				var v uint16
				v, err = p.ReadUint16()
				o = fmt.Sprintf("num:%d", v)
			case "i16":
				var v int16
				v, err = p.ReadInt16()
				o = fmt.Sprintf("int:%d", v)
			case "u32":
				var v uint32
				v, err = p.ReadUint32()
				o = fmt.Sprintf("num:%d", v)
			case "u16s":
				var v []uint16
				v, err = p.ReadUint16Slice()
				l := make([]int, len(v))
				for i, x := range v {
					l[i] = int(x)
				}
				o = "nums:" + ints(l)
			case "pos":
				o = fmt.Sprintf("num:%d", p.Pos())
			case "size":
				o = fmt.Sprintf("num:%d", p.Size())
			default:
				o = "bad-op"
			}
			if err != nil {
				if stop {
					outs = append(outs, "ERR")
					return ""
				}
				o = cls(err)
			}
			outs = append(outs, fmt.Sprintf("%s@%d", o, p.Pos()))
		}
		return ""
	})
	if res != "" {
		return canonPanic(res)
	}
	return strings.Join(outs, ";")
}

// ---------------------------------------------------------------- CFF data

var cffCache = map[string][]byte{}

// getCFF returns CFF table data: "<font spec>" is (*cff.Font).Write of that font;
// "<font spec>+idx:<n>:<each>" replaces the empty local-subrs INDEX, which this library writes
// as the last section, by an INDEX of n entries of `each` bytes: a layout with a large INDEX
// as the last section (as other producers write), no offset in the file changes.
func getCFF(spec string) []byte {
	fontMu.Lock()
	defer fontMu.Unlock()
	if d, ok := cffCache[spec]; ok {
		return d
	}
	base, mod, _ := strings.Cut(spec, "+")
	var buf bytes.Buffer
	if err := getFontLocked(base).AsCFF().Write(&buf); err != nil {
		panic(err)
	}
	d := buf.Bytes()
	if mod != "" {
		var n, each int
		if _, err := fmt.Sscanf(mod, "idx:%d:%d", &n, &each); err != nil {
			panic("bad CFF spec " + spec)
		}
		if d[len(d)-2] != 0 || d[len(d)-1] != 0 {
			panic("the last CFF section is not an empty INDEX")
		}
		d = d[:len(d)-2]
		d = append(d, byte(n>>8), byte(n), 2)
		for i := 0; i <= n; i++ {
			o := 1 + i*each
			d = append(d, byte(o>>8), byte(o))
		}
		for i := 0; i < n*each; i++ {
			d = append(d, 0x0b) // return
		}
	}
	cffCache[spec] = d
	return d
}

func cffVerdict(r parser.ReadSeekSizer) (v byte) {
	defer func() {
		if rec := recover(); rec != nil {
			v = 'P'
		}
	}()
	if _, err := cff.Read(r); err != nil {
		return 'E'
	}
	return 'A'
}

func init() {
	ops["faults.count"] = func(f Fields) string {
		kind := f["w"]
		total := f.Int("total")
		var call func(w io.Writer) (int64, error, bool)
		if spec, ok := f["font"]; ok {
			font := getFont(spec)
			api := f["api"]
			if api == "CFF" {
				cf := font.AsCFF()
				call = func(w io.Writer) (int64, error, bool) { return 0, cf.Write(w), false }
			} else {
				call = func(w io.Writer) (int64, error, bool) { return writeAPI(font, api, w) }
			}
		} else {
			tabs := parseTabLens(f)
			sc := uint32(f.Int("scaler"))
			call = func(w io.Writer) (int64, error, bool) {
				n, err := header.Write(w, sc, tabs)
				return n, err, true
			}
		}
		full := &faultWriter{kind: "late", k: 1 << 40}
		if _, err, _ := call(full); err != nil || full.acc != total {
			return fmt.Sprintf("bad-total:%d", full.acc)
		}
		var sb strings.Builder
		for _, k := range parseKs(f) {
			w := &faultWriter{kind: kind, k: k}
			var n int64
			var err error
			var hasN bool
			if pan := guard(func() string { n, err, hasN = call(destOf(f["dk"], w)); return "" }); pan != "" {
				sb.WriteString("PPP") // a panic instead of an error
				continue
			}
			switch {
			case !hasN:
				sb.WriteByte('_')
			case n == int64(w.acc):
				sb.WriteByte('=')
			default:
				sb.WriteByte('#') // the count is not what the destination took
			}
			if err != nil {
				sb.WriteString("!-")
			} else if w.acc == total && (!hasN || n == int64(total)) {
				sb.WriteString(".T")
			} else {
				sb.WriteString(".t") // success without the whole file
			}
		}
		return sb.String()
	}

	pops := func(stop bool) opFn {
		return func(f Fields) string {
			data := genInput(f.Int("inseed"), f.Int("len"))
			ks := parseKs(f)
			out := make([]string, len(ks))
			for i, k := range ks {
				out[i] = runFaultOps(data, k, f["kind"], f.Ints("chunks"), f.List("ops", ";"), stop)
			}
			return strings.Join(out, "|")
		}
	}
	ops["faults.pops"] = pops(false)
	ops["faults.pneed"] = pops(true)

	ops["faults.cffread"] = func(f Fields) string {
		data := getCFF(f["cff"])
		if len(data) != f.Int("len") {
			return fmt.Sprintf("bad-len:%d", len(data))
		}
		ks := parseKs(f)
		out := make([]byte, len(ks))
		for i, k := range ks {
			if f["mode"] == "trunc" {
				out[i] = cffVerdict(bytes.NewReader(data[:min(k, len(data))]))
			} else {
				out[i] = cffVerdict(&srcEnding{data: data, k: k, kind: "fault"})
			}
		}
		return string(out)
	}
}

// cidCases: (*cff.Font).Write of a CID-keyed font against every destination kind, every k
// (V error/no error = model of the section loop; D count predicate, a panic is a failure),
// and cff.Read on the written data cut / failing at every k.
func cidCases(c *Ctx, spec string) {
	font := getFont(spec)
	rec := &faultWriter{kind: "late", k: 1 << 40}
	if err := font.AsCFF().Write(rec); err != nil {
		panic(err)
	}
	c.Stat("cff_sections", bucket(len(rec.lens)))
	c.Stat("cid_keyed_private_dicts", fmt.Sprint(len(font.Outlines.(*cff.Outlines).Private)))
	for _, kind := range honestKinds {
		for _, ks := range blocks(0, rec.acc+2) {
			out := c.Case(Verdict, "faults.cffwrite", fmt.Sprintf("font=%s lens=%s w=%s ks=%s", spec, ints(rec.lens), kind, ks), true)
			for _, s := range strings.Split(out, ",") {
				c.Stat("cff_sections_"+kind, map[string]string{"!": "error", ".": "success", "P": "PANIC"}[s])
			}
		}
	}
	countCases(c, fmt.Sprintf("font=%s api=CFF", spec), rec.acc, true)
	cffReadCases(c, spec)
}

// countCases: the D predicate on the real writers, every k.
func countCases(c *Ctx, args string, total int, nontriv bool) {
	for _, kind := range honestKinds {
		for _, ks := range blocks(0, total+2) {
			out := c.Case(Direct, "faults.count", fmt.Sprintf("%s total=%d w=%s ks=%s", args, total, kind, ks), nontriv)
			if i := strings.IndexAny(out, "#tP"); i >= 0 && !strings.HasPrefix(out, "bad") && !strings.HasPrefix(out, "panic") {
				// single out the first fault point at which the predicate fails (a short replay)
				var a int
				fmt.Sscan(ks, &a)
				c.Case(Direct, "faults.count", fmt.Sprintf("%s total=%d w=%s ks=%d", args, total, kind, a+i/3), nontriv)
			}
			for i := 0; i+3 <= len(out) && !strings.HasPrefix(out, "bad") && !strings.HasPrefix(out, "panic"); i += 3 {
				c.Stat("count_predicate_"+kind, out[i:i+3])
			}
		}
	}
	// destinations offering optional interfaces (io.ByteWriter, io.StringWriter, io.ReaderFrom, all of
	// them): the end of the output (the final padding), the start, and points spread over it; every k
	// for small header.Write sets
	set := map[int]bool{}
	for k := max(0, total-8); k <= total+1; k++ {
		set[k] = true
	}
	for j := 0; j <= 32; j++ {
		set[total*j/32] = true
		set[min(total+1, j)] = true
	}
	if strings.HasPrefix(args, "scaler=") && total <= 1500 {
		for k := 0; k <= total+1; k++ {
			set[k] = true
		}
	}
	var kl []int
	for k := range set {
		kl = append(kl, k)
	}
	sort.Ints(kl)
	for _, dk := range destKinds {
		for _, kind := range honestKinds {
			for a := 0; a < len(kl); a += faultBlock {
				part := kl[a:min(a+faultBlock, len(kl))]
				out := c.Case(Direct, "faults.count", fmt.Sprintf("%s total=%d w=%s dk=%s ks=%s", args, total, kind, dk, ints(part)), nontriv)
				if strings.HasPrefix(out, "bad") || strings.HasPrefix(out, "panic") || len(out) != 3*len(part) {
					continue
				}
				if i := strings.IndexAny(out, "#tP"); i >= 0 {
					c.Case(Direct, "faults.count", fmt.Sprintf("%s total=%d w=%s dk=%s ks=%d", args, total, kind, dk, part[i/3]), nontriv)
				}
				for i := 0; i+3 <= len(out); i += 3 {
					c.Stat("count_predicate_dest_"+dk, out[i:i+3])
				}
			}
		}
	}
}

// bigKs: fault points for a write whose Write calls are `calls` (start offset, length): around
// every call boundary, and inside bodies larger than 1 MiB around every 1 MiB boundary and in the
// middle of every 1 MiB piece.
func bigKs(lens []int, total int) []int {
	set := map[int]bool{}
	add := func(k int) {
		if k >= 0 && k <= total+1 {
			set[k] = true
		}
	}
	s := 0
	for _, l := range lens {
		for _, d := range []int{-1, 0, 1} {
			add(s + d)
		}
		add(s + l/2)
		for j := 1 << 20; j < l+(1<<20); j += 1 << 20 {
			add(s + j - (1 << 19))
			if j < l {
				add(s + j - 1)
				add(s + j)
				add(s + j + 1)
			}
		}
		s += l
	}
	for j := 1; j < 16; j++ {
		add(total * j / 16) // spread over the whole output
	}
	add(1<<16 - 1)
	add(1 << 16)
	add(1<<16 + 1)
	add(total - 1)
	add(total)
	add(total + 1)
	ks := make([]int, 0, len(set))
	for k := range set {
		ks = append(ks, k)
	}
	sort.Ints(ks)
	return ks
}

// bigCountCases: the D predicate on writers handling tables larger than 1 MiB (args names the
// writer: a table set by lengths for header.Write, or font=/api= for the sfnt writers).
func bigCountCases(c *Ctx, args string, call func(w io.Writer) error) {
	rec := &faultWriter{kind: "late", k: 1 << 60}
	if err := call(rec); err != nil {
		panic(err)
	}
	total := rec.acc
	ks := bigKs(rec.lens, total)
	c.Stat("big_write_total", bucket(total>>20)+" MiB")
	for _, kind := range honestKinds {
		for i := 0; i < len(ks); i += 32 {
			part := ks[i:min(i+32, len(ks))]
			out := c.Case(Direct, "faults.count", fmt.Sprintf("%s total=%d w=%s ks=%s", args, total, kind, ints(part)), true)
			if strings.HasPrefix(out, "bad") || strings.HasPrefix(out, "panic") || out == "timeout" {
				continue
			}
			for j := 0; j+3 <= len(out); j += 3 {
				c.Stat("big_count_predicate_"+kind, out[j:j+3])
			}
			if j := strings.IndexAny(out, "#t"); j >= 0 {
				c.Case(Direct, "faults.count", fmt.Sprintf("%s total=%d w=%s ks=%d", args, total, kind, part[j/3]), true)
			}
		}
	}
}

// bigCases: table sets with bodies of 1 MiB + 5, 2 MiB and 3 MiB - 1 bytes through header.Write
// (zero-filled: the line carries the lengths only), and a glyf font with an fpgm table > 1 MiB
// through the sfnt writers.
func bigCases(c *Ctx, variant int) {
	r := c.Rng
	sizes := [][]int{{1<<20 + 5, 2 << 20, 3<<20 - 1}, {3<<20 - 1, 1<<20 + 5}, {2 << 20, 54, 1<<20 + 1, 7}, {1 << 20, 1<<20 + 4}}[variant%4]
	names := []string{"bigA", "bigB", "bigC", "bigD"}
	if variant%2 == 1 {
		names = []string{"head", "glyf", "CFF ", "zzzz"}
	}
	tabs := map[string][]byte{}
	var parts []string
	for i, n := range sizes {
		tabs[names[i]] = make([]byte, n)
		parts = append(parts, fmt.Sprintf("%s:%d", hx([]byte(names[i])), n))
	}
	sort.Strings(parts)
	sc := header.ScalerTypeTrueType
	bigCountCases(c, fmt.Sprintf("scaler=%d tabs=%s", sc, strings.Join(parts, ",")), func(w io.Writer) error {
		_, err := header.Write(w, sc, tabs)
		return err
	})
	if variant == 0 { // a fixed, small number of large cases whatever the tier
		// tables just over 64 KiB through header.Write
		t64 := map[string][]byte{"big1": make([]byte, 1<<16+1), "big2": make([]byte, 70001+variant), "head": make([]byte, 54)}
		bigCountCases(c, fmt.Sprintf("scaler=%d tabs=%s:%d,%s:%d,%s:54", sc, hx([]byte("big1")), 1<<16+1, hx([]byte("big2")), 70001+variant,
			hx([]byte("head"))), func(w io.Writer) error {
			_, err := header.Write(w, sc, t64)
			return err
		})
		// a CFF font whose encoded size exceeds 64 KiB: (*cff.Font).Write directly, and the sfnt writers
		cspec := fmt.Sprintf("bigcff:%d:simple", r.Range(100, 120)+20*variant)
		cfont := getFont(cspec)
		bigCountCases(c, fmt.Sprintf("font=%s api=CFF", cspec), func(w io.Writer) error { return cfont.AsCFF().Write(w) })
		for _, api := range []string{"Write", "CFFPDF"} {
			api := api
			bigCountCases(c, fmt.Sprintf("font=%s api=%s", cspec, api), func(w io.Writer) error {
				_, err, _ := writeAPI(cfont, api, w)
				return err
			})
		}
		crec := &faultWriter{kind: "late", k: 1 << 60}
		if err := cfont.AsCFF().Write(crec); err != nil {
			panic(err)
		}
		c.Stat("big_cff_bytes", bucket(crec.acc))
		cks := bigKs(crec.lens, crec.acc)
		for _, kind := range honestKinds {
			c.Case(Verdict, "faults.cffwrite", fmt.Sprintf("font=%s lens=%s w=%s ks=%s", cspec, ints(crec.lens), kind, ints(cks)), true)
		}
		spec := fmt.Sprintf("big:%d:sub:%d:%d:go:goregular", Pick(r, []int{1<<20 + 5, 2 << 20, 3<<20 - 1}), r.Range(2, 5), r.Intn(1000000))
		font := getFont(spec)
		for _, api := range []string{"Write", "TTPDF"} {
			api := api
			bigCountCases(c, fmt.Sprintf("font=%s api=%s", spec, api), func(w io.Writer) error {
				_, err, _ := writeAPI(font, api, w)
				return err
			})
		}
	}
}

// parserCases: histories on parser.Parser over sources ending at every k.
func parserCases(c *Ctx, n int, hist int) {
	r := c.Rng
	seed := r.Intn(100000)
	c.Stat("parser_input_len", bucket(n))
	for h := 0; h < hist; h++ {
		var opsl []string
		nops := r.Range(3, 14)
		for j := 0; j < nops; j++ {
			switch r.Intn(12) {
			case 0, 1, 2:
				opsl = append(opsl, fmt.Sprintf("read:%d", r.Range(1, 4000)))
			case 3:
				opsl = append(opsl, fmt.Sprintf("read:%d", Pick(r, []int{0, 1, 1023, 1024, 1025, 2048, 2049, 3072})))
			case 4:
				opsl = append(opsl, fmt.Sprintf("seek:%d", r.Intn(n+3)))
			case 5:
				opsl = append(opsl, fmt.Sprintf("bytes:%d", Pick(r, []int{0, 1, 2, 100, 1023, 1024, r.Intn(1025)})))
			case 6:
				opsl = append(opsl, fmt.Sprintf("discard:%d", r.Intn(700)))
			case 7:
				opsl = append(opsl, "u16s")
			default:
				opsl = append(opsl, Pick(r, []string{"u8", "u16", "i16", "u32", "pos", "size", "u16s"}))
			}
		}
		if h%2 == 1 && n > 0 {
			// a history that stays inside the complete input: it completes when k is large enough, so
			// every result before the fault is compared with the complete input's
			opsl = opsl[:0]
			for j := 0; j < nops; j++ {
				size := Pick(r, []int{1, 2, 4, r.Range(1, 1024), r.Range(1025, 4000), r.Range(1, 4000)})
				size = min(size, n)
				pos := r.Intn(n - size + 1)
				opsl = append(opsl, fmt.Sprintf("seek:%d", pos))
				switch {
				case size == 1:
					opsl = append(opsl, "u8")
				case size == 2:
					opsl = append(opsl, Pick(r, []string{"u16", "i16"}))
				case size == 4:
					opsl = append(opsl, "u32")
				case size <= 1024 && r.Bool():
					opsl = append(opsl, fmt.Sprintf("bytes:%d", size))
				default:
					opsl = append(opsl, fmt.Sprintf("read:%d", size))
				}
				if r.Chance(1, 4) {
					opsl = append(opsl, Pick(r, []string{"pos", "size"}))
				}
			}
		}
		if h == 0 {
			// a bulk read of several chunks first: the fault falls after the first chunk for most k
			opsl = append([]string{fmt.Sprintf("read:%d", min(n, r.Range(2100, 4000)))}, opsl...)
		}
		var chunks []int
		switch r.Intn(3) {
		case 1:
			chunks = []int{Pick(r, []int{7, 100, 1023})} // one byte at a time is C17's business (costly in the model)
		case 2:
			for j := r.Range(2, 5); j > 0; j-- {
				chunks = append(chunks, Pick(r, []int{2, 3, 100, 1023, 1024, r.Range(5, 1200)}))
			}
		}
		for _, op := range opsl {
			c.Stat("parser_ops", strings.SplitN(op, ":", 2)[0])
		}
		for _, kind := range []string{"eof", "fault"} {
			for a := 0; a <= n; a += 64 {
				args := fmt.Sprintf("inseed=%d len=%d kind=%s chunks=%s ops=%s ks=%d-%d", seed, n, kind, ints(chunks),
					strings.Join(opsl, ";"), a, min(a+63, n))
				c.Case(Verdict, "faults.pops", args, true)
				out := c.Case(Direct, "faults.pneed", args, true)
				for _, h := range strings.Split(out, "|") {
					if strings.HasSuffix(h, "ERR") {
						c.Stat("parser_history_"+kind, "ends in error")
					} else {
						c.Stat("parser_history_"+kind, "complete")
					}
				}
			}
		}
	}
}

// cffReadCases: cff.Read on CFF data cut at every k and through a source failing at every k.
func cffReadCases(c *Ctx, spec string) {
	data := getCFF(spec)
	c.Stat("cff_data_bytes", bucket(len(data)))
	if strings.Contains(spec, "+idx") {
		c.Stat("cff_last_section", "large INDEX")
	} else {
		c.Stat("cff_last_section", "empty INDEX")
	}
	for _, mode := range []string{"trunc", "fault"} {
		for _, ks := range blocks(0, len(data)) {
			out := c.Case(Direct, "faults.cffread", fmt.Sprintf("cff=%s len=%d mode=%s ks=%s", spec, len(data), mode, ks), true)
			var a int
			fmt.Sscan(ks, &a)
			if i := strings.IndexAny(out, "AP"); i >= 0 && a+i < len(data) && len(out) <= faultBlock {
				c.Case(Direct, "faults.cffread", fmt.Sprintf("cff=%s len=%d mode=%s ks=%d", spec, len(data), mode, a+i), true)
			}
			countVerdicts(c, "cff.Read_"+mode, out)
		}
	}
}

// ---------------------------------------------------------------- table decoders on failing sources

// tableSrc is a source over one table that fails with a non-EOF error from offset k on:
//
//	"next"   delivers data[pos:k] and fails on the following call: (0, err)
//	"nerr"   delivers the last bytes before k together with the error: (n > 0, err)
//	"strict" fails a Read whose range reaches k as a whole, delivering nothing
//
// hit records whether the error was ever handed to the decoder.
type tableSrc struct {
	data    []byte
	k       int
	variant string
	pos     int64
	hit     bool
}

func (r *tableSrc) Size() int64 { return int64(len(r.data)) }
func (r *tableSrc) Seek(off int64, whence int) (int64, error) {
	switch whence {
	case io.SeekCurrent:
		off += r.pos
	case io.SeekEnd:
		off += int64(len(r.data))
	}
	if off < 0 {
		return 0, errors.New("negative position")
	}
	r.pos = off
	return off, nil
}
func (r *tableSrc) Read(p []byte) (int, error) {
	if len(p) == 0 {
		return 0, nil
	}
	if r.pos >= int64(len(r.data)) && r.k >= len(r.data) {
		return 0, io.EOF
	}
	if r.pos >= int64(r.k) || (r.variant == "strict" && r.pos+int64(len(p)) > int64(r.k)) {
		r.hit = true
		return 0, errInjected
	}
	n := copy(p, r.data[r.pos:r.k])
	r.pos += int64(n)
	if r.variant == "nerr" && r.pos >= int64(r.k) {
		r.hit = true
		return n, errInjected
	}
	return n, nil
}

var decoders = map[string]func(r *tableSrc) error{
	"head": func(r *tableSrc) error { _, err := head.Read(onlyReader{r}); return err },
	"maxp": func(r *tableSrc) error { _, err := maxp.Read(onlyReader{r}); return err },
	"OS/2": func(r *tableSrc) error { _, err := os2.Read(onlyReader{r}); return err },
	"post": func(r *tableSrc) error { _, err := post.Read(r); return err },
	"kern": func(r *tableSrc) error { _, err := kern.Read(r); return err },
	"CFF ": func(r *tableSrc) error { _, err := cff.Read(r); return err },
	"GDEF": func(r *tableSrc) error { _, err := gdef.Read(r); return err },
	"GSUB": func(r *tableSrc) error { _, err := gtab.Read(r, gtab.TypeGsub); return err },
	"GPOS": func(r *tableSrc) error { _, err := gtab.Read(r, gtab.TypeGpos); return err },
}

var tableCache = map[string][]byte{}

// getTable: "<file spec>#<tag>" is that table of that corpus file; "syn:<tag>" a table encoded
// from a small value built here (kern, GDEF, GPOS: the Go fonts have none).
func getTable(spec string) (tag string, data []byte) {
	if strings.HasPrefix(spec, "syn:") {
		tag = spec[4:]
	} else {
		tag = spec[strings.LastIndexByte(spec, '#')+1:]
	}
	tag = strings.ReplaceAll(tag, "_", " ") // case lines are split at spaces: "CFF " is written CFF_
	fontMu.Lock()
	d, ok := tableCache[spec]
	fontMu.Unlock()
	if ok {
		return tag, d
	}
	if strings.HasPrefix(spec, "syn:") {
		pairs := kern.Info{}
		for i := 0; i < 40; i++ {
			pairs[glyph.Pair{Left: glyph.ID(1 + i%7), Right: glyph.ID(2 + i/7)}] = funit.Int16(10 * (i - 20))
		}
		switch tag {
		case "kern":
			d = pairs.Encode()
		case "GDEF":
			cls := classdef.Table{}
			for i := 1; i < 60; i++ {
				cls[glyph.ID(i*3)] = uint16(1 + i%3)
			}
			d = (&gdef.Table{GlyphClass: cls}).Encode()
		case "GPOS":
			// as sfnt.Read builds it from a kern table
			sub := gtab.Gpos2_1{}
			for pair, val := range pairs {
				sub[pair] = &gtab.PairAdjust{First: &gtab.GposValueRecord{XAdvance: val}}
			}
			info := &gtab.Info{
				ScriptList:  getFont("go:goregular").Gsub.ScriptList,
				FeatureList: []*gtab.Feature{{Tag: "kern", Lookups: []gtab.LookupIndex{0}}},
				LookupList: []*gtab.LookupTable{{Meta: &gtab.LookupMetaInfo{LookupType: 2},
					Subtables: []gtab.Subtable{sub}}},
			}
			d = info.Encode()
		default:
			panic("unknown synthetic table " + spec)
		}
	} else {
		i := strings.LastIndexByte(spec, '#')
		file := getFile(spec[:i])
		info, err := header.Read(bytes.NewReader(file))
		if err != nil {
			panic(err)
		}
		rec, ok := info.Toc[tag]
		if !ok {
			panic("no table " + spec)
		}
		d = file[rec.Offset : rec.Offset+rec.Length]
	}
	fontMu.Lock()
	tableCache[spec] = d
	fontMu.Unlock()
	return tag, d
}

// decoderVerdict: E the decoder returned an error; n it returned a value and never saw the
// injected error (the bytes from k on were not needed); A it returned a value although a read
// had failed; P panic.
func decoderVerdict(tag string, data []byte, k int, variant string) (v byte) {
	src := &tableSrc{data: data, k: k, variant: variant}
	defer func() {
		if rec := recover(); rec != nil {
			v = 'P'
		}
	}()
	err := decoders[tag](src)
	switch {
	case err != nil:
		return 'E'
	case src.hit:
		return 'A'
	}
	return 'n'
}

var decoderVariants = []string{"next", "nerr", "strict"}

func init() {
	// D: per k one character per variant: '.' the property holds (an error, or the failing part of
	// the source was never read), 'A' a value was returned although a read had failed, 'P' panic
	ops["faults.decoder"] = func(f Fields) string {
		tag, data := getTable(f["tab"])
		if len(data) != f.Int("len") {
			return fmt.Sprintf("bad-len:%d", len(data))
		}
		var sb strings.Builder
		for _, k := range parseKs(f) {
			for _, variant := range decoderVariants {
				v := decoderVerdict(tag, data, k, variant)
				if v == 'E' || v == 'n' {
					v = '.'
				}
				sb.WriteByte(v)
			}
		}
		return sb.String()
	}
}

// decoderCases: one table through its decoder, for every k < len and every failure variant.
func decoderCases(c *Ctx, spec string) {
	tag, data := getTable(spec)
	if len(data) == 0 {
		return
	}
	c.Stat("decoder_table_bytes", tag+":"+bucket(len(data)))
	for _, ks := range blocks(0, len(data)-1) {
		out := c.Case(Direct, "faults.decoder", fmt.Sprintf("tab=%s len=%d ks=%s", spec, len(data), ks), true)
		var a int
		fmt.Sscan(ks, &a)
		if i := strings.IndexAny(out, "AP"); i >= 0 && len(out) <= 3*faultBlock {
			c.Case(Direct, "faults.decoder", fmt.Sprintf("tab=%s len=%d ks=%d", spec, len(data), a+i/3), true)
		}
		for _, k := range parseKs(Fields{"ks": ks}) {
			for _, variant := range decoderVariants {
				switch decoderVerdict(tag, data, k, variant) {
				case 'E':
					c.Stat("decoder_"+tag, "error returned")
				case 'n':
					c.Stat("decoder_"+tag, "failing part not read, value returned")
				case 'A':
					c.Stat("decoder_"+tag, "VALUE RETURNED AFTER A FAILED READ")
				case 'P':
					c.Stat("decoder_"+tag, "PANIC")
				}
			}
		}
	}
}

// regionAt is a ReaderAt over data with an unreadable region [a, b): an access touching it
// delivers the bytes before a (if any) and a non-EOF error.  This goes beyond the property's
// quantifier (sources failing from an offset on) and is recorded as a diagnostic.
type regionAt struct {
	data []byte
	a, b int
	hit  bool
}

func (r *regionAt) ReadAt(p []byte, off int64) (int, error) {
	if off < int64(r.b) && off+int64(len(p)) > int64(r.a) && off < int64(len(r.data)) {
		r.hit = true
		n := 0
		if off < int64(r.a) {
			n = copy(p, r.data[off:r.a])
		}
		return n, errInjected
	}
	return bytes.NewReader(r.data).ReadAt(p, off)
}
func (r *regionAt) Read(p []byte) (int, error) { panic("Read called on a ReaderAt source") }

func init() {
	// G: per region '.' (sfnt.Read returned an error, or never touched the region), 'A' a font was
	// returned although an access had failed, 'P' panic
	ops["faults.region"] = func(f Fields) string {
		data := getFile(f["font"])
		var sb strings.Builder
		for _, reg := range f.List("regs", ",") {
			var a, b int
			fmt.Sscanf(reg, "%d:%d", &a, &b)
			src := &regionAt{data: data, a: a, b: b}
			v := readVerdict(src)
			switch {
			case v == 'A' && !src.hit, v == 'E':
				v = '.'
			}
			sb.WriteByte(v)
		}
		return sb.String()
	}
}

// regionCases: unreadable regions inside every table of a complete file.
func regionCases(c *Ctx, fspec string) {
	data := getFile(fspec)
	ents, _, _, _ := layoutOf(data)
	var regs []string
	for _, e := range ents {
		if e.len == 0 {
			continue
		}
		add := func(a, b int) { regs = append(regs, fmt.Sprintf("%d:%d", a, b)) }
		add(e.off, e.off+e.len)
		add(e.off, e.off+1)
		add(e.off+e.len-1, e.off+e.len)
		step := max(1, e.len/24)
		for j := 0; j < e.len; j += step {
			add(e.off+j, e.off+e.len) // the table unreadable from its byte j on
			add(e.off+j, e.off+j+1)
		}
	}
	for i := 0; i < len(regs); i += 128 {
		part := regs[i:min(i+128, len(regs))]
		out := c.Case(Diagnostic, "faults.region", fmt.Sprintf("font=%s regs=%s ks=0-%d", fspec, strings.Join(part, ","), len(part)-1), true)
		countVerdicts(c, "unreadable_region", out)
	}
}

// ---------------------------------------------------------------- generator

const faultBlock = 256

// blocks cuts 0..hi (inclusive) into ks=a-b ranges.
func blocks(lo, hi int) []string {
	var out []string
	for a := lo; a <= hi; a += faultBlock {
		out = append(out, fmt.Sprintf("%d-%d", a, min(a+faultBlock-1, hi)))
	}
	return out
}

// sampleKs: every chunk boundary of the file ±2, plus random points.
func sampleKs(r *Rng, ents []tocEnt, hdrLen, total, extra int) []string {
	set := map[int]bool{}
	add := func(k int) {
		for d := -2; d <= 2; d++ {
			if k+d >= 0 && k+d <= total+2 {
				set[k+d] = true
			}
		}
	}
	add(0)
	add(6)
	add(12)
	add(28)
	add(hdrLen)
	add(total)
	for _, e := range ents {
		add(e.off)
		add(e.off + e.len)
	}
	for i := 0; i < extra; i++ {
		set[r.Intn(total+1)] = true
	}
	ks := make([]int, 0, len(set))
	for k := range set {
		ks = append(ks, k)
	}
	sort.Ints(ks)
	var out []string
	for i := 0; i < len(ks); i += faultBlock {
		out = append(out, ints(ks[i:min(i+faultBlock, len(ks))]))
	}
	return out
}

var honestKinds = []string{"short", "atomic", "late"}

var faultTags = []string{"head", "hhea", "maxp", "OS/2", "hmtx", "cmap", "fpgm", "prep", "cvt ", "loca", "glyf", "kern",
	"name", "post", "gasp", "DSIG", "CFF ", "GSUB", "GPOS", "GDEF"}

// faultTag: a table name, half of the time one with a place in the writer's table order.
func faultTag(r *Rng) string {
	if r.Chance(1, 2) {
		return Pick(r, faultTags)
	}
	b := make([]byte, 4)
	for i := range b {
		b[i] = byte(r.Range(0x20, 0x7e))
	}
	return string(b)
}

func countVerdicts(c *Ctx, group, out string) {
	for _, ch := range out {
		c.Stat(group, string(ch))
	}
}

func countWrites(c *Ctx, group, out string) {
	for _, s := range strings.Split(out, ",") {
		switch {
		case strings.ContainsAny(s, "/~#"):
			c.Stat(group, "ANOMALY")
		case strings.HasSuffix(s, "!"):
			c.Stat(group, "error")
		default:
			c.Stat(group, "success")
		}
	}
}

// fileCases: truncation and source faults of one complete file, for every k in 0..len.
func fileCases(c *Ctx, fspec string, data []byte) {
	ents, _, hdrLen, lastEnd := layoutOf(data)
	total := len(data)
	c.Stat("file_scaler", string(hx(data[:4])))
	c.Stat("file_bytes", bucket(total))
	c.Stat("tables_per_file", bucket(len(ents)))
	c.Stat("trailing_padding", fmt.Sprint(total-lastEnd))
	trailingEmpty := 0
	for i := len(ents) - 1; i >= 0 && ents[i].len == 0; i-- {
		trailingEmpty++
	}
	c.Stat("trailing_empty_tables", fmt.Sprint(trailingEmpty))
	hdr := hx(data[:hdrLen])
	everyHread := len(ents) <= 70 // the model costs O(tables^2) per fault point: sample k for long directories
	if !everyHread {
		for _, ks := range sampleKs(c.Rng, ents, hdrLen, total, 100) {
			for _, mode := range []string{"trunc", "fault"} {
				out := c.Case(Verdict, "faults.hread", fmt.Sprintf("hdr=%s len=%d mode=%s ks=%s", hdr, total, mode, ks), true)
				countVerdicts(c, "header.Read_"+mode, out)
			}
		}
	}
	dks := blocks(0, total)
	if total > 40000 {
		// a large file: header.Read (V, above) is swept for every k; the complete sfnt.Read with its
		// sixteen kinds of sources (the streams copy k bytes each) at table boundaries and 3000 random k
		dks = sampleKs(c.Rng, ents, hdrLen, total, 3000)
		for _, ks := range blocks(0, total) {
			for _, mode := range []string{"trunc", "fault"} {
				if everyHread {
					out := c.Case(Verdict, "faults.hread", fmt.Sprintf("hdr=%s len=%d mode=%s ks=%s", hdr, total, mode, ks), true)
					countVerdicts(c, "header.Read_"+mode, out)
				}
			}
		}
		everyHread = false
		c.Stat("fault_points", "file_sampled_sfnt.Read:"+bucket(total))
	}
	for _, ks := range dks {
		for _, mode := range []string{"trunc", "fault"} {
			if !everyHread {
				break
			}
			out := c.Case(Verdict, "faults.hread", fmt.Sprintf("hdr=%s len=%d mode=%s ks=%s", hdr, total, mode, ks), true)
			countVerdicts(c, "header.Read_"+mode, out)
		}
		args := fmt.Sprintf("font=%s lastend=%d len=%d ks=%s", fspec, lastEnd, total, ks)
		out := c.Case(Direct, "faults.trunc", args, true)
		countVerdicts(c, "sfnt.Read_truncated", out)
		kl := parseKs(Fields{"ks": ks})
		if i := strings.IndexAny(out, "AP"); i >= 0 && len(out) == 7*len(kl) {
			c.Case(Direct, "faults.trunc", fmt.Sprintf("font=%s lastend=%d len=%d ks=%d", fspec, lastEnd, total, kl[i/7]), true)
		}
		out = c.Case(Direct, "faults.reader", args, true)
		countVerdicts(c, "sfnt.Read_failing_source", out)
		if i := strings.IndexAny(out, "AP"); i >= 0 && len(out) == 9*len(kl) {
			c.Case(Direct, "faults.reader", fmt.Sprintf("font=%s lastend=%d len=%d ks=%d", fspec, lastEnd, total, kl[i/9]), true)
		}
	}
	c.Stat("fault_points", "file:"+bucket(total))
	probe := 0 // header.Read probes the last byte of the last allocation, empty tables included
	for _, e := range ents {
		probe = max(probe, e.off+e.len)
	}
	out := c.Case(Diagnostic, "faults.tail", fmt.Sprintf("font=%s len=%d probe=%d ks=%d-%d", fspec, total, probe, lastEnd, total), true)
	countVerdicts(c, "tail_padding_points", out)
}

// fontCases: the sfnt writers of one font against every destination and every k (or a sample
// of k for large fonts), then the written file as a source.
func fontCases(c *Ctx, spec string, apis []string, everyK bool) {
	r := c.Rng
	font := getFont(spec)
	if font.IsCFF() {
		c.Stat("outlines", "CFF")
	} else {
		c.Stat("outlines", "glyf")
	}
	for _, api := range apis {
		fspec := spec + "|" + api
		data := getFile(fspec)
		ents, scaler, hdrLen, _ := layoutOf(data)
		total := len(data)
		sampled := sampleKs(r, ents, hdrLen, total, 300)
		c.Stat("writer_api", api)
		for _, kind := range append(honestKinds, "sloppy") {
			kss := sampled
			if everyK && kind != "sloppy" {
				kss = blocks(0, total+2)
				c.Stat("fault_points", "sfnt_writer_every_k:"+bucket(total))
			}
			for _, ks := range kss {
				out := c.Case(Verdict, "faults.write", fmt.Sprintf("font=%s api=%s scaler=%d tabs=%s w=%s ks=%s",
					spec, api, scaler, tabLensArg(ents), kind, ks), true)
				countWrites(c, "write_"+kind, out)
			}
		}
		if everyK {
			countCases(c, fmt.Sprintf("font=%s api=%s", spec, api), total, true)
		} else {
			countCases(c, fmt.Sprintf("scaler=%d tabs=%s", scaler, tabLensArg(ents)), total, true)
		}
		if !everyK {
			// every k at the level of header.Write, with zero-filled tables of the same lengths
			for _, kind := range honestKinds {
				for _, ks := range blocks(0, total+2) {
					out := c.Case(Verdict, "faults.write", fmt.Sprintf("scaler=%d tabs=%s w=%s ks=%s",
						scaler, tabLensArg(ents), kind, ks), true)
					countWrites(c, "write_"+kind, out)
				}
			}
		}
		fileCases(c, fspec, data)
	}
	if font.IsCFF() {
		rec := &faultWriter{kind: "late", k: 1 << 40}
		if err := font.AsCFF().Write(rec); err != nil {
			panic(err)
		}
		kinds := honestKinds
		if !everyK {
			kinds = []string{Pick(r, honestKinds)} // large font in the quick tier: one destination kind
		}
		for _, kind := range kinds {
			for _, ks := range blocks(0, rec.acc+2) {
				out := c.Case(Verdict, "faults.cffwrite", fmt.Sprintf("font=%s lens=%s w=%s ks=%s", spec, ints(rec.lens), kind, ks), true)
				for _, s := range strings.Split(out, ",") {
					c.Stat("cff_sections_"+kind, map[string]string{"!": "error", ".": "success"}[s])
				}
			}
		}
		c.Stat("cff_sections", bucket(len(rec.lens)))
		if everyK {
			countCases(c, fmt.Sprintf("font=%s api=CFF", spec), rec.acc, true)
		}
		cffReadCases(c, spec)
		cffReadCases(c, fmt.Sprintf("%s+idx:%d:%d", spec, r.Range(2, 6), r.Range(400, 900)))
	}
}

// synthCases: a random table set through header.Write: every destination, every k; then the
// written file as a source for header.Read.
func synthCases(c *Ctx, i int) {
	r := c.Rng
	n := Pick(r, []int{1, 2, 3, 4, 5, 8, 15, 16, 17, r.Range(1, 30)})
	tabs := map[string][]byte{}
	if r.Chance(2, 3) {
		tabs["head"] = make([]byte, Pick(r, []int{12, 54, 54, r.Range(12, 80)}))
	}
	for len(tabs) < n {
		t := faultTag(r)
		if t == "head" {
			continue
		}
		l := Pick(r, []int{0, 0, 1, 2, 3, 4, 5, 7, 8, r.Range(0, 64), r.Range(0, 64), r.Range(100, 600)})
		tabs[t] = make([]byte, l)
	}
	if i == 2 || i%5 == 0 {
		// skipped entries: nil data (1-3) and tags whose length is not 4 (1-2)
		for j := r.Range(1, 3); j > 0; j-- {
			tabs[faultTag(r)] = nil
		}
		for _, t := range []string{"abc", "abcde", ""}[:r.Range(1, 2)] {
			tabs[t] = make([]byte, r.Range(0, 9))
		}
		c.Stat("synthetic", "with skipped entries")
	}
	switch i % 7 {
	case 6, 1:
		tabs["zzzy"] = []byte{} // empty tables laid out last
		if i%2 == 0 {
			tabs["zzzz"] = []byte{}
		}
	case 3:
		tabs[faultTag(r)] = nil // not written
	case 4:
		tabs["abc"] = make([]byte, 5) // not written: name is not 4 bytes
	case 5:
		if i%14 == 5 {
			tabs["head"] = make([]byte, r.Range(0, 11)) // refused before anything is written
		}
	}
	sc := Pick(r, []uint32{header.ScalerTypeTrueType, header.ScalerTypeCFF, header.ScalerTypeApple})
	if i < 3 {
		sc = []uint32{header.ScalerTypeTrueType, header.ScalerTypeApple, header.ScalerTypeCFF}[i]
	}
	c.Stat("scaler", map[uint32]string{header.ScalerTypeTrueType: "0x00010000", header.ScalerTypeCFF: "OTTO", header.ScalerTypeApple: "true"}[sc])
	keys := make([]string, 0, len(tabs))
	for k := range tabs {
		keys = append(keys, k)
	}
	sort.Strings(keys)
	parts := make([]string, len(keys))
	for j, k := range keys {
		if tabs[k] == nil {
			parts[j] = hx([]byte(k)) + ":-"
		} else {
			parts[j] = fmt.Sprintf("%s:%d", hx([]byte(k)), len(tabs[k]))
		}
		c.Stat("synthetic_len_mod4", fmt.Sprint(len(tabs[k])%4))
	}
	var buf bytes.Buffer
	_, err := header.Write(&buf, sc, tabs)
	total := buf.Len()
	if err != nil {
		c.Stat("synthetic", "refused")
		total = 40
	} else {
		c.Stat("synthetic", "written")
	}
	c.Stat("synthetic_tables", bucket(n))
	for _, kind := range append(honestKinds, "sloppy") {
		for _, ks := range blocks(0, total+2) {
			out := c.Case(Verdict, "faults.write", fmt.Sprintf("scaler=%d tabs=%s w=%s ks=%s", sc, strings.Join(parts, ","), kind, ks), len(tabs) >= 2)
			countWrites(c, "write_"+kind, out)
		}
	}
	if err != nil {
		return
	}
	data := buf.Bytes()
	_, _, hdrLen, _ := layoutOf(data)
	countCases(c, fmt.Sprintf("scaler=%d tabs=%s", sc, strings.Join(parts, ",")), total, len(tabs) >= 2)
	c.Stat("fault_points", "synthetic:"+bucket(total))
	for _, ks := range blocks(0, total) {
		for _, mode := range []string{"trunc", "fault"} {
			out := c.Case(Verdict, "faults.hread", fmt.Sprintf("hdr=%s len=%d mode=%s ks=%s", hx(data[:hdrLen]), total, mode, ks), true)
			countVerdicts(c, "header.Read_"+mode, out)
		}
	}
	// damaged directory (outside the property's domain; ties the model of header.Read)
	for m := 0; m < 5; m++ {
		h := append([]byte{}, data[:hdrLen]...)
		switch (m + r.Intn(2)) % 5 {
		case 4: // at and above the limit on the number of tables
			n := 280 + r.Intn(2)
			h[4], h[5] = byte(n>>8), byte(n)
		case 0:
			h[r.Intn(len(h))] ^= byte(1 << r.Intn(8))
		case 1:
			p := 12 + 16*r.Intn(n) + 8 + r.Intn(8)
			if p < len(h) {
				h[p] = byte(r.U64())
			}
		case 2:
			h[5] = byte(r.Range(0, 40))
		case 3:
			p := 12 + 16*r.Intn(n) + 8
			if p+8 <= len(h) {
				// offset + length wraps around 2^32; with 0x10 the end is exactly 0 and the probe offset -1
				copy(h[p:], []byte{0xff, 0xff, 0xff, 0xf0, 0, 0, 0, byte(Pick(r, []int{0x10, 0x10, 0x11, r.Range(0x10, 0x40)}))})
			}
		}
		ks := sampleKs(r, nil, hdrLen, total, 40)
		for _, mode := range []string{"trunc", "fault"} {
			out := c.Case(Verdict, "faults.hread", fmt.Sprintf("hdr=%s len=%d mode=%s ks=%s", hx(h), total, mode, ks[0]), true)
			countVerdicts(c, "header.Read_damaged_"+mode, out)
		}
	}
}

// safely runs one part of the generator; if the library panics or refuses a corpus file while the
// cases are being built (a changed library may do that), a failing D line records it instead of
// the harness crashing: the Lean side answers "built".
func safely(c *Ctx, where string, f func()) {
	defer func() {
		if rec := recover(); rec != nil {
			msg := strings.Map(func(r rune) rune {
				if r == ' ' || r == '\t' || r == '\n' || r == '=' {
					return '_'
				}
				return r
			}, fmt.Sprint(rec))
			if len(msg) > 120 {
				msg = msg[:120]
			}
			c.Stat("generator", "PANIC while building "+where)
			c.Case(Direct, "faults.genpanic", fmt.Sprintf("where=%s msg=%s ks=0", where, msg), true)
		}
	}()
	f()
}

func init() {
	ops["faults.genpanic"] = func(f Fields) string { return "generator-panic:" + f["msg"] }
}

// areaFaults: c.N is the number of corpus fonts (6 quick, 40 thorough).
func areaFaults(c *Ctx) {
	r := c.Rng
	type job func()
	var jobs []job
	seed := func() uint64 { return r.U64() % 1000000 }
	// both outline kinds, all three writers, every k
	jobs = append(jobs,
		func() {
			fontCases(c, fmt.Sprintf("sub:%d:%d:simple", r.Range(2, 6), seed()), []string{"Write", "CFFPDF"}, true)
		},
		func() {
			fontCases(c, fmt.Sprintf("sub:%d:%d:go:goregular", r.Range(5, 12), seed()), []string{"Write", "TTPDF", "TTPDFnil"}, true)
		},
		func() { synthCases(c, 0) },
		func() { synthCases(c, 1) },
		func() { fontCases(c, "simple", []string{"Write", "CFFPDF"}, c.Tier == "thorough") },
		func() { synthCases(c, 2) },
		// files whose last table(s) by offset are empty, and one with padding after the last table
		func() {
			base := fmt.Sprintf("sub:%d:%d:go:goregular|Write", r.Range(3, 8), seed())
			c.Stat("outlines", "glyf")
			for _, m := range []string{"x,44534947.0", "x,7a7a7a7a." + fmt.Sprint(Pick(r, []int{1, 2, 3, 5, 6, 7}))} {
				fspec := "retab(" + m + ")" + base
				fileCases(c, fspec, getFile(fspec))
				// every scaler type header.Read supports: 0x00010000 above, OTTO in the CFF files, 'true' here
				c.Stat("scaler", "true")
				fileCases(c, "apple:"+fspec, getFile("apple:"+fspec))
			}
		},
		func() {
			base := fmt.Sprintf("sub:%d:%d:simple|Write", r.Range(2, 5), seed())
			c.Stat("outlines", "CFF")
			fspec := "retab(x,44534947.0,7a7a7a7a.0)" + base
			fileCases(c, fspec, getFile(fspec))
		},
	)
	if c.Tier == "thorough" {
		raws := []string{"raw:goregular", "apple:raw:gosmallcaps"}
		for _, name := range raws {
			name := name
			jobs = append(jobs, func() {
				c.Stat("outlines", "glyf")
				fileCases(c, name, getFile(name))
			})
		}
		// a complete large font through the writers: sampled k for the sfnt level, every k for header.Write
		jobs = append(jobs, func() {
			fontCases(c, "go:"+Pick(r, []string{"gobold", "goitalic", "gomedium", "gomonobold"}), []string{"Write"}, false)
		})
	}
	i := 3
	for len(jobs) < c.N {
		i++
		switch i % 4 {
		case 0:
			base := "go:" + Pick(r, []string{"goregular", "gomono", "goitalic", "gosmallcaps"})
			spec := fmt.Sprintf("sub:%d:%d:%s", r.Range(2, 30), seed(), base)
			apis := []string{Pick(r, []string{"Write", "TTPDF", "TTPDFnil"})}
			jobs = append(jobs, func() { fontCases(c, spec, apis, true) })
		case 1:
			spec := fmt.Sprintf("sub:%d:%d:simple", r.Range(1, 30), seed())
			apis := []string{Pick(r, []string{"Write", "CFFPDF"})}
			jobs = append(jobs, func() { fontCases(c, spec, apis, true) })
		default:
			j := i
			jobs = append(jobs, func() { synthCases(c, j) })
		}
	}
	for i, j := range jobs[:min(len(jobs), max(c.N, 1))] {
		safely(c, fmt.Sprintf("corpus-item-%d", i), j)
	}
	// long directories (the reader admits up to 280 tables)
	manyBase := fmt.Sprintf("sub:%d:%d:go:goregular|Write", r.Range(2, 4), r.Intn(1000000))
	for _, n := range []int{65, 100, 280} {
		fspec := fmt.Sprintf("retab(n%d)%s", n, manyBase)
		safely(c, fspec, func() {
			c.Stat("many_tables", fmt.Sprint(n))
			fileCases(c, fspec, getFile(fspec))
		})
	}
	// CID-keyed CFF fonts: 10 + (number of private DICTs) sections
	fds := []int{3}
	if c.Tier == "thorough" {
		fds = []int{3, 5, 16}
	}
	for _, n := range fds {
		spec := fmt.Sprintf("cid:%d:sub:%d:%d:simple", n, r.Range(2, 4)+n/4, r.Intn(1000000))
		safely(c, spec, func() { cidCases(c, spec) })
	}
	// the table decoders called directly on failing sources
	ttf := fmt.Sprintf("sub:%d:%d:go:goregular|Write", r.Range(20, 60), r.Intn(1000000))
	dspecs := []string{ttf + "#head", ttf + "#maxp", ttf + "#OS/2", ttf + "#post", "simple|Write#OS/2", "simple|Write#post",
		"simple|Write#maxp", "syn:kern", "syn:GDEF", "syn:GPOS", "go:goregular|Write#GSUB"}
	if c.Tier == "thorough" {
		dspecs = append(dspecs, "go:goregular|Write#post", "go:goregular|Write#OS/2", "go:gomono|Write#head", "simple|Write#CFF_",
			"raw:goregular#OS/2", "raw:goregular#post", "raw:goregular#head", "raw:goregular#maxp")
	}
	for _, sp := range dspecs {
		safely(c, "decoder:"+sp, func() { decoderCases(c, sp) })
	}
	safely(c, "region:"+ttf, func() { regionCases(c, ttf) })
	safely(c, "region:simple", func() { regionCases(c, "simple|Write") })
	// tables larger than 1 MiB
	safely(c, "big-0", func() { bigCases(c, 0) })
	if c.Tier == "thorough" {
		for v := 1; v < 4; v++ {
			safely(c, fmt.Sprintf("big-%d", v), func() { bigCases(c, v) })
		}
	}
	// the buffered parser on sources ending at every k
	plens := []int{r.Range(2100, 2600), r.Range(3100, 4200)}
	hist := 2
	if c.Tier == "thorough" {
		plens = []int{0, 1, 1023, 1024, 1025, 2048, 2049, r.Range(2100, 3000), r.Range(3000, 4200), 5000}
		hist = 4
	}
	for _, n := range plens {
		safely(c, fmt.Sprintf("parser-%d", n), func() { parserCases(c, n, hist) })
	}
}
