//go:build verif

// C02, group `namecff`: verdict stream for the checked-index Lean models of name.Decode,
// name.utf16Decode (Model/TotalName.lean) and cff readIndex (Model/TotalCffIndex.lean).
//
//	tmnamecff.name  bytes=<hex>          -> ok:<plat:tag:id=hex(utf8)>,… (sorted) | err | panic
//	tmnamecff.utf16 bytes=<hex>          -> ok:<hex(utf8)> | panic
//	tmnamecff.index bytes=<hex> pos=<n>  -> ok:<end>;<count>;<items> | err:eof | err:invalid | panic
//	tmnamecff.indexat bytes=<hex> pos=<int32> -> the same through readIndexAt, plus err:other (pos < 4)
package main

import (
	"errors"
	"fmt"
	"io"
	"sort"
	"strings"

	"seehuhn.de/go/sfnt/cff"
	"seehuhn.de/go/sfnt/name"
	"seehuhn.de/go/sfnt/parser"
)

func totalNamecffShowTables(plat int, tt name.Tables, out []string) []string {
	keys := make([]string, 0, len(tt))
	for k := range tt {
		keys = append(keys, k)
	}
	sort.Strings(keys)
	for _, k := range keys {
		t := tt[k]
		if t == nil {
			continue
		}
		ids := t.VerifKeys()
		sort.Slice(ids, func(i, j int) bool { return ids[i] < ids[j] })
		for _, id := range ids {
			out = append(out, fmt.Sprintf("%d:%s:%d=%s", plat, k, int(id), hx([]byte(t.VerifGet(id)))))
		}
	}
	return out
}

func totalNamecffName(b []byte) string {
	return totalCanonPanic(guard(func() string {
		info, err := name.Decode(b)
		if err != nil {
			return "err"
		}
		var parts []string
		parts = totalNamecffShowTables(1, info.Mac, parts)
		parts = totalNamecffShowTables(3, info.Windows, parts)
		return "ok:" + strings.Join(parts, ",")
	}))
}

func totalNamecffUtf16(b []byte) string {
	return totalCanonPanic(guard(func() string {
		return "ok:" + hx([]byte(name.VerifUtf16Decode(b)))
	}))
}

func totalNamecffShowItem(s []byte) string {
	if len(s) <= 16 {
		return hx(s)
	}
	return hx(s[:8]) + ".." + fmt.Sprint(len(s))
}

// totalNamecffIndexRaw also returns the parser position after a successful read.
func totalNamecffIndexRaw(b []byte, pos int) (string, int) {
	end := -1
	s := totalCanonPanic(guard(func() string {
		items, e, err := cff.VerifReadIndex(b, int64(pos))
		if err != nil {
			var e2 *parser.InvalidFontError
			if errors.As(err, &e2) {
				return "err:invalid"
			}
			return "err:eof"
		}
		end = int(e)
		parts := make([]string, len(items))
		for i, it := range items {
			parts[i] = totalNamecffShowItem(it)
		}
		return fmt.Sprintf("ok:%d;%d;", e, len(items)) + strings.Join(parts, ",")
	}))
	return s, end
}

// totalNamecffIndexAt runs the real readIndexAt (hook cff.VerifReadIndexAt).
func totalNamecffIndexAt(b []byte, pos int) string {
	return totalCanonPanic(guard(func() string {
		items, e, err := cff.VerifReadIndexAt(b, int32(pos))
		if err != nil {
			var e2 *parser.InvalidFontError
			switch {
			case errors.As(err, &e2):
				return "err:invalid"
			case errors.Is(err, io.ErrUnexpectedEOF), errors.Is(err, io.EOF):
				return "err:eof"
			}
			return "err:other"
		}
		parts := make([]string, len(items))
		for i, it := range items {
			parts[i] = totalNamecffShowItem(it)
		}
		return fmt.Sprintf("ok:%d;%d;", e, len(items)) + strings.Join(parts, ",")
	}))
}

// ---------------------------------------------------------------- generators

func totalNamecffLangs(m map[uint16]string) []int {
	var l []int
	for k, v := range m {
		if v != "" {
			l = append(l, int(k))
		}
	}
	sort.Ints(l)
	return l
}

var totalNamecffMs, totalNamecffApple []int

// totalNamecffGenStorage: string storage made of UTF-16 words (surrogates included), Mac Roman
// bytes and an optional odd byte.
func totalNamecffGenStorage(r *Rng) []byte {
	var s []byte
	for k := r.Intn(10); k > 0; k-- {
		w := Pick(r, []int{0x41, 0x42, 0xe9, 0x20ac, 0xd800, 0xdbff, 0xdc00, 0xdfff, 0xd83d, 0xde00, 0xfffd, 0xffff, 0, 0x7f, 0x80, 0x8182, r.Intn(65536)})
		s = append(s, totalBe16b(w)...)
	}
	if r.Chance(1, 3) {
		s = append(s, byte(r.U64()))
	}
	return s
}

// totalNamecffGenName: structured name table.
func totalNamecffGenName(r *Rng) ([]byte, string) {
	how := "valid-shape"
	version := Pick(r, []int{0, 0, 0, 0, 1, 1, 2, 0xffff})
	numRec := Pick(r, []int{0, 1, 1, 2, 3, 5, 8})
	storage := totalNamecffGenStorage(r)
	numLang := 0
	if version == 1 {
		numLang = r.Intn(3)
	}
	eoh := 6 + 12*numRec
	if version == 1 {
		eoh += 2 + 4*numLang
	}
	type rec struct{ p, e, l, id, ln, off int }
	var recs []rec
	for i := 0; i < numRec; i++ {
		var q rec
		q.p = Pick(r, []int{3, 3, 3, 1, 1, 0, 2, 4})
		switch q.p {
		case 3:
			q.e = Pick(r, []int{1, 1, 1, 10, 0, 2})
			q.l = Pick(r, totalNamecffMs)
			if r.Chance(1, 6) {
				q.l = Pick(r, []int{0, 1, 0xffff, 0x7c00, r.Intn(65536)})
			} else if r.Chance(1, 2) {
				q.l = 0x409
			}
		case 1:
			q.e = Pick(r, []int{0, 0, 0, 1, 25})
			q.l = Pick(r, totalNamecffApple)
			if r.Chance(1, 6) {
				q.l = Pick(r, []int{0xffff, 200, 151, r.Intn(65536)})
			}
		default:
			q.e = r.Intn(4)
			q.l = Pick(r, []int{0, 0x409, 1})
		}
		q.id = Pick(r, []int{0, 1, 2, 4, 6, 14, 15, 16, 25, 26, 255, 256, 65535, r.Intn(30)})
		if len(recs) > 0 && r.Chance(1, 4) { // aliased record: same bytes as an earlier one
			o := recs[r.Intn(len(recs))]
			q.off, q.ln = o.off, o.ln
			if r.Bool() {
				q.id = o.id
			}
		} else {
			q.off = r.Intn(len(storage) + 1)
			q.ln = r.Intn(len(storage) - q.off + 1)
			switch r.Intn(12) {
			case 0: // ends exactly at the end of the data
				q.ln = len(storage) - q.off
			case 1: // one beyond
				q.ln = len(storage) - q.off + 1
				how = "rec-beyond-1"
			case 2:
				q.off, q.ln = len(storage), 0
			case 3:
				q.off, q.ln = len(storage)+1, 0
				how = "rec-beyond-1"
			case 4:
				q.ln = 0xffff
				how = "rec-len-max"
			case 5:
				q.ln |= 1 // odd length
				if q.off+q.ln > len(storage) {
					q.ln = len(storage) - q.off
				}
			}
		}
		recs = append(recs, q)
	}
	so := eoh
	total := eoh + len(storage)
	switch r.Intn(14) {
	case 0:
		so = eoh - 1
		how = "so<eoh"
	case 1:
		so = total
		how = "so=len"
	case 2:
		so = total + 1
		how = "so>len"
	case 3:
		so = 0
		how = "so<eoh"
	case 4:
		so = eoh + r.Intn(len(storage)+1)
	}
	declared := numRec
	if r.Chance(1, 10) {
		declared = numRec + Pick(r, []int{1, -1, 100, 0xffff - numRec})
		if declared < 0 {
			declared = 0
		}
		how = "numRec-off"
	}
	b := totalBe16b(version)
	b = append(b, totalBe16b(declared)...)
	b = append(b, totalBe16b(so)...)
	for _, q := range recs {
		for _, v := range []int{q.p, q.e, q.l, q.id, q.ln, q.off} {
			b = append(b, totalBe16b(v)...)
		}
	}
	if version == 1 {
		nl := numLang
		if r.Chance(1, 8) {
			nl = Pick(r, []int{numLang + 1, 0xffff, 0x4000})
			how = "numLang-off"
		}
		b = append(b, totalBe16b(nl)...)
		for i := 0; i < numLang; i++ {
			b = append(b, totalBe16b(2)...)
			b = append(b, totalBe16b(0)...)
		}
	}
	b = append(b, storage...)
	return b, how
}

// totalNamecffGenIndex: structured CFF INDEX preceded by `pos` bytes.
func totalNamecffGenIndex(r *Rng) ([]byte, int, string) {
	how := "valid-shape"
	pos := Pick(r, []int{0, 0, 4, 1, r.Intn(8)})
	b := r.Bytes(pos)
	count := Pick(r, []int{0, 1, 1, 2, 3, 5})
	offSize := Pick(r, []int{1, 1, 1, 1, 2, 3, 4, 4, 0, 5, 8, 255})
	if offSize == 0 || offSize > 4 {
		how = "offSize-bad"
	}
	declared := count
	if r.Chance(1, 12) {
		declared = Pick(r, []int{0xffff, count + 1, 0x100})
		how = "count-off"
	}
	b = append(b, totalBe16b(declared)...)
	if count == 0 && declared == 0 {
		if r.Chance(1, 3) {
			b = append(b, r.Bytes(r.Intn(4))...)
		}
		return b, pos, "count0"
	}
	b = append(b, byte(offSize))
	offs := []int{1}
	var data []byte
	for i := 0; i < count; i++ {
		n := Pick(r, []int{0, 0, 1, 2, 3, 5, 20})
		data = append(data, r.Bytes(n)...)
		offs = append(offs, offs[len(offs)-1]+n)
	}
	switch r.Intn(12) {
	case 0:
		offs[0] = Pick(r, []int{0, 2})
		how = "first-offset"
	case 1:
		if count >= 2 { // decreasing
			offs[1], offs[2] = offs[2], offs[1]
			how = "decreasing"
		}
	case 2:
		offs[count]++
		how = "last+1"
	case 3:
		offs[count] = Pick(r, []int{0xff, 0xffff, 0xffffff, 0x7fffffff, 0xffffffff})
		how = "last-huge"
	}
	for _, o := range offs {
		for j := offSize - 1; j >= 0; j-- {
			if j >= 8 {
				b = append(b, byte(r.U64())) // bytes shifted out of the uint32
			} else {
				b = append(b, byte(uint64(o)>>(8*uint(j))))
			}
		}
	}
	b = append(b, data...)
	switch r.Intn(8) {
	case 0:
		if len(b) > 0 {
			b = b[:len(b)-1]
			how = "data-1"
		}
	case 1, 2: // trailing bytes (p.Size() is the whole input)
		b = append(b, r.Bytes(r.Range(1, 6))...)
	}
	return b, pos, how
}

func totalNamecffCls(out string) string {
	if i := strings.Index(out, ":"); i >= 0 && !strings.HasPrefix(out, "err") {
		return out[:i]
	}
	return out
}

func init() {
	ops["tmnamecff.name"] = func(f Fields) string { return totalNamecffName(f.Hex("bytes")) }
	ops["tmnamecff.utf16"] = func(f Fields) string { return totalNamecffUtf16(f.Hex("bytes")) }
	ops["tmnamecff.index"] = func(f Fields) string {
		s, _ := totalNamecffIndexRaw(f.Hex("bytes"), f.Int("pos"))
		return s
	}

	ops["tmnamecff.indexat"] = func(f Fields) string { return totalNamecffIndexAt(f.Hex("bytes"), f.Int("pos")) }

	totalModelGens["namecff"] = func(c *Ctx, r *Rng, seeds []totalSeed) {
		totalNamecffMs = totalNamecffLangs(name.VerifMsBCP())
		totalNamecffApple = totalNamecffLangs(name.VerifAppleBCP())
		budget := c.N / 3
		if budget < 30 {
			budget = 30
		}

		nameCase := func(how string, b []byte) {
			if len(b) > 20000 {
				return
			}
			out := c.Case(Verdict, "tmnamecff.name", "bytes="+hx(b), len(b) >= 6)
			c.Stat("tmnamecff:name", totalNamecffCls(out))
			c.Stat("tmnamecff:name-how", how+" -> "+totalNamecffCls(out))
		}
		utfCase := func(how string, b []byte) {
			out := c.Case(Verdict, "tmnamecff.utf16", "bytes="+hx(b), len(b) >= 2)
			c.Stat("tmnamecff:utf16", totalNamecffCls(out))
			c.Stat("tmnamecff:utf16-how", how)
		}
		indexCase := func(how string, b []byte, pos int) int {
			if len(b) > 20000 {
				return -1
			}
			out := c.Case(Verdict, "tmnamecff.index", fmt.Sprintf("bytes=%s pos=%d", hx(b), pos), len(b) >= 3)
			c.Stat("tmnamecff:index", totalNamecffCls(out))
			c.Stat("tmnamecff:index-how", how+" -> "+totalNamecffCls(out))
			_, end := totalNamecffIndexRaw(b, pos)
			return end
		}

		// ---- name.Decode
		var nameSeeds [][]byte
		for _, s := range seeds {
			if s.dec == "name" && len(s.bytes) <= 20000 {
				nameSeeds = append(nameSeeds, s.bytes)
				nameCase("seed", s.bytes)
			}
		}
		// fixed boundary cases: empty table, the aliasing witness (scaled down), version 1
		nameCase("fixed", []byte{0, 0, 0, 0, 0, 6})
		nameCase("fixed", []byte{0, 0, 0, 0, 0, 7})
		nameCase("fixed", []byte{0, 1, 0, 0, 0, 8, 0, 0})
		nameCase("fixed", []byte{0, 1, 0, 0, 0, 8, 0})
		nameCase("fixed", []byte{0, 1, 0, 0, 0, 12, 0, 1, 0, 0, 0, 0})
		for _, nl := range [][2]int{{1, 2}, {3, 8}, {4, 7}, {20, 64}} {
			n, l := nl[0], nl[1]
			b := []byte{0, 0}
			b = append(b, totalBe16b(n)...)
			b = append(b, totalBe16b(6+12*n)...)
			for i := 0; i < n; i++ {
				b = append(b, 0, 3, 0, 1, 4, 9, 0, 1)
				b = append(b, totalBe16b(l)...)
				b = append(b, 0, 0)
			}
			for i := 0; i < l; i++ {
				b = append(b, 0x41)
			}
			nameCase("aliased-witness", b)
		}
		trunc := 0
		for i := 0; i < budget; i++ {
			switch {
			case i%10 < 6:
				b, how := totalNamecffGenName(r)
				nameCase("gen:"+how, b)
				if len(b) <= 60 && trunc < budget/6 {
					for n := 0; n < len(b); n++ {
						nameCase("truncate-every", b[:n])
						trunc++
					}
				}
			case i%10 < 8:
				var b []byte
				var how string
				if len(nameSeeds) > 0 && r.Bool() {
					b, how = totalMutate(r, Pick(r, nameSeeds))
				} else {
					b, _ = totalNamecffGenName(r)
					b, how = totalMutate(r, b)
				}
				nameCase("mut:"+how, b)
			case i%10 == 8:
				b, _ := totalNamecffGenName(r)
				b, _ = totalMutate(r, b)
				b, how := totalMutate(r, b)
				nameCase("mut2:"+how, b)
			default:
				b := r.Bytes(r.Intn(40))
				if len(b) >= 6 && r.Bool() { // plausible header on random bytes
					b[0], b[1], b[2] = 0, byte(r.Intn(2)), 0
					b[3] = byte(r.Intn(3))
					b[4] = 0
				}
				nameCase("random", b)
			}
		}

		// ---- utf16Decode
		for _, b := range [][]byte{{}, {0x41}, {0, 0x41}, {0, 0x41, 0}, {0xd8, 0x3d, 0xde, 0x00}, {0xd8, 0x3d}, {0xde, 0x00},
			{0xd8, 0x3d, 0xde}, {0xde, 0x00, 0xd8, 0x3d}, {0xd8, 0x00, 0xd8, 0x00, 0xdc, 0x00}, {0xdb, 0xff, 0xdf, 0xff}, {0xff, 0xff, 0xff, 0xfe}} {
			utfCase("fixed", b)
		}
		for i := 0; i < budget/2; i++ {
			switch i % 3 {
			case 0, 1:
				utfCase("gen", totalNamecffGenStorage(r))
			default:
				utfCase("random", r.Bytes(r.Intn(24)))
			}
		}

		// ---- readIndex
		var idxSeeds [][2]any
		for _, s := range seeds {
			if s.dec != "cff" || len(s.bytes) < 4 || len(s.bytes) > 20000 {
				continue
			}
			pos := int(s.bytes[2]) // hdrSize: Name INDEX, Top DICT INDEX, String INDEX, Global Subr INDEX follow
			for k := 0; k < 4 && pos >= 0; k++ {
				idxSeeds = append(idxSeeds, [2]any{s.bytes, pos})
				pos = indexCase("seed", s.bytes, pos)
			}
		}
		for _, fx := range []struct {
			b   []byte
			pos int
		}{
			{[]byte{0, 0}, 0}, {[]byte{0}, 0}, {[]byte{}, 0}, {[]byte{0, 0}, 1}, {[]byte{0, 0}, 2}, {[]byte{0, 0}, 3},
			{[]byte{0, 1, 1, 1, 1}, 0}, {[]byte{0, 1, 1, 1, 2, 7}, 0}, {[]byte{0, 1, 1, 1, 2}, 0}, {[]byte{0, 1, 1, 1, 2, 7, 9}, 0},
			{[]byte{0, 1, 0, 1, 1}, 0}, {[]byte{0, 1, 5, 9, 0, 0, 0, 1, 9, 0, 0, 0, 2, 7}, 0},
			{[]byte{0xff, 0xff, 1, 1, 1, 1}, 0}, {[]byte{0, 2, 1, 1, 3, 2, 7, 7}, 0}, {[]byte{0, 1, 1, 1, 6, 1, 2, 3, 4}, 0},
			{[]byte{0, 1, 1, 1, 6, 1, 2, 3, 4, 5}, 0}, {[]byte{0, 1, 1, 1, 6, 1, 2, 3, 4, 5, 6}, 0},
		} {
			indexCase("fixed", fx.b, fx.pos)
		}
		trunc = 0
		for i := 0; i < budget; i++ {
			switch {
			case i%10 < 6:
				b, pos, how := totalNamecffGenIndex(r)
				indexCase("gen:"+how, b, pos)
				if len(b) <= 40 && trunc < budget/6 {
					for n := 0; n < len(b); n++ {
						indexCase("truncate-every", b[:n], pos)
						trunc++
					}
				}
				if r.Chance(1, 10) {
					indexCase("pos-beyond", b, len(b)+r.Intn(3))
				}
			case i%10 < 9:
				var b []byte
				var pos int
				if len(idxSeeds) > 0 && r.Chance(1, 3) {
					s := Pick(r, idxSeeds)
					b, pos = s[0].([]byte), s[1].(int)
					if len(b) > 3000 {
						b, pos = totalNamecffGenIndex2(r)
					}
				} else {
					b, pos = totalNamecffGenIndex2(r)
				}
				b, how := totalMutate(r, b)
				indexCase("mut:"+how, b, pos)
			default:
				b := r.Bytes(r.Intn(24))
				if len(b) >= 3 && r.Bool() {
					b[0], b[1], b[2] = 0, byte(r.Intn(4)), byte(r.Range(1, 4))
				}
				indexCase("random", b, r.Intn(3))
			}
		}

		// ---- readIndexAt: signed int32 positions
		atCase := func(how string, b []byte, pos int) {
			if len(b) > 20000 {
				return
			}
			out := c.Case(Verdict, "tmnamecff.indexat", fmt.Sprintf("bytes=%s pos=%d", hx(b), pos), len(b) >= 3)
			c.Stat("tmnamecff:indexat", totalNamecffCls(out))
			c.Stat("tmnamecff:indexat-how", how+" -> "+totalNamecffCls(out))
		}
		// an INDEX behind a prefix of at least 4 bytes, so that its own position is admissible
		atGen := func() ([]byte, int) {
			b, pos, _ := totalNamecffGenIndex(r)
			if pos < 4 {
				b = append(r.Bytes(4-pos), b...)
				pos = 4
			}
			return b, pos
		}
		posFor := func(b []byte, good int) (int, string) {
			switch r.Intn(16) {
			case 0:
				return -1 - r.Intn(5), "negative"
			case 1:
				return Pick(r, []int{-2147483648, 2147483647, -2147483647, 2147483646, 0x7fff0000}), "int32-extreme"
			case 2:
				return r.Intn(4), "0..3"
			case 3:
				return 4, "4"
			case 4:
				return len(b) - 1, "len-1"
			case 5:
				return len(b), "len"
			case 6:
				return len(b) + r.Range(1, 5), "len+k"
			case 7:
				return len(b) - 2, "len-2"
			case 8:
				return good + Pick(r, []int{-1, 1, 2}), "good±"
			}
			return good, "good"
		}
		for _, fx := range []struct {
			b   []byte
			pos int
		}{
			{[]byte{9, 9, 9, 9, 0, 0}, 4}, {[]byte{9, 9, 9, 9, 0, 0}, 3}, {[]byte{9, 9, 9, 0, 0}, 3}, {[]byte{0, 0}, 0},
			{[]byte{9, 9, 9, 9, 0, 1, 1, 1, 2, 7}, 4}, {[]byte{9, 9, 9, 9, 0, 1, 1, 1, 2, 7}, -1}, {[]byte{9, 9, 9, 9, 0, 1, 1, 1, 2, 7}, 5},
			{[]byte{9, 9, 9, 9, 0, 1, 1, 1, 2, 7}, 10}, {[]byte{9, 9, 9, 9, 0, 1, 1, 1, 2, 7}, 11}, {[]byte{9, 9, 9, 9, 0, 1, 1, 1, 2, 7}, 9},
			{[]byte{9, 9, 9, 9, 0, 1, 1, 1, 2, 7}, 2147483647}, {[]byte{9, 9, 9, 9, 0, 1, 1, 1, 2, 7}, -2147483648}, {[]byte{}, 4}, {[]byte{}, 0},
		} {
			atCase("fixed", fx.b, fx.pos)
		}
		for _, s := range idxSeeds { // hdrSize of the cff seeds and the INDEXes that follow
			atCase("seed", s[0].([]byte), s[1].(int))
		}
		for i := 0; i < c.N/6; i++ {
			switch {
			case i%10 < 6:
				b, good := atGen()
				pos, how := posFor(b, good)
				atCase("gen:"+how, b, pos)
			case i%10 < 9:
				var b []byte
				var good int
				if len(idxSeeds) > 0 && r.Chance(1, 3) {
					s := Pick(r, idxSeeds)
					b, good = s[0].([]byte), s[1].(int)
					if len(b) > 3000 {
						b, good = atGen()
					}
				} else {
					b, good = atGen()
				}
				b, _ = totalMutate(r, b)
				pos, how := posFor(b, good)
				atCase("mut:"+how, b, pos)
			default:
				b := r.Bytes(r.Intn(24))
				pos, how := posFor(b, 4)
				atCase("random:"+how, b, pos)
			}
		}
	}
}

func totalNamecffGenIndex2(r *Rng) ([]byte, int) {
	b, pos, _ := totalNamecffGenIndex(r)
	return b, pos
}
