package main

// Facts for C15 (area `layout`): default feature sets (opentype/gtab/featurelist.go), the
// coverage-bit masks of kern.Read (kern/kern.go), the ligature list of standardLigatures
// (ligatures.go) and the language-system records synthesised for `liga` (ligatures.go) and
// `kern` (read.go).

import (
	"fmt"
	"go/ast"
	"go/token"
	"strconv"
	"strings"
)

func init() { gens = append(gens, genLayout) }

// langSysLit finds the first composite literal of type gtab.Features ("{Required: .., Optional: ..}"
// as a value of a map literal with key type language.Tag) inside fn and returns Required (0 when the
// field is absent: Go zero value) and the Optional indices.
func langSysLit(rel, fn string) (req string, opt []string, found bool) {
	fd := funcDecl(rel, fn)
	if fd == nil {
		return "0", nil, false
	}
	ast.Inspect(fd.Body, func(n ast.Node) bool {
		if found {
			return false
		}
		cl, ok := n.(*ast.CompositeLit)
		if !ok || !strings.Contains(src(cl.Type), "language.Tag") {
			return true
		}
		for _, el := range cl.Elts {
			kv, ok := el.(*ast.KeyValueExpr)
			if !ok {
				continue
			}
			v, ok := kv.Value.(*ast.CompositeLit)
			if !ok {
				continue
			}
			req = "0"
			for _, fe := range v.Elts {
				f, ok := fe.(*ast.KeyValueExpr)
				if !ok {
					continue
				}
				switch src(f.Key) {
				case "Required":
					x, ok := evalConst(f.Value)
					if !ok {
						fail("%s: %s: Required is not a literal", rel, fn)
					}
					req = x
				case "Optional":
					if ol, ok := f.Value.(*ast.CompositeLit); ok {
						for _, oe := range ol.Elts {
							x, ok := evalConst(oe)
							if !ok {
								fail("%s: %s: Optional entry is not a literal", rel, fn)
							}
							opt = append(opt, x)
						}
					}
				}
			}
			found = true
			return false
		}
		return true
	})
	if !found {
		fail("%s: %s: no language-system literal found", rel, fn)
	}
	return
}

func genLayout() {
	l := newLean("Layout")

	for _, name := range []string{"GsubDefaultFeatures", "GposDefaultFeatures"} {
		m := mapLit("opentype/gtab/featurelist.go", name)
		lean := strings.ToLower(name[:1]) + name[1:]
		l.p("/-- opentype/gtab/featurelist.go: %s -/\ndef %s : List (String × Bool) := [", name, lean)
		var keys []string
		for i, e := range m {
			if i > 0 {
				l.p(", ")
			}
			if e.v != "true" && e.v != "false" {
				fail("featurelist.go: %s[%s] is not a boolean literal", name, e.k)
			}
			l.p("(%s, %s)", leanStr(e.k), e.v)
			k, _ := strconv.Unquote(e.k)
			keys = append(keys, k)
		}
		l.p("]\n\n")
		facts["layout."+name] = keys
	}

	// kern/kern.go: binary literals of Read in source order: applicability mask, minimum, override
	var bins []string
	var minLen []string
	if fd := funcDecl("kern/kern.go", "Read"); fd != nil {
		ast.Inspect(fd.Body, func(n ast.Node) bool {
			if bl, ok := n.(*ast.BasicLit); ok && bl.Kind == token.INT && strings.HasPrefix(bl.Value, "0b") {
				v, _ := evalConst(bl)
				bins = append(bins, v)
			}
			if be, ok := n.(*ast.BinaryExpr); ok && be.Op == token.LSS && src(be.X) == "length" {
				v, ok := evalConst(be.Y)
				if ok {
					minLen = append(minLen, v)
				}
			}
			return true
		})
	}
	if len(bins) != 3 || len(minLen) != 1 {
		fail("kern/kern.go: Read: expected 3 binary masks and one length bound, got %v %v", bins, minLen)
		bins, minLen = []string{"0", "0", "0"}, []string{"0"}
	}
	l.p("/-- kern/kern.go Read: `flags&kernMaskApplicable != 1` skips the subtable -/\ndef kernMaskApplicable : Nat := %s\n", bins[0])
	l.p("/-- kern/kern.go Read: minimum bit -/\ndef kernMaskMinimum : Nat := %s\n", bins[1])
	l.p("/-- kern/kern.go Read: override bit -/\ndef kernMaskOverride : Nat := %s\n", bins[2])
	l.p("/-- kern/kern.go Read: `length < kernMinLength` is refused -/\ndef kernMinLength : Nat := %s\n\n", minLen[0])
	facts["layout.kernMasks"] = bins
	facts["layout.kernMinLength"] = minLen[0]

	// ligatures.go: all := []string{...}: ligature character followed by its components
	var ligs []string
	if fd := funcDecl("ligatures.go", "standardLigatures"); fd != nil {
		ast.Inspect(fd.Body, func(n ast.Node) bool {
			as, ok := n.(*ast.AssignStmt)
			if !ok || len(as.Lhs) != 1 || src(as.Lhs[0]) != "all" {
				return true
			}
			if cl, ok := as.Rhs[0].(*ast.CompositeLit); ok {
				for _, e := range cl.Elts {
					s, err := strconv.Unquote(src(e))
					if err != nil {
						fail("ligatures.go: all: %v", err)
					}
					ligs = append(ligs, s)
				}
			}
			return false
		})
	}
	if len(ligs) == 0 {
		fail("ligatures.go: standardLigatures: list `all` not found")
	}
	l.p("/-- ligatures.go standardLigatures: `all`, each entry = ligature character followed by the\ncharacters it replaces (code points), in the order of the source -/\ndef stdLigatures : List (List Nat) := [")
	for i, s := range ligs {
		if i > 0 {
			l.p(", ")
		}
		l.p("[")
		for j, r := range []rune(s) {
			if j > 0 {
				l.p(", ")
			}
			l.p("%d", r)
		}
		l.p("]")
	}
	l.p("]\n\n")
	facts["layout.stdLigatures"] = ligs

	req, opt, _ := langSysLit("ligatures.go", "standardLigatures")
	l.p("/-- ligatures.go: language system of the synthesised GSUB table: Required -/\ndef ligaRequired : Nat := %s\n", req)
	l.p("/-- ligatures.go: language system of the synthesised GSUB table: Optional -/\ndef ligaOptional : List Nat := [%s]\n", strings.Join(opt, ", "))
	facts["layout.ligaLangSys"] = fmt.Sprint(req, opt)
	req, opt, _ = langSysLit("read.go", "Read")
	l.p("/-- read.go: language system of the GPOS table made from `kern`: Required -/\ndef kernRequired : Nat := %s\n", req)
	l.p("/-- read.go: language system of the GPOS table made from `kern`: Optional -/\ndef kernOptional : List Nat := [%s]\n", strings.Join(opt, ", "))
	facts["layout.kernLangSys"] = fmt.Sprint(req, opt)
	l.write()
}
