package main

// Facts for C12 (metrics/header tables): the constants the Lean model of the head/hhea
// codecs is stated over, re-read from the Go source on every run.

func init() { gens = append(gens, genMetrics) }

func genMetrics() {
	l := newLean("Metrics")
	zt := constNat("head/time.go", "zeroTime")
	hl := constNat("head/head.go", "headLength")
	hh := constNat("hmtx/hmtx.go", "hheaLength")
	facts["metrics.zeroTime"] = zt
	facts["metrics.headLength"] = hl
	facts["metrics.hheaLength"] = hh
	l.p("/-- head/time.go: const zeroTime (Unix time of 1904-01-01T00:00:00Z) -/\ndef metricsZeroTime : Int := %s\n\n", zt)
	l.p("/-- head/head.go: const headLength -/\ndef metricsHeadLength : Nat := %s\n\n", hl)
	l.p("/-- hmtx/hmtx.go: const hheaLength -/\ndef metricsHheaLength : Nat := %s\n", hh)
	// integer literals of the flag/style packing in head.Encode (order of appearance)
	lits := intLitsIn("head/head.go", "Info.Encode")
	facts["metrics.headEncodeLits"] = lits
	l.write()
}
