package main

// Facts for C16 (area `conc`): a syntactic inventory, over every non-test file of /repo, of
//
//	(a) writes to package-level variables outside `init` functions and variable initialisers
//	    (assignment, `++`, element/field/map writes, append/copy/delete/clear on them, `&v`,
//	    method calls on them), per package, with positions;
//	(b) methods on the types that make up the `*sfnt.Font` object graph (closure over field
//	    types; interface fields are closed over every library type having all the interface's
//	    method names) which write through their receiver (lazily initialised fields, caches);
//	(c) every use of package `sync`, every `go` statement and every channel `make`;
//
// and, for (a)/(b), the subset whose enclosing function is reachable from the read-only
// operations named in the property through a name-based (over-approximating) call graph.
// go/ast only (identifier resolution by the parser's file scopes), no type checking.

import (
	"fmt"
	"go/ast"
	"go/token"
	"os"
	"path/filepath"
	"sort"
	"strings"
)

func init() { gens = append(gens, genConc) }

const concModule = "seehuhn.de/go/sfnt"

type concFile struct {
	rel     string
	f       *ast.File
	imports map[string]string // local name -> package dir ("" = root), only packages of this module
}

type concPkg struct {
	dir      string
	name     string
	files    []*concFile
	vars     map[string]bool
	topSpecs map[any]bool // top-level *ast.ValueSpec (var) declarations
	types    map[string]*ast.TypeSpec
	typeFile map[string]*concFile
	methods  map[string]map[string]bool // type -> method names
}

type concFunc struct {
	pkg     *concPkg
	file    *concFile
	key     string // pkgdir.Type.Method or pkgdir.Func ; pkgdir "" printed as "sfnt"
	name    string // bare function or method name
	recv    string // receiver type name or ""
	decl    *ast.FuncDecl
	body    ast.Node
	recvObj *ast.Object
	ptrRecv bool
}

type concWrite struct {
	Pkg, Var, Func, Kind, Pos, Expr string
}

func concPkgLabel(dir string) string {
	if dir == "" {
		return "sfnt"
	}
	return dir
}

func concIsLib(p *concPkg) bool {
	return p.name != "main" && !strings.HasPrefix(p.dir, "examples")
}

func concLoad() map[string]*concPkg {
	pkgs := map[string]*concPkg{}
	_ = filepath.Walk(repo, func(path string, info os.FileInfo, err error) error {
		if err != nil {
			return nil
		}
		base := filepath.Base(path)
		if info.IsDir() {
			if path != repo && (strings.HasPrefix(base, ".") || base == "testdata" || base == "vendor") {
				return filepath.SkipDir
			}
			return nil
		}
		if !strings.HasSuffix(base, ".go") || strings.HasSuffix(base, "_test.go") || strings.HasPrefix(base, "verif_export") {
			return nil
		}
		rel, _ := filepath.Rel(repo, path)
		f := file(rel)
		if f.Name == nil {
			return nil
		}
		// skip files excluded from the normal build (//go:build ignore, verif, …)
		for _, cg := range f.Comments {
			if cg.Pos() > f.Package {
				break
			}
			for _, c := range cg.List {
				if strings.HasPrefix(c.Text, "//go:build") && (strings.Contains(c.Text, "ignore") || strings.Contains(c.Text, "verif")) {
					return nil
				}
			}
		}
		dir := filepath.Dir(rel)
		if dir == "." {
			dir = ""
		}
		p := pkgs[dir]
		if p == nil {
			p = &concPkg{dir: dir, name: f.Name.Name, vars: map[string]bool{}, topSpecs: map[any]bool{},
				types: map[string]*ast.TypeSpec{}, typeFile: map[string]*concFile{}, methods: map[string]map[string]bool{}}
			pkgs[dir] = p
		}
		cf := &concFile{rel: rel, f: f, imports: map[string]string{}}
		for _, im := range f.Imports {
			ip := strings.Trim(im.Path.Value, `"`)
			if ip != concModule && !strings.HasPrefix(ip, concModule+"/") {
				continue
			}
			d := strings.TrimPrefix(strings.TrimPrefix(ip, concModule), "/")
			nm := filepath.Base(ip)
			if ip == concModule {
				nm = "sfnt"
			}
			if im.Name != nil {
				nm = im.Name.Name
			}
			cf.imports[nm] = d
		}
		p.files = append(p.files, cf)
		for _, d := range f.Decls {
			switch d := d.(type) {
			case *ast.GenDecl:
				for _, s := range d.Specs {
					switch s := s.(type) {
					case *ast.ValueSpec:
						if d.Tok == token.VAR {
							p.topSpecs[s] = true
							for _, n := range s.Names {
								if n.Name != "_" {
									p.vars[n.Name] = true
								}
							}
						}
					case *ast.TypeSpec:
						p.types[s.Name.Name] = s
						p.typeFile[s.Name.Name] = cf
					}
				}
			case *ast.FuncDecl:
				if d.Recv != nil && len(d.Recv.List) == 1 {
					tn := concRecvType(d.Recv.List[0].Type)
					if p.methods[tn] == nil {
						p.methods[tn] = map[string]bool{}
					}
					p.methods[tn][d.Name.Name] = true
				}
			}
		}
		return nil
	})
	return pkgs
}

func concRecvType(t ast.Expr) string {
	for {
		switch x := t.(type) {
		case *ast.StarExpr:
			t = x.X
		case *ast.ParenExpr:
			t = x.X
		case *ast.IndexExpr:
			t = x.X
		case *ast.IndexListExpr:
			t = x.X
		case *ast.Ident:
			return x.Name
		default:
			return "?"
		}
	}
}

// concRoot strips selectors, indexing, slicing, dereferences and parentheses.
// It returns the root identifier, the first selector applied to it (if the first step is a
// selection) and whether any step was stripped.
func concRoot(e ast.Expr) (root *ast.Ident, firstSel *ast.Ident, stripped bool) {
	var chain []ast.Expr
	for {
		chain = append(chain, e)
		switch x := e.(type) {
		case *ast.ParenExpr:
			e = x.X
		case *ast.SelectorExpr:
			e = x.X
		case *ast.IndexExpr:
			e = x.X
		case *ast.SliceExpr:
			e = x.X
		case *ast.StarExpr:
			e = x.X
		case *ast.TypeAssertExpr:
			e = x.X
		case *ast.Ident:
			root = x
			// first non-paren step above the root
			for i := len(chain) - 2; i >= 0; i-- {
				if _, ok := chain[i].(*ast.ParenExpr); ok {
					continue
				}
				stripped = true
				if s, ok := chain[i].(*ast.SelectorExpr); ok {
					firstSel = s.Sel
				}
				break
			}
			return
		default:
			return nil, nil, true
		}
	}
}

type concScan struct {
	pkgs     map[string]*concPkg
	globalW  []concWrite // (a)
	recvW    []concWrite // (b) before filtering to shared types
	syncUses []concWrite // (c)
	funcs    []*concFunc
	calls    map[string]map[string]bool // func key -> callee names ("pkgdir.Name" exact or "*.Name" any method)
}

func (s *concScan) pos(n ast.Node) string {
	p := fset.Position(n.Pos())
	rel, _ := filepath.Rel(repo, p.Filename)
	return fmt.Sprintf("%s:%d", rel, p.Line)
}

// varRef reports which package-level variable (pkgdir, name) the root of an expression is.
func (s *concScan) varRef(fn *concFunc, root, firstSel *ast.Ident) (string, string, bool) {
	if root == nil || root.Name == "_" {
		return "", "", false
	}
	if root.Obj != nil {
		if root.Obj.Kind == ast.Var && fn.pkg.topSpecs[root.Obj.Decl] {
			return fn.pkg.dir, root.Name, true
		}
		return "", "", false
	}
	if fn.pkg.vars[root.Name] {
		return fn.pkg.dir, root.Name, true
	}
	if d, ok := fn.file.imports[root.Name]; ok && firstSel != nil {
		if q := s.pkgs[d]; q != nil && q.vars[firstSel.Name] {
			return d, firstSel.Name, true
		}
	}
	return "", "", false
}

func (s *concScan) note(fn *concFunc, e ast.Expr, kind string, at ast.Node) {
	root, firstSel, stripped := concRoot(e)
	if root == nil {
		return
	}
	if d, v, ok := s.varRef(fn, root, firstSel); ok {
		k := kind
		// `pkg.Var` written as a whole from another package is still a plain assignment
		whole := !stripped
		if _, imp := fn.file.imports[root.Name]; imp && root.Obj == nil && !fn.pkg.vars[root.Name] {
			if se, ok := e.(*ast.SelectorExpr); ok && se.Sel == firstSel {
				whole = true
			}
		}
		if kind == "assign" && !whole {
			k = "elem"
		}
		s.globalW = append(s.globalW, concWrite{Pkg: concPkgLabel(d), Var: v, Func: fn.key, Kind: k, Pos: s.pos(at), Expr: src(e)})
		return
	}
	if fn.recvObj != nil && root.Obj == fn.recvObj {
		if !stripped {
			return // rebinding the receiver variable itself is local
		}
		if kind == "call" {
			return
		}
		s.recvW = append(s.recvW, concWrite{Pkg: concPkgLabel(fn.pkg.dir), Var: fn.recv, Func: fn.key, Kind: kind, Pos: s.pos(at), Expr: src(e)})
	}
}

func (s *concScan) scanBody(fn *concFunc) {
	calls := map[string]bool{}
	s.calls[fn.key] = calls
	ast.Inspect(fn.body, func(n ast.Node) bool {
		switch x := n.(type) {
		case *ast.AssignStmt:
			if x.Tok != token.DEFINE {
				for _, l := range x.Lhs {
					s.note(fn, l, "assign", x)
				}
			}
		case *ast.IncDecStmt:
			s.note(fn, x.X, "incdec", x)
		case *ast.RangeStmt:
			if x.Tok == token.ASSIGN {
				if x.Key != nil {
					s.note(fn, x.Key, "assign", x)
				}
				if x.Value != nil {
					s.note(fn, x.Value, "assign", x)
				}
			}
		case *ast.UnaryExpr:
			if x.Op == token.AND {
				if _, isLit := x.X.(*ast.CompositeLit); !isLit {
					s.note(fn, x.X, "addr", x)
				}
			}
		case *ast.GoStmt:
			s.syncUses = append(s.syncUses, concWrite{Pkg: concPkgLabel(fn.pkg.dir), Func: fn.key, Kind: "go", Pos: s.pos(x), Expr: "go statement"})
		case *ast.SelectorExpr:
			if id, ok := x.X.(*ast.Ident); ok && id.Obj == nil && (id.Name == "sync" || id.Name == "atomic") {
				s.syncUses = append(s.syncUses, concWrite{Pkg: concPkgLabel(fn.pkg.dir), Func: fn.key, Kind: id.Name, Pos: s.pos(x), Expr: src(x)})
			}
		case *ast.CallExpr:
			switch f := x.Fun.(type) {
			case *ast.Ident:
				if f.Obj == nil && len(x.Args) > 0 {
					switch f.Name {
					case "append", "copy", "delete", "clear":
						s.note(fn, x.Args[0], f.Name, x)
					case "make":
						if _, ok := x.Args[0].(*ast.ChanType); ok {
							s.syncUses = append(s.syncUses, concWrite{Pkg: concPkgLabel(fn.pkg.dir), Func: fn.key, Kind: "chan", Pos: s.pos(x), Expr: src(x)})
						}
					}
				}
				calls[fn.pkg.dir+"."+f.Name] = true
			case *ast.SelectorExpr:
				if id, ok := f.X.(*ast.Ident); ok && id.Obj == nil {
					if d, imp := fn.file.imports[id.Name]; imp && !fn.pkg.vars[id.Name] {
						calls[d+"."+f.Sel.Name] = true
						// pkg.Var(...) – calling a function-valued variable is a read
						return true
					}
				}
				calls["*."+f.Sel.Name] = true
				// method call on (something rooted at) a package-level variable
				s.note(fn, f.X, "call", x)
			}
		}
		return true
	})
}

func (s *concScan) scan() {
	dirs := make([]string, 0, len(s.pkgs))
	for d := range s.pkgs {
		dirs = append(dirs, d)
	}
	sort.Strings(dirs)
	for _, d := range dirs {
		p := s.pkgs[d]
		sort.Slice(p.files, func(i, j int) bool { return p.files[i].rel < p.files[j].rel })
		for _, cf := range p.files {
			for _, decl := range cf.f.Decls {
				switch decl := decl.(type) {
				case *ast.FuncDecl:
					if decl.Body == nil {
						continue
					}
					fn := &concFunc{pkg: p, file: cf, name: decl.Name.Name, decl: decl, body: decl.Body}
					fn.key = concPkgLabel(p.dir) + "." + decl.Name.Name
					if decl.Recv != nil && len(decl.Recv.List) == 1 {
						r := decl.Recv.List[0]
						fn.recv = concRecvType(r.Type)
						_, fn.ptrRecv = r.Type.(*ast.StarExpr)
						fn.key = concPkgLabel(p.dir) + "." + fn.recv + "." + decl.Name.Name
						if len(r.Names) == 1 {
							fn.recvObj = r.Names[0].Obj
						}
					} else if decl.Name.Name == "init" {
						// package initialisation runs before any goroutine of the program can
						// use the package: excluded from (a), still scanned for (c)
						fn.key += "#init"
						save := len(s.globalW)
						s.scanBody(fn)
						s.globalW = s.globalW[:save]
						continue
					}
					s.funcs = append(s.funcs, fn)
					s.scanBody(fn)
				case *ast.GenDecl:
					if decl.Tok != token.VAR {
						continue
					}
					// function literals inside variable initialisers run when called, not at init
					for _, sp := range decl.Specs {
						vs := sp.(*ast.ValueSpec)
						for i, v := range vs.Values {
							nm := "_"
							if i < len(vs.Names) {
								nm = vs.Names[i].Name
							}
							ast.Inspect(v, func(n ast.Node) bool {
								if fl, ok := n.(*ast.FuncLit); ok {
									fn := &concFunc{pkg: p, file: cf, name: nm, body: fl.Body,
										key: concPkgLabel(p.dir) + "." + nm + "#funclit"}
									s.funcs = append(s.funcs, fn)
									s.scanBody(fn)
									return false
								}
								return true
							})
						}
					}
				}
			}
		}
	}
}

// ---- shared types: closure of the *sfnt.Font object graph ---------------------------------

type concTypeRef struct{ dir, name string }

func (s *concScan) sharedTypes() map[concTypeRef]bool {
	seen := map[concTypeRef]bool{}
	var visitExpr func(cf *concFile, p *concPkg, e ast.Expr)
	var visitType func(r concTypeRef)
	implementers := func(names []string) []concTypeRef {
		var out []concTypeRef
		for d, q := range s.pkgs {
			if !concIsLib(q) {
				continue
			}
			for tn, ms := range q.methods {
				all := true
				for _, n := range names {
					if !ms[n] {
						all = false
						break
					}
				}
				if all && q.types[tn] != nil {
					out = append(out, concTypeRef{d, tn})
				}
			}
		}
		return out
	}
	visitExpr = func(cf *concFile, p *concPkg, e ast.Expr) {
		switch x := e.(type) {
		case *ast.Ident:
			if p.types[x.Name] != nil {
				visitType(concTypeRef{p.dir, x.Name})
			}
		case *ast.SelectorExpr:
			if id, ok := x.X.(*ast.Ident); ok {
				if d, imp := cf.imports[id.Name]; imp {
					visitType(concTypeRef{d, x.Sel.Name})
				}
			}
		case *ast.StarExpr:
			visitExpr(cf, p, x.X)
		case *ast.ParenExpr:
			visitExpr(cf, p, x.X)
		case *ast.ArrayType:
			visitExpr(cf, p, x.Elt)
		case *ast.MapType:
			visitExpr(cf, p, x.Key)
			visitExpr(cf, p, x.Value)
		case *ast.StructType:
			for _, f := range x.Fields.List {
				visitExpr(cf, p, f.Type)
			}
		case *ast.InterfaceType:
			var names []string
			for _, m := range x.Methods.List {
				if _, isFn := m.Type.(*ast.FuncType); isFn {
					for _, n := range m.Names {
						names = append(names, n.Name)
					}
				} else {
					visitExpr(cf, p, m.Type) // embedded interface
				}
			}
			if len(names) > 0 {
				for _, r := range implementers(names) {
					visitType(r)
				}
			}
		case *ast.IndexExpr:
			visitExpr(cf, p, x.X)
			visitExpr(cf, p, x.Index)
		}
	}
	visitType = func(r concTypeRef) {
		if seen[r] {
			return
		}
		p := s.pkgs[r.dir]
		if p == nil || p.types[r.name] == nil {
			return
		}
		seen[r] = true
		visitExpr(p.typeFile[r.name], p, p.types[r.name].Type)
	}
	visitType(concTypeRef{"", "Font"})
	// cff.Font is built per call by AsCFF/makeCFF but shares FontInfo/Outlines with the font
	visitType(concTypeRef{"cff", "Font"})
	return seen
}

// ---- alias-then-write pattern -----------------------------------------------------------------
//
// Inside one function: a LOCAL variable bound (by :=, =, range, type switch, `v, ok := m[k]`) to an
// expression rooted at the receiver (of a font-graph type), at a parameter whose type mentions a
// font-graph type, at a package-level variable, or at another such local; and later an element,
// field or pointee write through that local (x[i] = …, x.f = …, *x = …, x[i]++, append/copy/
// delete/clear on it).  Direct writes through such a parameter are listed too (direct receiver
// writes are inventory (b)).  No flow analysis: a local that is rebound to fresh memory before the
// write is still reported (over-approximation, pinned by the committed expectation).

type concAliasKey struct {
	decl any
	name string
}

func (s *concScan) mentionsShared(cf *concFile, p *concPkg, e ast.Expr, ref map[concTypeRef]bool) bool {
	found := false
	ast.Inspect(e, func(n ast.Node) bool {
		switch x := n.(type) {
		case *ast.SelectorExpr:
			if id, ok := x.X.(*ast.Ident); ok {
				if d, imp := cf.imports[id.Name]; imp && ref[concTypeRef{d, x.Sel.Name}] {
					found = true
				}
			}
			return false
		case *ast.Ident:
			if p.types[x.Name] != nil && ref[concTypeRef{p.dir, x.Name}] {
				found = true
			}
		}
		return true
	})
	return found
}

func concStripAddr(e ast.Expr) ast.Expr {
	for {
		switch x := e.(type) {
		case *ast.ParenExpr:
			e = x.X
		case *ast.UnaryExpr:
			if x.Op != token.AND {
				return e
			}
			e = x.X
		default:
			return e
		}
	}
}

func (s *concScan) scanAliases(fn *concFunc, ref map[concTypeRef]bool) []concWrite {
	if fn.decl == nil {
		return nil
	}
	alias := map[concAliasKey]string{} // local -> what it was bound to
	params := map[*ast.Object]bool{}
	var recv *ast.Object
	if fn.recvObj != nil && ref[concTypeRef{fn.pkg.dir, fn.recv}] {
		recv = fn.recvObj
	}
	if fn.decl.Type.Params != nil {
		for _, f := range fn.decl.Type.Params.List {
			if s.mentionsShared(fn.file, fn.pkg, f.Type, ref) {
				for _, n := range f.Names {
					if n.Obj != nil {
						params[n.Obj] = true
					}
				}
			}
		}
	}
	isAlias := func(id *ast.Ident) bool {
		if id == nil || id.Obj == nil {
			return false
		}
		_, ok := alias[concAliasKey{id.Obj.Decl, id.Name}]
		return ok
	}
	rooted := func(e ast.Expr) bool { // does e denote (part of) possibly shared memory?
		root, firstSel, _ := concRoot(concStripAddr(e))
		if root == nil {
			return false
		}
		if root.Obj != nil && (root.Obj == recv || params[root.Obj]) {
			return true
		}
		if isAlias(root) {
			return true
		}
		_, _, ok := s.varRef(fn, root, firstSel)
		return ok
	}
	bind := func(lhs ast.Expr, rhs ast.Expr, decls ...any) bool {
		id, ok := lhs.(*ast.Ident)
		if !ok || id.Name == "_" || id.Obj == nil || id.Obj == recv || params[id.Obj] {
			return false
		}
		if fn.pkg.topSpecs[id.Obj.Decl] || !rooted(rhs) {
			return false
		}
		changed := false
		for _, d := range append(decls, id.Obj.Decl) {
			k := concAliasKey{d, id.Name}
			if _, ok := alias[k]; !ok {
				alias[k] = strings.Join(strings.Fields(src(rhs)), " ")
				changed = true
			}
		}
		return changed
	}
	for pass := 0; pass < 4; pass++ {
		changed := false
		ast.Inspect(fn.body, func(n ast.Node) bool {
			switch x := n.(type) {
			case *ast.AssignStmt:
				if len(x.Lhs) == len(x.Rhs) {
					for i := range x.Lhs {
						changed = bind(x.Lhs[i], x.Rhs[i]) || changed
					}
				} else if len(x.Rhs) == 1 && len(x.Lhs) == 2 {
					switch x.Rhs[0].(type) {
					case *ast.IndexExpr, *ast.TypeAssertExpr:
						changed = bind(x.Lhs[0], x.Rhs[0]) || changed
					}
				}
			case *ast.RangeStmt:
				if x.Value != nil && x.Tok == token.DEFINE {
					changed = bind(x.Value, x.X) || changed
				}
			case *ast.TypeSwitchStmt:
				if as, ok := x.Assign.(*ast.AssignStmt); ok && len(as.Lhs) == 1 && len(as.Rhs) == 1 {
					if id, ok := as.Lhs[0].(*ast.Ident); ok && rooted(as.Rhs[0]) {
						// the symbol is declared anew in every clause
						for _, cl := range x.Body.List {
							k := concAliasKey{cl, id.Name}
							if _, ok := alias[k]; !ok {
								alias[k] = strings.Join(strings.Fields(src(as.Rhs[0])), " ")
								changed = true
							}
						}
					}
				}
			}
			return true
		})
		if !changed {
			break
		}
	}
	var out []concWrite
	note := func(e ast.Expr, kind string, at ast.Node, needStep bool) {
		root, _, stripped := concRoot(e)
		if root == nil || root.Obj == nil || (needStep && !stripped) {
			return
		}
		via := ""
		switch {
		case isAlias(root):
			via = root.Name + " := " + alias[concAliasKey{root.Obj.Decl, root.Name}]
		case params[root.Obj]:
			via = "parameter " + root.Name
		default:
			return
		}
		out = append(out, concWrite{Pkg: concPkgLabel(fn.pkg.dir), Var: via, Func: fn.key, Kind: kind, Pos: s.pos(at),
			Expr: strings.Join(strings.Fields(src(e)), " ")})
	}
	ast.Inspect(fn.body, func(n ast.Node) bool {
		switch x := n.(type) {
		case *ast.AssignStmt:
			if x.Tok != token.DEFINE {
				for _, l := range x.Lhs {
					note(l, "assign", x, true)
				}
			}
		case *ast.IncDecStmt:
			note(x.X, "incdec", x, true)
		case *ast.RangeStmt:
			if x.Tok == token.ASSIGN {
				if x.Key != nil {
					note(x.Key, "assign", x, true)
				}
				if x.Value != nil {
					note(x.Value, "assign", x, true)
				}
			}
		case *ast.CallExpr:
			if f, ok := x.Fun.(*ast.Ident); ok && f.Obj == nil && len(x.Args) > 0 {
				switch f.Name {
				case "append", "copy", "delete", "clear":
					note(x.Args[0], f.Name, x, false)
				}
			}
		}
		return true
	})
	return out
}

// ---- name-based reachability ------------------------------------------------------------------

var concRoots = []string{
	"sfnt.Font.Write", "sfnt.Font.WriteTrueTypePDF", "sfnt.Font.WriteOpenTypeCFFPDF",
	"sfnt.Font.Subset", "sfnt.Font.Clone", "sfnt.Font.FontBBox", "sfnt.Font.FontBBoxPDF",
	"sfnt.Font.Widths", "sfnt.Font.WidthsPDF", "sfnt.Font.WidthsMapPDF",
	"sfnt.Font.GlyphWidth", "sfnt.Font.GlyphWidthPDF",
	"sfnt.Font.GlyphBBox", "sfnt.Font.GlyphBBoxes", "cff.Outlines.GlyphBBoxPDF", "glyf.Outlines.GlyphBBoxPDF",
	"sfnt.Font.MakeGlyphNames", "sfnt.Font.GlyphName", "sfnt.Font.GetFontInfo", "sfnt.Font.AsCFF",
	"sfnt.Font.NewLayouter", "sfnt.Layouter.Layout",
	"cff.Font.Write", "cff.Font.FontBBoxPDF",
	"opentype/gtab.NewContext", "opentype/gtab.Context.Apply", "opentype/gtab.Info.FindLookups",
	"opentype/gtab/builder.ExplainGsub", "opentype/gtab/builder.ExplainGpos",
}

func (s *concScan) reachable() map[string]bool {
	byExact := map[string][]*concFunc{} // "pkgdir.Name" (functions and func-valued vars)
	byMeth := map[string][]*concFunc{}  // method name -> all methods of library packages
	byKey := map[string]*concFunc{}
	for _, fn := range s.funcs {
		if !concIsLib(fn.pkg) {
			continue
		}
		byKey[fn.key] = fn
		if fn.recv == "" {
			byExact[fn.pkg.dir+"."+fn.name] = append(byExact[fn.pkg.dir+"."+fn.name], fn)
		} else {
			byMeth[fn.name] = append(byMeth[fn.name], fn)
		}
	}
	reach := map[string]bool{}
	var todo []*concFunc
	add := func(fn *concFunc) {
		if !reach[fn.key] {
			reach[fn.key] = true
			todo = append(todo, fn)
		}
	}
	for _, r := range concRoots {
		if fn := byKey[r]; fn != nil {
			add(fn)
		} else {
			fail("conc: read-only operation %s not found in the source", r)
		}
	}
	for len(todo) > 0 {
		fn := todo[len(todo)-1]
		todo = todo[:len(todo)-1]
		for c := range s.calls[fn.key] {
			if strings.HasPrefix(c, "*.") {
				for _, g := range byMeth[c[2:]] {
					add(g)
				}
				// a field or local of function type called through a selector is not resolved
			} else {
				for _, g := range byExact[c] {
					add(g)
				}
			}
		}
	}
	return reach
}

func concLeanList(l *leanFile, name, doc string, rows [][]string) {
	l.p("/-- %s -/\ndef %s : List (String × String) := [", doc, name)
	for i, r := range rows {
		if i > 0 {
			l.p(",")
		}
		l.p("\n  (%q, %q)", r[0], r[1])
	}
	l.p("]\n\n")
}

func concDedup(ws []concWrite, key func(concWrite) []string) [][]string {
	seen := map[string]bool{}
	var out [][]string
	for _, w := range ws {
		k := key(w)
		id := strings.Join(k, "\x00")
		if !seen[id] {
			seen[id] = true
			out = append(out, k)
		}
	}
	sort.Slice(out, func(i, j int) bool {
		if out[i][0] != out[j][0] {
			return out[i][0] < out[j][0]
		}
		return out[i][1] < out[j][1]
	})
	return out
}

func genConc() {
	s := &concScan{pkgs: concLoad(), calls: map[string]map[string]bool{}}
	s.scan()
	shared := s.sharedTypes()
	reach := s.reachable()

	lib := func(label string) bool {
		d := label
		if d == "sfnt" {
			d = ""
		}
		p := s.pkgs[d]
		return p != nil && concIsLib(p)
	}
	funcLib := func(w concWrite) bool {
		// the package of the function doing the write
		i := strings.Index(w.Func, ".")
		for j := range s.funcs {
			if s.funcs[j].key == w.Func {
				return concIsLib(s.funcs[j].pkg)
			}
		}
		return lib(w.Func[:i])
	}

	gLib, gReach, gOther := []concWrite{}, []concWrite{}, []concWrite{}
	for _, w := range s.globalW {
		switch {
		case !funcLib(w):
			gOther = append(gOther, w)
		default:
			gLib = append(gLib, w)
			if reach[w.Func] {
				gReach = append(gReach, w)
			}
		}
	}
	rShared, rReach := []concWrite{}, []concWrite{}
	perCall := map[string]bool{} // reachable receiver-writing types outside the font graph
	for _, w := range s.recvW {
		d := w.Pkg
		if d == "sfnt" {
			d = ""
		}
		if !shared[concTypeRef{d, w.Var}] {
			if reach[w.Func] && lib(w.Pkg) {
				perCall[w.Pkg+"."+w.Var] = true
			}
			continue
		}
		rShared = append(rShared, w)
		if reach[w.Func] {
			rReach = append(rReach, w)
		}
	}
	syncLib := []concWrite{}
	for _, w := range s.syncUses {
		if lib(w.Pkg) {
			syncLib = append(syncLib, w)
		}
	}

	facts["conc.globalWrites.library"] = gLib
	facts["conc.globalWrites.reachable"] = gReach
	facts["conc.globalWrites.examplesAndTools"] = gOther
	facts["conc.receiverWrites.sharedTypes"] = rShared
	facts["conc.receiverWrites.reachable"] = rReach
	facts["conc.syncGoChan.library"] = syncLib
	// font-graph types that can hold shared memory (named basic types like glyph.ID cannot)
	ref := map[concTypeRef]bool{}
	for r := range shared {
		if p := s.pkgs[r.dir]; p != nil && p.types[r.name] != nil {
			if _, basic := p.types[r.name].Type.(*ast.Ident); !basic {
				ref[r] = true
			}
		}
	}
	aliasAll, aliasReach := []concWrite{}, []concWrite{}
	for _, fn := range s.funcs {
		if !concIsLib(fn.pkg) {
			continue
		}
		ws := s.scanAliases(fn, ref)
		aliasAll = append(aliasAll, ws...)
		if reach[fn.key] {
			aliasReach = append(aliasReach, ws...)
		}
	}
	facts["conc.aliasWrites.library"] = aliasAll
	facts["conc.aliasWrites.reachable"] = aliasReach
	pc := []string{}
	for k := range perCall {
		pc = append(pc, k)
	}
	sort.Strings(pc)
	// informative: mutable helper types the listed operations use; each must be instantiated per
	// call (cffStrings with its lazy `rev` index, gtab.Context, Layouter, subsetter, encoders …)
	facts["conc.receiverWrites.reachable.perCallTypes"] = pc
	var st []string
	for r := range shared {
		st = append(st, concPkgLabel(r.dir)+"."+r.name)
	}
	sort.Strings(st)
	facts["conc.sharedTypes"] = st
	var rk []string
	for k := range reach {
		rk = append(rk, k)
	}
	sort.Strings(rk)
	facts["conc.reachable.count"] = len(rk)
	facts["conc.reachable"] = rk
	facts["conc.roots"] = concRoots

	l := newLean("Conc")
	l.p("/-! C16 inventories, regenerated from every non-test file of /repo by extract/gen_conc.go\n(go/ast, syntactic; positions are in facts.json, not here, so that moving code does not\nchange these lists). -/\n\n")
	l.p("/-- the read-only operations of C16 (roots of the reachability computation) -/\ndef concRoots : List String := [")
	for i, r := range concRoots {
		if i > 0 {
			l.p(", ")
		}
		l.p("%q", r)
	}
	l.p("]\n\n")
	kGlobal := func(w concWrite) []string { return []string{w.Pkg + "." + w.Var, w.Func + ":" + w.Kind} }
	kRecv := func(w concWrite) []string {
		return []string{w.Func, w.Kind + " " + strings.Join(strings.Fields(w.Expr), " ")}
	}
	kSync := func(w concWrite) []string { return []string{w.Func, w.Kind} }
	concLeanList(l, "concGlobalWrites",
		"(a) (package.variable, function:kind) for every write to / address-of / method call on a package-level variable outside `init` and variable initialisers, library packages",
		concDedup(gLib, kGlobal))
	concLeanList(l, "concGlobalWritesReachable",
		"(a') the entries of `concGlobalWrites` whose function is reachable (name-based call graph) from `concRoots`",
		concDedup(gReach, kGlobal))
	concLeanList(l, "concRecvWritesShared",
		"(b) (method, kind expr) for every method of a type in the *sfnt.Font object graph that writes through its receiver",
		concDedup(rShared, kRecv))
	concLeanList(l, "concRecvWritesReachable",
		"(b') the entries of `concRecvWritesShared` whose method is reachable from `concRoots`",
		concDedup(rReach, kRecv))
	concLeanList(l, "concSyncGoChan",
		"(c) (function, kind) for every use of package sync / atomic, every `go` statement and every channel make, library packages",
		concDedup(syncLib, kSync))
	concLeanList(l, "concAliasWritesReachable",
		"(d) alias-then-write: (function, kind target <- binding) for every write through a local bound to receiver/parameter/package-level rooted memory of a font-graph type (or directly through such a parameter), in functions reachable from `concRoots`; no flow analysis",
		concDedup(aliasReach, func(w concWrite) []string { return []string{w.Func, w.Kind + " " + w.Expr + " <- " + w.Var} }))
	l.p("/-- number of functions reachable from `concRoots` (diagnostic) -/\ndef concReachableCount : Nat := %d\n", len(rk))
	l.write()
}
