package main

// Facts for property C11 (glyf/loca): alignment, simple-glyph flag bits, component flag bits,
// and the short-loca threshold literal of encodeLoca.

func init() { gens = append(gens, genGlyf) }

func genGlyf() {
	l := newLean("Glyf")
	c := func(rel, goName string) {
		v := constNat(rel, goName)
		facts["glyf."+goName] = v
		l.p("/-- %s: const %s -/\ndef %s : Nat := %s\n", rel, goName, goName, v)
	}
	c("glyf/composite.go", "glyfAlign")
	for _, n := range []string{"flagOnCurve", "flagXShortVec", "flagYShortVec", "flagRepeat", "flagXSameOrPos", "flagYSameOrPos"} {
		c("glyf/simple.go", n)
	}
	for _, n := range []string{"FlagArg1And2AreWords", "FlagWeHaveAScale", "FlagMoreComponents",
		"FlagWeHaveAnXAndYScale", "FlagWeHaveATwoByTwo", "FlagWeHaveInstructions"} {
		c("glyf/composite.go", n)
	}
	// `if offs[len(offs)-1] <= 0xffff` — the first literal > 255 in encodeLoca
	thr := "0"
	for _, x := range intLitsIn("glyf/loca.go", "encodeLoca") {
		if len(x) > 3 && thr == "0" {
			thr = x
		}
	}
	if thr == "0" {
		fail("glyf/loca.go: short-format threshold literal not found in encodeLoca")
	}
	facts["glyf.locaShortMax"] = thr
	l.p("/-- glyf/loca.go: encodeLoca uses the short format iff the last offset is at most this -/\ndef locaShortMax : Nat := %s\n", thr)
	l.write()
}
