module verif/extract

go 1.23
