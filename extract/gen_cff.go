package main

import (
	"go/ast"
	"go/parser"
	"os"
	"path/filepath"
	"regexp"
	"sort"
	"strings"
)

// genCff regenerates the facts property C13 depends on: the 391 CFF standard strings
// (cff/strings.go), the DICT operator numbers and the set of string-valued operators
// (cff/dict.go), the size-class boundaries of the integer operand encoder.
func init() { gens = append(gens, genCff) }

func genCff() {
	l := newLean("Cff")
	std := mapLit("cff/strings.go", "stdStrings")
	facts["cff.nStdStrings"] = len(std)
	l.p("/-- cff/strings.go: stdStrings (Appendix A of TN5176) -/\ndef cffStdStrings : Array String := #[\n")
	for i, e := range std {
		sep := ","
		if i == 0 {
			sep = " "
		}
		l.p("  %s%s\n", sep, leanStr(e.v))
	}
	l.p("]\n\n")

	// DICT operators: every `opXxx dictOp = 0x....` constant
	ops := map[string]string{}
	for _, d := range file("cff/dict.go").Decls {
		gd, ok := d.(*ast.GenDecl)
		if !ok {
			continue
		}
		for _, s := range gd.Specs {
			vs, ok := s.(*ast.ValueSpec)
			if !ok || vs.Type == nil || src(vs.Type) != "dictOp" {
				continue
			}
			for i, n := range vs.Names {
				if i < len(vs.Values) {
					if v, ok := evalConst(vs.Values[i]); ok {
						ops[n.Name] = v
					}
				}
			}
		}
	}
	names := make([]string, 0, len(ops))
	for k := range ops {
		names = append(names, k)
	}
	sort.Strings(names)
	l.p("/-- cff/dict.go: dictOp constants -/\ndef cffDictOps : List (String × Nat) := [\n")
	for i, n := range names {
		sep := ","
		if i == 0 {
			sep = " "
		}
		l.p("  %s(\"%s\", %s)\n", sep, n, ops[n])
	}
	l.p("]\n\n")
	facts["cff.dictOps"] = ops

	// string-valued operators: the case list of dictOp.isString
	var strOps []string
	if fd := funcDecl("cff/dict.go", "dictOp.isString"); fd != nil {
		ast.Inspect(fd.Body, func(n ast.Node) bool {
			cc, ok := n.(*ast.CaseClause)
			if !ok || len(cc.List) == 0 {
				return true
			}
			for _, e := range cc.List {
				if v, ok := ops[src(e)]; ok {
					strOps = append(strOps, v)
				} else {
					fail("cff/dict.go: isString lists unknown operator %s", src(e))
				}
			}
			return false
		})
	}
	l.p("/-- cff/dict.go: operators listed in dictOp.isString -/\ndef cffStringOps : List Nat := [%s]\n\n", strings.Join(strOps, ", "))
	facts["cff.stringOps"] = strOps

	// integer literals of the int32 case of cffDict.encode (size-class boundaries)
	lits := intLitsIn("cff/dict.go", "cffDict.encode")
	facts["cff.encodeIntLits"] = lits
	l.p("/-- cff/dict.go: integer literals in cffDict.encode, in source order -/\ndef cffEncodeLits : List Nat := [%s]\n", strings.Join(lits, ", "))
	// predefined charsets (cff/charset.go) and the Expert encoding (cff/encoding.go)
	for _, name := range []string{"isoAdobeCharset", "expertCharset", "expertSubsetCharset"} {
		tab := mapLit("cff/charset.go", name)
		facts["cff."+name+".len"] = len(tab)
		l.p("\n/-- cff/charset.go: %s -/\ndef cff_%s : List String := [\n", name, name)
		for i, e := range tab {
			sep := ","
			if i == 0 {
				sep = " "
			}
			l.p("  %s%s\n", sep, leanStr(e.v))
		}
		l.p("]\n")
	}
	writeEnc := func(leanName, doc string, tab []kv) {
		sort.SliceStable(tab, func(i, j int) bool { return tab[i].k < tab[j].k })
		l.p("\n/-- %s (name, code), sorted by name -/\ndef %s : List (String × Nat) := [\n", doc, leanName)
		for i, e := range tab {
			sep := ","
			if i == 0 {
				sep = " "
			}
			l.p("  %s(%s, %s)\n", sep, leanStr(e.k), e.v)
		}
		l.p("]\n")
	}
	exp := mapLit("cff/encoding.go", "expertEnc")
	facts["cff.expertEnc.len"] = len(exp)
	writeEnc("cffExpertEnc", "cff/encoding.go: expertEnc", exp)

	// the Standard encoding lives in the pinned dependency seehuhn.de/go/postscript/psenc
	stdEnc := psencStandard()
	facts["cff.standardEncodingRev.len"] = len(stdEnc)
	writeEnc("cffStandardEncRev", "seehuhn.de/go/postscript/psenc (version pinned in go.mod): StandardEncodingRev", stdEnc)
	l.write()
}

// psencStandard reads StandardEncodingRev from the module cache, at the version go.mod pins.
func psencStandard() []kv {
	mod, err := os.ReadFile(filepath.Join(repo, "go.mod"))
	if err != nil {
		fail("go.mod: %v", err)
		return nil
	}
	m := regexp.MustCompile(`seehuhn\.de/go/postscript (v[^\s]+)`).FindSubmatch(mod)
	if m == nil {
		fail("go.mod: postscript module not found")
		return nil
	}
	cache := os.Getenv("GOMODCACHE")
	if cache == "" {
		home, _ := os.UserHomeDir()
		gopath := os.Getenv("GOPATH")
		if gopath == "" {
			gopath = filepath.Join(home, "go")
		}
		cache = filepath.Join(gopath, "pkg", "mod")
	}
	path := filepath.Join(cache, "seehuhn.de", "go", "postscript@"+string(m[1]), "psenc", "standard.go")
	f, err := parser.ParseFile(fset, path, nil, 0)
	if err != nil {
		fail("psenc: %v", err)
		return nil
	}
	var out []kv
	for _, d := range f.Decls {
		gd, ok := d.(*ast.GenDecl)
		if !ok {
			continue
		}
		for _, sp := range gd.Specs {
			vs, ok := sp.(*ast.ValueSpec)
			if !ok {
				continue
			}
			for i, n := range vs.Names {
				if n.Name != "StandardEncodingRev" || i >= len(vs.Values) {
					continue
				}
				cl, ok := vs.Values[i].(*ast.CompositeLit)
				if !ok {
					continue
				}
				for _, el := range cl.Elts {
					if p, ok := el.(*ast.KeyValueExpr); ok {
						out = append(out, kv{src(p.Key), src(p.Value)})
					}
				}
			}
		}
	}
	if len(out) == 0 {
		fail("psenc: StandardEncodingRev not found in %s", path)
	}
	return out
}
