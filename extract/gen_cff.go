package main

import (
	"go/ast"
	"sort"
	"strings"
)

// genCff regenerates the facts property C13 depends on: the 391 CFF standard strings
// (cff/strings.go), the DICT operator numbers and the set of string-valued operators
// (cff/dict.go), the size-class boundaries of the integer operand encoder.
func init() { gens = append(gens, genCff) }

func genCff() {
	l := newLean("Cff")
	std := mapLit("cff/strings.go", "stdStrings")
	facts["cff.nStdStrings"] = len(std)
	l.p("/-- cff/strings.go: stdStrings (Appendix A of TN5176) -/\ndef cffStdStrings : Array String := #[\n")
	for i, e := range std {
		sep := ","
		if i == 0 {
			sep = " "
		}
		l.p("  %s%s\n", sep, leanStr(e.v))
	}
	l.p("]\n\n")

	// DICT operators: every `opXxx dictOp = 0x....` constant
	ops := map[string]string{}
	for _, d := range file("cff/dict.go").Decls {
		gd, ok := d.(*ast.GenDecl)
		if !ok {
			continue
		}
		for _, s := range gd.Specs {
			vs, ok := s.(*ast.ValueSpec)
			if !ok || vs.Type == nil || src(vs.Type) != "dictOp" {
				continue
			}
			for i, n := range vs.Names {
				if i < len(vs.Values) {
					if v, ok := evalConst(vs.Values[i]); ok {
						ops[n.Name] = v
					}
				}
			}
		}
	}
	names := make([]string, 0, len(ops))
	for k := range ops {
		names = append(names, k)
	}
	sort.Strings(names)
	l.p("/-- cff/dict.go: dictOp constants -/\ndef cffDictOps : List (String × Nat) := [\n")
	for i, n := range names {
		sep := ","
		if i == 0 {
			sep = " "
		}
		l.p("  %s(\"%s\", %s)\n", sep, n, ops[n])
	}
	l.p("]\n\n")
	facts["cff.dictOps"] = ops

	// string-valued operators: the case list of dictOp.isString
	var strOps []string
	if fd := funcDecl("cff/dict.go", "dictOp.isString"); fd != nil {
		ast.Inspect(fd.Body, func(n ast.Node) bool {
			cc, ok := n.(*ast.CaseClause)
			if !ok || len(cc.List) == 0 {
				return true
			}
			for _, e := range cc.List {
				if v, ok := ops[src(e)]; ok {
					strOps = append(strOps, v)
				} else {
					fail("cff/dict.go: isString lists unknown operator %s", src(e))
				}
			}
			return false
		})
	}
	l.p("/-- cff/dict.go: operators listed in dictOp.isString -/\ndef cffStringOps : List Nat := [%s]\n\n", strings.Join(strOps, ", "))
	facts["cff.stringOps"] = strOps

	// integer literals of the int32 case of cffDict.encode (size-class boundaries)
	lits := intLitsIn("cff/dict.go", "cffDict.encode")
	facts["cff.encodeIntLits"] = lits
	l.p("/-- cff/dict.go: integer literals in cffDict.encode, in source order -/\ndef cffEncodeLits : List Nat := [%s]\n", strings.Join(lits, ", "))
	l.write()
}
