package main

// Facts for C18 (area `faults`): the limits and constants of header.Read, and the shape of the
// statements of header.Write's write loop that the model mirrors.

import (
	"go/ast"
	"go/token"
	"os"
	"path/filepath"
	"strconv"
	"strings"
)

func init() { gens = append(gens, genFaults) }

func genFaults() {
	l := newLean("Faults")

	// header/tables.go Read: `if numTables > 280`
	maxTables := ""
	if fd := funcDecl("header/tables.go", "Read"); fd != nil {
		ast.Inspect(fd.Body, func(n ast.Node) bool {
			be, ok := n.(*ast.BinaryExpr)
			if !ok || be.Op != token.GTR {
				return true
			}
			if id, ok := be.X.(*ast.Ident); ok && id.Name == "numTables" {
				if v, ok := evalConst(be.Y); ok {
					maxTables = v
				}
			}
			return true
		})
	}
	if maxTables == "" {
		fail("header/tables.go: Read: bound on numTables not found")
		maxTables = "0"
	}
	facts["header.maxTables"] = maxTables
	l.p("/-- header/tables.go Read: `numTables > N` is refused -/\ndef headerMaxTables : Nat := %s\n\n", maxTables)

	var scalers []string
	for _, name := range []string{"ScalerTypeTrueType", "ScalerTypeCFF", "ScalerTypeApple"} {
		scalers = append(scalers, constNat("header/tables.go", name))
	}
	facts["header.scalerTypes"] = scalers
	l.p("/-- header/tables.go: ScalerTypeTrueType, ScalerTypeCFF, ScalerTypeApple -/\ndef scalerTypes : List Nat := [%s]\n\n",
		strings.Join(scalers, ", "))

	// header/write.go Write: the statements of the write loop, in source order (the model
	// mirrors them: count accumulated from every result, return at the first error, padding
	// computed from the returned count)
	var loop []string
	if fd := funcDecl("header/write.go", "Write"); fd != nil {
		ast.Inspect(fd.Body, func(n ast.Node) bool {
			switch s := n.(type) {
			case *ast.AssignStmt:
				t := src(s)
				if strings.Contains(t, "w.Write(") || strings.HasPrefix(t, "totalSize +=") {
					loop = append(loop, t)
				}
			case *ast.IfStmt:
				if s.Init != nil && strings.Contains(src(s.Init), "% 4") {
					loop = append(loop, "if "+src(s.Init)+"; "+src(s.Cond))
				}
			case *ast.ForStmt:
				loop = append(loop, "for "+src(s.Cond))
			case *ast.RangeStmt:
				if strings.Contains(src(s.Body), "w.Write(") {
					loop = append(loop, "range "+src(s.X))
				}
			case *ast.ReturnStmt:
				t := src(s)
				if strings.Contains(t, "totalSize") {
					loop = append(loop, t)
				}
			}
			return true
		})
	}
	facts["header.writeLoop"] = loop
	l.p("/-- header/write.go Write: statements of the write loop, in source order -/\ndef writeLoopStmts : List String := [\n")
	for i, s := range loop {
		sep := ","
		if i == 0 {
			sep = " "
		}
		l.p("  %s%s\n", sep, leanStr(strconv.Quote(s)))
	}
	l.p("]\n\n")

	// every type assertion / type switch on a value in header/, parser/ and read.go: the optional
	// interfaces the library may ask its sources and destinations for
	var asserts []string
	var files []string
	for _, dir := range []string{"header", "parser"} {
		ents, _ := os.ReadDir(filepath.Join(repo, dir))
		for _, e := range ents {
			n := e.Name()
			if strings.HasSuffix(n, ".go") && !strings.HasSuffix(n, "_test.go") && !strings.HasPrefix(n, "verif_export") {
				files = append(files, dir+"/"+n)
			}
		}
	}
	files = append(files, "read.go", "write.go")
	for _, rel := range files {
		ast.Inspect(file(rel), func(n ast.Node) bool {
			if ta, ok := n.(*ast.TypeAssertExpr); ok {
				asserts = append(asserts, rel+": "+src(ta))
			}
			return true
		})
	}
	facts["io.typeAsserts"] = asserts
	l.p("/-- header/, parser/, read.go, write.go: every type assertion and type switch -/\ndef ioTypeAsserts : List String := [\n")
	for i, s := range asserts {
		sep := ","
		if i == 0 {
			sep = " "
		}
		l.p("  %s%s\n", sep, leanStr(strconv.Quote(s)))
	}
	l.p("]\n")
	l.write()
}
