package main

// genAll collects the remaining generators (one per area), added as areas are modelled.
func genAll() {
}
