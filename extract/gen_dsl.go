package main

// Facts for C19 (lookup description language): lexer token kinds and single-character
// token table, flag spellings read by readLookupFlags and written by explainFlags, the
// goroutine/channel inventory of the builder package, and the Unicode range tables the
// lexer consults (unicode.IsLetter / IsDigit / IsSpace of the toolchain that builds /repo).

import (
	"fmt"
	"go/ast"
	"go/token"
	"os"
	"path/filepath"
	"sort"
	"strconv"
	"strings"
	"unicode"
)

func init() { gens = append(gens, genDsl) }

const dslDir = "opentype/gtab/builder/"

// iotaNames lists the names of the const block whose first name is `first`.
func iotaNames(rel, first string) []string {
	for _, d := range file(rel).Decls {
		gd, ok := d.(*ast.GenDecl)
		if !ok || gd.Tok != token.CONST {
			continue
		}
		var names []string
		for _, s := range gd.Specs {
			for _, n := range s.(*ast.ValueSpec).Names {
				names = append(names, n.Name)
			}
		}
		if len(names) > 0 && names[0] == first {
			return names
		}
	}
	fail("%s: const block starting with %s not found", rel, first)
	return nil
}

func selName(e ast.Expr) string {
	switch x := e.(type) {
	case *ast.SelectorExpr:
		return x.Sel.Name
	case *ast.Ident:
		return x.Name
	}
	return ""
}

func rangeTab(l *leanFile, name, doc string, t *unicode.RangeTable) int {
	l.p("/-- %s: (lo, hi, stride) -/\ndef %s : Array (Nat × Nat × Nat) := #[\n", doc, name)
	n := 0
	for _, r := range t.R16 {
		l.p("  (%d, %d, %d),\n", r.Lo, r.Hi, r.Stride)
		n++
	}
	for i, r := range t.R32 {
		sep := ","
		if i == len(t.R32)-1 {
			sep = ""
		}
		l.p("  (%d, %d, %d)%s\n", r.Lo, r.Hi, r.Stride, sep)
		n++
	}
	if len(t.R32) == 0 {
		l.p("  (1, 0, 1)\n") // empty range closing the list
	}
	l.p("]\n\n")
	return n
}

func genDsl() {
	l := newLean("Dsl")

	// --- token kinds
	kinds := iotaNames(dslDir+"lexer.go", "itemError")
	l.p("/-- lexer.go: itemType constants in iota order -/\ndef dslItemTypes : List String := [%s]\n\n",
		strings.Join(quoteAll(kinds), ", "))
	facts["dsl.itemTypes"] = kinds
	kindIdx := map[string]int{}
	for i, k := range kinds {
		kindIdx[k] = i
	}

	// --- single character tokens
	l.p("/-- lexer.go: singleCharTokens (rune, itemType index), sorted by rune -/\ndef dslSingleCharTokens : List (Nat × Nat) := [")
	var sc [][2]int
	for _, e := range mapLit(dslDir+"lexer.go", "singleCharTokens") {
		r, _, _, err := strconv.UnquoteChar(strings.Trim(e.k, "'"), '\'')
		idx, ok := kindIdx[e.v]
		if err != nil || !ok {
			fail("singleCharTokens: cannot read entry %s: %s", e.k, e.v)
			continue
		}
		sc = append(sc, [2]int{int(r), idx})
	}
	sort.Slice(sc, func(i, j int) bool { return sc[i][0] < sc[j][0] })
	for i, e := range sc {
		if i > 0 {
			l.p(", ")
		}
		l.p("(%d, %d)", e[0], e[1])
	}
	l.p("]\n\n")
	facts["dsl.singleCharTokens"] = fmt.Sprint(sc)

	// --- flag bit values
	bits := map[string]string{}
	for _, n := range []string{"RightToLeft", "IgnoreBaseGlyphs", "IgnoreLigatures", "IgnoreMarks", "UseMarkFilteringSet"} {
		bits[n] = constNat("opentype/gtab/lookup.go", n)
	}

	// --- flags read by the parser: switch which { case "x": flags |= gtab.Y }
	var pf, pfc []string
	if fd := funcDecl(dslDir+"parser.go", "parser.readLookupFlags"); fd != nil {
		ast.Inspect(fd.Body, func(n ast.Node) bool {
			cc, ok := n.(*ast.CaseClause)
			if !ok || len(cc.List) != 1 || len(cc.Body) != 1 {
				return true
			}
			lit, ok := cc.List[0].(*ast.BasicLit)
			as, ok2 := cc.Body[0].(*ast.AssignStmt)
			if !ok || !ok2 || as.Tok != token.OR_ASSIGN {
				return true
			}
			b, have := bits[selName(as.Rhs[0])]
			if !have {
				fail("readLookupFlags: unknown flag constant %s", src(as.Rhs[0]))
				return true
			}
			pf = append(pf, fmt.Sprintf("(%s, %s)", leanStr(lit.Value), b))
			pfc = append(pfc, fmt.Sprintf("(%s, %s)", codeList(lit.Value), b))
			return true
		})
	}
	if len(pf) == 0 {
		fail("readLookupFlags: no flag spellings found")
	}
	l.p("/-- parser.go readLookupFlags: spelling after the hyphen ↦ bit, in source order -/\ndef dslParseFlags : List (String × Nat) := [%s]\n\n", strings.Join(pf, ", "))
	l.p("/-- the same with the spelling as a list of code points (kernel-friendly) -/\ndef dslParseFlagsC : List (List Nat × Nat) := [%s]\n\n", strings.Join(pfc, ", "))
	facts["dsl.parseFlags"] = pf

	// --- flags written by the printer: if flags&gtab.X != 0 { ee.w.WriteString(" -x") }
	var ef, efc []string
	if fd := funcDecl(dslDir+"explain.go", "explainer.explainFlags"); fd != nil {
		for _, st := range fd.Body.List {
			is, ok := st.(*ast.IfStmt)
			if !ok {
				continue
			}
			be, ok := is.Cond.(*ast.BinaryExpr)
			if !ok {
				continue
			}
			and, ok := be.X.(*ast.BinaryExpr)
			if !ok || and.Op != token.AND || len(is.Body.List) != 1 {
				fail("explainFlags: unexpected condition %s", src(is.Cond))
				continue
			}
			b, have := bits[selName(and.Y)]
			call, ok2 := is.Body.List[0].(*ast.ExprStmt)
			if !have || !ok2 {
				fail("explainFlags: unexpected statement %s", src(is))
				continue
			}
			ce, ok := call.X.(*ast.CallExpr)
			if !ok || len(ce.Args) != 1 {
				fail("explainFlags: unexpected call %s", src(call))
				continue
			}
			lit, ok := ce.Args[0].(*ast.BasicLit)
			if !ok {
				fail("explainFlags: unexpected argument %s", src(ce.Args[0]))
				continue
			}
			ef = append(ef, fmt.Sprintf("(%s, %s)", b, leanStr(lit.Value)))
			efc = append(efc, fmt.Sprintf("(%s, %s)", b, codeList(lit.Value)))
		}
	}
	if len(ef) == 0 {
		fail("explainFlags: no flag spellings found")
	}
	l.p("/-- explain.go explainFlags: bit ↦ text written, in the order written -/\ndef dslExplainFlags : List (Nat × String) := [%s]\n\n", strings.Join(ef, ", "))
	l.p("/-- the same with the text as a list of code points (kernel-friendly) -/\ndef dslExplainFlagsC : List (Nat × List Nat) := [%s]\n\n", strings.Join(efc, ", "))
	facts["dsl.explainFlags"] = ef

	// --- goroutines and channels of the package (non-test, non-hook files)
	var goStmts, chans []string
	files, _ := filepath.Glob(filepath.Join(repo, dslDir, "*.go"))
	sort.Strings(files)
	for _, fn := range files {
		base := filepath.Base(fn)
		if strings.HasSuffix(base, "_test.go") || base == "verif_export.go" {
			continue
		}
		if _, err := os.Stat(fn); err != nil {
			continue
		}
		f := file(dslDir + base)
		ast.Inspect(f, func(n ast.Node) bool {
			switch x := n.(type) {
			case *ast.GoStmt:
				goStmts = append(goStmts, base+":"+src(x.Call.Fun))
			case *ast.CallExpr:
				if id, ok := x.Fun.(*ast.Ident); ok && id.Name == "make" && len(x.Args) > 0 {
					if _, ok := x.Args[0].(*ast.ChanType); ok {
						size := "0"
						if len(x.Args) > 1 {
							size = src(x.Args[1])
						}
						chans = append(chans, base+":"+src(x.Args[0])+":"+size)
					}
				}
			}
			return true
		})
	}
	facts["dsl.goStatements"] = goStmts
	facts["dsl.channels"] = chans
	unbuffered := 0
	for _, c := range chans {
		if strings.HasSuffix(c, ":0") {
			unbuffered++
		}
	}
	l.p("/-- builder package: number of `go` statements (goroutines started per Parse) -/\ndef dslGoStatements : Nat := %d\n", len(goStmts))
	l.p("/-- builder package: number of channels made, and how many of them are unbuffered -/\ndef dslChannels : Nat := %d\ndef dslUnbufferedChannels : Nat := %d\n\n", len(chans), unbuffered)

	// --- Unicode tables of the Go toolchain
	facts["dsl.unicodeVersion"] = unicode.Version
	l.p("/-- Unicode version of the Go toolchain's tables -/\ndef dslUnicodeVersion : String := %q\n\n", unicode.Version)
	n1 := rangeTab(l, "dslLetterRanges", "unicode.Letter (category L) — unicode.IsLetter", unicode.Letter)
	n2 := rangeTab(l, "dslDigitRanges", "unicode.Nd — unicode.IsDigit", unicode.Nd)
	n3 := rangeTab(l, "dslSpaceRanges", "unicode.White_Space — unicode.IsSpace", unicode.White_Space)
	// strconv.IsPrint as maximal ranges (what `%q` leaves unescaped)
	l.p("/-- strconv.IsPrint: maximal ranges (lo, hi, 1) of printable runes -/\ndef dslPrintRanges : Array (Nat × Nat × Nat) := #[\n")
	n4 := 0
	for r := rune(0); r <= unicode.MaxRune+1; r++ {
		if r <= unicode.MaxRune && strconv.IsPrint(r) {
			lo := r
			for r <= unicode.MaxRune && strconv.IsPrint(r) {
				r++
			}
			if n4 > 0 {
				l.p(",\n")
			}
			l.p("  (%d, %d, 1)", lo, r-1)
			n4++
		}
	}
	l.p("\n]\n\n")
	facts["dsl.unicodeRanges"] = fmt.Sprintf("L=%d Nd=%d White_Space=%d IsPrint=%d", n1, n2, n3, n4)
	l.write()
}

func quoteAll(xs []string) []string {
	out := make([]string, len(xs))
	for i, x := range xs {
		out[i] = strconv.Quote(x)
	}
	return out
}

// codeList renders a Go string literal as a Lean list of code points.
func codeList(goLit string) string {
	s, err := strconv.Unquote(goLit)
	if err != nil {
		fail("cannot unquote %s", goLit)
	}
	var parts []string
	for _, r := range s {
		parts = append(parts, strconv.Itoa(int(r)))
	}
	return "[" + strings.Join(parts, ", ") + "]"
}
