package main

// Facts for area "otl" (property C08): constants of the lookup-list encoder.

func init() { gens = append(gens, genOtl) }

func genOtl() {
	l := newLean("Otl")
	const f = "opentype/gtab/lookup.go"
	for _, name := range []string{"gsubExtensionLookupType", "gposExtensionLookupType", "UseMarkFilteringSet"} {
		v := constNat(f, name)
		facts["otl."+name] = v
		l.p("/-- %s: %s -/\ndef %s : Nat := %s\n\n", f, name, name, v)
	}
	// the integer literals of the functions the model mirrors (limits 1<<14, 0xFFFF, record sizes);
	// recorded in facts.json so that a changed limit shows up as a changed fact
	for _, fn := range []string{"LookupList.encode", "LookupList.tryReorder"} {
		facts["otl.intLits."+fn] = intLitsIn(f, fn)
	}
	facts["otl.intLits.coverage.encInfo"] = intLitsIn("opentype/coverage/coverage.go", "Table.encInfo")
	facts["otl.intLits.classdef.getEncInfo"] = intLitsIn("opentype/classdef/classdef.go", "Table.getEncInfo")
	l.write()
}
