package main

// Facts for area "otl" (property C08): constants of the lookup-list encoder.

func init() { gens = append(gens, genOtl) }

func genOtl() {
	l := newLean("Otl")
	const f = "opentype/gtab/lookup.go"
	for _, name := range []string{"gsubExtensionLookupType", "gposExtensionLookupType", "UseMarkFilteringSet"} {
		v := constNat(f, name)
		facts["otl."+name] = v
		l.p("/-- %s: %s -/\ndef %s : Nat := %s\n\n", f, name, name, v)
	}
	// the integer literals of the functions the model mirrors (limits 1<<14, 0xFFFF, record sizes);
	// recorded in facts.json so that a changed limit shows up as a changed fact
	for _, fn := range []string{"LookupList.encode", "LookupList.tryReorder"} {
		facts["otl.intLits."+fn] = intLitsIn(f, fn)
	}
	// the OpenType script and language-system tags the library knows (keys of scriptBcp47 / langBcp47):
	// otfToBCP47 succeeds exactly for these
	for _, tbl := range []string{"scriptBcp47", "langBcp47"} {
		var keys []string
		l.p("/-- opentype/gtab/locale.go: keys of %s -/\ndef %sKeys : List String := [\n", tbl, tbl)
		for i, e := range mapLit("opentype/gtab/locale.go", tbl) {
			sep := ","
			if i == 0 {
				sep = " "
			}
			l.p("  %s%s\n", sep, leanStr(e.k))
			keys = append(keys, e.k)
		}
		l.p("]\n\n")
		facts["otl."+tbl+".count"] = len(keys)
	}
	facts["otl.intLits.coverage.encInfo"] = intLitsIn("opentype/coverage/coverage.go", "Table.encInfo")
	facts["otl.intLits.classdef.getEncInfo"] = intLitsIn("opentype/classdef/classdef.go", "Table.getEncInfo")
	l.write()
}
