package main

// Facts for C14 (area `names`): the Mac Roman tables of mac/encoding.go, the 258 standard
// Macintosh glyph names of post/names.go and the language-id tables of name/locale.go.

import (
	"fmt"
	"go/ast"
	"sort"
	"strconv"
)

func init() { gens = append(gens, genNames) }

func litNat(s string) string {
	v, err := strconv.ParseInt(s, 0, 64)
	if err != nil {
		fail("names: %q is not an integer literal", s)
		return "0"
	}
	return fmt.Sprint(v)
}

func genNames() {
	l := newLean("Names")

	// mac/encoding.go: dec (128 runes for bytes 128..255)
	dec := mapLit("mac/encoding.go", "dec")
	l.p("/-- mac/encoding.go: `dec`, the runes of the Mac Roman bytes 128..255 -/\ndef macDec : List Nat := [")
	for i, e := range dec {
		if i > 0 {
			l.p(", ")
		}
		if i%8 == 0 {
			l.p("\n  ")
		}
		l.p("%s", litNat(e.v))
	}
	l.p("]\n\n")
	facts["names.macDec.len"] = len(dec)

	// mac/encoding.go: enc (map rune -> byte), source order
	enc := mapLit("mac/encoding.go", "enc")
	l.p("/-- mac/encoding.go: `enc`, rune -> byte (Go map literal, keys distinct by the Go compiler) -/\ndef macEnc : List (Nat × Nat) := [")
	for i, e := range enc {
		if i > 0 {
			l.p(", ")
		}
		if i%6 == 0 {
			l.p("\n  ")
		}
		l.p("(%s, %s)", litNat(e.k), litNat(e.v))
	}
	l.p("]\n\n")
	facts["names.macEnc.len"] = len(enc)

	// the replacement byte used by mac.Encode ('?')
	repl := "0"
	if fd := funcDecl("mac/encoding.go", "Encode"); fd != nil {
		ast.Inspect(fd.Body, func(n ast.Node) bool {
			if bl, ok := n.(*ast.BasicLit); ok && bl.Kind.String() == "CHAR" {
				r, _, _, err := strconv.UnquoteChar(bl.Value[1:len(bl.Value)-1], '\'')
				if err == nil {
					repl = fmt.Sprint(int(r))
				}
			}
			return true
		})
	}
	facts["names.macReplacement"] = repl
	l.p("/-- mac/encoding.go: the byte written by `Encode` for an unrepresentable rune -/\ndef macReplacement : Nat := %s\n\n", repl)

	// post/names.go: macRoman (258 names)
	names := mapLit("post/names.go", "macRoman")
	l.p("/-- post/names.go: `macRoman`, the standard Macintosh glyph names -/\ndef postMacRoman : List String := [")
	for i, e := range names {
		if i > 0 {
			l.p(", ")
		}
		if i%6 == 0 {
			l.p("\n  ")
		}
		l.p("%s", leanStr(e.v))
	}
	l.p("]\n\n")
	facts["names.postMacRoman.len"] = len(names)

	// name/locale.go: appleBCP, msBCP (language id -> BCP 47 tag), source order
	for _, t := range []struct{ goName, leanName string }{{"appleBCP", "appleBCP"}, {"msBCP", "msBCP"}} {
		m := mapLit("name/locale.go", t.goName)
		l.p("/-- name/locale.go: `%s`, language id -> BCP 47 tag -/\ndef %s : List (Nat × String) := [", t.goName, t.leanName)
		for i, e := range m {
			if i > 0 {
				l.p(", ")
			}
			if i%5 == 0 {
				l.p("\n  ")
			}
			l.p("(%s, %s)", litNat(e.k), leanStr(e.v))
		}
		l.p("]\n\n")
		facts["names."+t.goName+".len"] = len(m)
	}

	// opentype/gtab/locale.go: scriptBcp47, langBcp47 as byte-code strings
	codes := func(goLit string) string {
		str, err := strconv.Unquote(goLit)
		if err != nil {
			fail("names: cannot unquote %s", goLit)
		}
		out := "["
		for i := 0; i < len(str); i++ {
			if i > 0 {
				out += ", "
			}
			out += fmt.Sprint(int(str[i]))
		}
		return out + "]"
	}
	for _, t := range []struct{ goName, leanName string }{{"scriptBcp47", "otScripts"}, {"langBcp47", "otLangs"}} {
		m := mapLit("opentype/gtab/locale.go", t.goName)
		// a Go map has no order: the entries are emitted in increasing order of the key bytes (Lean
		// checks the order and relies on it for the linear-time facts about the reverse lookup)
		sort.SliceStable(m, func(i, j int) bool {
			a, _ := strconv.Unquote(m[i].k)
			b, _ := strconv.Unquote(m[j].k)
			return a < b
		})
		l.p("/-- opentype/gtab/locale.go: `%s`, OpenType tag -> BCP 47 subtag (both as byte codes), sorted by tag -/\ndef %s : List (List Nat × List Nat) := [", t.goName, t.leanName)
		for i, e := range m {
			if i > 0 {
				l.p(",")
			}
			l.p("\n  (%s, %s)", codes(e.k), codes(e.v))
		}
		l.p("]\n\n")
		facts["names."+t.goName+".len"] = len(m)
	}

	// name/table.go: maxID
	maxID := constNat("name/table.go", "maxID")
	facts["names.maxID"] = maxID
	l.p("/-- name/table.go: const maxID -/\ndef nameMaxID : Nat := %s\n", maxID)
	l.write()
}
