package main

// Site inventory (DESIGN §5.1, property C02): for a Go function, every index expression, slice
// expression, `make`, type assertion, explicit `panic` and call of a panicking parser method
// (`ReadBytes`, `Discard`), with its source position and the normalised text of the
// dominating conditions: enclosing `if`/`for`/`switch` conditions and the negations of the
// preceding early-exit conditions (`if c { …; return|continue|break|panic }`) of the same
// function.  go/ast only: this is a change detector, not an analysis.

import (
	"fmt"
	"go/ast"
	"go/token"
	"strconv"
	"strings"
)

type site struct {
	ID     string   `json:"id"`     // <kind>#<expr>#<ordinal among equal kind+expr>
	Kind   string   `json:"kind"`   // index | slice | make | type-assert | panic | call
	Expr   string   `json:"expr"`   // normalised source text
	Pos    string   `json:"pos"`    // file:line (informative; not part of the comparison)
	Guards []string `json:"guards"` // dominating conditions, outermost first
	Class  string   `json:"class"`  // constant-index-into-fixed-buffer | map | data-dependent | constant-size | …
}

func oneLine(s string) string {
	return strings.Join(strings.Fields(s), " ")
}

// terminates reports whether a block always leaves the enclosing statement list.
func terminates(b *ast.BlockStmt) bool {
	if b == nil || len(b.List) == 0 {
		return false
	}
	switch s := b.List[len(b.List)-1].(type) {
	case *ast.ReturnStmt:
		return true
	case *ast.BranchStmt:
		return s.Tok == token.CONTINUE || s.Tok == token.BREAK || s.Tok == token.GOTO
	case *ast.ExprStmt:
		if c, ok := s.X.(*ast.CallExpr); ok {
			if id, ok := c.Fun.(*ast.Ident); ok && id.Name == "panic" {
				return true
			}
		}
	}
	return false
}

type siteWalker struct {
	rel    string
	sites  []site
	seen   map[string]int
	bufLen map[string]int  // identifier -> known constant length (from ReadBytes(K), [K]T arrays)
	isMap  map[string]bool // identifier/selector text known to be a map
}

func (w *siteWalker) add(kind string, n ast.Node, expr string, guards []string, class string) {
	expr = oneLine(expr)
	key := kind + "#" + expr
	w.seen[key]++
	p := fset.Position(n.Pos())
	g := make([]string, len(guards))
	copy(g, guards)
	w.sites = append(w.sites, site{
		ID:     fmt.Sprintf("%s#%d", key, w.seen[key]),
		Kind:   kind,
		Expr:   expr,
		Pos:    fmt.Sprintf("%s:%d", w.rel, p.Line),
		Guards: g,
		Class:  class,
	})
}

func litInt(e ast.Expr) (int, bool) {
	if bl, ok := e.(*ast.BasicLit); ok && bl.Kind == token.INT {
		v, err := strconv.ParseInt(bl.Value, 0, 64)
		if err == nil {
			return int(v), true
		}
	}
	return 0, false
}

// noteDefs records facts the classification uses: x := p.ReadBytes(K); var x [K]T; x := make(map…).
func (w *siteWalker) noteAssign(lhs []ast.Expr, rhs []ast.Expr) {
	if len(rhs) != 1 || len(lhs) == 0 {
		return
	}
	id, ok := lhs[0].(*ast.Ident)
	if !ok {
		return
	}
	switch r := rhs[0].(type) {
	case *ast.CallExpr:
		if sel, ok := r.Fun.(*ast.SelectorExpr); ok && sel.Sel.Name == "ReadBytes" && len(r.Args) == 1 {
			if k, ok := litInt(r.Args[0]); ok {
				w.bufLen[id.Name] = k
			} else {
				delete(w.bufLen, id.Name)
			}
		}
		if f, ok := r.Fun.(*ast.Ident); ok && f.Name == "make" && len(r.Args) >= 1 {
			switch t := r.Args[0].(type) {
			case *ast.MapType:
				w.isMap[id.Name] = true
			case *ast.Ident:
				if t.Name == "Info" || t.Name == "Table" || t.Name == "Set" || t.Name == "Format4" || t.Name == "Format12" {
					w.isMap[id.Name] = true // named map types of the modelled packages
				}
			}
		}
	case *ast.CompositeLit:
		if _, ok := r.Type.(*ast.MapType); ok {
			w.isMap[id.Name] = true
		}
	}
}

func (w *siteWalker) exprSites(e ast.Node, guards []string) {
	if e == nil {
		return
	}
	ast.Inspect(e, func(n ast.Node) bool {
		switch x := n.(type) {
		case *ast.FuncLit:
			w.block(x.Body, append(append([]string{}, guards...), "func-literal"))
			return false
		case *ast.IndexExpr:
			base := oneLine(src(x.X))
			class := "data-dependent"
			if w.isMap[base] || strings.HasSuffix(base, ".Toc") {
				class = "map"
			} else if k, ok := litInt(x.Index); ok {
				if id, ok := x.X.(*ast.Ident); ok {
					if l, ok := w.bufLen[id.Name]; ok && k < l {
						class = "constant-index-into-fixed-buffer"
					}
				}
			}
			if id, ok := x.Index.(*ast.Ident); ok && class == "data-dependent" {
				for _, g := range guards {
					if g == "range:"+id.Name+":"+base {
						class = "range-index-over-same-slice"
					}
				}
			}
			w.add("index", x, src(x), guards, class)
		case *ast.SliceExpr:
			class := "data-dependent"
			if id, ok := x.X.(*ast.Ident); ok {
				if l, ok := w.bufLen[id.Name]; ok {
					okc := true
					for _, b := range []ast.Expr{x.Low, x.High, x.Max} {
						if b == nil {
							continue
						}
						if k, ok := litInt(b); !ok || k > l {
							okc = false
						}
					}
					if okc {
						class = "constant-index-into-fixed-buffer"
					}
				}
			}
			w.add("slice", x, src(x), guards, class)
		case *ast.TypeAssertExpr:
			if x.Type != nil {
				w.add("type-assert", x, src(x), guards, "data-dependent")
			}
		case *ast.CallExpr:
			switch f := x.Fun.(type) {
			case *ast.Ident:
				if f.Name == "make" {
					class := "data-dependent"
					if len(x.Args) == 1 {
						class = "constant-size"
					} else if _, ok := litInt(x.Args[1]); ok {
						class = "constant-size"
					}
					w.add("make", x, src(x), guards, class)
				}
				if f.Name == "panic" {
					w.add("panic", x, src(x), guards, "explicit")
				}
			case *ast.SelectorExpr:
				if f.Sel.Name == "ReadBytes" || f.Sel.Name == "Discard" {
					class := "data-dependent"
					if len(x.Args) == 1 {
						if k, ok := litInt(x.Args[0]); ok && k >= 0 && k <= 1024 {
							class = "constant-argument-within-buffer"
						}
					}
					w.add("call", x, src(x), guards, class)
				}
			}
		}
		return true
	})
}

func (w *siteWalker) block(b *ast.BlockStmt, guards []string) {
	if b == nil {
		return
	}
	w.stmts(b.List, guards)
}

func (w *siteWalker) stmts(list []ast.Stmt, guards []string) {
	g := append([]string{}, guards...)
	for _, s := range list {
		w.stmt(s, g)
		// an `if` without else whose body always leaves: its negation dominates what follows
		if is, ok := s.(*ast.IfStmt); ok && is.Else == nil && terminates(is.Body) {
			g = append(g, "!("+oneLine(src(is.Cond))+")")
		}
	}
}

func (w *siteWalker) stmt(s ast.Stmt, guards []string) {
	switch x := s.(type) {
	case *ast.BlockStmt:
		w.block(x, guards)
	case *ast.IfStmt:
		if x.Init != nil {
			w.stmt(x.Init, guards)
		}
		w.exprSites(x.Cond, guards)
		c := oneLine(src(x.Cond))
		w.block(x.Body, append(append([]string{}, guards...), c))
		if x.Else != nil {
			w.stmt(x.Else, append(append([]string{}, guards...), "!("+c+")"))
		}
	case *ast.ForStmt:
		if x.Init != nil {
			w.stmt(x.Init, guards)
		}
		g := guards
		if x.Cond != nil {
			w.exprSites(x.Cond, guards)
			g = append(append([]string{}, guards...), "for:"+oneLine(src(x.Cond)))
		}
		if x.Post != nil {
			w.stmt(x.Post, g)
		}
		w.block(x.Body, g)
	case *ast.RangeStmt:
		w.exprSites(x.X, guards)
		k := ""
		if x.Key != nil {
			k = oneLine(src(x.Key))
		}
		w.block(x.Body, append(append([]string{}, guards...), "range:"+k+":"+oneLine(src(x.X))))
	case *ast.SwitchStmt:
		if x.Init != nil {
			w.stmt(x.Init, guards)
		}
		tag := ""
		if x.Tag != nil {
			w.exprSites(x.Tag, guards)
			tag = oneLine(src(x.Tag))
		}
		for _, cc := range x.Body.List {
			c := cc.(*ast.CaseClause)
			var vals []string
			for _, e := range c.List {
				w.exprSites(e, guards)
				vals = append(vals, oneLine(src(e)))
			}
			label := "case:" + tag + "==" + strings.Join(vals, "|")
			if c.List == nil {
				label = "case:" + tag + "==default"
			}
			w.stmts(c.Body, append(append([]string{}, guards...), label))
		}
	case *ast.TypeSwitchStmt:
		w.stmt(x.Assign, guards)
		for _, cc := range x.Body.List {
			c := cc.(*ast.CaseClause)
			var vals []string
			for _, e := range c.List {
				vals = append(vals, oneLine(src(e)))
			}
			w.stmts(c.Body, append(append([]string{}, guards...), "type-case:"+strings.Join(vals, "|")))
		}
	case *ast.AssignStmt:
		w.noteAssign(x.Lhs, x.Rhs)
		for _, e := range x.Rhs {
			w.exprSites(e, guards)
		}
		for _, e := range x.Lhs {
			w.exprSites(e, guards)
		}
	case *ast.DeclStmt:
		if gd, ok := x.Decl.(*ast.GenDecl); ok {
			for _, sp := range gd.Specs {
				if vs, ok := sp.(*ast.ValueSpec); ok {
					if at, ok := vs.Type.(*ast.ArrayType); ok && at.Len != nil {
						if k, ok := litInt(at.Len); ok {
							for _, n := range vs.Names {
								w.bufLen[n.Name] = k
							}
						}
					}
					for _, v := range vs.Values {
						w.exprSites(v, guards)
					}
				}
			}
		}
	case *ast.LabeledStmt:
		w.stmt(x.Stmt, guards)
	default:
		if s != nil {
			w.exprSites(s, guards)
		}
	}
}

// sitesOf lists the sites of one function (name as for funcDecl: "Read" or "Type.Method").
func sitesOf(rel, fn string) []site {
	fd := funcDecl(rel, fn)
	if fd == nil || fd.Body == nil {
		return nil
	}
	w := &siteWalker{rel: rel, seen: map[string]int{}, bufLen: map[string]int{}, isMap: map[string]bool{}}
	w.block(fd.Body, nil)
	return w.sites
}
