package main

// Facts for C06/C07 (area `shape`): the nested-action budget of
// Context.applyAtRecursively, the lookup-flag bits and the GDEF glyph classes.

func init() { gens = append(gens, genShape) }

func genShape() {
	l := newLean("Shape")

	// The budget is the only integer literal > 1 in applyAtRecursively
	// (`numActions < 64`); literals 0 and 1 are indices / increments.
	budget := ""
	for _, x := range intLitsIn("opentype/gtab/layout.go", "Context.applyAtRecursively") {
		if x != "0" && x != "1" {
			if budget != "" && budget != x {
				fail("shape: more than one candidate for the nested-action budget: %s, %s", budget, x)
			}
			budget = x
		}
	}
	if budget == "" {
		fail("shape: nested-action budget not found in Context.applyAtRecursively")
		budget = "0"
	}
	facts["shape.nestedBudget"] = budget
	l.p("/-- opentype/gtab/layout.go, Context.applyAtRecursively: `numActions < %s` -/\ndef shapeNestedBudget : Nat := %s\n\n", budget, budget)

	for _, c := range []struct{ lean, goName string }{
		{"shapeFlagRightToLeft", "RightToLeft"},
		{"shapeFlagIgnoreBase", "IgnoreBaseGlyphs"},
		{"shapeFlagIgnoreLigatures", "IgnoreLigatures"},
		{"shapeFlagIgnoreMarks", "IgnoreMarks"},
		{"shapeFlagUseMarkFilteringSet", "UseMarkFilteringSet"},
		{"shapeFlagMarkAttachTypeMask", "MarkAttachTypeMask"},
	} {
		v := constNat("opentype/gtab/lookup.go", c.goName)
		facts["shape."+c.goName] = v
		l.p("/-- opentype/gtab/lookup.go: const %s -/\ndef %s : Nat := %s\n", c.goName, c.lean, v)
	}
	l.p("\n")
	for _, c := range []struct{ lean, goName string }{
		{"shapeClassBase", "GlyphClassBase"},
		{"shapeClassLigature", "GlyphClassLigature"},
		{"shapeClassMark", "GlyphClassMark"},
	} {
		v := constNat("opentype/gdef/gdef.go", c.goName)
		facts["shape."+c.goName] = v
		l.p("/-- opentype/gdef/gdef.go: const %s -/\ndef %s : Nat := %s\n", c.goName, c.lean, v)
	}
	l.write()
}
