package main

// Facts for property C09 (area cmapx): GetBest's candidate list, the formats accepted by
// cmap.Decode's switch, the keys of the decoders map, numeric limits of the format 12/6
// decoders, and the MacRoman decoding table used for platform 1.

import (
	"go/ast"
	"go/parser"
	"go/token"
	"strconv"
	"strings"
)

func mustParseExpr(s string) ast.Expr {
	e, err := parser.ParseExpr(s)
	if err != nil {
		fail("cannot parse expression %s", s)
		return &ast.BasicLit{Kind: token.INT, Value: "0"}
	}
	return e
}

func init() { gens = append(gens, genCmapx) }

func genCmapx() {
	l := newLean("Cmapx")

	// --- GetBest candidates
	var cands []string
	if fd := funcDecl("cmap/cmap.go", "Table.GetBest"); fd != nil {
		ast.Inspect(fd.Body, func(n ast.Node) bool {
			as, ok := n.(*ast.AssignStmt)
			if !ok || len(as.Lhs) != 1 || len(as.Rhs) != 1 {
				return true
			}
			id, ok := as.Lhs[0].(*ast.Ident)
			if !ok || id.Name != "candidates" {
				return true
			}
			cl, ok := as.Rhs[0].(*ast.CompositeLit)
			if !ok {
				fail("cmap.go: candidates is not a composite literal")
				return false
			}
			for _, el := range cl.Elts {
				c, ok := el.(*ast.CompositeLit)
				if !ok || len(c.Elts) != 2 {
					fail("cmap.go: unexpected candidate %s", src(el))
					continue
				}
				a, ok1 := evalConst(c.Elts[0])
				b, ok2 := evalConst(c.Elts[1])
				if !ok1 || !ok2 {
					fail("cmap.go: candidate %s is not constant", src(el))
					continue
				}
				cands = append(cands, "("+a+", "+b+")")
			}
			return false
		})
	}
	if len(cands) == 0 {
		fail("cmap.go: GetBest candidate list not found")
	}
	facts["cmapx.candidates"] = cands
	l.p("/-- cmap/cmap.go: Table.GetBest, `candidates` (PlatformID, EncodingID) in order -/\n")
	l.p("def cmapxCandidates : List (Nat × Nat) := [%s]\n\n", strings.Join(cands, ", "))

	// --- the format switch in Decode
	var cases [][]string
	minLength := ""
	if fd := funcDecl("cmap/cmap.go", "Decode"); fd != nil {
		ast.Inspect(fd.Body, func(n ast.Node) bool {
			switch s := n.(type) {
			case *ast.SwitchStmt:
				if id, ok := s.Tag.(*ast.Ident); !ok || id.Name != "format" {
					return true
				}
				for _, st := range s.Body.List {
					cc := st.(*ast.CaseClause)
					if cc.List == nil {
						continue
					}
					var vs []string
					for _, e := range cc.List {
						v, ok := evalConst(e)
						if !ok {
							fail("cmap.go: non-constant case %s", src(e))
						}
						vs = append(vs, v)
					}
					cases = append(cases, vs)
				}
				return false
			case *ast.GenDecl:
				if s.Tok == token.CONST {
					for _, sp := range s.Specs {
						vs := sp.(*ast.ValueSpec)
						if vs.Names[0].Name == "minLength" && len(vs.Values) == 1 {
							minLength, _ = evalConst(vs.Values[0])
						}
					}
				}
			}
			return true
		})
	}
	if len(cases) != 3 || minLength == "" {
		fail("cmap.go: Decode's format switch / minLength not recognised (%d cases)", len(cases))
		cases = [][]string{nil, nil, nil}
	}
	facts["cmapx.decodeCases"] = cases
	facts["cmapx.minLength"] = minLength
	l.p("/-- cmap/cmap.go: Decode, `switch format`: 16-bit length, 32-bit length at +4, 32-bit length at +2 -/\n")
	l.p("def decodeCase16 : List Nat := [%s]\n", strings.Join(cases[0], ", "))
	l.p("def decodeCase32 : List Nat := [%s]\n", strings.Join(cases[1], ", "))
	l.p("def decodeCase14 : List Nat := [%s]\n", strings.Join(cases[2], ", "))
	l.p("def cmapxMinLength : Nat := %s\n\n", minLength)

	// --- decoders map
	var impl, unimpl []string
	for _, e := range mapLit("cmap/subtable.go", "decoders") {
		if e.v == "notImplemented" {
			unimpl = append(unimpl, e.k)
		} else {
			impl = append(impl, e.k+":"+e.v)
		}
	}
	facts["cmapx.decoders"] = impl
	facts["cmapx.notImplemented"] = unimpl
	l.p("/-- cmap/subtable.go: keys of `decoders` with a real decoder / with `notImplemented` -/\n")
	var implK []string
	for _, s := range impl {
		implK = append(implK, s[:strings.IndexByte(s, ':')])
	}
	l.p("def decodersImplemented : List Nat := [%s]\n", strings.Join(implK, ", "))
	l.p("def decodersNotImplemented : List Nat := [%s]\n\n", strings.Join(unimpl, ", "))

	// --- numeric limits of the format 12 and format 6 decoders (all integer literals, source order)
	l12 := intLitsIn("cmap/format12.go", "decodeFormat12")
	facts["cmapx.decodeFormat12.literals"] = l12
	l.p("/-- cmap/format12.go: integer literals of decodeFormat12 in source order -/\n")
	l.p("def decode12Literals : List Nat := [%s]\n", strings.Join(l12, ", "))
	l6 := intLitsIn("cmap/format6.go", "decodeFormat6")
	facts["cmapx.decodeFormat6.literals"] = l6
	l.p("/-- cmap/format6.go: integer literals of decodeFormat6 in source order -/\n")
	l.p("def decode6Literals : List Nat := [%s]\n\n", strings.Join(l6, ", "))

	// --- MacRoman
	var dec []string
	for _, e := range mapLit("mac/encoding.go", "dec") {
		v, ok := evalConst(mustParseExpr(e.v))
		if !ok {
			fail("mac/encoding.go: non-constant entry %s", e.v)
		}
		dec = append(dec, v)
	}
	if len(dec) != 128 {
		fail("mac/encoding.go: dec has %d entries, expected 128", len(dec))
	}
	facts["cmapx.macDec.len"] = len(dec)
	l.p("/-- mac/encoding.go: `dec`, the runes of MacRoman codes 128..255 -/\n")
	l.p("def cmapxMacDec : List Nat := [%s]\n\n", strings.Join(dec, ", "))

	// the full code -> rune table of mac.DecodeOne: `if c < 128 { return rune(c) }; return dec[c-128]`
	one := strings.Join(strings.Fields(funcText("mac/encoding.go", "DecodeOne")), " ")
	if !strings.Contains(one, "if c < 128 { return rune(c) } return dec[c-128]") {
		fail("mac/encoding.go: DecodeOne no longer has the shape `if c < 128 { return rune(c) }; return dec[c-128]`")
	}
	var full []string
	for i := 0; i < 128; i++ {
		full = append(full, strconv.Itoa(i))
	}
	full = append(full, dec...)
	facts["cmapx.macRomanTable.len"] = len(full)
	l.p("/-- mac/encoding.go: `DecodeOne(c)` for c = 0..255 (identity below 128, `dec[c-128]` above) -/\n")
	l.p("def macRomanTable : List Nat := [%s]\n\n", strings.Join(full, ", "))

	// Table.Get: the code2rune closure for platform 1 and the encoding it accepts
	get := strings.Join(strings.Fields(funcText("cmap/cmap.go", "Table.Get")), " ")
	closure := strings.Contains(get, "macRoman := func(code int) rune { return mac.DecodeOne(byte(code)) }")
	cond := strings.Contains(get, "if key.PlatformID == 1 { if key.EncodingID != 0 {") && strings.Contains(get, "code2rune = macRoman")
	pass := strings.Contains(get, "return decode(data, code2rune)")
	if !closure || !cond || !pass {
		fail("cmap/cmap.go: Table.Get no longer builds code2rune = mac.DecodeOne(byte(code)) for platform 1 / encoding 0 and passes it to every decoder")
	}
	facts["cmapx.get.macRomanClosure"] = closure && cond && pass
	l.p("/-- cmap/cmap.go: Table.Get passes `func(code) = mac.DecodeOne(byte(code))` to the decoder of every format\nfor platform 1, encoding 0 (source shape checked by the extractor) -/\n")
	l.p("def getMacClosureShape : Bool := %v\n", closure && cond && pass)
	l.write()
}
