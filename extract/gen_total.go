package main

// Facts for C02 (area `total`): the site inventory of every modelled decoder, compared with the
// committed expectation lean/SfntV/Tie/<name>.json, and the limits the checked-index models
// use (regenerated into Generated/Total.lean and tied to the models' literals by
// `C02_facts` in Props/C02.lean).
//
// A changed/added/removed site or guard is recorded under facts["sites.<name>"] (shown by
// ./check in `facts_differ_from_pinned_tree`); it does not fail the extractor.

import (
	"encoding/json"
	"fmt"
	"go/ast"
	"go/token"
	"os"
	"path/filepath"
	"sort"
	"strings"
)

func init() { gens = append(gens, genTotal) }

// the functions modelled in checked-index style (lean/SfntV/Model/Total*.lean)
var totalFuncs = []struct{ name, rel, fn string }{
	{"kern.Read", "kern/kern.go", "Read"},
	{"gdef.Read", "opentype/gdef/gdef.go", "Read"},
	{"maxp.Read", "maxp/maxp.go", "Read"},
	{"header.Read", "header/tables.go", "Read"},
	{"cmap.Decode", "cmap/cmap.go", "Decode"},
	{"cmap.Table.Get", "cmap/cmap.go", "Table.Get"},
	{"cmap.decodeFormat0", "cmap/format0.go", "decodeFormat0"},
	{"cmap.Format0.Lookup", "cmap/format0.go", "Format0.Lookup"},
	{"cmap.decodeFormat4", "cmap/format4.go", "decodeFormat4"},
	{"cmap.decodeFormat6", "cmap/format6.go", "decodeFormat6"},
	{"cmap.decodeFormat12", "cmap/format12.go", "decodeFormat12"},
	{"glyf.decodeLoca", "glyf/loca.go", "decodeLoca"},
	{"glyf.Decode", "glyf/glyf.go", "Decode"},
	{"glyf.decodeGlyph", "glyf/composite.go", "decodeGlyph"},
	{"glyf.decodeGlyphComposite", "glyf/composite.go", "decodeGlyphComposite"},
	{"glyf.SimpleGlyph.removePadding", "glyf/simple.go", "SimpleGlyph.removePadding"},
	{"glyf.SimpleGlyph.Decode", "glyf/simple.go", "SimpleGlyph.Decode"},
	{"glyf.Glyph.Components", "glyf/composite.go", "Glyph.Components"},
	{"hmtx.Decode", "hmtx/hmtx.go", "Decode"},
	{"head.Read", "head/head.go", "Read"},
	{"os2.Read", "os2/os2.go", "Read"},
	{"post.Read", "post/post.go", "Read"},
	{"coverage.Read", "opentype/coverage/coverage.go", "Read"},
	{"coverage.ReadSet", "opentype/coverage/set.go", "ReadSet"},
	{"classdef.Read", "opentype/classdef/classdef.go", "Read"},
	{"name.Decode", "name/name.go", "Decode"},
	{"name.utf16Decode", "name/name.go", "utf16Decode"},
	{"cff.readIndex", "cff/index.go", "readIndex"},
	{"cff.readIndexAt", "cff/index.go", "readIndexAt"},
	{"cff.decodeDict", "cff/dict.go", "decodeDict"},
	{"cff.decodeFloat", "cff/dict.go", "decodeFloat"},
	{"cff.readCharset", "cff/charset.go", "readCharset"},
	{"cff.readEncoding", "cff/encoding.go", "readEncoding"},
	{"cff.readFDSelect", "cff/fdselect.go", "readFDSelect"},
	{"gtab.readScriptList", "opentype/gtab/scriptlist.go", "readScriptList"},
	{"gtab.readScriptTable", "opentype/gtab/scriptlist.go", "ScriptListInfo.readScriptTable"},
	{"gtab.readLangSysTable", "opentype/gtab/scriptlist.go", "readLangSysTable"},
	{"gtab.readFeatureList", "opentype/gtab/featurelist.go", "readFeatureList"},
	{"gtab.readLookupList", "opentype/gtab/lookup.go", "readLookupList"},
	{"gtab.readExtensionSubtable", "opentype/gtab/lookup.go", "readExtensionSubtable"},
	{"gtab.readGsubSubtable", "opentype/gtab/gsub.go", "readGsubSubtable"},
	{"gtab.readGsub1_1", "opentype/gtab/gsub.go", "readGsub1_1"},
	{"gtab.readGsub1_2", "opentype/gtab/gsub.go", "readGsub1_2"},
	{"gtab.readGsub2_1", "opentype/gtab/gsub.go", "readGsub2_1"},
	{"gtab.readGsub3_1", "opentype/gtab/gsub.go", "readGsub3_1"},
	{"gtab.readGsub4_1", "opentype/gtab/gsub.go", "readGsub4_1"},
	{"gtab.readGsub8_1", "opentype/gtab/gsub.go", "readGsub8_1"},
	{"gtab.readNested", "opentype/gtab/nested.go", "readNested"},
	{"gtab.readSeqContext1", "opentype/gtab/nested.go", "readSeqContext1"},
	{"gtab.readSeqContext2", "opentype/gtab/nested.go", "readSeqContext2"},
	{"gtab.readSeqContext3", "opentype/gtab/nested.go", "readSeqContext3"},
	{"gtab.readChainedSeqContext1", "opentype/gtab/nested.go", "readChainedSeqContext1"},
	{"gtab.readChainedSeqContext2", "opentype/gtab/nested.go", "readChainedSeqContext2"},
	{"gtab.readChainedSeqContext3", "opentype/gtab/nested.go", "readChainedSeqContext3"},
	{"gtab.readGposSubtable", "opentype/gtab/gpos.go", "readGposSubtable"},
	{"gtab.readGpos1_1", "opentype/gtab/gpos.go", "readGpos1_1"},
	{"gtab.readGpos1_2", "opentype/gtab/gpos.go", "readGpos1_2"},
	{"gtab.readGpos2_1", "opentype/gtab/gpos.go", "readGpos2_1"},
	{"gtab.readGpos2_2", "opentype/gtab/gpos.go", "readGpos2_2"},
	{"gtab.readGpos3_1", "opentype/gtab/gpos.go", "readGpos3_1"},
	{"gtab.readGpos5_1", "opentype/gtab/gpos5.go", "readGpos5_1"},
	{"anchor.Read", "opentype/anchor/anchor.go", "Read"},
	{"markarray.Read", "opentype/markarray/markarray.go", "Read"},
}

type tieSite struct {
	ID     string   `json:"id"`
	Kind   string   `json:"kind"`
	Expr   string   `json:"expr"`
	Guards []string `json:"guards"`
	Class  string   `json:"class"`
	Model  string   `json:"model"` // checked operation of the Lean model standing for this site
}

// totalAllUnmapped: no entry of the expectation names a model operation (skeleton only).
func totalAllUnmapped(exp []tieSite) bool {
	for _, e := range exp {
		if strings.TrimSpace(e.Model) != "" {
			return false
		}
	}
	return true
}

func sameStrings(a, b []string) bool {
	if len(a) != len(b) {
		return false
	}
	for i := range a {
		if a[i] != b[i] {
			return false
		}
	}
	return true
}

// condConst finds, in fn, the first binary comparison `<ident> <op> <constant expr>` on the
// given identifier and returns the constant's value.
func condConst(rel, fn, ident string, op token.Token) string {
	fd := funcDecl(rel, fn)
	res := ""
	if fd == nil {
		return "0"
	}
	ast.Inspect(fd.Body, func(n ast.Node) bool {
		if be, ok := n.(*ast.BinaryExpr); ok && res == "" && be.Op == op {
			if id, ok := be.X.(*ast.Ident); ok && id.Name == ident {
				if v, ok := evalConst(be.Y); ok {
					res = v
				}
			}
		}
		return true
	})
	if res == "" {
		fail("%s: %s: no comparison `%s %s <const>` found", rel, fn, ident, op)
		return "0"
	}
	return res
}

// maskConst finds `<ident> & <const> != <const>` and returns mask and value.
func maskConst(rel, fn, ident string) (string, string) {
	fd := funcDecl(rel, fn)
	mask, val := "", ""
	if fd == nil {
		return "0", "0"
	}
	ast.Inspect(fd.Body, func(n ast.Node) bool {
		if be, ok := n.(*ast.BinaryExpr); ok && mask == "" && be.Op == token.NEQ {
			if in, ok := be.X.(*ast.BinaryExpr); ok && in.Op == token.AND {
				if id, ok := in.X.(*ast.Ident); ok && id.Name == ident {
					m, ok1 := evalConst(in.Y)
					v, ok2 := evalConst(be.Y)
					if ok1 && ok2 && v != "0" {
						mask, val = m, v
					}
				}
			}
		}
		return true
	})
	if mask == "" {
		fail("%s: %s: no test `%s & <const> != <const>` found", rel, fn, ident)
		return "0", "0"
	}
	return mask, val
}

func genTotal() {
	tieDir := filepath.Join(filepath.Dir(outDir), "Tie")
	all := map[string][]site{}
	for _, f := range totalFuncs {
		ss := sitesOf(f.rel, f.fn)
		all[f.name] = ss

		cur := map[string]site{}
		dd := 0
		for _, s := range ss {
			cur[s.ID] = s
			if s.Class == "data-dependent" || s.Class == "explicit" {
				dd++
			}
		}
		fact := map[string]any{"sites": len(ss), "to_be_matched_by_model": dd}

		path := filepath.Join(tieDir, f.name+".json")
		var exp []tieSite
		data, err := os.ReadFile(path)
		if err == nil {
			err = json.Unmarshal(data, &exp)
		}
		if os.Getenv("VERIF_WRITE_TIE") == "1" {
			// (re)write the expectation from the current tree, keeping the model column
			old := map[string]string{}
			for _, e := range exp {
				old[e.ID] = e.Model
			}
			out := make([]tieSite, len(ss))
			for i, s := range ss {
				out[i] = tieSite{s.ID, s.Kind, s.Expr, s.Guards, s.Class, old[s.ID]}
				if out[i].Guards == nil {
					out[i].Guards = []string{}
				}
			}
			js, _ := json.MarshalIndent(out, "", " ")
			_ = os.MkdirAll(tieDir, 0o755)
			_ = os.WriteFile(path, append(js, '\n'), 0o644)
			exp, err = out, nil
		}
		if err != nil {
			fact["status"] = "no-expectation-file"
		} else {
			var added, removed, changed, unmapped []string
			seen := map[string]bool{}
			for _, e := range exp {
				seen[e.ID] = true
				s, ok := cur[e.ID]
				switch {
				case !ok:
					removed = append(removed, e.ID)
				case s.Kind != e.Kind || s.Expr != e.Expr || s.Class != e.Class || !sameStrings(s.Guards, e.Guards):
					changed = append(changed, fmt.Sprintf("%s: guards/class now %s %v", e.ID, s.Class, s.Guards))
				}
				if (e.Class == "data-dependent" || e.Class == "explicit") && strings.TrimSpace(e.Model) == "" {
					unmapped = append(unmapped, e.ID)
				}
			}
			for _, s := range ss {
				if !seen[s.ID] {
					added = append(added, s.ID+" @"+s.Pos)
				}
			}
			sort.Strings(added)
			sort.Strings(removed)
			sort.Strings(changed)
			if len(added)+len(removed)+len(changed) == 0 {
				fact["status"] = "match"
			} else {
				fact["status"] = "differs"
				fact["added"] = added
				fact["removed"] = removed
				fact["changed"] = changed
			}
			if len(unmapped) > 0 {
				fact["without_model_operation"] = unmapped
			}
		}
		if err == nil && len(exp) > 0 && totalAllUnmapped(exp) {
			// no model operation named for ANY site: the checked-index model does not exist yet; the
			// inventory is recorded, but the function is not part of the tie (V line total.sites)
			facts["sites-pending."+f.name] = fact
			continue
		}
		facts["sites."+f.name] = fact
	}
	js, _ := json.MarshalIndent(all, "", " ")
	if err := os.WriteFile(filepath.Join(outDir, "sites.json"), append(js, '\n'), 0o644); err != nil {
		fail("write sites.json: %v", err)
	}

	// limits used by the models
	l := newLean("Total")
	minLen := condConst("kern/kern.go", "Read", "length", token.LSS)
	mask, val := maskConst("kern/kern.go", "Read", "flags")
	maxTab := condConst("header/tables.go", "Read", "numTables", token.GTR)
	l.p("/-- kern/kern.go Read: a subtable shorter than this is refused (`length < 6+8`) -/\ndef kernMinSubtableLen : Nat := %s\n\n", minLen)
	l.p("/-- kern/kern.go Read: `flags&mask != value` skips the subtable -/\ndef kernFlagMask : Nat := %s\ndef kernFlagValue : Nat := %s\n\n", mask, val)
	l.p("/-- header/tables.go Read: more tables than this are refused -/\ndef headerMaxTables : Nat := %s\n", maxTab)
	l.write()
	facts["total.kernMinSubtableLen"] = minLen
	facts["total.kernFlagMask"] = mask
	facts["total.kernFlagValue"] = val
	facts["total.headerMaxTables"] = maxTab
}
