package main

import (
	"go/ast"
	"go/token"
	"regexp/syntax"
	"strconv"
	"strings"
)

// C20: the character class of PostScriptName's regexp (font.go) as a 128-entry Boolean
// table, and the string literals of the name generators.

func init() { gens = append(gens, genGNames) }

func stringLitsIn(rel, fn string) []string {
	fd := funcDecl(rel, fn)
	var out []string
	if fd == nil {
		return out
	}
	ast.Inspect(fd.Body, func(n ast.Node) bool {
		if bl, ok := n.(*ast.BasicLit); ok && bl.Kind == token.STRING {
			out = append(out, bl.Value)
		}
		return true
	})
	return out
}

func genGNames() {
	l := newLean("GNames")

	// the regexp literal: the argument of regexp.MustCompile in Font.PostScriptName
	var lit string
	if fd := funcDecl("font.go", "Font.PostScriptName"); fd != nil {
		ast.Inspect(fd.Body, func(n ast.Node) bool {
			call, ok := n.(*ast.CallExpr)
			if !ok {
				return true
			}
			if sel, ok := call.Fun.(*ast.SelectorExpr); ok && sel.Sel.Name == "MustCompile" && len(call.Args) == 1 {
				if bl, ok := call.Args[0].(*ast.BasicLit); ok && bl.Kind == token.STRING {
					lit, _ = strconv.Unquote(bl.Value)
				}
			}
			return true
		})
		// the replacement must be the empty string: ReplaceAllString(name, "")
		if !strings.Contains(src(fd), `ReplaceAllString(name, "")`) {
			fail("font.go: PostScriptName no longer deletes the matches")
		}
	}
	if lit == "" {
		fail("font.go: PostScriptName regexp literal not found")
	}
	re, err := syntax.Parse(lit, syntax.Perl)
	keep := make([]bool, 128)
	if err != nil {
		fail("font.go: PostScriptName regexp does not parse: %v", err)
	} else {
		re = re.Simplify()
		cls := re
		if re.Op == syntax.OpPlus && len(re.Sub) == 1 {
			cls = re.Sub[0]
		} else {
			fail("font.go: PostScriptName regexp is not of the form [class]+ (op %v)", re.Op)
		}
		if cls.Op != syntax.OpCharClass {
			fail("font.go: PostScriptName regexp is not a character class")
		}
		// cls.Rune: pairs lo,hi of DELETED runes; kept = complement
		deleted := func(c rune) bool {
			for i := 0; i+1 < len(cls.Rune); i += 2 {
				if cls.Rune[i] <= c && c <= cls.Rune[i+1] {
					return true
				}
			}
			return false
		}
		for c := 0; c < 128; c++ {
			keep[c] = !deleted(rune(c))
		}
		// everything from 128 up must be deleted: one range must cover [128, MaxRune]
		covered := false
		for i := 0; i+1 < len(cls.Rune); i += 2 {
			if cls.Rune[i] <= 128 && cls.Rune[i+1] >= 0x10FFFF {
				covered = true
			}
		}
		if !covered {
			fail("font.go: PostScriptName keeps some non-ASCII rune")
		}
	}
	facts["gnames.psNameRegexp"] = lit
	l.p("/-- font.go: PostScriptName deletes every match of the regexp %s;\n    entry c says whether the ASCII character c is KEPT (every rune ≥ 128 is deleted: checked by the generator) -/\n", strconv.Quote(lit))
	l.p("def psNameKeep : List Bool := [")
	for c := 0; c < 128; c++ {
		if c%16 == 0 {
			l.p("\n  ")
		}
		if c > 0 {
			l.p(",")
		}
		if keep[c] {
			l.p("true")
		} else {
			l.p("false")
		}
	}
	l.p("]\n\n")

	emit := func(name, doc string, lits []string) {
		l.p("/-- %s -/\ndef %s : List String := [", doc, name)
		for i, s := range lits {
			if i > 0 {
				l.p(", ")
			}
			l.p("%s", leanStr(s))
		}
		l.p("]\n\n")
	}
	a := stringLitsIn("names.go", "Font.MakeGlyphNames")
	b := stringLitsIn("names.go", "makeVariant")
	c := stringLitsIn("cff/convert.go", "Outlines.makeNames")
	facts["gnames.lits.MakeGlyphNames"] = a
	facts["gnames.lits.makeVariant"] = b
	facts["gnames.lits.makeNames"] = c
	emit("litsMakeGlyphNames", "names.go: string literals of MakeGlyphNames, in source order", a)
	emit("litsMakeVariant", "names.go: string literals of makeVariant", b)
	emit("litsCffMakeNames", "cff/convert.go: string literals of makeNames", c)
	l.write()
}
