package main

// Facts for the Type 2 charstring interpreter/encoder (properties C05, C04):
// opcode numbers, stack limit, call-depth limit, transient-array size, subroutine
// bias rule — all read from cff/t2decode.go and cff/t2encode.go.

import (
	"go/ast"
	"go/token"
	"strings"
)

func init() { gens = append(gens, genT2) }

func genT2() {
	const dec = "cff/t2decode.go"
	l := newLean("T2")

	// opcode constants: every package-level `t2xxx t2op = lit`
	type op struct{ name, val string }
	var ops []op
	for _, d := range file(dec).Decls {
		gd, ok := d.(*ast.GenDecl)
		if !ok || gd.Tok != token.CONST {
			continue
		}
		for _, s := range gd.Specs {
			vs, ok := s.(*ast.ValueSpec)
			if !ok {
				continue
			}
			for i, n := range vs.Names {
				if !strings.HasPrefix(n.Name, "t2") || i >= len(vs.Values) {
					continue
				}
				if id, ok := vs.Type.(*ast.Ident); !ok || id.Name != "t2op" {
					continue
				}
				v, ok := evalConst(vs.Values[i])
				if !ok {
					fail("%s: %s is not a literal", dec, n.Name)
					continue
				}
				ops = append(ops, op{n.Name, v})
			}
		}
	}
	if len(ops) == 0 {
		fail("%s: no t2op constants found", dec)
	}
	opFacts := map[string]string{}
	for _, o := range ops {
		l.p("/-- cff/t2decode.go: const %s -/\ndef %s : Nat := %s\n", o.name, o.name, o.val)
		opFacts[o.name] = o.val
	}
	facts["t2.opcodes"] = opFacts
	l.p("\n/-- all t2op constants of cff/t2decode.go, in source order -/\ndef t2opTable : List (String × Nat) := [\n")
	for i, o := range ops {
		sep := ","
		if i == 0 {
			sep = " "
		}
		l.p("  %s(\"%s\", %s)\n", sep, o.name, o.val)
	}
	l.p("]\n\n")

	ms := constNat("cff/t2encode.go", "maxStack")
	facts["t2.maxStack"] = ms
	l.p("/-- cff/t2encode.go: const maxStack -/\ndef t2maxStack : Nat := %s\n\n", ms)

	// call depth: `len(cmdStack) > N`; storage: `make([]float64, N)` assigned to storage; `m >= N`
	depth, storeMake, storeLim := "", "", ""
	if fd := funcDecl(dec, "decodeInfo.decodeCharString"); fd != nil {
		ast.Inspect(fd.Body, func(n ast.Node) bool {
			switch x := n.(type) {
			case *ast.BinaryExpr:
				if x.Op == token.GTR && src(x.X) == "len(cmdStack)" {
					if v, ok := evalConst(x.Y); ok {
						depth = v
					}
				}
				if x.Op == token.GEQ && src(x.X) == "m" {
					if v, ok := evalConst(x.Y); ok {
						storeLim = v
					}
				}
			case *ast.AssignStmt:
				if len(x.Lhs) == 1 && len(x.Rhs) == 1 && src(x.Lhs[0]) == "storage" {
					if c, ok := x.Rhs[0].(*ast.CallExpr); ok && src(c.Fun) == "make" && len(c.Args) == 2 {
						if v, ok := evalConst(c.Args[1]); ok {
							storeMake = v
						}
					}
				}
			}
			return true
		})
	}
	if depth == "" || storeMake == "" || storeLim == "" {
		fail("%s: call depth / storage size not found (depth=%q make=%q lim=%q)", dec, depth, storeMake, storeLim)
		depth, storeMake, storeLim = "0", "0", "0"
	}
	facts["t2.callDepth"] = depth
	facts["t2.storageSize"] = storeMake
	facts["t2.storagePutLimit"] = storeLim
	l.p("/-- cff/t2decode.go decodeCharString: `len(cmdStack) > N` -/\ndef t2callDepth : Nat := %s\n", depth)
	l.p("/-- cff/t2decode.go decodeCharString: `storage = make([]float64, N)` -/\ndef t2storageSize : Nat := %s\n", storeMake)
	l.p("/-- cff/t2decode.go decodeCharString (put): `m >= N` -/\ndef t2storagePutLimit : Nat := %s\n\n", storeLim)

	// getSubr: if nSubrs < T1 { offset = B1 } else if nSubrs < T2 { offset = B2 } else { offset = B3 }
	var th, bias []string
	if fd := funcDecl(dec, "getSubr"); fd != nil {
		ast.Inspect(fd.Body, func(n ast.Node) bool {
			switch x := n.(type) {
			case *ast.BinaryExpr:
				if x.Op == token.LSS && src(x.X) == "nSubrs" {
					if v, ok := evalConst(x.Y); ok {
						th = append(th, v)
					}
				}
			case *ast.AssignStmt:
				if len(x.Lhs) == 1 && len(x.Rhs) == 1 && src(x.Lhs[0]) == "offset" && x.Tok == token.ASSIGN {
					if v, ok := evalConst(x.Rhs[0]); ok {
						bias = append(bias, v)
					}
				}
			}
			return true
		})
	}
	if len(th) != 2 || len(bias) != 3 {
		fail("%s: getSubr does not have the shape `if n < T1 {o=B1} else if n < T2 {o=B2} else {o=B3}` (%v %v)", dec, th, bias)
		th, bias = []string{"0", "0"}, []string{"0", "0", "0"}
	}
	facts["t2.biasThresholds"] = th
	facts["t2.biases"] = bias
	l.p("/-- cff/t2decode.go getSubr: thresholds on the number of subroutines -/\ndef t2biasThreshold1 : Nat := %s\ndef t2biasThreshold2 : Nat := %s\n", th[0], th[1])
	l.p("/-- cff/t2decode.go getSubr: offsets below the first / second threshold / above -/\ndef t2bias1 : Nat := %s\ndef t2bias2 : Nat := %s\ndef t2bias3 : Nat := %s\n", bias[0], bias[1], bias[2])
	facts["t2.src.decodeCharString.len"] = len(funcText(dec, "decodeInfo.decodeCharString"))
	l.write()
}
