#!/bin/sh
# seedbroad.sh <seed-id> — run ALL claimed checks (quick tier, 4 in parallel) against a scratch worktree of
# /repo with the kept seeded change applied; prints one line per check that reports a violation.
set -u
sid=$1
patch=/verif/seeded/$sid/patch.diff
wt=$(mktemp -d /tmp/seedwt.XXXXXX); rmdir "$wt"
git -C /repo worktree add -q --detach "$wt" HEAD || exit 2
if ! git -C "$wt" apply "$patch"; then echo "$sid patch does not apply"; git -C /repo worktree remove --force "$wt"; exit 2; fi
cd /verif
cat cfg/claimed.txt | xargs -P 4 -I{} sh -c 'VERIF_REPO='"$wt"' ./check {} > '"$wt"'.{}.out 2>&1; echo "{} rc=$? $(grep -E "^(VIOLATION|check broken)" '"$wt"'.{}.out | head -1 | cut -c1-160)"' | sort | grep -v "rc=0 $" 
rm -f "$wt".*.out
git -C /repo worktree remove --force "$wt"
(cd /verif/extract && go build -o /tmp/verif_extract_restore . && /tmp/verif_extract_restore /repo /verif/lean/SfntV/Generated >/dev/null 2>&1; rm -f /tmp/verif_extract_restore)
