#!/usr/bin/env python3
"""reseed.py <seed-id> [Cnn ...] — re-run the checks against a kept seeded change after the machinery was
strengthened, and record the outcome in seeded/<seed-id>/meta.json (first result kept as first_run_*)."""
import json, subprocess, sys, os, re
sid = sys.argv[1]
d = f'/verif/seeded/{sid}'
m = json.load(open(f'{d}/meta.json'))
checks = sys.argv[2:] or [m['property']]
out = subprocess.run(['./seedrun.sh', f'{d}/patch.diff'] + checks, cwd='/verif', capture_output=True, text=True).stdout
lines = [l for l in out.splitlines() if l.startswith(('== ', 'VIOLATION', 'check broken'))]
viol = [l for l in lines if l.startswith('VIOLATION')]
broken = [l for l in lines if l.startswith('check broken')]
detected = bool(viol) and not broken
concrete = any(not l.rstrip().endswith('no-failing-input-found') for l in viol) and not broken
if 'first_run_detected' not in m:
    m['first_run_detected'] = m.get('detected')
    m['first_run_concrete'] = m.get('detected_with_concrete_input')
    m['first_run_output'] = m.get('check_output')
changed = (detected != m.get('detected')) or (concrete != m.get('detected_with_concrete_input'))
m['detected'] = detected
m['detected_with_concrete_input'] = concrete
m['checks_run'] = './seedrun.sh seeded/%s/patch.diff %s (quick tier)' % (sid, ' '.join(checks))
m['check_output'] = lines
if changed and (detected or concrete):
    m['strengthened'] = True
# remove the replay files the seeded runs wrote
for l in viol:
    mm = re.search(r'replay=(\S+)', l)
    if mm and os.path.exists(mm.group(1)) and mm.group(1).startswith('/verif/replay/'):
        os.remove(mm.group(1))
json.dump(m, open(f'{d}/meta.json', 'w'), indent=1)
print(sid, 'detected' if detected else 'MISSED', 'concrete' if concrete else 'no-concrete', '|', ' ; '.join(lines)[:300])
