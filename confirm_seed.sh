#!/bin/sh
# confirm_seed.sh <dir with patch.diff + demo_test.go> <package dir for the demo, e.g. parser>
# Confirms in a scratch worktree: builds, full suite passes with the change, demo fails with it, passes without.
set -u
d=$1; pkg=$2
export GOFLAGS=-mod=mod GOPROXY=off GOSUMDB=off GOTOOLCHAIN=local
wt=$(mktemp -d /tmp/confwt.XXXXXX); rmdir "$wt"
git -C /repo worktree add -q --detach "$wt" HEAD || exit 2
cd "$wt"
git apply "$d/patch.diff" || { echo "APPLY-FAIL"; cd /; git -C /repo worktree remove --force "$wt"; exit 2; }
go build ./... >/dev/null 2>&1 && echo "build: ok" || echo "build: FAIL"
if go test -vet=off -count=1 ./... >/tmp/conf_suite.out 2>&1; then echo "suite-with-change: pass"; else echo "suite-with-change: FAIL"; grep -v '^ok\|no test files' /tmp/conf_suite.out | head -5; fi
cp "$d"/demo_test.go "$pkg/zz_demo_test.go"
if go test -vet=off -count=1 -run 'Demo' "./$pkg/" >/tmp/conf_demo1.out 2>&1; then echo "demo-with-change: PASS (bad)"; else echo "demo-with-change: fails (good)"; fi
git apply -R "$d/patch.diff"
if go test -vet=off -count=1 -run 'Demo' "./$pkg/" >/tmp/conf_demo2.out 2>&1; then echo "demo-without-change: pass (good)"; else echo "demo-without-change: FAILS (bad)"; tail -5 /tmp/conf_demo2.out; fi
cd /
git -C /repo worktree remove --force "$wt"
