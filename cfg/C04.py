"""Configuration of ./check C04 (see cfg/README)."""

PROP = {'drive': ['T2'], 'harness_files': ['area_t2.go'], 'modules': ['SfntV.Props.C04'],
 'required_theorems': ['C04_number_partial',
                       'C04_number_bigstep_fails'],
 'areas': [('t2enc', 3000, 100000)],
 'rule': 'distinct case lines (a float as n/2^k; a glyph: commands at scale 2^-20, stems, masks, width, '
         'default/nominal width, plus the charstring the real encoder emitted); non-trivial = number cases '
         'and glyphs with more than two commands',
 'partial': ['Only encodeNumber is modelled and proved (C04_number_partial, hypothesis |x| <= 32767 forced by '
             'the code: C04_number_bigstep_fails is the witness for defect #20).',
             'NOT modelled / NOT proved: encodeArgs, the edge proposals of encoder.AppendEdges (C04_edge_sound, '
             'C04_path_sound over every path of proposed edges), header assembly (width prefix, stem chunks, '
             'hstemhm/vstemhm, implicit vstem), C04_no_accumulation, C04_width, stack <= 48. For these the '
             'property is checked on the real code only, by the D stream t2.rt: the specification interpreter '
             '(interp strict, which enforces stack <= 48, legal operand counts and endchar) executed on the bytes '
             'emitted by (*Glyph).encodeCharString must reproduce path, stems, masks and width within 2^-17 per '
             'coordinate (sampled, 0 failures inside the hypothesis).',
             'The hooks VerifT2EncodeArgs / VerifT2Edges / VerifT2ChosenPath exist in '
             '/repo/cff/verif_export_t2.go for the edge-level V streams but are not used yet.',
             'Glyphs whose coordinates use the whole +-32000 box (steps up to 64000) are run as diagnostics (kind G): '
             'about 40% of them read back wrong (finding C04-bigstep, #20).',
             '#19 (fractional default/nominal width truncated in the Private DICT) is outside encodeCharString; it '
             'belongs to C13 and is not exercised here (dw/nw are integers in the generated cases).'],
 'modelled_not_verified': ['float64 arithmetic of encodeNumber: modelled exactly on dyadic rationals n/2^k '
                           '(float subtraction x16-x and scaling by 65536 are exact for |x| < 2^36); the amd64 '
                           'result of an out-of-range float->int32/int16 conversion (0x80000000, low 16 bits) is '
                           'modelled as observed',
                           'seehuhn.de/go/dijkstra is not modelled (and, so far, not needed: no edge theorem)'],
 'assumptions': ['Specification interpreter = Spec.T2.interp of C05 (TN5177 as remembered)',
                 'Stem values fractional beyond 16.16 are not generated (stem deltas are rounded one by one against '
                 'the unrounded previous edge, so their rounding errors can add up along the stem list)']}

LEVEL = {'text': 'Partial proof + direct check: encodeNumber is proved correct against the Type 2 interpreter for all '
         'floats |x| <= 32767 (code read back as the reported value, error <= 2^-17) and proved wrong beyond (defect '
         '#20, witness 64000); model tied to the Go function by value- and byte-exact correspondence. The rest of '
         'the compiler (operator selection, header) is not modelled: the property itself is evaluated on the real '
         'encoder output with the Lean specification interpreter on generated glyphs (all operator forms, runs longer '
         'than the stack limit, 0..96 stems, masks first and mid-path, default/explicit widths).',
 'note': 'Level is proof only for the number encoder; everything else is differential testing against the Lean '
         'specification interpreter.',
 'technique': 'Lean 4 proof (omega over div/mod, rounding lemma) + spec-interpreter round trip of real encoder output'}
