"""Configuration of ./check C04 (see cfg/README)."""

PROP = {'drive': ['T2'], 'harness_files': ['area_t2.go'], 'modules': ['SfntV.Props.C04'],
 'required_theorems': ['C04_number_partial',
                       'C04_number_bigstep_fails',
                       'C04_operand_decodes',
                       'C04_edge_sound',
                       'C04_edge_bytes',
                       'C04_path_sound',
                       'C04_no_accumulation',
                       'C04_glyph_sound_partial',
                       'C04_width',
                       'C04_stack_bound',
                       'C04_header',
                       'C04_chunk_sizes',
                       'C04_mask',
                       'C04_glyph_sound',
                       'C04_endchar',
                       'C04_glyph_fields',
                       'C04_path_no_accumulation',
                       'C04_glyph_roundtrip',
                       'C04_stems_no_accumulation',
                       'C04_stems_small',
                       'C04_stems_exact',
                       'C04_stems_accumulate_old',
                       'C04_glyph_sound_unguarded_fails'],
 'areas': [('t2enc', 3000, 100000), ('t2font', 200, 5000)],
 'rule': 'distinct case lines (a float as n/2^k; a glyph: commands at scale 2^-20, stems, masks, width, '
         'default/nominal width; per glyph four lines: encodeArgs, edge proposals at every node, assembly of the '
         'Go-chosen path, specification round trip of the emitted bytes); non-trivial = number cases and glyphs '
         'with more than two commands',
 'partial': ['C04_number_partial, C04_no_accumulation, C04_glyph_sound_partial: hypothesis |step| <= 32767 (every '
             'encoded delta, and width - nominalWidth) forced by the code (C04_number_bigstep_fails is the witness for '
             'defect #20, known finding C04-bigstep).',
             'C04_edge_sound and C04_path_sound hold for ALL twelve operator forms (rlineto, hlineto, vlineto, '
             'rlinecurve, rrcurveto, rcurveline, hhcurveto, vvcurveto, hvcurveto, vhcurveto, hflex, hflex1) and every '
             'path of proposed edges.',
             'Whole charstring: C04_header (width operand, stem chunks of 24 pairs / 23 pairs + width, hstem/vstem vs '
             'hstemhm/vstemhm, the omitted vstemhm before a leading mask), C04_chunk_sizes, C04_mask (masks inside the '
             'path section), C04_glyph_sound / C04_glyph_roundtrip (EVERY well-formed glyph, any stems, masks anywhere, '
             'every choice of edge paths: Spec.T2.interp returns the glyph with the same commands - every coordinate '
             'within 2^-17 independent of its index, C04_path_no_accumulation -, the same masks, the same stems - every '
             'edge within 2^-17 independent of its index and of the input resolution, C04_stems_no_accumulation -, the '
             'width), C04_endchar, C04_stack_bound. C04_glyph_sound_partial (glyphs without hints) is kept but '
             'superseded. Hypotheses, all decidable: GlyphWF = sub-paths start with a moveto AND every mask has exactly '
             'ceil(nStems/8) bytes AND a mask needs >= 1 stem. The encoder validates none of this (input validation, '
             'outside the property: it quantifies over glyph descriptions a charstring can represent); run on the real '
             'code at the excluded points: lineto-first glyph -> decoder rejects ("lineTo before moveTo"); mask with a '
             'byte too many -> charstring rejected (badop) by spec and Go decoder; mask with a byte missing -> the mask '
             'takes the next byte of the charstring as data; on the resulting bytes spec and Go decoder read the same '
             'different program and agree, up to the operand-count leniency of the Go decoder that belongs to C05 '
             '(quirk shortPathOpIgnored: "vlineto" left without operands draws nothing in Go, underflow in the spec: '
             't2.spec code=8b95128b048c06138c070e); mask without stems -> both reject (early); '
             'C04_glyph_sound_unguarded_fails is the Lean witness that GlyphWF is necessary. Steps within +-32767 '
             '(stepsSmall, hStemsSmall/vStemsSmall, Small: finding C04-bigstep; C04_stems_small gives a '
             'chunk-independent sufficient condition); even stem lists (encoder checks).',
             'STEMS: finding C04-stemaccum (stem deltas taken from the unrounded previous edge, so stems finer than '
             '16.16 accumulated rounding error along a chunk) was REPAIRED in the repository (b6e7b8c: prev += enc.Val); '
             'the model follows the repaired code, C04_stems_no_accumulation holds for every input resolution, '
             'C04_stems_exact for 16.16 stems; C04_stems_accumulate_old states the old behaviour about the old formula '
             '(stemChunkCodesOld); corpus/C04/stemaccum_fixed.case is the regression case.',
             'Glyphs whose coordinates use the whole +-32000 box (steps up to 64000) are run as diagnostics (kind G): '
             'about a quarter of them read back wrong (finding C04-bigstep, #20).',
             '#19 (default/nominal width in the Private DICT; selectWidths repaired in 7574c51) is outside '
             'encodeCharString and belongs to C13; dw/nw are inputs here.'],
 'font_refusal_note': 'D stream t2.fontbad (area t2font): fonts of 1-6 glyphs (simple and CID-keyed) with an odd-length '
                       'HStem/VStem list in the first / a middle / the last glyph: Font.Write must refuse; without a bad glyph the '
                       'output must read back (cff.Read) with the same glyphs (refused-or-faithful).',
 'font_level_note': 'D stream t2.fontw (area t2font): fonts with chosen width multisets (nominal == default != 0, '
                    'nominal == 0, default == 0, all equal, single glyph, integral and fractional, explicit widths at '
                    '+-107/+-108/+-1131/+-1132 from the most frequent width) are written by the real Font.Write; the '
                    'driver reads the file independently (INDEX, Top DICT, Private DICT defaultWidthX/nominalWidthX, '
                    'CharStrings) and runs Spec.T2.interp on every charstring: the widths found must be the glyphs\' widths.',
 'modelled_not_verified': ['float64 arithmetic of encodeNumber: modelled exactly on dyadic rationals n/2^k '
                           '(float subtraction x16-x and scaling by 65536 are exact for |x| < 2^36); the amd64 '
                           'result of an out-of-range float->int32/int16 conversion (0x80000000, low 16 bits) is '
                           'modelled as observed',
                           'seehuhn.de/go/dijkstra is not modelled: the theorems quantify over every path of proposed edges; that the '
                           'Go-chosen path is such a path is checked per case by the V stream t2.asm'],
 'assumptions': ['Specification interpreter = Spec.T2.interp of C05 (TN5177 as remembered)',
                 'Stem values fractional beyond 16.16 are not drawn by the random generator of the D stream (proved for '
                 'all resolutions; the regression case in corpus/C04 has 2^-20 stems)']}

LEVEL = {'text': 'Proof + correspondence: encodeNumber proved correct against the Type 2 interpreter for all floats '
         '|x| <= 32767 (and proved wrong beyond: defect #20). encodeArgs, every edge proposal of encoder.AppendEdges '
         '(all twelve operator forms with the maxStack bound), encodePaths and the header assembly are modelled in '
         'Lean and agree exactly with the Go code on every generated glyph (edges at every node, not only the chosen '
         'path). Proved for all inputs: every proposed rlineto/hlineto/vlineto/rlinecurve/rrcurveto/rcurveline/'
         'hhcurveto/vvcurveto/hvcurveto/vhcurveto/hflex/hflex1 edge is sound (<= 48 operands, legal count, draws exactly the covered commands under the '
         'specification interpreter), and ANY path of such edges compiles to bytes the specification interpreter '
         'executes as exactly the sub-path (the shortest-path routine is an untrusted oracle). Proved as well: the whole charstring of a glyph without hints is '
         'interpreted back to the drawn glyph (interp level, endchar, width). Not proved: header with stems and '
         'masks; for those the property is evaluated on the '
         'real encoder output with the Lean specification interpreter (D stream), with targeted generator families '
         'around every applicability condition of every operator form.',
 'note': 'Trusted: Lean kernel + 3 standard axioms; hand-written model tied by exact sampled correspondence; TN5177 as '
         'remembered; float subtraction in encodeArgs exact for the generated scales.',
 'technique': 'Lean 4 model of the optimiser\'s edge relation + soundness of every edge / every path (induction over '
              'the proposing loops) + differential correspondence at edge level + spec-interpreter round trip'}
