"""Configuration of ./check C04 (see cfg/README)."""

PROP = {'drive': ['T2'], 'harness_files': ['area_t2.go'], 'modules': ['SfntV.Props.C04'],
 'required_theorems': ['C04_number_partial',
                       'C04_number_bigstep_fails',
                       'C04_operand_decodes',
                       'C04_edge_sound_partial',
                       'C04_edge_bytes',
                       'C04_path_sound_partial'],
 'areas': [('t2enc', 3000, 100000)],
 'rule': 'distinct case lines (a float as n/2^k; a glyph: commands at scale 2^-20, stems, masks, width, '
         'default/nominal width; per glyph four lines: encodeArgs, edge proposals at every node, assembly of the '
         'Go-chosen path, specification round trip of the emitted bytes); non-trivial = number cases and glyphs '
         'with more than two commands',
 'partial': ['C04_number_partial: hypothesis |x| <= 32767 forced by the code (C04_number_bigstep_fails is the witness '
             'for defect #20, known finding C04-bigstep).',
             'C04_edge_sound_partial / C04_path_sound_partial cover the edges for rlineto, hlineto, vlineto, '
             'rlinecurve, rrcurveto, rcurveline, hhcurveto, vvcurveto, hflex, hflex1; the edges for hvcurveto and '
             'vhcurveto are modelled (V stream t2.edges, exact) but their soundness is NOT proved yet '
             '(C04_edge_sound_full, C04_path_sound_full are stated as definitions). For them the property rests on '
             'the D stream t2.rt.',
             'The path theorems are stated with the specification interpreter\'s step function (relation Reaches: '
             'finitely many successful steps, each consuming code); the wrapper that turns this into a statement '
             'about Spec.T2.interp of a whole charstring (moveto, masks, header, endchar around the sub-paths) is not '
             'proved: C04_header (width prefix, stem chunks of 24/23 pairs, hstemhm/vstemhm, implicit vstem), '
             'C04_no_accumulation, C04_width, C04_endchar are NOT proved. Header assembly, encodeArgs and encodePaths '
             'are modelled and tied by exact V streams (t2.encargs, t2.asm) and checked end to end by t2.rt.',
             'Glyphs whose coordinates use the whole +-32000 box (steps up to 64000) are run as diagnostics (kind G): '
             'about a quarter of them read back wrong (finding C04-bigstep, #20).',
             '#19 (fractional default/nominal width truncated in the Private DICT) is outside encodeCharString; it '
             'belongs to C13 and is not exercised here (dw/nw are integers in the generated cases).'],
 'modelled_not_verified': ['float64 arithmetic of encodeNumber: modelled exactly on dyadic rationals n/2^k '
                           '(float subtraction x16-x and scaling by 65536 are exact for |x| < 2^36); the amd64 '
                           'result of an out-of-range float->int32/int16 conversion (0x80000000, low 16 bits) is '
                           'modelled as observed',
                           'seehuhn.de/go/dijkstra is not modelled: the theorems quantify over every path of proposed edges; that the '
                           'Go-chosen path is such a path is checked per case by the V stream t2.asm'],
 'assumptions': ['Specification interpreter = Spec.T2.interp of C05 (TN5177 as remembered)',
                 'Stem values fractional beyond 16.16 are not generated (stem deltas are rounded one by one against '
                 'the unrounded previous edge, so their rounding errors can add up along the stem list)']}

LEVEL = {'text': 'Proof + correspondence: encodeNumber proved correct against the Type 2 interpreter for all floats '
         '|x| <= 32767 (and proved wrong beyond: defect #20). encodeArgs, every edge proposal of encoder.AppendEdges '
         '(all twelve operator forms with the maxStack bound), encodePaths and the header assembly are modelled in '
         'Lean and agree exactly with the Go code on every generated glyph (edges at every node, not only the chosen '
         'path). Proved for all inputs: every proposed rlineto/hlineto/vlineto/rlinecurve/rrcurveto/rcurveline/'
         'hhcurveto/vvcurveto/hflex/hflex1 edge is sound (<= 48 operands, legal count, draws exactly the covered commands under the '
         'specification interpreter), and ANY path of such edges compiles to bytes the specification interpreter '
         'executes as exactly the sub-path (the shortest-path routine is an untrusted oracle). Not proved: the '
         'hvcurveto/vhcurveto forms, header and whole-charstring wrapper; for those the property is evaluated on the '
         'real encoder output with the Lean specification interpreter (D stream), with targeted generator families '
         'around every applicability condition of every operator form.',
 'note': 'Trusted: Lean kernel + 3 standard axioms; hand-written model tied by exact sampled correspondence; TN5177 as '
         'remembered; float subtraction in encodeArgs exact for the generated scales.',
 'technique': 'Lean 4 model of the optimiser\'s edge relation + soundness of every edge / every path (induction over '
              'the proposing loops) + differential correspondence at edge level + spec-interpreter round trip'}
