"""Configuration of ./check C04 (see cfg/README)."""

PROP = {'drive': ['T2'], 'harness_files': ['area_t2.go'], 'modules': ['SfntV.Props.C04'],
 'required_theorems': ['C04_number_partial',
                       'C04_number_bigstep_fails',
                       'C04_operand_decodes',
                       'C04_edge_sound',
                       'C04_edge_bytes',
                       'C04_path_sound',
                       'C04_no_accumulation',
                       'C04_glyph_sound_partial',
                       'C04_width'],
 'areas': [('t2enc', 3000, 100000)],
 'rule': 'distinct case lines (a float as n/2^k; a glyph: commands at scale 2^-20, stems, masks, width, '
         'default/nominal width; per glyph four lines: encodeArgs, edge proposals at every node, assembly of the '
         'Go-chosen path, specification round trip of the emitted bytes); non-trivial = number cases and glyphs '
         'with more than two commands',
 'partial': ['C04_number_partial, C04_no_accumulation, C04_glyph_sound_partial: hypothesis |step| <= 32767 (every '
             'encoded delta, and width - nominalWidth) forced by the code (C04_number_bigstep_fails is the witness for '
             'defect #20, known finding C04-bigstep).',
             'C04_edge_sound and C04_path_sound hold for ALL twelve operator forms (rlineto, hlineto, vlineto, '
             'rlinecurve, rrcurveto, rcurveline, hhcurveto, vvcurveto, hvcurveto, vhcurveto, hflex, hflex1) and every '
             'path of proposed edges.',
             'C04_glyph_sound_partial (Spec.T2.interp on the bytes of encodeCharString returns the drawn glyph, for '
             'every choice of edge paths, program ends with endchar, no error hence stack <= 48 and legal operand '
             'counts) covers glyphs WITHOUT stem hints and masks. Forced hypotheses besides the step bound: drawing '
             'only after a moveto (cmdsOK) - the encoder happily emits a lineto-first glyph, which the decoder rejects '
             '("lineTo before moveTo"); this is input validation the encoder does not do, observed on the real code, '
             'not counted as a finding because the property quantifies over glyph descriptions that start sub-paths '
             'with a move.',
             'NOT proved: C04_header (stem chunks of 24/23 pairs, hstemhm/vstemhm, implicit vstem before a leading '
             'mask), masks inside the path section, i.e. C04_glyph_sound_full (stated as a definition). Header '
             'assembly and masks are modelled and tied by the exact V stream t2.asm and checked end to end by t2.rt '
             '(header sweep: {0,1,23,24,25,48}^2 stem pairs x width x mask-first on every run). Further hypotheses '
             'the full theorem would need, read off the decoder: each mask has exactly ceil(nStems/8) bytes and there '
             'is at least one stem when a mask is present; stem lists have even length (encoder checks this one).',
             'C04_no_accumulation is stated per coordinate for an arbitrary decoder position (any history); the '
             'list-level corollary over drawCmds is not spelled out. Stem deltas are NOT covered by it: they are '
             'encoded against the unrounded previous edge, so rounding errors can add up along a stem chunk for '
             'stems finer than 16.16 (not generated; stems in the streams are 16.16-exact).',
             'Glyphs whose coordinates use the whole +-32000 box (steps up to 64000) are run as diagnostics (kind G): '
             'about a quarter of them read back wrong (finding C04-bigstep, #20).',
             '#19 (default/nominal width in the Private DICT; selectWidths repaired in 7574c51) is outside '
             'encodeCharString and belongs to C13; dw/nw are inputs here.'],
 'modelled_not_verified': ['float64 arithmetic of encodeNumber: modelled exactly on dyadic rationals n/2^k '
                           '(float subtraction x16-x and scaling by 65536 are exact for |x| < 2^36); the amd64 '
                           'result of an out-of-range float->int32/int16 conversion (0x80000000, low 16 bits) is '
                           'modelled as observed',
                           'seehuhn.de/go/dijkstra is not modelled: the theorems quantify over every path of proposed edges; that the '
                           'Go-chosen path is such a path is checked per case by the V stream t2.asm'],
 'assumptions': ['Specification interpreter = Spec.T2.interp of C05 (TN5177 as remembered)',
                 'Stem values fractional beyond 16.16 are not generated (stem deltas are rounded one by one against '
                 'the unrounded previous edge, so their rounding errors can add up along the stem list)']}

LEVEL = {'text': 'Proof + correspondence: encodeNumber proved correct against the Type 2 interpreter for all floats '
         '|x| <= 32767 (and proved wrong beyond: defect #20). encodeArgs, every edge proposal of encoder.AppendEdges '
         '(all twelve operator forms with the maxStack bound), encodePaths and the header assembly are modelled in '
         'Lean and agree exactly with the Go code on every generated glyph (edges at every node, not only the chosen '
         'path). Proved for all inputs: every proposed rlineto/hlineto/vlineto/rlinecurve/rrcurveto/rcurveline/'
         'hhcurveto/vvcurveto/hvcurveto/vhcurveto/hflex/hflex1 edge is sound (<= 48 operands, legal count, draws exactly the covered commands under the '
         'specification interpreter), and ANY path of such edges compiles to bytes the specification interpreter '
         'executes as exactly the sub-path (the shortest-path routine is an untrusted oracle). Proved as well: the whole charstring of a glyph without hints is '
         'interpreted back to the drawn glyph (interp level, endchar, width). Not proved: header with stems and '
         'masks; for those the property is evaluated on the '
         'real encoder output with the Lean specification interpreter (D stream), with targeted generator families '
         'around every applicability condition of every operator form.',
 'note': 'Trusted: Lean kernel + 3 standard axioms; hand-written model tied by exact sampled correspondence; TN5177 as '
         'remembered; float subtraction in encodeArgs exact for the generated scales.',
 'technique': 'Lean 4 model of the optimiser\'s edge relation + soundness of every edge / every path (induction over '
              'the proposing loops) + differential correspondence at edge level + spec-interpreter round trip'}
