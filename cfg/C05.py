"""Configuration of ./check C05 (see cfg/README)."""

PROP = {'drive': ['T2'], 'modules': ['SfntV.Props.C05'],
 'required_theorems': ['C05_opcodes',
                       'C05_limits',
                       'C05_bias',
                       'C05_number_roundtrip',
                       'C05_fixed_roundtrip',
                       'C05_rejects_overflow',
                       'C05_rejects_underflow',
                       'C05_rejects_depth',
                       'C05_rejects_subr',
                       'C05_rejects_subr_run',
                       'C05_rejects_nomove',
                       'C05_rejects_missing_endchar',
                       'C05_rlineto',
                       'C05_hvcurveto_trailing',
                       'C05_flex1_axis',
                       'C05_hflex_returns',
                       'C05_progress_pathop_partial',
                       'C05_progress',
                       'C05_quirks_irrelevant',
                       'C05_loop_fuel',
                       'C05_step_consumes',
                       'C05_mul_deviates',
                       'C05_flex1_repaired',
                       'C05_clamp_deviates'],
 'areas': [('t2', 4000, 120000)],
 'rule': 'distinct case lines (charstring bytes, local/global subroutine tables, default/nominal width); '
         'non-trivial = more than 8 code bytes or a designed boundary/fault program',
 'partial': ['C05_progress (WF p -> the specification interpreter returns a glyph) and C05_quirks_irrelevant (WF p -> '
             'Agrees p -> interp goQuirks = interp strict) are proved for whole programs of the static grammar WF '
             '(Spec/T2.lean wfCheck): literal operands in all encodings (|v| <= 32000), optional leading width on the '
             'first stack-clearing operator, hstem/vstem/hstemhm/vstemhm, hintmask/cntrmask with implicit vstem '
             'operands and ceil(nStems/8) mask bytes, rmoveto/hmoveto/vmoveto, all ten path operators and the four '
             'flex forms, abs add sub neg mul eq and or not drop dup exch ifelse random, endchar. '
             'NOT in the grammar / NOT proved: subroutine calls (callsubr, callgsubr, return: WF subroutine tables, '
             'depth <= 10) and the value-dependent operators div, sqrt, put, get, index, roll (their legality depends '
             'on operand values, which a stack-effect grammar does not track); for those the agreement of the Go '
             'decoder with the specification rests on the D stream t2.spec.',
             'Agrees (decidable, Spec.T2.agreesCheck) excludes exactly: mul (finding C05-mul); add and sub (their '
             'results are not statically within +-32000, outside of which the Go decoder clamps: finding C05-clamp); '
             'flex1 and hflex1 (they derive one delta as a sum of up to five operands, which can leave +-32000: '
             'C05-clamp). Literal operands beyond +-32000 are excluded by WF itself (C05-clamp).',
             'Fuel: C05_loop_fuel / C05_step_consumes are proved for every quirk setting.',
             'The V stream t2.wf compares the generator\'s own claim "this program is in WF / in Agrees" with the '
             'Lean checkers evaluated by the driver on the bytes (tokenizer + wfCheck + agreesCheck + canonical '
             're-encoding); the distribution t2.theorem-domain shows how many sampled programs lie in the domain of '
             'the two theorems.',
             'C05_rejects_missing_endchar covers the empty program; "no endchar anywhere => error" for arbitrary '
             'programs is checked by correspondence (fault class missing-endchar), not proved.',
             'Operand-count leniency of the Go decoder (moveto/path operators with too few or stray operands are '
             'silently ignored instead of rejected) is modelled by three Quirks flags; it is not among the fault '
             'classes C05_rejects quantifies over.'],
 'modelled_not_verified': ['float64 evaluation in decodeCharString: the model is exact 16.16 fixed point; it equals '
                           'the float computation as long as values stay multiples of 2^-16 below 2^37. div with an '
                           'inexact quotient and sqrt of a non-square leave that domain (model flag St.inexact): '
                           'mutated programs containing div/sqrt are compared as diagnostics (kind G) only',
                           'int64 wrap-around in mul and float->int conversion of values beyond 2^63 are not modelled',
                           'random: the constant 40501/65536 of the Go code is used by both configurations (TN5177 '
                           'allows any value in (0,1])'],
 'assumptions': ['Specification = my reading of Adobe TN5177 (no copy in the sandbox); x/image/font/sfnt implements '
                 'neither flex1 nor the arithmetic operators, so it cannot arbitrate the findings',
                 'subroutine tables are passed to decodeCharString through the hook VerifT2Decode (cff.Read around '
                 'the charstrings, i.e. Private DICT Subrs offsets, belongs to C13)']}

LEVEL = {'text': 'Proof + correspondence: ONE Lean Type 2 interpreter parameterised by ten named quirks; with the Go '
         'quirks it is the model of decodeCharString (value-exact correspondence on grammar-generated, mutated and '
         'random programs, subroutine tables 0..40000 across both bias thresholds), with no quirk it is the TN5177 '
         'specification (D stream: Go result = specification result on well-formed programs; fault programs rejected). '
         'Proved for all inputs: opcode numbers/limits/bias rule as regenerated from the source equal TN5177; operand '
         'decoding of all five encodings; rejection of each single-fault class; operator lemmas (rlineto, hvcurveto '
         'trailing operand, flex1 axis rule, hflex); progress of every path operator with a legal operand count. '
         'Whole-program progress and quirk-irrelevance are proved for the static grammar without subroutine calls and value-dependent operators.',
 'note': 'Trusted: Lean kernel + 3 standard axioms; hand-written model tied by sampled correspondence; float64 vs '
         'exact fixed point outside div/sqrt; TN5177 as remembered.',
 'technique': 'Lean 4 executable interpreter (model = spec + quirks), theorems by case analysis/omega/decide, '
              'differential correspondence against the real decoder'}
