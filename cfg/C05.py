"""Configuration of ./check C05 (see cfg/README)."""

PROP = {'drive': ['T2'], 'modules': ['SfntV.Props.C05'],
 'required_theorems': ['C05_opcodes',
                       'C05_limits',
                       'C05_bias',
                       'C05_number_roundtrip',
                       'C05_fixed_roundtrip',
                       'C05_rejects_overflow',
                       'C05_rejects_underflow',
                       'C05_rejects_depth',
                       'C05_rejects_subr',
                       'C05_rejects_subr_run',
                       'C05_rejects_nomove',
                       'C05_rejects_missing_endchar',
                       'C05_rlineto',
                       'C05_hvcurveto_trailing',
                       'C05_flex1_axis',
                       'C05_hflex_returns',
                       'C05_progress_pathop_partial',
                       'C05_progress',
                       'C05_quirks_irrelevant',
                       'C05_progress_calls',
                       'C05_quirks_irrelevant_calls',
                       'C05_loop_fuel',
                       'C05_step_consumes',
                       'C05_mul_deviates',
                       'C05_flex1_repaired',
                       'C05_clamp_deviates'],
 'areas': [('t2', 4000, 120000)],
 'rule': 'distinct case lines (charstring bytes, local/global subroutine tables, default/nominal width); '
         'non-trivial = more than 8 code bytes or a designed boundary/fault program',
 'partial': ['PROVED, whole programs: C05_progress / C05_quirks_irrelevant (call-free programs of the static grammar WF) '
             'and C05_progress_calls / C05_quirks_irrelevant_calls (programs with callsubr/callgsubr into stack-neutral '
             'subroutine tables: bodies = complete grammar tokens, possibly with further calls, closed by return or '
             'ending the glyph with endchar; every biased index valid, all three bias classes, tables <= 65536 '
             'entries, <= 10 nested calls, every body well formed in the state of each call site; checker wfCheckP). '
             'Grammar: literal operands in all encodings (|v| <= 32000), optional leading width on the first '
             'stack-clearing operator, hstem/vstem/hstemhm/vstemhm, hintmask/cntrmask with implicit vstem operands '
             'and ceil(nStems/8) mask bytes, the three movetos, ten path operators + four flex forms, abs add sub neg '
             'mul eq and or not drop dup exch ifelse random, endchar.',
             'NOT in the grammar / NOT proved: the value-dependent operators div, sqrt, put, get, index, roll (their '
             'legality depends on operand values; the planned abstract interpretation with known-literal slots was '
             'not done); subroutine bodies that are not sequences of complete tokens (e.g. a body that supplies only '
             'operands for an operator in the caller IS covered, a body that ends in the middle of a mask is not); '
             'return executed at top level. For these the agreement of the Go decoder with the specification rests '
             'on the D stream t2.spec.',
             'Agrees (decidable: agreesCheck / agreesCheckP) excludes exactly: mul (finding C05-mul); add and sub '
             '(results not statically within +-32000, outside of which the Go decoder clamps: finding C05-clamp); '
             'flex1 and hflex1 (they derive one delta as a sum of up to five operands: C05-clamp). Literal operands '
             'beyond +-32000 are excluded by WF itself (C05-clamp).',
             'Corners of TN5177 outside the theorems, each probed on every run against the specification interpreter '
             '(D stream, group t2.outside-theorem-probe; all agree): seac-style endchar with 4 operands (with and '
             'without width) - both accept and ignore the operands (the accented-character composition itself is not '
             'modelled on either side); deprecated dotsection - both clear the stack; flex depth operand (13th) - '
             'ignored by both (rendering hint only); vstem operands directly on a hintmask without any hstem, '
             'hstem after vstem - accepted by both (the grammar WF is stricter than TN5177 here); hintmask before '
             'any stem and stem after a hintmask - rejected by both; random - both use the constant 40501/65536 '
             '(TN5177 allows any value in (0,1]; a decoder using another value would still conform).',
             'Operand-count leniency of the Go decoder (moveto/path operators/endchar with too few or stray operands '
             'are silently ignored instead of rejected, e.g. "1 2 endchar") is modelled by three Quirks flags and '
             'probed (V only); it is not among the fault classes C05_rejects quantifies over.',
             'The V stream t2.wf carries the generator\'s claim in the case line (claim=wf+agrees|wf|nowf) and '
             'compares it with the Lean checkers evaluated by the driver on the bytes (tokenizer following calls, '
             'wfCheck/wfCheckP, agreesCheck/agreesCheckP, canonical re-encoding of program and tables); '
             't2.theorem-domain / t2.theorem-domain-calls show how many sampled programs lie in the theorems\' '
             'domain, with and without subroutine calls.',
             'Fuel: C05_loop_fuel / C05_step_consumes for every quirk setting; nested bodies: runAt uses '
             'body.length + 1 per body, justified by the same lemma (Proofs/T2Calls.lean loop_of_run).',
             'C05_rejects_missing_endchar covers the empty program; "no endchar anywhere => error" for arbitrary '
             'programs is checked by correspondence (fault class missing-endchar), not proved.'],
 'modelled_not_verified': ['float64 evaluation in decodeCharString: the model is exact 16.16 fixed point; it equals '
                           'the float computation as long as values stay multiples of 2^-16 below 2^37. div with an '
                           'inexact quotient and sqrt of a non-square leave that domain (model flag St.inexact): '
                           'mutated programs containing div/sqrt are compared as diagnostics (kind G) only',
                           'int64 wrap-around in mul and float->int conversion of values beyond 2^63 are not modelled',
                           'random: the constant 40501/65536 of the Go code is used by both configurations (TN5177 '
                           'allows any value in (0,1])'],
 'assumptions': ['Specification = my reading of Adobe TN5177 (no copy in the sandbox); x/image/font/sfnt implements '
                 'neither flex1 nor the arithmetic operators, so it cannot arbitrate the findings',
                 'subroutine tables are passed to decodeCharString through the hook VerifT2Decode (cff.Read around '
                 'the charstrings, i.e. Private DICT Subrs offsets, belongs to C13)']}

LEVEL = {'text': 'Proof + correspondence: ONE Lean Type 2 interpreter parameterised by ten named quirks; with the Go '
         'quirks it is the model of decodeCharString (value-exact correspondence on grammar-generated, mutated and '
         'random programs, subroutine tables 0..40000 across both bias thresholds), with no quirk it is the TN5177 '
         'specification (D stream: Go result = specification result on well-formed programs; fault programs rejected). '
         'Proved for all inputs: opcode numbers/limits/bias rule as regenerated from the source equal TN5177; operand '
         'decoding of all five encodings; rejection of each single-fault class; operator lemmas (rlineto, hvcurveto '
         'trailing operand, flex1 axis rule, hflex); progress of every path operator with a legal operand count. '
         'Whole-program progress and quirk-irrelevance are proved for the static grammar including calls into stack-neutral subroutine tables, without the six value-dependent operators.',
 'note': 'Trusted: Lean kernel + 3 standard axioms; hand-written model tied by sampled correspondence; float64 vs '
         'exact fixed point outside div/sqrt; TN5177 as remembered.',
 'technique': 'Lean 4 executable interpreter (model = spec + quirks), theorems by case analysis/omega/decide, '
              'differential correspondence against the real decoder'}
