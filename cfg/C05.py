"""Configuration of ./check C05 (see cfg/README)."""

PROP = {'drive': ['T2'], 'harness_files': ['area_t2.go'], 'modules': ['SfntV.Props.C05'],
 'required_theorems': ['C05_opcodes',
                       'C05_limits',
                       'C05_bias',
                       'C05_number_roundtrip',
                       'C05_fixed_roundtrip',
                       'C05_rejects_overflow',
                       'C05_rejects_underflow',
                       'C05_rejects_depth',
                       'C05_rejects_subr',
                       'C05_rejects_subr_run',
                       'C05_rejects_nomove',
                       'C05_rejects_missing_endchar',
                       'C05_rejects_empty',
                       'C05_rlineto',
                       'C05_hvcurveto_trailing',
                       'C05_flex1_axis',
                       'C05_hflex_returns',
                       'C05_progress_pathop_partial',
                       'C05_progress',
                       'C05_quirks_irrelevant',
                       'C05_progress_calls',
                       'C05_quirks_irrelevant_calls',
                       'C05_agrees_on_encoder_output',
                       'C04_output_quirk_free',
                       'C04_glyph_roundtrip_go',
                       'C05_loop_fuel',
                       'C05_step_consumes',
                       'C05_mul_deviates',
                       'C05_flex1_repaired',
                       'C05_clamp_deviates'],
 'areas': [('t2', 4000, 120000), ('t2cff', 400, 20000)],
 'rule': 'distinct case lines (charstring bytes, local/global subroutine tables, default/nominal width); '
         'non-trivial = more than 8 code bytes or a designed boundary/fault program',
 'partial': ['PROVED, whole programs: C05_progress / C05_quirks_irrelevant (call-free) and C05_progress_calls / '
             'C05_quirks_irrelevant_calls (calls into subroutine tables; bodies = sequences of complete TOKENS - a '
             'number, an operator, a mask with its bytes - closed by return or ending the glyph with endchar; the '
             'abstract stack/hint state flows through calls, so operands pushed by the caller with the operator in '
             'the callee, and the converse, are inside; every biased index valid, all three bias classes, tables <= '
             '65536 entries, <= 10 nested calls). Grammar WF: literal operands in all encodings (|v| <= 32000), '
             'optional leading width, hstem/vstem/hstemhm/vstemhm, hintmask/cntrmask with implicit vstem and '
             'ceil(nStems/8) mask bytes, the three movetos, ten path operators + four flex forms, abs add sub neg mul '
             'eq and or not drop dup exch ifelse random, endchar, and the value-dependent operators with LITERAL '
             'deciding operands written directly in front of the operator: "b div" (b != 0), "v sqrt" (v >= 0), '
             '"i index" (i.toNat < depth; negative = top), "n j roll" (1 <= n <= depth), "i put" (0 <= i < 32), "i get".',
             'Also in WF (progress proved): "i get" with a literal index that an earlier "i put" wrote (the simulation '
             'invariant now carries the transient array: none, or 32 entries).',
             'NOT in the grammar / NOT proved: div/sqrt/index/roll/put/get whose deciding operand is not a literal '
             'directly in front of the operator (the general known/unknown abstract interpretation was not done); roll '
             'with count 0 (TN5177 permits it, the Go decoder rejects it); a token split across two bodies cannot '
             'execute at all (error in both decoder and specification).',
             'Agrees (decidable) excludes exactly: mul (finding C05-mul); add, sub, flex1, hflex1 (results / derived '
             'deltas not statically within +-32000: finding C05-clamp); "i get" (the bound on the stored value is not '
             'tracked). INCLUDED with proof: "b div" (integer divisor, so |quotient| <= |dividend|: fxDiv_bnd), '
             '"v sqrt" (Agrees checks, by evaluation on the literal, that the root is within +-32000 - always true '
             'for 0 <= v <= 32000), index, roll, put. The model is a faithful model of the Go decoder for div/sqrt only '
             'when the 16.16 result is exact, because Go keeps the float (model flag St.inexact; tie: V stream t2.dec '
             'on exact cases, G stream otherwise).',
             'Missing endchar: C05_rejects_missing_endchar is now general (every quirk setting, program, subroutine '
             'tables): a glyph is returned only if an endchar operator was executed. Top-level return and running '
             'out of code at top level: error in both Go ("incomplete") and specification. A subroutine body that '
             'runs off its end without return/endchar: TN5177 requires return/endchar; the Go decoder silently '
             'returns to the caller (quirk implicitReturn; finding C05-lenient below).',
             'C05-lenient: shortMovetoIgnored and shortPathOpIgnored are REPAIRED (repository commit df570b3: moveto / '
             'path operators with fewer than the minimum operand count give errStackUnderflow); goQuirks no longer '
             'contains them and the old witnesses 150e / 8b16050e are corpus regression lines (corpus/C05). Still '
             'open (known findings C05-lenient-extra, C05-lenient-return): operands beyond a legal operand count are '
             'silently dropped ("1 2 endchar", 8c8d0e), and a subroutine body that runs off its end without '
             'return/endchar returns to the caller (main 200a0e, subr 929415); FreeType is lenient there too.',
             'Corners of TN5177 outside the theorems, each probed on every run against the specification interpreter '
             '(group t2.outside-theorem-probe; all agree): seac-style endchar with 4 operands, deprecated dotsection, '
             'flex depth operand, vstem operands directly on a hintmask without hstem, hstem after vstem, hintmask '
             'before any stem, stem after hintmask, random (constant 40501/65536 on both sides).',
             'The V stream t2.wf carries the generator\'s claim in the case line and compares it with the Lean '
             'checkers evaluated by the driver on the bytes; t2.theorem-domain / t2.theorem-domain-calls show how many '
             'sampled programs lie in the theorems\' domain.',
             'Fuel: C05_loop_fuel / C05_step_consumes for every quirk setting; nested bodies via loop_of_run.',
             'Bridge to C04 (Proofs/T2Bridge.lean, T2Bridge2.lean): C05_agrees_on_encoder_output = '
             'C04_output_quirk_free: on every charstring C04\'s compiler model emits for a well-formed glyph '
             '(GlyphWF), for every choice of edge paths, interp goQuirks = interp strict, under the hypotheses '
             'operands read back (|step| <= 32767, C04-bigstep) and every path delta within +-32000 (CmdBnd; beyond it '
             'the Go decoder clamps, C05-clamp); corollary C04_glyph_roundtrip_go: C04\'s round trip for the model of '
             'the Go decoder. The composition lemmas of T2Header/T2Masks/T2GlyphFull are re-run for goQuirks by '
             'textual port; the end states are the same strict-drawn states.',
             'Whole CFF files (D stream t2.cfffile, area t2cff): minimal simple and CID-keyed CFF files (1-3 Font '
             'DICTs with different local subroutine tables of 0..33900 entries and different default/nominal widths, '
             'the widths stored as integer or as real DICT operands, glyphs spread over all Font DICTs, local and '
             'global calls at first/middle/last index) are assembled by the harness from the description in the case '
             'line, read by the real cff.Read, and every glyph is compared with Spec.T2.interp run with the '
             'subroutines and widths of ITS Font DICT as the description states them. The Lean side does not parse '
             'the file (the independent party is the harness\'s own assembler; the CFF container is C13\'s); what is '
             'tied is the per-FD decoder setup of cff/read.go and the width entries of readPrivate in cff/dict.go.'],
 'modelled_not_verified': ['float64 evaluation in decodeCharString: the model is exact 16.16 fixed point; it equals '
                           'the float computation as long as values stay multiples of 2^-16 below 2^37. div with an '
                           'inexact quotient and sqrt of a non-square leave that domain (model flag St.inexact): '
                           'mutated programs containing div/sqrt are compared as diagnostics (kind G) only',
                           'int64 wrap-around in mul and float->int conversion of values beyond 2^63 are not modelled',
                           'random: the constant 40501/65536 of the Go code is used by both configurations (TN5177 '
                           'allows any value in (0,1])'],
 'assumptions': ['Specification = my reading of Adobe TN5177 (no copy in the sandbox); x/image/font/sfnt implements '
                 'neither flex1 nor the arithmetic operators, so it cannot arbitrate the findings',
                 'subroutine tables are passed to decodeCharString through the hook VerifT2Decode (cff.Read around '
                 'the charstrings, i.e. Private DICT Subrs offsets, belongs to C13)']}

LEVEL = {'text': 'Proof + correspondence: ONE Lean Type 2 interpreter parameterised by ten named quirks; with the Go '
         'quirks it is the model of decodeCharString (value-exact correspondence on grammar-generated, mutated and '
         'random programs, subroutine tables 0..40000 across both bias thresholds), with no quirk it is the TN5177 '
         'specification (D stream: Go result = specification result on well-formed programs; fault programs rejected). '
         'Proved for all inputs: opcode numbers/limits/bias rule as regenerated from the source equal TN5177; operand '
         'decoding of all five encodings; rejection of each single-fault class; operator lemmas (rlineto, hvcurveto '
         'trailing operand, flex1 axis rule, hflex); progress of every path operator with a legal operand count. '
         'Whole-program progress and quirk-irrelevance are proved for the static grammar including calls into stack-neutral subroutine tables, without the six value-dependent operators.',
 'endchar_note': 'endchar operand counts: Spec.T2 (strict) accepts 0 or 4 operands (4 = adx ady bchar achar, TN5177 Appendix C) '
                 'plus one leading width operand while the width is open; probed every run with 0..5 operands, first and '
                 'after a width-settling operator, with dw != nw != 0 and adx != 0 (V t2.dec + D t2.spec on the legal ones). '
                 'Stems: neither decoder nor Spec.T2 enforces the 96-stem limit (97 stems decode on both sides).',
 'note': 'Trusted: Lean kernel + 3 standard axioms; hand-written model tied by sampled correspondence; float64 vs '
         'exact fixed point outside div/sqrt; TN5177 as remembered.',
 'technique': 'Lean 4 executable interpreter (model = spec + quirks), theorems by case analysis/omega/decide, '
              'differential correspondence against the real decoder'}
