"""Configuration of ./check C01 (see cfg/README)."""

PROP = {'drive': ['Font'],
 'modules': ['SfntV.Props.C01', 'SfntV.Props.C01Codecs', 'SfntV.Props.C01File', 'SfntV.Props.C01FileEx', 'SfntV.Props.C01FileCff', 'SfntV.Props.C01FileCffEx', 'SfntV.Props.C01FileLayout', 'SfntV.Props.C01FileLayoutEx', 'SfntV.Props.C01FileCffC13', 'SfntV.Props.C01FileCffC13Ex', 'SfntV.Props.C01FileCffT2', 'SfntV.Props.C01FileCffT2Ex'],
 'required_theorems': ['C01_write_accepted',
                       'C01_read_write',
                       'C01_env_irrelevant',
                       'C01_derive_clock_free',
                       'C01_lossless',
                       'C01_nf_idem',
                       'C01_fixed_point_partial',
                       'C01_fixed_point_complete_files',
                       'C01_fixed_point_truetype',
                       'C01_codec_assumptions_discharged',
                       'C01_file_roundtrip',
                       'C01_file_example_in_domain',
                       'C01_file_example',
                       'C01_file_roundtrip_cff',
                       'C01_file_example_cff_in_domain',
                       'C01_file_example_cff',
                       'C01_file_roundtrip_layout',
                       'C01_file_roundtrip_cff_layout',
                       'exG_budget',
                       'C01_file_example_layout_in_domain',
                       'C01_file_example_layout',
                       'C01_file_example_cff_layout_in_domain',
                       'C01_file_example_cff_layout',
                       'C01_file_roundtrip_cff_c13',
                       'exFontIn_writes',
                       'exFontIn_dom',
                       'exFontIn_view',
                       'C01_file_example_cff_c13_in_domain',
                       'C01_file_example_cff_c13',
                       'C01_file_roundtrip_cff_t2',
                       'C01_t2_width_encoded',
                       'exFontIn_view_t2',
                       'C01_file_example_cff_t2_in_domain',
                       'C01_file_example_cff_t2',
                       'C01_head_codec',
                       'C01_os2_codec',
                       'C01_post_codec',
                       'C01_fixed_point_full_false',
                       'C01_version_round_idem',
                       'C01_time_roundtrip',
                       'C01_angle_round_idem'],
 'areas': [('font', 2000, 12000)],
 'rule': 'distinct case lines; a font.meta/font.nf/font.derive/font.fixed/font.twice line is a complete sfnt.Font value '
         '(all scalar fields + recipes for outlines incl. CID-keyed font dicts and matrices, cmap subtables, GDEF/GSUB/GPOS '
         'shapes), a font.merge line a complete foreign table set (one decoded record per table or "-"); all are '
         'non-trivial (every line exercises every field)',
 'partial': ['BYTE LEVEL (Model/FontFile.lean, Model/FontFileCff.lean; Props/C01File*.lean): writeFile / readFile compose '
             'header.Write/Read (C03), head, hhea+hmtx, maxp, OS/2 (C12), name and post incl. glyph names (C14), cmap '
             '(C09), glyf/loca (C11) exactly as write.go / read.go do, and C01_file_roundtrip proves readFile (writeFile F) '
             '= nfFile F for TrueType fonts in InDomainFile = the explicit conjunction of the guards of the composed '
             'theorems (notably: strings Mac-Roman representable because Write also emits a Macintosh name table; '
             'REGULAR excludes BOLD/ITALIC; heights >= 0; int16 metrics; <= 4 distinct side tables; file < 4 GiB). GDEF/GSUB/GPOS: '
             'C01_file_roundtrip_layout / C01_file_roundtrip_cff_layout (Proofs/FontFileLayout.lean) instantiate the '
             'layout decoders with C08\'s MODEL OF THE GO READERS (InfoA.gdefTok = gdef.Read; InfoA.decTokGo gsubCodec 7 / '
             'gposCodec 9 = Info.readGo = gtab.Read incl. readLookupList with the codec subtable readers, '
             'Proofs/OtlInfoGo.lean) - no abstract decoder and no specification reader is left for these tables; domain: '
             'each present table is Info.encode / GdefV.encode of a value in InfoOk / GdefOk within the reader budget '
             '(BudgetOk: lookups + subtables <= 6000) (example: the 150-byte GSUB of C08 exG inside both example fonts, '
             'exG_budget, C01_file_example_layout, C01_file_example_cff_layout). Limits inherited from C08: class tables '
             'come back in normal form inside the codecs\' nf (one hypothesis hal remains inside gsub_ok_C2), GDEF '
             'round-trips as an equation (gdef_roundtrip_eq), and the decoded value enters the font model as a token of '
             'the bytes. '
             'The CFF table: C01_file_roundtrip_cff_c13 (Proofs/FontFileCffC13.lean) replaces the abstract decCff by '
             'decCffC13 T S = C13 readFont (header, INDEXes, Top/Private/Font DICTs, strings, charset, Encoding, FDSelect, '
             'all offsets) followed by viewOf S, and the guard by C13\'s domain (CffTableOk: the table is writeFont of a '
             'FontIn in SimpleDom or CidDom, < 2 GiB); FontInfo strings and IsFixedPitch are read off the FontOut concretely '
             '(bytewise = exact for ASCII; non-ASCII FontInfo strings are outside the domain). What stays an EXPLICIT, '
             'arbitrary parameter S : CffSem, not discharged: (1) glyphs = interpretation of the Type 2 charstrings giving '
             'advance widths and extents (C04/C05), (2) real / matrix = conversion of a DICT decimal to the float64 of the '
             'Go value and of the font matrix to the opaque FM, (3) token = summary of the remaining decoded content. '
             'Example C01_file_example_cff_c13: real 391-string tables, a 138-byte CFF table proved to be writeFont of '
             'exFontIn (3 passes), 1236-byte OTTO file read back through C13 and C08 readers. '
             'WIDTHS: C01_file_roundtrip_cff_t2 (Proofs/FontFileCffT2.lean) instantiates (1) for the advance widths: '
             'semT2 q ext runs T2.interp q (q = goQuirks = model of decodeCharString, C05) on every charstring C13 readFont '
             'returns, in the environment of its private DICT, and the widths Read returns are int16(trunc(g.width)) of the '
             'interpreted glyphs; C01_t2_width_encoded gives the C04 width formula for encodeCharString output (hypotheses: '
             'GlyphWF, steps <= 32767 (C04-bigstep), path deltas within +-32000 (CmdBnd, C05-clamp); via eng-t2\'s bridge '
             'glyph_roundtrip_go - no hypothesis about decoder quirks is left). Still explicit: ext (extent '
             'of a decoded glyph), real, matrix, token; default/nominal widths that are not multiples of 2^-16 are rejected '
             'by the model (outside the domain). Example C01_file_example_cff_t2 (both charstrings interpreted in kernel). C01_file_roundtrip_cff is the '
             'OpenType/CFF flavour with every table around the outlines composed. The ligature GSUB that Read '
             'synthesises is a token (C15 standardLigatures printed), not a gtab payload. Tied by V font.file: '
             'byte-exact equality of the model file with the real Font.Write on every generated font of all three '
             'outline kinds (CFF and layout table bytes taken from the real encoders as oracle).',
             'Theorems cover the font-level plumbing only: FontMeta = every scalar field of sfnt.Font (names, '
             'licensing strings as code-point lists - any Unicode scalar value incl. astral ones -, width/weight class, '
             'six style flags, code pages, version, both timestamps, permissions, unitsPerEm, five vertical metrics, '
             'italic angle, underline metrics), advance widths, glyph count, and the decisions about FontMatrix, '
             'cap/x-height fallback, GSUB/GPOS synthesis. Glyph outlines, glyph names, CID font dicts and their matrices, '
             'cmap content, GDEF/GSUB/GPOS content and the CFF private data are opaque tokens in the model (token = digest '
             'of the re-encoded data plus presence and the numbers of scripts/features/lookups resp. classes): their '
             'survival is checked on the real code by the streams font.meta/font.nf/font.merge/font.fixed and is proved, '
             'per table, in C08/C09/C11/C13; for head, OS/2, post header, maxp, name strings, cmap and glyf/loca the '
             'abstract codec is instantiated with the concrete codecs (C01_codec_assumptions_discharged).',
             'Strings: the name-table byte codec (UTF-16 with surrogate pairs, Mac Roman, shared string storage, 64 KiB '
             'limit) is C14; here it is exercised on the real code with astral code points, BMP boundaries (U+D7FF, '
             'U+E000, U+FFFF, U+10FFFF), non-MacRoman text, empty strings, long strings (12000 code points in the '
             'thorough tier) and equal strings in several fields, each field drawn independently.',
             'C01_fixed_point_partial holds for every accepted, decoder-produced table set that is in none of the '
             'open finding classes (structure Stable, one clause per class): C01-bold-word (Subfamily() says "Bold" '
             'while IsBold is clear: weight 650..749, family name without "Bold"; negation proved as '
             'C01_fixed_point_full_false), C01-no-hmtx-cff-widths (CFF file without usable hmtx and fractional CFF '
             'widths), and the int16 range of CFF underline metrics in a file without post table. '
             'C01_fixed_point_complete_files / C01_fixed_point_truetype: a file with post and hmtx tables, and every '
             'TrueType file with a post table, can only fail the first. C01-empty-glyf, C01-no-hmtx-widths and '
             'C01-no-post-underline are repaired (3cdbec2, feedc74, 0dc7ef1); the model mirrors the repaired code '
             '(REPAIRED comments in Model/FontMerge.lean) and the old failing inputs are corpus/C01/regress.case.',
             'C01_read_write needs InDomain: one width per glyph and version < 2^32 (what the Go types cannot '
             'express).',
             'Present-but-empty layout tables (no scripts/features/lookups, a script without features, a feature '
             'without lookups, an unreachable lookup, nil script map) survive Write/Read since the gtab fix d444265 and '
             'take part in every stream; they are compared by presence and by number of scripts/features/lookups.',
             'Byte-level clauses are checked on the real code, not proved (the model has no bytes): generation 2 = '
             'generation 3 byte for byte (font.fixed) and repeated Write of every generated font and of the font Read '
             'returns for it (font.twice: 3 writes each, 60 when a map-keyed structure has keys colliding on a prefix of '
             'its sort key - several Mac cmap subtables, several languages of a script, kerning pairs with a common first '
             'glyph, multi-glyph GDEF classes -, 200 on a sample). Name records of several languages cannot be produced '
             'through Font.Write (it builds the en / en-US pair itself). Map-order independence of the encoders as '
             'theorems is C03/C08/C09/C14.',
             'Float-valued inputs are exact dyadic rationals in the model; out-of-range float->int conversions '
             '(|x| >= 2^15 for widths/underline, |angle| >= 2^15 degrees) are modelled as amd64 does them and lie '
             'outside the stated domain.'],
 'modelled_not_verified': ['table codecs are abstract: `codec` applies only the record-level normalisations of '
                           'head (times), OS/2 (fsSelection, fsType, positive heights), post (16.16 angle), glyf '
                           '(no widths); everything else is assumed to round-trip (C08/C09/C11/C12/C13/C14)',
                           'hhea caret angle (float trigonometry), CFF DICT real numbers (decimal codec) and the '
                           'FontMatrix->unitsPerEm fallback are oracle values supplied by the harness from the real '
                           'decoders',
                           'fmt.Sprintf("%.03f") and strconv.ParseFloat are modelled by exact rational arithmetic '
                           '(argued exact for versions < 65536 with at most 6 fractional digits); regexp '
                           '`^(?:Version )?(\\d+\\.?\\d+)` and the PostScript-name class are re-implemented',
                           'language.Matcher in name.Tables.Choose is not modelled: foreign name tables carry one '
                           'Windows en-US and/or one Mac en table'],
 'assumptions': ['codec round trip = identity apart from the listed normalisations is now CITED for head, OS/2, post '
                 'header, maxp, name strings, cmap and glyf/loca (C01_codec_assumptions_discharged instantiates the '
                 'abstract codec with the concrete codecs of C12/C14/C09/C11 on their domains); it remains an '
                 'assumption for hhea/hmtx (C12 models the caret slope as an integer pair, the font model as an '
                 'oracle), the CFF table (C13: DICT reals are decimal) and GDEF/GSUB/GPOS (C08: opaque tokens here)',
                 'Go map iteration order does not influence the records (sorted by the encoders: C03/C08/C09/C14)',
                 'amd64 semantics of out-of-range float->integer conversions']}

LEVEL = {'text': 'Proof (partial): for every font value with one width per glyph, reading back the table records that '
         'the model of (*Font).Write derives gives exactly the explicit normal form nf F (C01_read_write); fonts '
         'satisfying the explicit predicate Canonical come back unchanged (C01_lossless); for every accepted '
         'decoder-produced table set outside the classes listed in Stable, Read(Write(Read(T))) = Read(T) '
         '(C01_fixed_point_partial), and the unrestricted statement is refuted with a concrete witness '
         '(C01_fixed_point_full_false). Tied to write.go/read.go/font.go by field-exact correspondence on '
         'constructed fonts (both outline kinds; CID-keyed CFF with 1-3 font dicts, top-level matrix identity or scaled, '
         'per-FD matrices identity/scaled/different; cmap tables with several Macintosh subtables per encoding and '
         'full-repertoire subtables; GSUB/GPOS/GDEF with several languages per script, kerning pairs sharing a first '
         'glyph, multi-glyph classes; extreme field values, all weight thresholds) and on '
         'foreign table combinations (each table absent in turn, OS/2 versions 0-4, Mac/Windows name tables, kern), '
         'by decoding the written tables with the repository\'s own decoders (font.derive), and by direct predicates on '
         'the real code: Read(Write(F)) = nf F with nf evaluated in Lean (font.nf), the three-generation predicate '
         'with byte comparison (font.fixed) and repeated Write of every generated font (font.twice).',
 'note': 'Trusted: Lean kernel + 3 standard axioms; hand-written model of the plumbing in write.go/read.go/font.go, '
         'checked by correspondence; table codecs abstract (see assumptions).',
 'technique': 'Lean 4 proof about an executable model of Write-derive / Read-merge at the level of decoded table '
              'records + differential correspondence + direct generation-1/2/3 predicate on the real code'}
