"""Configuration of ./check C17 (see cfg/README)."""

PROP = {'drive': ['Parser'],
 'modules': ['SfntV.Props.C17'],
 'required_theorems': ['C17_refines', 'C17_histories', 'C17_spec_fixed', 'C17_spec_bulk'],
 'areas': [('parser', 3000, 60000)],
 'rule': 'distinct case lines (input bytes, chunk oracle, op history); non-trivial = history of >= 2 ops on '
         'a non-empty input',
 'partial': [],
 'modelled_not_verified': ['underlying io.ReadSeeker modelled as a short-read oracle delivering '
                           '1..min(wanted,available) bytes; readers returning errors are outside C17 (see '
                           'C18)',
                           'a Read that returns (0, nil) forever is excluded (io.Reader contract discourages '
                           'it)'],
 'assumptions': ['ReadBytes(n) only with n <= bufferSize (documented; the code panics otherwise)',
                 'SeekPos only to non-negative offsets']}

LEVEL = {'text': 'Proof: the model of parser.Parser (every exported method, refill loop, arbitrary short-read '
         'oracle) is proved in Lean to produce, for every input, every oracle and every finite operation '
         'history, exactly the outputs of a cursor over the plain byte slice (C17_histories), with closed '
         'forms for fixed and bulk reads. The model is tied to parser/parser.go by output-exact '
         'correspondence on exhaustive short and random long histories around the 1024-byte boundary; '
         'bufferSize is regenerated from the source.',
 'note': 'Trusted: Lean kernel + 3 standard axioms; the hand-written model mirrors parser.go as checked by '
         'the sampled correspondence (verdict stream: outputs and Pos after every op; diagnostic: window '
         'state via verif hook); underlying reader = short-read oracle without errors.',
 'technique': 'Lean 4 refinement proof (invariant + induction over histories) + differential correspondence'}
