"""Configuration of ./check C03 (see cfg/README)."""

PROP = {'drive': ['Header'],
 'modules': ['SfntV.Props.C03'],
 'required_theorems': ['C03_no_panic',
                       'C03_ok_iff',
                       'C03_wellformed',
                       'C03_parse_write',
                       'C03_tables_kept',
                       'C03_perm',
                       'C03_read_write'],
 'areas': [('header', 500, 8000), ('fontfile', 12, 120)],
 'harness_files': ['area_header.go', 'area_fontfile.go'],
 'rule': 'distinct case lines (scaler, tag->bytes map / file bytes); non-trivial = at least two tables',
 'partial': ["clause 'an independent sfnt implementation reading a complete font file reports the same glyph "
             "count, units per em, mapping, widths, names, outlines' is a corollary of C09/C11/C12/C14 spec "
             'decoders and is only as complete as those; the x/image oracle checks glyph count, units per em, character mapping and advance widths (stream header.ximage), glyph names of TrueType files (header.xnames) and the outlines (header.xoutline: every on/off-curve point of every simple TrueType glyph, the complete segment list of CFF glyphs with integral coordinates) on complete files written from Go Regular/Mono/Bold Italic/Smallcaps, the debug CFF font and subsets of them; composite glyphs and CFF glyph names are not compared (x/image exposes neither)',
             'C03_read_write (the model of the library reader header.Read accepts every written file and '
             'returns exactly the written bodies) is a theorem; that the model of header.Read is header.Read is the '
             'verdict stream header.read (well-formed, truncated and mutated files)'],
 'modelled_not_verified': ['encoding/binary.Write and sort.Slice re-implemented in Lean (be16/be32, '
                           'mergeSort) and compared by byte-exact correspondence',
                           'uint32 wrap of offsets is outside Dom (file size < 2^32)'],
 'assumptions': ['Dom: map keys distinct (Go map), file size < 2^32, fewer than 4096 tables (16-bit '
                 'searchRange)']}

LEVEL = {'text': 'Proof: for every scaler type and every tag->bytes map in Dom, the model of header.Write yields '
         'bytes satisfying an independent executable definition of a well-formed sfnt container (sorted '
         'directory, search fields, alignment, containment, disjointness, per-table checksums, whole-file '
         'checksum 0xB1B0AFBA), an independent directory parser recovers exactly the written bodies, the '
         'writer never panics, and the output is independent of map iteration order. Tied to header/write.go '
         'by byte-exact correspondence (model bytes = Go bytes) and by evaluating WellFormed/specParse on '
         'the Go-written bytes; ttTableOrder and the magic constant are regenerated from the source.',
 'note': 'Trusted: Lean kernel + 3 standard axioms; hand-written model of header.Write/Read mirrors the code '
         'as checked by sampled byte-exact correspondence; WellFormed is my reading of the OpenType '
         'font-file chapter.',
 'technique': 'Lean 4 proof about the writer model against an executable well-formedness spec + byte-exact '
              'differential correspondence'}
